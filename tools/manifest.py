#!/usr/bin/env python3
"""Regenerates MANIFEST.json from the table below. A property is claimed iff its driver package
exists under harness/props/; everything else is listed under not_applicable with the reason."""
import json, os, subprocess
ROOT = os.path.dirname(os.path.dirname(os.path.abspath(__file__)))
T = {
 # id: (category, technique, text, note, design_ref)
 "C22": ("exploration", "runtime monitor over scripted changelogs: signed-multiset consolidation oracle at every forwarded watermark; bounded-exhaustive scripts + seeded random",
         "Runs the real wrapper node over every valid script up to a length bound (2 rows x 2 event times, watermarks at every legal position) and over seeded random longer scripts; an oracle compares consolidated output with the settled input at each watermark. Held-on-observed, exhaustive within the stated bound.",
         "Trusted: Go toolchain; the harness's own multiset consolidation and canonical row encoding (nodeh). Inputs never contain late records.", "§4 C22"),
}
def main():
    props = [json.loads(l) for l in open(os.path.join(ROOT, "properties.jsonl"))]
    extra = {}
    p = os.path.join(ROOT, "tools", "manifest_table.json")
    if os.path.exists(p):
        extra = json.load(open(p))
    d = os.path.join(ROOT, "tools", "manifest.d")
    if os.path.isdir(d):
        for f in sorted(os.listdir(d)):
            if f.endswith(".json"):
                extra.update(json.load(open(os.path.join(d, f))))
    checks, na = [], []
    for pr in props:
        pid = pr["id"]
        have = os.path.isdir(os.path.join(ROOT, "harness", "props", pid.lower()))
        row = extra.get(pid) or T.get(pid)
        if have and row:
            if isinstance(row, (list, tuple)):
                cat, tech, text, note, ref = row
            else:
                cat, tech, text, note, ref = row["category"], row["technique"], row["text"], row["note"], row["design_ref"]
            checks.append({
                "property_id": pid,
                "quick_cmd": "./check %s quick" % pid,
                "thorough_cmd": "./check %s thorough" % pid,
                "evidence_file": "/verif/evidence/%s.json" % pid,
                "replay_cmd_template": "./check %s quick --replay {path}" % pid,
                "engine": "vharness",
                "level_claimed": {"category": cat, "text": text, "design_ref": ref},
                "level_note": note,
                "technique": tech,
            })
        else:
            na.append({"property_id": pid, "reason": "runtime-monitoring driver for this property is not built yet (work in progress); the technique applies, see DESIGN.md"})
    try:
        commits = subprocess.check_output(["git", "-C", "/repo", "log", "--format=%h %s", "--grep=^verif hook"], text=True).strip().splitlines()
    except Exception:
        commits = []
    m = {
        "version": 1,
        "setup_cmd": "./setup.sh",
        "hooks": {
            "guard": "verif",
            "enable": "go build -tags verif (lib/build.sh builds octosql, octosql-race, vharness, vharness-race, testplugin with the tag on)",
            "baseline_off_cmd": "cd /repo && GOFLAGS=-mod=mod GOPROXY=off GOSUMDB=off GOTOOLCHAIN=local go test -json -vet=off -count=1 -timeout 25m ./...",
            "source_commits": [c.split()[0] for c in commits],
            "add_only": False,
        },
        "engines": [{"name": "vharness", "path": "/verif/harness", "serves_properties": [c["property_id"] for c in checks],
                     "kind_free_text": "Go harness linking octosql's packages (in-process node/API monitors) and driving the real CLI binary (one process per query); deterministic oracles over recorded executions; Go race detector builds for the concurrency properties"}],
        "checks": checks,
        "not_applicable": na,
        "notes": "All checks: ./check <ID> quick|thorough, honour VERIF_SEED. Known findings: known_findings.json (read-only at run time). hooks.add_only is false only because of e105158: the four original hook commits (1cffc57, 2e44e19, e214d15, f982e9b) add lines only; e105158 moves two of the hook lines themselves (the torn-write points) onto the temporary files that two fix: commits introduced. No hook commit rewrites or deletes a line of octosql's own code. Seeded-change experiments: seeded/ (tools/seedtest.sh points the same checks at a scratch worktree through VERIF_REPO; registered commands never set it).",
    }
    json.dump(m, open(os.path.join(ROOT, "MANIFEST.json"), "w"), indent=1)
    print("claimed:", len(checks), "not_applicable:", len(na))
main()

#!/usr/bin/env python3
"""Merges findings.d/*.json into known_findings.json (the one committed known-findings file) and
empties findings.d. Idempotent; run by the lead, never at check run time."""
import json,glob,os
root=os.path.dirname(os.path.dirname(os.path.abspath(__file__)))
kf=os.path.join(root,'known_findings.json')
j=json.load(open(kf))
seen={(f.get('property'),f.get('key'),f.get('status'),f.get('commit')) for f in j['findings']}
for fn in sorted(glob.glob(os.path.join(root,'findings.d','*.json'))):
    for f in json.load(open(fn))['findings']:
        k=(f.get('property'),f.get('key'),f.get('status'),f.get('commit'))
        if k in seen: continue
        seen.add(k); j['findings'].append(f)
    os.remove(fn)
j['findings'].sort(key=lambda f:(f.get('property',''),f.get('status',''),f.get('key','')))
json.dump(j,open(kf,'w'),indent=1)
print(len(j['findings']),'findings;', sum(1 for f in j['findings'] if f['status']=='open'),'open')

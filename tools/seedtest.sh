#!/bin/bash
# usage: tools/seedtest.sh <scratch worktree of /repo> <patch.diff> <ID> [<ID> ...]
# Applies a seeded change to a SCRATCH worktree (never /repo), points the registered checks at it
# through VERIF_REPO, prints each check's verdict, and restores the worktree.
set -uo pipefail
cd "$(dirname "$0")/.."
WT="$1"; PATCH="$2"; shift 2
TIER="${SEED_TIER:-quick}"
git -C "$WT" checkout -q -- . && git -C "$WT" clean -fdq -e _seed && git -C "$WT" checkout -q --detach "$(git -C /repo rev-parse HEAD)" && git -C "$WT" apply "$PATCH" || { echo "patch does not apply"; exit 2; }
trap 'git -C "$WT" checkout -q -- .; git -C "$WT" clean -fdq -e _seed' EXIT
for id in "$@"; do
  out=$(VERIF_REPO="$WT" timeout "${SEED_TIMEOUT:-1800}" ./check "$id" "$TIER" 2>&1); rc=$?
  nv=$(echo "$out" | grep -c '^VIOLATION')
  echo "== $id rc=$rc violations_printed=$nv"
  echo "$out" | grep -E '^(VIOLATION|  key=|SUMMARY|INCONCLUSIVE|BUILD)' | head -${SEED_LINES:-6} | cut -c1-400
done

#!/bin/bash
# usage: tools/runall.sh [tier] [ids...]   — runs checks sequentially, prints verdict lines
cd "$(dirname "$0")/.."
TIER="${1:-quick}"; shift || true
IDS="$@"; [ -z "$IDS" ] && IDS=$(python3 -c "import json;print(' '.join(c['property_id'] for c in json.load(open('MANIFEST.json'))['checks']))")
for id in $IDS; do
  s=$(date +%s)
  out=$(timeout "${RUNALL_TIMEOUT:-3600}" ./check $id $TIER 2>&1); rc=$?
  e=$(( $(date +%s) - s ))
  echo "=== $id rc=$rc ${e}s"
  echo "$out" | grep -a -E '^(VIOLATION|  key=|KNOWN-FINDING|INCONCLUSIVE|SUMMARY|BUILD)' | cut -c1-230 | head -${RUNALL_LINES:-14}
done

#!/usr/bin/env python3
"""usage: tools/finding_fixed.py <prop> <commit> <key> [<key>...]  — marks findings.d entries as fixed"""
import json,sys,glob
prop,commit,keys=sys.argv[1],sys.argv[2],sys.argv[3:]
for fn in glob.glob('/verif/findings.d/*.json')+['/verif/known_findings.json']:
    j=json.load(open(fn)); ch=False
    for f in j['findings']:
        if f.get('property')==prop and f.get('key') in keys and f.get('status')=='open':
            f['status']='fixed'; f['commit']=commit
            f['what']='fixed: property=%s %s %s'%(prop,commit,f['what']); ch=True
            print('fixed',prop,f['key'],'in',fn)
    if ch: json.dump(j,open(fn,'w'),indent=1)

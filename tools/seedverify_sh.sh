#!/bin/bash
# usage: tools/seedverify_sh.sh <worktree> <patch.diff> <demo.sh>   (demo.sh run from the worktree root; exit 0 = pass)
set -uo pipefail
. "$(dirname "$0")/../lib/env.sh"
WT="$1"; PATCH="$2"; DEMO="$3"
cd "$WT" || exit 2
git checkout -q -- .
trap 'git -C "$WT" checkout -q -- .' EXIT
timeout 1200 bash "$DEMO" >/tmp/sv.$$.clean 2>&1; rc_clean=$?
git apply "$PATCH" || { echo APPLY-FAILED; exit 2; }
timeout 900 go build ./... >/tmp/sv.$$.build 2>&1; rc_build=$?
timeout 1500 go test -vet=off -count=1 ./... >/tmp/sv.$$.suite 2>&1; rc_suite=$?
timeout 1200 bash "$DEMO" >/tmp/sv.$$.mut 2>&1; rc_mut=$?
echo "demo_on_clean_rc=$rc_clean build_rc=$rc_build suite_rc=$rc_suite demo_on_mutant_rc=$rc_mut"
if [ $rc_clean -eq 0 ] && [ $rc_build -eq 0 ] && [ $rc_suite -eq 0 ] && [ $rc_mut -ne 0 ]; then echo CONFIRMED; else echo NOT-CONFIRMED; tail -5 /tmp/sv.$$.*; fi
rm -f /tmp/sv.$$.*

#!/bin/bash
# usage: tools/seedverify.sh <worktree> <patch.diff> <demo_test.go> <package dir rel. to worktree> <go test -run pattern>
# Confirms a seeded change: demo passes on the clean tree; with the patch the tree builds, the
# existing suite passes, and the demo fails. Leaves the worktree clean.
set -uo pipefail
. "$(dirname "$0")/../lib/env.sh"
WT="$1"; PATCH="$2"; DEMO="$3"; PKG="$4"; PAT="$5"
cd "$WT" || exit 2
git checkout -q -- . ; 
DEMOFILE="$PKG/zz_seed_demo_test.go"
cleanup() { rm -f "$WT/$DEMOFILE"; git -C "$WT" checkout -q -- .; }
trap cleanup EXIT
cp "$DEMO" "$DEMOFILE"
timeout 900 go test ${SEEDVERIFY_FLAGS:-} -vet=off -count=1 -run "$PAT" "./$PKG/" >/tmp/seedverify.$$.clean 2>&1; rc_clean=$?
git apply "$PATCH" || { echo "APPLY-FAILED"; exit 2; }
rm -f "$DEMOFILE"
timeout 900 go build ./... >/tmp/seedverify.$$.build 2>&1; rc_build=$?
timeout 1500 go test -vet=off -count=1 ./... >/tmp/seedverify.$$.suite 2>&1; rc_suite=$?
cp "$DEMO" "$DEMOFILE"
timeout 900 go test ${SEEDVERIFY_FLAGS:-} -vet=off -count=1 -run "$PAT" "./$PKG/" >/tmp/seedverify.$$.mut 2>&1; rc_mut=$?
echo "demo_on_clean_rc=$rc_clean build_rc=$rc_build suite_rc=$rc_suite demo_on_mutant_rc=$rc_mut"
if [ $rc_clean -eq 0 ] && [ $rc_build -eq 0 ] && [ $rc_suite -eq 0 ] && [ $rc_mut -ne 0 ]; then echo CONFIRMED; else echo NOT-CONFIRMED; tail -5 /tmp/seedverify.$$.clean /tmp/seedverify.$$.build /tmp/seedverify.$$.suite /tmp/seedverify.$$.mut; fi
rm -f /tmp/seedverify.$$.*

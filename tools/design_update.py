#!/usr/bin/env python3
"""Regenerates the generated tables inside DESIGN.md (between <!-- BEGIN:x --> / <!-- END:x -->)."""
import subprocess,os,re
root=os.path.dirname(os.path.dirname(os.path.abspath(__file__)))
p=os.path.join(root,'DESIGN.md'); s=open(p).read()
for k in ('fixed','open','seeded','strengthened'):
    t=subprocess.check_output(['python3',os.path.join(root,'tools','design_tables.py'),k],text=True).strip()
    s=re.sub(r'<!-- BEGIN:%s -->.*?<!-- END:%s -->'%(k,k),lambda m:'<!-- BEGIN:%s -->\n%s\n<!-- END:%s -->'%(k,t,k),s,flags=re.S)
open(p,'w').write(s)

#!/usr/bin/env python3
"""Prints the markdown tables of DESIGN.md §14 (findings and seeded changes) from the committed data."""
import json,glob,os,sys
root=os.path.dirname(os.path.dirname(os.path.abspath(__file__)))
fs=json.load(open(os.path.join(root,'known_findings.json')))['findings']
for fn in sorted(glob.glob(os.path.join(root,'findings.d','*.json'))):
    fs+=json.load(open(fn))['findings']
def cell(s): return (s or '').replace('|','\\|').replace('\n',' ')
which=sys.argv[1] if len(sys.argv)>1 else 'all'
if which in('all','fixed'):
    print('| property | key | commit | what failed |'); print('|---|---|---|---|')
    seen=set()
    for f in sorted(fs,key=lambda f:(f['property'],f.get('key',''))):
        if f['status']!='fixed': continue
        k=(f['property'],f.get('key'),f.get('commit'))
        if k in seen: continue
        seen.add(k)
        w=f['what']
        pre='fixed: property=%s %s '%(f['property'],f.get('commit',''))
        if w.startswith(pre): w=w[len(pre):]
        print('| %s | %s | %s | %s |'%(f['property'],cell(f.get('key','')),f.get('commit',''),cell(w[:260])))
if which in('all','open'):
    print(); print('| property | key | what fails |'); print('|---|---|---|')
    for f in sorted(fs,key=lambda f:(f['property'],f.get('key',''))):
        if f['status']!='open': continue
        print('| %s | %s | %s |'%(f['property'],cell(f.get('key','')),cell(f['what'][:300])))
if which in('all','seeded'):
    print(); print('| id | property | change | needs, in order to manifest | detected by |'); print('|---|---|---|---|---|')
    for d in sorted(glob.glob(os.path.join(root,'seeded','*','meta.json'))):
        m=json.load(open(d))
        det='; '.join('%s: %s'%(k,v) for k,v in m['detected_by'].items())
        print('| %s | %s | %s | %s | %s |'%(m['id'],m['property'],cell(m['summary']),cell(m['needs_to_manifest']),cell(det)))

if which in('all','strengthened'):
    print()
    for d in sorted(glob.glob(os.path.join(root,'seeded','*','meta.json'))):
        m=json.load(open(d))
        for k,v in m['detected_by'].items():
            if 'first run missed' in v:
                print('* **%s** (%s, via seeded change %s — %s): %s'%(k,m['property'],m['id'],cell(m['summary']),cell(v.replace('quick: ',''))))
    print()
    for d in sorted(glob.glob(os.path.join(root,'seeded','*','meta.json'))):
        m=json.load(open(d))
        nd=[k for k,v in m['detected_by'].items() if 'not detected' in v or 'INCONCLUSIVE' in v]
        if nd:
            print('* %s is not reported by %s: %s'%(m['id'],', '.join(nd),'; '.join(cell(m['detected_by'][k]) for k in nd)))

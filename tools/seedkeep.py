#!/usr/bin/env python3
"""usage: tools/seedkeep.py <seed id> <property> <src dir> <needs> <summary> [<check>=<what it reported> ...] [--patch file]
Copies a confirmed seeded change into /verif/seeded/<seed id>/ (patch.diff, demonstration, notes, meta.json)."""
import json,os,shutil,glob,sys
args=sys.argv[1:]
patch=None
if '--patch' in args:
    i=args.index('--patch'); patch=args[i+1]; del args[i:i+2]
sid,prop,src,needs,summary=args[:5]
det={}
for a in args[5:]:
    k,v=a.split('=',1); det[k]=v
d='/verif/seeded/'+sid
os.makedirs(d,exist_ok=True)
shutil.copy(patch or src+'/patch.diff', d+'/patch.diff')
for f in glob.glob(src+'/*_test.go')+glob.glob(src+'/*.sh')+glob.glob(src+'/notes.md'):
    shutil.copy(f,d+'/'+os.path.basename(f)+('.txt' if f.endswith('_test.go') else ''))
json.dump({"id":sid,"property":prop,"summary":summary,"needs_to_manifest":needs,
 "confirmed":"tools/seedverify(.sh|_sh.sh): the demonstration passes on the clean tree; with the patch `go build ./...` and the unedited test suite pass and the demonstration fails",
 "detected_by":det},open(d+'/meta.json','w'),indent=1)
print('kept',sid)

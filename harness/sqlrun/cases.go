package sqlrun

import (
	"encoding/json"
	"fmt"
	"os"
	"sort"
	"strings"

	"github.com/cube2222/octosql/plugins/verifharness/core"
	"github.com/cube2222/octosql/plugins/verifharness/sqlref"
)

// CaseID names case i of a property at the context's seed; case lists do not depend on the tier
// (the thorough list is a superset of the quick one).
func CaseID(c *core.Ctx, kind string, i int) string {
	return fmt.Sprintf("%s-%s-s%d-%d", strings.ToLower(c.Prop), kind, c.Seed, i)
}

// Only resolves --only / --replay into the case id to run ("" = run everything). A replay file
// recorded at another seed cannot be regenerated; its argv and files are in the file itself.
func Only(c *core.Ctx) string {
	if c.Only != "" {
		return c.Only
	}
	if c.Replay == "" {
		return ""
	}
	data, err := os.ReadFile(c.Replay)
	if err != nil {
		fmt.Printf("cannot read replay file: %v\n", err)
		return "no-such-case"
	}
	var body struct {
		Seed int64 `json:"seed"`
		Case struct {
			ID string `json:"id"`
		} `json:"case"`
	}
	if err := json.Unmarshal(data, &body); err != nil || body.Case.ID == "" {
		fmt.Printf("replay file has no case id\n")
		return "no-such-case"
	}
	if body.Seed != c.Seed {
		fmt.Printf("replay file was recorded at seed %d: re-run with VERIF_SEED=%d (its argv and input files are inline in the file)\n", body.Seed, body.Seed)
		return "no-such-case"
	}
	return body.Case.ID
}

// CountQuery adds the shape and operator counters of a query.
func CountQuery(c *core.Ctx, q *sqlref.Query) {
	seen := map[string]bool{}
	q.Visit(func(x *sqlref.Query, depth int) {
		mark := func(s string) { seen[s] = true }
		if depth > 0 {
			mark("shape/nested")
		}
		if len(x.With) > 0 {
			mark("shape/with")
		}
		if x.From.Kind == sqlref.SrcSub {
			mark("shape/subquery-in-from")
		}
		if x.Where != nil {
			mark("shape/where")
		}
		if x.Star {
			mark("shape/star")
		}
		if x.Distinct {
			mark("shape/distinct")
		}
		if x.Grouping {
			mark(fmt.Sprintf("shape/group-by-%d-keys", len(x.GroupBy)))
			if x.Trigger != "" {
				mark("shape/trigger-" + strings.ToLower(strings.Fields(x.Trigger)[0]))
			}
			for _, it := range x.Items {
				if it.Agg != nil {
					name := it.Agg.Fn
					if it.Agg.Distinct {
						name += "_distinct"
					}
					if it.Agg.Star {
						name += "_star"
					} else {
						name += "/" + it.Agg.Arg.T.K.String()
					}
					mark("agg/" + name)
				}
			}
		}
		if len(x.OrderBy) > 0 {
			if depth == 0 {
				mark("shape/order-by-top")
			} else {
				mark("shape/order-by-nested")
			}
		}
		if x.Limit >= 0 {
			switch {
			case depth == 0 && len(x.OrderBy) > 0:
				mark("shape/limit-top-ordered")
			case depth == 0:
				mark("shape/limit-top-unordered")
			case len(x.OrderBy) > 0:
				mark("shape/limit-nested-ordered")
			default:
				mark("shape/limit-nested-unordered")
			}
		}
		x.Exprs(func(e *sqlref.Expr) {
			e.Walk(func(n *sqlref.Expr) {
				if n.Op != sqlref.OpCol && n.Op != sqlref.OpLit {
					op := n.Op
					if op == sqlref.OpAdd || op == sqlref.OpSub || op == sqlref.OpMul || op == sqlref.OpDiv || op == sqlref.OpNeg || op == sqlref.OpAbs {
						op += "/" + n.T.K.String()
					}
					mark("op/" + op)
				}
			})
		})
	}, 0)
	keys := make([]string, 0, len(seen))
	for k := range seen {
		keys = append(keys, k)
	}
	sort.Strings(keys)
	for _, k := range keys {
		c.Count(k, 1)
	}
}

// RejectClass normalises an octosql parse/typecheck error into a short class for counters.
func RejectClass(msg string) string {
	switch {
	case strings.Contains(msg, "unknown function"):
		i := strings.Index(msg, "unknown function")
		s := msg[i:]
		if j := strings.Index(s, "("); j > 0 {
			s = s[:j]
		}
		return strings.ReplaceAll(s, " ", "-")
	case strings.Contains(msg, "unknown variable"):
		return "unknown-variable"
	case strings.Contains(msg, "unknown aggregate"):
		return "unknown-aggregate"
	case strings.Contains(msg, "syntax error"):
		return "syntax-error"
	case strings.Contains(msg, "couldn't parse query"):
		return "parse-error"
	}
	return "typecheck-other"
}

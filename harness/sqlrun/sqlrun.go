// Package sqlrun is the glue shared by the C01, C03 and C05 drivers: it runs one generated query
// through the real octosql binary in one output mode, decodes what was printed into sqlref rows,
// classifies failures (rejected at parse/typecheck time, run-time error, panic, watchdog) and
// judges the rows against the sqlref reference evaluation. It also decides whether an observed
// discrepancy is exactly one of the two known LIMIT defects (by comparing with sqlref's
// emulation of them), so that the drivers can key those precisely.
package sqlrun

import (
	"errors"
	"fmt"
	"strings"

	"github.com/cube2222/octosql/plugins/verifharness/cli"
	"github.com/cube2222/octosql/plugins/verifharness/sqlref"
)

// Modes.
const (
	JSON   = "json"
	CSV    = "csv"
	Batch  = "batch_table"
	Live   = "live_table"
	Native = "stream_native"
)

func IsTable(mode string) bool { return mode == Batch || mode == Live }

// Rich reports whether the mode escapes strings (so rich string alphabets can be used).
func Rich(mode string) bool { return mode == JSON || mode == CSV }

// Outcome of one CLI run.
type Outcome struct {
	Status      string // ok | rejected | runtime-error | panic | timeout | undecodable
	Reason      string
	Rows        []sqlref.Row
	Retractions int // stream_native only
	Stdout      string
	Stderr      string
	Exit        int
	PanicSite   string
}

func trunc(b []byte, n int) string {
	if len(b) > n {
		return string(b[:n]) + "...(truncated)"
	}
	return string(b)
}

// Files returns the input files of the query's tables.
func Files(tables []*sqlref.Table) map[string][]byte {
	m := map[string][]byte{}
	for _, t := range tables {
		if t.FromSQL != "" {
			continue // virtual: its content comes from other files
		}
		m[t.File] = t.FileBytes()
	}
	return m
}

// FilesInline renders the input files for a replay object.
func FilesInline(tables []*sqlref.Table) map[string]string {
	m := map[string]string{}
	for _, t := range tables {
		if t.FromSQL != "" {
			continue
		}
		m[t.File] = string(t.FileBytes())
	}
	return m
}

var rejectMarkers = []string{
	"typecheck error", "couldn't parse query", "couldn't typecheck", "unknown variable", "unknown function",
	"syntax error", "only SELECT statements", "couldn't materialize",
}

// Exec runs sql in the given mode and decodes the output according to cols.
func Exec(r *cli.Runner, sql string, files map[string][]byte, cols []sqlref.Column, mode string) Outcome {
	res := r.Exec(cli.Run{Args: []string{sql, "-o", mode}, Files: files})
	out := Outcome{Stdout: trunc(res.Stdout, 6000), Stderr: trunc(res.Stderr, 3000), Exit: res.Exit}
	switch {
	case res.TimedOut:
		out.Status = "timeout"
		return out
	case res.Panicked():
		out.Status = "panic"
		out.PanicSite, out.Reason = res.PanicSite()
		return out
	case res.Exit != 0:
		msg := string(res.Stderr)
		if i := strings.LastIndex(msg, "Error:"); i >= 0 {
			msg = strings.TrimSpace(msg[i:])
		}
		out.Reason = msg
		out.Status = "runtime-error"
		for _, m := range rejectMarkers {
			if strings.Contains(msg, m) {
				out.Status = "rejected"
				break
			}
		}
		return out
	}
	rows, retr, err := Decode(res.Stdout, cols, mode)
	if err != nil {
		out.Status = "undecodable"
		out.Reason = err.Error()
		return out
	}
	out.Status = "ok"
	out.Rows = rows
	out.Retractions = retr
	return out
}

// Decode turns the stdout of one mode into rows (stream_native is consolidated).
func Decode(stdout []byte, cols []sqlref.Column, mode string) ([]sqlref.Row, int, error) {
	switch mode {
	case JSON:
		jr, err := cli.DecodeJSONLines(stdout)
		if err != nil {
			return nil, 0, err
		}
		rows := make([]sqlref.Row, 0, len(jr))
		for i, o := range jr {
			if err := sqlref.CheckHeader(o.Keys, cols); err != nil {
				return nil, 0, fmt.Errorf("line %d: %v", i+1, err)
			}
			row := make(sqlref.Row, len(cols))
			for j, c := range cols {
				v, err := sqlref.FromJSON(o.Values[c.Name], c.T)
				if err != nil {
					return nil, 0, fmt.Errorf("line %d column %s: %v", i+1, c.Name, err)
				}
				row[j] = v
			}
			rows = append(rows, row)
		}
		return rows, 0, nil
	case CSV:
		recs, err := cli.DecodeCSV(stdout, ',')
		if err != nil {
			return nil, 0, err
		}
		if len(recs) == 0 {
			return nil, 0, errors.New("csv output has no header line")
		}
		if err := sqlref.CheckHeader(recs[0], cols); err != nil {
			return nil, 0, err
		}
		rows, err := sqlref.DecodeRows(recs[1:], cols, sqlref.FromCSV)
		return rows, 0, err
	case Batch, Live:
		header, cells, err := cli.DecodeTable(sqlref.LastTableFrame(stdout))
		if err != nil {
			return nil, 0, err
		}
		if err := sqlref.CheckHeader(header, cols); err != nil {
			return nil, 0, err
		}
		rows, err := sqlref.DecodeRows(cells, cols, sqlref.FromText)
		return rows, 0, err
	case Native:
		recs, err := sqlref.ParseNative(stdout)
		if err != nil {
			return nil, 0, err
		}
		cells, retr, err := sqlref.ConsolidateNative(recs)
		if err != nil {
			return nil, retr, err
		}
		rows, err := sqlref.DecodeRows(cells, cols, sqlref.FromText)
		return rows, retr, err
	}
	return nil, 0, fmt.Errorf("unknown mode %s", mode)
}

// ModeOK reports whether a query may be judged in the mode: json/csv print the raw changelog of
// a plan whose top level emits retractions and has neither ORDER BY nor LIMIT (§3.4); csv cannot
// print lists.
func ModeOK(q *sqlref.Query, cols []sqlref.Column, mode string) bool {
	if (mode == JSON || mode == CSV) && q.EmitsRetractions() && len(q.OrderBy) == 0 && q.Limit < 0 {
		return false
	}
	for _, c := range cols {
		if c.T.K == sqlref.KList && (mode == CSV || IsTable(mode)) {
			// csv: no list rendering; tables: tablewriter wraps cells with spaces at 24 columns
			return false
		}
	}
	return true
}

// Report is the judgement of one case.
type Report struct {
	// Status: judged | rejected | undefined | ambiguous | timeout | violation
	Status  string
	Key     string // violation key
	What    string
	Outcome Outcome
	Res     *sqlref.Result // reference (byte-length reading)
	LenAlt  bool           // judged OK only under the rune-length reading of len()
}

// normalise applies the mode's lossy encodings to the expectation.
func normalise(res *sqlref.Result, mode string) *sqlref.Result {
	if mode != CSV {
		return res
	}
	cp := *res
	cp.Full = sqlref.NormalizeCSV(res.Full)
	cp.Rows = sqlref.NormalizeCSV(res.Rows)
	// csv prints NULL and the empty string alike. If an ORDER BY key column holds both, the
	// printed rows cannot be checked against that key's tie-breakers: the two values are adjacent
	// in the order, so folding them keeps every comparison on the keys up to and including that
	// column sound (a strict "before" stays strict), but the later keys are only ordered within the
	// true, unobservable, tie groups. The order keys are truncated there (weaker, never wrong).
	for j, k := range res.OrderBy {
		hasNull, hasEmpty := false, false
		for _, r := range res.Full {
			v := r[k.Col]
			if v.IsNull() {
				hasNull = true
			} else if v.K == sqlref.KString && v.S == "" {
				hasEmpty = true
			}
		}
		if hasNull && hasEmpty {
			cp.OrderBy = append([]sqlref.OrderKey{}, res.OrderBy[:j+1]...)
			break
		}
	}
	if res.AltRow != nil {
		cp.AltRow = sqlref.NormalizeCSV([]sqlref.Row{res.AltRow})[0]
	}
	return &cp
}

func usesLen(q *sqlref.Query) bool {
	found := false
	q.Visit(func(x *sqlref.Query, _ int) {
		x.Exprs(func(e *sqlref.Expr) {
			if e.Uses(sqlref.OpLen) {
				found = true
			}
		})
		if x.Grouping {
			for _, it := range x.Items {
				if it.Expr != nil && it.Expr.Uses(sqlref.OpLen) {
					found = true
				}
			}
		}
	}, 0)
	return found
}

// Keys of the two LIMIT findings (shared by C01, C03 and C05; each property lists them in its own
// findings file).
const (
	KeyLimit0 = "limit0-returns-all"
	KeyDup    = "orderby-limit-dup-boundary"
	KeyLikeNL = "like-newline"
)

// Opts of Check.
type Opts struct {
	// Wrap, when non-empty, is a SQL template with one %s: the query is rendered into it and is
	// then a NESTED level (its LIMIT / ORDER BY run as plan nodes in every output mode, and the
	// order in which the outer query prints the rows is unspecified). The wrapper must print
	// exactly the query's rows under the same column names.
	Wrap string
	// ExtraFiles are additional input files the wrapper reads.
	ExtraFiles map[string][]byte
	// Wrong, when non-nil, is applied to the decoded rows before judging (self-test hook: a
	// deliberately corrupted recording must produce a violation).
	Wrong func([]sqlref.Row) []sqlref.Row
}

// SQL renders the statement that is actually run.
func (o Opts) SQL(q *sqlref.Query) string {
	if o.Wrap != "" {
		return fmt.Sprintf(o.Wrap, q.SQL())
	}
	return q.SQL()
}

// Check evaluates the reference, runs the query and judges the printed rows.
func Check(r *cli.Runner, q *sqlref.Query, tables []*sqlref.Table, mode string, o Opts) Report {
	rep := Report{}
	nested := o.Wrap != ""
	wrong := o.Wrong
	res, err := q.Eval(sqlref.EvalOpts{})
	if err != nil {
		if errors.Is(err, sqlref.ErrUndefined) {
			rep.Status = "undefined"
			rep.What = err.Error()
			return rep
		}
		rep.Status = "violation"
		rep.Key = "harness-reference-error"
		rep.What = err.Error()
		return rep
	}
	rep.Res = res
	if res.Ambiguous {
		rep.Status = "ambiguous"
		return rep
	}
	files := Files(tables)
	for k, v := range o.ExtraFiles {
		files[k] = v
	}
	out := Exec(r, o.SQL(q), files, res.Cols, mode)
	rep.Outcome = out
	switch out.Status {
	case "timeout":
		rep.Status = "timeout"
		return rep
	case "rejected":
		rep.Status = "rejected"
		rep.What = out.Reason
		return rep
	case "panic":
		rep.Status = "violation"
		rep.Key = "panic:" + out.PanicSite
		rep.What = "octosql panicked: " + out.Reason
		return rep
	case "runtime-error":
		rep.Status = "violation"
		rep.Key = "runtime-error"
		rep.What = "query failed at run time although every sub-expression is defined: " + out.Reason
		return rep
	case "undecodable":
		rep.Status = "violation"
		rep.Key = "undecodable-output:" + mode
		rep.What = out.Reason
		return rep
	}
	got := out.Rows
	if wrong != nil {
		got = wrong(got)
	}
	v := sqlref.Judge(normalise(res, mode), got, !nested)
	if v.OK {
		rep.Status = "judged"
		return rep
	}
	// §3.4: len(String) may count bytes or runes
	if usesLen(q) {
		if res2, err := q.Eval(sqlref.EvalOpts{LenRunes: true}); err == nil && !res2.Ambiguous {
			if v2 := sqlref.Judge(normalise(res2, mode), got, !nested); v2.OK {
				rep.Status = "judged"
				rep.LenAlt = true
				return rep
			}
		}
	}
	rep.Status = "violation"
	rep.Key = "result-mismatch:" + v.Kind
	rep.What = v.What
	// Is it exactly what the known defects predict? (the LIMIT defects, LIKE over a newline, or both)
	for _, likeNL := range []bool{false, true} {
		hits := 0
		eo := sqlref.EvalOpts{Quirks: true, TableMode: IsTable(mode) && !nested, QuirkLikeNL: likeNL, LikeHits: &hits}
		alt, err := q.Eval(eo)
		if err != nil || (alt.QuirkLimit0 == 0 && alt.QuirkDup == 0 && hits == 0) {
			continue
		}
		a := normalise(alt, mode)
		if !sqlref.SameMultiset(a.Rows, got) || !(nested || len(alt.OrderBy) == 0 || sqlref.SortedBy(got, alt.OrderBy) < 0) {
			continue
		}
		var keys []string
		if hits > 0 {
			keys = append(keys, KeyLikeNL)
		}
		if alt.QuirkLimit0 > 0 {
			keys = append(keys, KeyLimit0)
		}
		if alt.QuirkDup > 0 {
			keys = append(keys, KeyDup)
		}
		rep.Key = strings.Join(keys, "+")
		rep.What = fmt.Sprintf("%s [exactly the output predicted for the known defect(s): LIMIT-0 levels=%d, duplicate-boundary levels=%d, LIKE-over-newline evaluations=%d]", v.What, alt.QuirkLimit0, alt.QuirkDup, hits)
		break
	}
	return rep
}

// Replay builds the replay object of a case.
func Replay(id string, q *sqlref.Query, tables []*sqlref.Table, mode string, o Opts, rep Report) map[string]interface{} {
	files := FilesInline(tables)
	for k, v := range o.ExtraFiles {
		files[k] = string(v)
	}
	m := map[string]interface{}{
		"id":    id,
		"sql":   o.SQL(q),
		"mode":  mode,
		"files": files,
		"argv":  []string{"octosql", o.SQL(q), "-o", mode},
	}
	if rep.Res != nil {
		m["expected_rows_before_limit"] = sqlref.RowsString(rep.Res.Full, 40)
		m["limit"] = rep.Res.Limit
	}
	if rep.Outcome.Status != "" {
		m["exit"] = rep.Outcome.Exit
		m["stdout"] = rep.Outcome.Stdout
		m["stderr"] = rep.Outcome.Stderr
		m["decoded"] = sqlref.RowsString(rep.Outcome.Rows, 40)
	}
	return m
}

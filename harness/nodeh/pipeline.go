package nodeh

import (
	"context"
	"fmt"
	"runtime"
	"runtime/debug"
	"sync"
	"time"

	"github.com/cube2222/octosql/aggregates"
	"github.com/cube2222/octosql/config"
	"github.com/cube2222/octosql/datasources/csv"
	"github.com/cube2222/octosql/datasources/json"
	"github.com/cube2222/octosql/datasources/lines"
	"github.com/cube2222/octosql/datasources/parquet"
	"github.com/cube2222/octosql/execution"
	"github.com/cube2222/octosql/execution/nodes"
	"github.com/cube2222/octosql/functions"
	"github.com/cube2222/octosql/logical"
	"github.com/cube2222/octosql/octosql"
	"github.com/cube2222/octosql/optimizer"
	"github.com/cube2222/octosql/parser"
	"github.com/cube2222/octosql/parser/sqlparser"
	"github.com/cube2222/octosql/physical"
	"github.com/cube2222/octosql/table_valued_functions"
)

func runtimeStack(buf []byte) int { return runtime.Stack(buf, true) }

// ---------------------------------------------------------------------------------------------
// memdb: a physical.Database whose tables are scripted sources.

type Table struct {
	Fields        []physical.SchemaField
	TimeField     int // -1 if none
	NoRetractions bool
	Events        []Event
	// Source, if set, overrides Events: it is called at materialization time.
	Source func() execution.Node
	// AcceptPushdown makes the table accept every predicate the optimizer offers and apply it
	// itself with the real Filter node (exercises datasource pushdown).
	AcceptPushdown bool
}

type DB struct {
	Tables map[string]*Table
}

func (db *DB) ListTables(ctx context.Context) ([]string, error) {
	out := []string{}
	for k := range db.Tables {
		out = append(out, k)
	}
	return out, nil
}

func (db *DB) GetTable(ctx context.Context, name string, options map[string]string) (physical.DatasourceImplementation, physical.Schema, error) {
	t, ok := db.Tables[name]
	if !ok {
		return nil, physical.Schema{}, fmt.Errorf("memdb: no such table %q", name)
	}
	fields := make([]physical.SchemaField, len(t.Fields))
	copy(fields, t.Fields)
	return &tableImpl{t: t}, physical.NewSchema(fields, t.TimeField, physical.WithNoRetractions(t.NoRetractions)), nil
}

type tableImpl struct{ t *Table }

func (i *tableImpl) Materialize(ctx context.Context, env physical.Environment, schema physical.Schema, pushedDownPredicates []physical.Expression) (execution.Node, error) {
	// schema.Fields may be a subset / reordering of the table's fields (unused-field removal).
	idx := make([]int, len(schema.Fields))
	for j, f := range schema.Fields {
		idx[j] = -1
		for k, tf := range i.t.Fields {
			if tf.Name == f.Name {
				idx[j] = k
			}
		}
		if idx[j] == -1 {
			return nil, fmt.Errorf("memdb: field %q not in table", f.Name)
		}
	}
	var src execution.Node
	if i.t.Source != nil {
		src = i.t.Source()
	} else {
		src = &ScriptSource{Events: i.t.Events}
	}
	var node execution.Node = &projectNode{src: src, idx: idx}
	for _, p := range pushedDownPredicates {
		e, err := p.Materialize(ctx, env.WithRecordSchema(schema))
		if err != nil {
			return nil, err
		}
		node = nodes.NewFilter(node, e)
	}
	return node, nil
}

func (i *tableImpl) PushDownPredicates(newPredicates, pushedDownPredicates []physical.Expression) (rejected, pushedDown []physical.Expression, changed bool) {
	if !i.t.AcceptPushdown {
		return newPredicates, []physical.Expression{}, false
	}
	out := append([]physical.Expression{}, pushedDownPredicates...)
	out = append(out, newPredicates...)
	return nil, out, len(newPredicates) > 0
}

type projectNode struct {
	src execution.Node
	idx []int
}

func (p *projectNode) Run(ctx execution.ExecutionContext, produce execution.ProduceFn, metaSend execution.MetaSendFn) error {
	return p.src.Run(ctx, func(pctx execution.ProduceContext, r execution.Record) error {
		vals := make([]octosql.Value, len(p.idx))
		for j, k := range p.idx {
			vals[j] = r.Values[k]
		}
		return produce(pctx, execution.NewRecord(vals, r.Retraction, r.EventTime))
	}, metaSend)
}

// ---------------------------------------------------------------------------------------------
// The pipeline cmd/root.go assembles, over a memdb (database name "m": FROM m.t) and the file
// handlers (FROM `path.json`).

type PlanOpts struct {
	Optimize bool
	// Output decides which order-by/limit wiring root.go would apply: "stream_native" | "json" |
	// "csv" (OrderSensitiveTransform / Limit nodes) or "none" (raw plan, ORDER BY/LIMIT ignored).
	Output string
}

type Planned struct {
	Physical  physical.Node // after optimization
	Exec      execution.Node
	OutFields []physical.SchemaField // output names mapped back to the query's names
	Schema    physical.Schema        // physical output schema (unique names)
	OrderBy   []execution.Expression
	OrderDirs []int
	Limit     *execution.Expression
}

// Env builds the physical environment root.go builds (file handlers included), with db as
// database "m".
var fmOnce sync.Once
var fm map[string]physical.FunctionDetails

// FunctionMap returns one shared functions.FunctionMap(): every call of the real one builds three
// ristretto caches (goroutines + tickers that never end), which octosql itself does once.
func FunctionMap() map[string]physical.FunctionDetails {
	fmOnce.Do(func() { fm = functions.FunctionMap() })
	return fm
}

func Env(db *DB) physical.Environment {
	fileHandlers := map[string]func(ctx context.Context, name string, options map[string]string) (physical.DatasourceImplementation, physical.Schema, error){
		"csv":     csv.Creator(','),
		"json":    json.Creator,
		"lines":   lines.Creator,
		"parquet": parquet.Creator,
		"tsv":     csv.Creator('\t'),
	}
	databases := map[string]func() (physical.Database, error){}
	if db != nil {
		databases["m"] = func() (physical.Database, error) { return db, nil }
	}
	return physical.Environment{
		Aggregates: aggregates.Aggregates,
		Functions:  FunctionMap(),
		Datasources: &physical.DatasourceRepository{
			Databases:    databases,
			FileHandlers: fileHandlers,
		},
	}
}

func TVFs() map[string]logical.TableValuedFunctionDescription {
	return map[string]logical.TableValuedFunctionDescription{
		"max_diff_watermark": table_valued_functions.MaxDiffWatermark,
		"tumble":             table_valued_functions.Tumble,
		"range":              table_valued_functions.Range,
		"poll":               table_valued_functions.Poll,
	}
}

// Ctx returns a context carrying octosql's default configuration (the JSON/lines datasources read
// their limits from it).
func Ctx() context.Context {
	return config.ContextWithConfig(context.Background(), DefaultConfig())
}

// PlanError distinguishes "octosql rejected the query" from a Go panic outside typecheck's recover.
type PlanError struct {
	Stage string // parse | logical | typecheck | materialize | panic
	Err   error
	Stack string
}

func (e *PlanError) Error() string { return e.Stage + ": " + e.Err.Error() }

// Plan runs parse → ParseNode → Typecheck (under recover, like root.go) → Optimize → Materialize.
// A panic outside the typecheck recover is reported with Stage "panic".
func Plan(ctx context.Context, sql string, db *DB, o PlanOpts) (p *Planned, perr *PlanError) {
	defer func() {
		if r := recover(); r != nil {
			p = nil
			perr = &PlanError{Stage: "panic", Err: fmt.Errorf("%v", r), Stack: string(debug.Stack())}
		}
	}()
	env := Env(db)
	statement, err := sqlparser.Parse(sql)
	if err != nil {
		return nil, &PlanError{Stage: "parse", Err: err}
	}
	selectStmt, ok := statement.(sqlparser.SelectStatement)
	if !ok {
		return nil, &PlanError{Stage: "parse", Err: fmt.Errorf("only SELECT statements are supported")}
	}
	logicalPlan, outputOptions, err := parser.ParseNode(selectStmt)
	if err != nil {
		return nil, &PlanError{Stage: "logical", Err: err}
	}
	tvfs := TVFs()
	uniqueNameGenerator := map[string]int{}
	physicalPlan, mapping, err := typecheckNode(ctx, logicalPlan, env, logical.Environment{
		CommonTableExpressions: map[string]logical.CommonTableExpression{},
		TableValuedFunctions:   tvfs,
		UniqueNameGenerator:    uniqueNameGenerator,
	})
	if err != nil {
		return nil, &PlanError{Stage: "typecheck", Err: err}
	}
	reverseMapping := logical.ReverseMapping(mapping)
	exprEnv := func() logical.Environment {
		return logical.Environment{
			CommonTableExpressions: map[string]logical.CommonTableExpression{},
			TableValuedFunctions:   tvfs,
			UniqueVariableNames:    &logical.VariableMapping{Mapping: mapping},
			UniqueNameGenerator:    uniqueNameGenerator,
		}
	}
	physOrder := make([]physical.Expression, len(outputOptions.OrderByExpressions))
	for i := range outputOptions.OrderByExpressions {
		e, err := typecheckExpr(ctx, outputOptions.OrderByExpressions[i], env.WithRecordSchema(physicalPlan.Schema), exprEnv())
		if err != nil {
			return nil, &PlanError{Stage: "typecheck", Err: err}
		}
		physOrder[i] = e
	}
	var physLimit *physical.Expression
	if outputOptions.Limit != nil {
		// like cmd/root.go: the limit is typechecked without the record schema
		e, err := typecheckExpr(ctx, *outputOptions.Limit, env, logical.Environment{
			CommonTableExpressions: map[string]logical.CommonTableExpression{},
			TableValuedFunctions:   tvfs,
			UniqueNameGenerator:    uniqueNameGenerator,
		})
		if err != nil {
			return nil, &PlanError{Stage: "typecheck", Err: err}
		}
		physLimit = &e
	}
	if o.Optimize {
		physicalPlan = optimizer.Optimize(physicalPlan)
	}
	execPlan, err := physicalPlan.Materialize(ctx, env)
	if err != nil {
		return nil, &PlanError{Stage: "materialize", Err: err}
	}
	out := &Planned{Physical: physicalPlan, Schema: physicalPlan.Schema}
	for _, pe := range physOrder {
		ee, err := pe.Materialize(ctx, env.WithRecordSchema(physicalPlan.Schema))
		if err != nil {
			return nil, &PlanError{Stage: "materialize", Err: err}
		}
		out.OrderBy = append(out.OrderBy, ee)
	}
	out.OrderDirs = logical.DirectionsToMultipliers(outputOptions.OrderByDirections)
	if physLimit != nil {
		ee, err := physLimit.Materialize(ctx, env)
		if err != nil {
			return nil, &PlanError{Stage: "materialize", Err: err}
		}
		out.Limit = &ee
	}
	out.OutFields = make([]physical.SchemaField, len(physicalPlan.Schema.Fields))
	copy(out.OutFields, physicalPlan.Schema.Fields)
	for i := range out.OutFields {
		out.OutFields[i].Name = reverseMapping[out.OutFields[i].Name]
	}
	switch o.Output {
	case "stream_native", "json", "csv":
		if len(out.OrderBy) > 0 || (out.Limit != nil && !physicalPlan.Schema.NoRetractions) {
			execPlan = nodes.NewOrderSensitiveTransform(execPlan, out.OrderBy, out.OrderDirs, out.Limit, physicalPlan.Schema.NoRetractions)
		} else if out.Limit != nil {
			execPlan = nodes.NewLimit(execPlan, *out.Limit)
		}
	}
	out.Exec = execPlan
	return out, nil
}

func typecheckNode(ctx context.Context, node logical.Node, env physical.Environment, logicalEnv logical.Environment) (_ physical.Node, _ map[string]string, outErr error) {
	defer func() {
		if r := recover(); r != nil {
			outErr = fmt.Errorf("typecheck error: %s", r)
		}
	}()
	physicalNode, mapping := node.Typecheck(ctx, env, logicalEnv)
	return physicalNode, mapping, nil
}

func typecheckExpr(ctx context.Context, expr logical.Expression, env physical.Environment, logicalEnv logical.Environment) (_ physical.Expression, outErr error) {
	defer func() {
		if r := recover(); r != nil {
			outErr = fmt.Errorf("typecheck error: %s", r)
		}
	}()
	return expr.Typecheck(ctx, env, logicalEnv), nil
}

// TypecheckExprSQL typechecks and materialises a scalar SQL expression over the given record
// schema by wrapping it in "SELECT <expr> AS x FROM m.t" and pulling the map expression out
// again would be fragile; instead it plans the query and returns the plan, whose single output
// column is the expression.
func PlanExpr(ctx context.Context, exprSQL string, db *DB, table string) (*Planned, *PlanError) {
	return Plan(ctx, "SELECT "+exprSQL+" AS x FROM m."+table, db, PlanOpts{Optimize: false, Output: "none"})
}

// RunSQL plans and runs a query, returning the collected outputs.
func RunSQL(ctx context.Context, sql string, db *DB, o PlanOpts, timeout time.Duration) (*Planned, []Out, RunResult, *PlanError) {
	p, perr := Plan(ctx, sql, db, o)
	if perr != nil {
		return nil, nil, RunResult{}, perr
	}
	col := &Collector{}
	res := RunNodeCtx(ctx, p.Exec, col, nil, timeout)
	return p, col.Snapshot(), res, nil
}

package nodeh

import "github.com/cube2222/octosql/config"

// DefaultConfig mirrors the defaults config.Read applies when there is no octosql.yml.
func DefaultConfig() *config.Config {
	return &config.Config{
		Files: config.FilesConfig{
			BufferSizeBytes: 4096 * 1024,
			JSON:            config.JSONConfig{MaxLineSizeBytes: 1024 * 1024},
		},
	}
}

// Package nodeh is the in-process node harness: scripted sources, an output collector, online
// changelog/watermark monitors and an in-memory database so that real SQL runs over scripted
// streams through octosql's own parse → typecheck → optimize → materialize path.
package nodeh

import (
	"context"
	"fmt"
	"math"
	"runtime/debug"
	"sort"
	"strconv"
	"strings"
	"sync"
	"time"

	"github.com/cube2222/octosql/execution"
	"github.com/cube2222/octosql/octosql"
)

// ---------------------------------------------------------------------------------------------
// Events and scripted sources

type Event struct {
	IsWatermark bool
	Watermark   time.Time
	Record      execution.Record
}

func Rec(values []octosql.Value, retraction bool, eventTime time.Time) Event {
	return Event{Record: execution.NewRecord(values, retraction, eventTime)}
}

func WM(t time.Time) Event { return Event{IsWatermark: true, Watermark: t} }

func (e Event) String() string {
	if e.IsWatermark {
		return "~" + FmtTime(e.Watermark)
	}
	sign := "+"
	if e.Record.Retraction {
		sign = "-"
	}
	return sign + RowKey(e.Record.Values) + "@" + FmtTime(e.Record.EventTime)
}

func FmtTime(t time.Time) string {
	if t.IsZero() {
		return "0"
	}
	return t.UTC().Format("15:04:05.999999999")
}

func EventsString(evs []Event) string {
	parts := make([]string, len(evs))
	for i, e := range evs {
		parts[i] = e.String()
	}
	return strings.Join(parts, " ")
}

// ScriptSource is an execution.Node that replays a script. If Gate is non-nil it waits for one
// token before every event and one more before returning (end of stream), which lets a
// controller decide the exact order in which a two-input node sees its inputs.
type ScriptSource struct {
	Events []Event
	Gate   chan struct{}
	EndErr error // returned after the last event (to inject a source failure)
	// AfterEach, if set, is called after each event has been pushed downstream (synchronously).
	AfterEach func(i int)
}

func (s *ScriptSource) Run(ctx execution.ExecutionContext, produce execution.ProduceFn, metaSend execution.MetaSendFn) error {
	pctx := execution.ProduceFromExecutionContext(ctx)
	for i, e := range s.Events {
		if s.Gate != nil {
			select {
			case <-s.Gate:
			case <-ctx.Done():
				return ctx.Err()
			}
		}
		if e.IsWatermark {
			if err := metaSend(pctx, execution.MetadataMessage{Type: execution.MetadataMessageTypeWatermark, Watermark: e.Watermark}); err != nil {
				return err
			}
		} else {
			// hand out a copy of the values slice: a node must not be able to corrupt the script
			vals := make([]octosql.Value, len(e.Record.Values))
			copy(vals, e.Record.Values)
			if err := produce(pctx, execution.NewRecord(vals, e.Record.Retraction, e.Record.EventTime)); err != nil {
				return err
			}
		}
		if s.AfterEach != nil {
			s.AfterEach(i)
		}
	}
	if s.Gate != nil {
		select {
		case <-s.Gate:
		case <-ctx.Done():
			return ctx.Err()
		}
	}
	return s.EndErr
}

// ---------------------------------------------------------------------------------------------
// Collector

type Out struct {
	Seq         int
	Step        int // value of the collector's step counter when it was emitted
	IsWatermark bool
	Watermark   time.Time
	Record      execution.Record
}

func (o Out) String() string {
	if o.IsWatermark {
		return fmt.Sprintf("[%d]~%s", o.Step, FmtTime(o.Watermark))
	}
	sign := "+"
	if o.Record.Retraction {
		sign = "-"
	}
	return fmt.Sprintf("[%d]%s%s@%s", o.Step, sign, RowKey(o.Record.Values), FmtTime(o.Record.EventTime))
}

func OutsString(outs []Out) string {
	parts := make([]string, len(outs))
	for i, o := range outs {
		parts[i] = o.String()
	}
	return strings.Join(parts, " ")
}

// Collector records everything a node emits. Step is advanced by the driver (e.g. once per
// input event) so that outputs can be attributed to the input step that caused them.
type Collector struct {
	mu   sync.Mutex
	Outs []Out
	step int
	// StopAfter > 0 makes Produce return ErrStop after that many records (early consumer stop).
	StopAfter int
	// OnOut, if set, is called (under the collector's lock) for every output.
	OnOut func(o Out)
}

var ErrStop = fmt.Errorf("collector: stop requested")

func (c *Collector) SetStep(s int) {
	c.mu.Lock()
	c.step = s
	c.mu.Unlock()
}

func (c *Collector) AddStep() {
	c.mu.Lock()
	c.step++
	c.mu.Unlock()
}

func (c *Collector) Produce(ctx execution.ProduceContext, record execution.Record) error {
	c.mu.Lock()
	defer c.mu.Unlock()
	vals := make([]octosql.Value, len(record.Values))
	copy(vals, record.Values)
	o := Out{Seq: len(c.Outs), Step: c.step, Record: execution.NewRecord(vals, record.Retraction, record.EventTime)}
	c.Outs = append(c.Outs, o)
	if c.OnOut != nil {
		c.OnOut(o)
	}
	if c.StopAfter > 0 {
		n := 0
		for _, x := range c.Outs {
			if !x.IsWatermark {
				n++
			}
		}
		if n >= c.StopAfter {
			return ErrStop
		}
	}
	return nil
}

func (c *Collector) MetaSend(ctx execution.ProduceContext, msg execution.MetadataMessage) error {
	c.mu.Lock()
	defer c.mu.Unlock()
	o := Out{Seq: len(c.Outs), Step: c.step, IsWatermark: true, Watermark: msg.Watermark}
	c.Outs = append(c.Outs, o)
	if c.OnOut != nil {
		c.OnOut(o)
	}
	return nil
}

func (c *Collector) Snapshot() []Out {
	c.mu.Lock()
	defer c.mu.Unlock()
	out := make([]Out, len(c.Outs))
	copy(out, c.Outs)
	return out
}

// RunResult is what running a node produced.
type RunResult struct {
	Err       error
	Panicked  bool
	PanicMsg  string
	Stack     string
	TimedOut  bool
	Goroutine string
}

// RunNode runs node into col on the calling goroutine with a recover, under a watchdog.
// A panic in a goroutine the node started itself cannot be recovered and kills the process.
func RunNode(node execution.Node, col *Collector, timeout time.Duration) RunResult {
	return RunNodeCtx(context.Background(), node, col, nil, timeout)
}

func RunNodeCtx(parent context.Context, node execution.Node, col *Collector, varCtx *execution.VariableContext, timeout time.Duration) RunResult {
	ctx, cancel := context.WithCancel(parent)
	defer cancel()
	done := make(chan RunResult, 1)
	go func() {
		var res RunResult
		defer func() {
			if r := recover(); r != nil {
				res.Panicked = true
				res.PanicMsg = fmt.Sprint(r)
				res.Stack = string(debug.Stack())
			}
			done <- res
		}()
		res.Err = node.Run(execution.ExecutionContext{Context: ctx, VariableContext: varCtx}, col.Produce, col.MetaSend)
	}()
	if timeout <= 0 {
		timeout = 60 * time.Second
	}
	select {
	case res := <-done:
		return res
	case <-time.After(timeout):
		buf := make([]byte, 1<<20)
		n := runtimeStack(buf)
		return RunResult{TimedOut: true, Goroutine: string(buf[:n])}
	}
}

// ---------------------------------------------------------------------------------------------
// Canonical row encoding (own code: must not depend on Value.String / Compare / Hash, which are
// under test). Two rows get the same key iff they are the same by the documented value equality:
// same type id and same content; floats by numeric value with NaN == NaN and +0 == -0 (the
// DESIGN §3.4 convention), times by instant.

func ValKey(v octosql.Value) string {
	var sb strings.Builder
	valKey(&sb, v)
	return sb.String()
}

func valKey(sb *strings.Builder, v octosql.Value) {
	switch v.TypeID {
	case octosql.TypeIDNull:
		sb.WriteString("NULL")
	case octosql.TypeIDInt:
		sb.WriteString("i")
		sb.WriteString(strconv.FormatInt(v.Int, 10))
	case octosql.TypeIDFloat:
		switch {
		case math.IsNaN(v.Float):
			sb.WriteString("fNaN")
		case v.Float == 0:
			sb.WriteString("f0")
		default:
			sb.WriteString("f")
			sb.WriteString(strconv.FormatFloat(v.Float, 'g', -1, 64))
		}
	case octosql.TypeIDBoolean:
		if v.Boolean {
			sb.WriteString("true")
		} else {
			sb.WriteString("false")
		}
	case octosql.TypeIDString:
		sb.WriteString(strconv.Quote(v.Str))
	case octosql.TypeIDTime:
		sb.WriteString("t")
		sb.WriteString(strconv.FormatInt(v.Time.Unix(), 10))
		sb.WriteString(".")
		sb.WriteString(strconv.Itoa(v.Time.Nanosecond()))
	case octosql.TypeIDDuration:
		sb.WriteString("d")
		sb.WriteString(strconv.FormatInt(int64(v.Duration), 10))
	case octosql.TypeIDList:
		sb.WriteString("[")
		for i := range v.List {
			if i > 0 {
				sb.WriteString(",")
			}
			valKey(sb, v.List[i])
		}
		sb.WriteString("]")
	case octosql.TypeIDStruct:
		sb.WriteString("{")
		for i := range v.Struct {
			if i > 0 {
				sb.WriteString(",")
			}
			valKey(sb, v.Struct[i])
		}
		sb.WriteString("}")
	case octosql.TypeIDTuple:
		sb.WriteString("(")
		for i := range v.Tuple {
			if i > 0 {
				sb.WriteString(",")
			}
			valKey(sb, v.Tuple[i])
		}
		sb.WriteString(")")
	default:
		fmt.Fprintf(sb, "?%d", int(v.TypeID))
	}
}

func RowKey(values []octosql.Value) string {
	var sb strings.Builder
	for i := range values {
		if i > 0 {
			sb.WriteString("|")
		}
		valKey(&sb, values[i])
	}
	return sb.String()
}

// ---------------------------------------------------------------------------------------------
// Multisets and monitors

// Multiset maps a row key to a signed multiplicity; zero entries are removed.
type Multiset map[string]int

func (m Multiset) Add(key string, n int) {
	m[key] += n
	if m[key] == 0 {
		delete(m, key)
	}
}

func (m Multiset) Equal(o Multiset) bool {
	if len(m) != len(o) {
		return false
	}
	for k, v := range m {
		if o[k] != v {
			return false
		}
	}
	return true
}

func (m Multiset) String() string {
	keys := make([]string, 0, len(m))
	for k := range m {
		keys = append(keys, k)
	}
	sort.Strings(keys)
	var sb strings.Builder
	sb.WriteString("{")
	for i, k := range keys {
		if i > 0 {
			sb.WriteString("; ")
		}
		fmt.Fprintf(&sb, "%s ×%d", k, m[k])
	}
	sb.WriteString("}")
	return sb.String()
}

func (m Multiset) Total() int {
	n := 0
	for _, v := range m {
		n += v
	}
	return n
}

// Diff returns a short description of m - o.
func (m Multiset) Diff(o Multiset) string {
	d := Multiset{}
	for k, v := range m {
		d.Add(k, v)
	}
	for k, v := range o {
		d.Add(k, -v)
	}
	return d.String()
}

// ConsolidateEvents sums the signed records of an input script; if upTo is non-nil only records
// with event time <= *upTo are counted (zero event times always count).
func ConsolidateEvents(evs []Event, upTo *time.Time) Multiset {
	m := Multiset{}
	for _, e := range evs {
		if e.IsWatermark {
			continue
		}
		if upTo != nil && !e.Record.EventTime.IsZero() && e.Record.EventTime.After(*upTo) {
			continue
		}
		if e.Record.Retraction {
			m.Add(RowKey(e.Record.Values), -1)
		} else {
			m.Add(RowKey(e.Record.Values), 1)
		}
	}
	return m
}

// ConsolidateOuts sums the signed output records in outs[:n] (n < 0: all).
func ConsolidateOuts(outs []Out, n int) Multiset {
	m := Multiset{}
	if n < 0 || n > len(outs) {
		n = len(outs)
	}
	for _, o := range outs[:n] {
		if o.IsWatermark {
			continue
		}
		if o.Record.Retraction {
			m.Add(RowKey(o.Record.Values), -1)
		} else {
			m.Add(RowKey(o.Record.Values), 1)
		}
	}
	return m
}

// ChangelogValid checks that the running signed multiset of output rows never goes negative.
// It returns the index of the first offending output, or -1.
func ChangelogValid(outs []Out) (bad int, key string) {
	m := map[string]int{}
	for i, o := range outs {
		if o.IsWatermark {
			continue
		}
		k := RowKey(o.Record.Values)
		if o.Record.Retraction {
			m[k]--
			if m[k] < 0 {
				return i, k
			}
		} else {
			m[k]++
		}
	}
	return -1, ""
}

// WatermarkMonotone returns the index of the first forwarded watermark smaller than an earlier
// one, or -1.
func WatermarkMonotone(outs []Out) int {
	var last time.Time
	seen := false
	for i, o := range outs {
		if !o.IsWatermark {
			continue
		}
		if seen && o.Watermark.Before(last) {
			return i
		}
		last = o.Watermark
		seen = true
	}
	return -1
}

// NoLateOutput returns the index of the first output record with a non-zero event time at or
// below a watermark that was already forwarded, or -1.
func NoLateOutput(outs []Out) int {
	var last time.Time
	seen := false
	for i, o := range outs {
		if o.IsWatermark {
			if !seen || o.Watermark.After(last) {
				last = o.Watermark
				seen = true
			}
			continue
		}
		if seen && !o.Record.EventTime.IsZero() && !o.Record.EventTime.After(last) {
			return i
		}
	}
	return -1
}

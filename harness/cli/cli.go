// Package cli runs the real octosql binary, one process per query, in an isolated HOME, and
// decodes its output modes. It imports nothing from octosql.
package cli

import (
	"bytes"
	"context"
	"encoding/json"
	"fmt"
	"io"
	"os"
	"os/exec"
	"path/filepath"
	"strings"
	"sync/atomic"
	"syscall"
	"time"
)

// Run describes one invocation.
type Run struct {
	Args  []string          // arguments after the binary name, e.g. {"SELECT ...", "-o", "json"}
	Files map[string][]byte // written into the working directory before the run (relative names)
	Stdin []byte            // fed on stdin (nil: stdin is /dev/null)
	// StdinChunks, if non-empty, overrides Stdin: each chunk is written separately with
	// ChunkPause between writes, so that the consumer sees the data arrive in pieces.
	StdinChunks [][]byte
	ChunkPause  time.Duration
	Env         []string // extra KEY=VALUE
	Race        bool     // use octosql-race
	Timeout     time.Duration
	// Home, if non-empty, is used as HOME (and is not deleted); otherwise a fresh one is made.
	Home string
	// Dir, if non-empty, is used as working directory (not deleted); otherwise a fresh one.
	Dir string
	// KeepDir keeps the fresh working directory (caller removes it).
	KeepDir bool
}

type Result struct {
	Exit     int // process exit status; -1 if killed by a signal
	Signal   string
	Stdout   []byte
	Stderr   []byte
	TimedOut bool
	Dur      time.Duration
	Dir      string
}

// Panicked reports the C07 oracle: the process died with a Go panic / fatal error.
func (r Result) Panicked() bool {
	if r.TimedOut {
		return false
	}
	if r.Exit == 2 && (bytes.Contains(r.Stderr, []byte("panic:")) || bytes.Contains(r.Stderr, []byte("fatal error:")) || bytes.Contains(r.Stderr, []byte("goroutine "))) {
		return true
	}
	if r.Signal != "" {
		return true
	}
	return bytes.Contains(r.Stderr, []byte("\npanic: ")) || bytes.HasPrefix(r.Stderr, []byte("panic: ")) ||
		bytes.Contains(r.Stderr, []byte("fatal error: ")) || bytes.Contains(r.Stderr, []byte("[running]:"))
}

// PanicSite extracts "file:function" of the innermost octosql frame from a crash trace, plus the
// first line of the panic message.
func (r Result) PanicSite() (site, msg string) {
	lines := strings.Split(string(r.Stderr), "\n")
	for _, l := range lines {
		if strings.HasPrefix(l, "panic: ") || strings.HasPrefix(l, "fatal error: ") {
			msg = l
			break
		}
	}
	seenGoroutine := false
	for i := 0; i+1 < len(lines); i++ {
		l := strings.TrimSpace(lines[i])
		if strings.HasPrefix(l, "goroutine ") {
			seenGoroutine = true
		}
		if !seenGoroutine || !strings.HasPrefix(l, "github.com/cube2222/octosql/") {
			continue
		}
		fn := l
		if j := strings.LastIndex(fn, "("); j > 0 {
			fn = fn[:j]
		}
		fn = strings.TrimPrefix(fn, "github.com/cube2222/octosql/")
		file := strings.TrimSpace(lines[i+1])
		if j := strings.Index(file, " +0x"); j > 0 {
			file = file[:j]
		}
		if j := strings.LastIndex(file, ":"); j > 0 {
			file = file[:j]
		}
		repoPrefix := "/repo/"
		if r := os.Getenv("VERIF_REPO"); r != "" {
			repoPrefix = strings.TrimSuffix(r, "/") + "/"
		}
		if j := strings.Index(file, repoPrefix); j >= 0 {
			file = file[j+len(repoPrefix):]
		}
		return file + ":" + fn, msg
	}
	return "unknown-site", msg
}

type Runner struct {
	BinDir  string
	Scratch string
	seq     int64
}

func NewRunner(binDir, scratch string) *Runner {
	return &Runner{BinDir: binDir, Scratch: scratch}
}

func (r *Runner) fresh(kind string) string {
	n := atomic.AddInt64(&r.seq, 1)
	d := filepath.Join(r.Scratch, fmt.Sprintf("%s%d", kind, n))
	_ = os.MkdirAll(d, 0o755)
	return d
}

// NewHome makes a persistent scratch HOME (for multi-step scenarios such as plugin installs).
func (r *Runner) NewHome() string { return r.fresh("home") }

// NewDir makes a persistent scratch directory.
func (r *Runner) NewDir() string { return r.fresh("dir") }

// Exec runs octosql once.
func (r *Runner) Exec(run Run) Result {
	bin := filepath.Join(r.BinDir, "octosql")
	if run.Race {
		bin = filepath.Join(r.BinDir, "octosql-race")
	}
	return r.ExecBin(bin, run)
}

// ExecBin runs an arbitrary binary under the same isolation.
func (r *Runner) ExecBin(bin string, run Run) Result {
	home := run.Home
	if home == "" {
		home = r.fresh("h")
		defer os.RemoveAll(home)
	}
	dir := run.Dir
	if dir == "" {
		dir = r.fresh("w")
		if !run.KeepDir {
			defer os.RemoveAll(dir)
		}
	}
	for name, data := range run.Files {
		p := filepath.Join(dir, name)
		_ = os.MkdirAll(filepath.Dir(p), 0o755)
		if err := os.WriteFile(p, data, 0o644); err != nil {
			return Result{Exit: -2, Stderr: []byte("harness: cannot write input file: " + err.Error())}
		}
	}
	timeout := run.Timeout
	if timeout <= 0 {
		timeout = 60 * time.Second
	}
	ctx, cancel := context.WithCancel(context.Background())
	defer cancel()
	cmd := exec.CommandContext(ctx, bin, run.Args...)
	cmd.Dir = dir
	cmd.Env = append([]string{
		"HOME=" + home,
		"PATH=/usr/local/bin:/usr/bin:/bin",
		"OCTOSQL_NO_TELEMETRY=1",
		"TERM=dumb",
		"TZ=UTC",
	}, run.Env...)
	var stdout, stderr bytes.Buffer
	cmd.Stdout = &stdout
	cmd.Stderr = &stderr
	var stdinW io.WriteCloser
	if len(run.StdinChunks) > 0 || run.Stdin != nil {
		w, err := cmd.StdinPipe()
		if err != nil {
			return Result{Exit: -2, Stderr: []byte("harness: " + err.Error())}
		}
		stdinW = w
	}
	start := time.Now()
	if err := cmd.Start(); err != nil {
		return Result{Exit: -2, Stderr: []byte("harness: cannot start: " + err.Error())}
	}
	if stdinW != nil {
		go func() {
			defer stdinW.Close()
			if len(run.StdinChunks) > 0 {
				for _, ch := range run.StdinChunks {
					if _, err := stdinW.Write(ch); err != nil {
						return
					}
					if run.ChunkPause > 0 {
						time.Sleep(run.ChunkPause)
					}
				}
				return
			}
			_, _ = stdinW.Write(run.Stdin)
		}()
	}
	done := make(chan error, 1)
	go func() { done <- cmd.Wait() }()
	res := Result{Dir: dir}
	var err error
	select {
	case err = <-done:
	case <-time.After(timeout):
		res.TimedOut = true
		_ = cmd.Process.Signal(syscall.SIGQUIT) // goroutine dump on stderr
		select {
		case err = <-done:
		case <-time.After(10 * time.Second):
			_ = cmd.Process.Kill()
			err = <-done
		}
	}
	res.Dur = time.Since(start)
	res.Stdout = stdout.Bytes()
	res.Stderr = stderr.Bytes()
	if err != nil {
		if ee, ok := err.(*exec.ExitError); ok {
			if ws, ok := ee.Sys().(syscall.WaitStatus); ok && ws.Signaled() {
				res.Exit = -1
				res.Signal = ws.Signal().String()
			} else {
				res.Exit = ee.ExitCode()
			}
		} else {
			res.Exit = -2
			res.Stderr = append(res.Stderr, []byte("\nharness: wait: "+err.Error())...)
		}
	}
	return res
}

// ---------------------------------------------------------------------------------------------
// Decoders

// JSONRow is one decoded -o json line: column name → value decoded with UseNumber
// (json.Number, string, bool, nil, []interface{}, map[string]interface{}), plus the key order.
type JSONRow struct {
	Keys   []string
	Values map[string]interface{}
}

// DecodeJSONLines strictly decodes -o json output. Every line must be exactly one JSON object.
func DecodeJSONLines(out []byte) ([]JSONRow, error) {
	var rows []JSONRow
	if len(out) == 0 {
		return nil, nil
	}
	lines := bytes.Split(out, []byte("\n"))
	if len(lines[len(lines)-1]) == 0 {
		lines = lines[:len(lines)-1]
	}
	for i, l := range lines {
		dec := json.NewDecoder(bytes.NewReader(l))
		dec.UseNumber()
		tok, err := dec.Token()
		if err != nil {
			return rows, fmt.Errorf("line %d: %v: %q", i+1, err, trunc(l))
		}
		if d, ok := tok.(json.Delim); !ok || d != '{' {
			return rows, fmt.Errorf("line %d: not an object: %q", i+1, trunc(l))
		}
		row := JSONRow{Values: map[string]interface{}{}}
		for dec.More() {
			kt, err := dec.Token()
			if err != nil {
				return rows, fmt.Errorf("line %d: %v: %q", i+1, err, trunc(l))
			}
			k := kt.(string)
			var v interface{}
			if err := dec.Decode(&v); err != nil {
				return rows, fmt.Errorf("line %d: %v: %q", i+1, err, trunc(l))
			}
			if _, dup := row.Values[k]; dup {
				return rows, fmt.Errorf("line %d: duplicate key %q", i+1, k)
			}
			row.Keys = append(row.Keys, k)
			row.Values[k] = v
		}
		if _, err := dec.Token(); err != nil {
			return rows, fmt.Errorf("line %d: %v: %q", i+1, err, trunc(l))
		}
		if _, err := dec.Token(); err != io.EOF {
			return rows, fmt.Errorf("line %d: trailing data: %q", i+1, trunc(l))
		}
		rows = append(rows, row)
	}
	return rows, nil
}

func trunc(b []byte) string {
	if len(b) > 200 {
		return string(b[:200]) + "..."
	}
	return string(b)
}

// DecodeCSV is a strict RFC-4180 decoder (own code: Go's encoding/csv drops blank lines and
// rewrites \r\n inside quoted fields). Records end with \n or \r\n. A blank line is a record of
// one empty field.
func DecodeCSV(out []byte, sep byte) ([][]string, error) {
	var recs [][]string
	var rec []string
	var field bytes.Buffer
	i := 0
	n := len(out)
	if n == 0 {
		return nil, nil
	}
	for i <= n {
		// start of a field
		field.Reset()
		if i < n && out[i] == '"' {
			i++
			for {
				if i >= n {
					return recs, fmt.Errorf("unterminated quoted field in record %d", len(recs)+1)
				}
				if out[i] == '"' {
					if i+1 < n && out[i+1] == '"' {
						field.WriteByte('"')
						i += 2
						continue
					}
					i++
					break
				}
				field.WriteByte(out[i])
				i++
			}
			if i < n && out[i] != sep && out[i] != '\n' && out[i] != '\r' {
				return recs, fmt.Errorf("garbage after closing quote in record %d", len(recs)+1)
			}
		} else {
			for i < n && out[i] != sep && out[i] != '\n' && !(out[i] == '\r' && i+1 < n && out[i+1] == '\n') {
				if out[i] == '"' {
					return recs, fmt.Errorf("bare quote in unquoted field in record %d", len(recs)+1)
				}
				field.WriteByte(out[i])
				i++
			}
		}
		rec = append(rec, field.String())
		if i >= n {
			recs = append(recs, rec)
			break
		}
		if out[i] == sep {
			i++
			continue
		}
		if out[i] == '\r' {
			i++
		}
		if i < n && out[i] == '\n' {
			i++
		}
		recs = append(recs, rec)
		rec = nil
		if i >= n {
			break
		}
	}
	return recs, nil
}

// NativeRec is one line of -o stream_native.
type NativeRec struct {
	IsWatermark bool
	Watermark   string // as printed
	Retraction  bool
	EventTime   string   // RFC3339 as printed
	Cells       []string // split on ", " (callers must keep cell alphabets free of ", " and " |}")
	Raw         string
}

// DecodeStreamNative parses `{+time| a, b |}`, `{-time| ... |}` and `{~watermark}` lines.
func DecodeStreamNative(out []byte) ([]NativeRec, error) {
	var recs []NativeRec
	for i, l := range strings.Split(strings.TrimSuffix(string(out), "\n"), "\n") {
		if l == "" && len(out) == 0 {
			break
		}
		if strings.HasPrefix(l, "{~") && strings.HasSuffix(l, "}") {
			recs = append(recs, NativeRec{IsWatermark: true, Watermark: l[2 : len(l)-1], Raw: l})
			continue
		}
		if len(l) < 6 || l[0] != '{' || (l[1] != '+' && l[1] != '-') || !strings.HasSuffix(l, " |}") {
			return recs, fmt.Errorf("line %d: not a stream_native record: %q", i+1, l)
		}
		bar := strings.Index(l, "| ")
		if bar < 0 {
			return recs, fmt.Errorf("line %d: no '| ' in %q", i+1, l)
		}
		body := l[bar+2 : len(l)-3]
		var cells []string
		if bar+2 <= len(l)-3 {
			cells = strings.Split(body, ", ")
		}
		if bar+2 > len(l)-3 { // `{+time|  |}` for zero columns
			cells = nil
		}
		recs = append(recs, NativeRec{Retraction: l[1] == '-', EventTime: l[2:bar], Cells: cells, Raw: l})
	}
	return recs, nil
}

// DecodeTable parses the grid printed by batch_table / the final frame of live_table:
//
//	+---+---+
//	| a | b |
//	+---+---+
//	| 1 | 2 |
//	+---+---+
//
// Cells must not contain '|' or newlines and must be short enough not to be wrapped (24 columns).
func DecodeTable(out []byte) (header []string, rows [][]string, err error) {
	lines := strings.Split(strings.TrimRight(string(out), "\n"), "\n")
	state := 0
	for _, l := range lines {
		if strings.HasPrefix(l, "+") {
			state++
			continue
		}
		if !strings.HasPrefix(l, "|") {
			continue
		}
		parts := strings.Split(l, "|")
		if len(parts) < 3 {
			return nil, nil, fmt.Errorf("bad table line %q", l)
		}
		cells := make([]string, 0, len(parts)-2)
		for _, p := range parts[1 : len(parts)-1] {
			cells = append(cells, strings.TrimSpace(p))
		}
		if state <= 1 {
			header = cells
		} else {
			rows = append(rows, cells)
		}
	}
	return header, rows, nil
}

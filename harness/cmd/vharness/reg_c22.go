package main

import _ "github.com/cube2222/octosql/plugins/verifharness/props/c22"

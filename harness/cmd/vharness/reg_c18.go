//go:build !verif_only || verif_only_c18

package main

import _ "github.com/cube2222/octosql/plugins/verifharness/props/c18"

//go:build !verif_only || verif_only_c30

package main

import _ "github.com/cube2222/octosql/plugins/verifharness/props/c30"

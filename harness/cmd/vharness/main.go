// vharness runs one property driver: vharness -prop C09 -tier quick -seed 1 -root /verif
package main

import (
	"flag"
	"fmt"
	"os"
	"strings"

	"github.com/cube2222/octosql/plugins/verifharness/core"
)

func main() {
	prop := flag.String("prop", "", "property id, e.g. C09")
	tier := flag.String("tier", "quick", "quick | thorough")
	seed := flag.Int64("seed", 1, "seed for every random choice")
	root := flag.String("root", "/verif", "verif root")
	replay := flag.String("replay", "", "replay file: re-execute exactly that case")
	only := flag.String("only", "", "run only the case with this id")
	list := flag.Bool("list", false, "list registered properties")
	flag.Parse()
	if *list {
		fmt.Println(strings.Join(core.Registered(), " "))
		return
	}
	fn := core.Lookup(*prop)
	if fn == nil {
		fmt.Fprintf(os.Stderr, "no driver registered for %q (have: %s)\n", *prop, strings.Join(core.Registered(), " "))
		os.Exit(3)
	}
	if *tier != "quick" && *tier != "thorough" {
		fmt.Fprintf(os.Stderr, "bad tier %q\n", *tier)
		os.Exit(3)
	}
	ctx, err := core.NewCtx(*prop, *tier, *seed, *root, *replay, *only)
	if err != nil {
		fmt.Fprintln(os.Stderr, err)
		os.Exit(3)
	}
	opts := fn(ctx)
	os.Exit(ctx.Finish(opts))
}

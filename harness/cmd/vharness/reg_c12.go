//go:build !verif_only || verif_only_c12

package main

import _ "github.com/cube2222/octosql/plugins/verifharness/props/c12"

//go:build !verif_only || verif_only_c24

package main

import _ "github.com/cube2222/octosql/plugins/verifharness/props/c24"

// testplugin is a real octosql plugin (built on plugins.Run) used by the C26/C27/C28 checks.
//
// Tables:
//
//	version        one row {version, name, repo}: the version directory / plugin name / repository
//	               slug the binary was started from
//	               (.../<repo>/octosql-plugin-<name>/<version>/octosql-plugin-<name>)
//	nums           rows i = 0..n-1 (option n, default 100): {i Int, sq Int, f Float, s String, even Boolean}
//	ctxecho        one row per variable of the variable contexts received at Materialize/Run:
//	               {frame Int, idx Int, name String, typ String (JSON of the octosql.Type), value Any}
//	<name>         a JSON-lines file: config `tables: {<name>: <path>}`, env
//	               TESTPLUGIN_TABLES="<name>=<path>;...", a file ./<name>.json in the working
//	               directory, or <name> itself if it is the path of an existing file (this is how
//	               a file-extension handler is called). Served through octosql's own JSON datasource.
//	<name>         a script file (package tpscript): config `scripts: {<name>: <path>}`, env
//	               TESTPLUGIN_SCRIPTS="<name>=<path>;...", or ./<name>.tps: schema, records
//	               (retractions, event times) and watermarks replayed verbatim.
//
// Every table accepts every pushed-down predicate and applies it itself with the real Filter
// node (table option pushdown=false: reject all). If TESTPLUGIN_LOG is set, one JSON line per
// GetTable/PushDownPredicates/Materialize call is appended to that file.
package main

import (
	"context"
	"encoding/json"
	"fmt"
	"os"
	"path/filepath"
	"strconv"
	"strings"
	"sync"
	"time"

	"github.com/cube2222/octosql/config"
	jsonds "github.com/cube2222/octosql/datasources/json"
	"github.com/cube2222/octosql/execution"
	"github.com/cube2222/octosql/execution/nodes"
	"github.com/cube2222/octosql/octosql"
	"github.com/cube2222/octosql/physical"
	"github.com/cube2222/octosql/plugins"

	"github.com/cube2222/octosql/plugins/verifharness/tpscript"
)

type pluginConfig struct {
	Tables  map[string]string `yaml:"tables"`
	Scripts map[string]string `yaml:"scripts"`
}

func main() {
	plugins.Run(func(ctx context.Context, dec plugins.ConfigDecoder) (physical.Database, error) {
		var cfg pluginConfig
		if err := dec.Decode(&cfg); err != nil {
			return nil, fmt.Errorf("couldn't decode config: %w", err)
		}
		db := &database{tables: map[string]string{}, scripts: map[string]string{}}
		parseEnvMap(os.Getenv("TESTPLUGIN_TABLES"), db.tables)
		parseEnvMap(os.Getenv("TESTPLUGIN_SCRIPTS"), db.scripts)
		for k, v := range cfg.Tables {
			db.tables[k] = v
		}
		for k, v := range cfg.Scripts {
			db.scripts[k] = v
		}
		db.version, db.name, db.repo = whereAmI()
		return db, nil
	})
}

func parseEnvMap(s string, into map[string]string) {
	for _, kv := range strings.Split(s, ";") {
		if i := strings.Index(kv, "="); i > 0 {
			into[kv[:i]] = kv[i+1:]
		}
	}
}

func whereAmI() (version, name, repo string) {
	exe, err := os.Executable()
	if err != nil {
		return "unknown", "unknown", "unknown"
	}
	versionDir := filepath.Dir(exe)
	pluginDir := filepath.Dir(versionDir)
	return filepath.Base(versionDir), strings.TrimPrefix(filepath.Base(pluginDir), "octosql-plugin-"), filepath.Base(filepath.Dir(pluginDir))
}

var logMu sync.Mutex

func logEvent(ev map[string]interface{}) {
	path := os.Getenv("TESTPLUGIN_LOG")
	if path == "" {
		return
	}
	data, err := json.Marshal(ev)
	if err != nil {
		data = []byte(fmt.Sprintf("{\"event\":%q,\"marshal_error\":%q}", fmt.Sprint(ev["event"]), err.Error()))
	}
	logMu.Lock()
	defer logMu.Unlock()
	f, err := os.OpenFile(path, os.O_CREATE|os.O_APPEND|os.O_WRONLY, 0o644)
	if err != nil {
		return
	}
	defer f.Close()
	_, _ = f.Write(append(data, '\n'))
}

type database struct {
	tables, scripts     map[string]string
	version, name, repo string
}

func (d *database) ListTables(ctx context.Context) ([]string, error) {
	out := []string{"version", "nums", "ctxecho"}
	for k := range d.tables {
		out = append(out, k)
	}
	for k := range d.scripts {
		out = append(out, k)
	}
	return out, nil
}

func fileExists(p string) bool {
	st, err := os.Stat(p)
	return err == nil && !st.IsDir()
}

func (d *database) GetTable(ctx context.Context, name string, options map[string]string) (physical.DatasourceImplementation, physical.Schema, error) {
	logEvent(map[string]interface{}{"event": "get_table", "table": name, "options": options})
	accept := options["pushdown"] != "false"
	switch name {
	case "version":
		schema := physical.NewSchema([]physical.SchemaField{
			{Name: "version", Type: octosql.String},
			{Name: "name", Type: octosql.String},
			{Name: "repo", Type: octosql.String},
		}, -1, physical.WithNoRetractions(true))
		row := []octosql.Value{octosql.NewString(d.version), octosql.NewString(d.name), octosql.NewString(d.repo)}
		return &impl{table: name, accept: accept, fields: schema.Fields, source: func(*physical.VariableContext, physical.Schema) (execution.Node, error) {
			return &rowsNode{rows: [][]octosql.Value{row}}, nil
		}}, schema, nil
	case "nums":
		n := 100
		if s, ok := options["n"]; ok {
			v, err := strconv.Atoi(s)
			if err != nil || v < 0 || v > 10000000 {
				return nil, physical.Schema{}, fmt.Errorf("bad option n=%q", s)
			}
			n = v
		}
		schema := physical.NewSchema([]physical.SchemaField{
			{Name: "i", Type: octosql.Int},
			{Name: "sq", Type: octosql.Int},
			{Name: "f", Type: octosql.Float},
			{Name: "s", Type: octosql.String},
			{Name: "even", Type: octosql.Boolean},
		}, -1, physical.WithNoRetractions(true))
		return &impl{table: name, accept: accept, fields: schema.Fields, source: func(*physical.VariableContext, physical.Schema) (execution.Node, error) {
			return &numsNode{n: n}, nil
		}}, schema, nil
	case "ctxecho":
		schema := physical.NewSchema([]physical.SchemaField{
			{Name: "frame", Type: octosql.Int},
			{Name: "idx", Type: octosql.Int},
			{Name: "name", Type: octosql.String},
			{Name: "typ", Type: octosql.String},
			{Name: "value", Type: octosql.Any},
		}, -1, physical.WithNoRetractions(true))
		return &impl{table: name, accept: accept, fields: schema.Fields, source: func(vc *physical.VariableContext, _ physical.Schema) (execution.Node, error) {
			return &ctxEchoNode{phys: vc}, nil
		}}, schema, nil
	}
	if path, ok := d.scripts[name]; ok || fileExists(name+".tps") {
		if !ok {
			path = name + ".tps"
		}
		script, err := tpscript.Read(path)
		if err != nil {
			return nil, physical.Schema{}, err
		}
		return &impl{table: name, accept: accept, fields: script.Schema.Fields, source: func(*physical.VariableContext, physical.Schema) (execution.Node, error) {
			return &scriptNode{script: script}, nil
		}}, script.Schema, nil
	}
	path, ok := d.tables[name]
	if !ok {
		switch {
		case fileExists(name + ".json"):
			path = name + ".json"
		case fileExists(name):
			path = name
		default:
			return nil, physical.Schema{}, fmt.Errorf("testplugin: no such table %q", name)
		}
	}
	jctx := withConfig(ctx)
	inner, schema, err := jsonds.Creator(jctx, path, options)
	if err != nil {
		return nil, physical.Schema{}, err
	}
	return &impl{table: name, accept: accept, inner: inner, fields: schema.Fields}, schema, nil
}

func withConfig(ctx context.Context) context.Context {
	return config.ContextWithConfig(ctx, &config.Config{
		Files: config.FilesConfig{
			BufferSizeBytes: 4096 * 1024,
			JSON:            config.JSONConfig{MaxLineSizeBytes: 1024 * 1024},
		},
	})
}

// impl accepts every predicate and applies it itself.
type impl struct {
	table  string
	accept bool
	fields []physical.SchemaField // the table's full field list, in table order
	// exactly one of inner / source is set; source produces records in the table's full field
	// order, which Materialize projects onto the requested schema.
	inner  physical.DatasourceImplementation
	source func(vc *physical.VariableContext, schema physical.Schema) (execution.Node, error)
}

func (i *impl) PushDownPredicates(newPredicates, pushedDownPredicates []physical.Expression) (rejected, pushedDown []physical.Expression, changed bool) {
	logEvent(map[string]interface{}{"event": "push_down", "table": i.table, "new": len(newPredicates), "already": len(pushedDownPredicates), "accept": i.accept, "new_exprs": newPredicates})
	if !i.accept {
		return newPredicates, pushedDownPredicates, false
	}
	out := append([]physical.Expression{}, pushedDownPredicates...)
	out = append(out, newPredicates...)
	return nil, out, len(newPredicates) > 0
}

func (i *impl) Materialize(ctx context.Context, env physical.Environment, schema physical.Schema, pushedDownPredicates []physical.Expression) (execution.Node, error) {
	frames := 0
	for vc := env.VariableContext; vc != nil; vc = vc.Parent {
		frames++
	}
	logEvent(map[string]interface{}{"event": "materialize", "table": i.table, "predicates": len(pushedDownPredicates), "fields": len(schema.Fields), "context_frames": frames, "exprs": pushedDownPredicates})
	var node execution.Node
	if i.inner != nil {
		n, err := i.inner.Materialize(withConfig(ctx), env, schema, nil)
		if err != nil {
			return nil, err
		}
		node = &configCtxNode{src: n}
	} else {
		src, err := i.source(env.VariableContext, schema)
		if err != nil {
			return nil, err
		}
		idx := make([]int, len(schema.Fields))
		for j, f := range schema.Fields {
			idx[j] = -1
			for k, tf := range i.fields {
				if tf.Name == f.Name {
					idx[j] = k
				}
			}
			if idx[j] == -1 {
				return nil, fmt.Errorf("testplugin: field %q not in table %s", f.Name, i.table)
			}
		}
		node = &projectNode{src: src, idx: idx}
	}
	for _, p := range pushedDownPredicates {
		e, err := p.Materialize(ctx, env.WithRecordSchema(schema))
		if err != nil {
			return nil, err
		}
		node = nodes.NewFilter(node, e)
	}
	return node, nil
}

// configCtxNode runs the JSON datasource with octosql's default configuration in the context (the
// datasource reads its buffer sizes from it).
type configCtxNode struct{ src execution.Node }

func (n *configCtxNode) Run(ctx execution.ExecutionContext, produce execution.ProduceFn, metaSend execution.MetaSendFn) error {
	ctx.Context = withConfig(ctx.Context)
	return n.src.Run(ctx, produce, metaSend)
}

type projectNode struct {
	src execution.Node
	idx []int
}

func (p *projectNode) Run(ctx execution.ExecutionContext, produce execution.ProduceFn, metaSend execution.MetaSendFn) error {
	return p.src.Run(ctx, func(pctx execution.ProduceContext, r execution.Record) error {
		vals := make([]octosql.Value, len(p.idx))
		for j, k := range p.idx {
			vals[j] = r.Values[k]
		}
		return produce(pctx, execution.NewRecord(vals, r.Retraction, r.EventTime))
	}, metaSend)
}

type rowsNode struct{ rows [][]octosql.Value }

func (n *rowsNode) Run(ctx execution.ExecutionContext, produce execution.ProduceFn, metaSend execution.MetaSendFn) error {
	pctx := execution.ProduceFromExecutionContext(ctx)
	for _, r := range n.rows {
		if err := produce(pctx, execution.NewRecord(r, false, time.Time{})); err != nil {
			return err
		}
	}
	return nil
}

type numsNode struct{ n int }

func (n *numsNode) Run(ctx execution.ExecutionContext, produce execution.ProduceFn, metaSend execution.MetaSendFn) error {
	pctx := execution.ProduceFromExecutionContext(ctx)
	for i := 0; i < n.n; i++ {
		select {
		case <-ctx.Done():
			return ctx.Err()
		default:
		}
		row := []octosql.Value{
			octosql.NewInt(int64(i)),
			octosql.NewInt(int64(i) * int64(i)),
			octosql.NewFloat(float64(i) / 4),
			octosql.NewString("s" + strconv.Itoa(i%7)),
			octosql.NewBoolean(i%2 == 0),
		}
		if err := produce(pctx, execution.NewRecord(row, false, time.Time{})); err != nil {
			return err
		}
	}
	return nil
}

type scriptNode struct{ script tpscript.Script }

func (n *scriptNode) Run(ctx execution.ExecutionContext, produce execution.ProduceFn, metaSend execution.MetaSendFn) error {
	pctx := execution.ProduceFromExecutionContext(ctx)
	for _, e := range n.script.Events {
		if e.IsMeta {
			if err := metaSend(pctx, e.Meta); err != nil {
				return err
			}
			continue
		}
		if err := produce(pctx, e.Record); err != nil {
			return err
		}
	}
	return nil
}

type ctxEchoNode struct{ phys *physical.VariableContext }

func (n *ctxEchoNode) Run(ctx execution.ExecutionContext, produce execution.ProduceFn, metaSend execution.MetaSendFn) error {
	pctx := execution.ProduceFromExecutionContext(ctx)
	phys := n.phys
	frame := 0
	for vc := ctx.VariableContext; vc != nil || phys != nil; frame++ {
		nvals, nfields := 0, 0
		if vc != nil {
			nvals = len(vc.Values)
		}
		if phys != nil {
			nfields = len(phys.Fields)
		}
		m := nvals
		if nfields > m {
			m = nfields
		}
		// a frame without variables still produces one row (idx -1) so that the frame count is visible
		if m == 0 {
			if err := produce(pctx, execution.NewRecord([]octosql.Value{octosql.NewInt(int64(frame)), octosql.NewInt(-1), octosql.NewString(""), octosql.NewString(""), octosql.NewNull()}, false, time.Time{})); err != nil {
				return err
			}
		}
		for i := 0; i < m; i++ {
			name, typ := "<no physical variable>", ""
			if i < nfields {
				name = phys.Fields[i].Name
				data, err := json.Marshal(phys.Fields[i].Type)
				if err != nil {
					return err
				}
				typ = string(data)
			}
			value := octosql.NewString("<no execution value>")
			if i < nvals {
				value = vc.Values[i]
			}
			if err := produce(pctx, execution.NewRecord([]octosql.Value{octosql.NewInt(int64(frame)), octosql.NewInt(int64(i)), octosql.NewString(name), octosql.NewString(typ), value}, false, time.Time{})); err != nil {
				return err
			}
		}
		if vc != nil {
			vc = vc.Parent
		}
		if phys != nil {
			phys = phys.Parent
		}
	}
	return nil
}

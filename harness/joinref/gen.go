package joinref

import (
	"fmt"
	"math/rand"
	"sort"
	"strings"
)

// GenOpts steers one generated case.
type GenOpts struct {
	// Class: "small" (all tables 1..14 rows), "asym-left"/"asym-right" (first/last table has Big
	// rows, the others 1..3), "stdin-slow" (one table of 150..400 rows is fed on stdin in paced
	// chunks, the others are small files), "stdin-fast" (a tiny table on stdin, a Big file).
	Class string
	Big   int
	// NoOrderLimit suppresses ORDER BY / LIMIT (C04 adds its own).
	NoOrderLimit bool
}

type Case struct {
	Tables []*Table
	Q      *Query
	Class  string
	Feat   []string // sorted feature tags for coverage counters
	Stdin  *Table   // nil if no table is on stdin
	// FirstChunk is the number of stdin rows in the first chunk (>= 130 so that schema inference,
	// which reads 100 rows ahead, completes before the paced remainder arrives).
	FirstChunk int
	// NullKeyBothSides: some equality conjunct that octosql evaluates as a join key has NULL on
	// both of its sides somewhere in the inputs (input predicate of the NULL-key findings).
	UniqueRows bool
}

func pick(rng *rand.Rand, weights ...float64) int {
	t := 0.0
	for _, w := range weights {
		t += w
	}
	x := rng.Float64() * t
	for i, w := range weights {
		if x < w {
			return i
		}
		x -= w
	}
	return len(weights) - 1
}

type flavors struct {
	key  [3]byte // 's' string, 'i' int-like, 'h' halves
	pool [3]int
	v    byte
	id   byte
}

func ctype(fl byte, format string) CType {
	switch fl {
	case 's':
		return TStr
	case 'i':
		if format == "csv" {
			return TInt
		}
		return TFloat
	}
	return TFloat
}

func poolVal(fl byte, i int) Val {
	switch fl {
	case 's':
		return Str([]string{"a", "b", "c", "d"}[i])
	case 'i':
		return Num(float64(i + 1))
	}
	return Num(float64(i) + 0.5)
}

func genTables(rng *rand.Rand, nT int, o GenOpts) ([]*Table, *Table, int, bool) {
	formats := make([]string, nT)
	mixed := false
	for i := range formats {
		formats[i] = []string{"json", "csv"}[rng.Intn(2)]
		if formats[i] != formats[0] {
			mixed = true
		}
	}
	var fl flavors
	numFl := func() byte {
		if mixed || rng.Intn(3) == 0 {
			return 'h'
		}
		return 'i'
	}
	for j := 0; j < 3; j++ {
		if rng.Intn(5) < 2 {
			fl.key[j] = 's'
		} else {
			fl.key[j] = numFl()
		}
		fl.pool[j] = 2 + rng.Intn(2)
	}
	fl.v = numFl()
	fl.id = 'i'
	if mixed {
		fl.id = 'h'
	}
	sizes := make([]int, nT)
	small := func() int { return 1 + pick(rng, 2, 2, 2, 2, 1, 1, 1, 1, 1, 1, 1, 1, 1, 1) }
	tiny := func() int { return 1 + pick(rng, 6, 2, 2) }
	stdinIdx := -1
	switch o.Class {
	case "asym-left":
		for i := range sizes {
			sizes[i] = tiny()
		}
		sizes[0] = o.Big + rng.Intn(o.Big/2+1)
	case "asym-right":
		for i := range sizes {
			sizes[i] = tiny()
		}
		sizes[nT-1] = o.Big + rng.Intn(o.Big/2+1)
	case "stdin-slow":
		for i := range sizes {
			sizes[i] = small()
		}
		stdinIdx = rng.Intn(nT)
		sizes[stdinIdx] = 150 + rng.Intn(250)
	case "stdin-fast":
		for i := range sizes {
			sizes[i] = tiny()
		}
		stdinIdx = rng.Intn(nT)
		other := (stdinIdx + 1 + rng.Intn(nT-1)) % nT
		sizes[other] = o.Big + rng.Intn(o.Big/2+1)
	default:
		for i := range sizes {
			sizes[i] = small()
		}
	}
	dupRows := rng.Intn(7) == 0
	unique := true
	var tables []*Table
	for ti := 0; ti < nT; ti++ {
		t := &Table{Format: formats[ti], File: fmt.Sprintf("t%d.%s", ti, formats[ti])}
		if ti == stdinIdx {
			t.Stdin = true
			t.File = "stdin." + formats[ti]
		}
		names := []string{"id", "k1", "k2", "k3", "v", "s"}
		rng.Shuffle(len(names), func(a, b int) { names[a], names[b] = names[b], names[a] })
		nullP := map[string]float64{"id": 0, "v": 0.2, "s": 0.2}
		for j := 1; j <= 3; j++ {
			nullP[fmt.Sprintf("k%d", j)] = []float64{0, 0.2, 0.45}[pick(rng, 0.25, 0.45, 0.3)]
		}
		for _, n := range names {
			var ct CType
			switch n {
			case "id":
				ct = ctype(fl.id, t.Format)
			case "v":
				ct = ctype(fl.v, t.Format)
			case "s":
				ct = TStr
			default:
				ct = ctype(fl.key[n[1]-'1'], t.Format)
			}
			t.Cols = append(t.Cols, Col{Name: n, T: ct})
		}
		for i := 0; i < sizes[ti]; i++ {
			row := make(Row, len(names))
			for ci, n := range names {
				if rng.Float64() < nullP[n] {
					row[ci] = Null
					continue
				}
				switch n {
				case "id":
					f := float64(ti*10000 + i + 1)
					if fl.id == 'h' {
						f += 0.5
					}
					row[ci] = Num(f)
				case "v":
					row[ci] = poolVal(fl.v, rng.Intn(4))
				case "s":
					row[ci] = Str([]string{"x", "y", "z", "X"}[pick(rng, 3, 3, 2, 1)])
				default:
					j := int(n[1] - '1')
					row[ci] = poolVal(fl.key[j], rng.Intn(fl.pool[j]))
				}
			}
			t.Rows = append(t.Rows, row)
		}
		if dupRows && sizes[ti] <= 14 {
			for d := 0; d < 1+rng.Intn(2); d++ {
				src := t.Rows[rng.Intn(len(t.Rows))]
				at := rng.Intn(len(t.Rows) + 1)
				t.Rows = append(t.Rows, nil)
				copy(t.Rows[at+1:], t.Rows[at:])
				t.Rows[at] = src
				unique = false
			}
		}
		// a column that is NULL in every row is typed NULL and most operators reject it
		for ci := range t.Cols {
			all := true
			for _, r := range t.Rows {
				if !r[ci].IsNull() {
					all = false
				}
			}
			if all {
				n := t.Cols[ci].Name
				switch n {
				case "v":
					t.Rows[0][ci] = poolVal(fl.v, rng.Intn(4))
				case "s":
					t.Rows[0][ci] = Str("x")
				default:
					j := int(n[1] - '1')
					t.Rows[0][ci] = poolVal(fl.key[j], rng.Intn(fl.pool[j]))
				}
			}
		}
		// schema inference reads 100 rows: make sure a column that is NULL somewhere is NULL within
		// them, and is not NULL everywhere within them
		if len(t.Rows) > 100 {
			for ci := range t.Cols {
				nullEarly, valEarly, nullLate := false, false, false
				for i, r := range t.Rows {
					if r[ci].IsNull() {
						if i < 100 {
							nullEarly = true
						} else {
							nullLate = true
						}
					} else if i < 100 {
						valEarly = true
					}
				}
				if nullLate && !nullEarly {
					t.Rows[1][ci] = Null
				}
				if !valEarly {
					for _, r := range t.Rows[100:] {
						if !r[ci].IsNull() {
							t.Rows[0][ci] = r[ci]
							break
						}
					}
				}
			}
		}
		tables = append(tables, t)
	}
	var st *Table
	if stdinIdx >= 0 {
		st = tables[stdinIdx]
	}
	return tables, st, stdinIdx, unique
}

type gen struct {
	rng    *rand.Rand
	o      GenOpts
	feat   map[string]bool
	leaves []*Leaf
}

func (g *gen) col(l *Leaf, name string) *ColRef {
	ci := l.T.ColIdx(name)
	if ci < 0 {
		return nil
	}
	ok := false
	for _, c := range l.Cols {
		if c == ci {
			ok = true
		}
	}
	if !ok {
		return nil
	}
	return &ColRef{Alias: l.Alias, Name: l.OutName(name), Slot: l.Slot, Idx: ci, T: l.T.Cols[ci].T}
}

// innerCol is a column reference inside the leaf's subquery (alias = Inner).
func (g *gen) innerCol(l *Leaf, name string) *ColRef {
	ci := l.T.ColIdx(name)
	return &ColRef{Alias: l.Inner, Name: name, Slot: l.Slot, Idx: ci, T: l.T.Cols[ci].T}
}

func (g *gen) single(l *Leaf, inner bool) Expr {
	get := g.col
	if inner {
		get = g.innerCol
	}
	var avail []string
	for _, ci := range l.Cols {
		avail = append(avail, l.T.Cols[ci].Name)
	}
	if inner {
		avail = nil
		for _, c := range l.T.Cols {
			avail = append(avail, c.Name)
		}
	}
	name := avail[g.rng.Intn(len(avail))]
	c := get(l, name)
	switch pick(g.rng, 4, 2, 1) {
	case 0:
		lit := g.litLocal(l, c)
		ops := []string{"=", "!=", "<", "<=", ">", ">="}
		return &Cmp{Op: ops[g.rng.Intn(len(ops))], L: c, R: lit}
	case 1:
		return &IsNull{E: c, Not: g.rng.Intn(2) == 0}
	default:
		lit := g.litLocal(l, c)
		return &Not{E: &Cmp{Op: []string{"=", "<"}[g.rng.Intn(2)], L: c, R: lit}}
	}
}

func (g *gen) litLocal(l *Leaf, c *ColRef) *Lit {
	if c.T == TStr {
		if c.Name == "s" {
			return &Lit{V: Str([]string{"x", "y", "z", "X"}[g.rng.Intn(4)]), T: TStr}
		}
		return &Lit{V: Str([]string{"a", "b", "c"}[g.rng.Intn(3)]), T: TStr}
	}
	sample := Null
	for _, r := range l.T.Rows {
		if !r[c.Idx].IsNull() {
			sample = r[c.Idx]
			break
		}
	}
	half := !sample.IsNull() && sample.F != float64(int64(sample.F))
	f := float64(1 + g.rng.Intn(3))
	if half {
		f -= 0.5
	}
	if c.Name == "id" && !sample.IsNull() {
		f = sample.F + float64(g.rng.Intn(4))
	}
	return &Lit{V: Num(f), T: c.T}
}

// cross builds a predicate over one column of each of two leaves (same name => same type).
func (g *gen) cross(x, y *Leaf, allowEq bool) Expr {
	names := []string{"v", "s", "k1", "k2", "k3"}
	g.rng.Shuffle(len(names), func(a, b int) { names[a], names[b] = names[b], names[a] })
	for _, n := range names {
		a, b := g.col(x, n), g.col(y, n)
		if a == nil || b == nil || a.T != b.T {
			continue
		}
		ops := []string{"!=", "<", "<=", ">", ">="}
		if allowEq {
			ops = append(ops, "=", "=")
		}
		op := ops[g.rng.Intn(len(ops))]
		var e Expr = &Cmp{Op: op, L: a, R: b}
		switch pick(g.rng, 6, 2, 1) {
		case 1:
			other := g.col(x, "s")
			if other == nil {
				other = a
			}
			e = &Or{L: e, R: &IsNull{E: other}}
			g.feat["pred-or"] = true
		case 2:
			if op != "=" {
				e = &Not{E: e}
			}
		}
		return e
	}
	return nil
}

func (g *gen) onFor(j *Join) {
	ls, rs := Leaves(j.L), Leaves(j.R)
	nEq := 1 + pick(g.rng, 0.5, 0.35, 0.15)
	if !j.Kind.IsOuter() && g.o.Class == "small" && g.rng.Intn(15) == 0 {
		nEq = 0
		g.feat["no-equality"] = true
	}
	used := map[int]bool{}
	for e := 0; e < nEq; e++ {
		for try := 0; try < 6; try++ {
			kj := g.rng.Intn(3)
			if used[kj] {
				continue
			}
			la, ra := ls[g.rng.Intn(len(ls))], rs[g.rng.Intn(len(rs))]
			ln, rn := fmt.Sprintf("k%d", kj+1), fmt.Sprintf("k%d", kj+1)
			if g.rng.Intn(10) == 0 {
				rn = fmt.Sprintf("k%d", g.rng.Intn(3)+1)
			}
			a, b := g.col(la, ln), g.col(ra, rn)
			if a == nil || b == nil || a.T != b.T {
				continue
			}
			used[kj] = true
			var l, r Expr = a, b
			if g.rng.Intn(8) == 0 {
				g.feat["key-expression"] = true
				if a.T == TStr {
					l, r = &Func{Name: "upper", Arg: a}, &Func{Name: "upper", Arg: b}
				} else {
					lit := &Lit{V: Num(1), T: a.T}
					l, r = &Arith{Op: "+", L: a, R: lit}, &Arith{Op: "+", L: b, R: lit}
				}
			}
			if g.rng.Intn(2) == 0 {
				l, r = r, l
			}
			j.On = append(j.On, &Cmp{Op: "=", L: l, R: r})
			break
		}
	}
	g.feat[fmt.Sprintf("eq-conjuncts-%d", len(j.On))] = true
	if !j.Kind.IsOuter() {
		nTheta := pick(g.rng, 0.6, 0.3, 0.1)
		if len(j.On) == 0 {
			nTheta = 1 + g.rng.Intn(2)
		}
		for t := 0; t < nTheta; t++ {
			la, ra := ls[g.rng.Intn(len(ls))], rs[g.rng.Intn(len(rs))]
			var e Expr
			if g.rng.Intn(5) == 0 {
				side := la
				if g.rng.Intn(2) == 0 {
					side = ra
				}
				e = g.single(side, false)
			} else {
				e = g.cross(la, ra, false)
			}
			if e != nil {
				j.On = append(j.On, e)
				g.feat["theta-in-on"] = true
			}
		}
		g.rng.Shuffle(len(j.On), func(a, b int) { j.On[a], j.On[b] = j.On[b], j.On[a] })
	}
}

// Gen generates one case from rng.
func Gen(rng *rand.Rand, o GenOpts) *Case {
	nT := 2
	if rng.Intn(10) < 3 {
		nT = 3
	}
	tables, stdin, stdinIdx, unique := genTables(rng, nT, o)
	g := &gen{rng: rng, o: o, feat: map[string]bool{}}
	for i, t := range tables {
		l := &Leaf{Slot: i, Alias: string(rune('a' + i)), T: t, Cols: t.StarOrder()}
		if rng.Intn(5) == 0 {
			l.Sub = true
			l.Inner = string(rune('x' + i))
			g.feat["subquery-side"] = true
			var cols []int
			for ci, c := range t.Cols {
				keep := true
				switch c.Name {
				case "id":
					keep = rng.Intn(5) != 0
				case "v", "s":
					keep = rng.Intn(10) < 7
				}
				if keep {
					cols = append(cols, ci)
				}
			}
			rng.Shuffle(len(cols), func(a, b int) { cols[a], cols[b] = cols[b], cols[a] })
			l.Cols = cols
			switch pick(rng, 5, 4, 1) {
			case 1:
				l.SubWhere = []Expr{g.single(l, true)}
			case 2:
				// empty side
				idc := g.innerCol(l, "id")
				l.SubWhere = []Expr{&Cmp{Op: "<", L: idc, R: &Lit{V: Num(0), T: idc.T}}}
				g.feat["empty-side"] = true
			}
		}
		g.leaves = append(g.leaves, l)
	}
	kind := func() JoinKind { return JoinKind(pick(rng, 0.3, 0.15, 0.2, 0.15, 0.2)) }
	var root *Join
	if nT == 2 {
		root = &Join{Kind: kind(), L: g.leaves[0], R: g.leaves[1]}
	} else if rng.Intn(10) < 6 {
		root = &Join{Kind: kind(), L: &Join{Kind: kind(), L: g.leaves[0], R: g.leaves[1]}, R: g.leaves[2]}
		g.feat["nested-left-deep"] = true
	} else {
		root = &Join{Kind: kind(), L: g.leaves[0], R: &Join{Kind: kind(), L: g.leaves[1], R: g.leaves[2]}}
		g.feat["nested-right"] = true
	}
	// lookup joins re-run their right side per left record: it must be a re-readable leaf
	var fix func(j *Join)
	fix = func(j *Join) {
		if j.Kind == Lookup {
			bad := false
			if _, isJoin := j.R.(*Join); isJoin {
				bad = true
			}
			for _, l := range Leaves(j.R) {
				if l.T.Stdin {
					bad = true
				}
			}
			// the joined side is re-opened per source record (~10-40 ms each): keep the source small
			bound := 1
			for _, l := range Leaves(j.L) {
				bound *= len(l.T.Rows)
			}
			if bound > 60 {
				bad = true
			}
			if bad {
				j.Kind = Inner
			}
		}
		if lj, ok := j.L.(*Join); ok {
			fix(lj)
		}
		if rj, ok := j.R.(*Join); ok {
			fix(rj)
		}
	}
	fix(root)
	// stdin below the right side of a lookup join anywhere above it is re-read too
	if stdinIdx >= 0 {
		var under func(f From, inLookupRight bool) bool
		under = func(f From, in bool) bool {
			switch n := f.(type) {
			case *Leaf:
				return in && n.T.Stdin
			case *Join:
				return under(n.L, in) || under(n.R, in || n.Kind == Lookup)
			}
			return false
		}
		if under(root, false) {
			var all func(j *Join)
			all = func(j *Join) {
				if j.Kind == Lookup {
					j.Kind = Inner
				}
				if lj, ok := j.L.(*Join); ok {
					all(lj)
				}
				if rj, ok := j.R.(*Join); ok {
					all(rj)
				}
			}
			all(root)
		}
	}
	var gen func(j *Join)
	gen = func(j *Join) {
		if lj, ok := j.L.(*Join); ok {
			gen(lj)
		}
		if rj, ok := j.R.(*Join); ok {
			gen(rj)
		}
		g.onFor(j)
	}
	gen(root)
	q := &Query{NSlots: nT, From: root, Limit: -1}
	// comma form: all joins inner, ON moves to WHERE
	allInner := true
	for _, k := range JoinKinds(root) {
		if k != Inner {
			allInner = false
		}
	}
	comma := false
	if allInner && g.feat["nested-right"] == false && rng.Intn(8) == 0 {
		comma = true
		g.feat["comma-join"] = true
		var mv func(j *Join)
		mv = func(j *Join) {
			j.Comma = true
			q.Where = append(q.Where, j.On...)
			j.On = nil
			if lj, ok := j.L.(*Join); ok {
				mv(lj)
			}
		}
		mv(root)
	}
	// WHERE
	nW := pick(rng, 0.45, 0.4, 0.15)
	for w := 0; w < nW; w++ {
		x, y := g.leaves[rng.Intn(nT)], g.leaves[rng.Intn(nT)]
		var e Expr
		switch {
		case x != y && rng.Intn(10) < 4:
			e = g.cross(x, y, true)
			g.feat["where-cross"] = true
		case x != y && rng.Intn(10) < 2:
			e = &Or{L: g.single(x, false), R: g.single(y, false)}
			g.feat["where-or"] = true
		default:
			e = g.single(x, false)
			g.feat["where-single"] = true
		}
		if e != nil {
			q.Where = append(q.Where, e)
		}
	}
	// select list
	if !comma && rng.Intn(100) < 15 {
		q.Star = true
		g.feat["select-star"] = true
	} else {
		allIDs := true
		for _, l := range g.leaves {
			for _, ci := range l.Cols {
				n := l.T.Cols[ci].Name
				p := 5
				if n == "id" {
					p = 8
				}
				if rng.Intn(10) < p {
					q.Sel = append(q.Sel, SelItem{E: g.col(l, n), As: l.Alias + "_" + n})
				} else if n == "id" {
					allIDs = false
				}
			}
			if g.col(l, "id") == nil {
				allIDs = false
			}
		}
		if len(q.Sel) == 0 {
			l := g.leaves[0]
			n := l.T.Cols[l.Cols[0]].Name
			q.Sel = append(q.Sel, SelItem{E: g.col(l, n), As: l.Alias + "_" + n})
		}
		if rng.Intn(10) < 3 {
			rng.Shuffle(len(q.Sel), func(a, b int) { q.Sel[a], q.Sel[b] = q.Sel[b], q.Sel[a] })
		}
		if rng.Intn(10) == 0 {
			x, y := g.leaves[rng.Intn(nT)], g.leaves[rng.Intn(nT)]
			if a, b := g.col(x, "v"), g.col(y, "v"); a != nil && b != nil {
				q.Sel = append(q.Sel, SelItem{E: &Arith{Op: "+", L: a, R: b}, As: "e0"})
				g.feat["select-expression"] = true
			}
		}
		if !g.o.NoOrderLimit {
			switch pick(rng, 0.7, 0.17, 0.13) {
			case 1:
				// LIMIT over duplicate rows is C05's subject (OrderSensitiveTransform counts distinct
				// rows, not rows): only generated when every output row is unique
				if allIDs && unique {
					q.Limit = 1 + rng.Intn(6)
					g.feat["limit"] = true
				}
			case 2:
				if allIDs && unique {
					nk := 1 + rng.Intn(2)
					seen := map[int]bool{}
					for k := 0; k < nk; k++ {
						s := rng.Intn(len(q.Sel))
						if seen[s] {
							continue
						}
						seen[s] = true
						q.OrderBy = append(q.OrderBy, OrderItem{Sel: s, Desc: rng.Intn(2) == 0})
					}
					g.feat["order-by"] = true
					if rng.Intn(2) == 0 {
						q.Limit = 1 + rng.Intn(6)
						g.feat["order-by-limit"] = true
					}
				}
			}
		}
	}
	for _, k := range JoinKinds(root) {
		g.feat["join-"+k.String()] = true
	}
	if len(q.Where) > 0 {
		g.feat["where"] = true
	}
	c := &Case{Tables: tables, Q: q, Class: o.Class, Stdin: stdin, UniqueRows: unique}
	if stdin != nil {
		c.FirstChunk = 130 + rng.Intn(15)
		if c.FirstChunk > len(stdin.Rows) {
			c.FirstChunk = len(stdin.Rows)
		}
	}
	for f := range g.feat {
		c.Feat = append(c.Feat, f)
	}
	sort.Strings(c.Feat)
	return c
}

// Files returns the files to write into the working directory (the stdin table excluded).
func (c *Case) Files() map[string][]byte {
	m := map[string][]byte{}
	for _, t := range c.Tables {
		if !t.Stdin {
			m[t.File] = t.Bytes()
		}
	}
	return m
}

// StdinChunks splits the stdin table: the first chunk holds FirstChunk rows, the rest is cut
// into `parts` pieces (paced by the caller).
func (c *Case) StdinChunks(parts int) [][]byte {
	if c.Stdin == nil {
		return nil
	}
	t := c.Stdin
	n := len(t.Rows)
	chunks := [][]byte{t.Encode(0, c.FirstChunk)}
	rest := n - c.FirstChunk
	if rest <= 0 {
		return chunks
	}
	if parts < 1 {
		parts = 1
	}
	at := c.FirstChunk
	for p := 0; p < parts; p++ {
		to := c.FirstChunk + rest*(p+1)/parts
		if to > at {
			chunks = append(chunks, t.Encode(at, to))
			at = to
		}
	}
	return chunks
}

// Describe renders the inputs for replay files (big tables abbreviated).
func (c *Case) Describe() map[string]interface{} {
	files := map[string]interface{}{}
	for _, t := range c.Tables {
		b := string(t.Bytes())
		if len(t.Rows) > 40 {
			lines := strings.SplitAfterN(b, "\n", 42)
			b = strings.Join(lines[:41], "") + fmt.Sprintf("... (%d rows in total; regenerate with --only)", len(t.Rows))
		}
		files[t.File] = b
	}
	return map[string]interface{}{"sql": c.Q.SQL(), "files": files, "class": c.Class, "features": c.Feat}
}

// NullKeyBothSides reports the input predicate of the NULL-key findings: the defect model and
// the reference disagree on this input for some setting of the defect flags.
func (c *Case) NullKeyBothSides(d Defect) bool {
	return !BagOf(c.Q.Eval(d)).Equal(BagOf(c.Q.Eval(Defect{})))
}

// Package joinref is an independent reference evaluator for join queries over small generated
// tables (nested-loop joins, Kleene three-valued logic, NULL padding for outer joins), together
// with the table encoders (JSON-lines, CSV) and the SQL renderer for the same query trees.
// It is the oracle of C02 and the generator substrate of C04. It imports nothing from octosql.
package joinref

import (
	"fmt"
	"sort"
	"strconv"
	"strings"
)

// ---------------------------------------------------------------------------------------------
// values

// Val is NULL, a number, a string or a boolean. Numbers are float64: a generated column is
// either Int everywhere or Float everywhere and comparisons are only generated between columns
// of the same octosql type, so the Int/Float distinction never decides a result.
type Val struct {
	K byte // 'N' null, 'n' number, 's' string, 'b' boolean
	F float64
	S string
}

var Null = Val{K: 'N'}

func Num(f float64) Val { return Val{K: 'n', F: f} }
func Str(s string) Val  { return Val{K: 's', S: s} }
func Bool(b bool) Val {
	if b {
		return Val{K: 'b', F: 1}
	}
	return Val{K: 'b'}
}
func (v Val) IsNull() bool { return v.K == 'N' }
func (v Val) True() bool   { return v.K == 'b' && v.F == 1 }

// Key is the canonical cell encoding used for multiset comparison.
func (v Val) Key() string {
	switch v.K {
	case 'N':
		return "N"
	case 'n':
		return "n" + strconv.FormatFloat(v.F, 'g', -1, 64)
	case 's':
		return "s" + v.S
	case 'b':
		if v.F == 1 {
			return "b1"
		}
		return "b0"
	}
	return "?" + v.S
}

// Compare orders values the documented way: NULL first, then numbers, booleans, strings
// (bytewise); only used for ORDER BY checks over columns of one type plus NULL.
func Compare(a, b Val) int {
	rank := func(k byte) int {
		switch k {
		case 'N':
			return 0
		case 'n':
			return 1
		case 'b':
			return 2
		case 's':
			return 3
		}
		return 4
	}
	if ra, rb := rank(a.K), rank(b.K); ra != rb {
		if ra < rb {
			return -1
		}
		return 1
	}
	switch a.K {
	case 'n', 'b':
		if a.F < b.F {
			return -1
		}
		if a.F > b.F {
			return 1
		}
		return 0
	case 's', '?':
		return strings.Compare(a.S, b.S)
	}
	return 0
}

type Row []Val

func RowKey(r []Val) string {
	var sb strings.Builder
	for i, v := range r {
		if i > 0 {
			sb.WriteByte(0x1f)
		}
		sb.WriteString(v.Key())
	}
	return sb.String()
}

// ---------------------------------------------------------------------------------------------
// tables

type CType int

const (
	TInt CType = iota
	TFloat
	TStr
)

type Col struct {
	Name string
	T    CType // the type octosql infers for the column in this file format
}

type Table struct {
	File   string // "t0.json", "t1.csv", "stdin.json", "stdin.csv"
	Format string // "json" | "csv"
	Cols   []Col
	Rows   []Row
	Stdin  bool
}

func (t *Table) ColIdx(name string) int {
	for i, c := range t.Cols {
		if c.Name == name {
			return i
		}
	}
	return -1
}

// StarOrder is the column order of `SELECT *` over this file: the JSON datasource sorts field
// names, the CSV datasource keeps header order.
func (t *Table) StarOrder() []int {
	idx := make([]int, len(t.Cols))
	for i := range idx {
		idx[i] = i
	}
	if t.Format == "json" {
		sort.Slice(idx, func(a, b int) bool { return t.Cols[idx[a]].Name < t.Cols[idx[b]].Name })
	}
	return idx
}

func fmtNum(f float64, t CType) string {
	if t == TInt {
		return strconv.FormatInt(int64(f), 10)
	}
	s := strconv.FormatFloat(f, 'f', -1, 64)
	if !strings.Contains(s, ".") {
		s += ".0"
	}
	return s
}

// Encode renders rows [from,to) of the table in its file format (CSV: with header iff from==0).
func (t *Table) Encode(from, to int) []byte {
	var sb strings.Builder
	if t.Format == "csv" {
		if from == 0 {
			for i, c := range t.Cols {
				if i > 0 {
					sb.WriteByte(',')
				}
				sb.WriteString(c.Name)
			}
			sb.WriteByte('\n')
		}
		for _, r := range t.Rows[from:to] {
			for i, v := range r {
				if i > 0 {
					sb.WriteByte(',')
				}
				switch v.K {
				case 'n':
					sb.WriteString(fmtNum(v.F, t.Cols[i].T))
				case 's':
					sb.WriteString(v.S) // alphabet: letters only
				}
			}
			sb.WriteByte('\n')
		}
		return []byte(sb.String())
	}
	for _, r := range t.Rows[from:to] {
		sb.WriteByte('{')
		for i, v := range r {
			if i > 0 {
				sb.WriteByte(',')
			}
			sb.WriteString(strconv.Quote(t.Cols[i].Name))
			sb.WriteByte(':')
			switch v.K {
			case 'N':
				sb.WriteString("null")
			case 'n':
				sb.WriteString(strconv.FormatFloat(v.F, 'f', -1, 64))
			case 's':
				sb.WriteString(strconv.Quote(v.S))
			}
		}
		sb.WriteString("}\n")
	}
	return []byte(sb.String())
}

func (t *Table) Bytes() []byte { return t.Encode(0, len(t.Rows)) }

// ---------------------------------------------------------------------------------------------
// expressions

// JRow is one row of a FROM tree: one source row per slot (nil = the slot is NULL-padded or not
// part of the subtree).
type JRow []Row

type Expr interface {
	SQL() string
	Eval(r JRow) Val
	Slots(into map[int]bool)
}

type ColRef struct {
	Alias, Name string
	Slot, Idx   int
	T           CType
}

func (c *ColRef) SQL() string { return c.Alias + "." + c.Name }
func (c *ColRef) Eval(r JRow) Val {
	row := r[c.Slot]
	if row == nil {
		return Null
	}
	return row[c.Idx]
}
func (c *ColRef) Slots(m map[int]bool) { m[c.Slot] = true }

type Lit struct {
	V Val
	T CType
}

func (l *Lit) SQL() string {
	switch l.V.K {
	case 'n':
		return fmtNum(l.V.F, l.T)
	case 's':
		return "'" + l.V.S + "'"
	case 'b':
		if l.V.F == 1 {
			return "true"
		}
		return "false"
	}
	return "NULL"
}
func (l *Lit) Eval(JRow) Val      { return l.V }
func (l *Lit) Slots(map[int]bool) {}

// Cmp is a comparison = != < <= > >= with SQL NULL propagation.
type Cmp struct {
	Op   string
	L, R Expr
}

func (c *Cmp) SQL() string { return c.L.SQL() + " " + c.Op + " " + c.R.SQL() }
func (c *Cmp) Eval(r JRow) Val {
	a, b := c.L.Eval(r), c.R.Eval(r)
	if a.IsNull() || b.IsNull() {
		return Null
	}
	cmp := Compare(a, b)
	switch c.Op {
	case "=":
		return Bool(cmp == 0)
	case "!=":
		return Bool(cmp != 0)
	case "<":
		return Bool(cmp < 0)
	case "<=":
		return Bool(cmp <= 0)
	case ">":
		return Bool(cmp > 0)
	case ">=":
		return Bool(cmp >= 0)
	}
	panic("bad op " + c.Op)
}
func (c *Cmp) Slots(m map[int]bool) { c.L.Slots(m); c.R.Slots(m) }

type IsNull struct {
	E   Expr
	Not bool
}

func (e *IsNull) SQL() string {
	if e.Not {
		return e.E.SQL() + " IS NOT NULL"
	}
	return e.E.SQL() + " IS NULL"
}
func (e *IsNull) Eval(r JRow) Val      { return Bool(e.E.Eval(r).IsNull() != e.Not) }
func (e *IsNull) Slots(m map[int]bool) { e.E.Slots(m) }

// Or / Not: Kleene logic.
type Or struct{ L, R Expr }

func (e *Or) SQL() string { return "(" + e.L.SQL() + " OR " + e.R.SQL() + ")" }
func (e *Or) Eval(r JRow) Val {
	a, b := e.L.Eval(r), e.R.Eval(r)
	if a.True() || b.True() {
		return Bool(true)
	}
	if a.IsNull() || b.IsNull() {
		return Null
	}
	return Bool(false)
}
func (e *Or) Slots(m map[int]bool) { e.L.Slots(m); e.R.Slots(m) }

type Not struct{ E Expr }

func (e *Not) SQL() string { return "NOT (" + e.E.SQL() + ")" }
func (e *Not) Eval(r JRow) Val {
	a := e.E.Eval(r)
	if a.IsNull() {
		return Null
	}
	return Bool(!a.True())
}
func (e *Not) Slots(m map[int]bool) { e.E.Slots(m) }

// Func: upper / lower on strings (strict).
type Func struct {
	Name string
	Arg  Expr
}

func (f *Func) SQL() string { return f.Name + "(" + f.Arg.SQL() + ")" }
func (f *Func) Eval(r JRow) Val {
	a := f.Arg.Eval(r)
	if a.IsNull() {
		return Null
	}
	switch f.Name {
	case "upper":
		return Str(strings.ToUpper(a.S))
	case "lower":
		return Str(strings.ToLower(a.S))
	}
	panic("bad func " + f.Name)
}
func (f *Func) Slots(m map[int]bool) { f.Arg.Slots(m) }

// Arith: + - * on numbers of one type (strict).
type Arith struct {
	Op   string
	L, R Expr
}

func (a *Arith) SQL() string { return "(" + a.L.SQL() + " " + a.Op + " " + a.R.SQL() + ")" }
func (a *Arith) Eval(r JRow) Val {
	x, y := a.L.Eval(r), a.R.Eval(r)
	if x.IsNull() || y.IsNull() {
		return Null
	}
	switch a.Op {
	case "+":
		return Num(x.F + y.F)
	case "-":
		return Num(x.F - y.F)
	case "*":
		return Num(x.F * y.F)
	}
	panic("bad arith " + a.Op)
}
func (a *Arith) Slots(m map[int]bool) { a.L.Slots(m); a.R.Slots(m) }

// ---------------------------------------------------------------------------------------------
// FROM trees

type JoinKind int

const (
	Inner JoinKind = iota
	Lookup
	Left
	Right
	Full
)

func (k JoinKind) String() string {
	return [...]string{"inner", "lookup", "left", "right", "outer"}[k]
}
func (k JoinKind) keyword() string {
	return [...]string{"JOIN", "LOOKUP JOIN", "LEFT JOIN", "RIGHT JOIN", "OUTER JOIN"}[k]
}
func (k JoinKind) IsOuter() bool { return k >= Left }

type From interface {
	SQL() string
	SlotSet(into map[int]bool)
}

// Leaf is a file, or a subquery `(SELECT x.c AS c, ... FROM file x WHERE ...) alias` over it.
type Leaf struct {
	Slot  int
	Alias string
	T     *Table
	Cols  []int // available columns (indexes into T.Cols) in `SELECT *` order
	// subquery form
	Sub      bool
	Inner    string // alias inside the subquery
	SubWhere []Expr // over Inner, bound to the same slot
}

func (l *Leaf) SQL() string {
	if !l.Sub {
		return l.T.File + " " + l.Alias
	}
	var items []string
	for _, ci := range l.Cols {
		n := l.T.Cols[ci].Name
		items = append(items, l.Inner+"."+n+" AS "+l.OutName(n))
	}
	s := "(SELECT " + strings.Join(items, ", ") + " FROM " + l.T.File + " " + l.Inner
	if len(l.SubWhere) > 0 {
		s += " WHERE " + conjSQL(l.SubWhere)
	}
	return s + ") " + l.Alias
}

// OutName is the name under which column n of the file is visible outside the leaf. Subquery
// sides rename their columns (alias-prefixed): octosql's typechecker confuses the unique name of
// an unqualified subquery column `k1` with a same-named column `b.k1` of the other join side
// and then rejects outer joins ("must each reference only one of the input tables") and does not
// extract inner-join keys.
func (l *Leaf) OutName(n string) string {
	if l.Sub {
		return l.Alias + "q" + n
	}
	return n
}
func (l *Leaf) SlotSet(m map[int]bool) { m[l.Slot] = true }

type Join struct {
	Kind  JoinKind
	L, R  From
	On    []Expr
	Comma bool // `L, R` (top level only, no ON)
}

func conjSQL(cs []Expr) string {
	parts := make([]string, len(cs))
	for i, c := range cs {
		parts[i] = c.SQL()
	}
	return strings.Join(parts, " AND ")
}

func (j *Join) SQL() string {
	if j.Comma {
		return j.L.SQL() + ", " + j.R.SQL()
	}
	r := j.R.SQL()
	if _, ok := j.R.(*Join); ok {
		r = "(" + r + ")"
	}
	s := j.L.SQL() + " " + j.Kind.keyword() + " " + r
	if len(j.On) > 0 {
		s += " ON " + conjSQL(j.On)
	}
	return s
}
func (j *Join) SlotSet(m map[int]bool) { j.L.SlotSet(m); j.R.SlotSet(m) }

// Leaves lists the leaves left to right.
func Leaves(f From) []*Leaf {
	switch n := f.(type) {
	case *Leaf:
		return []*Leaf{n}
	case *Join:
		return append(Leaves(n.L), Leaves(n.R)...)
	}
	return nil
}

// JoinKinds lists the join kinds in the tree.
func JoinKinds(f From) []JoinKind {
	if j, ok := f.(*Join); ok {
		return append(append(JoinKinds(j.L), j.Kind), JoinKinds(j.R)...)
	}
	return nil
}

// ---------------------------------------------------------------------------------------------
// queries

type SelItem struct {
	E  Expr
	As string
}

type OrderItem struct {
	Sel  int // index into the output columns
	Desc bool
}

type Query struct {
	NSlots  int
	From    From
	Where   []Expr
	Star    bool
	Sel     []SelItem
	OrderBy []OrderItem
	Limit   int // -1: none
}

func (q *Query) SQL() string {
	var sb strings.Builder
	sb.WriteString("SELECT ")
	if q.Star {
		sb.WriteString("*")
	} else {
		for i, it := range q.Sel {
			if i > 0 {
				sb.WriteString(", ")
			}
			sb.WriteString(it.E.SQL() + " AS " + it.As)
		}
	}
	sb.WriteString(" FROM " + q.From.SQL())
	if len(q.Where) > 0 {
		sb.WriteString(" WHERE " + conjSQL(q.Where))
	}
	if len(q.OrderBy) > 0 {
		sb.WriteString(" ORDER BY ")
		for i, o := range q.OrderBy {
			if i > 0 {
				sb.WriteString(", ")
			}
			sb.WriteString(q.Sel[o.Sel].As)
			if o.Desc {
				sb.WriteString(" DESC")
			}
		}
	}
	if q.Limit >= 0 {
		sb.WriteString(fmt.Sprintf(" LIMIT %d", q.Limit))
	}
	return sb.String()
}

// OutCols returns, per output column, the slot it comes from (-1 for computed expressions).
func (q *Query) OutCols() []int {
	var out []int
	if q.Star {
		for _, l := range Leaves(q.From) {
			for range l.Cols {
				out = append(out, l.Slot)
			}
		}
		return out
	}
	for _, it := range q.Sel {
		if c, ok := it.E.(*ColRef); ok {
			out = append(out, c.Slot)
		} else {
			out = append(out, -1)
		}
	}
	return out
}

// ---------------------------------------------------------------------------------------------
// evaluation

// Defect selects the defect model used ONLY to attribute a mismatch to the known NULL-key
// findings: an equality conjunct that octosql turns into a join key is matched with
// Compare (NULL equals NULL) instead of SQL equality.
type Defect struct {
	InnerKeys bool // stream-join keys extracted by the optimizer (optimizer on only)
	OuterKeys bool // outer-join keys (always)
}

func merge(n int, a, b JRow) JRow {
	out := make(JRow, n)
	copy(out, a)
	for i, r := range b {
		if r != nil {
			out[i] = r
		}
	}
	return out
}

func allTrue(cs []Expr, r JRow) bool {
	for _, c := range cs {
		if !c.Eval(r).True() {
			return false
		}
	}
	return true
}

// keyEq reports whether c is an equality one side of which only uses slots of ls and the other
// only slots of rs (both non-empty): the shape octosql moves into join keys.
func keyEq(c Expr, ls, rs map[int]bool) (*Cmp, bool) {
	cmp, ok := c.(*Cmp)
	if !ok || cmp.Op != "=" {
		return nil, false
	}
	a, b := map[int]bool{}, map[int]bool{}
	cmp.L.Slots(a)
	cmp.R.Slots(b)
	within := func(s, of map[int]bool) bool {
		if len(s) == 0 {
			return false
		}
		for k := range s {
			if !of[k] {
				return false
			}
		}
		return true
	}
	if (within(a, ls) && within(b, rs)) || (within(a, rs) && within(b, ls)) {
		return cmp, true
	}
	return nil, false
}

type nullSafeEq struct{ c *Cmp }

func (n nullSafeEq) SQL() string { return n.c.SQL() }
func (n nullSafeEq) Eval(r JRow) Val {
	a, b := n.c.L.Eval(r), n.c.R.Eval(r)
	if a.IsNull() && b.IsNull() {
		return Bool(true)
	}
	return n.c.Eval(r)
}
func (n nullSafeEq) Slots(m map[int]bool) { n.c.Slots(m) }

func usesOnly(c Expr, of map[int]bool) bool {
	s := map[int]bool{}
	c.Slots(s)
	if len(s) == 0 {
		return false
	}
	for k := range s {
		if !of[k] {
			return false
		}
	}
	return true
}

func isInnerJoin(f From) bool {
	j, ok := f.(*Join)
	return ok && j.Kind == Inner
}

// evalFrom evaluates a FROM tree. pushed are conjuncts handed down from above (the WHERE clause
// or an enclosing inner join's ON): semantically they are plain filters; they are threaded down
// only so that the defect model knows which equalities end up directly above which stream join.
func evalFrom(f From, n int, d Defect, pushed []Expr) []JRow {
	switch node := f.(type) {
	case *Leaf:
		var out []JRow
		for _, r := range node.T.Rows {
			jr := make(JRow, n)
			jr[node.Slot] = r
			if allTrue(node.SubWhere, jr) && allTrue(pushed, jr) {
				out = append(out, jr)
			}
		}
		return out
	case *Join:
		ls, rs := map[int]bool{}, map[int]bool{}
		node.L.SlotSet(ls)
		node.R.SlotSet(rs)
		var local, pl, pr, post []Expr
		switch node.Kind {
		case Inner:
			for _, c := range append(append([]Expr{}, node.On...), pushed...) {
				switch {
				case usesOnly(c, ls) && isInnerJoin(node.L):
					pl = append(pl, c)
				case usesOnly(c, rs) && isInnerJoin(node.R):
					pr = append(pr, c)
				default:
					if cmp, ok := keyEq(c, ls, rs); ok && d.InnerKeys {
						local = append(local, nullSafeEq{cmp})
					} else {
						local = append(local, c)
					}
				}
			}
		case Lookup:
			for _, c := range append(append([]Expr{}, node.On...), pushed...) {
				if usesOnly(c, ls) && isInnerJoin(node.L) {
					pl = append(pl, c)
				} else {
					local = append(local, c)
				}
			}
		default:
			for _, c := range node.On {
				if cmp, ok := keyEq(c, ls, rs); ok && d.OuterKeys {
					local = append(local, nullSafeEq{cmp})
				} else {
					local = append(local, c)
				}
			}
			post = pushed
		}
		L := evalFrom(node.L, n, d, pl)
		R := evalFrom(node.R, n, d, pr)
		var out []JRow
		rMatched := make([]bool, len(R))
		for _, l := range L {
			matched := false
			for ri, r := range R {
				m := merge(n, l, r)
				if allTrue(local, m) {
					matched = true
					rMatched[ri] = true
					out = append(out, m)
				}
			}
			if !matched && (node.Kind == Left || node.Kind == Full) {
				out = append(out, merge(n, l, nil))
			}
		}
		if node.Kind == Right || node.Kind == Full {
			for ri, r := range R {
				if !rMatched[ri] {
					out = append(out, merge(n, r, nil))
				}
			}
		}
		if len(post) > 0 {
			kept := out[:0]
			for _, r := range out {
				if allTrue(post, r) {
					kept = append(kept, r)
				}
			}
			out = kept
		}
		return out
	}
	panic("bad from node")
}

// Eval returns the rows of the query before ORDER BY / LIMIT (in no particular order).
// With the zero Defect this is the reference semantics.
func (q *Query) Eval(d Defect) [][]Val {
	var rows []JRow
	if isInnerJoin(q.From) || isLookup(q.From) {
		rows = evalFrom(q.From, q.NSlots, d, q.Where)
	} else {
		rows = evalFrom(q.From, q.NSlots, d, nil)
		kept := rows[:0]
		for _, r := range rows {
			if allTrue(q.Where, r) {
				kept = append(kept, r)
			}
		}
		rows = kept
	}
	out := make([][]Val, 0, len(rows))
	if q.Star {
		leaves := Leaves(q.From)
		for _, r := range rows {
			var o []Val
			for _, l := range leaves {
				for _, ci := range l.Cols {
					if r[l.Slot] == nil {
						o = append(o, Null)
					} else {
						o = append(o, r[l.Slot][ci])
					}
				}
			}
			out = append(out, o)
		}
		return out
	}
	for _, r := range rows {
		o := make([]Val, len(q.Sel))
		for i, it := range q.Sel {
			o[i] = it.E.Eval(r)
		}
		out = append(out, o)
	}
	return out
}

func isLookup(f From) bool {
	j, ok := f.(*Join)
	return ok && j.Kind == Lookup
}

// EvalPlain is the reference semantics written without any of the conjunct threading above
// (WHERE strictly after FROM); used as a cross-check of Eval(Defect{}) in the drivers' self
// checks so that the threading cannot silently change the reference.
func (q *Query) EvalPlain() [][]Val {
	var ev func(f From) []JRow
	n := q.NSlots
	ev = func(f From) []JRow {
		switch node := f.(type) {
		case *Leaf:
			var out []JRow
			for _, r := range node.T.Rows {
				jr := make(JRow, n)
				jr[node.Slot] = r
				if allTrue(node.SubWhere, jr) {
					out = append(out, jr)
				}
			}
			return out
		case *Join:
			L, R := ev(node.L), ev(node.R)
			var out []JRow
			rm := make([]bool, len(R))
			for _, l := range L {
				matched := false
				for ri, r := range R {
					m := merge(n, l, r)
					if allTrue(node.On, m) {
						matched, rm[ri] = true, true
						out = append(out, m)
					}
				}
				if !matched && (node.Kind == Left || node.Kind == Full) {
					out = append(out, merge(n, l, nil))
				}
			}
			if node.Kind == Right || node.Kind == Full {
				for ri, r := range R {
					if !rm[ri] {
						out = append(out, merge(n, r, nil))
					}
				}
			}
			return out
		}
		panic("bad from")
	}
	var out [][]Val
	leaves := Leaves(q.From)
	for _, r := range ev(q.From) {
		if !allTrue(q.Where, r) {
			continue
		}
		var o []Val
		if q.Star {
			for _, l := range leaves {
				for _, ci := range l.Cols {
					if r[l.Slot] == nil {
						o = append(o, Null)
					} else {
						o = append(o, r[l.Slot][ci])
					}
				}
			}
		} else {
			for _, it := range q.Sel {
				o = append(o, it.E.Eval(r))
			}
		}
		out = append(out, o)
	}
	return out
}

// ---------------------------------------------------------------------------------------------
// multisets

type Bag map[string]int

func BagOf(rows [][]Val) Bag {
	b := Bag{}
	for _, r := range rows {
		b[RowKey(r)]++
	}
	return b
}

func (b Bag) Size() int {
	n := 0
	for _, c := range b {
		n += c
	}
	return n
}

func (b Bag) Equal(o Bag) bool {
	for k, c := range b {
		if c != 0 && o[k] != c {
			return false
		}
	}
	for k, c := range o {
		if c != 0 && b[k] != c {
			return false
		}
	}
	return true
}

// Minus returns the rows (with multiplicity) of b that are not in o.
func (b Bag) Minus(o Bag) Bag {
	out := Bag{}
	for k, c := range b {
		if d := c - o[k]; d > 0 {
			out[k] = d
		}
	}
	return out
}

// HasNegative reports a row with negative multiplicity (more retractions than insertions).
func (b Bag) HasNegative() bool {
	for _, c := range b {
		if c < 0 {
			return true
		}
	}
	return false
}

func (b Bag) String() string {
	keys := make([]string, 0, len(b))
	for k, c := range b {
		if c != 0 {
			keys = append(keys, k)
		}
	}
	sort.Strings(keys)
	var sb strings.Builder
	for i, k := range keys {
		if i >= 12 {
			sb.WriteString(fmt.Sprintf(" ...(%d distinct)", len(keys)))
			break
		}
		if i > 0 {
			sb.WriteString(" ")
		}
		sb.WriteString(fmt.Sprintf("%dx[%s]", b[k], strings.ReplaceAll(k, "\x1f", ",")))
	}
	return sb.String()
}

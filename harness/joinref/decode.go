package joinref

import (
	"encoding/json"
	"fmt"
	"strconv"
	"strings"

	"github.com/cube2222/octosql/plugins/verifharness/cli"
)

// Output is one decoded octosql output: the rows in printed order with their sign (stream_native
// only; +1 elsewhere) and the header where the mode prints one.
type Output struct {
	Header []string
	Rows   [][]Val
	Sign   []int
	Times  []string // stream_native event time prefixes
}

func cellNative(s string) Val {
	switch {
	case s == "<null>":
		return Null
	case len(s) >= 2 && s[0] == '\'' && s[len(s)-1] == '\'':
		return Str(s[1 : len(s)-1])
	case s == "true":
		return Bool(true)
	case s == "false":
		return Bool(false)
	}
	if f, err := strconv.ParseFloat(s, 64); err == nil {
		return Num(f)
	}
	return Val{K: '?', S: s}
}

func cellCSV(s string) Val {
	switch s {
	case "":
		return Null
	case "true":
		return Bool(true)
	case "false":
		return Bool(false)
	}
	if f, err := strconv.ParseFloat(s, 64); err == nil {
		return Num(f)
	}
	return Str(s)
}

func cellJSON(v interface{}) Val {
	switch x := v.(type) {
	case nil:
		return Null
	case string:
		return Str(x)
	case bool:
		return Bool(x)
	case json.Number:
		if f, err := x.Float64(); err == nil {
			return Num(f)
		}
		return Val{K: '?', S: x.String()}
	}
	b, _ := json.Marshal(v)
	return Val{K: '?', S: string(b)}
}

// Decode decodes stdout of the given output mode.
func Decode(mode string, stdout []byte) (Output, error) {
	var o Output
	switch mode {
	case "json":
		rows, err := cli.DecodeJSONLines(stdout)
		if err != nil {
			return o, err
		}
		for i, r := range rows {
			if i == 0 {
				o.Header = r.Keys
			} else if strings.Join(r.Keys, "\x00") != strings.Join(o.Header, "\x00") {
				return o, fmt.Errorf("json line %d has keys %v, first line has %v", i+1, r.Keys, o.Header)
			}
			row := make([]Val, len(r.Keys))
			for j, k := range r.Keys {
				row[j] = cellJSON(r.Values[k])
			}
			o.Rows = append(o.Rows, row)
			o.Sign = append(o.Sign, 1)
		}
	case "csv":
		recs, err := cli.DecodeCSV(stdout, ',')
		if err != nil {
			return o, err
		}
		if len(recs) == 0 {
			return o, nil
		}
		o.Header = recs[0]
		for i, rec := range recs[1:] {
			if len(rec) != len(o.Header) {
				return o, fmt.Errorf("csv record %d has %d fields, header has %d", i+1, len(rec), len(o.Header))
			}
			row := make([]Val, len(rec))
			for j, c := range rec {
				row[j] = cellCSV(c)
			}
			o.Rows = append(o.Rows, row)
			o.Sign = append(o.Sign, 1)
		}
	case "stream_native":
		recs, err := cli.DecodeStreamNative(stdout)
		if err != nil {
			return o, err
		}
		for _, r := range recs {
			if r.IsWatermark {
				continue
			}
			row := make([]Val, len(r.Cells))
			for j, c := range r.Cells {
				row[j] = cellNative(c)
			}
			o.Rows = append(o.Rows, row)
			if r.Retraction {
				o.Sign = append(o.Sign, -1)
			} else {
				o.Sign = append(o.Sign, 1)
			}
			o.Times = append(o.Times, r.EventTime)
		}
	case "batch_table":
		h, rows, err := cli.DecodeTable(stdout)
		if err != nil {
			return o, err
		}
		o.Header = h
		for _, r := range rows {
			if len(r) != len(h) {
				return o, fmt.Errorf("table row has %d cells, header has %d", len(r), len(h))
			}
			row := make([]Val, len(r))
			for j, c := range r {
				row[j] = cellNative(c)
			}
			o.Rows = append(o.Rows, row)
			o.Sign = append(o.Sign, 1)
		}
	default:
		return o, fmt.Errorf("unknown mode %q", mode)
	}
	return o, nil
}

// Consolidated is the signed multiset sum of the output.
func (o Output) Consolidated() Bag {
	b := Bag{}
	for i, r := range o.Rows {
		b[RowKey(r)] += o.Sign[i]
	}
	for k, c := range b {
		if c == 0 {
			delete(b, k)
		}
	}
	return b
}

// Retractions counts the retraction records printed.
func (o Output) Retractions() int {
	n := 0
	for _, s := range o.Sign {
		if s < 0 {
			n++
		}
	}
	return n
}

// Package core is the plumbing shared by every property driver: tier/seed handling, coverage
// accounting, violation reporting with replay files, known-finding attribution and the
// evidence writer. It imports nothing from octosql.
package core

import (
	"crypto/sha256"
	"encoding/hex"
	"encoding/json"
	"fmt"
	"math/rand"
	"os"
	"path/filepath"
	"sort"
	"strings"
	"sync"
	"time"
)

// Ctx is handed to a property driver. All methods are safe for concurrent use.
type Ctx struct {
	Prop    string // "C07"
	Tier    string // "quick" | "thorough"
	Seed    int64
	Root    string // /verif (or a snapshot of it)
	BinDir  string // directory holding octosql, octosql-race, testplugin, vharness(-race)
	Scratch string // per-run scratch directory, removed by Finish
	Replay  string // path of a replay file when re-executing one case ("" otherwise)
	Only    string // when non-empty, drivers should run only the case with this id

	start time.Time

	mu           sync.Mutex
	evaluations  int64
	distinct     map[[16]byte]struct{}
	counters     map[string]int64
	notes        map[string]interface{}
	samples      []interface{}
	sampleSeen   int
	violations   []violation
	knownSeen    map[string]int
	inconclusive map[string]int
	findings     []Finding
	printed      int
	perKey       map[string]int
}

type violation struct {
	Key    string
	What   string
	Replay string
}

// Finding is one entry of known_findings.json.
type Finding struct {
	Status   string `json:"status"` // "open" | "fixed"
	Property string `json:"property"`
	Key      string `json:"key,omitempty"`
	What     string `json:"what"`
	Witness  string `json:"witness,omitempty"`
	Commit   string `json:"commit,omitempty"`
}

type findingsFile struct {
	Comment  string    `json:"comment,omitempty"`
	Findings []Finding `json:"findings"`
}

func Quick(c *Ctx) bool { return c.Tier != "thorough" }

// Pick returns q in the quick tier and t in the thorough tier.
func (c *Ctx) Pick(q, t int) int {
	if c.Tier == "thorough" {
		return t
	}
	return q
}

// NewCtx builds a context from flags/environment.
func NewCtx(prop, tier string, seed int64, root, replay, only string) (*Ctx, error) {
	c := &Ctx{
		Prop: prop, Tier: tier, Seed: seed, Root: root,
		BinDir:       filepath.Join(root, ".cache", "bin"),
		Replay:       replay,
		Only:         only,
		start:        time.Now(),
		distinct:     map[[16]byte]struct{}{},
		counters:     map[string]int64{},
		notes:        map[string]interface{}{},
		knownSeen:    map[string]int{},
		inconclusive: map[string]int{},
	}
	if b := os.Getenv("VERIF_BIN"); b != "" {
		c.BinDir = b
	}
	c.Scratch = filepath.Join(root, ".cache", "run", fmt.Sprintf("%s-%d-%d", prop, os.Getpid(), time.Now().UnixNano()))
	if err := os.MkdirAll(c.Scratch, 0o755); err != nil {
		return nil, err
	}
	data, err := os.ReadFile(filepath.Join(root, "known_findings.json"))
	if err == nil {
		var ff findingsFile
		if err := json.Unmarshal(data, &ff); err != nil {
			return nil, fmt.Errorf("known_findings.json: %w", err)
		}
		c.findings = ff.Findings
	}
	// findings.d/*.json: same format, one file per property (merged into known_findings.json by
	// tools/merge_findings.py); lets several people work without editing one shared file.
	more, _ := filepath.Glob(filepath.Join(root, "findings.d", "*.json"))
	sort.Strings(more)
	for _, p := range more {
		data, err := os.ReadFile(p)
		if err != nil {
			continue
		}
		var ff findingsFile
		if err := json.Unmarshal(data, &ff); err != nil {
			return nil, fmt.Errorf("%s: %w", p, err)
		}
		c.findings = append(c.findings, ff.Findings...)
	}
	return c, nil
}

// Rng returns a PRNG that is a pure function of (seed, property, stream name).
func (c *Ctx) Rng(stream string) *rand.Rand {
	h := sha256.Sum256([]byte(fmt.Sprintf("%s/%d/%s", c.Prop, c.Seed, stream)))
	var s int64
	for i := 0; i < 8; i++ {
		s = s<<8 | int64(h[i])
	}
	return rand.New(rand.NewSource(s))
}

// Eval counts n executed cases.
func (c *Ctx) Eval(n int) {
	c.mu.Lock()
	c.evaluations += int64(n)
	c.mu.Unlock()
}

// Nontrivial records one case that is non-trivial by the property's stated rule; key is the
// normalised identity of the case, so duplicates count once.
func (c *Ctx) Nontrivial(key string) {
	h := sha256.Sum256([]byte(key))
	var k [16]byte
	copy(k[:], h[:16])
	c.mu.Lock()
	c.distinct[k] = struct{}{}
	c.mu.Unlock()
}

// Count adds n to a named coverage counter (per operator, per mode, per hook point ...).
func (c *Ctx) Count(name string, n int) {
	c.mu.Lock()
	c.counters[name] += int64(n)
	c.mu.Unlock()
}

// Note stores an arbitrary extra coverage key (e.g. "exhaustive": true, a list of hook points).
func (c *Ctx) Note(name string, v interface{}) {
	c.mu.Lock()
	c.notes[name] = v
	c.mu.Unlock()
}

// Sample keeps a few actual cases for the evidence file (first 6, then sparse picks up to 10).
func (c *Ctx) Sample(v interface{}) {
	c.mu.Lock()
	defer c.mu.Unlock()
	c.sampleSeen++
	if len(c.samples) < 6 {
		c.samples = append(c.samples, v)
		return
	}
	if len(c.samples) < 10 && c.sampleSeen%97 == 0 {
		c.samples = append(c.samples, v)
	}
}

// Inconclusive records a case that could not be judged (watchdog, environment).
func (c *Ctx) Inconclusive(reason string) {
	c.mu.Lock()
	c.inconclusive[reason]++
	c.mu.Unlock()
}

// IsKnown reports whether (property, key) is an open entry of known_findings.json.
func (c *Ctx) IsKnown(key string) bool {
	for _, f := range c.findings {
		if f.Status == "open" && f.Property == c.Prop && f.Key == key && key != "" {
			return true
		}
	}
	return false
}

// Violation reports a refutation. key names the finding class the driver attributes it to: the
// driver must only pass a known-finding key when the case's INPUT satisfies that finding's
// predicate and the discrepancy is of that finding's kind; anything else gets its own key (any
// descriptive string). replay is written to replays/<prop>/<fingerprint>.json.
func (c *Ctx) Violation(key, what string, replay interface{}) {
	if c.IsKnown(key) {
		c.mu.Lock()
		c.knownSeen[key]++
		c.mu.Unlock()
		return
	}
	c.mu.Lock()
	// replay files are written for the first violations only (and the first of each new key):
	// a systematically broken tree must not turn the check into a disk-filling exercise.
	if c.perKey == nil {
		c.perKey = map[string]int{}
	}
	perKey := c.perKey[key]
	c.perKey[key]++
	write := len(c.violations) < 40 || perKey == 0
	c.mu.Unlock()
	path := "(not written: too many violations)"
	if write {
		path = c.writeReplay(key, what, replay)
	}
	c.mu.Lock()
	c.violations = append(c.violations, violation{Key: key, What: what, Replay: path})
	doPrint := write && c.printed < 40
	if doPrint {
		c.printed++
	}
	c.mu.Unlock()
	if doPrint {
		fmt.Printf("VIOLATION property=%s replay=%s\n", c.Prop, path)
		fmt.Printf("  key=%s what=%s\n", key, oneLine(what, 400))
	}
}

func oneLine(s string, max int) string {
	s = strings.ReplaceAll(s, "\n", "\\n")
	if len(s) > max {
		s = s[:max] + "..."
	}
	return s
}

func (c *Ctx) writeReplay(key, what string, replay interface{}) string {
	dir := filepath.Join(c.Root, "replays", c.Prop)
	_ = os.MkdirAll(dir, 0o755)
	body := map[string]interface{}{
		"property": c.Prop, "tier": c.Tier, "seed": c.Seed, "key": key, "what": what, "case": replay,
	}
	data, err := json.MarshalIndent(body, "", " ")
	if err != nil {
		data = []byte(fmt.Sprintf("{\"property\":%q,\"key\":%q,\"what\":%q,\"case\":%q}", c.Prop, key, what, fmt.Sprintf("%+v", replay)))
	}
	h := sha256.Sum256(data)
	path := filepath.Join(dir, hex.EncodeToString(h[:8])+".json")
	_ = os.WriteFile(path, data, 0o644)
	return path
}

// Violations returns the number of unattributed violations so far.
func (c *Ctx) Violations() int {
	c.mu.Lock()
	defer c.mu.Unlock()
	return len(c.violations)
}

// Evaluations returns the number of evaluations so far.
func (c *Ctx) Evaluations() int64 {
	c.mu.Lock()
	defer c.mu.Unlock()
	return c.evaluations
}

// FinishOpts describes the run for the evidence file.
type FinishOpts struct {
	Level       string // exploration | fault_enumeration
	Rule        string // how cases are generated and what makes one non-trivial / distinct
	Floor       int    // minimum distinct_nontrivial for this tier; below it the run is inconclusive
	Assumptions []string
	Exhaustive  bool
}

// Finish writes evidence/<prop>.json, prints the summary lines and returns the exit code.
func (c *Ctx) Finish(o FinishOpts) int {
	defer os.RemoveAll(c.Scratch)
	c.mu.Lock()
	defer c.mu.Unlock()

	cov := map[string]interface{}{}
	for k, v := range c.notes {
		cov[k] = v
	}
	cov["evaluations"] = c.evaluations
	cov["distinct_nontrivial"] = len(c.distinct)
	cov["rule"] = o.Rule
	if len(c.samples) == 0 {
		c.samples = append(c.samples, "no case was sampled")
	}
	cov["samples"] = c.samples
	cov["counters"] = c.counters
	if o.Exhaustive {
		cov["exhaustive"] = true
	}
	keys := make([]string, 0, len(c.knownSeen))
	for k := range c.knownSeen {
		keys = append(keys, k)
	}
	sort.Strings(keys)
	known := map[string]int{}
	for _, k := range keys {
		known[k] = c.knownSeen[k]
	}
	cov["known_findings_seen"] = known
	cov["inconclusive"] = c.inconclusive
	cov["floor_distinct_nontrivial"] = o.Floor
	verdict := "held_on_observed"
	inconclusiveTotal := 0
	for _, n := range c.inconclusive {
		inconclusiveTotal += n
	}
	belowFloor := len(c.distinct) < o.Floor
	if len(c.violations) > 0 {
		verdict = "violated"
	} else if belowFloor || (c.evaluations > 0 && int64(inconclusiveTotal)*5 > c.evaluations) {
		verdict = "inconclusive"
	}
	cov["verdict"] = verdict
	vkeys := map[string]int{}
	for _, v := range c.violations {
		vkeys[v.Key]++
	}
	cov["violation_keys"] = vkeys

	ev := map[string]interface{}{
		"property_id": c.Prop,
		"tier":        c.Tier,
		"seed":        c.Seed,
		"level":       o.Level,
		"coverage":    cov,
		"assumptions": o.Assumptions,
		"wall_s":      time.Since(c.start).Seconds(),
		"violations":  len(c.violations),
	}
	if c.Replay == "" && c.Only == "" {
		data, _ := json.MarshalIndent(ev, "", " ")
		evDir := filepath.Join(c.Root, "evidence")
		if r := os.Getenv("VERIF_REPO"); r != "" && r != "/repo" {
			// experiments against a mutated scratch copy never touch the committed evidence
			evDir = filepath.Join(c.Root, ".cache", "evidence-alt")
		}
		_ = os.MkdirAll(evDir, 0o755)
		if err := os.WriteFile(filepath.Join(evDir, c.Prop+".json"), data, 0o644); err != nil {
			fmt.Fprintf(os.Stderr, "cannot write evidence: %v\n", err)
		}
	}

	for _, k := range keys {
		what := ""
		for _, f := range c.findings {
			if f.Status == "open" && f.Property == c.Prop && f.Key == k {
				what = f.What
			}
		}
		fmt.Printf("KNOWN-FINDING: property=%s key=%s seen=%d %s\n", c.Prop, k, c.knownSeen[k], what)
	}
	if inconclusiveTotal > 0 || belowFloor {
		reasons := []string{}
		for r, n := range c.inconclusive {
			reasons = append(reasons, fmt.Sprintf("%s=%d", r, n))
		}
		sort.Strings(reasons)
		if belowFloor {
			reasons = append(reasons, fmt.Sprintf("distinct_nontrivial=%d<floor=%d", len(c.distinct), o.Floor))
		}
		fmt.Printf("INCONCLUSIVE property=%s cases=%d reason=%s\n", c.Prop, inconclusiveTotal, strings.Join(reasons, ","))
	}
	if len(c.violations) > c.printed {
		fmt.Printf("(%d violations in total; keys: %v)\n", len(c.violations), vkeys)
	}
	ckeys := make([]string, 0, len(c.counters))
	for k := range c.counters {
		ckeys = append(ckeys, k)
	}
	sort.Strings(ckeys)
	var sb strings.Builder
	for i, k := range ckeys {
		if i >= 40 {
			sb.WriteString(" ...")
			break
		}
		fmt.Fprintf(&sb, " %s=%d", k, c.counters[k])
	}
	fmt.Printf("SUMMARY property=%s tier=%s seed=%d verdict=%s evaluations=%d distinct_nontrivial=%d violations=%d known=%d wall=%.1fs\n  counters:%s\n",
		c.Prop, c.Tier, c.Seed, verdict, c.evaluations, len(c.distinct), len(c.violations), len(keys), time.Since(c.start).Seconds(), sb.String())
	if len(c.violations) > 0 {
		return 1
	}
	return 0
}

// Parallel runs fn(i) for i in [0,n) on `workers` goroutines.
func Parallel(n, workers int, fn func(i int)) {
	if workers < 1 {
		workers = 1
	}
	var wg sync.WaitGroup
	ch := make(chan int)
	for w := 0; w < workers; w++ {
		wg.Add(1)
		go func() {
			defer wg.Done()
			for i := range ch {
				fn(i)
			}
		}()
	}
	for i := 0; i < n; i++ {
		ch <- i
	}
	close(ch)
	wg.Wait()
}

// Hash is a short stable fingerprint for case ids.
func Hash(parts ...interface{}) string {
	h := sha256.New()
	for _, p := range parts {
		fmt.Fprintf(h, "%v\x00", p)
	}
	return hex.EncodeToString(h.Sum(nil)[:8])
}

// Try runs fn and converts a panic on the calling goroutine into an error string (with the
// innermost frames) so a driver can judge it.
func Try(fn func()) (panicked bool, msg string) {
	defer func() {
		if r := recover(); r != nil {
			panicked = true
			msg = fmt.Sprintf("%v", r)
		}
	}()
	fn()
	return false, ""
}

// ---- registry ----

var registry = map[string]func(*Ctx) FinishOpts{}

// Register is called from each props package's init.
func Register(prop string, fn func(*Ctx) FinishOpts) { registry[prop] = fn }

func Lookup(prop string) func(*Ctx) FinishOpts { return registry[prop] }

func Registered() []string {
	out := []string{}
	for k := range registry {
		out = append(out, k)
	}
	sort.Strings(out)
	return out
}

// ---- last-case log: lets a dead process name the case that killed it ----

var lastCaseFile *os.File
var lastCaseMu sync.Mutex

// LogCase records the id (and optional detail) of the case about to be executed. A panic in a
// goroutine the driver does not own cannot be recovered; the check script then reports the
// content of this file together with the crash trace.
func (c *Ctx) LogCase(id string, detail ...interface{}) {
	lastCaseMu.Lock()
	defer lastCaseMu.Unlock()
	if lastCaseFile == nil {
		_ = os.MkdirAll(filepath.Join(c.Root, ".cache", "logs"), 0o755)
		f, err := os.OpenFile(filepath.Join(c.Root, ".cache", "logs", c.Prop+".lastcase"), os.O_CREATE|os.O_RDWR|os.O_TRUNC, 0o644)
		if err != nil {
			return
		}
		lastCaseFile = f
	}
	line := id
	if len(detail) > 0 {
		line += " " + oneLine(fmt.Sprint(detail...), 4000)
	}
	line += "\n"
	_ = lastCaseFile.Truncate(0)
	_, _ = lastCaseFile.WriteAt([]byte(line), 0)
}

// PanicSite extracts a normalised panic site from a stack trace: the innermost frame inside
// octosql (not the harness), as "pkg/file.go:func". Used as part of finding keys.
func PanicSite(stack string) string {
	lines := strings.Split(stack, "\n")
	for i := 0; i+1 < len(lines); i++ {
		l := strings.TrimSpace(lines[i])
		if !strings.HasPrefix(l, "github.com/cube2222/octosql/") || strings.Contains(l, "verifharness") {
			continue
		}
		fn := l
		if j := strings.LastIndex(fn, "("); j > 0 {
			fn = fn[:j]
		}
		fn = strings.TrimPrefix(fn, "github.com/cube2222/octosql/")
		file := strings.TrimSpace(lines[i+1])
		if j := strings.Index(file, " +0x"); j > 0 {
			file = file[:j]
		}
		if j := strings.LastIndex(file, ":"); j > 0 {
			file = file[:j] // strip the line number: keys must survive unrelated edits
		}
		repoPrefix := "/repo/"
		if r := os.Getenv("VERIF_REPO"); r != "" {
			repoPrefix = strings.TrimSuffix(r, "/") + "/"
		}
		if j := strings.Index(file, repoPrefix); j >= 0 {
			file = file[j+len(repoPrefix):]
		}
		return file + ":" + fn
	}
	return "unknown-site"
}

// Package plugtest holds what the plugin-related checks (C26, C27, C28) share: laying out an
// installed-plugin tree, building the .tar.gz a repository would serve, and a loopback HTTP server
// that plays plugin repository + manifest + download host. It imports nothing from octosql.
package plugtest

import (
	"archive/tar"
	"bytes"
	"compress/gzip"
	"encoding/json"
	"fmt"
	"io"
	"net"
	"net/http"
	"os"
	"path/filepath"
	"runtime"
	"strings"
	"sync"
	"sync/atomic"
)

// VersionDir is where octosql keeps one installed version.
func VersionDir(pluginDir, repo, name, version string) string {
	return filepath.Join(pluginDir, repo, "octosql-plugin-"+name, version)
}

func BinaryPath(pluginDir, repo, name, version string) string {
	return filepath.Join(VersionDir(pluginDir, repo, name, version), "octosql-plugin-"+name)
}

// InstallBinary places bin as <pluginDir>/<repo>/octosql-plugin-<name>/<version>/octosql-plugin-<name>
// (hard link when possible: the test plugin is 16 MB and derives the version it reports from the
// path it was started from, which a hard link preserves and a symlink would not).
func InstallBinary(pluginDir, repo, name, version, bin string) error {
	dst := BinaryPath(pluginDir, repo, name, version)
	if err := os.MkdirAll(filepath.Dir(dst), 0o755); err != nil {
		return err
	}
	_ = os.Remove(dst)
	if err := os.Link(bin, dst); err == nil {
		return nil
	}
	return CopyFile(bin, dst, 0o755)
}

// InstallFake places a tiny non-executable marker instead of a binary (for checks that only list
// directories).
func InstallFake(pluginDir, repo, name, version string, content []byte) error {
	dst := BinaryPath(pluginDir, repo, name, version)
	if err := os.MkdirAll(filepath.Dir(dst), 0o755); err != nil {
		return err
	}
	return os.WriteFile(dst, content, 0o755)
}

func CopyFile(src, dst string, mode os.FileMode) error {
	in, err := os.Open(src)
	if err != nil {
		return err
	}
	defer in.Close()
	out, err := os.OpenFile(dst, os.O_CREATE|os.O_TRUNC|os.O_WRONLY, mode)
	if err != nil {
		return err
	}
	if _, err := io.Copy(out, in); err != nil {
		out.Close()
		return err
	}
	return out.Close()
}

// TarGz builds the archive layout archiver.NewTarGz().Unarchive expects so that the binary ends up
// at <versiondir>/octosql-plugin-<name>: a single regular file entry with that name.
func TarGz(pluginName string, content []byte, level int) []byte {
	var buf bytes.Buffer
	gz, _ := gzip.NewWriterLevel(&buf, level)
	tw := tar.NewWriter(gz)
	_ = tw.WriteHeader(&tar.Header{Name: "octosql-plugin-" + pluginName, Mode: 0o755, Size: int64(len(content)), Typeflag: tar.TypeReg})
	_, _ = tw.Write(content)
	_ = tw.Close()
	_ = gz.Close()
	return buf.Bytes()
}

// ---------------------------------------------------------------------------------------------

// Plugin is one plugin of a served repository.
type Plugin struct {
	Name           string
	FileExtensions []string
	// Versions in the order the manifest lists them.
	Versions []string
	// Archive returns the .tar.gz for a version (nil: 404).
	Archive func(version string) []byte
}

// Repo is one served repository: GET <base>/<key>/repo.json, <base>/<key>/m/<plugin>.json,
// <base>/<key>/dl/<plugin>/<version>/<os>-<arch>.tar.gz.
type Repo struct {
	Slug    string
	Plugins []Plugin
}

type Server struct {
	ln    net.Listener
	srv   *http.Server
	mu    sync.RWMutex
	repos map[string]*Repo
	// Requests counts served requests by kind.
	RepoReqs, ManifestReqs, DownloadReqs, NotFound int64
}

func NewServer() (*Server, error) {
	ln, err := net.Listen("tcp", "127.0.0.1:0")
	if err != nil {
		return nil, err
	}
	s := &Server{ln: ln, repos: map[string]*Repo{}}
	s.srv = &http.Server{Handler: http.HandlerFunc(s.handle)}
	go func() { _ = s.srv.Serve(ln) }()
	return s, nil
}

func (s *Server) Close() { _ = s.srv.Close() }

func (s *Server) Base() string { return "http://" + s.ln.Addr().String() }

// RepoURL is what OCTOSQL_PLUGIN_REPOSITORY_OFFICIAL_URL / `plugin repository add` should get.
func (s *Server) RepoURL(key string) string { return s.Base() + "/" + key + "/repo.json" }

func (s *Server) Set(key string, r *Repo) {
	s.mu.Lock()
	s.repos[key] = r
	s.mu.Unlock()
}

func (s *Server) Delete(key string) {
	s.mu.Lock()
	delete(s.repos, key)
	s.mu.Unlock()
}

func (s *Server) handle(w http.ResponseWriter, req *http.Request) {
	parts := strings.Split(strings.TrimPrefix(req.URL.Path, "/"), "/")
	s.mu.RLock()
	var repo *Repo
	if len(parts) >= 2 {
		repo = s.repos[parts[0]]
	}
	s.mu.RUnlock()
	if repo == nil {
		atomic.AddInt64(&s.NotFound, 1)
		http.NotFound(w, req)
		return
	}
	key := parts[0]
	switch {
	case len(parts) == 2 && parts[1] == "repo.json":
		atomic.AddInt64(&s.RepoReqs, 1)
		type plug struct {
			Name           string   `json:"name"`
			Description    string   `json:"description"`
			FileExtensions []string `json:"file_extensions,omitempty"`
			Website        string   `json:"website"`
			ContactEmail   string   `json:"contact_email"`
			License        string   `json:"license"`
			ReadmeURL      string   `json:"readme_url"`
			ManifestURL    string   `json:"manifest_url"`
		}
		out := struct {
			Name        string `json:"name"`
			Description string `json:"description"`
			Slug        string `json:"slug"`
			Plugins     []plug `json:"plugins"`
		}{Name: "verif repository " + key, Description: "loopback test repository", Slug: repo.Slug, Plugins: []plug{}}
		for _, p := range repo.Plugins {
			out.Plugins = append(out.Plugins, plug{Name: p.Name, Description: "test plugin " + p.Name, FileExtensions: p.FileExtensions,
				Website: "http://localhost", ContactEmail: "nobody@localhost", License: "none", ReadmeURL: s.Base() + "/" + key + "/readme",
				ManifestURL: s.Base() + "/" + key + "/m/" + p.Name + ".json"})
		}
		w.Header().Set("Content-Type", "application/json")
		_ = json.NewEncoder(w).Encode(out)
	case len(parts) == 3 && parts[1] == "m" && strings.HasSuffix(parts[2], ".json"):
		name := strings.TrimSuffix(parts[2], ".json")
		for _, p := range repo.Plugins {
			if p.Name != name {
				continue
			}
			atomic.AddInt64(&s.ManifestReqs, 1)
			type ver struct {
				Number string `json:"number"`
			}
			out := struct {
				Pattern  string `json:"binary_download_url_pattern"`
				Versions []ver  `json:"versions"`
			}{Pattern: s.Base() + "/" + key + "/dl/" + name + "/{{version}}/{{os}}-{{arch}}.tar.gz", Versions: []ver{}}
			for _, v := range p.Versions {
				out.Versions = append(out.Versions, ver{Number: v})
			}
			w.Header().Set("Content-Type", "application/json")
			_ = json.NewEncoder(w).Encode(out)
			return
		}
		atomic.AddInt64(&s.NotFound, 1)
		http.NotFound(w, req)
	case len(parts) == 5 && parts[1] == "dl":
		name, version, file := parts[2], parts[3], parts[4]
		if file != fmt.Sprintf("%s-%s.tar.gz", runtime.GOOS, runtime.GOARCH) {
			atomic.AddInt64(&s.NotFound, 1)
			http.NotFound(w, req)
			return
		}
		for _, p := range repo.Plugins {
			if p.Name != name || p.Archive == nil {
				continue
			}
			if data := p.Archive(version); data != nil {
				atomic.AddInt64(&s.DownloadReqs, 1)
				w.Header().Set("Content-Type", "application/gzip")
				_, _ = w.Write(data)
				return
			}
		}
		atomic.AddInt64(&s.NotFound, 1)
		http.NotFound(w, req)
	default:
		atomic.AddInt64(&s.NotFound, 1)
		http.NotFound(w, req)
	}
}

// ---------------------------------------------------------------------------------------------

var sockSeq int64

// ShortDir makes a directory with a short absolute path for the unix sockets plugins listen on
// (sun_path is limited to 107 bytes; octosql appends "<repo>$<name><random>/<ULID>.sock", about
// 60 bytes, to OCTOSQL_PLUGIN_TMP_DIR, so a directory inside the per-run scratch directory is too
// deep). It lives under <root>/.cache/s and must be removed by the caller.
func ShortDir(root string) (string, error) {
	n := atomic.AddInt64(&sockSeq, 1)
	d := filepath.Join(root, ".cache", "s", fmt.Sprintf("%x.%x", os.Getpid(), n))
	if err := os.MkdirAll(d, 0o755); err != nil {
		return "", err
	}
	if len(d) > 45 {
		// fall back to the system temp directory when the root is deep
		t, err := os.MkdirTemp("", "vs")
		if err != nil {
			return "", err
		}
		_ = os.RemoveAll(d)
		return t, nil
	}
	return d, nil
}

package c30

import (
	"bytes"
	"fmt"
	"reflect"
)

// treeDiff is the deep structural comparison of two syntax trees (own walker over reflect, so it
// does not depend on any Equal/Format method of the code under test). Conventions:
//   - a nil slice equals an empty one ([]byte included);
//   - comments (type Comments) and metadata that the parser does not populate or only caches
//     (fields Metadata, lowered, blank fields) are ignored;
//   - everything else — node types, operators, identifiers (case-sensitively, as printed),
//     literals, list lengths and order — must be identical.
//
// It returns "" if the trees are equivalent, otherwise the path and nature of the first difference,
// and the "Type.Field" of the struct field at which the trees diverge (for finding keys).
func treeDiff(a, b interface{}) (what string, where string) {
	d := &differ{}
	d.walk(reflect.ValueOf(a), reflect.ValueOf(b), "stmt", "")
	return d.what, d.where
}

type differ struct {
	what  string
	where string
}

func (d *differ) fail(path, where, format string, args ...interface{}) bool {
	if d.what == "" {
		d.what = path + ": " + fmt.Sprintf(format, args...)
		d.where = where
	}
	return false
}

func ignoredField(t reflect.Type, i int) bool {
	f := t.Field(i)
	if f.Name == "_" || f.Name == "Metadata" || f.Name == "lowered" {
		return true
	}
	if f.Type.Name() == "Comments" {
		return true
	}
	return false
}

func (d *differ) walk(a, b reflect.Value, path, where string) bool {
	if !a.IsValid() || !b.IsValid() {
		if a.IsValid() != b.IsValid() {
			return d.fail(path, where, "one side is absent")
		}
		return true
	}
	if a.Type() != b.Type() {
		return d.fail(path, where, "node type %s vs %s", a.Type(), b.Type())
	}
	switch a.Kind() {
	case reflect.Interface:
		if a.IsNil() || b.IsNil() {
			if a.IsNil() != b.IsNil() {
				return d.fail(path, where, "nil vs non-nil (%s)", describe(a, b))
			}
			return true
		}
		return d.walk(a.Elem(), b.Elem(), path, where)
	case reflect.Ptr:
		if a.IsNil() || b.IsNil() {
			if a.IsNil() != b.IsNil() {
				return d.fail(path, where, "nil vs non-nil (%s)", describe(a, b))
			}
			return true
		}
		return d.walk(a.Elem(), b.Elem(), path, where)
	case reflect.Struct:
		t := a.Type()
		for i := 0; i < t.NumField(); i++ {
			if ignoredField(t, i) {
				continue
			}
			if !d.walk(a.Field(i), b.Field(i), path+"."+t.Field(i).Name, t.Name()+"."+t.Field(i).Name) {
				return false
			}
		}
		return true
	case reflect.Slice:
		if a.Type().Name() == "Comments" {
			return true
		}
		if a.Type().Elem().Kind() == reflect.Uint8 {
			if !bytes.Equal(a.Bytes(), b.Bytes()) {
				return d.fail(path, where, "%q vs %q", a.Bytes(), b.Bytes())
			}
			return true
		}
		if a.Len() != b.Len() {
			return d.fail(path, where, "%d vs %d elements", a.Len(), b.Len())
		}
		for i := 0; i < a.Len(); i++ {
			if !d.walk(a.Index(i), b.Index(i), fmt.Sprintf("%s[%d]", path, i), where) {
				return false
			}
		}
		return true
	case reflect.Array:
		for i := 0; i < a.Len(); i++ {
			if !d.walk(a.Index(i), b.Index(i), fmt.Sprintf("%s[%d]", path, i), where) {
				return false
			}
		}
		return true
	case reflect.Map:
		if a.Len() != b.Len() {
			return d.fail(path, where, "%d vs %d map entries", a.Len(), b.Len())
		}
		for _, k := range a.MapKeys() {
			bv := b.MapIndex(k)
			if !bv.IsValid() {
				return d.fail(path, where, "map key %v missing", k)
			}
			if !d.walk(a.MapIndex(k), bv, fmt.Sprintf("%s[%v]", path, k), where) {
				return false
			}
		}
		return true
	case reflect.String:
		if a.String() != b.String() {
			return d.fail(path, where, "%q vs %q", a.String(), b.String())
		}
	case reflect.Bool:
		if a.Bool() != b.Bool() {
			return d.fail(path, where, "%v vs %v", a.Bool(), b.Bool())
		}
	case reflect.Int, reflect.Int8, reflect.Int16, reflect.Int32, reflect.Int64:
		if a.Int() != b.Int() {
			return d.fail(path, where, "%d vs %d", a.Int(), b.Int())
		}
	case reflect.Uint, reflect.Uint8, reflect.Uint16, reflect.Uint32, reflect.Uint64, reflect.Uintptr:
		if a.Uint() != b.Uint() {
			return d.fail(path, where, "%d vs %d", a.Uint(), b.Uint())
		}
	case reflect.Float32, reflect.Float64:
		if a.Float() != b.Float() {
			return d.fail(path, where, "%v vs %v", a.Float(), b.Float())
		}
	default:
		return d.fail(path, where, "harness: unhandled kind %s", a.Kind())
	}
	return true
}

func describe(a, b reflect.Value) string {
	f := func(v reflect.Value) string {
		if v.IsNil() {
			return "nil"
		}
		return v.Elem().Type().String()
	}
	return f(a) + " vs " + f(b)
}

// visitNodes calls fn for every struct value (node) in the tree with its type name, and for
// string fields of interest the caller can inspect the value itself.
func visitNodes(root interface{}, fn func(typeName string, v reflect.Value)) {
	var rec func(v reflect.Value, depth int)
	rec = func(v reflect.Value, depth int) {
		if !v.IsValid() || depth > 400 {
			return
		}
		switch v.Kind() {
		case reflect.Interface, reflect.Ptr:
			if !v.IsNil() {
				rec(v.Elem(), depth+1)
			}
		case reflect.Struct:
			fn(v.Type().Name(), v)
			for i := 0; i < v.NumField(); i++ {
				if ignoredField(v.Type(), i) {
					continue
				}
				rec(v.Field(i), depth+1)
			}
		case reflect.Slice, reflect.Array:
			if v.Type().Elem().Kind() == reflect.Uint8 {
				if v.Type().Name() == "ListArg" {
					fn("ListArg", v)
				}
				return
			}
			if v.Kind() == reflect.Slice && v.Len() > 0 && v.Type().Name() != "" {
				fn(v.Type().Name(), v)
			}
			for i := 0; i < v.Len(); i++ {
				rec(v.Index(i), depth+1)
			}
		}
	}
	rec(reflect.ValueOf(root), 0)
}

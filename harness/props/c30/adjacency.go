package c30

import "strings"

// adjacencyStatements is a fixed (seed-independent) enumeration of the places where the printer's
// choice of whitespace decides how the text is tokenized again:
//   - every ordered pair (and a set of triples) of prefix operators applied WITHOUT parentheses to
//     columns, literals and to each other, written with and without spaces, in a select list,
//     WHERE, ON, function argument, ORDER BY, GROUP BY and TVF-argument position;
//   - every binary/comparison operator followed by a signed or prefixed operand (`a<-1`, `a>=-b`,
//     `a - -1`, `a! ~b`, `a!~b`), glued and spaced;
//   - postfix forms (`->`, `->*`, `::type`, `[i]`, COLLATE, IS) after prefixed operands and after
//     numbers that end or start with a dot;
//   - numbers directly followed by keywords, dots and identifiers (`1and 2`, `1.`, `.5`, `1..5`).
//
// Texts the parser rejects are simply not judged (counted as adjacency_rejected).
func adjacencyStatements() []string {
	var out []string
	seen := map[string]bool{}
	add := func(s string) {
		if !seen[s] {
			seen[s] = true
			out = append(out, s)
		}
	}
	contexts := []string{
		"SELECT %s FROM t",
		"SELECT a FROM t WHERE %s",
		"SELECT * FROM t JOIN u ON %s",
		"SELECT f(%s, 1) FROM t",
		"SELECT a FROM t ORDER BY %s",
		"SELECT a FROM t GROUP BY %s",
		"SELECT * FROM range(start=>%s, end=>2) r",
		"SELECT a, %s AS x FROM t LOOKUP JOIN u ON t.a = u.a WHERE b IN (%s, 2)",
		"SELECT count(*) FROM t GROUP BY a TRIGGER COUNTING %s",
		"SELECT a FROM t LIMIT %s",
	}
	n := 0
	place := func(e string, k int) {
		for i := 0; i < k; i++ {
			add(strings.ReplaceAll(contexts[(n+i*3)%len(contexts)], "%s", e))
		}
		add(strings.ReplaceAll(contexts[0], "%s", e))
		n++
	}

	unary := []string{"-", "+", "~", "!", "NOT ", "binary ", "_binary ", "_utf8mb4 "}
	operands := []string{"a", "t.a", "1", "1.5", ".5", "1.", "1e3", "0x1F", "X'1F'", "'x'", "null", "true", "f(a)", "(a)", "a->b", "a[1]", "a::int", "interval 1 second"}
	glue := func(parts []string, sep string) string {
		var sb strings.Builder
		for i, p := range parts {
			if i > 0 {
				// a word operator keeps its own trailing blank; symbols are separated by sep
				sb.WriteString(sep)
			}
			sb.WriteString(p)
		}
		return sb.String()
	}
	// single prefix operators
	for _, u := range unary {
		for _, o := range operands {
			place(u+o, 1)
			place(u+" "+o, 1)
		}
	}
	// ordered pairs
	for _, u1 := range unary {
		for _, u2 := range unary {
			for _, o := range operands {
				for _, sep := range []string{"", " "} {
					place(glue([]string{u1, u2, o}, sep), 1)
				}
				place(u1+" "+u2+o, 1)
				place(u1+u2+" "+o, 1)
			}
		}
	}
	// triples (symbol operators exhaustively, word operators in the outer position)
	sym := []string{"-", "+", "~", "!"}
	for _, u1 := range unary {
		for _, u2 := range sym {
			for _, u3 := range sym {
				for _, o := range []string{"a", "1", ".5", "'x'"} {
					place(glue([]string{u1, u2, u3, o}, " "), 1)
					place(glue([]string{u1, u2, u3, o}, ""), 1)
				}
			}
		}
	}
	for _, t := range [][]string{{"-", "NOT ", "-"}, {"!", "binary ", "~"}, {"~", "-", "binary "}, {"NOT ", "NOT ", "!"}, {"-", "-", "-"}, {"+", "+", "+"}} {
		for _, o := range []string{"a", "1", "1."} {
			place(glue(append(append([]string{}, t...), o), " "), 2)
		}
	}

	// binary / comparison operators next to prefixed operands
	binops := []string{"+", "-", "*", " / ", "%", "&", "|", "^", "<<", ">>", "=", "<", ">", "<=", ">=", "!=", "<>", "<=>", "~", "~*", "!~", "!~*", "||", "&&",
		" AND ", " OR ", " DIV ", " MOD ", " LIKE ", " NOT LIKE ", " REGEXP ", "!", "! ", " IS NOT ", "->", "::"}
	lhs := []string{"a", "1", "1.", "'x'", "(a)", "a->b"}
	rhs := []string{"1", "b", "-1", "-b", "- 1", "+1", "+b", "~b", "~ b", "!b", "! b", "- -1", "- -b", "-(1)", "-.5", "-1.", ".5", "1.", "-~b", "~-b", "!~b", "! ~b", "!-b", "-!b", "'x'", "-'x'", "-0x1F", "- - -1", "binary b", "NOT b", "-t.b", "-f(b)", "-b->c", "-b::int", "-b[1]"}
	for _, l := range lhs {
		for _, op := range binops {
			for _, r := range rhs {
				place(l+op+r, 0)
				if !strings.HasPrefix(op, " ") {
					place(l+" "+op+" "+r, 0)
					place(l+op+" "+r, 0)
					place(l+" "+op+r, 0)
				}
			}
		}
	}
	// the same in the other contexts, for the comparison operators that can merge with a sign
	for _, op := range []string{"<", ">", "<=", ">=", "=", "!=", "<>", "<=>", "-", "+", "~", "!~", "!", "<<", ">>", "||", "&&", "->", "::"} {
		for _, r := range []string{"-1", "-b", "- -1", "~b", "!b", "! ~b", "-.5", "+1"} {
			place("a"+op+r, 3)
			place("a "+op+" "+r, 3)
		}
	}

	// postfix forms after prefixed operands / dotted numbers
	postfix := []string{"->b", " -> b", "->b->c", "->*", " ->*", "::int", " :: int", "::int::float", ": :int", "::[]", "::{}", "[1]", "[-1]", "[- -1]", "[~1]", "[a]", "[1][2]", "[1]->b", "[1]::int",
		" COLLATE utf8_bin", " IS NULL", " IS NOT TRUE", "->b[1]", "->b::int", "::int->b", "::int[1]", "->>b"}
	bases := []string{"a", "t.a", "1", "1.", ".5", "1.5", "'x'", "0x1F", "f(a)", "(a)", "null", "-a", "- a", "-1", "-1.", "~a", "!a", "! a", "- -a", "-~a", "!-a", "! ~a", "~!a", "NOT a", "binary a", "- - -a", "interval 1 second"}
	for _, b := range bases {
		for _, pf := range postfix {
			place(b+pf, 1)
		}
	}

	// numbers followed directly by keywords, dots, identifiers
	nums := []string{"1", "1.", ".5", "1.5", "1e5", "1.5e-3", "1e+2", "0x1F", "007", "-1", "-.5", "-1."}
	tails := []string{"and 2", "AND 2", "or 2", "OR 2", "&&2", "||2", "is null", "IS NOT NULL", "in (1)", "IN(1, 2)", "not in (1)", "div 2", "DIV 2", "mod 2", "like 2", "regexp 2",
		"between 0 and 2", "between 0and 2", "as x", "AS x", "x", "e", "e5", "E-3", ".", ".5", "..5", ".a", ". a", ".5.5", "a", "_a", "->b", "::int", "[0]", "+.5", "-.5", "+1.", "- -1", "--1", "<-1", ">=-1", "!~2", "! ~2", "~2", "~*2", "<=>-1", "<<-1", ">>+1", "<>-1", "!=-1", "=-1", "=+1", "=~1", "=!1", "*-1", " / -1", "%-1", "&-1", "|-1", "^-1", "^~1", "&~1"}
	for _, num := range nums {
		for _, tl := range tails {
			place(num+tl, 0)
			place(num+" "+tl, 0)
		}
		add("SELECT a FROM t ORDER BY " + num + "desc")
		add("SELECT a FROM t ORDER BY " + num + " DESC, " + num + "asc")
		add("SELECT a FROM t LIMIT 1offset 2")
		add("SELECT " + num + "from t")
		add("SELECT " + num + "FROM t")
		add("SELECT " + num + ",a FROM t WHERE " + num + "<" + num)
		add("SELECT interval " + num + "second FROM t")
		add("SELECT interval " + num + " second->x FROM t")
		add("SELECT t." + num + " FROM t")
		add("SELECT t. " + num + " FROM t")
		add("SELECT a FROM t." + num)
	}
	// a few full statements where several of these meet
	for _, s := range []string{
		"SELECT - -1, - - 1, -(-1), - -a, -(-a), - - -a, a - -1, a - - 1, a-(-1), a+ +1, a+-1, a-+1 FROM t",
		"SELECT ! ~a, ~ !a, !-a, -!a, ~-a, -~a, ! !a, ~ ~a, + +a, +-a, -+a FROM t",
		"SELECT a FROM t WHERE a<-1 AND a>=-b AND a<=>-1 AND a<>-1 AND a!=-1 AND a=-1 AND a= -1 AND a<<-1 > 0",
		"SELECT a FROM t WHERE a!~b AND a! ~b AND a !~ b AND a ! ~b AND a !~*b AND a~*b AND a~ *b AND a ~ -b",
		"SELECT a->b, a->*, a ->b, a-> b, a - >b, a- >b, a->b->*, a->b->c->* FROM t",
		"SELECT a::int, a: :int, a ::int, a:: int, a::int::float, a::int->b, a->b::int, -a::int, (-a)::int, -(a::int) FROM t",
		"SELECT a||b, a || b, a| |b, a&&b, a & & b, a&b, a|b, a<=>b, a< =>b, a<= >b, a<=b, a< =b FROM t",
		"SELECT a<<b, a< <b, a>>b, a> >b, a<>b, a< >b, a>=b, a> =b, a!=b, a! =b FROM t",
		"SELECT 1., .5, 1.5, 1..5, 1. .5, 1.+.5, 1.-.5, 1.*.5, .5.5, 1.e5, 1.e-5, 1e5, 1e, 1e+, 0x, 0x1G FROM t",
		"SELECT t.1, t.a, t.`1`, t. a, t .a, 1.a, 1 .a, `1`.a, t.1.a, t.a.1 FROM t",
		"SELECT 1and 2, 1AND 2, 1or 2, 1is null, 1in (1), 1div 2, 1mod 2, 1like 2, 1between 0and 2, 1as x FROM t",
		"SELECT a FROM t ORDER BY -a, - -a DESC, ! ~a, ~-1 ASC, NOT a, -a->b, -a::int, -a[1]",
		"SELECT f(-a, - -a, !~a, ! ~a, -1, - -1, ~-1, -~1), g(- - -1) FROM t",
		"SELECT * FROM t JOIN u ON ! ~t.a = - -u.a AND t.b<-1 LOOKUP JOIN v ON -v.a>=-t.a",
		"SELECT * FROM range(start=>- -1, end=>-(-5)) r",
		"SELECT * FROM range(start=>-1, end=>+5) r WHERE r.i>-1 AND r.i<=-(-3)",
		"SELECT * FROM tumble(source=>TABLE(t), window_length=>INTERVAL - -5 SECONDS, offset=>-INTERVAL 1 SECOND) x",
	} {
		add(s)
	}
	return out
}

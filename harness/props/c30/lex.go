package c30

import (
	"math/rand"
	"strings"
)

// A deliberately simple SQL lexer for mutation only (it decides nothing about correctness):
// tokens keep whether whitespace preceded them so that untouched neighbours stay adjacent.

type tok struct {
	text  string
	space bool
}

var multiOps = []string{"->*", "->>", "!~*", "<=>", "->", "=>", "::", "<=", ">=", "<>", "!=", "!~", "~*", "<<", ">>", "||", "&&", "[]", "{}"}

func isWord(ch byte) bool {
	return ch == '_' || ch == '$' || ch == '@' || (ch >= '0' && ch <= '9') || (ch >= 'a' && ch <= 'z') || (ch >= 'A' && ch <= 'Z') || ch >= 0x80
}

func lex(s string) []tok {
	var out []tok
	i := 0
	space := false
	for i < len(s) {
		ch := s[i]
		if ch == ' ' || ch == '\n' || ch == '\t' || ch == '\r' {
			space = true
			i++
			continue
		}
		start := i
		switch {
		case ch == '\'' || ch == '"' || ch == '`':
			i++
			for i < len(s) {
				if s[i] == '\\' && ch != '`' && i+1 < len(s) {
					i += 2
					continue
				}
				if s[i] == ch {
					if i+1 < len(s) && s[i+1] == ch {
						i += 2
						continue
					}
					i++
					break
				}
				i++
			}
		case ch == '/' && i+1 < len(s) && s[i+1] == '*':
			j := strings.Index(s[i+2:], "*/")
			if j < 0 {
				i = len(s)
			} else {
				i += 2 + j + 2
			}
		case ch == '-' && i+1 < len(s) && s[i+1] == '-':
			j := strings.IndexByte(s[i:], '\n')
			if j < 0 {
				i = len(s)
			} else {
				i += j
			}
		case isWord(ch):
			for i < len(s) && isWord(s[i]) {
				i++
			}
		default:
			matched := false
			for _, op := range multiOps {
				if strings.HasPrefix(s[i:], op) {
					i += len(op)
					matched = true
					break
				}
			}
			if !matched {
				i++
			}
		}
		out = append(out, tok{text: s[start:i], space: space})
		space = false
	}
	return out
}

func join(toks []tok) string {
	var sb strings.Builder
	for i, t := range toks {
		if t.space && i > 0 {
			sb.WriteByte(' ')
		}
		sb.WriteString(t.text)
	}
	return sb.String()
}

var tokenPool = []string{
	"select", "from", "where", "group", "by", "having", "order", "limit", "offset", "as", "and", "or", "not", "in", "is", "null", "like",
	"join", "left", "right", "outer", "inner", "cross", "natural", "lookup", "stream", "on", "using", "with", "union", "all", "distinct",
	"trigger", "watermark", "counting", "after", "delay", "end", "of", "interval", "second", "table", "descriptor", "case", "when", "then", "else",
	"between", "exists", "true", "false", "asc", "desc", "div", "mod", "regexp", "escape", "binary", "default", "values", "for", "update",
	"SELECT", "FROM", "WHERE", "TRIGGER", "ON", "LOOKUP", "JOIN", "AS", "WITH", "INTERVAL",
	"(", ")", ",", ".", "*", "+", "-", "/", "%", "=", "<", ">", "<=", ">=", "!=", "<>", "<=>", "=>", "->", "->*", "::", "[", "]", "[]", "{}",
	"~", "~*", "!~", "!~*", "!", "&", "|", "^", "<<", ">>", "||", "&&", ";", "?", ":",
	"a", "b", "x", "t", "id", "`a b`", "`select`", "\"q\"", "`./f.csv?header=false`", "m.t", "int", "float", "string",
}

var literalPool = []string{
	"0", "1", "-1", "2", "7", "42", "9223372036854775807", "-9223372036854775808", "9223372036854775808", "18446744073709551615",
	"1.5", ".5", "1.", "1e10", "1E-3", "0x1F", "0xff", "X'1F'", "x'00'", "b'01'", "0b01",
	"''", "'a'", "'it''s'", "'a\\'b'", "'\\n'", "'\\\\'", "'%'", "'é'", "'日本'", "'a\"b'", "'`'", "'--'", "'/*'", "' '", "'\\0'", "'\\Z'",
	"null", "true", "false", "NULL", "TRUE",
}

type mutator struct {
	rng  *rand.Rand
	pool []string
}

func isLiteralTok(t string) bool {
	if t == "" {
		return false
	}
	if t[0] == '\'' {
		return true
	}
	return t[0] >= '0' && t[0] <= '9'
}

// mutant returns a mutated copy of a random pool statement (1..3 token edits). The caller keeps
// it only if the parser accepts it.
func (m *mutator) mutant() string {
	rng := m.rng
	toks := lex(m.pool[rng.Intn(len(m.pool))])
	if len(toks) == 0 {
		return ""
	}
	toks = append([]tok{}, toks...)
	n := 1 + rng.Intn(3)
	for e := 0; e < n && len(toks) > 0; e++ {
		i := rng.Intn(len(toks))
		switch rng.Intn(10) {
		case 0: // delete
			toks = append(toks[:i:i], toks[i+1:]...)
		case 1: // duplicate
			d := toks[i]
			d.space = true
			toks = append(toks[:i+1:i+1], append([]tok{d}, toks[i+1:]...)...)
		case 2: // swap with neighbour
			if i+1 < len(toks) {
				toks[i], toks[i+1] = toks[i+1], toks[i]
				toks[i].space, toks[i+1].space = true, true
			}
		case 3, 4: // literal replacement by an edge value
			lits := []int{}
			for k, t := range toks {
				if isLiteralTok(t.text) {
					lits = append(lits, k)
				}
			}
			if len(lits) > 0 {
				k := lits[rng.Intn(len(lits))]
				toks[k].text = literalPool[rng.Intn(len(literalPool))]
				toks[k].space = true
			} else {
				toks[i].text = tokenPool[rng.Intn(len(tokenPool))]
				toks[i].space = true
			}
		case 5: // replace by a pool token
			toks[i].text = tokenPool[rng.Intn(len(tokenPool))]
			toks[i].space = true
		case 6: // insert a pool token
			t := tok{text: tokenPool[rng.Intn(len(tokenPool))], space: true}
			toks = append(toks[:i:i], append([]tok{t}, toks[i:]...)...)
			if i+1 < len(toks) {
				toks[i+1].space = true
			}
		case 7: // case flip of a word
			w := toks[i].text
			if len(w) > 0 && isWord(w[0]) {
				if strings.ToUpper(w) == w {
					toks[i].text = strings.ToLower(w)
				} else {
					toks[i].text = strings.ToUpper(w)
				}
			}
		case 8: // transplant a slice of another statement
			other := lex(m.pool[rng.Intn(len(m.pool))])
			if len(other) > 0 {
				a := rng.Intn(len(other))
				b := a + 1 + rng.Intn(6)
				if b > len(other) {
					b = len(other)
				}
				piece := append([]tok{}, other[a:b]...)
				piece[0].space = true
				j := i + rng.Intn(3) // replace 0..2 tokens
				if j > len(toks) {
					j = len(toks)
				}
				rest := append([]tok{}, toks[j:]...)
				if len(rest) > 0 {
					rest[0].space = true
				}
				toks = append(append(toks[:i:i], piece...), rest...)
			}
		case 9: // wrap a token range in parentheses, or remove whitespace around a token
			if rng.Intn(2) == 0 {
				j := i + 1 + rng.Intn(4)
				if j > len(toks) {
					j = len(toks)
				}
				inner := append([]tok{}, toks[i:j]...)
				rest := append([]tok{}, toks[j:]...)
				toks = append(append(append(toks[:i:i], tok{"(", true}), inner...), tok{")", false})
				toks = append(toks, rest...)
			} else {
				toks[i].space = false
				if i+1 < len(toks) {
					toks[i+1].space = false
				}
			}
		}
	}
	return join(toks)
}

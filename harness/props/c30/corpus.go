package c30

import (
	"os"
	"path/filepath"
	"regexp"
	"sort"
	"strconv"
	"strings"
)

// repoRoot: the tree the binaries were built from (VERIF_REPO points the checks at a scratch worktree).
var repoRoot = func() string {
	if r := os.Getenv("VERIF_REPO"); r != "" {
		return r
	}
	return "/repo"
}()

var scenarioRe = regexp.MustCompile(`(?s)octosql\s+"((?:[^"\\]|\\.)*)"`)

// scenarioQueries extracts the SQL of every tests/scenarios/**/*.in command line.
func scenarioQueries() []string {
	var files []string
	_ = filepath.Walk(filepath.Join(repoRoot, "tests", "scenarios"), func(p string, info os.FileInfo, err error) error {
		if err == nil && !info.IsDir() && strings.HasSuffix(p, ".in") {
			files = append(files, p)
		}
		return nil
	})
	sort.Strings(files)
	var out []string
	for _, f := range files {
		data, err := os.ReadFile(f)
		if err != nil {
			continue
		}
		for _, m := range scenarioRe.FindAllStringSubmatch(string(data), -1) {
			q := strings.ReplaceAll(m[1], `\"`, `"`)
			out = append(out, q)
		}
	}
	return out
}

var goStringRe = regexp.MustCompile("\"(?:[^\"\\\\\\n]|\\\\.)*\"|`[^`]*`")

// vendoredTestStrings returns every Go string literal of the vendored parser tests
// (parser/sqlparser/*_test.go); the caller keeps those the parser accepts.
func vendoredTestStrings() []string {
	files, _ := filepath.Glob(filepath.Join(repoRoot, "parser", "sqlparser", "*_test.go"))
	sort.Strings(files)
	seen := map[string]bool{}
	var out []string
	for _, f := range files {
		data, err := os.ReadFile(f)
		if err != nil {
			continue
		}
		for _, lit := range goStringRe.FindAllString(string(data), -1) {
			s, err := strconv.Unquote(lit)
			if err != nil || len(s) < 4 || seen[s] {
				continue
			}
			seen[s] = true
			out = append(out, s)
		}
	}
	return out
}

// readmeQueries: the fenced sql examples of the README (the dataflow example is the only place
// where WITH, TVFs, TABLE(), DESCRIPTOR() and TRIGGER lists occur together).
func readmeQueries() []string {
	data, err := os.ReadFile(filepath.Join(repoRoot, "README.md"))
	if err != nil {
		return nil
	}
	var out []string
	parts := strings.Split(string(data), "```")
	for i := 1; i < len(parts); i += 2 {
		block := parts[i]
		nl := strings.IndexByte(block, '\n')
		if nl < 0 {
			continue
		}
		lang := strings.TrimSpace(block[:nl])
		body := strings.TrimSpace(block[nl+1:])
		if lang == "sql" {
			out = append(out, body)
			continue
		}
		for _, m := range scenarioRe.FindAllStringSubmatch(body, -1) {
			out = append(out, strings.ReplaceAll(m[1], `\"`, `"`))
		}
	}
	return out
}

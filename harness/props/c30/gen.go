package c30

import (
	"fmt"
	"math/rand"
	"strings"
)

// handWritten: one example per OctoSQL dialect construct (README / sql.y), so that every construct
// is in the corpus and in the mutation pool whatever the generator's dice say.
var handWritten = []string{
	"SELECT * FROM range(start => 1, end => 10) r",
	"SELECT * FROM max_diff_watermark(source=>TABLE(clicks.json), max_diff=>INTERVAL 5 SECONDS, time_field=>DESCRIPTOR(time), resolution=>INTERVAL 10 SECONDS) c",
	"SELECT * FROM tumble(source=>TABLE(with_watermark), window_length=>INTERVAL 1 MINUTE, offset=>INTERVAL 0 SECONDS) c",
	"SELECT * FROM poll(source=>TABLE(`data/x.json`)) AS p",
	"SELECT window_end, user_id, COUNT(*) as clicks FROM with_tumble GROUP BY window_end, user_id TRIGGER ON WATERMARK, COUNTING 500",
	"SELECT a, count(*) FROM t GROUP BY a TRIGGER ON END OF STREAM",
	"SELECT a, count(*) FROM t GROUP BY a TRIGGER AFTER DELAY INTERVAL 1 SECOND, ON END OF STREAM",
	"SELECT a, sum(b) FROM t GROUP BY a TRIGGER COUNTING 1 ORDER BY a LIMIT 3",
	"SELECT * FROM a LOOKUP JOIN b ON a.id = b.id",
	"SELECT * FROM a STREAM JOIN b ON a.id = b.id",
	"SELECT * FROM a LOOKUP INNER JOIN b ON a.id = b.id LEFT JOIN c ON b.x = c.x",
	"SELECT * FROM a OUTER JOIN b ON a.i > b.i",
	"SELECT o->name, o->address->city FROM `people.json` p",
	"SELECT o->*, id FROM t",
	"SELECT a::int, b::float, c::string, d::[], e::{} FROM t",
	"SELECT d[1], d[i + 1][2] FROM t",
	"SELECT INTERVAL 5 SECONDS, interval 1 day FROM t",
	"WITH x AS (SELECT 1 AS a), y AS (SELECT a FROM x) SELECT * FROM y",
	"WITH x AS (SELECT * FROM range(start=>1, end=>3) r) SELECT * FROM x JOIN x y ON x.i = y.i",
	"SELECT * FROM ./test.csv",
	"SELECT * FROM `./test.csv?header=false&separator=;` t",
	"SELECT * FROM ./dir/file.json?batch_size=5 f WHERE f.a ~ '^a' AND f.b ~* 'B' AND f.c !~ 'x' AND f.d !~* 'y'",
	"SELECT * FROM plugins.plugins",
	"SELECT (SELECT max(i) FROM range(start=>1, end=>3) r), a IN (SELECT b FROM u), EXISTS (SELECT 1 FROM v) FROM t",
	"SELECT a FROM t WHERE (a, b) IN ((1, 2), (3, 4)) AND c IS NOT NULL AND NOT d LIKE 'x%'",
	"SELECT * FROM (SELECT a, b FROM t WHERE a > 1) s WHERE s.b < 3 ORDER BY s.a DESC, s.b LIMIT 10 OFFSET 2",
	"SELECT DISTINCT a, \"quoted col\", `back ticked` FROM \"my table\" mt",
	"(SELECT a FROM t) UNION ALL (SELECT b FROM u) ORDER BY a LIMIT 1",
	"SELECT COALESCE(a, b, 0), count(DISTINCT a), t.f(x) FROM t",
	"SELECT CASE WHEN a > 1 THEN 'x' WHEN a < 0 THEN 'y' ELSE 'z' END, CASE a WHEN 1 THEN 2 END FROM t",
	"SELECT a FROM t WHERE a BETWEEN 1 AND 2 OR b NOT BETWEEN 'a' AND 'c'",
	"SELECT t.*, db.t.* FROM db.t",
	"SELECT 1",
	"SELECT -a, - -a, !a, ~a, +a, -1, - 1, -(1) FROM t",
	"SELECT a FROM t1, t2, (t3 JOIN t4 ON t3.a = t4.a)",
	"SELECT a / 2, a DIV 2, a % 2, a MOD 2, a << 1, a >> 1, a & b, a | b, a ^ b FROM t",
	"SELECT a FROM t WHERE a = 1 && b = 2 || c = 3",
	"SELECT cast(a AS int), convert(a, float) FROM t",
	"SELECT * FROM t NATURAL JOIN u NATURAL LEFT JOIN v STRAIGHT_JOIN w",
	"SELECT * FROM t JOIN u USING (a, b)",
	"SELECT * FROM t FOR UPDATE",
	"SELECT 'it''s', 'a\\nb', '\\\\', 0x1F, X'1F', 1.5e3, .5, 1e-2 FROM t",
	"SELECT a AS 'string alias', b 'other' FROM t",
	// statements inherited from the MySQL grammar (accepted by Parse, not used by OctoSQL)
	"insert into t (a, b) values (1, 'x'), (2, null)",
	"insert ignore into db.t select a, b from u on duplicate key update a = values(a)",
	"replace into t set a = 1, b = 2",
	"update t set a = a + 1, b = 'x' where id in (1, 2) order by id desc limit 3",
	"update t join u on t.id = u.id set t.a = u.a",
	"delete from t where a < 10 order by a limit 2",
	"delete t, u from t join u on t.id = u.id where u.x is null",
	"create table t (id int primary key, name varchar(20) not null default 'x', ts timestamp)",
	"create table if not exists db.t like db.u",
	"alter table t add column c int",
	"alter table t rename to u",
	"drop table if exists t",
	"rename table a to b",
	"truncate table t",
	"create view v as select a from t",
	"show tables",
	"show databases like 'x%'",
	"show create table t",
	"show full columns from t",
	"set @a = 1, autocommit = on",
	"set names utf8",
	"set session transaction isolation level repeatable read",
	"use db",
	"begin",
	"commit",
	"rollback",
	"analyze table t",
	"select next 3 values from seq",
	"stream * from t",
	"select group_concat(distinct a order by b desc separator ', ') from t",
	"select match(a, b) against ('x' in boolean mode) from t",
	"select a from t where a = any_value(b) lock in share mode",
	"select sql_no_cache straight_join a from t use index (i) force index (j)",
	// one deterministic witness per open printer finding (so that a fix is seen to silence its key)
	"SELECT INTERVAL 5 `a b`, interval 27 `select` FROM t",
	"SELECT a FROM t ORDER BY NULL DESC, rand() DESC",
	"select group_concat(distinct a order by b desc separator 'it''s') from t",
	"select * from t where convert(a using `a b`) and b collate `select` = c",
	"SELECT `a b`(1), `select`(2) FROM t",
	"SELECT c::`select`, cast(d AS `a b`) FROM t",
	"SET `a b` = 1",
}

type gen struct {
	rng   *rand.Rand
	depth int
}

func newGen(rng *rand.Rand) *gen { return &gen{rng: rng} }

func (g *gen) pick(xs ...string) string { return xs[g.rng.Intn(len(xs))] }
func (g *gen) chance(pct int) bool      { return g.rng.Intn(100) < pct }

// kw prints a keyword in random case.
func (g *gen) kw(s string) string {
	switch g.rng.Intn(4) {
	case 0:
		return strings.ToLower(s)
	default:
		return s
	}
}

func (g *gen) ident() string {
	switch g.rng.Intn(12) {
	case 0:
		return g.pick("`my col`", "`select`", "`a-b`", "`1x`", "`from`", "`a.b`")
	case 1:
		return g.pick(`"quoted"`, `"two words"`, `"Order"`)
	case 2:
		return g.pick("UserID", "Name", "window_end", "user_id", "_x", "a1", "time", "value", "status", "count", "level")
	default:
		return g.pick("a", "b", "c", "d", "x", "y", "id", "name", "age", "city", "ts", "val", "cnt", "o", "i")
	}
}

func (g *gen) alias() string {
	return g.pick("t", "u", "v", "w", "r", "s", "p", "q", "l", "t1", "t2", "src", "`al ias`")
}

func (g *gen) column() string {
	switch g.rng.Intn(6) {
	case 0:
		return g.alias() + "." + g.ident()
	case 1:
		return g.pick("db", "m") + "." + g.alias() + "." + g.ident()
	default:
		return g.ident()
	}
}

func (g *gen) tableName() string {
	switch g.rng.Intn(14) {
	case 0:
		return g.pick("`file.json`", "`data/people.csv`", "`./x y.json`", "`/abs/path/t.parquet`")
	case 1:
		return g.pick("`./test.csv?header=false`", "`t.csv?separator=;&header=true`", "`lines.txt?separator=\\n`")
	case 2:
		return g.pick("./test.csv", "./dir/sub/file.json", "./t.csv?header=false", "./up/t.json")
	case 3:
		return g.pick("clicks.json", "people.csv", "m.t", "db.tbl", "plugins.plugins", "docker.containers")
	case 4:
		return g.pick(`"quoted table"`, "stdin.json", "`stdin.csv`")
	default:
		return g.pick("t", "u", "users", "orders", "events", "x", "with_watermark", "T", "Tbl")
	}
}

func (g *gen) intLit() string {
	switch g.rng.Intn(10) {
	case 0:
		return g.pick("0", "9223372036854775807", "9223372036854775808", "007", "18446744073709551616")
	case 1:
		return "-" + fmt.Sprint(g.rng.Intn(50))
	default:
		return fmt.Sprint(g.rng.Intn(100))
	}
}

func (g *gen) literal() string {
	switch g.rng.Intn(16) {
	case 0, 1, 2, 3, 4:
		return g.intLit()
	case 5:
		return g.pick("1.5", "0.25", ".5", "1e10", "1.5E-3", "3.", "1e+2")
	case 6, 7, 8:
		return g.pick("'a'", "'abc'", "''", "'it''s'", "'a\\nb'", "'\\\\'", "'%x_'", "'é日本'", "'a\"b'", "'x`y'", "'--c'", "'/* c */'", "'a\\'b'", "' '", "'\\t'", "'\\0'", "'\\Z'", "'\\%'")
	case 9:
		return g.pick("0x1F", "0xff", "X'1F'", "x'00ff'", "b'0101'")
	case 10:
		return g.pick("true", "false", "TRUE", "False")
	case 11:
		return g.pick("null", "NULL")
	case 12:
		return g.interval()
	default:
		return fmt.Sprint(g.rng.Intn(10))
	}
}

func (g *gen) interval() string {
	unit := g.pick("SECOND", "SECONDS", "second", "MINUTE", "minutes", "HOUR", "hours", "DAY", "days", "NANOSECOND", "milliseconds", "MICROSECONDS")
	switch g.rng.Intn(5) {
	case 0:
		return g.kw("INTERVAL") + " " + g.pick("-5", "(1 + 2)", "x", "'3'") + " " + unit
	default:
		return g.kw("INTERVAL") + " " + fmt.Sprint(g.rng.Intn(90)) + " " + unit
	}
}

func (g *gen) typeName() string {
	return g.pick("int", "float", "string", "boolean", "time", "duration", "[]", "{}", "INT", "date", "char", "signed")
}

func (g *gen) funcName() string {
	return g.pick("count", "sum", "avg", "min", "max", "len", "upper", "lower", "coalesce", "COALESCE", "abs", "int", "float", "now", "array_agg", "time_from_unix", "f", "myFunc")
}

func (g *gen) exprList(min, max int) string {
	n := min + g.rng.Intn(max-min+1)
	parts := make([]string, n)
	for i := range parts {
		parts[i] = g.expr()
	}
	return strings.Join(parts, g.pick(", ", ",", " , "))
}

// value: a value_expression
func (g *gen) value() string {
	g.depth++
	defer func() { g.depth-- }()
	if g.depth > 4 {
		if g.chance(50) {
			return g.column()
		}
		return g.literal()
	}
	switch g.rng.Intn(30) {
	case 0, 1, 2, 3, 4, 5:
		return g.column()
	case 6, 7, 8, 9:
		return g.literal()
	case 10, 11:
		op := g.pick("+", "-", "*", " / ", "%", " DIV ", " MOD ", "&", "|", "^", "<<", ">>", " + ", " - ", " * ", " % ")
		return g.value() + op + g.value()
	case 12:
		return "(" + g.expr() + ")"
	case 13:
		if g.chance(25) {
			return "-(" + g.expr() + ")"
		}
		if g.chance(35) { // a prefix operator applied directly to another one, spaced so that the input tokenizes
			ops := []string{"-", "+", "~", "!", "binary ", "NOT "}
			return g.pick(ops...) + " " + g.pick(ops[:5]...) + " " + g.pick(g.column(), g.literal(), g.pick(ops[:4]...)+" "+g.column())
		}
		return g.pick("-", "- ", "~", "!", "+", "- -") + g.value()
	case 14, 15: // function call
		name := g.funcName()
		switch g.rng.Intn(6) {
		case 0:
			return name + "()"
		case 1:
			return name + "(*)"
		case 2:
			return name + "(" + g.kw("DISTINCT") + " " + g.exprList(1, 2) + ")"
		case 3:
			return g.alias() + "." + name + "(" + g.exprList(0, 2) + ")"
		default:
			return name + "(" + g.exprList(1, 3) + ")"
		}
	case 16: // object field access
		s := g.value() + g.pick("->", " -> ") + g.ident()
		if g.chance(30) {
			s += "->" + g.ident()
		}
		return s
	case 17: // typecast
		return g.value() + g.pick("::", " :: ") + g.typeName()
	case 18: // index
		return g.value() + "[" + g.value() + "]"
	case 19:
		if g.chance(50) {
			return g.kw("CAST") + "(" + g.expr() + " " + g.kw("AS") + " " + g.typeName() + ")"
		}
		return g.kw("CONVERT") + "(" + g.expr() + ", " + g.typeName() + ")"
	case 20: // tuple
		return "(" + g.exprList(2, 3) + ")"
	case 21: // scalar subquery
		return "(" + g.selectStmt(false) + ")"
	case 22: // case
		s := g.kw("CASE")
		if g.chance(40) {
			s += " " + g.expr()
		}
		for i := 0; i <= g.rng.Intn(2); i++ {
			s += " " + g.kw("WHEN") + " " + g.expr() + " " + g.kw("THEN") + " " + g.expr()
		}
		if g.chance(50) {
			s += " " + g.kw("ELSE") + " " + g.expr()
		}
		return s + " " + g.kw("END")
	case 23:
		return g.interval()
	case 24:
		return g.pick("now()", "len("+g.column()+")")
	case 25: // forms inherited from the MySQL grammar that OctoSQL itself never consumes: kept rare
		switch g.rng.Intn(12) {
		case 0, 1:
			return g.value() + " " + g.kw("COLLATE") + " " + g.pick("utf8_bin", "latin1_general_ci")
		case 2, 3:
			return g.pick("binary ", "_binary ", "_utf8mb4 ") + g.value()
		case 4, 5:
			return g.pick("left", "right", "LEFT") + "(" + g.value() + ", " + g.intLit() + ")"
		case 6:
			return g.pick("substr", "substring", "SUBSTRING") + "(" + g.pick(g.column(), "'abc'") + " " + g.kw("FROM") + " " + g.intLit() + " " + g.kw("FOR") + " " + g.intLit() + ")"
		case 7, 8:
			return g.pick("@@global.x", "@uservar", "@@session.y")
		case 9:
			return "?"
		default:
			return g.pick("current_timestamp", "CURRENT_TIMESTAMP()", "utc_timestamp()", "current_date", "localtime(3)")
		}
	default:
		return g.column()
	}
}

// expr: a (boolean) expression
func (g *gen) expr() string {
	g.depth++
	defer func() { g.depth-- }()
	if g.depth > 4 {
		return g.value()
	}
	switch g.rng.Intn(30) {
	case 0, 1, 2, 3, 4, 5, 6, 7, 8:
		return g.value()
	case 9, 10, 11:
		op := g.pick("=", "<", ">", "<=", ">=", "!=", "<>", "<=>", " = ", " < ", " >= ", " != ")
		return g.value() + op + g.value()
	case 12, 13:
		return g.expr() + " " + g.pick("AND", "and", "OR", "or", "&&", "||") + " " + g.expr()
	case 14:
		return g.kw("NOT") + " " + g.expr()
	case 15:
		return g.value() + " " + g.kw("IS") + " " + g.pick("NULL", "NOT NULL", "null", "not null", "TRUE", "NOT TRUE", "FALSE", "not false")
	case 16:
		return g.value() + " " + g.pick("IN", "in", "NOT IN", "not in") + " (" + g.exprList(1, 3) + ")"
	case 17:
		return g.value() + " " + g.pick("IN", "NOT IN") + " (" + g.selectStmt(false) + ")"
	case 18:
		s := g.value() + " " + g.pick("LIKE", "like", "NOT LIKE") + " " + g.value()
		if g.chance(25) {
			s += " " + g.kw("ESCAPE") + " " + g.pick("'\\\\'", "'!'", "'|'")
		}
		return s
	case 19:
		return g.value() + g.pick(" ~ ", " ~* ", " !~ ", " !~* ", "~", "~*", "!~") + g.pick("'^a.*'", "'[0-9]+'", "name", "'x'")
	case 20:
		return g.value() + " " + g.pick("REGEXP", "NOT REGEXP", "regexp") + " " + g.value()
	case 21:
		return g.value() + " " + g.pick("BETWEEN", "NOT BETWEEN", "between") + " " + g.value() + " " + g.kw("AND") + " " + g.value()
	case 22:
		return g.kw("EXISTS") + " (" + g.selectStmt(false) + ")"
	case 23:
		return "(" + g.expr() + ")"
	default:
		return g.value()
	}
}

func (g *gen) selectExpr() string {
	switch g.rng.Intn(14) {
	case 0:
		return "*"
	case 1:
		return g.alias() + ".*"
	case 2:
		return g.value() + g.pick("->*", " ->*")
	case 3, 4, 5:
		return g.expr() + " " + g.kw("AS") + " " + g.ident()
	case 6:
		return g.expr() + " " + g.ident()
	case 7:
		return g.expr() + " " + g.pick("AS ", "") + g.pick("'str alias'", "'x'")
	default:
		return g.expr()
	}
}

func (g *gen) tvf() string {
	name := g.pick("range", "max_diff_watermark", "tumble", "poll", "myTvf", "RANGE")
	var args []string
	n := g.rng.Intn(5)
	for i := 0; i < n; i++ {
		an := g.pick("source", "start", "end", "max_diff", "time_field", "resolution", "window_length", "offset", "poll_interval", "x", "`odd name`", "Source")
		arrow := g.pick("=>", " => ", "=> ")
		switch g.rng.Intn(7) {
		case 0, 1:
			args = append(args, an+arrow+g.kw("TABLE")+"("+g.tableRef()+")")
		case 2:
			args = append(args, an+arrow+g.kw("DESCRIPTOR")+"("+g.column()+")")
		case 3:
			args = append(args, an+arrow+g.interval())
		default:
			args = append(args, an+arrow+g.expr())
		}
	}
	return name + "(" + strings.Join(args, g.pick(", ", ",")) + ")" + g.pick(" ", " AS ", " as ") + g.alias()
}

func (g *gen) tableFactor() string {
	g.depth++
	defer func() { g.depth-- }()
	if g.depth > 5 {
		return g.tableName()
	}
	switch g.rng.Intn(16) {
	case 0, 1, 2:
		return g.tvf()
	case 3, 4:
		return "(" + g.selectStmt(false) + ")" + g.pick(" ", " AS ", " as ") + g.alias()
	case 5:
		return "(" + g.tableRef() + g.pick("", ", "+g.tableName()) + ")"
	case 6, 7, 8:
		return g.tableName() + g.pick(" ", " AS ", " as ") + g.alias()
	case 9:
		return g.tableName() + " " + g.alias() + " " + g.pick("USE INDEX (i1)", "IGNORE INDEX (i1, i2)", "FORCE INDEX (primary_idx)")
	default:
		return g.tableName()
	}
}

func (g *gen) tableRef() string {
	g.depth++
	defer func() { g.depth-- }()
	if g.depth > 5 || g.chance(55) {
		return g.tableFactor()
	}
	left := g.tableRef()
	switch g.rng.Intn(12) {
	case 0, 1, 2:
		s := left + " " + g.pick("LOOKUP ", "lookup ", "STREAM ", "") + g.pick("JOIN", "INNER JOIN", "CROSS JOIN", "join") + " " + g.tableFactor()
		switch g.rng.Intn(4) {
		case 0:
		case 1:
			s += " " + g.kw("USING") + " (" + g.ident() + g.pick("", ", "+g.ident()) + ")"
		default:
			s += " " + g.kw("ON") + " " + g.expr()
		}
		return s
	case 3, 4, 5:
		return left + " " + g.pick("LOOKUP JOIN", "lookup join", "LOOKUP INNER JOIN", "STREAM JOIN") + " " + g.tableFactor() + " " + g.kw("ON") + " " + g.expr()
	case 6, 7, 8:
		return left + " " + g.pick("LEFT JOIN", "LEFT OUTER JOIN", "RIGHT JOIN", "RIGHT OUTER JOIN", "OUTER JOIN", "left join", "outer join") + " " + g.tableFactor() + " " + g.kw("ON") + " " + g.expr()
	case 9:
		return left + " " + g.pick("NATURAL JOIN", "NATURAL LEFT JOIN", "NATURAL RIGHT OUTER JOIN", "natural join") + " " + g.tableFactor()
	case 10:
		return left + " STRAIGHT_JOIN " + g.tableFactor() + g.pick("", " ON "+g.expr())
	default:
		return left + " " + g.kw("JOIN") + " " + g.tableFactor() + " " + g.kw("ON") + " " + g.column() + " = " + g.column()
	}
}

func (g *gen) trigger() string {
	switch g.rng.Intn(5) {
	case 0:
		return g.pick("ON WATERMARK", "on watermark")
	case 1:
		return g.pick("ON END OF STREAM", "on end of stream")
	case 2:
		return g.pick("AFTER DELAY ", "after delay ") + g.pick(g.interval(), g.value())
	case 3:
		return g.kw("COUNTING") + " " + g.pick(g.intLit(), g.value())
	default:
		return g.pick("ON WATERMARK", "COUNTING 100", "ON END OF STREAM", "AFTER DELAY INTERVAL 1 SECOND")
	}
}

// selectStmt: top = may carry ORDER BY / LIMIT / lock of a top-level statement more often
func (g *gen) selectStmt(top bool) string {
	g.depth++
	defer func() { g.depth-- }()
	var sb strings.Builder
	sb.WriteString(g.kw("SELECT"))
	if g.chance(10) {
		sb.WriteString(" " + g.kw("DISTINCT"))
	}
	n := 1 + g.rng.Intn(3)
	if g.depth > 3 {
		n = 1
	}
	for i := 0; i < n; i++ {
		if i > 0 {
			sb.WriteString(",")
		}
		sb.WriteString(" " + g.selectExpr())
	}
	if g.depth > 5 {
		sb.WriteString(" " + g.kw("FROM") + " " + g.tableName())
		return sb.String()
	}
	if !g.chance(4) {
		sb.WriteString(" " + g.kw("FROM") + " " + g.tableRef())
		for g.chance(12) {
			sb.WriteString(", " + g.tableRef())
		}
	}
	if g.chance(40) {
		sb.WriteString(" " + g.kw("WHERE") + " " + g.expr())
	}
	grouped := false
	if g.chance(30) {
		grouped = true
		sb.WriteString(" " + g.kw("GROUP BY") + " " + g.exprList(1, 3))
		if g.chance(20) {
			sb.WriteString(" " + g.kw("HAVING") + " " + g.expr())
		}
	}
	if (grouped && g.chance(60)) || g.chance(6) {
		sb.WriteString(" " + g.kw("TRIGGER") + " " + g.trigger())
		for g.chance(35) {
			sb.WriteString(g.pick(", ", ",") + g.trigger())
		}
	}
	if g.chance(20) {
		sb.WriteString(" " + g.kw("ORDER BY") + " " + g.expr() + g.pick("", " ASC", " DESC", " desc"))
		for g.chance(30) {
			sb.WriteString(", " + g.expr() + g.pick("", " ASC", " DESC"))
		}
	}
	if g.chance(18) {
		switch g.rng.Intn(4) {
		case 0:
			sb.WriteString(" " + g.kw("LIMIT") + " " + g.intLit() + " " + g.kw("OFFSET") + " " + g.intLit())
		case 1:
			sb.WriteString(" " + g.kw("LIMIT") + " " + g.intLit() + ", " + g.intLit())
		default:
			sb.WriteString(" " + g.kw("LIMIT") + " " + g.pick(g.intLit(), g.value()))
		}
	}
	if top && g.chance(3) {
		sb.WriteString(g.pick(" FOR UPDATE", " LOCK IN SHARE MODE"))
	}
	return sb.String()
}

func (g *gen) statement() string {
	g.depth = 0
	switch r := g.rng.Intn(100); {
	case r < 18: // WITH
		var ctes []string
		for i := 0; i <= g.rng.Intn(3); i++ {
			name := g.pick("x", "y", "with_watermark", "with_tumble", "counts", "T") + fmt.Sprint(i)
			if g.chance(10) {
				name = g.pick("`c t e", "`select", "`a.b") + fmt.Sprint(i) + "`"
			}
			ctes = append(ctes, name+" "+g.kw("AS")+" ("+g.selectStmt(false)+")")
		}
		s := g.kw("WITH") + " " + strings.Join(ctes, g.pick(", ", ",\n  "))
		if g.chance(5) {
			s += ","
		}
		return s + " " + g.selectStmt(true)
	case r < 24: // union
		l := "(" + g.selectStmt(false) + ")"
		rgt := "(" + g.selectStmt(false) + ")"
		s := l + " " + g.pick("UNION", "UNION ALL", "UNION DISTINCT", "union all") + " " + rgt
		if g.chance(30) {
			s += " " + g.kw("ORDER BY") + " " + g.column()
		}
		if g.chance(30) {
			s += " " + g.kw("LIMIT") + " " + g.intLit()
		}
		return s
	case r < 26:
		return "(" + g.selectStmt(true) + ")"
	case r < 27:
		return g.selectStmt(true) + g.pick(";", " ;", "\n")
	default:
		return g.selectStmt(true)
	}
}

// Package c30: SQL formatting round-trips through the parser.
//
// R: a statement s the parser accepts such that String(Parse(s)) panics, does not parse, parses
// to a tree not equivalent to Parse(s), or is not a fix-point of print∘parse.
// O: own deep structural tree comparison (cmp.go) + print fix-point.
// W: grammar-based generator for the OctoSQL dialect (gen.go), the scenario queries, the README
// examples and every string literal of the vendored parser tests that parses, then token
// mutation (lex.go) keeping only mutants that still parse.
//
// Known printer defects are attributed by *repair*: when the plain round trip of a statement
// fails, it is repeated with a corrected formatter for exactly the defective constructs the
// statement contains (sqlparser.NodeFormatter hook; everything else still goes through the real
// Format methods). If the repaired round trip succeeds, the repairs that were necessary are the
// findings (key = construct); if it still fails, the remaining difference is reported under its
// own key — so another printer defect in a statement that also contains a known one is not hidden.
package c30

import (
	"encoding/json"
	"fmt"
	"os"
	"reflect"
	"runtime"
	"runtime/debug"
	"runtime/pprof"
	"sort"
	"strings"
	"sync"

	"github.com/cube2222/octosql/parser/sqlparser"

	"github.com/cube2222/octosql/plugins/verifharness/core"
)

func init() { core.Register("C30", Run) }

var selftest = os.Getenv("VERIF_SELFTEST") == "1"

// ---------------------------------------------------------------------------------------------
// repairs = the known printer defects, each with the construct that is its input predicate

type repairDef struct {
	key     string
	present func(cs *constructs) bool
}

type constructs struct {
	types          map[string]int
	selectTrigger  bool
	joinStrategy   bool
	arrayIndex     bool
	nodes          int
	valArg         bool            // a `?` placeholder (SQLVal of type ValArg)
	strNeedsEscape bool            // a string literal containing a byte the printer escapes but the tokenizer does not decode
	orderNullRand  bool            // ORDER BY NULL / rand() with an explicit direction
	otherStmt      bool            // the statement is one of vitess' placeholder nodes OtherRead / OtherAdmin
	funcNameQuoted bool            // a function whose name cannot be printed bare (was written in backticks)
	unitQuoted     bool            // an INTERVAL unit that cannot be printed bare
	typeQuoted     bool            // a cast type name that cannot be printed bare
	setNameQuoted  bool            // a SET variable name that cannot be printed bare
	emptyIdent     bool            // a dotted name with an empty part (`t.&&`: the tokenizer returns no text for && and ||)
	rawStrings     map[string]bool // values of plain string fields (names the tree keeps as raw strings: charset, unit, type ...)
	rawQuotedName  bool            // one of them is a quoted identifier of the input that cannot be read bare
	root           string          // type name of the statement node
	gcSeparator    bool            // a GROUP_CONCAT separator containing a quote or backslash (kept as pre-rendered text)
	oddDottedPart  bool            // a dotted name whose later part starts with '/', '.' or '@' (re-tokenized as a path / variable when printed)
}

// bareOK reports, by asking the parser itself, whether `name` written bare at the hole of the
// template is read back as exactly that name; extract pulls the name out of the parsed probe.
// This makes "the name needs quoting" an input predicate that does not depend on the printer.
var bareCache sync.Map

func bareOK(kind, name string) bool {
	if name == "" {
		return true
	}
	ck := kind + "\x00" + name
	if v, ok := bareCache.Load(ck); ok {
		return v.(bool)
	}
	ok := false
	var probe string
	switch kind {
	case "func":
		probe = "select " + name + "(1) from t"
	case "unit":
		probe = "select interval 1 " + name + " from t"
	case "type":
		probe = "select convert(a, " + name + ") from t"
	case "set":
		probe = "set " + name + " = 1"
	case "col":
		probe = "select " + name + " from t"
	}
	if t, err, _, _ := safeParse(probe); err == nil && t != nil {
		got := ""
		n := 0
		visitNodes(t, func(tn string, v reflect.Value) {
			switch {
			case kind == "func" && tn == "FuncExpr":
				got = v.FieldByName("Name").FieldByName("val").String()
				n++
			case kind == "unit" && tn == "IntervalExpr":
				got = v.FieldByName("Unit").String()
				n++
			case kind == "type" && tn == "ConvertTypeSimple":
				got = v.FieldByName("Name").String()
				n++
			case kind == "set" && tn == "SetExpr":
				got = v.FieldByName("Name").FieldByName("val").String()
				n++
			case kind == "col" && tn == "ColName":
				got = v.FieldByName("Name").FieldByName("val").String()
				n++
			}
		})
		ok = n == 1 && got == name
	}
	bareCache.Store(ck, ok)
	return ok
}

func oddStart(s string) bool {
	return s != "" && (s[0] == '/' || s[0] == '.' || s[0] == '@')
}

func plainIdent(s string) bool {
	for i := 0; i < len(s); i++ {
		ch := s[i]
		ok := ch == '_' || ch == '@' || ch == '$' || (ch >= 'a' && ch <= 'z') || (ch >= 'A' && ch <= 'Z') || (i > 0 && ch >= '0' && ch <= '9')
		if !ok {
			return false
		}
	}
	return s != ""
}

func analyse(t sqlparser.Statement) *constructs {
	cs := &constructs{types: map[string]int{}, rawStrings: map[string]bool{}}
	if rt := reflect.TypeOf(t); rt != nil && rt.Kind() == reflect.Ptr {
		cs.root = rt.Elem().Name()
	}
	visitNodes(t, func(name string, v reflect.Value) {
		cs.types[name]++
		cs.nodes++
		if v.Kind() == reflect.Struct && name != "ColIdent" && name != "TableIdent" {
			for i := 0; i < v.NumField(); i++ {
				if f := v.Field(i); f.Kind() == reflect.String && f.Len() > 0 {
					cs.rawStrings[f.String()] = true
				}
			}
		}
		switch name {
		case "Select":
			if v.FieldByName("Trigger").Len() > 0 {
				cs.selectTrigger = true
			}
		case "JoinTableExpr":
			s := v.FieldByName("Strategy").String()
			if s == sqlparser.LookupJoinStrategy || s == sqlparser.StreamJoinStrategy {
				cs.joinStrategy = true
			}
		case "BinaryExpr":
			if v.FieldByName("Operator").String() == sqlparser.ArrayElement {
				cs.arrayIndex = true
			}
		case "SQLVal":
			switch sqlparser.ValType(v.FieldByName("Type").Int()) {
			case sqlparser.ValArg:
				cs.valArg = true
			case sqlparser.StrVal:
				for _, ch := range v.FieldByName("Val").Bytes() {
					switch ch {
					case 0, '"', '\b', '\r', '\t', 26:
						cs.strNeedsEscape = true
					}
				}
			}
		case "Order":
			e := v.FieldByName("Expr")
			if !e.IsNil() && v.FieldByName("Direction").String() != sqlparser.AscScr {
				switch x := e.Interface().(type) {
				case *sqlparser.NullVal:
					cs.orderNullRand = true
				case *sqlparser.FuncExpr:
					if x.Name.Lowered() == "rand" {
						cs.orderNullRand = true
					}
				}
			}
		case "OtherRead", "OtherAdmin":
			cs.otherStmt = true
		case "FuncExpr":
			if name := v.FieldByName("Name").FieldByName("val").String(); !bareOK("func", name) {
				cs.funcNameQuoted = true
			}
		case "IntervalExpr":
			if !bareOK("unit", v.FieldByName("Unit").String()) {
				cs.unitQuoted = true
			}
		case "ConvertTypeSimple":
			if !bareOK("type", v.FieldByName("Name").String()) {
				cs.typeQuoted = true
			}
		case "SetExpr":
			if n := v.FieldByName("Name").FieldByName("val").String(); n == "" || !bareOK("set", n) {
				cs.setNameQuoted = true
			}
		case "GroupConcatExpr":
			// Separator is the pre-rendered text ` separator '<raw bytes>'`
			if sep := v.FieldByName("Separator").String(); len(sep) > 13 && strings.ContainsAny(sep[12:len(sep)-1], "'\\") {
				cs.gcSeparator = true
			}
		case "ColName":
			name := v.FieldByName("Name").FieldByName("val").String()
			q := v.FieldByName("Qualifier").FieldByName("Name").FieldByName("v").String()
			if name == "" && q != "" {
				cs.emptyIdent = true
			}
			if q != "" && (oddStart(name) || strings.HasPrefix(q, "@@")) {
				// a system variable name (@@x) absorbs following dots when re-tokenized
				cs.oddDottedPart = true
			}
		case "TableName":
			name := v.FieldByName("Name").FieldByName("v").String()
			q := v.FieldByName("Qualifier").FieldByName("v").String()
			if name == "" && q != "" {
				cs.emptyIdent = true
			}
			if q != "" && oddStart(name) {
				cs.oddDottedPart = true
			}
		}
	})
	return cs
}

var repairs = []repairDef{
	{"cte-format-panics", func(cs *constructs) bool { return cs.types["CommonTableExpression"] > 0 }},
	{"tvf-alias-not-printed", func(cs *constructs) bool { return cs.types["TableValuedFunction"] > 0 }},
	{"select-trigger-not-printed", func(cs *constructs) bool { return cs.selectTrigger }},
	{"end-of-stream-trigger-printed-as-watermark", func(cs *constructs) bool { return cs.types["EndOfStreamTrigger"] > 0 }},
	{"delay-trigger-printed-without-after", func(cs *constructs) bool { return cs.types["DelayTrigger"] > 0 }},
	{"join-strategy-not-printed", func(cs *constructs) bool { return cs.joinStrategy }},
	{"array-index-printed-as-binary-operator", func(cs *constructs) bool { return cs.arrayIndex }},
	{"string-escape-printed-but-not-decoded", func(cs *constructs) bool { return cs.strNeedsEscape }},
	{"placeholder-printed-as-unparseable-bind-variable", func(cs *constructs) bool { return cs.valArg }},
	{"substr-from-for-printed-as-plain-call", func(cs *constructs) bool { return cs.types["SubstrExpr"] > 0 }},
	{"order-by-null-or-rand-direction-dropped", func(cs *constructs) bool { return cs.orderNullRand }},
	{"function-name-needing-quotes-printed-bare", func(cs *constructs) bool { return cs.funcNameQuoted }},
	{"interval-unit-needing-quotes-printed-bare", func(cs *constructs) bool { return cs.unitQuoted }},
	{"cast-type-needing-quotes-printed-bare", func(cs *constructs) bool { return cs.typeQuoted }},
}

// formatter returns a NodeFormatter that prints the constructs named in active the way the
// grammar reads them and delegates everything else to the node's own Format.
func formatter(active map[string]bool) sqlparser.NodeFormatter {
	return func(buf *sqlparser.TrackedBuffer, node sqlparser.SQLNode) {
		switch n := node.(type) {
		case *sqlparser.CommonTableExpression:
			if n != nil && active["cte-format-panics"] {
				buf.Myprintf("%v AS (%v)", n.Name, n.Select)
				return
			}
		case *sqlparser.TableValuedFunction:
			if n != nil && active["tvf-alias-not-printed"] {
				buf.Myprintf("%v(%v) as %v", n.Name, n.Args, n.As)
				return
			}
		case *sqlparser.Select:
			if n != nil && active["select-trigger-not-printed"] && len(n.Trigger) > 0 {
				buf.Myprintf("select %v%s%s%s%v from %v%v%v%v %v%v%v%s",
					n.Comments, n.Cache, n.Distinct, n.Hints, n.SelectExprs,
					n.From, n.Where, n.GroupBy, n.Having, n.Trigger, n.OrderBy, n.Limit, n.Lock)
				return
			}
		case *sqlparser.EndOfStreamTrigger:
			if n != nil && active["end-of-stream-trigger-printed-as-watermark"] {
				buf.Myprintf("ON END OF STREAM")
				return
			}
		case *sqlparser.DelayTrigger:
			if n != nil && active["delay-trigger-printed-without-after"] {
				buf.Myprintf("AFTER DELAY %v", n.Delay)
				return
			}
		case *sqlparser.JoinTableExpr:
			if n != nil && active["join-strategy-not-printed"] && (n.Strategy == sqlparser.LookupJoinStrategy || n.Strategy == sqlparser.StreamJoinStrategy) {
				buf.Myprintf("%v %s %s %v%v", n.LeftExpr, n.Strategy, n.Join, n.RightExpr, n.Condition)
				return
			}
		case *sqlparser.BinaryExpr:
			if n != nil && active["array-index-printed-as-binary-operator"] && n.Operator == sqlparser.ArrayElement {
				buf.Myprintf("%v[%v]", n.Left, n.Right)
				return
			}
		case *sqlparser.SQLVal:
			if n != nil && n.Type == sqlparser.StrVal && active["string-escape-printed-but-not-decoded"] {
				// escape exactly what the tokenizer decodes: \', \\ and \n
				buf.WriteByte('\'')
				for _, ch := range n.Val {
					switch ch {
					case '\'':
						buf.WriteString("\\'")
					case '\\':
						buf.WriteString("\\\\")
					case '\n':
						buf.WriteString("\\n")
					default:
						buf.WriteByte(ch)
					}
				}
				buf.WriteByte('\'')
				return
			}
			if n != nil && n.Type == sqlparser.ValArg && active["placeholder-printed-as-unparseable-bind-variable"] {
				buf.WriteString("?")
				return
			}
		case *sqlparser.SubstrExpr:
			if n != nil && active["substr-from-for-printed-as-plain-call"] && n.To != nil {
				if n.Name != nil {
					buf.Myprintf("substr(%v from %v for %v)", n.Name, n.From, n.To)
				} else {
					buf.Myprintf("substr(%v from %v for %v)", n.StrVal, n.From, n.To)
				}
				return
			}
		case *sqlparser.FuncExpr:
			if n != nil && active["function-name-needing-quotes-printed-bare"] && !bareOK("func", n.Name.String()) {
				distinct := ""
				if n.Distinct {
					distinct = "distinct "
				}
				if !n.Qualifier.IsEmpty() {
					buf.Myprintf("%v.", n.Qualifier)
				}
				buf.Myprintf("%v(%s%v)", n.Name, distinct, n.Exprs)
				return
			}
		case *sqlparser.IntervalExpr:
			if n != nil && active["interval-unit-needing-quotes-printed-bare"] && !bareOK("unit", n.Unit) {
				buf.Myprintf("interval %v %v", n.Expr, sqlparser.NewColIdent(n.Unit))
				return
			}
		case *sqlparser.ConvertTypeSimple:
			if n != nil && active["cast-type-needing-quotes-printed-bare"] && !bareOK("type", n.Name) {
				buf.Myprintf("%v", sqlparser.NewColIdent(n.Name))
				return
			}
		case *sqlparser.Order:
			if n != nil && active["order-by-null-or-rand-direction-dropped"] {
				buf.Myprintf("%v %s", n.Expr, n.Direction)
				return
			}
		}
		node.Format(buf)
	}
}

// ---------------------------------------------------------------------------------------------
// one round trip

type failure struct {
	kind    string // panic | reparse | tree | fixpoint
	detail  string
	where   string // Type.Field for tree differences, panic site for panics
	printed string
}

func (f *failure) key() string {
	switch f.kind {
	case "panic":
		return "panic:" + f.where
	case "tree":
		return "tree-differs:" + f.where
	case "reparse":
		return "printed-text-does-not-parse"
	default:
		return "print-not-a-fixpoint"
	}
}

func safeParse(s string) (t sqlparser.Statement, err error, panicked bool, stack string) {
	defer func() {
		if r := recover(); r != nil {
			panicked = true
			err = fmt.Errorf("panic: %v", r)
			stack = string(debug.Stack())
		}
	}()
	t, err = sqlparser.Parse(s)
	return
}

func safePrint(t sqlparser.Statement, active map[string]bool) (s string, panicMsg, stack string) {
	defer func() {
		if r := recover(); r != nil {
			panicMsg = fmt.Sprint(r)
			if panicMsg == "" {
				panicMsg = "panic"
			}
			stack = string(debug.Stack())
		}
	}()
	if len(active) == 0 {
		return sqlparser.String(t), "", ""
	}
	buf := sqlparser.NewTrackedBuffer(formatter(active))
	buf.Myprintf("%v", t)
	return buf.String(), "", ""
}

func roundTrip(t1 sqlparser.Statement, active map[string]bool, corrupt bool) *failure {
	p1, pmsg, stack := safePrint(t1, active)
	if pmsg != "" {
		return &failure{kind: "panic", detail: "printing the parsed statement panics: " + pmsg, where: core.PanicSite(stack)}
	}
	if corrupt {
		// self-test: a printer that consistently drops the last token
		if i := strings.LastIndexByte(p1, ' '); i > 0 {
			p1 = p1[:i]
		}
	}
	t2, err, panicked, stack := safeParse(p1)
	if panicked {
		return &failure{kind: "panic", detail: "parsing the printed text panics: " + err.Error(), where: core.PanicSite(stack), printed: p1}
	}
	if err != nil {
		return &failure{kind: "reparse", detail: "printed text does not parse: " + err.Error(), printed: p1}
	}
	if what, where := treeDiff(t1, t2); what != "" {
		return &failure{kind: "tree", detail: "reparsed tree differs at " + what, where: where, printed: p1}
	}
	p2, pmsg, stack := safePrint(t2, active)
	if pmsg != "" {
		return &failure{kind: "panic", detail: "printing the reparsed statement panics: " + pmsg, where: core.PanicSite(stack), printed: p1}
	}
	if p2 != p1 {
		return &failure{kind: "fixpoint", detail: fmt.Sprintf("second print %q differs from first", p2), printed: p1}
	}
	return nil
}

type stmtCase struct {
	id     string
	source string
	sql    string
}

// check judges one accepted statement. It returns the constructs (for coverage accounting).
func check(c *core.Ctx, sc stmtCase, t1 sqlparser.Statement, idx int) *constructs {
	c.Eval(1)
	cs := analyse(t1)
	// quoted identifiers of the input that the tree keeps as a raw string (not as ColIdent/TableIdent)
	for _, tk := range lex(sc.sql) {
		if n := len(tk.text); n >= 3 && (tk.text[0] == '`' || tk.text[0] == '"') && tk.text[n-1] == tk.text[0] {
			name := tk.text[1 : n-1]
			if tk.text[0] == '`' {
				name = strings.ReplaceAll(name, "``", "`")
			}
			if cs.rawStrings[name] && !bareOK("col", name) {
				cs.rawQuotedName = true
			}
		}
	}
	corrupt := selftest && idx%50 == 7
	f0 := roundTrip(t1, nil, corrupt)
	replay := map[string]interface{}{"id": sc.id, "source": sc.source, "sql": sc.sql}
	if f0 == nil {
		c.Count("outcome/round_trip_ok", 1)
		return cs
	}
	replay["printed"] = f0.printed
	replay["plain_failure"] = f0.detail
	// which known-defect constructs does the statement contain?
	active := map[string]bool{}
	for _, r := range repairs {
		if r.present(cs) {
			active[r.key] = true
		}
	}
	// defects no formatter can repair (the information is already lost in the tree)
	unrepairable := func(f *failure) string {
		if corrupt {
			return ""
		}
		identSite := f.kind == "reparse" || (f.kind == "tree" && (f.where == "ColIdent.val" || f.where == "TableIdent.v"))
		switch {
		case cs.otherStmt && f.kind == "reparse":
			// vitess keeps nothing of EXPLAIN/DESCRIBE/REPAIR/OPTIMIZE ...: the node prints a placeholder word
			return "other-read-admin-placeholder"
		case cs.root == "Show":
			// Show keeps a pre-rendered Type string and drops most of the statement
			return "show-statement-printed-lossily"
		case cs.emptyIdent:
			// `t.&&` / `t.||` are accepted as a name whose part is the (empty) text of the token;
			// what is printed (`t.` glued to whatever follows) can then read as anything
			return "empty-name-part-from-symbolic-keyword"
		case cs.oddDottedPart:
			return "dotted-name-part-retokenized"
		case cs.setNameQuoted && f.kind == "reparse":
			return "set-variable-name-needing-quotes-printed-bare"
		case cs.rawQuotedName && (identSite || f.kind == "tree"):
			// charset / collation / unit / type ... names are kept as Go strings and printed with %s
			return "quoted-name-kept-as-raw-string-printed-bare"
		case cs.gcSeparator && f.kind == "reparse":
			return "group-concat-separator-printed-unescaped"
		case cs.types["ListArg"] > 0:
			// `x IN ::` : vitess' list bind variable rule (col_tuple: LIST_ARG) survives although
			// OctoSQL's tokenizer now returns `::` without a name; it prints as nothing
			return "list-arg-remnant-printed-empty"
		case cs.types["DDL"] > 0:
			// vitess keeps only what its router needs of a DDL (ALTER/ANALYZE print as `alter table t`,
			// trailing text after a partially parsed DDL is dropped)
			return "ddl-printed-lossily"
		}
		return ""
	}
	if len(active) == 0 || corrupt {
		key := unrepairable(f0)
		if key == "" {
			key = f0.key()
			dump(c, key, f0.detail, replay)
		} else if key == os.Getenv("VERIF_C30_DUMPKEY") {
			dump(c, key, f0.detail, replay)
		}
		c.Violation(key, f0.detail, replay)
		return cs
	}
	fAll := roundTrip(t1, active, false)
	if fAll != nil {
		// repairing every known defect present does not make it round-trip: something else is
		// wrong as well; report that difference under its own key
		replay["repairs_applied"] = keysOf(active)
		replay["printed_with_repairs"] = fAll.printed
		if key := unrepairable(fAll); key != "" {
			if key == os.Getenv("VERIF_C30_DUMPKEY") {
				dump(c, key, fAll.detail, replay)
			}
			c.Violation(key, fAll.detail, replay)
			return cs
		}
		dump(c, fAll.key(), fAll.detail, replay)
		c.Violation(fAll.key(), "even with the known defects ("+strings.Join(keysOf(active), ", ")+") repaired: "+fAll.detail, replay)
		return cs
	}
	// minimal necessary set
	for _, k := range keysOf(active) {
		delete(active, k)
		if roundTrip(t1, active, false) != nil {
			active[k] = true
		}
	}
	for _, k := range keysOf(active) {
		c.Violation(k, f0.detail, replay)
	}
	c.Count("outcome/only_known_defects", 1)
	return cs
}

// dump is a development aid: VERIF_C30_DUMP=<file> appends every unattributed failure as a JSON line.
var dumpMu sync.Mutex

func dump(c *core.Ctx, key, detail string, replay map[string]interface{}) {
	path := os.Getenv("VERIF_C30_DUMP")
	if path == "" {
		return
	}
	dumpMu.Lock()
	defer dumpMu.Unlock()
	f, err := os.OpenFile(path, os.O_APPEND|os.O_CREATE|os.O_WRONLY, 0o644)
	if err != nil {
		return
	}
	defer f.Close()
	m := map[string]interface{}{"key": key, "detail": detail}
	for k, v := range replay {
		m[k] = v
	}
	data, _ := json.Marshal(m)
	f.Write(append(data, '\n'))
}

func keysOf(m map[string]bool) []string {
	out := make([]string, 0, len(m))
	for k := range m {
		out = append(out, k)
	}
	sort.Strings(out)
	return out
}

// interesting node types for the coverage counters
var constructCounters = []string{
	"With", "CommonTableExpression", "TableValuedFunction", "TableDescriptorTableValuedFunctionArgumentValue",
	"FieldDescriptorTableValuedFunctionArgumentValue", "ExprTableValuedFunctionArgumentValue", "JoinTableExpr", "Subquery",
	"ObjectFieldAccess", "ObjectExplode", "ConvertExpr", "IntervalExpr", "WatermarkTrigger", "EndOfStreamTrigger",
	"DelayTrigger", "CountingTrigger", "Union", "ParenSelect", "CaseExpr", "ComparisonExpr", "RangeCond", "IsExpr",
	"ExistsExpr", "FuncExpr", "BinaryExpr", "UnaryExpr", "StarExpr", "Limit", "Order", "Insert", "Update", "Delete",
	"DDL", "Show", "Set", "ParenTableExpr", "ValTuple", "Stream", "GroupConcatExpr", "SubstrExpr", "CollateExpr", "MatchExpr",
}

func account(c *core.Ctx, sc stmtCase, cs *constructs) {
	c.Count("source/"+sc.source, 1)
	for _, n := range constructCounters {
		if cs.types[n] > 0 {
			c.Count("construct/"+n, 1)
		}
	}
	if cs.selectTrigger {
		c.Count("construct/TRIGGER-clause", 1)
	}
	if cs.joinStrategy {
		c.Count("construct/LOOKUP-or-STREAM-join", 1)
	}
	if cs.arrayIndex {
		c.Count("construct/array-index", 1)
	}
	if cs.nodes >= 8 {
		c.Nontrivial(sc.sql)
	}
}

// ---------------------------------------------------------------------------------------------

func Run(c *core.Ctx) core.FinishOpts {
	if pf := os.Getenv("VERIF_C30_PROF"); pf != "" { // development aid
		if f, err := os.Create(pf); err == nil {
			_ = pprof.StartCPUProfile(f)
			defer pprof.StopCPUProfile()
		}
		runtime.SetMutexProfileFraction(1)
		runtime.SetBlockProfileRate(1000)
		defer func() {
			if f, err := os.Create(pf + ".mutex"); err == nil {
				_ = pprof.Lookup("mutex").WriteTo(f, 0)
				f.Close()
			}
			if f, err := os.Create(pf + ".block"); err == nil {
				_ = pprof.Lookup("block").WriteTo(f, 0)
				f.Close()
			}
		}()
	}
	// the yacc parser under test allocates a large value stack per parse; with the default GC
	// target the 16 workers mostly wait for the heap lock
	defer debug.SetGCPercent(debug.SetGCPercent(1000))
	// fixed corpora
	type seedStmt struct {
		source, sql string
	}
	var seeds []seedStmt
	for _, q := range scenarioQueries() {
		seeds = append(seeds, seedStmt{"scenario", q})
	}
	for _, q := range readmeQueries() {
		seeds = append(seeds, seedStmt{"readme", q})
	}
	for _, q := range handWritten {
		seeds = append(seeds, seedStmt{"dialect-examples", q})
	}
	nScenario := len(seeds)
	for _, q := range vendoredTestStrings() {
		seeds = append(seeds, seedStmt{"vendored-tests", q})
	}
	firstAdjacency := len(seeds)
	for _, q := range adjacencyStatements() {
		seeds = append(seeds, seedStmt{"adjacency", q})
	}
	c.Note("adjacency_statements_enumerated", len(seeds)-firstAdjacency)
	var pool []string // statements mutation starts from (all accepted by the parser)
	accepted := make([]bool, len(seeds))
	core.Parallel(len(seeds), 16, func(i int) {
		sc := stmtCase{id: fmt.Sprintf("seed-%d", i), source: seeds[i].source, sql: seeds[i].sql}
		if c.Only != "" && c.Only != sc.id {
			// still needed for the pool
			if t, err, _, _ := safeParse(sc.sql); err == nil && t != nil {
				accepted[i] = true
			}
			return
		}
		t, err, panicked, stack := safeParse(sc.sql)
		if panicked {
			c.Count("parse_panics(C07's business, not judged here)/"+core.PanicSite(stack), 1)
			return
		}
		if err != nil || t == nil {
			if i < nScenario {
				c.Count("seed_rejected_by_parser/"+seeds[i].source, 1)
			}
			if i >= firstAdjacency {
				c.Count("adjacency_rejected_by_parser(not judged)", 1)
			}
			return
		}
		accepted[i] = true
		cs := check(c, sc, t, i)
		account(c, sc, cs)
		if i < 3 {
			c.Sample(map[string]interface{}{"id": sc.id, "source": sc.source, "sql": sc.sql, "printed": sqlparserStringSafe(t)})
		}
	})
	for i, ok := range accepted {
		// the enumerated adjacency statements are many and alike: only every 40th joins the mutation pool
		if ok && (i < firstAdjacency || i%40 == 0) {
			pool = append(pool, seeds[i].sql)
		}
	}
	c.Note("seed_statements_accepted", len(pool))
	// a fixed batch of generated statements joins the mutation pool
	{
		g := newGen(c.Rng("pool"))
		for i := 0; i < 400; i++ {
			s := g.statement()
			if t, err, _, _ := safeParse(s); err == nil && t != nil {
				pool = append(pool, s)
			}
		}
	}

	// generated + mutated statements, in deterministic chunks
	attempts := c.Pick(24000, 800000)
	const chunk = 1000
	nChunks := (attempts + chunk - 1) / chunk
	core.Parallel(nChunks, 16, func(j int) {
		if c.Only != "" && !strings.HasPrefix(c.Only, fmt.Sprintf("g%d-", j)) {
			return
		}
		rng := c.Rng(fmt.Sprintf("chunk-%d", j))
		g := newGen(rng)
		mu := &mutator{rng: rng, pool: pool}
		for i := 0; i < chunk; i++ {
			sc := stmtCase{id: fmt.Sprintf("g%d-%d", j, i)}
			if rng.Intn(100) < 55 {
				sc.source = "grammar"
				sc.sql = g.statement()
			} else {
				sc.source = "mutation"
				sc.sql = mu.mutant()
			}
			if c.Only != "" && c.Only != sc.id {
				continue
			}
			t, err, panicked, stack := safeParse(sc.sql)
			if panicked {
				c.Count("parse_panics(C07's business, not judged here)/"+core.PanicSite(stack), 1)
				c.Note("parse_panic_example", sc.sql)
				continue
			}
			if err != nil || t == nil {
				c.Count("rejected_by_parser/"+sc.source, 1)
				continue
			}
			cs := check(c, sc, t, j*chunk+i)
			account(c, sc, cs)
			if i%250 == 3 {
				c.Sample(map[string]interface{}{"id": sc.id, "source": sc.source, "sql": sc.sql, "printed": sqlparserStringSafe(t)})
			}
		}
	})
	return core.FinishOpts{
		Level: "exploration",
		Rule: "statements = scenario queries + README examples + dialect examples + every string literal of parser/sqlparser/*_test.go that parses + grammar-generated OctoSQL statements " +
			"(WITH, TVF calls with =>, TABLE(), DESCRIPTOR(), LOOKUP/STREAM/outer/natural joins, ->, ->*, ::type, [i], INTERVAL, TRIGGER lists, subqueries, file paths with options, unions) + token mutants of all of these that still parse; " +
			"non-trivial = accepted statement whose tree has at least 8 nodes; distinct by statement text",
		Floor: c.Pick(6000, 200000),
		Assumptions: []string{
			"oracle: own reflect-based tree comparison (nil slice == empty slice, Comments/Metadata/cached lowered name ignored) and print fix-point",
			"statements whose plain round trip fails are re-run with a corrected formatter for the known defective constructs they contain (sqlparser.NodeFormatter), so other differences are still reported",
			"a panic inside Parse itself is counted, not judged (the statement quantifies over accepted statements)",
		},
	}
}

func sqlparserStringSafe(t sqlparser.Statement) string {
	s, pmsg, _ := safePrint(t, nil)
	if pmsg != "" {
		return "(panics: " + pmsg + ")"
	}
	return s
}

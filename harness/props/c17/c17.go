// Package c17: triggers fire exactly when specified.
//
// R (refutation): COUNTING n: an emission for key K at a step that is not K's n-th record since
// its last fire, or no emission at such a step; ON END OF STREAM: a remaining key emitted zero or
// several times at the end (or anything emitted before the end); ON WATERMARK: at the moment W is
// forwarded some key with time <= W whose current result is not in the consolidated output, or
// (watermark-only configuration) a key with time > W present.
// O: (a) reference models of the four triggers (trigh.Model) compared with the real
// execution.Trigger objects after every Poll; (b) per-step inspection of what the real group-by
// node (planned from real SQL over a memdb table) emitted, against the model's due firings and
// against the statement's watermark clause evaluated directly on the consolidated output.
// W: (a) every event sequence over 2 keys x {record for key, watermark +1, watermark +2} of total
// length <= L optionally ended by end-of-stream, for every single trigger, every ordered pair and
// a set of triples, over six key-set variants; (b) every legal script over an 8-symbol alphabet
// up to length L' for a list of (shape, configuration) pairs, plus seeded random longer scripts
// over all 48 configurations.
package c17

import (
	"context"
	"encoding/json"
	"fmt"
	"math/rand"
	"os"
	"sort"
	"strings"
	"sync/atomic"
	"time"

	"github.com/cube2222/octosql/execution"
	"github.com/cube2222/octosql/octosql"
	"github.com/cube2222/octosql/physical"

	"github.com/cube2222/octosql/plugins/verifharness/core"
	"github.com/cube2222/octosql/plugins/verifharness/nodeh"
	"github.com/cube2222/octosql/plugins/verifharness/props/trigh"
)

func init() { core.Register("C17", Run) }

const findingKey = "watermark-trigger-time-eq"

var selftest = os.Getenv("VERIF_SELFTEST") == "1"

// A systematically broken tree would otherwise produce millions of violations (each of which
// core records): after violationCap unattributed ones the remaining cases are skipped; the
// verdict is "violated" anyway.
var violationCap int64 = 300

var unattributed int64

func report(c *core.Ctx, key, what string, replay interface{}) {
	if !c.IsKnown(key) {
		if atomic.AddInt64(&unattributed, 1) > violationCap {
			c.Count("violations_beyond_cap_not_recorded", 1)
			return
		}
	}
	c.Violation(key, what, replay)
}

func capped() bool { return atomic.LoadInt64(&unattributed) > violationCap }

// =============================================================================================
// Part (a): trigger objects against the reference models

type keyVariant struct {
	name    string
	keys    [2]execution.GroupKey
	gid     [2]string
	times   [2]time.Time
	strs    [2]string
	hasNull bool
	tIndex  int
}

// nullMark as the string component of a key stands for a NULL component: (time, NULL).
const nullMark = "<NULL>"

func mkKey(t time.Time, s string, timeFirst bool) execution.GroupKey {
	sv := octosql.NewString(s)
	if s == nullMark {
		sv = octosql.NewNull()
	}
	if timeFirst {
		return execution.GroupKey{octosql.NewTime(t), sv}
	}
	return execution.GroupKey{sv, octosql.NewTime(t)}
}

func variants() []keyVariant {
	t1, t2 := trigh.Tick(2), trigh.Tick(4)
	plus2 := trigh.LocPool[1]
	mk := func(name string, ta time.Time, sa string, tb time.Time, sb string, timeFirst bool) keyVariant {
		v := keyVariant{name: name, tIndex: 1}
		if timeFirst {
			v.tIndex = 0
		}
		v.keys = [2]execution.GroupKey{mkKey(ta, sa, timeFirst), mkKey(tb, sb, timeFirst)}
		v.gid = [2]string{trigh.GroupID(ta, sa), trigh.GroupID(tb, sb)}
		v.times = [2]time.Time{ta, tb}
		v.strs = [2]string{sa, sb}
		for i, x := range v.strs {
			if x == nullMark {
				v.strs[i] = "" // what a NULL value carries in .Str
				v.hasNull = true
			}
		}
		return v
	}
	return []keyVariant{
		mk("distinct-times", t1, "a", t2, "b", true),
		mk("same-group-two-locations", t1, "a", t1.In(plus2), "a", true),
		mk("same-time-same-location", t1, "a", t1, "b", true),
		mk("reversed-times", t2, "a", t1, "b", true),
		mk("time-second-in-key", t1, "a", t2, "b", false),
		mk("same-instant-mixed-locations", t1, "a", t1.In(plus2), "b", true),
		// a group key with a NULL component next to a non-NULL one (GROUP BY over a nullable
		// column): NULL is an ordinary group key, equal to itself
		mk("null-component", t1, nullMark, t2, "b", true),
		mk("null-component-same-time", t1, "b", t1, nullMark, true),
		mk("null-component-time-second", t2, nullMark, t1, "b", false),
	}
}

func (v keyVariant) collision() bool {
	return v.gid[0] != v.gid[1] && trigh.SameInstantDifferentRepr(v.times[0], v.times[1])
}

// identify maps a key returned by the real trigger back to a model group id without using
// octosql's comparison code.
func (v keyVariant) identify(k execution.GroupKey) string {
	if len(k) != 2 {
		return fmt.Sprintf("?len%d", len(k))
	}
	for i := 0; i < 2; i++ {
		if k[1-v.tIndex].Str == v.strs[i] && k[v.tIndex].Time.Equal(v.times[i]) {
			return v.gid[i]
		}
	}
	return "?" + trigh.GroupID(k[v.tIndex].Time, k[1-v.tIndex].Str)
}

func partAConfigs() []trigh.Config {
	singles := []trigh.Trig{{Kind: 'C', N: 1}, {Kind: 'C', N: 2}, {Kind: 'C', N: 3}, {Kind: 'C', N: 4}, {Kind: 'W'}, {Kind: 'E'}}
	var out []trigh.Config
	for _, s := range singles {
		out = append(out, trigh.Config{s})
	}
	for _, a := range singles {
		for _, b := range singles {
			out = append(out, trigh.Config{a, b})
		}
	}
	return out
}

func partATriples() []trigh.Config {
	var out []trigh.Config
	for _, c := range trigh.AllConfigs(4) {
		if len(c) == 3 {
			out = append(out, c)
		}
	}
	return out
}

// symbols of part (a): 0,1 = record for key 0/1; 2 = watermark +1 tick; 3 = watermark +2 ticks;
// 4 = end of stream (only as the last event: the node signals the end once and polls once).
func seqString(seq []byte) string {
	names := []string{"K0", "K1", "W+1", "W+2", "END"}
	parts := make([]string, len(seq))
	for i, s := range seq {
		parts[i] = names[s]
	}
	return strings.Join(parts, " ")
}

type aStats struct {
	evals, polls, nonEmptyPolls, fired, known int
}

// runSeqA replays one sequence on a fresh real trigger and a fresh model, polling after every
// event (as CustomTriggerGroupBy does) and comparing the two results as multisets.
func runSeqA(c *core.Ctx, cfg trigh.Config, v keyVariant, seq []byte, st *aStats, corrupt bool) {
	if capped() {
		return
	}
	st.evals++
	real := cfg.Prototype(v.tIndex)()
	model := trigh.NewModel(cfg)
	w := 0
	nonEmpty := false
	for i, s := range seq {
		switch s {
		case 0, 1:
			real.KeyReceived(v.keys[s])
			model.KeyReceived(v.gid[s], v.times[s])
		case 2, 3:
			w += int(s) - 1
			real.WatermarkReceived(trigh.Tick(w))
			model.WatermarkReceived(trigh.Tick(w))
		case 4:
			real.EndOfStreamReached()
			model.EndOfStreamReached()
		}
		got := real.Poll()
		want := model.Poll()
		st.polls++
		if corrupt && len(want) > 0 {
			want = want[1:] // self-test: a deliberately wrong expectation
		}
		if len(got) == 0 && len(want) == 0 {
			continue
		}
		gm := map[string]int{}
		for _, k := range got {
			gm[v.identify(k)]++
		}
		wm := map[string]int{}
		for _, k := range want {
			wm[k]++
		}
		if len(got) > 0 {
			nonEmpty = true
			st.nonEmptyPolls++
			st.fired += len(got)
		}
		if strings.Contains(cfg.Name(), "+") {
			// a combination of triggers: which keys fire at this Poll is the contract; how often
			// one key is listed when several children fire it at once is not (the node emits the
			// key's current result either way), so multiplicities are not compared here
			for k := range gm {
				gm[k] = 1
			}
			for k := range wm {
				wm[k] = 1
			}
		}
		if !sameCounts(gm, wm) {
			replay := map[string]interface{}{
				"id": "a/" + cfg.Name() + "/" + v.name + "/" + seqString(seq), "part": "trigger-object", "config": cfg.SQL(), "variant": v.name,
				"keys": []string{nodeh.RowKey(v.keys[0]), nodeh.RowKey(v.keys[1])}, "sequence": seqString(seq), "failing_event_index": i,
				"real_poll": countsString(gm), "model_poll": countsString(wm),
			}
			key := "trigger-poll-mismatch:" + cfg.Name()
			if corrupt {
				key = "selftest:" + key
			} else if cfg.Has('W') && v.collision() && subsetCounts(gm, wm) && partnerFired(gm, wm, v) {
				// predicate: two distinct group keys with the same instant in different Locations;
				// symptom: the real trigger fires a strict subset of what is due, and every key it
				// misses is one whose colliding partner it does fire in the same Poll (the two
				// share one slot of the trigger's tree; a trigger that loses keys in any other way
				// is not this finding).
				key = findingKey
				st.known++
			}
			report(c, key, fmt.Sprintf("after event #%d of [%s] real Poll = %s, reference = %s", i, seqString(seq), countsString(gm), countsString(wm)), replay)
			return
		}
	}
	if nonEmpty && len(seq) <= 5 {
		c.Nontrivial("a|" + cfg.Name() + "|" + v.name + "|" + seqString(seq))
	}
}

// runInstancesA: trigger instances made by ONE prototype must be independent of each other (a
// group-by node that is run again - the joined side of a LOOKUP JOIN, a subquery per outer
// record, a plan executed twice - calls its prototype again and must start afresh). Instance A
// gets seq; instance B, made by the same prototype, gets the same events with the two keys
// swapped and never the end of stream, interleaved event by event; after A has finished a third
// instance C gets seq again. Each instance is compared with its own fresh model after every Poll.
func runInstancesA(c *core.Ctx, cfg trigh.Config, v keyVariant, seq []byte, st *aStats) {
	if capped() {
		return
	}
	st.evals++
	proto := cfg.Prototype(v.tIndex)
	type inst struct {
		name  string
		real  execution.Trigger
		model *trigh.Model
		w     int
	}
	a := &inst{"A", proto(), trigh.NewModel(cfg), 0}
	b := &inst{"B", proto(), trigh.NewModel(cfg), 0}
	apply := func(in *inst, sym byte, i int) bool {
		switch sym {
		case 0, 1:
			in.real.KeyReceived(v.keys[sym])
			in.model.KeyReceived(v.gid[sym], v.times[sym])
		case 2, 3:
			in.w += int(sym) - 1
			in.real.WatermarkReceived(trigh.Tick(in.w))
			in.model.WatermarkReceived(trigh.Tick(in.w))
		case 4:
			in.real.EndOfStreamReached()
			in.model.EndOfStreamReached()
		}
		got := in.real.Poll()
		want := in.model.Poll()
		st.polls++
		if len(got) == 0 && len(want) == 0 {
			return true
		}
		gm := map[string]int{}
		for _, k := range got {
			gm[v.identify(k)]++
		}
		wm := map[string]int{}
		for _, k := range want {
			wm[k]++
		}
		if strings.Contains(cfg.Name(), "+") { // combinations: the set of fired keys is the contract, see runA
			for k := range gm {
				gm[k] = 1
			}
			for k := range wm {
				wm[k] = 1
			}
		}
		if sameCounts(gm, wm) {
			return true
		}
		replay := map[string]interface{}{"id": "ai/" + cfg.Name() + "/" + v.name + "/" + seqString(seq), "part": "trigger-object-instances", "config": cfg.SQL(), "variant": v.name,
			"sequence": seqString(seq), "instance": in.name, "failing_event_index": i, "real_poll": countsString(gm), "model_poll": countsString(wm)}
		report(c, "prototype-instances-not-independent:"+cfg.Name(), fmt.Sprintf("two triggers from one prototype, sequence [%s] on A interleaved with its key-swapped copy on B, then again on a third instance C: instance %s after its event #%d: real Poll = %s, reference = %s", seqString(seq), in.name, i, countsString(gm), countsString(wm)), replay)
		return false
	}
	for i, sym := range seq {
		if !apply(a, sym, i) {
			return
		}
		bs := sym
		switch sym {
		case 0:
			bs = 1
		case 1:
			bs = 0
		case 4:
			bs = 0
		}
		if !apply(b, bs, i) {
			return
		}
	}
	cc := &inst{"C", proto(), trigh.NewModel(cfg), 0}
	for i, sym := range seq {
		if !apply(cc, sym, i) {
			return
		}
	}
}

func sameCounts(a, b map[string]int) bool {
	if len(a) != len(b) {
		return false
	}
	for k, n := range a {
		if b[k] != n {
			return false
		}
	}
	return true
}

func subsetCounts(a, b map[string]int) bool {
	for k, n := range a {
		if b[k] < n {
			return false
		}
	}
	return true
}

// partnerFired: every key missing from the real result (model - real) has its partner (the other
// key of the variant) in the real result.
func partnerFired(real, model map[string]int, v keyVariant) bool {
	for k, n := range model {
		if real[k] >= n {
			continue
		}
		partner := v.gid[0]
		if k == v.gid[0] {
			partner = v.gid[1]
		}
		if real[partner] == 0 {
			return false
		}
	}
	return true
}

func countsString(m map[string]int) string {
	ks := make([]string, 0, len(m))
	for k := range m {
		ks = append(ks, k)
	}
	sort.Strings(ks)
	parts := make([]string, len(ks))
	for i, k := range ks {
		parts[i] = fmt.Sprintf("%s x%d", k, m[k])
	}
	return "{" + strings.Join(parts, "; ") + "}"
}

// enumerateA calls fn for every sequence of total length <= L: bodies over symbols 0..3, each
// with and without a final END.
func enumerateA(L int, fn func(seq []byte)) int {
	n := 0
	seq := make([]byte, 0, L+1)
	var rec func()
	rec = func() {
		if len(seq) > 0 {
			fn(seq)
			n++
		}
		if len(seq) < L {
			seq = append(seq, 4)
			fn(seq)
			n++
			seq = seq[:len(seq)-1]
			for s := byte(0); s < 4; s++ {
				seq = append(seq, s)
				rec()
				seq = seq[:len(seq)-1]
			}
		}
	}
	rec()
	return n
}

func partA(c *core.Ctx) {
	L := c.Pick(7, 8)
	Ltriple := c.Pick(5, 6)
	vs := variants()
	type job struct {
		cfg trigh.Config
		v   keyVariant
		L   int
	}
	var jobs []job
	add := func(cfgs []trigh.Config, L int) {
		for _, cfg := range cfgs {
			for i, v := range vs {
				// key times only matter to the watermark trigger: the other configurations get
				// the first two variants.
				if !cfg.Has('W') && i >= 2 && v.name != "null-component" {
					continue
				}
				jobs = append(jobs, job{cfg, v, L})
			}
		}
	}
	add(partAConfigs(), L)
	add(partATriples(), Ltriple)
	if c.Only != "" {
		// id = a/<config>/<variant>/<sequence>
		parts := strings.SplitN(c.Only, "/", 4)
		if len(parts) == 4 && parts[0] == "a" {
			for _, j := range jobs {
				if j.cfg.Name() == parts[1] && j.v.name == parts[2] {
					var seq []byte
					for _, w := range strings.Fields(parts[3]) {
						for code, name := range []string{"K0", "K1", "W+1", "W+2", "END"} {
							if w == name {
								seq = append(seq, byte(code))
							}
						}
					}
					st := &aStats{}
					runSeqA(c, j.cfg, j.v, seq, st, false)
					c.Eval(st.evals)
					return
				}
			}
		}
		return
	}
	seqsPerJob := make([]int, len(jobs))
	core.Parallel(len(jobs), 16, func(i int) {
		j := jobs[i]
		st := &aStats{}
		idx := 0
		seqsPerJob[i] = enumerateA(j.L, func(seq []byte) {
			idx++
			corrupt := selftest && idx%9973 == 0
			runSeqA(c, j.cfg, j.v, seq, st, corrupt)
		})
		// instances of one prototype (all variants but the colliding one, whose single-instance
		// behaviour is what the former finding was about)
		before := st.evals
		if !j.v.collision() {
			Li := j.L - 2
			enumerateA(Li, func(seq []byte) { runInstancesA(c, j.cfg, j.v, seq, st) })
		}
		c.Count("a/instance_interleavings", st.evals-before)
		c.Eval(st.evals)
		kind := "single"
		if len(j.cfg) == 2 {
			kind = "pair"
		} else if len(j.cfg) == 3 {
			kind = "triple"
		}
		c.Count("a/sequences/"+kind, st.evals)
		c.Count("a/polls_compared", st.polls)
		c.Count("a/polls_nonempty", st.nonEmptyPolls)
		c.Count("a/keys_fired", st.fired)
		c.Count("a/variant/"+j.v.name, st.evals)
	})
	c.Note("a_exhaustive_bound", fmt.Sprintf("all event sequences over {K0,K1,W+1,W+2} of total length <= %d (triples: <= %d), each also ended by END; poll after every event", L, Ltriple))
	c.Note("a_configurations", len(jobs))
	if len(seqsPerJob) > 0 {
		c.Note("a_sequences_per_configuration", seqsPerJob[0])
	}
	c.Sample(map[string]interface{}{"part": "trigger-object", "config": "COUNTING 2, ON WATERMARK", "variant": "distinct-times",
		"sequence": "K0 K0 W+2 K1 END", "note": "each event is followed by Poll on the real trigger and on the model; results compared as multisets"})
}

// =============================================================================================
// Part (b): node level

// A shape is a query skeleton plus how its output rows are laid out.
type shape struct {
	name      string
	sel       string // select list + FROM + GROUP BY (TRIGGER clause appended)
	timeField int    // of the table
	keyCols   int
	timeCol   int // position of ts among the key columns, -1 if the key has no time
	allowsW   bool
	// countV: the count column is COUNT(v) over the nullable v instead of COUNT(*), so every
	// aggregate argument of a NULL-only group is NULL; the group must still be emitted, as
	// (key, NULL, NULL)
	countV bool
}

var shapes = map[string]shape{
	"tk":  {"tk", "SELECT ts, k, COUNT(*) AS c, SUM(v) AS s FROM m.t GROUP BY ts, k", 1, 2, 0, true, false},
	"kt":  {"kt", "SELECT k, ts, COUNT(*) AS c, SUM(v) AS s FROM m.t GROUP BY k, ts", 1, 2, 1, true, false},
	"k":   {"k", "SELECT k, COUNT(*) AS c, SUM(v) AS s FROM m.t GROUP BY k", 1, 1, -1, false, false},
	"k0":  {"k0", "SELECT k, COUNT(*) AS c, SUM(v) AS s FROM m.t GROUP BY k", -1, 1, -1, false, false},
	"k0v": {"k0v", "SELECT k, COUNT(v) AS c, SUM(v) AS s FROM m.t GROUP BY k", -1, 1, -1, false, true},
	"tkv": {"tkv", "SELECT ts, k, COUNT(v) AS c, SUM(v) AS s FROM m.t GROUP BY ts, k", 1, 2, 0, true, true},
}

var tableFields = []physical.SchemaField{
	{Name: "k", Type: octosql.String},
	{Name: "ts", Type: octosql.Time},
	{Name: "v", Type: octosql.TypeSum(octosql.Int, octosql.Null)},
}

// rec is one input record of a script: row (k, ts, v), sign; the event time is ts (shape k0: none).
type rec struct {
	k    string
	tick int
	loc  *time.Location
	v    int
	null bool // v is NULL
	retr bool
}

type ev struct {
	isWM bool
	wm   int // tick
	r    rec
}

func (e ev) String() string {
	if e.isWM {
		return fmt.Sprintf("~%d", e.wm)
	}
	sign := "+"
	if e.r.retr {
		sign = "-"
	}
	loc := ""
	if e.r.loc != nil && e.r.loc != time.UTC {
		loc = "[" + trigh.LocName(e.r.loc) + "]"
	}
	if e.r.null {
		return fmt.Sprintf("%s(%s,%d%s,NULL)", sign, e.r.k, e.r.tick, loc)
	}
	return fmt.Sprintf("%s(%s,%d%s,%d)", sign, e.r.k, e.r.tick, loc, e.r.v)
}

func evsString(evs []ev) string {
	parts := make([]string, len(evs))
	for i, e := range evs {
		parts[i] = e.String()
	}
	return strings.Join(parts, " ")
}

func (r rec) time() time.Time {
	t := trigh.Tick(r.tick)
	if r.loc != nil {
		t = t.In(r.loc)
	}
	return t
}

func toEvents(evs []ev, sh shape) []nodeh.Event {
	out := make([]nodeh.Event, len(evs))
	for i, e := range evs {
		if e.isWM {
			out[i] = nodeh.WM(trigh.Tick(e.wm))
			continue
		}
		t := e.r.time()
		et := t
		if sh.timeField == -1 {
			et = time.Time{}
		}
		v := octosql.NewInt(int64(e.r.v))
		if e.r.null {
			v = octosql.NewNull()
		}
		out[i] = nodeh.Rec([]octosql.Value{octosql.NewString(e.r.k), octosql.NewTime(t), v}, e.r.retr, et)
	}
	return out
}

// ---- reference simulation ----

type group struct {
	k     string
	tick  int
	count int
	nn    int // records with a non-NULL v (signed)
	sum   int
}

type sim struct {
	sh       shape
	steps    int                          // len(evs)+1 (the last step is end of stream)
	due      []map[string][]string        // per step: group id -> states (row key or "" = no row) due to be emitted, in order
	seen     []map[string]map[string]bool // per step: group id -> states the group had during the step
	endState []map[string]string          // per step: group id -> row at the end of the step (absent = no row)
	gTick    map[string]int               // group id -> tick of its time component (shapes with a time key)
	gTimes   map[string][]time.Time       // group id -> time values received (for the collision predicate)
	gRest    map[string]string
}

func (s *sim) gid(r rec) string {
	if s.sh.timeCol == -1 {
		return nodeh.RowKey([]octosql.Value{octosql.NewString(r.k)})
	}
	if s.sh.timeCol == 0 {
		return nodeh.RowKey([]octosql.Value{octosql.NewTime(trigh.Tick(r.tick)), octosql.NewString(r.k)})
	}
	return nodeh.RowKey([]octosql.Value{octosql.NewString(r.k), octosql.NewTime(trigh.Tick(r.tick))})
}

func (s *sim) row(g *group) string {
	var vals []octosql.Value
	switch s.sh.timeCol {
	case -1:
		vals = []octosql.Value{octosql.NewString(g.k)}
	case 0:
		vals = []octosql.Value{octosql.NewTime(trigh.Tick(g.tick)), octosql.NewString(g.k)}
	default:
		vals = []octosql.Value{octosql.NewString(g.k), octosql.NewTime(trigh.Tick(g.tick))}
	}
	// SUM over no non-NULL input is NULL; COUNT(*) counts every record
	sum := octosql.NewNull()
	if g.nn > 0 {
		sum = octosql.NewInt(int64(g.sum))
	}
	cnt := octosql.NewInt(int64(g.count))
	if s.sh.countV {
		cnt = octosql.NewNull()
		if g.nn > 0 {
			cnt = octosql.NewInt(int64(g.nn))
		}
	}
	vals = append(vals, cnt, sum)
	return nodeh.RowKey(vals)
}

// simulate derives, from the statement's reading of the three triggers (trigh.Model) and the
// event-time buffer's contract (a record with a non-zero event time is handed to the group-by
// when a watermark >= its time arrives or the stream ends, in event-time order, arrival order
// within one instant), which group states are due to be emitted at which input step.
func simulate(cfg trigh.Config, sh shape, evs []ev) *sim {
	m := len(evs)
	s := &sim{sh: sh, steps: m + 1, gTick: map[string]int{}, gTimes: map[string][]time.Time{}, gRest: map[string]string{}}
	s.due = make([]map[string][]string, m+1)
	s.seen = make([]map[string]map[string]bool, m+1)
	s.endState = make([]map[string]string, m+1)
	mcfg := cfg
	if len(mcfg) == 0 {
		mcfg = trigh.Config{{Kind: 'E'}}
	}
	model := trigh.NewModel(mcfg)
	groups := map[string]*group{}
	type buffered struct {
		r   rec
		seq int
	}
	var buf []buffered
	state := func(g string) string {
		if gr, ok := groups[g]; ok {
			return s.row(gr)
		}
		return ""
	}
	for step := 0; step <= m; step++ {
		s.due[step] = map[string][]string{}
		s.seen[step] = map[string]map[string]bool{}
		note := func(g string) {
			if s.seen[step][g] == nil {
				s.seen[step][g] = map[string]bool{}
			}
			s.seen[step][g][state(g)] = true
		}
		for g := range s.gRest {
			note(g)
		}
		fire := func() {
			for _, g := range model.Poll() {
				s.due[step][g] = append(s.due[step][g], state(g))
			}
		}
		deliver := func(r rec) {
			g := s.gid(r)
			if _, ok := s.gRest[g]; !ok {
				s.gRest[g] = r.k
				s.gTick[g] = r.tick
				note(g) // state before the first record: no row
			}
			s.gTimes[g] = append(s.gTimes[g], r.time())
			gr := groups[g]
			if gr == nil {
				gr = &group{k: r.k, tick: r.tick}
				groups[g] = gr
			}
			d := 1
			if r.retr {
				d = -1
			}
			gr.count += d
			if !r.null {
				gr.nn += d
				gr.sum += d * r.v
			}
			if gr.count == 0 {
				delete(groups, g)
			}
			note(g)
			model.KeyReceived(g, trigh.Tick(r.tick))
			fire()
		}
		release := func(upTo int, all bool) {
			sort.SliceStable(buf, func(i, j int) bool { return buf[i].r.tick < buf[j].r.tick })
			n := 0
			for n < len(buf) && (all || buf[n].r.tick <= upTo) {
				deliver(buf[n].r)
				n++
			}
			buf = buf[n:]
		}
		if step < m {
			e := evs[step]
			if e.isWM {
				release(e.wm, false)
				model.WatermarkReceived(trigh.Tick(e.wm))
				fire()
			} else if sh.timeField == -1 {
				deliver(e.r)
			} else {
				buf = append(buf, buffered{e.r, step})
			}
		} else {
			release(0, true)
			model.EndOfStreamReached()
			fire()
		}
		s.endState[step] = map[string]string{}
		for g := range groups {
			s.endState[step][g] = state(g)
		}
	}
	return s
}

// ---- judging one run ----

type caseB struct {
	id   string
	cfg  trigh.Config
	sh   shape
	evs  []ev
	kind string // "ex" | "rnd" | ...
	alt  []ev   // if set: a different script for a further run of the same plan
	// lookup: the triggered group-by is the joined side of a LOOKUP JOIN with 3 left rows, so
	// octosql itself runs the same group-by node three times within one query
	lookup bool
}

type failure struct {
	kind string // due-missing | not-due | not-current | wm-missing | wm-stale | wm-beyond | exact-mismatch
	gid  string
	step int
	what string
}

func outKeyID(sh shape, o nodeh.Out) string {
	if len(o.Record.Values) < sh.keyCols {
		return "?short"
	}
	return nodeh.RowKey(o.Record.Values[:sh.keyCols])
}

var leftIDs = []int64{7, 8, 9}

func leftTable() *nodeh.Table {
	var evs []nodeh.Event
	for _, id := range leftIDs {
		evs = append(evs, nodeh.Rec([]octosql.Value{octosql.NewInt(id)}, false, time.Time{}))
	}
	return &nodeh.Table{Fields: []physical.SchemaField{{Name: "id", Type: octosql.Int}}, TimeField: -1, Events: evs}
}

func lookupSQL(sh shape, cfg trigh.Config) string {
	cols := map[string]string{"tk": "g.ts AS ts, g.k AS k", "kt": "g.k AS k, g.ts AS ts", "k": "g.k AS k", "k0": "g.k AS k"}[sh.name]
	return "SELECT o.id AS id, " + cols + ", g.c AS c, g.s AS s FROM m.o o LOOKUP JOIN (" + sh.sel + cfg.Clause() + ") g"
}

// judgeB plans the case's query ONCE and judges every execution of the triggered group-by node:
// the first run, a second run of the same materialized plan over the same script, and (if the
// case has one) a third run over a different script; for lookup cases the single execution of
// the query in which octosql runs the group-by once per left row. Each run is judged with the
// full per-step oracle: a node that is run again must behave as on its first run.
func judgeB(c *core.Ctx, cs caseB, corruptMode int) {
	if capped() {
		return
	}
	sql := cs.sh.sel + cs.cfg.Clause()
	var extra map[string]*nodeh.Table
	if cs.lookup {
		sql = lookupSQL(cs.sh, cs.cfg)
		extra = map[string]*nodeh.Table{"o": leftTable()}
	}
	h, perr := trigh.PlanSteps(context.Background(), sql, tableFields, cs.sh.timeField, true, extra)
	if perr != nil {
		c.Eval(1)
		report(c, "plan-error:"+perr.Stage, "query was rejected: "+perr.Error(), map[string]interface{}{"id": cs.id, "sql": sql})
		return
	}
	if cs.lookup {
		events := toEvents(cs.evs, cs.sh)
		outs, res := h.Run(context.Background(), events)
		replay := map[string]interface{}{"id": cs.id, "part": "node-lookup-join", "sql": sql, "shape": cs.sh.name, "input": evsString(cs.evs), "left_rows": len(leftIDs), "output": nodeh.OutsString(outs)}
		if res.Panicked || res.Err != nil {
			judgeRun(c, cs, cs.evs, sql, events, outs, res, "lookup", 0)
			return
		}
		if h.Starts() != len(leftIDs) {
			c.Count("b/not_judged_lookup_right_side_start_count_differs", 1)
			return
		}
		for r := 0; r < h.Starts(); r++ {
			var sub []nodeh.Out
			for _, o := range outs {
				if o.Step/h.Stride != r {
					continue
				}
				o2 := o
				o2.Step = o.Step % h.Stride
				if !o.IsWatermark {
					if len(o.Record.Values) < 2 || o.Record.Values[0].Int != leftIDs[r] {
						c.Eval(1)
						report(c, "lookup-join-row-of-wrong-left-record", fmt.Sprintf("record %s emitted during the joined side's run #%d does not carry left id %d", o.String(), r, leftIDs[r]), replay)
						return
					}
					o2.Record.Values = o.Record.Values[1:]
				}
				sub = append(sub, o2)
			}
			label := "lookup-first"
			if r > 0 {
				label = fmt.Sprintf("lookup-rerun%d", r)
			}
			if !judgeRun(c, cs, cs.evs, sql, events, sub, res, label, 0) {
				return
			}
		}
		return
	}
	type run struct {
		evs   []ev
		label string
	}
	runs := []run{{cs.evs, ""}, {cs.evs, "rerun-same-script"}}
	if cs.alt != nil {
		runs = append(runs, run{cs.alt, "rerun-other-script"})
	}
	for i, r := range runs {
		events := toEvents(r.evs, cs.sh)
		outs, res := h.Run(context.Background(), events)
		mode := 0
		if i == 0 {
			mode = corruptMode
		}
		if !judgeRun(c, cs, r.evs, sql, events, outs, res, r.label, mode) {
			return
		}
	}
}

// judgeRun judges one execution; label "" = first run of a freshly planned query. It returns
// false if the run was not clean (the remaining runs of that plan are then skipped).
func judgeRun(c *core.Ctx, cs caseB, script []ev, sql string, events []nodeh.Event, outs []nodeh.Out, res nodeh.RunResult, label string, corruptMode int) bool {
	corrupt := corruptMode != 0
	c.Eval(1)
	cs.evs = script
	replay := map[string]interface{}{"id": cs.id, "part": "node", "sql": sql, "shape": cs.sh.name, "input": evsString(cs.evs), "input_events": nodeh.EventsString(events)}
	if label != "" {
		replay["run"] = label
	}
	replay["output"] = nodeh.OutsString(outs)
	if res.Panicked {
		report(c, "panic:"+core.PanicSite(res.Stack), "group-by panicked: "+res.PanicMsg, replay)
		return false
	}
	if res.Err != nil {
		report(c, "error", "query returned error: "+res.Err.Error(), replay)
		return false
	}
	if corruptMode == 1 {
		// self-test: corrupt the recording (drop the last emitted record) - the oracle must fire
		for i := len(outs) - 1; i >= 0; i-- {
			if !outs[i].IsWatermark {
				outs = append(append([]nodeh.Out{}, outs[:i]...), outs[i+1:]...)
				break
			}
		}
		replay["selftest"] = "last output record dropped from the recording"
	}
	if corruptMode == 2 {
		// self-test: a recording as a group-by that polls AFTER forwarding the watermark would
		// produce it (each watermark moved in front of the records of its step)
		var re []nodeh.Out
		for i := 0; i < len(outs); {
			j := i
			for j < len(outs) && outs[j].Step == outs[i].Step {
				j++
			}
			for _, o := range outs[i:j] {
				if o.IsWatermark {
					re = append(re, o)
				}
			}
			for _, o := range outs[i:j] {
				if !o.IsWatermark {
					re = append(re, o)
				}
			}
			i = j
		}
		outs = re
		replay["selftest"] = "watermarks moved in front of the records of their step"
	}
	s := simulate(cs.cfg, cs.sh, cs.evs)
	m := len(cs.evs)
	var fails []failure

	// observed: per step, per key, the signed rows in emission order
	type orec struct {
		retr bool
		row  string
	}
	obs := make([]map[string][]orec, m+1)
	for i := range obs {
		obs[i] = map[string][]orec{}
	}
	bad := false
	for _, o := range outs {
		if o.IsWatermark {
			continue
		}
		if o.Step < 0 || o.Step > m {
			bad = true
			continue
		}
		g := outKeyID(cs.sh, o)
		obs[o.Step][g] = append(obs[o.Step][g], orec{o.Record.Retraction, nodeh.RowKey(o.Record.Values)})
	}
	if bad {
		c.Inconclusive("step-attribution")
		return false
	}
	single := len(cs.cfg) <= 1
	exact := single && !cs.cfg.Has('W')
	sent := map[string]string{}
	emissions, dueTotal := 0, 0
	for step := 0; step <= m; step++ {
		gids := map[string]bool{}
		for g := range obs[step] {
			gids[g] = true
		}
		for g := range s.due[step] {
			gids[g] = true
		}
		for _, g := range sortedSet(gids) {
			due := s.due[step][g]
			got := obs[step][g]
			dueTotal += len(due)
			emissions += len(got)
			// (1) nothing is emitted for a key no trigger fired in this step. Judged where the
			// statement says so: single COUNTING n ("an emission at a step that is not the n-th
			// record") and single END OF STREAM ("once, at the end"). In a multi-trigger,
			// re-emissions of an unchanged row are explicitly not violations (DESIGN 3.4); in the
			// watermark-only configuration the statement forbids keys BEYOND the watermark only.
			if exact && len(due) == 0 && len(got) > 0 {
				fails = append(fails, failure{"not-due", g, step, fmt.Sprintf("step %d: %d record(s) emitted for key %s although no trigger was due for it", step, len(got), g)})
			}
			if !single {
				// multi-trigger: re-emissions of an unchanged row are tolerated (DESIGN 3.4), but
				// every CHANGE of the emitted result must be one of the due firings, in order:
				// the rows inserted for the key in this step, consecutive repetitions dropped,
				// must be exactly the due results, consecutive repetitions dropped; and the key
				// must end the step on the last due result (or unchanged if nothing was due).
				dedupe := func(start string, xs []string) []string {
					var out []string
					prev := start
					for _, x := range xs {
						if x == "" || x == prev {
							continue
						}
						out = append(out, x)
						prev = x
					}
					return out
				}
				var ins []string
				cur := sent[g]
				for _, r := range got {
					if r.retr {
						cur = ""
					} else {
						cur = r.row
						ins = append(ins, r.row)
					}
				}
				wantSeq := dedupe(sent[g], due)
				gotSeq := dedupe(sent[g], ins)
				same := len(wantSeq) == len(gotSeq)
				for i := 0; same && i < len(wantSeq); i++ {
					same = wantSeq[i] == gotSeq[i]
				}
				final := sent[g]
				if len(due) > 0 {
					final = due[len(due)-1]
				}
				if !same || cur != final {
					kind := "changes-mismatch"
					if len(due) == 0 {
						kind = "not-due-changed"
					}
					fails = append(fails, failure{kind, g, step, fmt.Sprintf("step %d key %s (sent so far: %q): results due in this step %v, the node emitted %v (changes of the emitted result must be exactly the due firings)", step, g, sent[g], due, got)})
				}
			}
			if single && cs.cfg.Has('W') && step < m && len(got) > 0 {
				// watermark-only: before the end, a key may be emitted only in the step of a
				// watermark that has reached its time
				e := cs.evs[step]
				if !e.isWM || s.gTick[g] > e.wm {
					fails = append(fails, failure{"wm-beyond", g, step, fmt.Sprintf("step %d (%s): key %s emitted although no watermark has reached its time (watermark-only configuration)", step, e.String(), g)})
				}
			}
			// (2) every inserted row is a result the key had during this step
			traj := []string{sent[g]}
			cur := sent[g]
			for _, r := range got {
				if r.retr {
					if r.row != cur {
						c.Count("b/not_judged_retraction_of_row_not_currently_sent", 1)
					}
					cur = ""
				} else {
					if !s.seen[step][g][r.row] {
						fails = append(fails, failure{"not-current", g, step, fmt.Sprintf("step %d: emitted %s which is not a result key %s had during this step", step, r.row, g)})
					}
					cur = r.row
				}
				traj = append(traj, cur)
			}
			// (3) the due results appear, in order
			if len(due) > 0 {
				i := 0
				// one emitted state satisfies consecutive firings that were due with that same state
				for _, st := range traj {
					for i < len(due) && st == due[i] {
						i++
					}
				}
				if i < len(due) {
					fails = append(fails, failure{"due-missing", g, step, fmt.Sprintf("step %d: key %s was due with result(s) %v, emitted sequence left it at %v", step, g, due, traj)})
				}
			}
			// (4) single COUNTING n / END OF STREAM: exactly the due emissions, nothing else
			if exact {
				var want []orec
				prev := sent[g]
				for _, st := range due {
					if prev != "" {
						want = append(want, orec{true, prev})
					}
					if st != "" {
						want = append(want, orec{false, st})
					}
					prev = st
				}
				same := len(want) == len(got)
				for i := 0; same && i < len(want); i++ {
					same = want[i] == got[i]
				}
				if !same {
					fails = append(fails, failure{"exact-mismatch", g, step, fmt.Sprintf("step %d key %s: emitted %v, the single trigger demands exactly %v", step, g, got, want)})
				}
			}
			sent[g] = cur
		}
	}
	// (5) the watermark clause, evaluated directly on the consolidated output at the moment each
	// watermark is forwarded
	forwarded := 0
	if cs.cfg.Has('W') {
		for n, o := range outs {
			if !o.IsWatermark {
				continue
			}
			forwarded++
			if o.Step < 0 || o.Step >= m {
				continue
			}
			W := o.Watermark
			cons := map[string]int{} // row -> multiplicity
			rowKey := map[string]string{}
			rowTime := map[string]time.Time{}
			for _, p := range outs[:n] {
				if p.IsWatermark {
					continue
				}
				rk := nodeh.RowKey(p.Record.Values)
				if p.Record.Retraction {
					cons[rk]--
				} else {
					cons[rk]++
				}
				rowKey[rk] = outKeyID(cs.sh, p)
				rowTime[rk] = p.Record.Values[cs.sh.timeCol].Time
			}
			present := map[string][]string{} // gid -> rows present
			for rk, mult := range cons {
				for i := 0; i < mult; i++ {
					present[rowKey[rk]] = append(present[rowKey[rk]], rk)
				}
				if mult < 0 {
					present[rowKey[rk]] = append(present[rowKey[rk]], "NEGATIVE "+rk)
				}
				if mult > 0 && rowTime[rk].After(W) && single {
					fails = append(fails, failure{"wm-beyond", rowKey[rk], o.Step, fmt.Sprintf("watermark %s forwarded at step %d: key %s lies beyond it but is present in the output (watermark-only configuration)", nodeh.FmtTime(W), o.Step, rowKey[rk])})
				}
			}
			for g, tick := range s.gTick {
				if trigh.Tick(tick).After(W) {
					continue
				}
				want := s.endState[o.Step][g]
				have := present[g]
				switch {
				case want == "" && len(have) == 0:
				case want != "" && len(have) == 1 && have[0] == want:
				case want != "" && len(have) == 0:
					fails = append(fails, failure{"wm-missing", g, o.Step, fmt.Sprintf("watermark %s forwarded at step %d: key %s (time <= watermark) has current result %s but the output holds nothing for it", nodeh.FmtTime(W), o.Step, g, want)})
				default:
					fails = append(fails, failure{"wm-stale", g, o.Step, fmt.Sprintf("watermark %s forwarded at step %d: key %s (time <= watermark) has current result %q, the output holds %v", nodeh.FmtTime(W), o.Step, g, want, have)})
				}
			}
		}
		nIn := 0
		for _, e := range cs.evs {
			if e.isWM {
				nIn++
			}
		}
		if forwarded == nIn {
			c.Count("b/watermarks_forwarded_all", 1)
		} else {
			c.Count("b/not_judged_watermark_count_differs", 1)
		}
	}

	if len(fails) > 0 {
		// classification by input predicate + symptom
		colliding := map[string]bool{}
		if cs.sh.timeCol >= 0 {
			for g1, ts1 := range s.gTimes {
				for g2, ts2 := range s.gTimes {
					if g1 == g2 {
						continue
					}
					for _, t1 := range ts1 {
						for _, t2 := range ts2 {
							if trigh.SameInstantDifferentRepr(t1, t2) {
								colliding[g1] = true
								colliding[g2] = true
							}
						}
					}
				}
			}
		}
		byKey := map[string][]failure{}
		for _, f := range fails {
			key := f.kind + ":" + cs.cfg.Name() + "@" + cs.sh.name
			if label != "" {
				// the first run of this plan was clean: the node does not start afresh
				key = "rerun-differs:" + key
			}
			if corrupt {
				key = fmt.Sprintf("selftest%d:%s", corruptMode, f.kind)
			} else if cs.cfg.Has('W') && colliding[f.gid] && (f.kind == "due-missing" || f.kind == "wm-missing" || f.kind == "wm-stale") {
				key = findingKey
			}
			byKey[key] = append(byKey[key], f)
		}
		for _, key := range sortedKeysF(byKey) {
			fs := byKey[key]
			replay["failures"] = len(fs)
			report(c, key, fs[0].what, replay)
		}
		return false
	}
	if label != "" {
		c.Count("b/reruns_judged/"+strings.TrimRight(label, "0123456789"), 1)
		return true
	}

	// coverage
	nRec, nRetr, nWM := 0, 0, 0
	for _, e := range cs.evs {
		if e.isWM {
			nWM++
		} else {
			nRec++
			if e.r.retr {
				nRetr++
			}
		}
	}
	if cs.kind == "rnd" {
		c.Count("b/rnd/shape/"+cs.sh.name, 1)
		c.Count("b/rnd/config/"+cs.cfg.Name(), 1)
	} else if cs.kind == "ex" || cs.kind == "exmix" {
		c.Count("b/"+cs.kind+"/"+cs.sh.name+"/"+cs.cfg.Name(), 1)
	} else {
		c.Count("b/"+cs.kind+"/"+cs.sh.name, 1)
	}
	c.Count("b/due_firings_checked", dueTotal)
	c.Count("b/output_records_attributed", emissions)
	beforeEnd := 0
	for step := 0; step < m; step++ {
		for _, d := range s.due[step] {
			beforeEnd += len(d)
		}
	}
	if beforeEnd > 0 {
		c.Count("b/cases_with_firing_before_end", 1)
	}
	if nRec >= 2 && dueTotal >= 1 && emissions >= 1 {
		c.Nontrivial("b|" + cs.sh.name + "|" + cs.cfg.Name() + "|" + evsString(cs.evs))
		if nRetr > 0 {
			c.Count("b/nontrivial_with_retraction", 1)
		}
		if nWM > 0 {
			c.Count("b/nontrivial_with_watermark", 1)
		}
	}
	if h := core.Hash(cs.id); h[0] == '0' && h[1] < '4' {
		c.Sample(replay)
	}
	return true
}

func sortedSet(m map[string]bool) []string {
	out := make([]string, 0, len(m))
	for k := range m {
		out = append(out, k)
	}
	sort.Strings(out)
	return out
}

func sortedKeysF(m map[string][]failure) []string {
	out := make([]string, 0, len(m))
	for k := range m {
		out = append(out, k)
	}
	sort.Strings(out)
	return out
}

// ---- exhaustive scripts ----

// symbols: 0 +a@w+1, 1 +a@w+2, 2 +b@w+1, 3 +b@w+2, 4 -a, 5 -b (the most recently inserted row of
// that k that is still present and whose time is beyond the watermark), 6 watermark +1, 7 watermark +2.
// locB is the Location of the time values of k = b (the finding's predicate needs two locations).
func enumerateB(L int, locB *time.Location, nullB bool, fn func(evs []ev)) int {
	n := 0
	var evs []ev
	type ins struct {
		tick int
		v    int
	}
	present := map[string][]ins{}
	w := 0
	var rec func()
	rec = func() {
		if len(evs) > 0 {
			cp := make([]ev, len(evs))
			copy(cp, evs)
			fn(cp)
			n++
		}
		if len(evs) == L {
			return
		}
		for sym := 0; sym < 8; sym++ {
			switch {
			case sym < 4:
				k := "a"
				ki := 0
				var loc *time.Location
				if sym >= 2 {
					k, ki, loc = "b", 1, locB
				}
				tick := w + 1 + sym%2
				v := tick*10 + ki + 1
				evs = append(evs, ev{r: rec0(k, tick, loc, v, false, nullB && k == "b")})
				present[k] = append(present[k], ins{tick, v})
				rec()
				present[k] = present[k][:len(present[k])-1]
				evs = evs[:len(evs)-1]
			case sym < 6:
				k := "a"
				var loc *time.Location
				if sym == 5 {
					k, loc = "b", locB
				}
				p := present[k]
				idx := -1
				for i := len(p) - 1; i >= 0; i-- {
					if p[i].tick > w {
						idx = i
						break
					}
				}
				if idx == -1 {
					continue
				}
				it := p[idx]
				saved := append([]ins{}, p...)
				present[k] = append(append([]ins{}, p[:idx]...), p[idx+1:]...)
				evs = append(evs, ev{r: rec0(k, it.tick, loc, it.v, true, nullB && k == "b")})
				rec()
				evs = evs[:len(evs)-1]
				present[k] = saved
			default:
				d := sym - 5
				if w+d > 6 {
					continue
				}
				w += d
				evs = append(evs, ev{isWM: true, wm: w})
				rec()
				evs = evs[:len(evs)-1]
				w -= d
			}
		}
	}
	rec()
	return n
}

func rec0(k string, tick int, loc *time.Location, v int, retr bool, null bool) rec {
	return rec{k: k, tick: tick, loc: loc, v: v, retr: retr, null: null}
}

type shapeCfg struct {
	sh  string
	cfg trigh.Config
	L   int // 0: default length
}

func C(n int) trigh.Trig { return trigh.Trig{Kind: 'C', N: n} }

var (
	W = trigh.Trig{Kind: 'W'}
	E = trigh.Trig{Kind: 'E'}
)

func partBList(Lcore, Lrest int) []shapeCfg {
	return []shapeCfg{
		{"k0", trigh.Config{C(1)}, Lrest}, {"k0", trigh.Config{C(2)}, Lcore}, {"k0", trigh.Config{C(3)}, Lrest}, {"k0", trigh.Config{C(4)}, Lrest},
		{"k0", trigh.Config{E}, Lrest}, {"k0", trigh.Config{}, Lrest}, {"k0", trigh.Config{C(2), E}, Lrest}, {"k0", trigh.Config{E, C(3)}, Lrest},
		{"k", trigh.Config{C(1)}, Lrest}, {"k", trigh.Config{C(2)}, Lcore}, {"k", trigh.Config{C(3)}, Lrest}, {"k", trigh.Config{C(4)}, Lrest},
		{"k", trigh.Config{C(2), E}, Lrest}, {"k", trigh.Config{E}, Lrest},
		{"tk", trigh.Config{C(1)}, Lrest}, {"tk", trigh.Config{C(2)}, Lrest}, {"tk", trigh.Config{C(3)}, Lrest},
		{"tk", trigh.Config{W}, Lcore}, {"tk", trigh.Config{E}, Lrest}, {"tk", trigh.Config{}, Lrest},
		{"tk", trigh.Config{C(2), W}, Lcore}, {"tk", trigh.Config{W, C(2)}, Lrest}, {"tk", trigh.Config{C(3), W}, Lrest},
		{"tk", trigh.Config{W, E}, Lrest}, {"tk", trigh.Config{E, W}, Lrest}, {"tk", trigh.Config{C(2), E}, Lrest},
		{"tk", trigh.Config{C(2), W, E}, Lrest}, {"tk", trigh.Config{E, W, C(1)}, Lrest}, {"tk", trigh.Config{W, C(4), E}, Lrest},
		{"kt", trigh.Config{W}, Lrest}, {"kt", trigh.Config{C(2), W}, Lrest}, {"kt", trigh.Config{W, C(3), E}, Lrest},
	}
}

func partB(c *core.Ctx) {
	Lcore := c.Pick(5, 6)
	Lrest := c.Pick(4, 5)
	list := partBList(Lcore, Lrest)
	scripts := map[int][][]ev{}
	for _, L := range []int{Lcore, Lrest, 4} {
		if scripts[L] == nil {
			var all [][]ev
			enumerateB(L, nil, false, func(evs []ev) { all = append(all, evs) })
			scripts[L] = all
		}
	}
	c.Note("b_exhaustive_scripts", map[string]int{fmt.Sprintf("len<=%d", Lcore): len(scripts[Lcore]), fmt.Sprintf("len<=%d", Lrest): len(scripts[Lrest])})
	c.Note("b_exhaustive_bound", fmt.Sprintf("all legal scripts over {+a@w+1,+a@w+2,+b@w+1,+b@w+2,-a,-b,W+1,W+2} of length <= %d (core configurations) / <= %d (the others), %d (shape, configuration) pairs", Lcore, Lrest, len(list)))
	var cases []caseB
	for _, sc := range list {
		lst := scripts[sc.L]
		for i, evs := range lst {
			cs := caseB{id: fmt.Sprintf("b-ex/%s/%s/%d/%d", sc.sh, sc.cfg.Name(), sc.L, i), cfg: sc.cfg, sh: shapes[sc.sh], evs: evs, kind: "ex"}
			if i%4 == 0 {
				cs.alt = lst[(i*7+3)%len(lst)] // third run of the same plan over a different script
			}
			cases = append(cases, cs)
		}
	}
	// NULL-valued aggregate arguments: the same enumeration with v of k=b always NULL (a
	// NULL-only group next to a normal one: count(*) counts, sum is NULL)
	var nullB [][]ev
	enumerateB(4, nil, true, func(evs []ev) { nullB = append(nullB, evs) })
	for _, sc := range list {
		shn := sc.sh
		// half of the pairs with COUNT(v) instead of COUNT(*): no aggregate argument of the
		// NULL-only group is ever non-NULL
		if v := map[string]string{"k0": "k0v", "tk": "tkv"}[shn]; v != "" && len(sc.cfg)%2 == 1 {
			shn = v
		}
		for i, evs := range nullB {
			cases = append(cases, caseB{id: fmt.Sprintf("b-exnull/%s/%s/%d", shn, sc.cfg.Name(), i), cfg: sc.cfg, sh: shapes[shn], evs: evs, kind: "exnull"})
		}
	}
	// the same enumeration with k=b carrying its time in another Location (predicate of the
	// known finding), for the configurations that contain ON WATERMARK
	var mixed [][]ev
	enumerateB(4, trigh.LocPool[1], false, func(evs []ev) { mixed = append(mixed, evs) })
	for _, sc := range list {
		if !sc.cfg.Has('W') {
			continue
		}
		for i, evs := range mixed {
			cases = append(cases, caseB{id: fmt.Sprintf("b-exmix/%s/%s/%d", sc.sh, sc.cfg.Name(), i), cfg: sc.cfg, sh: shapes[sc.sh], evs: evs, kind: "exmix"})
		}
	}
	all := append([]trigh.Config{{}}, trigh.AllConfigs(4)...)
	// fixed scripts, under every configuration: a group that is emitted, emptied by retractions
	// and refilled with NULL-valued records between two firings; a NULL-only group
	for wi, w := range nullWitnesses() {
		for _, cfg := range all {
			for _, shn := range []string{"k0", "k", "tk", "k0v", "tkv"} {
				if cfg.Has('W') && !shapes[shn].allowsW {
					continue
				}
				cases = append(cases, caseB{id: fmt.Sprintf("b-nullwit/%d/%s/%s", wi, shn, cfg.Name()), cfg: cfg, sh: shapes[shn], evs: w, kind: "nullwit"})
			}
		}
	}
	// the triggered group-by as the joined side of a LOOKUP JOIN (octosql runs that node once
	// per left row), every configuration
	lrng := c.Rng("b-lookup")
	nLookup := c.Pick(6, 60)
	for _, cfg := range all {
		for j := 0; j < nLookup; j++ {
			var sh shape
			if cfg.Has('W') {
				sh = shapes[[]string{"tk", "kt"}[lrng.Intn(2)]]
			} else {
				sh = shapes[[]string{"tk", "k", "k0"}[lrng.Intn(3)]]
			}
			cases = append(cases, caseB{id: fmt.Sprintf("b-lookup/%s/%d", cfg.Name(), j), cfg: cfg, sh: sh, evs: randomScript(lrng, 5+lrng.Intn(14), false, lrng.Intn(2)), kind: "lookup", lookup: true})
		}
	}
	// random longer scripts over all configurations
	N := c.Pick(4000, 100000)
	rng := c.Rng("b-random")
	c.Note("b_random_configurations", len(all))
	for i := 0; i < N; i++ {
		cfg := all[rng.Intn(len(all))]
		var sh shape
		if cfg.Has('W') {
			sh = shapes[[]string{"tk", "tk", "kt"}[rng.Intn(3)]]
		} else {
			sh = shapes[[]string{"tk", "kt", "k", "k0"}[rng.Intn(4)]]
		}
		mixedLoc := rng.Intn(3) == 0
		n := c.Pick(6+rng.Intn(20), 40)
		nullMode := rng.Intn(3) % 2 // 1/3 of the scripts carry NULLs
		if nullMode == 1 && i%2 == 0 {
			if v := map[string]string{"k0": "k0v", "tk": "tkv"}[sh.name]; v != "" {
				sh = shapes[v]
			}
		}
		cs := caseB{id: fmt.Sprintf("b-rnd/%d", i), cfg: cfg, sh: sh, evs: randomScript(rng, n, mixedLoc, nullMode), kind: "rnd"}
		if i%3 == 0 {
			cs.alt = randomScript(rng, 4+rng.Intn(12), false, nullMode)
		}
		cases = append(cases, cs)
	}
	core.Parallel(len(cases), 16, func(i int) {
		cs := cases[i]
		if c.Only != "" && c.Only != cs.id {
			return
		}
		mode := 0
		if selftest && i%997 == 0 {
			mode = 1
		} else if selftest && i%997 == 1 && cs.cfg.Has('W') {
			mode = 2
		}
		judgeB(c, cs, mode)
	})
}

// nullWitnesses: (1) key a is emitted, emptied and refilled with NULL-only records (with COUNTING 3
// the refill lies between two firings), next to a normal key; (2) a NULL-only group next to a
// normal one, with a watermark in between.
func nullWitnesses() [][]ev {
	r := func(k string, tick, v int, null, retr bool) ev {
		return ev{r: rec{k: k, tick: tick, v: v, null: null, retr: retr}}
	}
	return [][]ev{
		{r("a", 1, 5, false, false), r("a", 1, 5, false, false), r("a", 1, 5, false, true), r("b", 1, 2, false, false), r("a", 1, 5, false, true), r("a", 1, 0, true, false), r("a", 1, 0, true, false), {isWM: true, wm: 1}, r("b", 2, 3, false, false)},
		{r("n", 1, 0, true, false), r("a", 1, 3, false, false), r("n", 1, 0, true, false), {isWM: true, wm: 1}, r("n", 2, 0, true, false), r("a", 2, 4, false, false), r("n", 2, 0, true, false), r("n", 2, 0, true, true)},
		{r("a", 1, 5, false, false), r("a", 1, 5, false, true), r("a", 1, 0, true, false), r("a", 1, 0, true, false), r("a", 1, 0, true, false), r("a", 1, 0, true, false)},
	}
}

// randomScript: a valid watermarked changelog over 3 string keys and ticks 1..10: retractions
// only of present rows (same values, hence same ts = event time), records never at or below the
// current watermark, watermarks strictly increasing.
func randomScript(rng *rand.Rand, n int, mixedLoc bool, nullMode int) []ev {
	var evs []ev
	type ins struct {
		k    string
		tick int
		v    int
		null bool
	}
	var present []ins
	var emptied []ins // rows that were retracted (candidates for a NULL refill of their group)
	w := 0
	const maxTick = 10
	pickLoc := func() *time.Location {
		if !mixedLoc {
			return nil
		}
		return trigh.LocPool[rng.Intn(len(trigh.LocPool))]
	}
	for iter := 0; len(evs) < n && iter < 20*n; iter++ {
		r := rng.Intn(10)
		switch {
		case r == 0:
			if w >= maxTick-1 {
				continue
			}
			w += 1 + rng.Intn(2)
			evs = append(evs, ev{isWM: true, wm: w})
		case r <= 3:
			var cand []int
			for i, p := range present {
				if p.tick > w {
					cand = append(cand, i)
				}
			}
			if len(cand) == 0 {
				continue
			}
			i := cand[rng.Intn(len(cand))]
			p := present[i]
			present = append(present[:i], present[i+1:]...)
			emptied = append(emptied, p)
			evs = append(evs, ev{r: rec{k: p.k, tick: p.tick, loc: pickLoc(), v: p.v, null: p.null, retr: true}})
		default:
			if w >= maxTick {
				continue
			}
			k := string(rune('a' + rng.Intn(3)))
			tick := w + 1 + rng.Intn(3)
			if tick > maxTick {
				tick = maxTick
			}
			v := rng.Intn(5) - 1
			null := false
			if nullMode == 1 {
				// key c is NULL in every record; the others in one record out of four; and now
				// and then a group that lost a row is refilled with a NULL-valued record
				null = k == "c" || rng.Intn(4) == 0
				if len(emptied) > 0 && rng.Intn(3) == 0 {
					e := emptied[rng.Intn(len(emptied))]
					if e.tick > w {
						k, tick, null = e.k, e.tick, true
					}
				}
			}
			if null {
				v = 0
			}
			present = append(present, ins{k, tick, v, null})
			evs = append(evs, ev{r: rec{k: k, tick: tick, loc: pickLoc(), v: v, null: null}})
		}
	}
	return evs
}

// =============================================================================================

// replayID: --replay <file> re-executes the case whose id the replay file carries.
func replayID(c *core.Ctx) {
	if c.Replay == "" {
		return
	}
	data, err := os.ReadFile(c.Replay)
	if err != nil {
		return
	}
	var body struct {
		Case struct {
			ID string `json:"id"`
		} `json:"case"`
	}
	if json.Unmarshal(data, &body) == nil && body.Case.ID != "" {
		c.Only = body.Case.ID
	}
}

func Run(c *core.Ctx) core.FinishOpts {
	replayID(c)
	if selftest {
		violationCap = 5000
	}
	t0 := time.Now()
	if os.Getenv("VERIF_C17_SKIP_A") != "1" { // development aid: judge the node level alone
		partA(c)
	}
	c.Note("info_wall_part_a_s", time.Since(t0).Seconds())
	t0 = time.Now()
	partB(c)
	c.Note("info_wall_part_b_s", time.Since(t0).Seconds())
	return core.FinishOpts{
		Level: "exploration",
		Rule: "(a) every event sequence over 2 keys x {record, watermark +1, watermark +2} up to the stated length, optionally ended by end-of-stream, " +
			"for every single trigger, every ordered pair and every ordered triple, over six key-set variants; non-trivial = at least one non-empty Poll (distinct ones are only stored for length <= 5); " +
			"(b) every legal script over an 8-symbol alphabet (insert/retract 2 keys x 2 times, watermark +1/+2) up to the stated length per (query shape, TRIGGER configuration), plus seeded random valid watermarked changelogs; " +
			"non-trivial = at least 2 records, one due firing and one emitted record; distinct by (shape, configuration, script)",
		Floor:       c.Pick(20000, 100000),
		Assumptions: []string{"reference trigger models written from the statement (trigh.Model)", "event-time buffer contract: records are handed to the group-by at the first watermark >= their event time, in event-time order (that contract itself is C18's subject)", "own canonical row encoding (nodeh.RowKey)", "Go toolchain"},
		Exhaustive:  true,
	}
}

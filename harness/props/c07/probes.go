package c07

import "strings"

// probe: one fixed query that every run executes (both tiers), so that each anticipated panic
// site and its neighbourhood is reached deterministically, whatever the seed.
type probe struct {
	tag   string // anticipated-site tag ("" for neighbourhood probes)
	sql   string
	flags []string // default: -o json
}

// stdinProbe: a probe whose data arrives on the child's stdin.
type stdinProbe struct {
	probe
	stdin []byte
}

const maxInt = "9223372036854775807"
const minIntExpr = "(-9223372036854775807 - 1)"

func probes() []probe {
	ps := []probe{
		// --- anticipated in DESIGN §4 C07 F ---
		// found by a seeding sub-agent on the then-unchanged tree (ParseSelect type assertion), fixed since:
		{"star-next-to-aggregate", "SELECT *, COUNT(*) FROM t.csv t", nil},
		{"star-next-to-aggregate", "SELECT t.*, COUNT(*) FROM t.csv t GROUP BY t.id", nil},
		{"star-next-to-aggregate", "SELECT COUNT(*), * FROM t.csv t", nil},
		{"int-division-by-zero", "SELECT 1 / 0", nil},
		{"int-division-by-zero", "SELECT t.id / t.g AS q FROM t.csv t", nil},
		{"duration-division-by-zero", "SELECT INTERVAL 1 SECOND / 0", nil},
		{"", "SELECT INTERVAL 1 SECOND / INTERVAL 0 SECONDS", nil},
		{"", "SELECT 1.0 / 0.0, 0.0 / 0.0, -1.0 / 0.0", nil},
		{"", "SELECT " + minIntExpr + " / -1", nil},
		{"substr-negative-start", "SELECT substr('abc', -1)", nil},
		{"substr-negative-start", "SELECT substr('abc', -1, 1)", nil},
		{"substr-negative-length", "SELECT substr('abc', 1, -1)", nil},
		{"", "SELECT substr('abc', 5), substr('abc', 5, 1), substr('abc', 1, 10), substr('', 0), substr('abc', 3, 0)", nil},
		{"", "SELECT substr('abc', 2, " + maxInt + ")", nil},
		{"", "SELECT substr('abc', " + maxInt + ")", nil},
		{"", "SELECT substr('é日本', 1, 1), substr('é日本', 1)", nil},
		{"repeat-negative-count", "SELECT 'a' * -1", nil},
		{"repeat-negative-count", "SELECT -1 * 'a'", nil},
		{"", "SELECT 'a' * 0, 0 * 'a', '' * 1000000, len('ab' * 1000000)", nil},
		{"repeat-huge-count", "SELECT 'a' * " + maxInt, nil},
		{"repeat-huge-count", "SELECT 'ab' * " + maxInt, nil},
		{"negative-list-index", "SELECT j.l[-1] FROM j.json j", nil},
		{"negative-list-index", "SELECT j.l[" + minIntExpr + "] FROM j.json j", nil},
		{"", "SELECT j.l[0], j.l[5], j.l[" + maxInt + "], j.e[0], j.ll[0][0], j.lo[0]->k FROM j.json j", nil},
		{"count-without-argument", "SELECT count() FROM t.csv t", nil},
		{"count-without-argument", "SELECT t.g, sum() FROM t.csv t GROUP BY t.g", nil},
		{"", "SELECT count(1, 2) FROM t.csv t", nil},
		{"", "SELECT count(DISTINCT) FROM t.csv t", nil},
		{"variables-used-tuple", "SELECT a.id FROM t.csv a JOIN t.csv b ON a.id IN (1, 2)", nil},
		{"variables-used-coalesce", "SELECT a.id FROM t.csv a JOIN t.csv b ON COALESCE(a.n, b.n) = 1", nil},
		{"variables-used-subquery", "SELECT a.id FROM t.csv a JOIN t.csv b ON a.id IN (SELECT c.id FROM t.csv c)", nil},
		{"variables-used-field-access", "SELECT a.id FROM j.json a JOIN j.json b ON a.o->x = b.o->x", nil},
		{"variables-used-cast", "SELECT a.id FROM j.json a JOIN j.json b ON a.u::float = b.u::float", nil},
		{"variables-used-tuple", "SELECT a.id FROM t.csv a LOOKUP JOIN t.csv b ON a.id IN (1, 2)", nil},
		{"variables-used-tuple", "SELECT a.id FROM t.csv a JOIN t.csv b ON a.id = b.id WHERE a.id IN (1, 2)", nil},
		{"variables-used-tuple", "SELECT a.id FROM t.csv a LEFT JOIN t.csv b ON a.id = b.id WHERE (a.id, 1) = (b.id, 1)", nil},
		{"variables-used-coalesce", "SELECT a.id FROM t.csv a LOOKUP JOIN t.csv b ON a.id = b.id WHERE COALESCE(b.n, 0) = 1", nil},
		{"coalesce-over-tuples", "SELECT COALESCE((1, 2), (3, 4))", nil},
		{"", "SELECT COALESCE(j.l, j.e), COALESCE(j.o, j.o), COALESCE(j.u, 1), COALESCE(NULL, NULL), COALESCE(j.n) FROM j.json j", nil},
		{"", "SELECT COALESCE()", nil},
		{"csv-output-nested-column", "SELECT j.l FROM j.json j", []string{"-o", "csv"}},
		{"csv-output-nested-column", "SELECT j.o FROM j.json j", []string{"-o", "csv"}},
		{"csv-output-nested-column", "SELECT (1, 2) AS t", []string{"-o", "csv"}},
		{"", "SELECT j.u, j.n, j.ts FROM j.json j", []string{"-o", "csv"}},
		// the same sites reached through SimpleGroupBy, whose emit loop recovers and re-panics
		{"csv-output-nested-column", "SELECT t.g AS k, array_agg(t.s) AS c FROM t.csv t GROUP BY t.g", []string{"-o", "csv"}},
		{"int-division-by-zero", "SELECT t.g AS k, sum(t.id) / 0 AS q FROM t.csv t GROUP BY t.g", nil},
		{"json-empty-list-preview", "SELECT * FROM latearr.json", nil},
		{"json-empty-list-preview", "SELECT count(*) FROM latearrstr.json", nil},
		{"max-diff-watermark-zero-resolution", "SELECT * FROM max_diff_watermark(source=>TABLE(tm.json), max_diff=>INTERVAL 0 SECONDS, time_field=>DESCRIPTOR(ts), resolution=>INTERVAL 0 SECONDS) m", nil},
		{"", "SELECT * FROM max_diff_watermark(source=>TABLE(tm.json), max_diff=>-INTERVAL 1 SECOND, time_field=>DESCRIPTOR(ts), resolution=>-INTERVAL 1 SECOND) m", nil},
		{"", "SELECT * FROM max_diff_watermark(source=>TABLE(tm.json), max_diff=>INTERVAL 1 SECOND, time_field=>DESCRIPTOR(nope)) m", nil},
		{"", "SELECT * FROM max_diff_watermark(source=>TABLE(tm.json), max_diff=>INTERVAL 1 SECOND, time_field=>DESCRIPTOR(id)) m", nil},
		{"", "SELECT * FROM max_diff_watermark(source=>TABLE(tm.json)) m", nil},
		{"", "SELECT * FROM max_diff_watermark(max_diff=>INTERVAL 1 SECOND) m", nil},
		{"", "SELECT * FROM tumble(source=>TABLE(tm.json), window_length=>INTERVAL 0 SECONDS, time_field=>DESCRIPTOR(ts)) m", nil},
		{"", "SELECT * FROM tumble(source=>TABLE(tm.json), window_length=>-INTERVAL 1 SECOND, time_field=>DESCRIPTOR(ts), offset=>-INTERVAL 7 SECONDS) m", nil},
		{"", "SELECT * FROM tumble(source=>TABLE(tm.json), window_length=>INTERVAL 1 NANOSECOND, time_field=>DESCRIPTOR(ts), offset=>INTERVAL 1 DAY) m", nil},
		{"", "SELECT * FROM tumble(source=>TABLE(tm.json), window_length=>1, time_field=>DESCRIPTOR(ts)) m", nil},
		{"", "SELECT * FROM range(start=>5, end=>1) r", nil},
		{"", "SELECT * FROM range(start=>0, end=>0) r", nil},
		{"", "SELECT * FROM range(start=>" + minIntExpr + ", end=>-9223372036854775806) r", nil},
		{"", "SELECT * FROM range(start=>9223372036854775805, end=>" + maxInt + ") r", nil},
		{"", "SELECT * FROM range(start=>'a', end=>2) r", nil},
		{"", "SELECT * FROM range(start=>NULL, end=>2) r", nil},
		{"", "SELECT * FROM range(start=>1.5, end=>2) r", nil},
		{"", "SELECT * FROM range(end=>2) r", nil},
		{"", "SELECT * FROM range(start=>1, end=>3, start=>2) r", nil},
		{"", "SELECT * FROM range() r", nil},
		{"", "SELECT * FROM nosuchtvf(a=>1) r", nil},
		{"", "SELECT * FROM range(start=>(SELECT 1), end=>3) r", nil},
		// --- neighbourhood: limits, triggers, ordering ---
		{"", "SELECT * FROM t.csv t LIMIT 0", nil},
		{"", "SELECT * FROM t.csv t LIMIT -1", nil},
		{"", "SELECT * FROM t.csv t LIMIT NULL", nil},
		{"", "SELECT * FROM t.csv t LIMIT 'a'", nil},
		{"", "SELECT * FROM t.csv t LIMIT 1.5", nil},
		{"", "SELECT * FROM t.csv t LIMIT " + maxInt, nil},
		{"", "SELECT * FROM t.csv t LIMIT (SELECT 1)", nil},
		{"", "SELECT * FROM t.csv t LIMIT t.id", nil},
		{"", "SELECT * FROM t.csv t ORDER BY id LIMIT -1", nil},
		{"", "SELECT * FROM t.csv t ORDER BY id LIMIT -1", []string{"-o", "batch_table"}},
		{"", "SELECT * FROM (SELECT * FROM t.csv t LIMIT -1) x", nil},
		{"", "SELECT * FROM (SELECT * FROM t.csv t ORDER BY id LIMIT NULL) x", nil},
		{"", "SELECT * FROM t.csv t ORDER BY nosuch", nil},
		{"", "SELECT * FROM t.csv t ORDER BY 1", nil},
		{"", "SELECT * FROM j.json j ORDER BY u, o, l", nil},
		{"", "SELECT * FROM j.json j ORDER BY u DESC, ll", []string{"-o", "batch_table"}},
		{"", "SELECT t.g, count(*) FROM t.csv t GROUP BY t.g TRIGGER COUNTING 0", []string{"-o", "stream_native"}},
		{"", "SELECT t.g, count(*) FROM t.csv t GROUP BY t.g TRIGGER COUNTING -1", []string{"-o", "stream_native"}},
		{"", "SELECT t.g, count(*) FROM t.csv t GROUP BY t.g TRIGGER COUNTING 1", []string{"-o", "stream_native"}},
		{"", "SELECT t.g, count(*) FROM t.csv t GROUP BY t.g TRIGGER COUNTING " + maxInt, []string{"-o", "stream_native"}},
		{"", "SELECT t.g, avg(t.id), avg(t.f) FROM t.csv t GROUP BY t.g TRIGGER COUNTING 1", []string{"-o", "stream_native"}},
		{"", "SELECT t.g, count(*) FROM t.csv t GROUP BY t.g TRIGGER ON WATERMARK", []string{"-o", "stream_native"}},
		{"", "SELECT t.g, count(*) FROM t.csv t GROUP BY t.g TRIGGER ON WATERMARK, COUNTING 2, ON END OF STREAM", []string{"-o", "stream_native"}},
		{"", "SELECT t.g, count(*) FROM t.csv t GROUP BY t.g TRIGGER COUNTING 1", []string{"-o", "json"}},
		{"", "SELECT count(*) FROM t.csv t TRIGGER COUNTING 1", nil},
		// --- aggregates at their edges ---
		{"", "SELECT avg(t.id), sum(t.id), max(t.id), min(t.id) FROM t.csv t WHERE t.id > " + maxInt, nil},
		{"", "SELECT avg(t.id), sum(t.id), avg(t.f), sum(t.f) FROM t.csv t", nil},
		{"", "SELECT sum(j.u), max(j.u), min(j.o), max(j.l), array_agg(j.o), array_agg(j.u), count(DISTINCT j.l), count(DISTINCT j.o) FROM j.json j", nil},
		{"", "SELECT avg(INTERVAL 1 SECOND), sum(INTERVAL 1 SECOND), max(INTERVAL 1 SECOND) FROM t.csv t", nil},
		{"", "SELECT avg(t.ts), sum(t.ts), max(t.ts), min(t.s), sum(t.s), avg(t.b) FROM t.csv t", nil},
		{"", "SELECT sum(DISTINCT t.id), avg(DISTINCT t.f), array_agg(DISTINCT t.s), max(DISTINCT t.id) FROM t.csv t", nil},
		{"", "SELECT sum(NULL), avg(NULL), count(NULL), array_agg(NULL), max(NULL) FROM t.csv t", nil},
		{"", "SELECT count(*), count(t.*) FROM t.csv t", nil},
		{"", "SELECT sum(count(*)) FROM t.csv t", nil},
		{"", "SELECT t.g FROM t.csv t GROUP BY t.g", nil},
		{"", "SELECT t.id, count(*) FROM t.csv t GROUP BY t.g", nil},
		{"", "SELECT j.o, j.l, count(*) FROM j.json j GROUP BY j.o, j.l", nil},
		{"", "SELECT count(*) FROM t.csv t GROUP BY 1", nil},
		{"", "SELECT count(*) FROM t.csv t GROUP BY (SELECT 1)", nil},
		{"", "SELECT DISTINCT j.o, j.l, j.u, j.ll FROM j.json j", nil},
		// --- functions at their edges ---
		{"", "SELECT abs(" + minIntExpr + "), -" + minIntExpr + ", " + maxInt + " + 1, " + minIntExpr + " - 1, " + maxInt + " * 2", nil},
		{"", "SELECT sqrt(-1.0), log(0.0), log2(-1.0), log10(0.0), pow(0.0, -1.0), pow(-8.0, 0.5), ceil(1e300), floor(-1e300)", nil},
		{"", "SELECT int(1e300), int(-1e300), int(0.0 / 0.0), int(1.0 / 0.0), int('x'), int(''), int(' 1'), int('9223372036854775808'), float('x'), float('1e999'), int(NULL)", nil},
		{"", "SELECT int(INTERVAL 1 SECOND), int(time_from_unix(0)), float(true), string(NULL), string((1,2)), string(j.o), string(j.l) FROM j.json j", nil},
		{"", "SELECT time_from_unix(" + maxInt + "), time_from_unix(" + minIntExpr + "), time_to_unix(time_from_unix(253402300800)), time_from_unix(-62135596801)", nil},
		{"", "SELECT time_from_unix(" + maxInt + ")", []string{"-o", "csv"}},
		{"", "SELECT time_from_unix(" + maxInt + ")", []string{"-o", "batch_table"}},
		{"", "SELECT time_from_unix(" + maxInt + ")", []string{"-o", "stream_native"}},
		{"", "SELECT time_from_unix(0) + INTERVAL " + maxInt + " DAYS, time_from_unix(0) - INTERVAL " + maxInt + " NANOSECONDS, now() - now()", nil},
		{"", "SELECT parse_time('2006-01-02', '2020-02-30'), parse_time('', ''), parse_time('2006', 'x'), parse_time('x', '2020')", nil},
		{"", "SELECT INTERVAL " + maxInt + " DAYS, INTERVAL -1 SECONDS, INTERVAL 1 FORTNIGHT", nil},
		{"", "SELECT INTERVAL 1.5 SECONDS", nil},
		{"", "SELECT INTERVAL t.id SECONDS FROM t.csv t", nil},
		{"", "SELECT INTERVAL 1 SECOND * " + maxInt + ", INTERVAL 1 SECOND * 0, 0 * INTERVAL 1 SECOND, INTERVAL 1 SECOND / " + minIntExpr, nil},
		{"", "SELECT 'a' LIKE '\\', 'a' LIKE '%\\', 'a' LIKE '', '' LIKE '%', 'a' LIKE '[', 'a(' LIKE 'a(', 'a' LIKE '_%_'", nil},
		{"", "SELECT 'a' ~ '(', 'a' ~ '[a-', 'a' ~ '*', 'a' ~ '', 'a' ~* '(?P<x', 'a' !~ '\\', 'a' ~ 'a{100000}'", nil},
		{"", "SELECT t.s ~ t.s, t.s LIKE t.s, t.s ~* t.s FROM t.csv t", nil},
		{"", "SELECT replace('abc', '', 'x'), replace('', '', ''), position('', ''), position('abc', ''), reverse('é日本'), reverse(''), upper(NULL), len(NULL), len('')", nil},
		{"", "SELECT len(j.l), len(j.o), len(j.u), len(j.e), len((1,2)) FROM j.json j", nil},
		{"", "SELECT 1 IN (), 1 IN (1), 1 IN (NULL), NULL IN (NULL, 1), (1,2) IN ((1,2),(3,4)), 1 IN ((1,2)), 'a' IN (1, 'a'), 1 NOT IN (SELECT r.i FROM range(start=>0, end=>0) r)", nil},
		{"", "SELECT 1 IN (SELECT t.id, t.g FROM t.csv t)", nil},
		{"", "SELECT (1, 2) = (1, 2), (1, 2) = (1, 2, 3), (1, 2) < (1, 'a'), (1, (2, 3)) = (1, (2, 3)), (1, 2) > (1)", nil},
		{"", "SELECT j.l = j.e, j.l = j.ll, j.o = j.o, j.u = j.u, j.u < j.u, j.o < j.o, j.l < j.ll, j.u = 1, j.u = 'str' FROM j.json j", nil},
		{"", "SELECT 1 = 1.0, 1 < 'a', true < false, NULL = NULL, NULL < 1, 1 + NULL, NULL + NULL, 'a' + 1, 1 + 'a', true + true, -'a', -true, -NULL", nil},
		{"", "SELECT NOT 1, NOT NULL, NOT 'a', 1 AND 2, NULL OR NULL, 'a' OR true", nil},
		{"", "SELECT 1 IS NULL IS NULL, (SELECT 1) IS NULL, (1,2) IS NULL, NULL IS NOT NULL", nil},
		{"", "SELECT j.u::int, j.u::float, j.u::string, j.u::boolean, j.u::null, j.u::time, j.u::duration, j.u::list, j.u::object, j.o::list, j.l::object, 1::string, NULL::int FROM j.json j", nil},
		{"", "SELECT 1::nosuchtype", nil},
		{"", "SELECT j.o->x, j.o->nokey, j.u->q, j.l->x, j.o->x->y, NULL->x, 1->x, (SELECT 1)->x FROM j.json j", nil},
		{"", "SELECT j.o->*, j.id FROM j.json j", nil},
		{"", "SELECT j.u->* FROM j.json j", nil},
		{"", "SELECT j.l->* FROM j.json j", nil},
		{"", "SELECT NULL->*", nil},
		{"", "SELECT j.lo[0]->*, j.o->* FROM j.json j", nil},
		{"", "SELECT j.l[j.id], j.l['a'], j.l[NULL], j.l[1.5], j.o[0], j.s[0], 1[0], NULL[0], (1,2)[0], (1,2)[5], (1,2)[-1] FROM j.json j", nil},
		{"", "SELECT (SELECT 1, 2), (SELECT t.id FROM t.csv t), (SELECT t.id, t.s FROM t.csv t)[0], (SELECT 1)[0], (SELECT 1)[-1], (SELECT 1)[1]", nil},
		{"", "SELECT (SELECT a.id FROM t.csv a WHERE a.id = t.id) FROM t.csv t", nil},
		{"", "SELECT (SELECT (SELECT (SELECT t.id))) FROM t.csv t", nil},
		{"", "SELECT * FROM t.csv t WHERE t.id IN (SELECT a.id FROM t.csv a WHERE a.g = t.g)", nil},
		{"", "SELECT * FROM t.csv t WHERE (SELECT 1)", nil},
		{"", "SELECT * FROM t.csv t WHERE 1", nil},
		{"", "SELECT * FROM t.csv t WHERE NULL", nil},
		{"", "SELECT * FROM t.csv t WHERE 'a'", nil},
		{"", "SELECT * FROM t.csv t WHERE t.n", nil},
		{"", "SELECT unnest(j.l) AS u, j.id FROM j.json j", nil},
		{"", "SELECT unnest(j.e) AS u FROM j.json j", nil},
		{"", "SELECT unnest(unnest(j.ll)) AS u, unnest(j.l) AS v FROM j.json j", nil},
		{"", "SELECT unnest(j.lo)->k AS u FROM j.json j", nil},
		{"", "SELECT unnest(1), unnest(NULL), unnest('a')", nil},
		{"", "SELECT unnest()", nil},
		{"", "SELECT unnest(j.l, j.l) FROM j.json j", nil},
		{"", "SELECT unnest((SELECT 1)), unnest((1, 2))", nil},
		{"", "SELECT j.id FROM j.json j WHERE unnest(j.l) > 0.0", nil},
		{"", "SELECT count(unnest(j.l)) FROM j.json j", nil},
		{"", "SELECT unnest(j.u) FROM j.json j", nil},
		{"unnest-field-pruned", "SELECT x.k FROM (SELECT unnest(j.l) AS u, j.id AS k FROM j.json j) x", nil},
		{"unnest-field-pruned", "SELECT count(*) FROM (SELECT unnest(j.l) AS u FROM j.json j) x", nil},
		{"", "SELECT x.k FROM (SELECT unnest(j.l) AS u, j.id AS k FROM j.json j) x", []string{"-o", "json", "--optimize=false"}},
		{"", "SELECT x.u FROM (SELECT unnest(j.l) AS u, j.id AS k FROM j.json j) x", nil},
		{"", "WITH x AS (SELECT unnest(j.l) AS u, j.id AS k FROM j.json j) SELECT k FROM x", nil},
		{"", "SELECT * FROM t.csv t LIMIT t.id + 1", nil},
		{"", "SELECT * FROM (SELECT * FROM t.csv t LIMIT t.id) x", nil},
		{"", "SELECT * FROM t.csv t ORDER BY id LIMIT t.id", nil},
		{"", "SELECT * FROM t.csv t LIMIT t.id", []string{"-o", "batch_table"}},
		{"", "SELECT * FROM t.csv t LIMIT nosuch", nil},
		// --- joins ---
		{"", "SELECT * FROM t.csv a JOIN t.csv b ON true", nil},
		{"", "SELECT * FROM t.csv a JOIN t.csv b ON NULL", nil},
		{"", "SELECT * FROM t.csv a JOIN t.csv b ON 1", nil},
		{"", "SELECT * FROM t.csv a JOIN t.csv b ON a.id = a.id", nil},
		{"", "SELECT * FROM t.csv a JOIN t.csv b ON a.id = 1", nil},
		{"", "SELECT * FROM t.csv a JOIN t.csv b ON a.id + b.id = 0", nil},
		{"", "SELECT * FROM t.csv a JOIN t.csv b ON a.id = b.id AND a.g = b.g AND a.s = b.s AND a.n = b.n", nil},
		{"", "SELECT * FROM t.csv a JOIN t.csv b ON a.id = b.id OR a.g = b.g", nil},
		{"", "SELECT * FROM t.csv a JOIN t.csv b ON NOT (a.id = b.id)", nil},
		{"", "SELECT * FROM t.csv a JOIN t.csv b ON a.id = b.s", nil},
		{"", "SELECT * FROM t.csv a JOIN j.json b ON a.id = b.id", nil},
		{"", "SELECT * FROM j.json a JOIN j.json b ON a.o = b.o AND a.l = b.l AND a.u = b.u", nil},
		{"", "SELECT * FROM t.csv a LEFT JOIN t.csv b ON a.id = b.id", []string{"-o", "batch_table"}},
		{"", "SELECT * FROM t.csv a LEFT JOIN t.csv b ON a.id > b.id", []string{"-o", "batch_table"}},
		{"", "SELECT * FROM t.csv a LEFT JOIN t.csv b ON true", []string{"-o", "batch_table"}},
		{"", "SELECT * FROM t.csv a RIGHT JOIN t.csv b ON a.n = b.n", []string{"-o", "stream_native"}},
		{"", "SELECT * FROM t.csv a OUTER JOIN t.csv b ON a.n = b.n AND a.g = b.g", []string{"-o", "stream_native"}},
		{"", "SELECT * FROM t.csv a OUTER JOIN t.csv b ON a.id = 1", nil},
		{"", "SELECT * FROM t.csv a LOOKUP JOIN t.csv b ON a.id = b.id", nil},
		{"", "SELECT * FROM t.csv a LOOKUP JOIN t.csv b ON true", nil},
		{"", "SELECT * FROM t.csv a LOOKUP JOIN range(start=>0, end=>3) r ON a.id = r.i", nil},
		{"", "SELECT * FROM t.csv a LOOKUP JOIN (SELECT * FROM t.csv c WHERE c.id = a.id) b ON true", nil},
		{"", "SELECT * FROM t.csv a, t.csv a", nil},
		{"", "SELECT * FROM t.csv, t.csv", nil},
		{"", "SELECT * FROM t.csv a JOIN t.csv a ON a.id = a.id", nil},
		{"", "SELECT a.* , b.* FROM t.csv a, j.json b", nil},
		{"", "SELECT x.* FROM t.csv a", nil},
		{"", "SELECT *", nil},
		{"", "SELECT * FROM (SELECT 1) x", nil},
		{"", "SELECT * FROM (SELECT * FROM (SELECT * FROM (SELECT * FROM t.csv a) b) c) d", nil},
		// --- WITH ---
		{"", "WITH x AS (SELECT * FROM t.csv t) SELECT * FROM x", nil},
		{"", "WITH x AS (SELECT * FROM x) SELECT * FROM x", nil},
		{"", "WITH x AS (SELECT * FROM y), y AS (SELECT * FROM x) SELECT * FROM x", nil},
		{"", "WITH x AS (SELECT 1 AS a), x AS (SELECT 2 AS a) SELECT * FROM x", nil},
		{"", "WITH x AS (SELECT * FROM t.csv t) SELECT * FROM x a JOIN x b ON a.id = b.id", nil},
		{"", "WITH x AS (SELECT * FROM t.csv t ORDER BY id LIMIT 2) SELECT count(*) FROM x", nil},
		// --- names, quoting, statements ---
		{"", "SELECT \"id\" FROM t.csv", nil},
		{"", "SELECT `id` FROM t.csv", nil},
		{"", "SELECT id AS \"a b\", id AS `select`, id AS id, id AS id FROM t.csv", nil},
		{"", "SELECT 1 AS a, 2 AS a, 3 AS a", nil},
		{"", "SELECT 1 AS a, 2 AS a", []string{"-o", "batch_table"}},
		{"", "SELECT id, id FROM t.csv ORDER BY id", nil},
		{"", "SELECT t.id AS x, t.g AS x FROM t.csv t ORDER BY x", nil},
		{"", "SELECT t.nosuch FROM t.csv t", nil},
		{"", "SELECT nosuch(1)", nil},
		{"", "SELECT len()", nil},
		{"", "SELECT len(1, 2, 3)", nil},
		{"", "SELECT now(1)", nil},
		{"", "SELECT * FROM nosuch.json", nil},
		{"", "SELECT * FROM nosuchdb.table", nil},
		{"", "SELECT * FROM docs.functions", nil},
		{"", "SELECT * FROM docs.aggregates", nil},
		{"", "SELECT * FROM docs.function_signatures", nil},
		{"", "SELECT * FROM docs.nosuch", nil},
		{"", "SELECT * FROM docs", nil},
		{"", "SELECT * FROM plugins.installed_plugins", nil},
		{"", "", nil},
		{"", " ", nil},
		{"", ";", nil},
		{"", "SELECT", nil},
		{"", "SELECT 1; SELECT 2", nil},
		{"", "INSERT INTO t VALUES (1)", nil},
		{"", "UPDATE t SET a = 1", nil},
		{"", "DELETE FROM t", nil},
		{"", "SHOW TABLES", nil},
		{"", "CREATE TABLE t (a int)", nil},
		{"", "SELECT 1 UNION SELECT 2", nil},
		{"", "SELECT 1 UNION ALL SELECT 2", nil},
		{"", "(SELECT 1)", nil},
		{"", "((SELECT 1))", nil},
		{"", "SELECT 1 FROM dual", nil},
		{"", "SELECT CASE WHEN true THEN 1 ELSE 2 END", nil},
		{"", "SELECT 1 BETWEEN 0 AND 2", nil},
		{"", "SELECT 5 % 2", nil},
		{"", "SELECT EXISTS (SELECT 1)", nil},
		{"", "SELECT 1 FROM t.csv t HAVING count(*) > 1", nil},
		{"", "SELECT t.g, count(*) AS c FROM t.csv t GROUP BY t.g HAVING c > 1", nil},
		{"", "SELECT * FROM t.csv t WHERE t.id = ?", nil},
		{"", "SELECT :a, @b, @@c", nil},
		{"", "SELECT 0x41, X'41', b'01', 1e400, .5, 5., 1e, -0", nil},
		{"", "SELECT 9223372036854775808", nil},
		{"", "SELECT -9223372036854775808", nil},
		{"", "SELECT 'unterminated", nil},
		{"", "SELECT 'it''s', 'a\\'b', 'a\\nb', '\\0', '\\Z'", nil},
		{"", "SELECT /* comment */ 1 -- trailing", nil},
		{"", "SELECT /* unterminated 1", nil},
		{"", "SELECT " + strings.Repeat("(", 3000) + "1" + strings.Repeat(")", 3000), nil},
		{"", "SELECT " + strings.Repeat("1 + ", 5000) + "1", nil},
		{"", "SELECT " + strings.Repeat("NOT ", 5000) + "true", nil},
		{"", "SELECT " + strings.Repeat("-", 5000) + "1", nil},
		{"", "SELECT " + strings.Repeat("(SELECT ", 300) + "1" + strings.Repeat(")", 300), nil},
		{"", "SELECT '" + strings.Repeat("x", 100000) + "'", nil},
		{"", "SELECT " + strings.Repeat("1, ", 5000) + "1", nil},
		{"", "SELECT * FROM t.csv t WHERE " + strings.Repeat("t.id = 1 OR ", 3000) + "false", nil},
		{"", "SELECT * FROM " + strings.Repeat("t.csv t JOIN ", 3) + "t.csv t ON true", nil},
		// --- file options ---
		{"", "SELECT * FROM ./t.csv?header=false t", nil},
		{"", "SELECT * FROM ./t.csv?header=maybe t", nil},
		{"", "SELECT * FROM ./t.csv?header= t", nil},
		{"", "SELECT * FROM ./t.csv?header t", nil},
		{"", "SELECT * FROM ./t.csv? t", nil},
		{"", "SELECT * FROM ./t.csv?nosuch=1 t", nil},
		{"", "SELECT * FROM ./t.csv?header=false&header=true t", nil},
		{"", "SELECT * FROM ./hdr.csv?header=false t", nil},
		{"", "SELECT * FROM ./empty.csv?header=false t", nil},
		{"", "SELECT * FROM ./w.lines?sep= t", nil},
		{"", "SELECT * FROM ./w.lines?sep=a t", nil},
		{"", "SELECT * FROM ./w.lines?sep=abc t", nil},
		{"", "SELECT * FROM ./w.lines?sep=%0A t", nil},
		{"", "SELECT * FROM ./empty.lines?sep= t", nil},
		{"", "SELECT * FROM ./j.json?tail=false t", nil},
		{"", "SELECT * FROM ./t.csv?sep=; t", nil},
		{"", "SELECT * FROM ./dir.json t", nil},
		{"", "SELECT * FROM ./dir.csv t", nil},
		{"", "SELECT * FROM ./dir.lines t", nil},
		{"", "SELECT * FROM ./dir.parquet t", nil},
		{"", "SELECT * FROM . t", nil},
		{"", "SELECT * FROM ./ t", nil},
		{"", "SELECT * FROM / t", nil},
		{"", "SELECT * FROM ../ t", nil},
		{"", "SELECT * FROM .json t", nil},
		{"", "SELECT * FROM t.csv.json t", nil},
		// --- describe and flags ---
		{"", "SELECT * FROM j.json j", []string{"--describe"}},
		{"", "SELECT * FROM j.json j", []string{"--describe", "-o", "csv"}},
		{"", "SELECT j.o->*, (1,2), (SELECT 1), NULL, COALESCE(j.u, j.l) FROM j.json j", []string{"--describe", "-o", "json"}},
		{"", "SELECT * FROM emptyobj.json", []string{"--describe"}},
		{"", "SELECT * FROM latearr.json", []string{"--describe"}},
		{"", "SELECT 1", []string{"-o", "nosuch"}},
		{"", "SELECT 1", []string{"-o", ""}},
		{"", "SELECT 1", []string{"--optimize=maybe"}},
		{"", "SELECT 1", []string{"--nosuchflag"}},
		{"", "SELECT 1", []string{"extra-arg"}},
		{"", "SELECT 1", []string{"--describe", "--optimize=false", "-o", "live_table"}},
		{"", "SELECT * FROM t.csv t ORDER BY id DESC LIMIT 3", []string{"-o", "live_table"}},
		{"", "SELECT * FROM emptyobj.json", []string{"-o", "batch_table"}},
		{"", "SELECT * FROM emptyobj.json", []string{"-o", "csv"}},
		{"", "SELECT * FROM emptyobj.json", []string{"-o", "stream_native"}},
		{"", "SELECT * FROM empty.json", []string{"-o", "batch_table"}},
		{"", "SELECT * FROM empty.csv", []string{"-o", "batch_table"}},
	}
	ps = append(ps, joinPredicateProbes()...)
	ps = append(ps, lateCSVProbes()...)
	return ps
}

// stdinProbes: stdin sources evaluated more than once in one query (sequentially or concurrently):
// subquery expression per outer row, IN (SELECT), LOOKUP JOIN joined side, self join, CTE used twice.
func stdinProbes() []stdinProbe {
	var ps []stdinProbe
	stdinJSON := []byte("{\"id\":0,\"a\":1}\n{\"id\":1,\"a\":2}\n{\"id\":2,\"a\":3}\n")
	stdinCSV := []byte("id,a\n0,1\n1,2\n2,3\n")
	stdinLines := []byte("0\n1\n2\n")
	for _, v := range []struct {
		table, col string
		outer      string
		ocol       string
		data       []byte
	}{
		{"stdin.json", "id", "tm.json", "id", stdinJSON},
		{"stdin.csv", "id", "t.csv", "id", stdinCSV},
		{"stdin.lines", "number", "t.csv", "id", stdinLines},
	} {
		for _, q := range []string{
			"SELECT * FROM " + v.table,
			"SELECT count(*) AS c FROM " + v.table + " s",
			"SELECT o." + v.ocol + " AS id, (SELECT count(*) FROM " + v.table + " s) AS c FROM " + v.outer + " o",
			"SELECT o." + v.ocol + " AS id, len((SELECT s." + v.col + " FROM " + v.table + " s)) AS c FROM " + v.outer + " o",
			"SELECT o." + v.ocol + " AS id FROM " + v.outer + " o WHERE o." + v.ocol + " IN (SELECT s." + v.col + " FROM " + v.table + " s)",
			"SELECT o." + v.ocol + " AS id FROM " + v.outer + " o LOOKUP JOIN " + v.table + " s ON o." + v.ocol + " = s." + v.col,
			"SELECT s." + v.col + " AS id FROM " + v.table + " s LOOKUP JOIN " + v.outer + " o ON o." + v.ocol + " = s." + v.col,
			"SELECT a." + v.col + " AS id FROM " + v.table + " a JOIN " + v.table + " b ON a." + v.col + " = b." + v.col,
			"SELECT a." + v.col + " AS id FROM " + v.table + " a LOOKUP JOIN " + v.table + " b ON a." + v.col + " = b." + v.col,
			"SELECT a." + v.col + " AS id FROM " + v.table + " a LEFT JOIN " + v.table + " b ON a." + v.col + " = b." + v.col,
			"SELECT a." + v.col + " AS id FROM " + v.table + " a, " + v.table + " b",
			"SELECT o." + v.ocol + " AS id FROM " + v.outer + " o JOIN " + v.table + " s ON o." + v.ocol + " = s." + v.col,
			"SELECT s." + v.col + " AS id FROM " + v.table + " s JOIN " + v.outer + " o ON o." + v.ocol + " = s." + v.col,
			"WITH x AS (SELECT * FROM " + v.table + " s) SELECT a." + v.col + " AS id FROM x a JOIN x b ON a." + v.col + " = b." + v.col,
			"WITH x AS (SELECT * FROM " + v.table + " s) SELECT " + v.col + " FROM x WHERE " + v.col + " IN (SELECT y." + v.col + " FROM x y)",
			"SELECT " + v.col + " FROM (SELECT * FROM " + v.table + " s) x WHERE " + v.col + " IN (SELECT s2." + v.col + " FROM " + v.table + " s2)",
			"SELECT (SELECT count(*) FROM " + v.table + " s1) AS a, (SELECT count(*) FROM " + v.table + " s2) AS b",
			"SELECT o." + v.ocol + " AS id, (SELECT count(*) FROM " + v.table + " s WHERE s." + v.col + " = o." + v.ocol + ") AS c FROM " + v.outer + " o ORDER BY id LIMIT 3",
		} {
			ps = append(ps, stdinProbe{probe{"stdin-read-more-than-once", q, nil}, v.data})
		}
		ps = append(ps,
			stdinProbe{probe{"stdin-read-more-than-once", "SELECT * FROM " + v.table, []string{"--describe"}}, v.data},
			stdinProbe{probe{"stdin-read-more-than-once", "SELECT o." + v.ocol + " AS id, (SELECT count(*) FROM " + v.table + " s) AS c FROM " + v.outer + " o", []string{"-o", "batch_table", "--optimize=false"}}, v.data},
			stdinProbe{probe{"stdin-read-more-than-once", "SELECT * FROM " + v.table, nil}, []byte{}},
		)
	}
	return ps
}

// joinPredicateProbes: comparison conjuncts in ON / WHERE of a join with every combination of
// {left-only, right-only, mixed, constant} operand on either side, plain and wrapped in
// arithmetic / a function, for inner, comma, LOOKUP and outer joins. The join optimizers split such
// predicates into key pairs by the variables each operand uses.
func joinPredicateProbes() []probe {
	kinds := []struct {
		name  string
		exprs []string
	}{
		{"left", []string{"l.id", "l.g + 1", "abs(l.g)"}},
		{"right", []string{"r.g", "r.id + 1", "abs(r.g)"}},
		{"mixed", []string{"l.g + r.g", "r.id - l.g", "abs(l.g * r.g)"}},
		{"const", []string{"1", "1 + 1", "abs(-2)"}},
	}
	forms := []string{
		"SELECT l.id AS a, r.id AS b FROM t.csv l JOIN t.csv r ON %s",
		"SELECT l.id AS a, r.id AS b FROM t.csv l, t.csv r WHERE %s",
		"SELECT l.id AS a, r.id AS b FROM t.csv l JOIN t.csv r ON l.g = r.g AND %s",
		"SELECT l.id AS a, r.id AS b FROM t.csv l LOOKUP JOIN t.csv r ON %s",
		"SELECT l.id AS a, r.id AS b FROM t.csv l LEFT JOIN t.csv r ON %s",
		"SELECT l.id AS a, r.id AS b FROM t.csv l OUTER JOIN t.csv r ON %s",
		"SELECT l.id AS a, r.id AS b FROM t.csv l JOIN t.csv r ON l.g = r.g WHERE %s",
	}
	var ps []probe
	n := 0
	for fi, form := range forms {
		ops := []string{"="}
		if fi < 2 {
			ops = []string{"=", "<", "!="}
		}
		for _, op := range ops {
			for _, ka := range kinds {
				for _, kb := range kinds {
					// the wrapper variant rotates, so that every (kind, kind, operator, join form) is
					// enumerated once and every wrapper appears with every kind
					a := ka.exprs[n%len(ka.exprs)]
					b := kb.exprs[(n/3+fi)%len(kb.exprs)]
					n++
					ps = append(ps, probe{"join-predicate-" + ka.name + "-" + op + "-" + kb.name, strings.Replace(form, "%s", a+" "+op+" "+b, 1), nil})
				}
			}
		}
	}
	// different input types on the two sides, both table orders
	for _, q := range []string{
		"SELECT t.id, j.id FROM t.csv t JOIN j.json j ON j.id = float(t.g) + j.id",
		"SELECT t.id, j.id FROM j.json j JOIN t.csv t ON float(t.g) = j.id + float(t.id)",
		"SELECT t.id, j.id FROM t.csv t, j.json j WHERE j.id = float(t.g) * j.id AND float(t.g) = j.id",
		"SELECT t.id, j.id FROM j.json j, t.csv t WHERE t.s = j.s + t.s",
	} {
		ps = append(ps, probe{"join-predicate-mixed-types", q, nil})
	}
	return ps
}

// lateCSVProbes: CSV / TSV files whose rows after the 100-row schema preview are short, long,
// empty or hold a lone quote (fixtures lateCSVFiles), read as a whole, by their last / middle
// column, counted, and filtered on the last column, with and without the optimizer.
func lateCSVProbes() []probe {
	var ps []probe
	for _, f := range lateCSVFiles() {
		for _, q := range []string{
			"SELECT * FROM " + f.name,
			"SELECT x.d AS d FROM " + f.name + " x",
			"SELECT x.b AS b FROM " + f.name + " x",
			"SELECT count(*) AS c FROM " + f.name + " x",
			"SELECT x.a AS a FROM " + f.name + " x WHERE x.d > 0",
		} {
			ps = append(ps, probe{"csv-row-shape-after-preview", q, nil})
		}
		ps = append(ps,
			probe{"csv-row-shape-after-preview", "SELECT * FROM " + f.name, []string{"-o", "json", "--optimize=false"}},
			probe{"csv-row-shape-after-preview", "SELECT x.d AS d FROM " + f.name + " x", []string{"-o", "json", "--optimize=false"}},
		)
	}
	return ps
}

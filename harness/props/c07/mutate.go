package c07

import (
	"math/big"
	"math/rand"
	"os"
	"path/filepath"
	"regexp"
	"sort"
	"strconv"
	"strings"
	"unicode"
)

// tokenize splits SQL into tokens: quoted strings, numbers, identifiers (with dots and file
// paths), multi-character operators, single punctuation. Whitespace is dropped.
func tokenize(s string) []string {
	var toks []string
	i := 0
	rs := []rune(s)
	for i < len(rs) {
		c := rs[i]
		switch {
		case unicode.IsSpace(c):
			i++
		case c == '\'' || c == '"' || c == '`':
			j := i + 1
			for j < len(rs) {
				if rs[j] == c {
					if j+1 < len(rs) && rs[j+1] == c {
						j += 2
						continue
					}
					break
				}
				j++
			}
			if j >= len(rs) {
				j = len(rs) - 1
			}
			toks = append(toks, string(rs[i:j+1]))
			i = j + 1
		case unicode.IsDigit(c):
			j := i
			for j < len(rs) && (unicode.IsDigit(rs[j]) || rs[j] == '.' || rs[j] == 'e') {
				j++
			}
			toks = append(toks, string(rs[i:j]))
			i = j
		case unicode.IsLetter(c) || c == '_' || c == '.':
			j := i
			for j < len(rs) && (unicode.IsLetter(rs[j]) || unicode.IsDigit(rs[j]) || rs[j] == '_' || rs[j] == '.' || rs[j] == '/') {
				j++
			}
			toks = append(toks, string(rs[i:j]))
			i = j
		default:
			two := ""
			if i+1 < len(rs) {
				two = string(rs[i : i+2])
			}
			switch two {
			case "=>", "<=", ">=", "!=", "->", "::", "~*", "!~", "<>":
				toks = append(toks, two)
				i += 2
			default:
				toks = append(toks, string(c))
				i++
			}
		}
	}
	return toks
}

func untokenize(toks []string) string {
	var sb strings.Builder
	for i, t := range toks {
		if i > 0 {
			prev := toks[i-1]
			// keep `a.b`, `f(`, `x[`, `=>` and `::type` tight; everything else gets a space (division needs them)
			tight := t == "(" && isIdent(prev) && !isKeyword(prev) || t == "[" || t == "," || t == ")" || t == "]" || prev == "(" || prev == "[" || t == "::" || prev == "::" || t == "->" || prev == "->"
			if !tight {
				sb.WriteByte(' ')
			}
		}
		sb.WriteString(t)
	}
	return sb.String()
}

func isIdent(t string) bool {
	if t == "" {
		return false
	}
	r := []rune(t)[0]
	return unicode.IsLetter(r) || r == '_'
}

var keywords = map[string]bool{}

func init() {
	for _, k := range strings.Fields("SELECT FROM WHERE GROUP BY ORDER LIMIT JOIN LEFT RIGHT OUTER LOOKUP ON AND OR NOT IN IS NULL AS DISTINCT WITH TRIGGER COUNTING END OF STREAM WATERMARK INTERVAL LIKE DESC ASC TABLE DESCRIPTOR HAVING UNION ALL") {
		keywords[k] = true
	}
}

func isKeyword(t string) bool { return keywords[strings.ToUpper(t)] }

func isNumber(t string) bool { return t != "" && unicode.IsDigit([]rune(t)[0]) }
func isString(t string) bool { return strings.HasPrefix(t, "'") }

var edgeNumbers = []string{"0", "1", "-1", "2", "1000000", maxInt, "9223372036854775808", "0.0", "1.5", "1e300", "1e999", "-0", "00", "1e", ".5"}
var edgeStrings = []string{"''", "'a'", "'%'", "'\\\\'", "'('", "'é日本'", "'[a-'", "' '", "'1'", "'2020-01-01T00:00:00Z'"}
var spliceTokens = []string{
	"NULL", "(", ")", ",", "*", "-", "+", "/", "=", "<", "NOT", "AND", "OR", "IS", "IN", "AS", "DISTINCT", "SELECT", "FROM", "WHERE", "GROUP", "BY", "ORDER",
	"LIMIT", "JOIN", "LEFT", "OUTER", "LOOKUP", "ON", "->", "::", "[", "]", "=>", "INTERVAL", "SECONDS", "TRIGGER", "COUNTING", "true", "false", "int",
	"t.id", "j.l", "j.o", "j.u", "t.s", "t.n", "count", "sum", "avg", "array_agg", "len", "substr", "COALESCE", "TABLE", "DESCRIPTOR", "x", ".", "?", ";", "DESC",
}

// mutate applies 1-3 random token mutations; donors supply spans for clause transplantation.
func mutate(rng *rand.Rand, sql string, donors []string) (string, string) {
	toks := tokenize(sql)
	if len(toks) == 0 {
		return sql, "none"
	}
	var kinds []string
	n := 1 + rng.Intn(3)
	for k := 0; k < n && len(toks) > 0; k++ {
		i := rng.Intn(len(toks))
		switch rng.Intn(8) {
		case 0:
			toks = append(toks[:i], toks[i+1:]...)
			kinds = append(kinds, "delete")
		case 1:
			toks = append(toks[:i+1], append([]string{toks[i]}, toks[i+1:]...)...)
			kinds = append(kinds, "duplicate")
		case 2:
			j := rng.Intn(len(toks))
			toks[i], toks[j] = toks[j], toks[i]
			kinds = append(kinds, "swap")
		case 3, 4:
			// literal replacement by an edge value (fall back to any token if there is no literal)
			var lits []int
			for x, t := range toks {
				if isNumber(t) || isString(t) || strings.EqualFold(t, "null") || strings.EqualFold(t, "true") || strings.EqualFold(t, "false") {
					lits = append(lits, x)
				}
			}
			if len(lits) > 0 {
				x := lits[rng.Intn(len(lits))]
				if isString(toks[x]) && rng.Intn(3) > 0 {
					toks[x] = edgeStrings[rng.Intn(len(edgeStrings))]
				} else if rng.Intn(6) == 0 {
					toks[x] = "NULL"
				} else {
					toks[x] = edgeNumbers[rng.Intn(len(edgeNumbers))]
				}
				kinds = append(kinds, "literal")
			} else {
				toks[i] = spliceTokens[rng.Intn(len(spliceTokens))]
				kinds = append(kinds, "replace")
			}
		case 5:
			toks[i] = spliceTokens[rng.Intn(len(spliceTokens))]
			kinds = append(kinds, "replace")
		case 6:
			toks = append(toks[:i], append([]string{spliceTokens[rng.Intn(len(spliceTokens))]}, toks[i:]...)...)
			kinds = append(kinds, "insert")
		default:
			// transplant a span of a donor query
			if len(donors) == 0 {
				continue
			}
			d := tokenize(donors[rng.Intn(len(donors))])
			if len(d) == 0 {
				continue
			}
			a := rng.Intn(len(d))
			b := a + 1 + rng.Intn(6)
			if b > len(d) {
				b = len(d)
			}
			span := append([]string{}, d[a:b]...)
			if rng.Intn(2) == 0 {
				toks = append(toks[:i], append(span, toks[i:]...)...)
			} else {
				e := i + len(span)
				if e > len(toks) {
					e = len(toks)
				}
				toks = append(toks[:i], append(span, toks[e:]...)...)
			}
			kinds = append(kinds, "transplant")
		}
	}
	sort.Strings(kinds)
	return untokenize(toks), strings.Join(kinds, "+")
}

// ---------------------------------------------------------------------------------------------
// safety filter: queries that could only exercise the watchdog or the memory cap are not run

var intForm = regexp.MustCompile(`^-?\d+$`)
var minForm = regexp.MustCompile(`^\(-(\d+)-1\)$`)
var floatForm = regexp.MustCompile(`^-?\d+\.\d*$`)

// rangeArgsUnsafe decides from the text of range(...)'s arguments whether the range is certainly
// small (or certainly rejected); anything it cannot decide is treated as unsafe.
func rangeArgsUnsafe(args string) string {
	// split on top-level commas
	var parts []string
	depth, last := 0, 0
	for i, c := range args {
		switch c {
		case '(', '[':
			depth++
		case ')', ']':
			depth--
		case ',':
			if depth == 0 {
				parts = append(parts, args[last:i])
				last = i + 1
			}
		}
	}
	parts = append(parts, args[last:])
	vals := map[string]*big.Int{}
	count := map[string]int{}
	hasBig := false
	for _, n := range numRe.FindAllString(args, -1) {
		if v, err := strconv.ParseFloat(n, 64); err != nil || v > 100000 {
			hasBig = true
		}
	}
	for _, p := range parts {
		kv := strings.SplitN(p, "=>", 2)
		if len(kv) != 2 {
			if hasBig || strings.ContainsAny(p, "0123456789") {
				return "range-argument-undecidable"
			}
			continue
		}
		name := strings.ToLower(strings.TrimSpace(kv[0]))
		expr := strings.Join(strings.Fields(kv[1]), "") // all whitespace removed
		count[name]++
		switch {
		case intForm.MatchString(expr):
			v, _ := new(big.Int).SetString(expr, 10)
			vals[name] = v
		case minForm.MatchString(expr):
			v, _ := new(big.Int).SetString(minForm.FindStringSubmatch(expr)[1], 10)
			vals[name] = v.Neg(v).Sub(v, big.NewInt(1))
		case floatForm.MatchString(expr):
			// a Float argument is rejected by the typechecker
		case !strings.ContainsAny(expr, "0123456789") && !strings.ContainsAny(expr, "*+") && !strings.Contains(strings.ToLower(expr), "select"):
			// NULL, a string, a column: cannot be made large by this query text... unless it is a column
			if strings.Contains(expr, ".") || isIdent(expr) && !strings.EqualFold(expr, "null") && !strings.EqualFold(expr, "true") && !strings.EqualFold(expr, "false") {
				return "range-argument-undecidable"
			}
		default:
			return "range-argument-undecidable"
		}
	}
	if count["start"] > 1 || count["end"] > 1 {
		if hasBig {
			return "range-argument-undecidable"
		}
	}
	s, e := vals["start"], vals["end"]
	limit := big.NewInt(100000)
	switch {
	case s != nil && e != nil:
		if new(big.Int).Sub(e, s).Cmp(limit) > 0 {
			return "range-may-be-astronomical"
		}
	case s != nil && s.CmpAbs(limit) > 0, e != nil && e.CmpAbs(limit) > 0:
		return "range-may-be-astronomical"
	}
	return ""
}

var rangeRe = regexp.MustCompile(`(?i)range\s*\(`)
var numRe = regexp.MustCompile(`[0-9][0-9.e]*`)

func unsafeReason(sql string, flags []string) string {
	low := strings.ToLower(sql)
	for _, bad := range []string{"tail=", "poll", "plugins."} {
		if strings.Contains(low, bad) {
			return "never-terminating-or-network:" + bad
		}
	}
	for _, f := range flags {
		if strings.HasPrefix(f, "--explain") || strings.HasPrefix(f, "--profile") || strings.HasPrefix(f, "--prof") {
			return "flag-with-side-effects"
		}
	}
	// every range(...) must have small literal bounds, or both bounds at the same extreme
	for _, loc := range rangeRe.FindAllStringIndex(sql, -1) {
		depth, end := 0, -1
		for i := loc[1] - 1; i < len(sql); i++ {
			if sql[i] == '(' {
				depth++
			} else if sql[i] == ')' {
				depth--
				if depth == 0 {
					end = i
					break
				}
			}
		}
		if end < 0 {
			continue // unbalanced: a parse error anyway
		}
		if r := rangeArgsUnsafe(sql[loc[1]:end]); r != "" {
			return r
		}
	}
	return ""
}

// ---------------------------------------------------------------------------------------------
// the repository's scenario queries

type scenario struct {
	file  string
	sql   string
	flags []string
	stdin []byte
}

func loadScenarios(repo string) []scenario {
	var files []string
	_ = filepath.Walk(filepath.Join(repo, "tests", "scenarios"), func(p string, info os.FileInfo, err error) error {
		if err == nil && !info.IsDir() && strings.HasSuffix(p, ".in") {
			files = append(files, p)
		}
		return nil
	})
	sort.Strings(files)
	var out []scenario
	for _, f := range files {
		data, err := os.ReadFile(f)
		if err != nil {
			continue
		}
		s := string(data)
		i := strings.Index(s, `octosql "`)
		if i < 0 {
			continue
		}
		rest := s[i+len(`octosql "`):]
		j := strings.LastIndex(rest, `"`)
		if j < 0 {
			continue
		}
		sc := scenario{file: strings.TrimPrefix(f, repo+"/"), sql: strings.Join(strings.Fields(rest[:j]), " ")}
		for _, fl := range strings.Fields(rest[j+1:]) {
			// -ojson / -ocsv are written without a space in some scenarios
			if strings.HasPrefix(fl, "-o") && len(fl) > 2 && !strings.HasPrefix(fl, "--") {
				sc.flags = append(sc.flags, "-o", fl[2:])
			} else {
				sc.flags = append(sc.flags, fl)
			}
		}
		pre := s[:i]
		switch {
		case strings.Contains(pre, "seq 100"):
			var sb strings.Builder
			for k := 1; k <= 100; k++ {
				sb.WriteString(strconv.Itoa(k) + "\n")
			}
			sc.stdin = []byte(sb.String())
		case strings.Contains(pre, "echo"):
			a := strings.Index(pre, "'")
			b := strings.LastIndex(pre, "'")
			if a >= 0 && b > a {
				sc.stdin = []byte(pre[a+1:b] + "\n")
			}
		}
		out = append(out, sc)
	}
	return out
}

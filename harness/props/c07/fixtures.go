package c07

import (
	"fmt"
	"io"
	"os"
	"path/filepath"
	"sort"
	"strings"
)

// Every run of C07 uses one shared read-only working directory holding all input files.

func lines(rows ...string) []byte { return []byte(strings.Join(rows, "\n") + "\n") }

func rep(row string, n int) []string {
	out := make([]string, n)
	for i := range out {
		out[i] = row
	}
	return out
}

// lateJSON: `first` for 105 rows (the schema preview sees 100), then `later` rows.
func lateJSON(first string, later ...string) []byte {
	return lines(append(rep(first, 105), later...)...)
}

type hostile struct {
	name string
	data []byte
	cols []string // columns a query may mention (empty: only star queries)
	what string
}

func baseTables() map[string][]byte {
	m := map[string][]byte{}
	// t.csv: Int/Float/Boolean/String/Time columns with edge values; n is nullable
	m["t.csv"] = lines(
		"id,g,s,f,b,ts,n",
		"0,0,,0.0,true,2020-01-01T00:00:00Z,",
		"1,1,a,1.5,false,2020-01-01T00:00:01Z,1",
		"-1,2,abc,-1.5,true,1969-12-31T23:59:59Z,-1",
		"2,0,ABC,1e300,false,2020-01-01T00:00:02.123456789Z,",
		"7,1,é日本,-0.0,true,0001-01-01T00:00:00Z,7",
		"9223372036854775807,2,%_\\,1e-300,false,9999-12-31T23:59:59Z,0",
		"-9223372036854775808,0,\"a,\"\"b\",2.5,true,2020-06-01T12:00:00+02:00,2",
		"1000000,1,(,3.0,false,2020-01-01T00:00:03Z,",
	)
	// j.json: Float/String/List/Object/union/nullable columns
	m["j.json"] = lines(
		`{"id":0,"s":"","l":[],"o":{"x":0,"y":"a"},"u":1,"n":null,"ts":"2020-01-01T00:00:00Z","e":[],"ll":[[1],[2,3]],"lo":[{"k":1}]}`,
		`{"id":1,"s":"a","l":[1],"o":{"x":1,"y":"b"},"u":"str","n":1,"ts":"2020-01-01T00:00:01Z","e":[],"ll":[],"lo":[]}`,
		`{"id":-1,"s":"abc","l":[1,2,3],"o":{"x":-1,"y":""},"u":null,"n":null,"ts":"1969-12-31T23:59:59Z","e":[],"ll":[[]],"lo":[{"k":2},{"k":3}]}`,
		`{"id":2.5,"s":"é日本","l":[-1.5,1e300],"o":{"x":2,"y":"%"},"u":true,"n":2,"ts":"2020-01-01T00:00:02Z","e":[],"ll":[[1]],"lo":[{"k":4}]}`,
		`{"id":1e300,"s":"%_","l":[0],"o":{"x":3,"y":"("},"u":[1],"n":3,"ts":"9999-12-31T23:59:59Z","e":[],"ll":[[1,2]],"lo":[]}`,
		`{"id":7,"s":"(","l":[7,7],"o":{"x":7,"y":"z"},"u":{"q":1},"n":null,"ts":"2020-01-01T00:00:03Z","e":[],"ll":[],"lo":[{"k":5}]}`,
	)
	m["w.lines"] = lines("first", "", "abc def", "é日本", "12", "-5", "0", "x")
	m["tm.json"] = func() []byte {
		var r []string
		for i := 0; i < 8; i++ {
			r = append(r, fmt.Sprintf(`{"id":%d,"g":%d,"ts":"2020-01-01T00:00:%02dZ"}`, i, i%2, i*3))
		}
		return lines(r...)
	}()
	return m
}

func hostileInputs() []hostile {
	n := func(i int) string { return fmt.Sprintf(`{"id":%d,"a":%d}`, i, i) }
	normal := func(k int) []string {
		r := make([]string, k)
		for i := range r {
			r[i] = n(i)
		}
		return r
	}
	hs := []hostile{
		{"empty.json", nil, nil, "empty JSON file"},
		{"empty.csv", nil, nil, "empty CSV file"},
		{"empty.tsv", nil, nil, "empty TSV file"},
		{"empty.lines", nil, nil, "empty lines file"},
		{"empty.parquet", nil, nil, "empty parquet file"},
		{"nl.json", []byte("\n"), nil, "JSON file with one empty line"},
		{"nl.csv", []byte("\n"), nil, "CSV file with one empty line"},
		{"hdr.csv", lines("a,b,c"), []string{"a", "b"}, "header-only CSV"},
		{"hdrnonl.csv", []byte("a,b,c"), []string{"a", "b"}, "header-only CSV without newline"},
		{"dup.csv", lines("a,a,b", "1,2,3", "4,5,6"), []string{"a", "b"}, "duplicate CSV headers"},
		{"emptyhdr.csv", lines(",,", "1,2,3"), nil, "empty CSV header names"},
		{"ragged.csv", lines("a,b,c", "1,2,3", "4,5", "6,7,8,9"), []string{"a", "b"}, "ragged CSV rows inside the preview"},
		{"blank.csv", []byte("\n\n\n"), nil, "CSV with blank lines only"},
		{"bom.csv", append([]byte{0xEF, 0xBB, 0xBF}, lines("a,b", "1,2")...), []string{"a", "b"}, "CSV with BOM"},
		{"crlf.csv", []byte("a,b\r\n1,2\r\n3,4\r\n"), []string{"a", "b"}, "CRLF CSV"},
		{"quote.csv", lines("a,b", `"x,y","line1`, `line2"`, `"""",""`), []string{"a", "b"}, "quoted CSV fields with commas/newlines/quotes"},
		{"onecol.csv", lines("a", "1", "", "x"), []string{"a"}, "one-column CSV with an empty row"},
		{"numhdr.csv", lines("1,2.5,true", "1,2,3"), nil, "CSV headers that look like literals"},
		{"spacehdr.csv", lines("a b, c ,select,*", "1,2,3,4"), nil, "CSV headers with spaces, keywords, star"},
		{"wide.csv", func() []byte {
			var h, r []string
			for i := 0; i < 300; i++ {
				h = append(h, fmt.Sprintf("c%d", i))
				r = append(r, fmt.Sprint(i))
			}
			return lines(strings.Join(h, ","), strings.Join(r, ","))
		}(), []string{"c0", "c299"}, "300-column CSV"},
		{"types.csv", lines("a", "1", "1.5", "true", "2020-01-01T00:00:00Z", "x", ""), []string{"a"}, "CSV column mixing every inferable type"},
		{"latecsv.csv", func() []byte {
			r := []string{"a,b"}
			for i := 0; i < 105; i++ {
				r = append(r, fmt.Sprintf("%d,%d", i, i))
			}
			r = append(r, "x,1.5", "true,2020-01-01T00:00:00Z", ",")
			return lines(r...)
		}(), []string{"a", "b"}, "CSV whose rows after the preview have other types"},
		{"semi.csv", lines("a;b", "1;2"), nil, "semicolon-separated file named .csv"},
		{"t.tsv", lines("a\tb", "1\t2", "x\t"), []string{"a", "b"}, "TSV"},

		{"latekey.json", lateJSON(`{"id":1,"a":1}`, `{"id":2,"a":2,"zz":3}`, `{"zz":"x"}`), []string{"a", "id"}, "new key after the preview"},
		{"latearr.json", lateJSON(`{"a":[]}`, `{"a":[1,2]}`), []string{"a"}, "[] in the whole preview, non-empty array later"},
		{"latearrstr.json", lateJSON(`{"a":[]}`, `{"a":["x"]}`, `{"a":[{"k":1}]}`, `{"a":[[1]]}`), []string{"a"}, "[] in the whole preview, arrays of strings/objects/arrays later"},
		{"latenest.json", lateJSON(`{"a":[[]]}`, `{"a":[[1]]}`, `{"a":[[],[[2]]]}`), []string{"a"}, "[[]] in the preview, deeper arrays later"},
		{"lateobj.json", lateJSON(`{"a":1}`, `{"a":{"x":1}}`, `{"a":[1]}`, `{"a":"s"}`, `{"a":null}`, `{"a":true}`), []string{"a"}, "scalar in the preview, object/array/string/null/bool later"},
		{"latescalar.json", lateJSON(`{"a":{"x":1}}`, `{"a":5}`, `{"a":{"x":"s"}}`, `{"a":{}}`, `{"a":{"y":2}}`, `{"a":[{"x":1}]}`), []string{"a"}, "object in the preview, scalar / other object shapes later"},
		{"lateemptyobj.json", lateJSON(`{"a":{}}`, `{"a":{"x":1}}`, `{"a":{"x":{"y":[]}}}`), []string{"a"}, "{} in the preview, non-empty objects later"},
		{"latenull.json", lateJSON(`{"a":null}`, `{"a":1}`, `{"a":"s"}`, `{"a":[1]}`, `{"a":{"x":1}}`), []string{"a"}, "null in the whole preview, values later"},
		{"latelistobj.json", lateJSON(`{"a":[{"x":1}]}`, `{"a":[{"y":2}]}`, `{"a":[1]}`, `{"a":[[]]}`, `{"a":[]}`, `{"a":[null]}`), []string{"a"}, "list of objects in the preview, other element shapes later"},
		{"lateempty.json", lateJSON(`{"a":1}`, `{}`, ``, `{"a":2}`), []string{"a"}, "empty object and blank line after the preview"},
		{"latenonobj.json", lateJSON(`{"a":1}`, `1`, `"s"`, `null`, `[]`), []string{"a"}, "non-object JSON lines after the preview"},
		{"earlymix.json", lines(`{"a":[]}`, `{"a":[1]}`, `{"a":["s"]}`, `{"a":[[1]]}`, `{"a":[{"x":1}]}`, `{"a":{"x":1}}`, `{"a":1}`, `{"a":null}`, `{}`), []string{"a"}, "every shape of one column inside the preview"},
		{"listunion.json", lines(`{"a":[1,"s",null,[1],{"x":1}]}`, `{"a":[]}`), []string{"a"}, "heterogeneous list"},
		{"nonobj.json", lines(`1`, `"s"`, `[]`, `null`, `{}`), nil, "JSON lines that are not objects"},
		{"emptyobj.json", lines(`{}`, `{}`, `{}`), nil, "only empty objects: a table with zero columns"},
		{"blankline.json", lines(`{"a":1}`, ``, `{"a":2}`, `   `, `{"a":3}`), []string{"a"}, "blank lines between objects"},
		{"deep.json", lines(`{"a":`+strings.Repeat(`{"x":`, 150)+`1`+strings.Repeat(`}`, 150)+`}`, `{"a":`+strings.Repeat(`[`, 150)+strings.Repeat(`]`, 150)+`}`), []string{"a"}, "150-level nesting"},
		{"bignum.json", lines(`{"a":1e999}`, `{"a":-1e999}`, `{"a":-0}`, `{"a":123456789012345678901234567890}`, `{"a":0.1e-400}`, `{"a":9223372036854775808}`), []string{"a"}, "numbers beyond float64/int64"},
		{"dupkey.json", lines(`{"a":1,"a":"x"}`, `{"a":2,"a":[1]}`), []string{"a"}, "duplicate keys in one object"},
		{"oddkeys.json", lines(`{"":1,"a.b":2,"a b":3,"a\"b":4,"select":5,"*":6,"` + strings.Repeat("k", 300) + `":7,"é":8,"A":9,"a":10}`), []string{"a"}, "odd key names"},
		{"utf8.json", append([]byte(`{"a":"`), append([]byte{0xff, 0xfe, 0xc3, 0x28}, []byte("\"}\n{\"a\":\"ok\"}\n")...)...), []string{"a"}, "invalid UTF-8 in a string"},
		{"nul.json", []byte("{\"a\":\"x\x00y\"}\n{\"a\":\"\\u0000\"}\n\x00\n"), []string{"a"}, "NUL bytes"},
		{"ws.json", lines("  \t{\"a\" : 1 }  ", "{\"a\":\t2}"), []string{"a"}, "whitespace around objects"},
		{"arr.json", lines(`[{"a":1},{"a":2}]`), nil, "whole file is one JSON array"},
		{"pretty.json", lines(`{`, `  "a": 1,`, `  "b": [1,`, `  2]`, `}`), nil, "pretty-printed multi-line object"},
		{"trunc.json", []byte(`{"a":1}` + "\n" + `{"a":`), []string{"a"}, "file truncated in the middle of the last object"},
		{"times.json", lines(`{"a":"2020-01-01T00:00:00Z"}`, `{"a":"2020-13-45T99:00:00Z"}`, `{"a":"0000-01-01T00:00:00Z"}`, `{"a":"2020-01-01"}`), []string{"a"}, "time-like strings, some invalid"},
		{"malformed105.json", lines(append(normal(105), `{"id":105,"a":`)...), []string{"a", "id"}, "malformed JSON after the preview"},
		{"longline.lines", lines("a", strings.Repeat("x", 70000), "b"), nil, "lines file with a 70000-byte line"},
		{"onlynl.lines", []byte("\n\n\n"), nil, "lines file of empty lines"},
		{"nonl.lines", []byte("abc"), nil, "lines file without trailing newline"},
		{"crlf.lines", []byte("a\r\nb\r\n"), nil, "CRLF lines"},
	}
	hs = append(hs, lateCSVFiles()...)
	hs = append(hs, []hostile{
		{"garbage.parquet", []byte("PAR1" + strings.Repeat("\x00\x01garbage", 40) + "PAR1"), nil, "garbage with parquet magic"},
		{"short.parquet", []byte("PAR1"), nil, "4-byte parquet"},
		{"text.parquet", lines("not", "parquet"), nil, "text named .parquet"},
		{"data.xyz", lines("a,b", "1,2"), nil, "unknown file extension"},
		{"noext", lines(`{"a":1}`), nil, "file without extension"},
	}...)
	return hs
}

// writeFixtures creates the shared working directory.
func writeFixtures(dir string, repo string) (scenarioFixtures int, err error) {
	for name, data := range baseTables() {
		if err := os.WriteFile(filepath.Join(dir, name), data, 0o644); err != nil {
			return 0, err
		}
	}
	for _, h := range hostileInputs() {
		if err := os.WriteFile(filepath.Join(dir, h.name), h.data, 0o644); err != nil {
			return 0, err
		}
	}
	for _, d := range []string{"dir.json", "dir.csv", "dir.lines", "dir.parquet"} {
		if err := os.MkdirAll(filepath.Join(dir, d), 0o755); err != nil {
			return 0, err
		}
	}
	// the repository's scenario fixtures, under fixtures/ as the scenario queries address them
	_ = os.MkdirAll(filepath.Join(dir, "fixtures"), 0o755)
	matches, _ := filepath.Glob(filepath.Join(repo, "tests", "scenarios", "*", "fixtures", "*"))
	more, _ := filepath.Glob(filepath.Join(repo, "tests", "scenarios", "*", "*", "fixtures", "*"))
	matches = append(matches, more...)
	sort.Strings(matches)
	for _, m := range matches {
		src, err := os.Open(m)
		if err != nil {
			continue
		}
		dst, err := os.Create(filepath.Join(dir, "fixtures", filepath.Base(m)))
		if err != nil {
			src.Close()
			continue
		}
		_, _ = io.Copy(dst, src)
		src.Close()
		dst.Close()
		scenarioFixtures++
	}
	return scenarioFixtures, nil
}

// lateCSVFiles: 160 well-formed rows (header a,b,c,d; Int cells) with one defective row at row 101
// (the first after the schema preview), row 150 or the last row.
func lateCSVFiles() []hostile {
	defects := []struct{ name, row, what string }{
		{"short1", "7", "a row with one cell"},
		{"short3", "7,8,9", "a row with three of four cells"},
		{"long", "7,8,9,10,11,12", "a row with six cells"},
		{"empty", "", "an empty line"},
		{"quote", "7,8,\"9,10", "a row with a lone quote"},
	}
	positions := []struct {
		name string
		at   int
	}{{"r101", 101}, {"r150", 150}, {"last", 160}}
	build := func(sep string, at int, bad string) []byte {
		rows := []string{strings.Join([]string{"a", "b", "c", "d"}, sep)}
		for i := 1; i <= 160; i++ {
			if i == at {
				rows = append(rows, strings.ReplaceAll(bad, ",", sep))
				continue
			}
			rows = append(rows, strings.Join([]string{fmt.Sprint(i), fmt.Sprint(i % 3), fmt.Sprint(i * 2), fmt.Sprint(i + 1000)}, sep))
		}
		return lines(rows...)
	}
	var out []hostile
	for _, d := range defects {
		for _, p := range positions {
			out = append(out, hostile{"late_" + d.name + "_" + p.name + ".csv", build(",", p.at, d.row), nil, d.what + " at row " + fmt.Sprint(p.at) + " of 160 (beyond the preview)"})
		}
	}
	out = append(out,
		hostile{"late_short1_r101.tsv", build("\t", 101, "7"), nil, "TSV: a row with one cell at row 101"},
		hostile{"late_short3_last.tsv", build("\t", 160, "7,8,9"), nil, "TSV: a row with three cells at the last row"},
		hostile{"late_quote_r150.tsv", build("\t", 150, "7,8,\"9,10"), nil, "TSV: a lone quote at row 150"},
	)
	return out
}

// Package c07: no query, option or input file makes octosql die with a Go panic (CLI level).
//
// R: the process ends by Go panic / fatal error: exit status 2 with a trace, death by signal, or
// stderr holding `panic:` / `fatal error:` / a goroutine trace.
// O: exactly that (cli.Result.Panicked()); wrong answers and error texts are other properties'
// business. Finding key = "panic:" + innermost octosql frame (cli.Result.PanicSite()), so a new
// site is a new violation.
// W: (1) a fixed probe list that reaches every anticipated site deterministically; (2) a sweep of
// octosql's own function and aggregate tables with every argument at every edge value of its
// declared type; (3) typed-grammar queries with edge literals; (4) token mutation of all of those
// and of the repository's scenario queries; (5) option mutation (-o, --describe, --optimize=false,
// file options); (6) hostile input files under a set of query templates.
// Bounds: every child runs under `ulimit -v`, a 55 s kill timer and a 32 MiB output cap; hitting
// any of them is inconclusive, never a violation. range() bounds are checked textually before a
// query is run.
package c07

import (
	"bytes"
	"encoding/json"
	"fmt"
	"os"
	"path/filepath"
	"sort"
	"strings"

	"github.com/cube2222/octosql/plugins/verifharness/cli"
	"github.com/cube2222/octosql/plugins/verifharness/core"
)

func init() { core.Register("C07", Run) }

type qcase struct {
	id    string
	kind  string // probe | function-sweep | aggregate-sweep | grammar | tvf | mutation | scenario | option | hostile
	sub   string // mutation kind, probe tag, hostile file ...
	sql   string
	flags []string
	stdin []byte
	res   cli.Result
	skip  string
}

func (q *qcase) args() []string {
	a := []string{q.sql}
	if len(q.flags) == 0 {
		return append(a, "-o", "json")
	}
	return append(a, q.flags...)
}

const wrapper = `ulimit -v 6000000; timeout -s KILL 55 "$0" "$@" | head -c 33554432; exit ${PIPESTATUS[0]}`

var modes = []string{"json", "csv", "batch_table", "stream_native", "live_table"}

func hostileTemplates(h hostile) []string {
	f := h.name
	qs := []string{
		"SELECT * FROM " + f,
		"SELECT * FROM " + f + " x",
		"SELECT count(*) AS c FROM " + f,
		"SELECT DISTINCT * FROM " + f,
		"SELECT x.* FROM " + f + " x ORDER BY 1",
		"SELECT * FROM " + f + " a JOIN " + f + " b ON true",
		"SELECT * FROM " + f + " a LEFT JOIN " + f + " b ON true",
		"SELECT (SELECT * FROM " + f + ") AS l",
		"SELECT * FROM " + f + " x LIMIT 1",
		"WITH x AS (SELECT * FROM " + f + ") SELECT * FROM x",
	}
	if strings.HasSuffix(f, ".csv") {
		qs = append(qs, "SELECT * FROM ./"+f+"?header=false x")
	}
	if strings.HasSuffix(f, ".lines") {
		qs = append(qs, "SELECT number, len(text) AS l FROM "+f, "SELECT * FROM ./"+f+"?sep=x y", "SELECT sum(int(text)) FROM "+f)
	}
	for _, c := range h.cols {
		qs = append(qs,
			fmt.Sprintf("SELECT x.%s AS v FROM %s x", c, f),
			fmt.Sprintf("SELECT x.%s AS v FROM %s x ORDER BY v", c, f),
			fmt.Sprintf("SELECT DISTINCT x.%s AS v FROM %s x", c, f),
			fmt.Sprintf("SELECT x.%s AS v, count(*) AS c FROM %s x GROUP BY x.%s", c, f, c),
			fmt.Sprintf("SELECT count(x.%s) AS c, count(DISTINCT x.%s) AS d, max(x.%s) AS m, array_agg(x.%s) AS a FROM %s x", c, c, c, c, f),
			fmt.Sprintf("SELECT x.%s[0] AS v FROM %s x", c, f),
			fmt.Sprintf("SELECT x.%s[0][0] AS v FROM %s x", c, f),
			fmt.Sprintf("SELECT x.%s->x AS v FROM %s x", c, f),
			fmt.Sprintf("SELECT x.%s->* FROM %s x", c, f),
			fmt.Sprintf("SELECT len(x.%s) AS v FROM %s x", c, f),
			fmt.Sprintf("SELECT x.%s = x.%s AS e, x.%s IS NULL AS n, COALESCE(x.%s, x.%s) AS c, string(x.%s) AS s FROM %s x", c, c, c, c, c, c, f),
			fmt.Sprintf("SELECT x.%s::int AS i, x.%s::float AS f, x.%s::string AS s, x.%s::list AS l, x.%s::object AS o FROM %s x", c, c, c, c, c, f),
			fmt.Sprintf("SELECT * FROM %s a JOIN %s b ON a.%s = b.%s", f, f, c, c),
			fmt.Sprintf("SELECT * FROM %s a OUTER JOIN %s b ON a.%s = b.%s", f, f, c, c),
			fmt.Sprintf("SELECT * FROM %s a LOOKUP JOIN %s b ON a.%s = b.%s", f, f, c, c),
			fmt.Sprintf("SELECT * FROM %s x WHERE x.%s IN (SELECT y.%s FROM %s y)", f, c, c, f),
			fmt.Sprintf("SELECT x.%s + x.%s AS v FROM %s x", c, c, f),
		)
	}
	return qs
}

func Run(c *core.Ctx) core.FinishOpts {
	selftest := os.Getenv("VERIF_SELFTEST") == "1"
	repo := os.Getenv("VERIF_REPO")
	if repo == "" {
		repo = "/repo"
	}
	binDir := c.BinDir
	if d := os.Getenv("VERIF_OCTOSQL_BINDIR"); d != "" { // validation aid: judge another build of octosql (e.g. a patched scratch copy)
		binDir = d
	}
	runner := cli.NewRunner(binDir, c.Scratch)
	dir := runner.NewDir()
	nScenFix, err := writeFixtures(dir, repo)
	if err != nil {
		c.Inconclusive("fixture-write")
	}
	scen := loadScenarios(repo)
	c.Note("scenario_queries_read", len(scen))
	c.Note("scenario_fixture_files", nScenFix)

	var cases []*qcase
	add := func(kind, sub, sql string, flags []string, stdin []byte) {
		q := &qcase{kind: kind, sub: sub, sql: sql, flags: flags, stdin: stdin}
		q.id = fmt.Sprintf("%s-%d-%s", kind, len(cases), core.Hash(sql, strings.Join(flags, " ")))
		q.skip = unsafeReason(sql, flags)
		cases = append(cases, q)
	}

	// (1) probes: always all of them; thorough adds every mode, --describe and --optimize=false
	ps := probes()
	for _, p := range ps {
		add("probe", p.tag, p.sql, p.flags, nil)
		if c.Tier == "thorough" && len(p.sql) < 5000 {
			for _, m := range modes {
				add("probe", p.tag, p.sql, []string{"-o", m}, nil)
			}
			add("probe", p.tag, p.sql, []string{"-o", "json", "--optimize=false"}, nil)
			add("probe", p.tag, p.sql, []string{"-o", "json", "--describe"}, nil)
		}
	}
	sps := stdinProbes()
	for _, p := range sps {
		add("probe", p.tag, p.sql, p.flags, p.stdin)
		if c.Tier == "thorough" {
			for _, m := range modes[1:] {
				add("probe", p.tag, p.sql, []string{"-o", m}, p.stdin)
			}
			add("probe", p.tag, p.sql, []string{"-o", "json", "--optimize=false"}, p.stdin)
		}
	}
	c.Note("probe_queries", len(ps)+len(sps))

	// scenario queries as they are
	for _, s := range scen {
		add("scenario", s.file, s.sql, s.flags, s.stdin)
	}

	// (2) function and aggregate sweeps
	fnQ, nF, nD := functionSweep(c.Rng("fnsweep"), c.Pick(2, 40), c.Pick(6, 0))
	c.Note("functions_swept", nF)
	c.Note("function_descriptors_swept", nD)
	for _, q := range fnQ {
		add("function-sweep", "", q, nil, nil)
	}
	agQ, nA := aggregateSweep(c.Rng("aggsweep"), c.Pick(8, 0))
	c.Note("aggregates_swept", nA)
	for _, q := range agQ {
		add("aggregate-sweep", "", q, nil, nil)
	}

	// (3) typed grammar with edge literals
	g := newGen(c.Rng("grammar"))
	var grammarQ []string
	for i := 0; i < c.Pick(350, 3000); i++ {
		q := g.query()
		grammarQ = append(grammarQ, q)
		add("grammar", "", q, nil, nil)
	}
	for i := 0; i < c.Pick(80, 500); i++ {
		q := g.tvfQuery()
		grammarQ = append(grammarQ, q)
		add("tvf", "", q, nil, nil)
	}

	// (4) token mutation of probes, sweeps, grammar queries and scenario queries
	mrng := c.Rng("mutation")
	var seeds []*qcase
	for _, q := range cases {
		if len(q.sql) < 2000 && q.sql != "" {
			seeds = append(seeds, q)
		}
	}
	donors := make([]string, 0, len(seeds))
	for _, s := range seeds {
		donors = append(donors, s.sql)
	}
	nMut := c.Pick(600, 4000)
	for i := 0; i < nMut; i++ {
		var s *qcase
		if i%4 == 0 && len(scen) > 0 {
			sc := scen[mrng.Intn(len(scen))]
			s = &qcase{sql: sc.sql, flags: sc.flags, stdin: sc.stdin}
		} else {
			s = seeds[mrng.Intn(len(seeds))]
		}
		m, kinds := mutate(mrng, s.sql, donors)
		add("mutation", kinds, m, s.flags, s.stdin)
	}

	// (5) option mutation
	orng := c.Rng("options")
	for i := 0; i < c.Pick(250, 800); i++ {
		s := seeds[orng.Intn(len(seeds))]
		sql := s.sql
		var flags []string
		flags = append(flags, "-o", modes[orng.Intn(len(modes))])
		if orng.Intn(4) == 0 {
			flags = append(flags, "--describe")
		}
		if orng.Intn(3) == 0 {
			flags = append(flags, "--optimize=false")
		}
		sub := "flags"
		if orng.Intn(3) == 0 {
			switch {
			case strings.Contains(sql, "t.csv t"):
				opt := []string{"?header=false", "?header=true", "?header=x", "?", "?a=b"}[orng.Intn(5)]
				sql = strings.Replace(sql, "t.csv t", "./t.csv"+opt+" t", 1)
				sub = "file-option"
			case strings.Contains(sql, "j.json j"):
				opt := []string{"?tail=false", "?x=y", "?"}[orng.Intn(3)]
				sql = strings.Replace(sql, "j.json j", "./j.json"+opt+" j", 1)
				sub = "file-option"
			}
		}
		add("option", sub, sql, flags, s.stdin)
	}

	// (6) hostile inputs x templates x modes (quick: a seeded sample)
	hrng := c.Rng("hostile")
	hs := hostileInputs()
	var hostileAll []*qcase
	for _, h := range hs {
		for _, t := range hostileTemplates(h) {
			for _, m := range modes {
				hostileAll = append(hostileAll, &qcase{kind: "hostile", sub: h.name, sql: t, flags: []string{"-o", m}})
			}
			hostileAll = append(hostileAll, &qcase{kind: "hostile", sub: h.name, sql: t, flags: []string{"-o", "json", "--describe"}})
			hostileAll = append(hostileAll, &qcase{kind: "hostile", sub: h.name, sql: t, flags: []string{"-o", "json", "--optimize=false"}})
		}
	}
	c.Note("hostile_input_files", len(hs))
	c.Note("hostile_cases_total", len(hostileAll))
	{
		// every file with its first template in -o json, then a random sample of the rest
		// (quick 400, thorough 4000 of the ~11500 file x template x mode cases)
		var first, rest []*qcase
		seen := map[string]bool{}
		for _, q := range hostileAll {
			if !seen[q.sub] && q.flags[1] == "json" && len(q.flags) == 2 {
				seen[q.sub] = true
				first = append(first, q)
			} else {
				rest = append(rest, q)
			}
		}
		hrng.Shuffle(len(rest), func(a, b int) { rest[a], rest[b] = rest[b], rest[a] })
		if n := c.Pick(400, 4000); len(rest) > n {
			rest = rest[:n]
		}
		hostileAll = append(first, rest...)
	}
	for _, q := range hostileAll {
		add(q.kind, q.sub, q.sql, q.flags, nil)
	}
	// stdin delivery of a few hostile contents
	for _, h := range hs {
		if len(h.data) > 200000 {
			continue
		}
		switch {
		case strings.HasSuffix(h.name, ".json"):
			add("hostile", "stdin:"+h.name, "SELECT * FROM stdin.json", []string{"-o", "json"}, append([]byte{}, h.data...))
		case strings.HasSuffix(h.name, ".csv"):
			add("hostile", "stdin:"+h.name, "SELECT * FROM stdin.csv", []string{"-o", "json"}, append([]byte{}, h.data...))
		}
	}

	if ks := os.Getenv("VERIF_C07_KINDS"); ks != "" { // development aid: run some generator kinds only
		var keep []*qcase
		for _, q := range cases {
			if strings.Contains(","+ks+",", ","+q.kind+",") {
				keep = append(keep, q)
			}
		}
		cases = keep
	}
	if only := onlyID(c); only != "" {
		var keep []*qcase
		for _, q := range cases {
			if q.id == only {
				keep = append(keep, q)
			}
		}
		cases = keep
	}
	// duplicates are executed once
	seenCase := map[string]bool{}
	bash := "/bin/bash"
	octosql := filepath.Join(binDir, "octosql")
	core.Parallel(len(cases), 16, func(i int) {
		q := cases[i]
		if q.skip != "" {
			return
		}
		stdin := q.stdin
		if stdin == nil && strings.Contains(strings.ToLower(q.sql), "stdin") {
			stdin = []byte("{\"a\":1}\n")
		}
		q.res = runner.ExecBin(bash, cli.Run{Args: append([]string{"-c", wrapper, octosql}, q.args()...), Dir: dir, Stdin: stdin})
	})

	var watchdogCases []string
	tagSites := map[string]map[string]bool{}
	siteWitness := map[string]string{}
	injected := 0
	for _, q := range cases {
		if q.skip != "" {
			c.Count("not_run/"+strings.SplitN(q.skip, ":", 2)[0], 1)
			continue
		}
		res := q.res
		key := q.sql + "\x00" + strings.Join(q.flags, " ")
		dup := seenCase[key]
		seenCase[key] = true
		replay := map[string]interface{}{"id": q.id, "kind": q.kind, "sub": q.sub, "args": trimArgs(q.args()), "stdin": string(trimBytes(q.stdin, 2000)),
			"exit": res.Exit, "stderr": string(trimBytes(res.Stderr, 3000)), "inputs": "shared fixture directory of props/c07/fixtures.go"}
		if selftest && q.kind == "probe" && q.sql == "SELECT 1" && injected < 2 {
			// self-test: a fabricated crash recording at a site that is in no findings list
			injected++
			res.Exit = 2
			res.Stderr = []byte("panic: runtime error: selftest\n\ngoroutine 1 [running]:\ngithub.com/cube2222/octosql/selftest.Fabricated(...)\n\t/repo/selftest/fabricated.go:1 +0x1\n")
		}
		c.Eval(1)
		c.Count("kind/"+q.kind, 1)
		stderr := res.Stderr
		switch {
		case res.TimedOut || res.Exit == 137 || res.Exit == 124:
			c.Inconclusive("watchdog")
			c.Count("outcome/watchdog", 1)
			if len(watchdogCases) < 20 {
				watchdogCases = append(watchdogCases, strings.Join(trimArgs(q.args()), " | "))
			}
			continue
		case bytes.Contains(stderr, []byte("out of memory")) || bytes.Contains(stderr, []byte("cannot allocate memory")) || bytes.Contains(stderr, []byte("pthread_create failed")):
			// the address-space cap (not octosql) refused an allocation or a thread stack
			c.Inconclusive("memory-cap")
			c.Count("outcome/memory-cap", 1)
			continue
		case res.Exit == 141:
			c.Inconclusive("output-cap")
			c.Count("outcome/output-cap", 1)
			continue
		case res.Exit == -2:
			c.Inconclusive("harness-exec")
			continue
		}
		if res.Panicked() || res.Exit > 128 {
			site, msg := panicSite(res)
			k := "panic:" + site
			if selftest && !strings.Contains(site, "selftest") {
				k = "selftest-unattributed:" + k
			}
			c.Count("outcome/panic", 1)
			if q.kind == "probe" && q.sub != "" {
				if tagSites[q.sub] == nil {
					tagSites[q.sub] = map[string]bool{}
				}
				tagSites[q.sub][site] = true
			}
			if _, ok := siteWitness[site]; !ok || len(q.sql) < len(siteWitness[site]) {
				siteWitness[site] = strings.Join(trimArgs(q.args()), " | ") + "  =>  " + msg
			}
			c.Nontrivial(key)
			c.Violation(k, fmt.Sprintf("octosql died: %s at %s (exit %d); args: %q", msg, site, res.Exit, trimArgs(q.args())), replay)
			continue
		}
		// classify the orderly outcomes (evidence only)
		errLine := ""
		for _, l := range strings.Split(string(stderr), "\n") {
			if strings.HasPrefix(l, "Error:") {
				errLine = l
				break
			}
		}
		outcome := "ok"
		switch {
		case res.Exit == 0:
		case strings.HasPrefix(errLine, "Error: couldn't parse query"), strings.HasPrefix(errLine, "Error: only SELECT"):
			outcome = "parse-error"
		case strings.HasPrefix(errLine, "Error: typecheck error: runtime error"):
			outcome = "typecheck-recovered-go-panic"
		case strings.HasPrefix(errLine, "Error: typecheck error"):
			outcome = "typecheck-error"
		case strings.HasPrefix(errLine, "Error: couldn't run query"):
			outcome = "runtime-error"
		case errLine != "":
			outcome = "other-error"
		default:
			outcome = "nonzero-without-error-line"
		}
		c.Count("outcome/"+outcome, 1)
		if q.kind == "probe" && q.sub != "" {
			if tagSites[q.sub] == nil {
				tagSites[q.sub] = map[string]bool{}
			}
			tagSites[q.sub]["(no crash: "+outcome+")"] = true
		}
		if m := flagMode(q.flags); m != "" {
			c.Count("mode/"+m, 1)
		}
		if q.kind == "mutation" {
			for _, k := range strings.Split(q.sub, "+") {
				c.Count("mutation/"+k, 1)
			}
		}
		if outcome != "parse-error" && outcome != "other-error" && outcome != "nonzero-without-error-line" && !dup {
			// non-trivial: the query got past the parser, i.e. typechecker, optimizer or executor ran
			c.Nontrivial(key)
		}
		if outcome == "ok" || outcome == "runtime-error" {
			c.Sample(replay)
		}
	}
	// evidence: which anticipated sites the probes reached
	reached := map[string][]string{}
	for tag, sites := range tagSites {
		for s := range sites {
			reached[tag] = append(reached[tag], s)
		}
		sort.Strings(reached[tag])
	}
	c.Note("anticipated_sites_reached_by_probes", reached)
	if len(watchdogCases) > 0 {
		c.Note("watchdog_cases", watchdogCases)
	}
	c.Note("shortest_witness_per_panic_site", siteWitness)
	c.Note("bounds", "ulimit -v 6000000 KiB, 55 s kill timer, 32 MiB stdout cap per child; range() bounds checked textually; tail=/poll/plugins.* never run")

	return core.FinishOpts{
		Level: "exploration",
		Rule: "cases = fixed probes + function/aggregate table sweep (each argument at each edge value) + typed-grammar queries + token mutations " +
			"(delete, duplicate, swap, literal->edge value, token replace/insert, clause transplant) of all of those and of tests/scenarios/**/*.in + option mutation + hostile inputs x templates x modes; " +
			"non-trivial = accepted by the SQL parser (typechecker, optimizer or executor ran) or crashed; distinct by (query text, flags)",
		Floor:       c.Pick(900, 8000),
		Assumptions: []string{"a Go panic or fatal error always shows as exit status 2 / signal with a trace on stderr (cli.Result.Panicked)", "children that hit the memory, time or output cap are inconclusive"},
	}
}

func flagMode(flags []string) string {
	for i, f := range flags {
		if (f == "-o" || f == "--output") && i+1 < len(flags) {
			return flags[i+1]
		}
	}
	if len(flags) == 0 {
		return "json"
	}
	return ""
}

func trimArgs(a []string) []string {
	out := make([]string, len(a))
	for i, s := range a {
		if len(s) > 1500 {
			s = s[:700] + fmt.Sprintf("...[%d bytes]...", len(s)-1400) + s[len(s)-700:]
		}
		out[i] = s
	}
	return out
}

func trimBytes(b []byte, n int) []byte {
	if len(b) > n {
		return append(append([]byte{}, b[:n]...), []byte("...")...)
	}
	return b
}

// panicSite is cli.Result.PanicSite, except for a panic that was recovered and raised again
// (SimpleGroupBy.Run re-panics whatever its emit loop panicked with): then the trace of the
// crashing goroutine starts with the re-raising deferred function, and the frame where the panic
// originated is the first octosql frame below the last runtime `panic(` frame. Using the origin
// keeps one defect under one key whether or not a GROUP BY sits in the plan.
func panicSite(res cli.Result) (string, string) {
	site, msg := res.PanicSite()
	if !strings.Contains(msg, "[recovered]") {
		return site, msg
	}
	lines := strings.Split(string(res.Stderr), "\n")
	start := -1
	for i, l := range lines {
		if strings.HasPrefix(l, "goroutine ") {
			start = i
			break
		}
	}
	if start < 0 {
		return site, msg
	}
	lastPanic := -1
	end := len(lines)
	for i := start + 1; i < len(lines); i++ {
		if strings.TrimSpace(lines[i]) == "" {
			end = i
			break
		}
		if strings.HasPrefix(lines[i], "panic(") {
			lastPanic = i
		}
	}
	for i := lastPanic + 1; lastPanic >= 0 && i+1 < end; i++ {
		l := strings.TrimSpace(lines[i])
		if !strings.HasPrefix(l, "github.com/cube2222/octosql/") {
			continue
		}
		fn := l
		if j := strings.LastIndex(fn, "("); j > 0 {
			fn = fn[:j]
		}
		fn = strings.TrimPrefix(fn, "github.com/cube2222/octosql/")
		file := strings.TrimSpace(lines[i+1])
		if j := strings.Index(file, " +0x"); j > 0 {
			file = file[:j]
		}
		if j := strings.LastIndex(file, ":"); j > 0 {
			file = file[:j]
		}
		if j := strings.Index(file, "/repo/"); j >= 0 {
			file = file[j+len("/repo/"):]
		}
		return file + ":" + fn, msg
	}
	return site, msg
}

// onlyID returns the id of the single case to run: --only <id>, or the id stored in a --replay file.
func onlyID(c *core.Ctx) string {
	if c.Only != "" || c.Replay == "" {
		return c.Only
	}
	data, err := os.ReadFile(c.Replay)
	if err != nil {
		return ""
	}
	var r struct {
		Case struct {
			ID string `json:"id"`
		} `json:"case"`
	}
	if json.Unmarshal(data, &r) != nil {
		return ""
	}
	return r.Case.ID
}

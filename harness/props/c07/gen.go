package c07

import (
	"fmt"
	"math/rand"
	"sort"
	"strings"

	"github.com/cube2222/octosql/aggregates"
	"github.com/cube2222/octosql/functions"
	"github.com/cube2222/octosql/octosql"
)

// ---------------------------------------------------------------------------------------------
// edge-value pools, as SQL text, per static type

var intLits = []string{"0", "1", "-1", "2", "3", "7", "100", "1000000", maxInt, minIntExpr, "-" + maxInt, "2147483648", "9007199254740993"}
var floatLits = []string{"0.0", "-0.0", "1.5", "-1.5", "1e300", "-1e300", "1e-300", "(0.0 / 0.0)", "(1.0 / 0.0)", "(-1.0 / 0.0)", "9007199254740993.0"}
var strLits = []string{"''", "'a'", "'abc'", "'ABC'", "'é日本'", "'%'", "'_'", "'\\\\'", "'('", "'[a-'", "'*'", "' '", "'a%b_c'", "'2020-01-01T00:00:00Z'", "'12'", "'-5'", "'1e3'", "'" + strings.Repeat("x", 300) + "'"}
var boolLits = []string{"true", "false"}
var timeLits = []string{"time_from_unix(0)", "time_from_unix(-1)", "time_from_unix(1577836800)", "time_from_unix(253402300799)", "time_from_unix(-62135596800)", "time_from_unix(" + maxInt + ")", "now()"}
var durLits = []string{"INTERVAL 0 SECONDS", "INTERVAL 1 SECOND", "-INTERVAL 1 SECOND", "INTERVAL 1 NANOSECOND", "INTERVAL 1 DAY", "INTERVAL 9223372036 SECONDS", "-INTERVAL 9223372036 SECONDS", "INTERVAL 106751 DAYS"}
var listLits = []string{"j.l", "j.e", "j.ll", "j.lo", "(SELECT r.i FROM range(start=>0, end=>3) r)", "(SELECT r.i FROM range(start=>0, end=>0) r)", "(SELECT t2.s FROM t.csv t2)", "(SELECT t2.id, t2.s FROM t.csv t2)"}
var structLits = []string{"j.o", "j.lo[0]"}
var tupleLits = []string{"(1, 2)", "(1, 'a')", "((1, 2), 3)", "(NULL, NULL)", "(j.id, j.s)"}
var unionLits = []string{"j.u", "j.n", "t.n"}

var intCols = []string{"t.id", "t.g", "t.n"}
var floatCols = []string{"t.f", "j.id", "j.n"}
var strCols = []string{"t.s", "j.s"}
var boolCols = []string{"t.b"}
var timeCols = []string{"t.ts", "j.ts"}

func poolFor(t octosql.Type) []string {
	switch t.TypeID {
	case octosql.TypeIDNull:
		return []string{"NULL"}
	case octosql.TypeIDInt:
		return append(append([]string{}, intLits...), intCols...)
	case octosql.TypeIDFloat:
		return append(append([]string{}, floatLits...), floatCols...)
	case octosql.TypeIDBoolean:
		return append(append([]string{}, boolLits...), boolCols...)
	case octosql.TypeIDString:
		return append(append([]string{}, strLits...), strCols...)
	case octosql.TypeIDTime:
		return append(append([]string{}, timeLits...), timeCols...)
	case octosql.TypeIDDuration:
		return durLits
	case octosql.TypeIDList:
		return listLits
	case octosql.TypeIDStruct:
		return structLits
	case octosql.TypeIDTuple:
		return tupleLits
	case octosql.TypeIDUnion:
		var out []string
		for _, a := range t.Union.Alternatives {
			out = append(out, poolFor(a)...)
		}
		return out
	default: // Any
		var out []string
		out = append(out, "NULL", "0", "-1", maxInt, "1.5", "(0.0 / 0.0)", "''", "'abc'", "true", "time_from_unix(0)", "INTERVAL 0 SECONDS")
		out = append(out, listLits[:4]...)
		out = append(out, structLits...)
		out = append(out, tupleLits[:3]...)
		out = append(out, unionLits...)
		out = append(out, "t.id", "t.s", "j.id")
		return out
	}
}

// nominal: an unremarkable value of the type (used for the arguments that are not at an edge)
func nominalFor(t octosql.Type) string {
	switch t.TypeID {
	case octosql.TypeIDNull:
		return "NULL"
	case octosql.TypeIDInt:
		return "2"
	case octosql.TypeIDFloat:
		return "1.5"
	case octosql.TypeIDBoolean:
		return "true"
	case octosql.TypeIDString:
		return "'abc'"
	case octosql.TypeIDTime:
		return "time_from_unix(1577836800)"
	case octosql.TypeIDDuration:
		return "INTERVAL 1 SECOND"
	case octosql.TypeIDList:
		return "j.l"
	case octosql.TypeIDStruct:
		return "j.o"
	case octosql.TypeIDTuple:
		return "(1, 2)"
	case octosql.TypeIDUnion:
		if len(t.Union.Alternatives) > 0 {
			return nominalFor(t.Union.Alternatives[len(t.Union.Alternatives)-1])
		}
	}
	return "2"
}

var infix = map[string]string{"<": "<", "<=": "<=", "=": "=", "!=": "!=", ">=": ">=", ">": ">", "+": "+", "-": "-", "*": "*", "/": "/", "like": "LIKE", "~": "~", "~*": "~*", "in": "IN"}

func renderCall(name string, args []string) string {
	if op, ok := infix[name]; ok && len(args) == 2 {
		return "(" + args[0] + " " + op + " " + args[1] + ")"
	}
	switch {
	case name == "-" && len(args) == 1:
		return "(-" + args[0] + ")"
	case name == "not" && len(args) == 1:
		return "(NOT " + args[0] + ")"
	case name == "is null" && len(args) == 1:
		return "(" + args[0] + " IS NULL)"
	case name == "is not null" && len(args) == 1:
		return "(" + args[0] + " IS NOT NULL)"
	case name == "[]" && len(args) == 2:
		return args[0] + "[" + args[1] + "]"
	}
	return name + "(" + strings.Join(args, ", ") + ")"
}

// withFrom adds the FROM clause the expression's column references need.
func withFrom(selectList string) string {
	usesT := strings.Contains(selectList, "t.")
	usesJ := strings.Contains(selectList, "j.")
	switch {
	case usesT && usesJ:
		return "SELECT " + selectList + " FROM t.csv t, j.json j"
	case usesT:
		return "SELECT " + selectList + " FROM t.csv t"
	case usesJ:
		return "SELECT " + selectList + " FROM j.json j"
	}
	return "SELECT " + selectList
}

// functionSweep: every function x every descriptor x (each argument at each edge value, the
// others nominal) + `extra` random full combinations; the argument types come from octosql's own
// function table, so a new function or overload is swept automatically.
func functionSweep(rng *rand.Rand, extra int, capPerDescriptor int) (out []string, nFuncs, nDescr int) {
	fm := functions.FunctionMap()
	names := make([]string, 0, len(fm))
	for n := range fm {
		names = append(names, n)
	}
	sort.Strings(names)
	for _, name := range names {
		nFuncs++
		for _, d := range fm[name].Descriptors {
			nDescr++
			argTypes := d.ArgumentTypes
			if argTypes == nil && d.TypeFn != nil {
				ar := 1
				switch name {
				case "<", "<=", ">=", ">", "in", "[]", "=", "!=":
					ar = 2
				}
				for i := 0; i < ar; i++ {
					argTypes = append(argTypes, octosql.Any)
				}
				if name == "in" {
					argTypes[1] = octosql.Type{TypeID: octosql.TypeIDList}
				}
			}
			var exprs []string
			nom := make([]string, len(argTypes))
			for i, t := range argTypes {
				nom[i] = nominalFor(t)
			}
			if name == "panic" {
				continue // returns an error by design; its message contains "panic:", keep it out of the oracle's way
			}
			exprs = append(exprs, renderCall(name, nom))
			for i, t := range argTypes {
				for _, v := range poolFor(t) {
					args := append([]string{}, nom...)
					args[i] = v
					exprs = append(exprs, renderCall(name, args))
				}
				// NULL in every position
				args := append([]string{}, nom...)
				args[i] = "NULL"
				exprs = append(exprs, renderCall(name, args))
			}
			for k := 0; k < extra && len(argTypes) > 0; k++ {
				args := make([]string, len(argTypes))
				for i, t := range argTypes {
					p := poolFor(t)
					args[i] = p[rng.Intn(len(p))]
				}
				exprs = append(exprs, renderCall(name, args))
			}
			if capPerDescriptor > 0 && len(exprs) > capPerDescriptor {
				rng.Shuffle(len(exprs), func(a, b int) { exprs[a], exprs[b] = exprs[b], exprs[a] })
				exprs = exprs[:capPerDescriptor]
			}
			for _, e := range exprs {
				out = append(out, withFrom(e+" AS c"))
			}
		}
	}
	return out, nFuncs, nDescr
}

// aggregateSweep: every aggregate x every argument pool entry of its declared type, plain and
// grouped, with an incremental trigger so that retractions reach the aggregate.
func aggregateSweep(rng *rand.Rand, capPer int) (out []string, nAggs int) {
	names := make([]string, 0, len(aggregates.Aggregates))
	for n := range aggregates.Aggregates {
		names = append(names, n)
	}
	sort.Strings(names)
	for _, name := range names {
		nAggs++
		seen := map[string]bool{}
		var args []string
		for _, d := range aggregates.Aggregates[name].Descriptors {
			for _, v := range poolFor(d.ArgumentType) {
				if !seen[v] {
					seen[v] = true
					args = append(args, v)
				}
			}
		}
		for _, v := range []string{"NULL", "j.u", "j.o", "j.l", "t.s", "t.ts", "(1, 2)", "*"} {
			if !seen[v] {
				seen[v] = true
				args = append(args, v)
			}
		}
		if capPer > 0 && len(args) > capPer {
			rng.Shuffle(len(args), func(a, b int) { args[a], args[b] = args[b], args[a] })
			args = args[:capPer]
		}
		for _, a := range args {
			call := name + "(" + a + ")"
			from, key := "t.csv t", "t.g"
			if strings.Contains(a, "j.") {
				if strings.Contains(a, "t.") {
					continue
				}
				from, key = "j.json j", "j.s"
			}
			switch rng.Intn(4) {
			case 0:
				out = append(out, fmt.Sprintf("SELECT %s AS c FROM %s", call, from))
			case 1:
				out = append(out, fmt.Sprintf("SELECT %s AS k, %s AS c FROM %s GROUP BY %s", key, call, from, key))
			case 2:
				out = append(out, fmt.Sprintf("SELECT %s AS k, %s AS c FROM %s GROUP BY %s TRIGGER COUNTING 1", key, call, from, key))
			default:
				out = append(out, fmt.Sprintf("SELECT %s AS c FROM %s WHERE false", call, from))
			}
		}
	}
	return out, nAggs
}

// ---------------------------------------------------------------------------------------------
// typed grammar

type ty int

const (
	tInt ty = iota
	tFloat
	tBool
	tStr
	tTime
	tDur
	tList
	tAny
)

type prod struct {
	out  ty
	fmt  string
	args []ty
}

var prods = []prod{
	{tInt, "(%s + %s)", []ty{tInt, tInt}}, {tInt, "(%s - %s)", []ty{tInt, tInt}}, {tInt, "(%s * %s)", []ty{tInt, tInt}},
	{tInt, "(%s / %s)", []ty{tInt, tInt}}, {tInt, "abs(%s)", []ty{tInt}}, {tInt, "(-%s)", []ty{tInt}},
	{tInt, "len(%s)", []ty{tStr}}, {tInt, "len(%s)", []ty{tList}}, {tInt, "int(%s)", []ty{tFloat}}, {tInt, "int(%s)", []ty{tStr}},
	{tInt, "int(%s)", []ty{tBool}}, {tInt, "position(%s, %s)", []ty{tStr, tStr}}, {tInt, "time_to_unix(%s)", []ty{tTime}},
	{tInt, "COALESCE(t.n, %s)", []ty{tInt}}, {tInt, "int(%s)", []ty{tDur}},
	{tFloat, "(%s + %s)", []ty{tFloat, tFloat}}, {tFloat, "(%s * %s)", []ty{tFloat, tFloat}}, {tFloat, "(%s / %s)", []ty{tFloat, tFloat}},
	{tFloat, "sqrt(%s)", []ty{tFloat}}, {tFloat, "pow(%s, %s)", []ty{tFloat, tFloat}}, {tFloat, "float(%s)", []ty{tInt}}, {tFloat, "float(%s)", []ty{tStr}},
	{tFloat, "ceil(%s)", []ty{tFloat}}, {tFloat, "log(%s)", []ty{tFloat}}, {tFloat, "abs(%s)", []ty{tFloat}}, {tFloat, "j.l[%s]", []ty{tInt}},
	{tFloat, "(%s / %s)", []ty{tDur, tDur}}, {tFloat, "j.o->x", nil},
	{tBool, "(%s < %s)", []ty{tInt, tInt}}, {tBool, "(%s = %s)", []ty{tInt, tInt}}, {tBool, "(%s >= %s)", []ty{tFloat, tFloat}},
	{tBool, "(%s != %s)", []ty{tStr, tStr}}, {tBool, "(%s < %s)", []ty{tStr, tStr}}, {tBool, "(%s <= %s)", []ty{tTime, tTime}},
	{tBool, "(%s > %s)", []ty{tDur, tDur}}, {tBool, "(%s = %s)", []ty{tAny, tAny}}, {tBool, "(%s AND %s)", []ty{tBool, tBool}},
	{tBool, "(%s OR %s)", []ty{tBool, tBool}}, {tBool, "(NOT %s)", []ty{tBool}}, {tBool, "(%s IS NULL)", []ty{tAny}},
	{tBool, "(%s IS NOT NULL)", []ty{tAny}}, {tBool, "(%s LIKE %s)", []ty{tStr, tStr}}, {tBool, "(%s ~ %s)", []ty{tStr, tStr}},
	{tBool, "(%s ~* %s)", []ty{tStr, tStr}}, {tBool, "(%s IN (%s, %s))", []ty{tInt, tInt, tInt}}, {tBool, "(%s IN (%s, %s))", []ty{tStr, tStr, tAny}},
	{tBool, "(%s IN %s)", []ty{tAny, tList}}, {tBool, "(%s NOT IN (%s))", []ty{tInt, tInt}}, {tBool, "((%s, %s) = (%s, %s))", []ty{tInt, tStr, tInt, tStr}},
	{tStr, "(%s + %s)", []ty{tStr, tStr}}, {tStr, "upper(%s)", []ty{tStr}}, {tStr, "lower(%s)", []ty{tStr}}, {tStr, "reverse(%s)", []ty{tStr}},
	{tStr, "substr(%s, %s)", []ty{tStr, tInt}}, {tStr, "substr(%s, %s, %s)", []ty{tStr, tInt, tInt}}, {tStr, "replace(%s, %s, %s)", []ty{tStr, tStr, tStr}},
	{tStr, "(%s * %s)", []ty{tStr, tInt}}, {tStr, "(%s * %s)", []ty{tInt, tStr}}, {tStr, "string(%s)", []ty{tAny}}, {tStr, "j.o->y", nil},
	{tStr, "COALESCE(%s, %s)", []ty{tStr, tStr}},
	{tTime, "(%s + %s)", []ty{tTime, tDur}}, {tTime, "(%s - %s)", []ty{tTime, tDur}}, {tTime, "(%s + %s)", []ty{tDur, tTime}},
	{tTime, "time_from_unix(%s)", []ty{tInt}}, {tTime, "parse_time(%s, %s)", []ty{tStr, tStr}},
	{tDur, "(%s + %s)", []ty{tDur, tDur}}, {tDur, "(%s - %s)", []ty{tDur, tDur}}, {tDur, "(%s * %s)", []ty{tDur, tInt}}, {tDur, "(%s * %s)", []ty{tInt, tDur}},
	{tDur, "(%s / %s)", []ty{tDur, tInt}}, {tDur, "(%s - %s)", []ty{tTime, tTime}}, {tDur, "(-%s)", []ty{tDur}},
	{tList, "(SELECT r.i + %s FROM range(start=>0, end=>%s) r)", []ty{tInt, tInt}},
	{tAny, "COALESCE(%s, %s)", []ty{tAny, tAny}}, {tAny, "%s::int", []ty{tAny}}, {tAny, "%s::string", []ty{tAny}}, {tAny, "%s[%s]", []ty{tList, tInt}},
	{tAny, "(%s, %s)", []ty{tAny, tAny}}, {tAny, "j.u->q", nil}, {tAny, "j.lo[%s]->k", []ty{tInt}},
}

type gen struct {
	rng    *rand.Rand
	byType map[ty][]prod
	tabs   string // which table aliases are in scope: "t", "j", "tj"
}

func newGen(rng *rand.Rand) *gen {
	g := &gen{rng: rng, byType: map[ty][]prod{}}
	for _, p := range prods {
		g.byType[p.out] = append(g.byType[p.out], p)
	}
	return g
}

func (g *gen) pick(xs []string) string { return xs[g.rng.Intn(len(xs))] }

func (g *gen) inScope(s string) bool {
	if strings.Contains(s, "t.") && !strings.Contains(s, "t2.") && !strings.Contains(g.tabs, "t") {
		return false
	}
	if strings.Contains(s, "j.") && !strings.Contains(g.tabs, "j") {
		return false
	}
	return true
}

func (g *gen) leaf(t ty) string {
	var pool []string
	switch t {
	case tInt:
		pool = append(append([]string{}, intLits...), intCols...)
		pool = append(pool, intCols...) // columns twice: run-time values matter more than constants
	case tFloat:
		pool = append(append([]string{}, floatLits...), floatCols...)
	case tBool:
		pool = append(append([]string{}, boolLits...), boolCols...)
	case tStr:
		pool = append(append([]string{}, strLits[:len(strLits)-1]...), strCols...)
		pool = append(pool, strCols...)
	case tTime:
		pool = append(append([]string{}, timeLits...), timeCols...)
	case tDur:
		pool = durLits
	case tList:
		pool = listLits
	default:
		pool = poolFor(octosql.Any)
	}
	for tries := 0; tries < 20; tries++ {
		s := g.pick(pool)
		if g.inScope(s) {
			return s
		}
	}
	switch t {
	case tInt:
		return g.pick(intLits)
	case tFloat:
		return g.pick(floatLits)
	case tBool:
		return g.pick(boolLits)
	case tStr:
		return g.pick(strLits[:8])
	case tTime:
		return g.pick(timeLits)
	case tDur:
		return g.pick(durLits)
	case tList:
		return "(SELECT r.i FROM range(start=>0, end=>3) r)"
	}
	return "NULL"
}

func (g *gen) expr(t ty, depth int) string {
	if depth <= 0 || g.rng.Intn(4) == 0 {
		return g.leaf(t)
	}
	ps := g.byType[t]
	for tries := 0; tries < 10; tries++ {
		p := ps[g.rng.Intn(len(ps))]
		if !g.inScope(p.fmt) {
			continue
		}
		args := make([]interface{}, len(p.args))
		for i, at := range p.args {
			args[i] = g.expr(at, depth-1)
		}
		s := fmt.Sprintf(p.fmt, args...)
		// keep range() sizes small: the end argument of the list production must be a small literal
		if t == tList {
			s = fmt.Sprintf("(SELECT r.i + %s FROM range(start=>0, end=>%d) r)", args[0], g.rng.Intn(4))
		}
		return s
	}
	return g.leaf(t)
}

func (g *gen) anyType() ty { return ty(g.rng.Intn(int(tAny) + 1)) }

var limitEdges = []string{"0", "1", "3", "-1", "1000000", maxInt, "NULL", "'a'", "1.5", "(SELECT 1)", minIntExpr}
var joinKinds = []string{"JOIN", "JOIN", "LEFT JOIN", "RIGHT JOIN", "OUTER JOIN", "LOOKUP JOIN"}
var triggers = []string{"", "", " TRIGGER COUNTING 1", " TRIGGER COUNTING 2", " TRIGGER COUNTING 0", " TRIGGER ON END OF STREAM", " TRIGGER ON WATERMARK", " TRIGGER ON END OF STREAM, COUNTING 3", " TRIGGER COUNTING -1"}
var aggNames = []string{"count", "sum", "avg", "max", "min", "array_agg", "count_distinct", "sum_distinct", "avg_distinct", "array_agg_distinct"}

// query builds one random query. The shapes follow DESIGN §3.1.
func (g *gen) query() string {
	r := g.rng
	depth := 1 + r.Intn(3)
	var from string
	switch r.Intn(10) {
	case 0, 1, 2:
		g.tabs, from = "t", "t.csv t"
	case 3, 4:
		g.tabs, from = "j", "j.json j"
	case 5:
		g.tabs, from = "tj", "t.csv t, j.json j"
	case 6, 7:
		g.tabs = "tj"
		on := g.joinOn(depth)
		from = fmt.Sprintf("t.csv t %s j.json j ON %s", g.pick(joinKinds), on)
	case 8:
		g.tabs = "t"
		inner := g.expr(tBool, depth)
		from = fmt.Sprintf("(SELECT * FROM t.csv t WHERE %s) t", inner)
	default:
		g.tabs, from = "", ""
	}
	n := 1 + r.Intn(3)
	var sel []string
	for i := 0; i < n; i++ {
		sel = append(sel, fmt.Sprintf("%s AS c%d", g.expr(g.anyType(), depth), i))
	}
	q := "SELECT "
	grouped := false
	switch {
	case from != "" && r.Intn(4) == 0:
		// GROUP BY
		grouped = true
		nk := r.Intn(3)
		var keys, ksel []string
		for i := 0; i < nk; i++ {
			k := g.expr(g.anyType(), depth-1)
			keys = append(keys, k)
			ksel = append(ksel, fmt.Sprintf("%s AS k%d", k, i))
		}
		var aggs []string
		for i := 0; i <= r.Intn(3); i++ {
			a := g.pick(aggNames)
			arg := g.expr(g.anyType(), depth-1)
			if r.Intn(8) == 0 {
				arg = "*"
			}
			if r.Intn(6) == 0 {
				arg = "DISTINCT " + arg
			}
			aggs = append(aggs, fmt.Sprintf("%s(%s) AS a%d", a, arg, i))
		}
		q += strings.Join(append(ksel, aggs...), ", ") + " FROM " + from
		if r.Intn(3) == 0 {
			q += " WHERE " + g.expr(tBool, depth)
		}
		if nk > 0 {
			q += " GROUP BY " + strings.Join(keys, ", ")
		}
		q += g.pick(triggers)
	default:
		if r.Intn(6) == 0 {
			q += "DISTINCT "
		}
		q += strings.Join(sel, ", ")
		if from != "" {
			q += " FROM " + from
			if r.Intn(2) == 0 {
				q += " WHERE " + g.expr(tBool, depth)
			}
		}
	}
	if r.Intn(4) == 0 {
		col := "c0"
		if grouped {
			col = "a0"
		}
		q += " ORDER BY " + col
		if r.Intn(2) == 0 {
			q += " DESC"
		}
	}
	if r.Intn(5) == 0 {
		q += " LIMIT " + g.pick(limitEdges)
	}
	switch r.Intn(12) {
	case 0:
		q = "SELECT * FROM (" + q + ") x"
	case 1:
		q = "WITH x AS (" + q + ") SELECT * FROM x"
	case 2:
		q = "SELECT (" + q + ") AS sub"
	}
	return q
}

// joinOn: join conditions of many kinds, including the ones the join optimizers choke on.
func (g *gen) joinOn(depth int) string {
	r := g.rng
	eqs := []string{"t.id = j.id", "float(t.id) = j.id", "t.s = j.s", "t.f = j.id", "t.ts = j.ts", "t.n = j.n", "t.g = int(j.id)", "t.s = j.o->y", "float(t.g) = j.o->x"}
	if r.Intn(4) == 0 {
		// comparison whose operands are left-only / right-only / mixed / constant, in any combination
		kinds := [][]string{
			{"float(t.id)", "t.f", "float(t.g) + 1.0", "abs(t.f)"},
			{"j.id", "j.id + 1.0", "abs(j.id)", "j.o->x"},
			{"t.f + j.id", "j.id - float(t.g)", "abs(j.id * t.f)", "float(t.g) + j.o->x"},
			{"1.0", "2.0 * 3.0", "float(7)"},
		}
		a := g.pick(kinds[r.Intn(len(kinds))])
		b := g.pick(kinds[r.Intn(len(kinds))])
		pred := a + " " + g.pick([]string{"=", "=", "=", "<", "!=", ">="}) + " " + b
		if r.Intn(3) == 0 {
			pred = g.pick(eqs) + " AND " + pred
		}
		return pred
	}
	switch r.Intn(12) {
	case 0, 1, 2:
		return g.pick(eqs)
	case 3:
		return g.pick(eqs) + " AND " + g.pick(eqs)
	case 4:
		return g.pick(eqs) + " AND " + g.expr(tBool, depth)
	case 5:
		return g.expr(tBool, depth)
	case 6:
		return "t.id IN (1, 2, " + g.leaf(tInt) + ")"
	case 7:
		return "COALESCE(t.n, 0) = int(j.id)"
	case 8:
		return "j.id IN (SELECT float(t2.id) FROM t.csv t2)"
	case 9:
		return g.pick(eqs) + " OR " + g.pick(eqs)
	case 10:
		return "(t.id, t.s) = (int(j.id), j.s)"
	default:
		return g.pick([]string{"true", "false", "NULL", "1", "t.b", "j.u::boolean", "NOT (t.s = j.s)", "t.id > int(j.id)"})
	}
}

// tvfQuery: table valued functions with arguments at their edges (range sizes stay tiny).
func (g *gen) tvfQuery() string {
	r := g.rng
	durs := append([]string{}, durLits...)
	durs = append(durs, "INTERVAL 3 SECONDS", "INTERVAL 0 SECONDS", "-INTERVAL 3 SECONDS", "NULL", "1", "'a'")
	small := []string{"0", "1", "-1", "5", "-5", "10", minIntExpr, maxInt, "NULL", "'a'", "1.5", "t.id"}
	switch r.Intn(6) {
	case 0:
		a, b := g.pick(small), g.pick(small)
		if (a == minIntExpr && b != minIntExpr) || (b == maxInt && a != maxInt) {
			b = a // an astronomically long range would only test the watchdog
		}
		if a == minIntExpr || a == "-"+maxInt {
			b = "-9223372036854775806"
		}
		if a == maxInt {
			b = maxInt
		}
		if b == maxInt && a != maxInt {
			a = "9223372036854775805"
		}
		return fmt.Sprintf("SELECT * FROM range(start=>%s, end=>%s) r", a, b)
	case 1:
		q := fmt.Sprintf("SELECT * FROM max_diff_watermark(source=>TABLE(tm.json), max_diff=>%s, time_field=>DESCRIPTOR(%s)", g.pick(durs), g.pick([]string{"ts", "ts", "ts", "id", "nosuch"}))
		if r.Intn(2) == 0 {
			q += ", resolution=>" + g.pick(durs)
		}
		return q + ") m"
	case 2:
		q := fmt.Sprintf("SELECT * FROM tumble(source=>TABLE(tm.json), window_length=>%s, time_field=>DESCRIPTOR(ts)", g.pick(durs))
		if r.Intn(2) == 0 {
			q += ", offset=>" + g.pick(durs)
		}
		return q + ") w"
	case 3:
		return fmt.Sprintf("WITH m AS (SELECT * FROM max_diff_watermark(source=>TABLE(tm.json), max_diff=>%s, time_field=>DESCRIPTOR(ts)) m), "+
			"w AS (SELECT * FROM tumble(source=>TABLE(m), window_length=>%s, time_field=>DESCRIPTOR(ts), offset=>%s) w) "+
			"SELECT window_end, count(*) AS c FROM w GROUP BY window_end%s", g.pick(durs), g.pick(durs), g.pick(durs), g.pick(triggers))
	case 4:
		return fmt.Sprintf("SELECT * FROM range(start=>0, end=>4) a %s range(start=>%s, end=>3) b ON a.i = b.i", g.pick(joinKinds), g.pick([]string{"0", "1", "-2", "5"}))
	default:
		return fmt.Sprintf("SELECT * FROM tumble(source=>TABLE(t.csv), window_length=>%s, time_field=>DESCRIPTOR(%s)) w", g.pick(durs), g.pick([]string{"ts", "id", "s", "n"}))
	}
}

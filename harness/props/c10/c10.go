// Package c10: type algebra laws.
//
// R: a type or ordered pair of types violating: Is reflexive; TypeSum(a,b) is an upper bound of a
// and of b (x.Is(sum) == TypeRelationIs, and every universe value matching x matches sum);
// TypeSum commutative and idempotent up to Equals; TypeIntersection(a,b) non-nil => contained in
// a and in b; NonNullable removes exactly NULL; every value matches the type it reports.
// O: the laws themselves, with the harness' own matches(value, type) (vals.Matches) for the
// value-level legs.
// W: exhaustive over a generated type universe (closure of the base types and one-level
// list/object/tuple constructors under TypeSum and one more round of nesting), all ordered
// pairs; all values of C09's universe plus seeded random deep values for the last law.
package c10

import (
	"fmt"
	"os"
	"sort"
	"strings"
	"time"

	"github.com/cube2222/octosql/octosql"
	"github.com/cube2222/octosql/physical"

	"github.com/cube2222/octosql/plugins/verifharness/core"
	"github.com/cube2222/octosql/plugins/verifharness/nodeh"
	"github.com/cube2222/octosql/plugins/verifharness/props/c09/vals"
)

func init() { core.Register("C10", Run) }

const is = octosql.TypeRelationIs

// ---------------------------------------------------------------------------------------------
// type universe

type ty struct {
	t octosql.Type
	s string // canonical rendering (own), also the identity used for de-duplication
}

// render is the harness' own canonical rendering (Type.String() is the code under test's).
func render(t octosql.Type) string {
	var sb strings.Builder
	renderTo(&sb, t)
	return sb.String()
}

func renderTo(sb *strings.Builder, t octosql.Type) {
	switch t.TypeID {
	case octosql.TypeIDList:
		sb.WriteString("[")
		if t.List.Element != nil {
			renderTo(sb, *t.List.Element)
		}
		sb.WriteString("]")
	case octosql.TypeIDStruct:
		sb.WriteString("{")
		for i, f := range t.Struct.Fields {
			if i > 0 {
				sb.WriteString("; ")
			}
			sb.WriteString(f.Name)
			sb.WriteString(": ")
			renderTo(sb, f.Type)
		}
		sb.WriteString("}")
	case octosql.TypeIDTuple:
		sb.WriteString("(")
		for i, e := range t.Tuple.Elements {
			if i > 0 {
				sb.WriteString(", ")
			}
			renderTo(sb, e)
		}
		sb.WriteString(")")
	case octosql.TypeIDUnion:
		sb.WriteString("<")
		for i, a := range t.Union.Alternatives {
			if i > 0 {
				sb.WriteString(" | ")
			}
			renderTo(sb, a)
		}
		sb.WriteString(">")
	default:
		sb.WriteString(t.TypeID.String())
	}
}

type universe struct {
	list []ty
	seen map[string]bool
}

func (u *universe) add(t octosql.Type) {
	s := render(t)
	if u.seen[s] {
		return
	}
	u.seen[s] = true
	u.list = append(u.list, ty{t, s})
}

func constructors1(T octosql.Type) []octosql.Type {
	return []octosql.Type{
		vals.ListOf(T),
		vals.ObjectOf(vals.Field("a", T)),
		vals.ObjectOf(vals.Field("b", T)),
		vals.TupleOf(T),
	}
}

func constructors2(T, T2 octosql.Type) []octosql.Type {
	return []octosql.Type{
		vals.ObjectOf(vals.Field("a", T), vals.Field("b", T2)),
		vals.TupleOf(T, T2),
	}
}

func c10NestEvery(thorough bool) int {
	if thorough {
		return 8
	}
	return 16
}

func buildUniverse(thorough bool) (*universe, map[string]int) {
	u := &universe{seen: map[string]bool{}}
	sizes := map[string]int{}
	base := []octosql.Type{octosql.Null, octosql.Int, octosql.Float, octosql.Boolean, octosql.String, octosql.Time, octosql.Duration, octosql.Any, vals.EmptyList()}
	for _, t := range base {
		u.add(t)
	}
	sizes["base"] = len(u.list)
	e1 := []octosql.Type{octosql.Null, octosql.Int, octosql.String, octosql.Any, vals.EmptyList()}
	if thorough {
		e1 = base
	}
	for _, T := range e1 {
		for _, t := range constructors1(T) {
			u.add(t)
		}
	}
	e2 := []octosql.Type{octosql.Int, octosql.String, octosql.Null}
	for _, T := range e2 {
		for _, T2 := range e2 {
			for _, t := range constructors2(T, T2) {
				u.add(t)
			}
		}
	}
	u.add(vals.ObjectOf())
	u.add(vals.TupleOf())
	// an object type whose fields are not sorted by name (a multi-column subquery produces these)
	u.add(vals.ObjectOf(vals.Field("b", octosql.Int), vals.Field("a", octosql.String)))
	sizes["round1"] = len(u.list)
	r1 := append([]ty{}, u.list...)
	// closure under TypeSum: every round-1 type with a set of partners (all of round 1 in thorough)
	partners := []ty{}
	{
		names := []string{"Null", "Int", "String", "[Int]", "{a: Int}", "{a: Int; b: String}", "(Int)", "(Int, Int)"}
		if thorough {
			names = append(names, "Float", "Boolean", "Time", "[String]", "[Null]", "[]", "{b: Int}", "{a: String}", "{a: Null}", "{}", "(String)", "(Null)", "(Int, String)", "()", "{b: Int; a: String}")
		}
		for _, s := range names {
			for _, t := range r1 {
				if t.s == s {
					partners = append(partners, t)
				}
			}
		}
	}
	for _, a := range r1 {
		for _, b := range partners {
			u.add(octosql.TypeSum(a.t, b.t))
		}
	}
	sizes["after_typesum"] = len(u.list)
	// one more round of nesting over selected sums
	nestN := 0
	snapshot := append([]ty{}, u.list...)
	for i, t := range snapshot {
		if t.t.TypeID != octosql.TypeIDUnion {
			continue
		}
		nestN++
		if nestN%c10NestEvery(thorough) != 1 && i > 0 {
			continue
		}
		for _, x := range constructors1(t.t) {
			u.add(x)
		}
		for _, x := range constructors2(t.t, octosql.Int) {
			u.add(x)
		}
	}
	sizes["after_nesting"] = len(u.list)
	// three-way unions (sums of sums)
	for _, s := range []octosql.Type{octosql.TypeSum(octosql.TypeSum(octosql.Int, octosql.String), octosql.Null),
		octosql.TypeSum(octosql.TypeSum(octosql.Int, octosql.Float), octosql.String),
		octosql.TypeSum(octosql.TypeSum(octosql.Boolean, octosql.Time), octosql.String),
		octosql.TypeSum(octosql.TypeSum(octosql.Int, vals.ListOf(octosql.Int)), vals.TupleOf(octosql.Int))} {
		u.add(s)
	}
	// unions built by struct literal, NOT through TypeSum (the engine builds such unions itself:
	// logical.TypecheckPossiblyNullableStruct makes {object, NULL}): NULL first / in the middle /
	// last, unsorted alternatives, 2-4 alternatives; no duplicate type ids, no nested unions.
	n0 := len(u.list)
	oa := vals.ObjectOf(vals.Field("a", octosql.Int))
	li := vals.ListOf(octosql.Int)
	tu := vals.TupleOf(octosql.Int)
	N, I, F, S, B := octosql.Null, octosql.Int, octosql.Float, octosql.String, octosql.Boolean
	for _, alts := range [][]octosql.Type{
		{S, N}, {I, N}, {oa, N}, {li, N}, {tu, N}, {N, oa}, {S, I}, {oa, S}, {tu, li},
		{I, N, S}, {S, I, N}, {N, S, I}, {S, oa, N}, {oa, N, S}, {li, N, oa}, {S, F, I},
		{F, N, I, S}, {S, F, I, N}, {N, S, F, I}, {S, oa, N, li}, {B, S, F, I},
	} {
		u.add(vals.UnionOf(append([]octosql.Type{}, alts...)...))
	}
	sizes["hand_built_unions"] = len(u.list) - n0
	sizes["total"] = len(u.list)
	return u, sizes
}

// ---------------------------------------------------------------------------------------------
// input predicates and symptom shapes for the TypeSum findings

// shapeMismatch walks a and b in parallel (pairing union alternatives by type id) and reports
// whether somewhere an object type meets an object type with a different field-name sequence
// ("object-field-sets" if the name sets differ, "object-field-order" if only the order differs)
// or a tuple meets a tuple of a different length ("tuple-lengths").
func shapeMismatch(a, b octosql.Type, out map[string]bool) {
	alts := func(t octosql.Type) []octosql.Type {
		if t.TypeID == octosql.TypeIDUnion {
			return t.Union.Alternatives
		}
		return []octosql.Type{t}
	}
	for _, x := range alts(a) {
		for _, y := range alts(b) {
			if x.TypeID != y.TypeID {
				continue
			}
			switch x.TypeID {
			case octosql.TypeIDList:
				if x.List.Element != nil && y.List.Element != nil {
					shapeMismatch(*x.List.Element, *y.List.Element, out)
				}
			case octosql.TypeIDStruct:
				xn, yn := names(x), names(y)
				if strings.Join(xn, "\x00") != strings.Join(yn, "\x00") {
					sx, sy := append([]string{}, xn...), append([]string{}, yn...)
					sort.Strings(sx)
					sort.Strings(sy)
					if strings.Join(sx, "\x00") == strings.Join(sy, "\x00") {
						out["object-field-order"] = true
					} else {
						out["object-field-sets"] = true
					}
				}
				if !sort.StringsAreSorted(xn) || !sort.StringsAreSorted(yn) {
					out["object-field-order"] = true
				}
				for _, fx := range x.Struct.Fields {
					for _, fy := range y.Struct.Fields {
						if fx.Name == fy.Name {
							shapeMismatch(fx.Type, fy.Type, out)
						}
					}
				}
			case octosql.TypeIDTuple:
				if len(x.Tuple.Elements) != len(y.Tuple.Elements) {
					out["tuple-lengths"] = true
				}
				for i := range x.Tuple.Elements {
					if i < len(y.Tuple.Elements) {
						shapeMismatch(x.Tuple.Elements[i], y.Tuple.Elements[i], out)
					}
				}
			}
		}
	}
}

func names(t octosql.Type) []string {
	out := make([]string, len(t.Struct.Fields))
	for i, f := range t.Struct.Fields {
		out[i] = f.Name
	}
	return out
}

// whyIsnt names the structural reason why x is not contained in sup, by the harness' own reading
// of containment: "object-fields" (an object of x meets only objects with another field-name
// sequence), "tuple-length", or "other".
func whyIsnt(x, sup octosql.Type) string {
	if sup.TypeID == octosql.TypeIDAny {
		return ""
	}
	if x.TypeID == octosql.TypeIDUnion {
		for _, a := range x.Union.Alternatives {
			if w := whyIsnt(a, sup); w != "" {
				return w
			}
		}
		return ""
	}
	if sup.TypeID == octosql.TypeIDUnion {
		best := "other"
		for _, a := range sup.Union.Alternatives {
			w := whyIsnt(x, a)
			if w == "" {
				return ""
			}
			if a.TypeID == x.TypeID {
				best = w
			}
		}
		return best
	}
	if x.TypeID != sup.TypeID {
		return "other"
	}
	switch x.TypeID {
	case octosql.TypeIDList:
		if x.List.Element == nil {
			return ""
		}
		if sup.List.Element == nil {
			return "other"
		}
		return whyIsnt(*x.List.Element, *sup.List.Element)
	case octosql.TypeIDStruct:
		if strings.Join(names(x), "\x00") != strings.Join(names(sup), "\x00") {
			return "object-fields"
		}
		for i := range x.Struct.Fields {
			if w := whyIsnt(x.Struct.Fields[i].Type, sup.Struct.Fields[i].Type); w != "" {
				return w
			}
		}
	case octosql.TypeIDTuple:
		if len(x.Tuple.Elements) != len(sup.Tuple.Elements) {
			return "tuple-length"
		}
		for i := range x.Tuple.Elements {
			if w := whyIsnt(x.Tuple.Elements[i], sup.Tuple.Elements[i]); w != "" {
				return w
			}
		}
	}
	return ""
}

// sumKey attributes a "TypeSum is not an upper bound" observation: only when the INPUT pair has
// the shape mismatch and the symptom is of the matching kind does it get the finding's key.
func sumKey(a, b, x, sum octosql.Type) string {
	shapes := map[string]bool{}
	shapeMismatch(a, b, shapes)
	switch w := whyIsnt(x, sum); {
	case w == "object-fields" && shapes["object-field-sets"]:
		return "typesum-not-upper-bound/object-field-sets-differ"
	case w == "object-fields" && shapes["object-field-order"]:
		return "typesum-not-upper-bound/object-fields-unsorted"
	case w == "tuple-length" && shapes["tuple-lengths"]:
		return "typesum-not-upper-bound/tuple-lengths-differ"
	default:
		return "typesum-not-upper-bound/" + w
	}
}

// ---------------------------------------------------------------------------------------------

type checker struct {
	c        *core.Ctx
	selftest bool
	vs       []vals.Named
	match    [][]bool // match[vi][ti]
}

func (k *checker) isRel(a, b octosql.Type) (r octosql.TypeRelation, panicked string) {
	p, msg := core.Try(func() { r = a.Is(b) })
	if p {
		return 0, msg
	}
	return r, ""
}

func pairReplay(a, b ty, extra map[string]interface{}) map[string]interface{} {
	m := map[string]interface{}{"id": "pair/" + core.Hash(a.s, b.s), "a": a.s, "b": b.s}
	for k, v := range extra {
		m[k] = v
	}
	return m
}

// counts is a per-row counter buffer (the shared counters take a global lock).
type counts map[string]int

func (m counts) Count(name string, n int) { m[name] += n }

// violation reports through c.Violation, but at most 3 per key and row of the pair matrix; the
// rest is only counted (counter "violations_counted_only/<key>"): the two TypeSum findings fire on
// a large share of all pairs and every c.Violation takes the global lock.
func (m counts) violation(c *core.Ctx, key string, what func() string, replay func() map[string]interface{}) {
	m["__v/"+key]++
	if m["__v/"+key] > 3 {
		m["violations_counted_only/"+key]++
		return
	}
	c.Violation(key, what(), replay())
}

func (m counts) flush(c *core.Ctx) {
	for k := range m {
		if strings.HasPrefix(k, "__v/") {
			delete(m, k)
		}
	}
	for k, v := range m {
		c.Count(k, v)
	}
}

func (k0 *checker) checkPair(u *universe, ai, bi int, cnt counts) {
	c := k0.c
	a, b := u.list[ai], u.list[bi]
	cnt.Count("__eval", 1)
	var sum, sumBA octosql.Type
	var inter *octosql.Type
	if p, msg := core.Try(func() {
		sum = octosql.TypeSum(a.t, b.t)
		sumBA = octosql.TypeSum(b.t, a.t)
		inter = octosql.TypeIntersection(a.t, b.t)
	}); p {
		c.Violation("panic", "TypeSum/TypeIntersection panicked: "+msg, pairReplay(a, b, nil))
		return
	}
	k := struct {
		*checker
		pfxT
	}{k0, false}
	if k.selftest && (ai*31+bi)%1009 == 0 && a.t.TypeID != b.t.TypeID && a.t.TypeID != octosql.TypeIDAny && b.t.TypeID != octosql.TypeIDAny {
		// corrupt the recording: pretend TypeSum returned its first argument, TypeIntersection its second
		sum = a.t
		inter = &b.t
		k.pfxT = true
	}
	sums := render(sum)
	// upper bound
	for _, x := range []ty{a, b} {
		ok := x.t.Is(sum) == is
		if !ok {
			cnt.violation(c, k.pfx()+sumKey(a.t, b.t, x.t, sum), func() string { return fmt.Sprintf("TypeSum(%s, %s) = %s is not an upper bound of %s (Is = %d)", a.s, b.s, sums, x.s, x.t.Is(sum)) },
				func() map[string]interface{} { return pairReplay(a, b, map[string]interface{}{"sum": sums, "law": "upper-bound"}) })
			cnt.Count("law/upper-bound/violated", 1)
			break
		}
		// value level: every universe value of x is a value of the sum
		xi := ai
		if x.s == b.s {
			xi = bi
		}
		for vi := range k.vs {
			if k.match[vi][xi] && !vals.Matches(k.vs[vi].V, sum) {
				c.Violation(k.pfx()+"typesum-not-upper-bound/value-level-only", fmt.Sprintf("value %s matches %s but not TypeSum(%s, %s) = %s although Is says contained", k.vs[vi].Name, x.s, a.s, b.s, sums),
					pairReplay(a, b, map[string]interface{}{"sum": sums, "law": "upper-bound-values", "value": vals.Describe(k.vs[vi].V)}))
				break
			}
		}
	}
	cnt.Count("law/upper-bound/checked", 1)
	// commutative
	if !sum.Equals(sumBA) || !sumBA.Equals(sum) {
		c.Violation(k.pfx()+"typesum-not-commutative", fmt.Sprintf("TypeSum(%s, %s) = %s but TypeSum(b, a) = %s (not Equals)", a.s, b.s, sums, render(sumBA)),
			pairReplay(a, b, map[string]interface{}{"sum": sums, "sum_ba": render(sumBA), "law": "commutative"}))
	}
	cnt.Count("law/commutative/checked", 1)
	// intersection
	if inter != nil {
		cnt.Count("law/intersection/non-nil", 1)
		ins := render(*inter)
		for _, x := range []ty{a, b} {
			if inter.Is(x.t) != is {
				cnt.violation(c, k.pfx()+interKey(a.t, b.t, *inter), func() string { return fmt.Sprintf("TypeIntersection(%s, %s) = %s is not contained in %s (Is = %d)", a.s, b.s, ins, x.s, inter.Is(x.t)) },
					func() map[string]interface{} { return pairReplay(a, b, map[string]interface{}{"intersection": ins, "law": "intersection-contained"}) })
				cnt.Count("law/intersection/violated", 1)
				break
			}
		}
		// value level
		for vi := range k.vs {
			if vals.Matches(k.vs[vi].V, *inter) && !(k.match[vi][ai] && k.match[vi][bi]) {
				if inter.Is(a.t) == is && inter.Is(b.t) == is {
					c.Violation(k.pfx()+"intersection-not-contained/value-level-only", fmt.Sprintf("value %s matches TypeIntersection(%s, %s) = %s but not both arguments", k.vs[vi].Name, a.s, b.s, ins),
						pairReplay(a, b, map[string]interface{}{"intersection": ins, "law": "intersection-values"}))
				}
				break
			}
		}
	} else {
		cnt.Count("law/intersection/nil", 1)
		// not demanded by the statement (only counted): nil although a universe value lies in both
		for vi := range k.vs {
			if k.match[vi][ai] && k.match[vi][bi] {
				cnt.Count("not_judged/intersection_nil_but_common_value", 1)
				break
			}
		}
	}
	if a.t.Is(b.t) != is && b.t.Is(a.t) != is {
		c.Nontrivial(a.s + " + " + b.s)
		cnt.Count("pairs/incomparable", 1)
		if (ai*131+bi)%4001 == 0 {
			in := "nil"
			if inter != nil {
				in = render(*inter)
			}
			c.Sample(map[string]interface{}{"a": a.s, "b": b.s, "TypeSum": sums, "TypeIntersection": in})
		}
	} else {
		cnt.Count("pairs/comparable", 1)
	}
}

// pfx marks violations produced by a deliberately corrupted recording (self-test).
type pfxT bool

func (p pfxT) pfx() string {
	if p {
		return "selftest:"
	}
	return ""
}

// interKey: TypeIntersection keeps a pointer to its range variable, so with the pre-Go-1.22 loop
// semantics this module is compiled under (go 1.18 in go.mod) the accumulated result is
// overwritten by the next primitive alternative of the first argument. Input predicate: the first
// argument is a union with an alternative contained in the second argument that is followed by
// another alternative; symptom: the result contains an alternative of a that is not in b.
func interKey(a, b, inter octosql.Type) string {
	if a.TypeID == octosql.TypeIDUnion || b.TypeID == octosql.TypeIDUnion {
		for _, side := range [][2]octosql.Type{{a, b}, {b, a}} {
			x, y := side[0], side[1]
			if x.TypeID != octosql.TypeIDUnion {
				continue
			}
			hit := false
			for _, alt := range x.Union.Alternatives {
				if hit {
					return "intersection-not-contained/union-loop-variable-overwritten"
				}
				if alt.Is(y) == is {
					hit = true
				}
			}
		}
	}
	return "intersection-not-contained"
}

func (k0 *checker) checkSingle(u *universe, ti int) {
	c := k0.c
	t := u.list[ti]
	c.Eval(1)
	rp := map[string]interface{}{"id": "type/" + core.Hash(t.s), "type": t.s}
	// reflexive
	rel := t.t.Is(t.t)
	k := struct {
		*checker
		pfxT
	}{k0, false}
	if k.selftest && ti%97 == 3 {
		rel = octosql.TypeRelationMaybe
		k.pfxT = true
	}
	if rel != is {
		c.Violation(k.pfx()+"is-not-reflexive", fmt.Sprintf("%s.Is(itself) = %d", t.s, rel), rp)
	}
	c.Count("law/reflexive/checked", 1)
	// idempotent
	if s := octosql.TypeSum(t.t, t.t); !s.Equals(t.t) {
		c.Violation(k.pfx()+"typesum-not-idempotent", fmt.Sprintf("TypeSum(%s, %s) = %s", t.s, t.s, render(s)), rp)
	}
	c.Count("law/idempotent/checked", 1)
	// NonNullable
	nn := octosql.NonNullable(t.t)
	nns := render(nn)
	rp["non_nullable"] = nns
	switch {
	case t.t.TypeID == octosql.TypeIDNull:
		if nn.TypeID != octosql.TypeIDNull {
			c.Violation(k.pfx()+"nonnullable", "NonNullable(NULL) = "+nns+", documented to be NULL", rp)
		}
	case t.t.TypeID == octosql.TypeIDAny:
		c.Count("not_judged/nonnullable_of_any", 1)
	default:
		bad := ""
		if octosql.Null.Is(nn) == is {
			bad = "NULL is still contained in the result"
		} else if nn.Is(t.t) != is {
			bad = "the result is not contained in the argument"
		} else if octosql.Null.Is(t.t) == is && !octosql.TypeSum(nn, octosql.Null).Equals(t.t) {
			bad = "result + NULL is not the argument (more than NULL was removed)"
		} else if octosql.Null.Is(t.t) != is && !nn.Equals(t.t) {
			bad = "argument does not contain NULL but was changed"
		}
		if bad == "" {
			for vi := range k.vs {
				v := k.vs[vi].V
				m := vals.Matches(v, nn)
				if v.TypeID == octosql.TypeIDNull {
					if m {
						bad = "NULL value matches the result"
					}
				} else if m != k.match[vi][ti] {
					bad = "value " + k.vs[vi].Name + " matches only one of argument and result"
				}
			}
		}
		if bad != "" {
			c.Violation(k.pfx()+"nonnullable", fmt.Sprintf("NonNullable(%s) = %s: %s", t.s, nns, bad), rp)
		}
		if octosql.Null.Is(t.t) == is {
			c.Count("law/nonnullable/nullable-argument", 1)
			c.Nontrivial("nonnullable " + t.s)
		}
	}
	c.Count("law/nonnullable/checked", 1)
}

func (k0 *checker) checkValue(name string, v octosql.Value, id string) {
	c := k0.c
	c.Eval(1)
	var t octosql.Type
	if p, msg := core.Try(func() { t = v.Type() }); p {
		c.Violation("panic", "Value.Type() panicked: "+msg, map[string]interface{}{"id": id, "value": vals.Describe(v)})
		return
	}
	k := struct {
		*checker
		pfxT
	}{k0, false}
	if k.selftest && len(id)%5 == 0 {
		k.pfxT = true
		t = octosql.Boolean
		if v.TypeID == octosql.TypeIDBoolean {
			t = octosql.Int
		}
	}
	c.Count("law/value-matches-own-type/checked", 1)
	if v.TypeID >= octosql.TypeIDList {
		c.Nontrivial("value " + vals.BitKey(v))
	}
	if vals.Matches(v, t) {
		return
	}
	why := vals.WhyNot(v, t)
	key := "value-does-not-match-own-type/" + why
	switch {
	case why == "object-field-null-typed" && vals.ContainsStructWithNonNullField(v):
		key = "value-type-object-fields-untyped"
	case why == "tuple-arity" && containsMixedList(v, octosql.TypeIDTuple):
		key = "value-type-list-of-tuples-of-different-length"
	case why == "object-arity" && containsMixedList(v, octosql.TypeIDStruct):
		key = "value-type-list-of-objects-of-different-arity"
	}
	c.Violation(k.pfx()+key, fmt.Sprintf("value %s reports type %s which it does not match (%s)", vals.Describe(v), render(t), why),
		map[string]interface{}{"id": id, "value": vals.Describe(v), "reported_type": render(t), "why": why})
}

// containsMixedList: v is or contains a list under which (at any depth: TypeSum merges the types
// of all elements position by position, through nested lists, objects and tuples) there are two
// tuples (objects, by id) of different length.
func containsMixedList(v octosql.Value, id octosql.TypeID) bool {
	var cs []octosql.Value
	switch v.TypeID {
	case octosql.TypeIDList:
		cs = v.List
		ar := map[int]bool{}
		for _, e := range v.List {
			arities(e, id, ar)
		}
		if len(ar) >= 2 {
			return true
		}
	case octosql.TypeIDStruct:
		cs = v.Struct
	case octosql.TypeIDTuple:
		cs = v.Tuple
	}
	for _, e := range cs {
		if containsMixedList(e, id) {
			return true
		}
	}
	return false
}

func arities(v octosql.Value, id octosql.TypeID, out map[int]bool) {
	if v.TypeID == id {
		out[len(v.Tuple)+len(v.Struct)] = true
	}
	for _, cs := range [][]octosql.Value{v.List, v.Struct, v.Tuple} {
		for _, e := range cs {
			arities(e, id, out)
		}
	}
}

// sqlProbe: `col->a` over a column whose type is a union holding an object. The engine builds
// {object, NULL} by hand (NULL last) and calls NonNullable on it; if NonNullable does not remove a
// NULL that is not the first alternative the query stops typechecking. Judged: the query plans,
// the output type admits NULL and the field type, and for object / NULL rows the value is the
// field / NULL. What a non-object, non-NULL row yields at run time is not judged (counted).
func sqlProbe(c *core.Ctx, selftest bool) {
	oa := vals.ObjectOf(vals.Field("a", octosql.Int), vals.Field("b", octosql.String))
	row := func(v octosql.Value) nodeh.Event { return nodeh.Rec([]octosql.Value{v}, false, time.Time{}) }
	obj := func(i int64) octosql.Value { return vals.O(vals.I(i), vals.S("x")) }
	cases := []struct {
		name string
		t    octosql.Type
		rows []octosql.Value
	}{
		{"object", oa, []octosql.Value{obj(1), obj(2)}},
		{"NULL|object (TypeSum)", octosql.TypeSum(oa, octosql.Null), []octosql.Value{obj(1), octosql.NewNull(), obj(3)}},
		{"object|NULL (hand-built)", vals.UnionOf(oa, octosql.Null), []octosql.Value{obj(1), octosql.NewNull(), obj(3)}},
		{"String|object (TypeSum)", octosql.TypeSum(oa, octosql.String), []octosql.Value{obj(1), vals.S("s"), obj(3)}},
		{"NULL|String|object (TypeSum)", octosql.TypeSum(octosql.TypeSum(oa, octosql.String), octosql.Null), []octosql.Value{obj(1), octosql.NewNull(), vals.S("s"), obj(3)}},
		{"String|object, only objects", octosql.TypeSum(oa, octosql.String), []octosql.Value{obj(5), obj(6)}},
	}
	for ci, cs := range cases {
		c.Eval(1)
		c.Count("sql_probe/cases", 1)
		c.Nontrivial("sqlprobe " + cs.name)
		evs := make([]nodeh.Event, len(cs.rows))
		for i, v := range cs.rows {
			evs[i] = row(v)
		}
		db := &nodeh.DB{Tables: map[string]*nodeh.Table{"t": {Fields: []physical.SchemaField{{Name: "c", Type: cs.t}}, TimeField: -1, NoRetractions: true, Events: evs}}}
		sql := "SELECT c->a AS x FROM m.t"
		rp := map[string]interface{}{"id": fmt.Sprintf("sqlprobe/%d", ci), "column_type": render(cs.t), "sql": sql}
		pfx := ""
		p, outs, res, perr := nodeh.RunSQL(nodeh.Ctx(), sql, db, nodeh.PlanOpts{Optimize: true, Output: "none"}, 30*time.Second)
		if perr != nil {
			c.Violation("field-access-on-union-column-rejected", fmt.Sprintf("%s over a column of type %s does not plan: %s", sql, render(cs.t), perr.Error()), rp)
			continue
		}
		ot := p.Schema.Fields[0].Type
		if selftest && ci == 1 {
			ot = octosql.String
			pfx = "selftest:"
		}
		wantNull := cs.t.TypeID != octosql.TypeIDStruct
		if octosql.Int.Is(ot) != is || (wantNull && octosql.Null.Is(ot) != is) {
			c.Violation(pfx+"field-access-output-type", fmt.Sprintf("%s over %s has output type %s", sql, render(cs.t), render(ot)), rp)
		}
		if res.TimedOut {
			c.Inconclusive("watchdog")
			continue
		}
		if res.Panicked {
			c.Violation("panic:"+core.PanicSite(res.Stack), "field access panicked: "+res.PanicMsg, rp)
			continue
		}
		if res.Err != nil {
			onlyObjNull := true
			for _, v := range cs.rows {
				if v.TypeID != octosql.TypeIDStruct && v.TypeID != octosql.TypeIDNull {
					onlyObjNull = false
				}
			}
			if onlyObjNull {
				c.Violation("field-access-run-error", "field access over object/NULL rows failed: "+res.Err.Error(), rp)
			} else {
				c.Count("sql_probe/not_judged/run_error_on_non_object_row", 1)
			}
			continue
		}
		// rows come out in input order (a Map over the scripted source)
		j := 0
		for _, v := range cs.rows {
			if v.TypeID != octosql.TypeIDStruct && v.TypeID != octosql.TypeIDNull {
				c.Count("sql_probe/not_judged/non_object_row", 1)
				j++
				continue
			}
			if j >= len(outs) {
				c.Violation("field-access-rows", "fewer output rows than input rows", rp)
				break
			}
			got := outs[j].Record.Values[0]
			j++
			want := octosql.NewNull()
			if v.TypeID == octosql.TypeIDStruct {
				want = v.Struct[0]
			}
			if vals.BitKey(got) != vals.BitKey(want) {
				c.Violation("field-access-value", fmt.Sprintf("%s of %s = %s, want %s", "c->a", vals.Describe(v), vals.Describe(got), vals.Describe(want)), rp)
			}
		}
	}
}

func Run(c *core.Ctx) core.FinishOpts {
	thorough := c.Tier == "thorough"
	u, sizes := buildUniverse(thorough)
	c.Note("type_universe", sizes)
	k := &checker{c: c, selftest: os.Getenv("VERIF_SELFTEST") == "1"}
	// values: C09's universe plus seeded random deep values
	k.vs = vals.Universe()
	rng := c.Rng("values")
	for i := 0; i < 150; i++ {
		v := vals.Random(rng, 2, vals.GenOpts{NaN: true, Zeros: true})
		k.vs = append(k.vs, vals.Named{Name: vals.Describe(v), V: v})
	}
	// a few values made to fit the universe's composite types
	for _, v := range []octosql.Value{
		vals.O(vals.I(1), vals.S("x")), vals.O(octosql.NewNull(), vals.I(1)), vals.T(vals.I(1), vals.I(2)), vals.T(vals.S("a"), octosql.NewNull()),
		vals.L(vals.O(vals.I(1))), vals.L(vals.T(vals.I(1))), vals.O(vals.L(vals.I(1))), vals.T(vals.O(vals.I(1))), vals.L(vals.S("a"), vals.S("b")),
		vals.O(vals.S("x"), vals.I(1)),
	} {
		k.vs = append(k.vs, vals.Named{Name: vals.Describe(v), V: v})
	}
	k.match = make([][]bool, len(k.vs))
	for vi := range k.vs {
		k.match[vi] = make([]bool, len(u.list))
		for ti := range u.list {
			k.match[vi][ti] = vals.Matches(k.vs[vi].V, u.list[ti].t)
		}
	}
	c.Note("value_universe", len(k.vs))
	inhabited := 0
	for ti := range u.list {
		for vi := range k.vs {
			if k.match[vi][ti] {
				inhabited++
				break
			}
		}
	}
	c.Note("types_with_a_matching_universe_value", inhabited)

	before := make([]string, len(u.list))
	for i := range u.list {
		before[i] = u.list[i].s
	}
	n := len(u.list)
	for ti := 0; ti < n; ti++ {
		k.checkSingle(u, ti)
	}
	core.Parallel(n, 16, func(ai int) {
		cnt := counts{}
		for bi := 0; bi < n; bi++ {
			k.checkPair(u, ai, bi, cnt)
		}
		c.Eval(cnt["__eval"])
		delete(cnt, "__eval")
		cnt.flush(c)
	})
	// the algebra must not have modified its arguments (shared slices)
	for i := range u.list {
		if render(u.list[i].t) != before[i] {
			c.Violation("argument-mutated", fmt.Sprintf("type %s was changed to %s by TypeSum/TypeIntersection/NonNullable calls", before[i], render(u.list[i].t)), map[string]interface{}{"id": "mutated", "type": before[i]})
		}
	}
	c.Note("exhaustive_bound", fmt.Sprintf("all %d x %d ordered pairs of the type universe", n, n))

	// every value matches the type it reports
	for _, nv := range k.vs {
		k.checkValue(nv.Name, nv.V, "value/u/"+nv.Name)
	}
	sqlProbe(c, k.selftest)
	nRandom := c.Pick(20000, 400000)
	vr := c.Rng("value-law")
	type rv struct {
		v  octosql.Value
		id string
	}
	rvs := make([]rv, nRandom)
	for i := range rvs {
		rvs[i] = rv{vals.Random(vr, 3, vals.GenOpts{NaN: true, Zeros: true}), fmt.Sprintf("value/r/%d", i)}
	}
	core.Parallel(len(rvs), 16, func(i int) {
		if c.Only != "" && c.Only != rvs[i].id {
			return
		}
		k.checkValue("", rvs[i].v, rvs[i].id)
	})
	return core.FinishOpts{
		Level: "exploration",
		Rule: "type universe = base types, one-level list/object/tuple constructors, their TypeSums with a partner set (all of round 1 in the thorough tier) and one more round of nesting over the resulting unions; " +
			"plus unions built by struct literal (NULL first/middle/last, unsorted alternatives, 2-4 alternatives, no duplicate type ids, no nesting); all ordered pairs are evaluated, every law is judged up to Equals (mutual Is, which does not depend on the order of alternatives); an SQL probe runs col->a over object/union columns through the real pipeline; non-trivial pair = neither type contains the other (TypeSum must merge), non-trivial NonNullable case = nullable argument, non-trivial value = list/object/tuple; distinct by rendered types / value bits",
		Floor:       c.Pick(50000, 200000),
		Assumptions: []string{"oracle: the laws, Is==TypeRelationIs as containment, own matches(value,type) for the value-level legs", "Go toolchain"},
		Exhaustive:  true,
	}
}

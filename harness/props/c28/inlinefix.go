package c28

import "fmt"

// Fixed (tier-independent) install-selection cases for the inline `name@constraint` form: every
// spelling Masterminds/semver accepts as a constraint — in particular bare partial versions, which
// as constraints mean "any 1.x.x" / "any 1.2.x" but would parse as the versions 1.0.0 / 1.2.0 —
// over manifests in which the exact x.0.0 / x.y.0 version exists, does not exist, and higher
// matching versions exist. The oracle is unchanged: a highest manifest version satisfying
// semver.NewConstraint(spelling).Check.

var inlineSpellings = []string{
	"1", "v1", "0", "v0", "2", "1.2", "v1.2", "0.3", "1.x", "1.X", "1.*", "1.2.x", "v1.2.x", "*", "x",
	"1.2.0", "v1.2.5", "=1", "=1.2", "^1", "~1", "~1.2", ">=1", "<2", "1 || 2", "3",
}

var inlineManifests = [][]string{
	// exact x.0.0 and x.y.0 exist, higher matching versions exist
	{"1.2.5", "0.0.0", "2.0.0", "1.0.0", "1.3.1", "0.4.2", "1.2.0", "0.3.0", "2.2.0"},
	// no x.0.0 and no x.y.0
	{"1.2.9", "0.3.4", "2.1.0", "1.1.0", "1.4.2", "0.9.1", "1.2.3", "2.0.1"},
	// x.0.0 is the only / the lowest one of its major; prerelease on top
	{"1.0.0", "2.0.0", "3.0.0-beta.1", "1.0.1", "0.0.1"},
}

func fixedInlineInstalls() []installSpec {
	var out []installSpec
	k := 0
	for mi, m := range inlineManifests {
		for _, sp := range inlineSpellings {
			in := installSpec{Repo: "core", Name: []string{"a", "plugin", "my-db"}[mi%3], Manifest: m, Constraint: sp, Mode: "inline", ShortRef: k%2 == 0}
			out = append(out, in)
			k++
		}
	}
	return out
}

func fixedInlineCases(seed int64) []caseSpec {
	var out []caseSpec
	for k, in := range fixedInlineInstalls() {
		out = append(out, caseSpec{ID: fmt.Sprintf("inline-fixed-%d-%d", seed, k), Installs: []installSpec{in}})
	}
	return out
}

func fixedInlineCLICases(seed int64) []installCLICase {
	var out []installCLICase
	for k, in := range fixedInlineInstalls() {
		out = append(out, installCLICase{ID: fmt.Sprintf("cli-install-inline-fixed-%d-%d", seed, k), Install: in})
		// the same spelling through octosql.yml as a control (every third one)
		if k%3 == 0 {
			out = append(out, installCLICase{ID: fmt.Sprintf("cli-install-config-fixed-%d-%d", seed, k), Install: in, ViaConfig: true})
		}
	}
	return out
}

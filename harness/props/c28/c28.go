// Package c28: installed plugins are discovered under their exact names and versions are resolved
// correctly (directory listing, database version resolution, install version selection).
//
// R: a plugin listed under a name other than the one installed; a database resolved to anything
// but the highest installed version satisfying its constraint; `install` picking anything but the
// highest matching manifest version (highest non-prerelease one when unconstrained).
// O: "satisfies" and "higher" come from Masterminds/semver itself; everything else is direct.
// W: (1) in-process manager.PluginManager (ListInstalledPlugins, Install against a loopback
// repository) over generated OCTOSQL_PLUGIN_DIR trees — executed in re-exec'ed child processes of
// the harness binary, because octosql computes its config/data directories from HOME at package
// initialisation and Install writes the extension registry there; (2) the real CLI: dbLoop
// resolution observed through `<db>.version` of the test plugin, plugins.installed_plugins /
// plugins.installed_versions, and `octosql plugin install` (inline constraint and config driven).
package c28

import (
	"bytes"
	"compress/gzip"
	"context"
	"encoding/json"
	"fmt"
	"math/rand"
	"os"
	"os/exec"
	"path/filepath"
	"sort"
	"strings"
	"time"

	"github.com/Masterminds/semver"

	"github.com/cube2222/octosql/plugins/manager"
	"github.com/cube2222/octosql/plugins/repository"

	"github.com/cube2222/octosql/plugins/verifharness/cli"
	"github.com/cube2222/octosql/plugins/verifharness/core"
	"github.com/cube2222/octosql/plugins/verifharness/plugtest"
)

func init() { core.Register("C28", Run) }

// ---------------------------------------------------------------------------------------------
// case model

type plugSpec struct {
	Repo     string   `json:"repo"`
	Name     string   `json:"name"`
	Versions []string `json:"versions"`
}

type installSpec struct {
	Repo       string   `json:"repo"`
	Name       string   `json:"name"`
	Manifest   []string `json:"manifest"`   // in the order the manifest lists them
	Constraint string   `json:"constraint"` // "" = none
	Mode       string   `json:"mode"`       // none | inline (name@constraint) | param (*Constraints argument)
	ShortRef   bool     `json:"short_ref"`  // "name" instead of "core/name" (only for repo core)
}

type caseSpec struct {
	ID       string        `json:"id"`
	Plugins  []plugSpec    `json:"plugins"`
	Installs []installSpec `json:"installs"`
}

type listed struct {
	Repo     string   `json:"repo"`
	Name     string   `json:"name"`
	Versions []string `json:"versions"`
}

type installResult struct {
	Err      string            `json:"err"`
	Panic    string            `json:"panic"`
	Before   []string          `json:"before"`   // version directories of that plugin before
	After    []string          `json:"after"`    // ... and after
	Contents map[string]string `json:"contents"` // version -> content of the installed file
}

type caseResult struct {
	ID       string          `json:"id"`
	Harness  string          `json:"harness_error,omitempty"`
	List1Err string          `json:"list1_err"`
	List1    []listed        `json:"list1"`
	Installs []installResult `json:"installs"`
	List2Err string          `json:"list2_err"`
	List2    []listed        `json:"list2"`
}

var namePool = []string{"a", "my-db", "a-b-c", "plugin", "octosql-plugin-x", "db", "x", "testplugin", "pg_sql", "c"}
var repoPool = []string{"core", "core", "core", "other", "my-repo"}
var prePool = []string{"", "", "", "", "-alpha", "-beta.1", "-beta.2", "-rc.1", "-0"}
var metaPool = []string{"", "", "", "", "", "+build.5", "+exp.sha.5114f85"}
var constraintPool = []string{"*", "^1", "^1.2", "~1.2", ">=1, <2", ">=1.0.0, <2.0.0", "1.x", "<=2.1", "!=1.2.3", "^0.2", "~0", ">=0.1",
	">=1.0.0-0", "^1.2.0-alpha", "~1.2.3-beta.1", ">0.0.0-0", ">=1.2.3-beta.1, <1.3.0", "^2", "~2.1", ">1.1.1", "<1.0.0", "^1 || ^3", ">=3"}

func genVersion(rng *rand.Rand) string {
	return fmt.Sprintf("%d.%d.%d%s%s", rng.Intn(4), rng.Intn(4), rng.Intn(4), prePool[rng.Intn(len(prePool))], metaPool[rng.Intn(len(metaPool))])
}

func genVersions(rng *rand.Rand, min, max int) []string {
	n := min + rng.Intn(max-min+1)
	seen := map[string]bool{}
	var out []string
	for iter := 0; len(out) < n && iter < 100; iter++ {
		v := genVersion(rng)
		if len(out) > 0 && rng.Intn(5) == 0 {
			// near an existing one: same core version with another prerelease / build metadata
			sv, err := semver.NewVersion(out[rng.Intn(len(out))])
			if err == nil {
				v = fmt.Sprintf("%d.%d.%d%s%s", sv.Major(), sv.Minor(), sv.Patch(), prePool[rng.Intn(len(prePool))], metaPool[rng.Intn(len(metaPool))])
			}
		}
		if seen[v] {
			continue
		}
		seen[v] = true
		out = append(out, v)
	}
	return out
}

func genConstraint(rng *rand.Rand, versions []string) string {
	if len(versions) > 0 && rng.Intn(4) == 0 {
		v := versions[rng.Intn(len(versions))]
		if i := strings.Index(v, "+"); i >= 0 {
			v = v[:i]
		}
		switch rng.Intn(3) {
		case 0:
			return v
		case 1:
			return "=" + v
		default:
			return ">=" + v
		}
	}
	return constraintPool[rng.Intn(len(constraintPool))]
}

func genPlugins(rng *rand.Rand, maxPlugins, maxVersions int) []plugSpec {
	n := 1 + rng.Intn(maxPlugins)
	seen := map[string]bool{}
	var out []plugSpec
	for iter := 0; len(out) < n && iter < 50; iter++ {
		p := plugSpec{Repo: repoPool[rng.Intn(len(repoPool))], Name: namePool[rng.Intn(len(namePool))]}
		if seen[p.Repo+"/"+p.Name] {
			continue
		}
		seen[p.Repo+"/"+p.Name] = true
		p.Versions = genVersions(rng, 1, maxVersions)
		out = append(out, p)
	}
	return out
}

func genInstall(rng *rand.Rand) installSpec {
	in := installSpec{Repo: repoPool[rng.Intn(len(repoPool))], Name: namePool[rng.Intn(len(namePool))]}
	in.Manifest = genVersions(rng, 1, 6)
	switch rng.Intn(10) {
	case 0, 1, 2:
		in.Mode = "none"
	case 3, 4, 5, 6:
		in.Mode = "inline"
		in.Constraint = genConstraint(rng, in.Manifest)
	default:
		in.Mode = "param"
		in.Constraint = genConstraint(rng, in.Manifest)
	}
	in.ShortRef = in.Repo == "core" && rng.Intn(2) == 0
	return in
}

func genCase(c *core.Ctx, i int) caseSpec {
	rng := c.Rng(fmt.Sprintf("tree-%d", i))
	cs := caseSpec{ID: fmt.Sprintf("tree-%d-%d", c.Seed, i)}
	cs.Plugins = genPlugins(rng, 3, 5)
	for n := rng.Intn(3); n > 0; n-- {
		cs.Installs = append(cs.Installs, genInstall(rng))
	}
	return cs
}

// ---------------------------------------------------------------------------------------------
// oracle helpers (semver itself decides "satisfies" and "higher")

// best returns the acceptable outcomes: all versions of maximal precedence among those that
// satisfy the constraint ("" = unconstrained: non-prerelease versions only when nonPreWhenNone).
func best(versions []string, constraint string, nonPreWhenNone bool) (acceptable []string, err error) {
	var cons *semver.Constraints
	if constraint != "" {
		cons, err = semver.NewConstraint(constraint)
		if err != nil {
			return nil, err
		}
	}
	var top *semver.Version
	for _, s := range versions {
		v, err := semver.NewVersion(s)
		if err != nil {
			return nil, err
		}
		if cons != nil {
			if !cons.Check(v) {
				continue
			}
		} else if nonPreWhenNone && v.Prerelease() != "" {
			continue
		}
		if top == nil || v.GreaterThan(top) {
			top = v
			acceptable = []string{v.String()}
		} else if !top.GreaterThan(v) {
			acceptable = append(acceptable, v.String())
		}
	}
	return acceptable, nil
}

func lowestMatching(versions []string, constraint string, nonPreWhenNone bool) string {
	var cons *semver.Constraints
	if constraint != "" {
		cons, _ = semver.NewConstraint(constraint)
	}
	var low *semver.Version
	for _, s := range versions {
		v, err := semver.NewVersion(s)
		if err != nil {
			continue
		}
		if cons != nil {
			if !cons.Check(v) {
				continue
			}
		} else if nonPreWhenNone && v.Prerelease() != "" {
			continue
		}
		if low == nil || low.GreaterThan(v) {
			low = v
		}
	}
	if low == nil {
		return ""
	}
	return low.String()
}

func canon(v string) string {
	sv, err := semver.NewVersion(v)
	if err != nil {
		return v
	}
	return sv.String()
}

func contains(list []string, s string) bool {
	for _, x := range list {
		if x == s {
			return true
		}
	}
	return false
}

func bugName(name string) string { return name[strings.LastIndex(name, "-")+1:] }

func entryKey(repo, name string, versions []string) string {
	vs := append([]string{}, versions...)
	sort.Strings(vs)
	return repo + "/" + name + " [" + strings.Join(vs, " ") + "]"
}

// judgeList compares a listing with the installed tree. key "" = fine.
func judgeList(tree []plugSpec, got []listed, listErr string) (key, what string) {
	if listErr != "" {
		return "list-error", "listing failed: " + listErr
	}
	exp := map[string]int{}
	expBug := map[string]int{}
	dashed := false
	for _, p := range tree {
		vs := make([]string, len(p.Versions))
		for i, v := range p.Versions {
			vs[i] = canon(v)
		}
		exp[entryKey(p.Repo, p.Name, vs)]++
		if strings.Contains(p.Name, "-") {
			dashed = true
		}
		expBug[entryKey(p.Repo, bugName(p.Name), vs)]++
	}
	gotm := map[string]int{}
	for _, g := range got {
		gotm[entryKey(g.Repo, g.Name, g.Versions)]++
	}
	eq := func(a, b map[string]int) bool {
		if len(a) != len(b) {
			return false
		}
		for k, v := range a {
			if b[k] != v {
				return false
			}
		}
		return true
	}
	if !eq(exp, gotm) {
		desc := fmt.Sprintf("installed %v, listed %v", keys(exp), keys(gotm))
		if dashed && eq(expBug, gotm) {
			return "plugin-name-dash", "a plugin whose name contains '-' is listed under the text after its last dash: " + desc
		}
		return "list-mismatch", desc
	}
	// order: descending by semver precedence
	for _, g := range got {
		for j := 0; j+1 < len(g.Versions); j++ {
			a, err1 := semver.NewVersion(g.Versions[j])
			b, err2 := semver.NewVersion(g.Versions[j+1])
			if err1 != nil || err2 != nil {
				return "list-mismatch", fmt.Sprintf("unparsable listed version in %v", g.Versions)
			}
			if b.GreaterThan(a) {
				return "versions-not-descending", fmt.Sprintf("%s/%s versions listed as %v: %s is higher than %s", g.Repo, g.Name, g.Versions, b, a)
			}
		}
	}
	return "", ""
}

func keys(m map[string]int) []string {
	out := []string{}
	for k, n := range m {
		for ; n > 0; n-- {
			out = append(out, k)
		}
	}
	sort.Strings(out)
	return out
}

// ---------------------------------------------------------------------------------------------
// child: runs the real manager code in a process whose HOME is scratch

type childSpec struct {
	Work  string     `json:"work"`
	Out   string     `json:"out"`
	Cases []caseSpec `json:"cases"`
}

func fakeContent(name, version string) []byte { return []byte(name + " " + version + "\n") }

func listNow(m *manager.PluginManager) ([]listed, string) {
	var out []listed
	var errs string
	panicked, msg := core.Try(func() {
		res, err := m.ListInstalledPlugins()
		if err != nil {
			errs = err.Error()
			return
		}
		for _, p := range res {
			l := listed{Repo: p.Reference.Repository, Name: p.Reference.Name, Versions: []string{}}
			for _, v := range p.Versions {
				l.Versions = append(l.Versions, v.Number.String())
			}
			out = append(out, l)
		}
	})
	if panicked {
		return nil, "panic: " + msg
	}
	return out, errs
}

func versionDirs(pluginDir, repo, name string) []string {
	entries, err := os.ReadDir(filepath.Join(pluginDir, repo, "octosql-plugin-"+name))
	if err != nil {
		return []string{}
	}
	out := []string{}
	for _, e := range entries {
		out = append(out, e.Name())
	}
	return out
}

func runChild(c *core.Ctx, specPath string) {
	data, err := os.ReadFile(specPath)
	if err != nil {
		fmt.Fprintln(os.Stderr, "child: ", err)
		os.Exit(4)
	}
	var spec childSpec
	if err := json.Unmarshal(data, &spec); err != nil {
		fmt.Fprintln(os.Stderr, "child: ", err)
		os.Exit(4)
	}
	srv, err := plugtest.NewServer()
	if err != nil {
		fmt.Fprintln(os.Stderr, "child: ", err)
		os.Exit(4)
	}
	defer srv.Close()
	// keep the "Downloading ..." lines Install prints out of our stdout
	devnull, _ := os.OpenFile(os.DevNull, os.O_WRONLY, 0)
	realStdout := os.Stdout
	os.Stdout = devnull
	defer func() { os.Stdout = realStdout }()

	ctx := context.Background()
	results := make([]caseResult, 0, len(spec.Cases))
	for ci, cs := range spec.Cases {
		res := caseResult{ID: cs.ID}
		pd := filepath.Join(spec.Work, fmt.Sprintf("c%d", ci), "pd")
		_ = os.Setenv("OCTOSQL_PLUGIN_DIR", pd)
		for _, p := range cs.Plugins {
			for _, v := range p.Versions {
				if err := plugtest.InstallFake(pd, p.Repo, p.Name, v, fakeContent(p.Name, v)); err != nil {
					res.Harness = err.Error()
				}
			}
		}
		m := &manager.PluginManager{}
		res.List1, res.List1Err = listNow(m)
		for ii, in := range cs.Installs {
			key := fmt.Sprintf("k%dj%d", ci, ii)
			name := in.Name
			srv.Set(key, &plugtest.Repo{Slug: in.Repo, Plugins: []plugtest.Plugin{{
				Name: name, Versions: in.Manifest,
				Archive: func(version string) []byte {
					return plugtest.TarGz(name, fakeContent(name, version), gzip.BestSpeed)
				},
			}}})
			var ir installResult
			ir.Before = versionDirs(pd, in.Repo, in.Name)
			repo, err := repository.GetRepository(ctx, srv.RepoURL(key))
			if err != nil {
				ir.Err = "harness: GetRepository: " + err.Error()
				res.Installs = append(res.Installs, ir)
				continue
			}
			im := &manager.PluginManager{Repositories: []repository.Repository{repo}}
			arg := in.Repo + "/" + in.Name
			if in.ShortRef {
				arg = in.Name
			}
			var cons *semver.Constraints
			switch in.Mode {
			case "inline":
				arg += "@" + in.Constraint
			case "param":
				cons, err = semver.NewConstraint(in.Constraint)
				if err != nil {
					ir.Err = "harness: constraint: " + err.Error()
					res.Installs = append(res.Installs, ir)
					continue
				}
			}
			panicked, msg := core.Try(func() {
				if err := im.Install(ctx, arg, cons); err != nil {
					ir.Err = err.Error()
				}
			})
			if panicked {
				ir.Panic = msg
			}
			ir.After = versionDirs(pd, in.Repo, in.Name)
			ir.Contents = map[string]string{}
			for _, v := range ir.After {
				data, err := os.ReadFile(plugtest.BinaryPath(pd, in.Repo, in.Name, v))
				if err != nil {
					ir.Contents[v] = "<unreadable: " + err.Error() + ">"
				} else {
					ir.Contents[v] = string(data)
				}
			}
			res.Installs = append(res.Installs, ir)
			srv.Delete(key)
		}
		res.List2, res.List2Err = listNow(m)
		results = append(results, res)
		_ = os.RemoveAll(filepath.Join(spec.Work, fmt.Sprintf("c%d", ci)))
	}
	out, _ := json.Marshal(results)
	if err := os.WriteFile(spec.Out, out, 0o644); err != nil {
		fmt.Fprintln(os.Stderr, "child: ", err)
		os.Exit(4)
	}
}

// ---------------------------------------------------------------------------------------------
// parent

var selftest = os.Getenv("VERIF_SELFTEST") == "1"

func Run(c *core.Ctx) core.FinishOpts {
	if strings.HasPrefix(c.Only, "child:") {
		runChild(c, strings.TrimPrefix(c.Only, "child:"))
		return core.FinishOpts{Level: "exploration", Rule: "child worker process of C28 (no verdict of its own)"}
	}
	t0 := time.Now()
	inProcessLeg(c)
	t1 := time.Now()
	cliLeg(c)
	c.Note("leg_seconds", map[string]float64{"in_process": t1.Sub(t0).Seconds(), "cli": time.Since(t1).Seconds()})
	return core.FinishOpts{
		Level: "exploration",
		Rule: "cases = seeded random plugin directory trees (names a, my-db, a-b-c, plugin, octosql-plugin-x, ...; repositories core/other/my-repo; 1-5 versions with prereleases and build metadata) " +
			"x constraints (*, ^, ~, ranges, exact, prerelease-admitting, ||) x manifests in random order; in-process manager API in child processes + CLI (dbLoop via <db>.version with one database per config and with 2-3 databases sharing a plugin (fixed tight-then-loose / loose-then-tight / mixed-kind configurations + seeded ones, every database queried), plugins.installed_*, plugin install); " +
			"non-trivial = some plugin has >= 2 versions, or a name contains '-', or a manifest/constraint decision among >= 2 versions; distinct by the normalised case description",
		Floor: c.Pick(150, 5000),
		Assumptions: []string{
			"'satisfies' and 'higher' are Masterminds/semver v1.5.0's own Check/GreaterThan (also used by the code under test); versions equal in precedence (build metadata only) are interchangeable",
			"a database without a version entry has the constraint '*' (octosql's documented default), which in Masterminds/semver excludes prereleases",
			"version directory names are canonical semver strings, as Install creates them",
			"the test plugin reports the version directory it was started from (os.Executable of a hard link)",
		},
	}
}

func describeCase(cs caseSpec) string {
	var sb strings.Builder
	ps := append([]plugSpec{}, cs.Plugins...)
	sort.Slice(ps, func(i, j int) bool { return ps[i].Repo+"/"+ps[i].Name < ps[j].Repo+"/"+ps[j].Name })
	for _, p := range ps {
		sb.WriteString(entryKey(p.Repo, p.Name, p.Versions))
		sb.WriteString(";")
	}
	for _, in := range cs.Installs {
		fmt.Fprintf(&sb, "install %s/%s@%q(%s) from %v;", in.Repo, in.Name, in.Constraint, in.Mode, in.Manifest)
	}
	return sb.String()
}

func nontrivialCase(cs caseSpec) bool {
	for _, p := range cs.Plugins {
		if len(p.Versions) >= 2 || strings.Contains(p.Name, "-") {
			return true
		}
	}
	for _, in := range cs.Installs {
		if len(in.Manifest) >= 2 {
			return true
		}
	}
	return false
}

func constraintKind(s string) string {
	switch {
	case s == "":
		return "none"
	case s == "*":
		return "star"
	case strings.Contains(s, "||"):
		return "or"
	case strings.Contains(s, ","):
		return "range"
	case strings.Contains(s, "-"):
		return "prerelease-admitting"
	case strings.HasPrefix(s, "^"):
		return "caret"
	case strings.HasPrefix(s, "~"):
		return "tilde"
	case strings.HasPrefix(s, ">") || strings.HasPrefix(s, "<") || strings.HasPrefix(s, "!"):
		return "comparison"
	case strings.Contains(s, "x"):
		return "wildcard"
	default:
		return "exact"
	}
}

func inProcessLeg(c *core.Ctx) {
	n := c.Pick(300, 12000)
	var cases []caseSpec
	for i := 0; i < n; i++ {
		cs := genCase(c, i)
		if c.Only != "" && cs.ID != c.Only {
			continue
		}
		cases = append(cases, cs)
	}
	for _, cs := range fixedInlineCases(c.Seed) {
		if c.Only == "" || cs.ID == c.Only {
			cases = append(cases, cs)
		}
	}
	if len(cases) == 0 {
		return
	}
	exe, err := os.Executable()
	if err != nil {
		c.Inconclusive("no-executable-path")
		return
	}
	workers := 16
	if len(cases) < workers {
		workers = len(cases)
	}
	batches := make([][]caseSpec, workers)
	for i, cs := range cases {
		batches[i%workers] = append(batches[i%workers], cs)
	}
	results := make([][]caseResult, workers)
	core.Parallel(workers, workers, func(w int) {
		dir := filepath.Join(c.Scratch, fmt.Sprintf("child%d", w))
		home := filepath.Join(dir, "home")
		_ = os.MkdirAll(home, 0o755)
		spec := childSpec{Work: filepath.Join(dir, "work"), Out: filepath.Join(dir, "out.json"), Cases: batches[w]}
		_ = os.MkdirAll(spec.Work, 0o755)
		data, _ := json.Marshal(spec)
		specPath := filepath.Join(dir, "spec.json")
		if err := os.WriteFile(specPath, data, 0o644); err != nil {
			c.Inconclusive("scratch-write")
			return
		}
		ctx, cancel := context.WithTimeout(context.Background(), 10*time.Minute)
		defer cancel()
		cmd := exec.CommandContext(ctx, exe, "-prop", "C28", "-tier", c.Tier, "-seed", fmt.Sprint(c.Seed), "-root", c.Root, "-only", "child:"+specPath)
		env := []string{}
		for _, kv := range os.Environ() {
			if strings.HasPrefix(kv, "HOME=") || strings.HasPrefix(kv, "OCTOSQL_") || strings.HasPrefix(kv, "XDG_") || strings.HasPrefix(kv, "VERIF_CRASH_AT=") || strings.HasPrefix(kv, "VERIF_TRACE=") {
				continue
			}
			env = append(env, kv)
		}
		cmd.Env = append(env, "HOME="+home, "OCTOSQL_NO_TELEMETRY=1")
		var stderr bytes.Buffer
		cmd.Stderr = &stderr
		err := cmd.Run()
		if ctx.Err() != nil {
			c.Inconclusive("watchdog")
			return
		}
		out, rerr := os.ReadFile(spec.Out)
		if err != nil || rerr != nil {
			c.Violation("child-died", fmt.Sprintf("the child process running the manager code died: %v; stderr: %s", err, tail(stderr.String(), 1500)), map[string]interface{}{"cases": len(batches[w]), "first": batches[w][0].ID})
			return
		}
		var rs []caseResult
		if err := json.Unmarshal(out, &rs); err != nil {
			c.Inconclusive("child-output")
			return
		}
		results[w] = rs
	})
	selfLeft := &selfBudget{install: 2, list: 1}
	for w := 0; w < workers; w++ {
		for i, res := range results[w] {
			cs := batches[w][i]
			judgeInProcess(c, cs, res, selfLeft)
		}
	}
}

func tail(s string, n int) string {
	if len(s) > n {
		return "..." + s[len(s)-n:]
	}
	return s
}

type selfBudget struct{ install, list int }

func judgeInProcess(c *core.Ctx, cs caseSpec, res caseResult, selfLeft *selfBudget) {
	c.Eval(1)
	replay := map[string]interface{}{"id": cs.ID, "leg": "in-process", "case": cs, "observed": res}
	if res.Harness != "" {
		c.Inconclusive("scratch-write")
		return
	}
	if nontrivialCase(cs) {
		c.Nontrivial(describeCase(cs))
	}
	for _, p := range cs.Plugins {
		c.Count("inproc/name/"+p.Name, 1)
		c.Count(fmt.Sprintf("inproc/versions_per_plugin/%d", len(p.Versions)), 1)
		for _, v := range p.Versions {
			if strings.Contains(v, "-") {
				c.Count("inproc/prerelease_versions", 1)
			}
			if strings.Contains(v, "+") {
				c.Count("inproc/build_metadata_versions", 1)
			}
		}
	}
	c.Count("inproc/list_calls", 2)
	if key, what := judgeList(cs.Plugins, res.List1, res.List1Err); key != "" {
		c.Violation(key, "ListInstalledPlugins: "+what, replay)
	}
	// installs
	tree := append([]plugSpec{}, cs.Plugins...)
	for ii, in := range cs.Installs {
		if ii >= len(res.Installs) {
			c.Inconclusive("child-output")
			return
		}
		ir := res.Installs[ii]
		if strings.HasPrefix(ir.Err, "harness: ") {
			c.Inconclusive("harness-install-setup")
			continue
		}
		c.Eval(1)
		c.Count("inproc/install/mode/"+in.Mode, 1)
		c.Count("inproc/install/constraint/"+constraintKind(in.Constraint), 1)
		acceptable, err := best(in.Manifest, in.Constraint, true)
		if err != nil {
			// constraint semver itself rejects: Install must fail too (inline) — nothing to resolve
			c.Count("inproc/install/unparsable_constraint", 1)
			if ir.Err == "" {
				c.Violation("install-accepted-bad-constraint", fmt.Sprintf("constraint %q is rejected by semver but install succeeded", in.Constraint), replay)
			}
			continue
		}
		if selftest && selfLeft.install > 0 && len(acceptable) > 0 {
			if low := lowestMatching(in.Manifest, in.Constraint, true); low != "" && !contains(acceptable, low) {
				acceptable = []string{low}
				selfLeft.install--
			}
		}
		if ir.Panic != "" {
			c.Violation("install-panic", "Install panicked: "+ir.Panic, replay)
			continue
		}
		var added []string
		for _, v := range ir.After {
			if !contains(ir.Before, v) {
				added = append(added, v)
			}
		}
		var removed []string
		for _, v := range ir.Before {
			if !contains(ir.After, v) {
				removed = append(removed, v)
			}
		}
		if len(removed) > 0 {
			c.Violation("install-removed-version", fmt.Sprintf("install of %s/%s removed installed versions %v", in.Repo, in.Name, removed), replay)
			continue
		}
		if len(acceptable) == 0 {
			c.Count("inproc/install/no_matching_version", 1)
			if ir.Err == "" || len(added) > 0 {
				c.Violation("install-without-match", fmt.Sprintf("no manifest version of %v satisfies %q, yet install err=%q added=%v", in.Manifest, in.Constraint, ir.Err, added), replay)
			}
			continue
		}
		if ir.Err != "" {
			c.Violation("install-failed", fmt.Sprintf("manifest %v constraint %q: expected %v to be installed, got error %q", in.Manifest, in.Constraint, acceptable, ir.Err), replay)
			continue
		}
		// which version was (re)installed: the one whose file now holds the served content
		installed := ""
		for _, v := range ir.After {
			if contains(acceptable, v) && ir.Contents[v] == string(fakeContent(in.Name, v)) {
				installed = v
			}
		}
		var wrong []string
		for _, v := range added {
			if !contains(acceptable, v) {
				wrong = append(wrong, v)
			}
		}
		if installed == "" || len(wrong) > 0 {
			c.Violation("install-wrong-version", fmt.Sprintf("manifest %v (in this order) constraint %q (%s): expected one of %v to be installed; version directories before %v, after %v, contents %v",
				in.Manifest, in.Constraint, in.Mode, acceptable, ir.Before, ir.After, ir.Contents), replay)
			// whatever was installed instead is on disk now: keep the expected tree in step, so that
			// the listing check below does not report the same mistake a second time
			for _, v := range added {
				found := false
				for ti := range tree {
					if tree[ti].Repo == in.Repo && tree[ti].Name == in.Name {
						found = true
						tree[ti].Versions = append(append([]string{}, tree[ti].Versions...), v)
					}
				}
				if !found {
					tree = append(tree, plugSpec{Repo: in.Repo, Name: in.Name, Versions: []string{v}})
				}
			}
			continue
		}
		c.Count("inproc/install/selected_ok", 1)
		if len(in.Manifest) >= 2 {
			c.Count("inproc/install/selected_among_several", 1)
		}
		// the tree now also holds that version
		found := false
		for ti := range tree {
			if tree[ti].Repo == in.Repo && tree[ti].Name == in.Name {
				found = true
				if !contains(canonAll(tree[ti].Versions), installed) {
					vs := append([]string{}, tree[ti].Versions...)
					tree[ti].Versions = append(vs, installed)
				}
			}
		}
		if !found {
			tree = append(tree, plugSpec{Repo: in.Repo, Name: in.Name, Versions: []string{installed}})
		}
	}
	if selftest && selfLeft.list > 0 && len(tree) > 0 {
		// deliberately wrong expectation: a plugin name that was never installed
		tree = append([]plugSpec{}, tree...)
		tree[0].Name = tree[0].Name + "x"
		selfLeft.list--
	}
	if key, what := judgeList(tree, res.List2, res.List2Err); key != "" {
		c.Violation(key, "ListInstalledPlugins after installs: "+what, replay)
	}
	c.Sample(map[string]interface{}{"id": cs.ID, "leg": "in-process", "tree": describeCase(cs), "listed": res.List2})
}

func canonAll(vs []string) []string {
	out := make([]string, len(vs))
	for i, v := range vs {
		out[i] = canon(v)
	}
	return out
}

// ---------------------------------------------------------------------------------------------
// CLI leg

type dbSpec struct {
	Plugin     int    `json:"plugin"` // index into Plugins
	Constraint string `json:"constraint"`
	ShortRef   bool   `json:"short_ref"`
}

type cliCase struct {
	ID      string     `json:"id"`
	Plugins []plugSpec `json:"plugins"`
	DBs     []dbSpec   `json:"dbs"`
}

func genCLICase(c *core.Ctx, i int) cliCase {
	rng := c.Rng(fmt.Sprintf("cli-%d", i))
	cs := cliCase{ID: fmt.Sprintf("cli-%d-%d", c.Seed, i)}
	cs.Plugins = genPlugins(rng, 3, 4)
	for n := 1 + rng.Intn(3); n > 0; n-- {
		d := dbSpec{Plugin: rng.Intn(len(cs.Plugins))}
		if rng.Intn(4) > 0 {
			d.Constraint = genConstraint(rng, cs.Plugins[d.Plugin].Versions)
		}
		d.ShortRef = cs.Plugins[d.Plugin].Repo == "core" && rng.Intn(2) == 0
		cs.DBs = append(cs.DBs, d)
	}
	return cs
}

type installCLICase struct {
	ID        string      `json:"id"`
	Install   installSpec `json:"install"`
	ViaConfig bool        `json:"via_config"`
}

func genInstallCLICase(c *core.Ctx, i int) installCLICase {
	rng := c.Rng(fmt.Sprintf("cli-install-%d", i))
	cs := installCLICase{ID: fmt.Sprintf("cli-install-%d-%d", c.Seed, i)}
	cs.Install = genInstall(rng)
	cs.ViaConfig = rng.Intn(2) == 0
	if cs.Install.Mode == "param" {
		// on the command line a constraint can only be given inline or through octosql.yml
		cs.Install.Mode = "inline"
	}
	return cs
}

func cliLeg(c *core.Ctx) {
	r := cli.NewRunner(c.BinDir, c.Scratch)
	sockDir, err := plugtest.ShortDir(c.Root)
	if err != nil {
		c.Inconclusive("socket-dir")
		return
	}
	defer os.RemoveAll(sockDir)
	srv, err := plugtest.NewServer()
	if err != nil {
		c.Inconclusive("loopback-server")
		return
	}
	defer srv.Close()
	srv.Set("official", &plugtest.Repo{Slug: "core"})
	testplugin := filepath.Join(c.BinDir, "testplugin")

	n := c.Pick(40, 500)
	selfLeft := 2
	var cases []cliCase
	for i := 0; i < n; i++ {
		cs := genCLICase(c, i)
		if c.Only != "" && cs.ID != c.Only {
			continue
		}
		cases = append(cases, cs)
	}
	selfIdx := map[int]bool{}
	if selftest {
		for i, cs := range cases {
			p := cs.Plugins[cs.DBs[0].Plugin]
			eff := cs.DBs[0].Constraint
			if eff == "" {
				eff = "*"
			}
			acc, err := best(p.Versions, eff, false)
			low := lowestMatching(p.Versions, eff, false)
			if selfLeft > 0 && err == nil && len(acc) > 0 && !contains(acc, low) && !strings.Contains(p.Name, "-") {
				selfIdx[i] = true
				selfLeft--
			}
		}
	}
	core.Parallel(len(cases), 16, func(i int) {
		runCLICase(c, r, srv, sockDir, testplugin, cases[i], selfIdx[i])
	})

	multiDBLeg(c, r, srv, sockDir, testplugin)

	ni := c.Pick(16, 150)
	var icases []installCLICase
	for i := 0; i < ni; i++ {
		cs := genInstallCLICase(c, i)
		if c.Only != "" && cs.ID != c.Only {
			continue
		}
		icases = append(icases, cs)
	}
	for _, cs := range fixedInlineCLICases(c.Seed) {
		if c.Only == "" || cs.ID == c.Only {
			icases = append(icases, cs)
		}
	}
	core.Parallel(len(icases), 16, func(i int) {
		runInstallCLICase(c, r, srv, icases[i])
	})
	c.Note("loopback_requests", map[string]int64{"repository": srv.RepoReqs, "manifest": srv.ManifestReqs, "download": srv.DownloadReqs, "not_found": srv.NotFound})
}

func yamlConfig(dbName, typ, constraint string) []byte {
	var sb strings.Builder
	sb.WriteString("databases:\n")
	fmt.Fprintf(&sb, "  - name: %s\n    type: \"%s\"\n", dbName, typ)
	if constraint != "" {
		fmt.Fprintf(&sb, "    version: \"%s\"\n", constraint)
	}
	return []byte(sb.String())
}

func runCLICase(c *core.Ctx, r *cli.Runner, srv *plugtest.Server, sockDir, testplugin string, cs cliCase, selfWrong bool) {
	pd := r.NewDir()
	defer os.RemoveAll(pd)
	for _, p := range cs.Plugins {
		for _, v := range p.Versions {
			if err := plugtest.InstallBinary(pd, p.Repo, p.Name, v, testplugin); err != nil {
				c.Inconclusive("scratch-write")
				return
			}
		}
	}
	env := []string{"OCTOSQL_PLUGIN_DIR=" + pd, "OCTOSQL_PLUGIN_TMP_DIR=" + sockDir, "OCTOSQL_PLUGIN_REPOSITORY_OFFICIAL_URL=" + srv.RepoURL("official")}
	replayBase := map[string]interface{}{"id": cs.ID, "leg": "cli", "case": cs}
	desc := describeCase(caseSpec{Plugins: cs.Plugins})
	nontrivial := nontrivialCase(caseSpec{Plugins: cs.Plugins})

	// (a) plugins.installed_plugins
	{
		c.Eval(1)
		res := r.Exec(cli.Run{Args: []string{"SELECT name, repo_slug FROM plugins.installed_plugins", "-o", "json"}, Env: env})
		replay := withKV(replayBase, "query", "plugins.installed_plugins", "exit", res.Exit, "stdout", string(res.Stdout), "stderr", tail(string(res.Stderr), 800))
		switch {
		case res.TimedOut:
			c.Inconclusive("watchdog")
		case res.Panicked():
			site, msg := res.PanicSite()
			c.Violation("panic:"+site, msg, replay)
		case res.Exit != 0:
			c.Violation("installed-plugins-failed", "plugins.installed_plugins failed: "+tail(string(res.Stderr), 300), replay)
		default:
			rows, err := cli.DecodeJSONLines(res.Stdout)
			if err != nil {
				c.Violation("installed-plugins-output", err.Error(), replay)
				break
			}
			// names only: compare as (repo, name) with the version list left out
			var got []listed
			for _, row := range rows {
				got = append(got, listed{Repo: fmt.Sprint(row.Values["repo_slug"]), Name: fmt.Sprint(row.Values["name"])})
			}
			var tree []plugSpec
			for _, p := range cs.Plugins {
				tree = append(tree, plugSpec{Repo: p.Repo, Name: p.Name})
			}
			if key, what := judgeList(tree, got, ""); key != "" {
				c.Violation(key, "plugins.installed_plugins: "+what, replay)
			}
			c.Count("cli/installed_plugins_runs", 1)
			if nontrivial {
				c.Nontrivial("cli-plugins:" + desc)
			}
		}
	}
	// (b) plugins.installed_versions
	{
		c.Eval(1)
		res := r.Exec(cli.Run{Args: []string{"SELECT version, prerelease, plugin_name, repo_slug FROM plugins.installed_versions", "-o", "json"}, Env: env})
		replay := withKV(replayBase, "query", "plugins.installed_versions", "exit", res.Exit, "stdout", string(res.Stdout), "stderr", tail(string(res.Stderr), 800))
		switch {
		case res.TimedOut:
			c.Inconclusive("watchdog")
		case res.Panicked():
			site, msg := res.PanicSite()
			c.Violation("panic:"+site, msg, replay)
		case res.Exit != 0:
			c.Violation("installed-versions-failed", "plugins.installed_versions failed: "+tail(string(res.Stderr), 300), replay)
		default:
			rows, err := cli.DecodeJSONLines(res.Stdout)
			if err != nil {
				c.Violation("installed-versions-output", err.Error(), replay)
				break
			}
			byPlugin := map[string]*listed{}
			var order []string
			bad := ""
			for _, row := range rows {
				k := fmt.Sprint(row.Values["repo_slug"]) + "/" + fmt.Sprint(row.Values["plugin_name"])
				if byPlugin[k] == nil {
					byPlugin[k] = &listed{Repo: fmt.Sprint(row.Values["repo_slug"]), Name: fmt.Sprint(row.Values["plugin_name"])}
					order = append(order, k)
				}
				v := fmt.Sprint(row.Values["version"])
				byPlugin[k].Versions = append(byPlugin[k].Versions, v)
				if sv, err := semver.NewVersion(v); err == nil {
					if pre, ok := row.Values["prerelease"].(bool); !ok || pre != (sv.Prerelease() != "") {
						bad = fmt.Sprintf("version %s reported with prerelease=%v", v, row.Values["prerelease"])
					}
				}
			}
			var got []listed
			for _, k := range order {
				got = append(got, *byPlugin[k])
			}
			key, what := judgeList(cs.Plugins, got, "")
			if key == "list-mismatch" || key == "plugin-name-dash" {
				// two plugins that the defect maps to one name are merged by the grouping above:
				// judge per row instead (same classification rule)
				key, what = judgeVersionRows(cs.Plugins, rows)
			}
			if key != "" {
				c.Violation(key, "plugins.installed_versions: "+what, replay)
			} else if bad != "" {
				c.Violation("prerelease-flag", bad, replay)
			}
			c.Count("cli/installed_versions_runs", 1)
			if nontrivial {
				c.Nontrivial("cli-versions:" + desc)
			}
		}
	}
	// (c) dbLoop resolution, one configured database per invocation
	for di, d := range cs.DBs {
		p := cs.Plugins[d.Plugin]
		typ := p.Repo + "/" + p.Name
		if d.ShortRef {
			typ = p.Name
		}
		constraint := d.Constraint
		effective := constraint
		if effective == "" {
			effective = "*"
		}
		acceptable, err := best(p.Versions, effective, false)
		if err != nil {
			continue // semver rejects the constraint: nothing to resolve
		}
		if selfWrong && di == 0 && len(acceptable) > 0 {
			if low := lowestMatching(p.Versions, effective, false); low != "" && !contains(acceptable, low) {
				acceptable = []string{low}
			}
		}
		c.Eval(1)
		home := r.NewHome()
		_ = os.MkdirAll(filepath.Join(home, ".octosql"), 0o755)
		_ = os.WriteFile(filepath.Join(home, ".octosql", "octosql.yml"), yamlConfig("db0", typ, constraint), 0o644)
		res := r.Exec(cli.Run{Args: []string{"SELECT version, name, repo FROM db0.version", "-o", "json"}, Env: env, Home: home})
		_ = os.RemoveAll(home)
		replay := withKV(replayBase, "db", d, "type", typ, "constraint", constraint, "expected_one_of", acceptable, "exit", res.Exit, "stdout", string(res.Stdout), "stderr", tail(string(res.Stderr), 800))
		c.Count("cli/db/constraint/"+constraintKind(constraint), 1)
		nt := "cli-db:" + entryKey(p.Repo, p.Name, p.Versions) + " " + constraint
		switch {
		case res.TimedOut:
			c.Inconclusive("watchdog")
			continue
		case res.Panicked():
			site, msg := res.PanicSite()
			c.Violation("panic:"+site, msg, replay)
			continue
		}
		notInstalled := strings.Contains(string(res.Stderr), "is not installed with the required version")
		// the dash defect also makes another plugin of the same repository whose name ends in
		// "-<this name>" be discovered under this plugin's name, shadowing it
		shadowedBy := ""
		for _, q := range cs.Plugins {
			if q.Repo == p.Repo && q.Name != p.Name && strings.Contains(q.Name, "-") && bugName(q.Name) == p.Name {
				shadowedBy = q.Name
			}
		}
		if len(acceptable) == 0 {
			c.Count("cli/db/expected_unresolvable", 1)
			if shadowedBy != "" && (res.Exit == 0 || !notInstalled) {
				c.Violation("plugin-name-dash", fmt.Sprintf("no installed version of %s %v satisfies %q, but plugin %s of the same repository is discovered under the name %s and was resolved instead: exit %d %s", typ, p.Versions, effective, shadowedBy, p.Name, res.Exit, tail(string(res.Stderr), 200)), replay)
			} else if res.Exit == 0 {
				c.Violation("resolved-without-match", fmt.Sprintf("no installed version of %v satisfies %q, yet the database answered %s", p.Versions, effective, oneLine(res.Stdout)), replay)
			} else if !notInstalled {
				c.Violation("db-error", "unexpected failure: "+tail(string(res.Stderr), 300), replay)
			}
			continue
		}
		if len(p.Versions) >= 2 || strings.Contains(p.Name, "-") {
			c.Nontrivial(nt)
		}
		if res.Exit != 0 {
			if notInstalled && strings.Contains(p.Name, "-") {
				c.Violation("plugin-name-dash", fmt.Sprintf("database of type %s (name contains '-') with installed versions %v and constraint %q is reported as not installed", typ, p.Versions, effective), replay)
			} else if shadowedBy != "" {
				c.Violation("plugin-name-dash", fmt.Sprintf("database of type %s with installed versions %v and constraint %q fails because plugin %s of the same repository is discovered under the name %s: %s", typ, p.Versions, effective, shadowedBy, p.Name, tail(string(res.Stderr), 200)), replay)
			} else {
				c.Violation("db-not-resolved", fmt.Sprintf("database of type %s with installed versions %v and constraint %q failed: %s", typ, p.Versions, effective, tail(string(res.Stderr), 300)), replay)
			}
			continue
		}
		rows, err := cli.DecodeJSONLines(res.Stdout)
		if err != nil || len(rows) != 1 {
			c.Violation("db-output", fmt.Sprintf("expected one row from db0.version, got %s", oneLine(res.Stdout)), replay)
			continue
		}
		gotV, gotN, gotR := fmt.Sprint(rows[0].Values["version"]), fmt.Sprint(rows[0].Values["name"]), fmt.Sprint(rows[0].Values["repo"])
		if gotN != p.Name || gotR != p.Repo {
			c.Violation("db-wrong-plugin", fmt.Sprintf("database of type %s was served by plugin %s/%s", typ, gotR, gotN), replay)
			continue
		}
		if !contains(acceptable, gotV) && shadowedBy != "" {
			c.Violation("plugin-name-dash", fmt.Sprintf("type %s installed %v constraint %q: resolved to %s instead of %v because plugin %s of the same repository is discovered under the name %s", typ, p.Versions, effective, gotV, acceptable, shadowedBy, p.Name), replay)
			continue
		}
		if !contains(acceptable, gotV) {
			c.Violation("db-wrong-version", fmt.Sprintf("type %s installed %v constraint %q: resolved to %s, highest satisfying is %v", typ, p.Versions, effective, gotV, acceptable), replay)
			continue
		}
		c.Count("cli/db/resolved_ok", 1)
		if len(p.Versions) >= 2 {
			c.Count("cli/db/resolved_among_several", 1)
		}
		c.Sample(map[string]interface{}{"id": cs.ID, "leg": "cli", "type": typ, "installed": p.Versions, "constraint": constraint, "resolved": gotV})
	}
}

// judgeVersionRows judges plugins.installed_versions row by row: the multiset of
// (repo, name, version) rows must equal the installed one.
func judgeVersionRows(tree []plugSpec, rows []cli.JSONRow) (key, what string) {
	exp, expBug, got := map[string]int{}, map[string]int{}, map[string]int{}
	dashed := false
	for _, p := range tree {
		if strings.Contains(p.Name, "-") {
			dashed = true
		}
		for _, v := range p.Versions {
			exp[p.Repo+"/"+p.Name+"@"+canon(v)]++
			expBug[p.Repo+"/"+bugName(p.Name)+"@"+canon(v)]++
		}
	}
	for _, row := range rows {
		got[fmt.Sprint(row.Values["repo_slug"])+"/"+fmt.Sprint(row.Values["plugin_name"])+"@"+fmt.Sprint(row.Values["version"])]++
	}
	eq := func(a, b map[string]int) bool {
		if len(a) != len(b) {
			return false
		}
		for k, v := range a {
			if b[k] != v {
				return false
			}
		}
		return true
	}
	if eq(exp, got) {
		return "", ""
	}
	desc := fmt.Sprintf("installed %v, listed %v", keys(exp), keys(got))
	if dashed && eq(expBug, got) {
		return "plugin-name-dash", "a plugin whose name contains '-' is listed under the text after its last dash: " + desc
	}
	return "list-mismatch", desc
}

func runInstallCLICase(c *core.Ctx, r *cli.Runner, srv *plugtest.Server, cs installCLICase) {
	in := cs.Install
	acceptable, err := best(in.Manifest, in.Constraint, true)
	if err != nil {
		return
	}
	if cs.ViaConfig && in.Constraint == "" {
		// config driven install without a version entry uses the constraint "*"
		acceptable, _ = best(in.Manifest, "*", true)
	}
	c.Eval(1)
	key := "ci-" + cs.ID
	name := in.Name
	srv.Set(key, &plugtest.Repo{Slug: in.Repo, Plugins: []plugtest.Plugin{{Name: name, Versions: in.Manifest, Archive: func(version string) []byte {
		return plugtest.TarGz(name, fakeContent(name, version), gzip.BestSpeed)
	}}}})
	defer srv.Delete(key)
	pd := r.NewDir()
	defer os.RemoveAll(pd)
	home := r.NewHome()
	defer os.RemoveAll(home)
	env := []string{"OCTOSQL_PLUGIN_DIR=" + pd, "OCTOSQL_PLUGIN_REPOSITORY_OFFICIAL_URL=" + srv.RepoURL(key)}
	ref := in.Repo + "/" + in.Name
	if in.ShortRef {
		ref = in.Name
	}
	args := []string{"plugin", "install"}
	if cs.ViaConfig {
		_ = os.MkdirAll(filepath.Join(home, ".octosql"), 0o755)
		_ = os.WriteFile(filepath.Join(home, ".octosql", "octosql.yml"), yamlConfig("db0", ref, in.Constraint), 0o644)
		c.Count("cli/install/via_config", 1)
	} else {
		if in.Constraint != "" {
			ref += "@" + in.Constraint
		}
		args = append(args, ref)
		c.Count("cli/install/inline", 1)
	}
	res := r.Exec(cli.Run{Args: args, Env: env, Home: home})
	after := versionDirs(pd, in.Repo, in.Name)
	replay := map[string]interface{}{"id": cs.ID, "leg": "cli-install", "case": cs, "args": args, "expected_one_of": acceptable, "exit": res.Exit, "version_dirs": after, "stdout": string(res.Stdout), "stderr": tail(string(res.Stderr), 800)}
	c.Count("cli/install/constraint/"+constraintKind(in.Constraint), 1)
	switch {
	case res.TimedOut:
		c.Inconclusive("watchdog")
		return
	case res.Panicked():
		site, msg := res.PanicSite()
		c.Violation("panic:"+site, msg, replay)
		return
	}
	if len(in.Manifest) >= 2 {
		c.Nontrivial("cli-install:" + describeCase(caseSpec{Installs: []installSpec{in}}) + fmt.Sprint(cs.ViaConfig))
	}
	if len(acceptable) == 0 {
		c.Count("cli/install/no_matching_version", 1)
		if res.Exit == 0 || len(after) > 0 {
			c.Violation("install-without-match", fmt.Sprintf("no manifest version of %v satisfies %q, yet exit=%d and version directories %v", in.Manifest, in.Constraint, res.Exit, after), replay)
		}
		return
	}
	if res.Exit != 0 {
		c.Violation("install-failed", fmt.Sprintf("manifest %v constraint %q: expected %v to be installed, got: %s", in.Manifest, in.Constraint, acceptable, tail(string(res.Stderr), 300)), replay)
		return
	}
	if len(after) != 1 || !contains(acceptable, after[0]) {
		c.Violation("install-wrong-version", fmt.Sprintf("manifest %v (in this order) constraint %q: expected one of %v, version directories now %v", in.Manifest, in.Constraint, acceptable, after), replay)
		return
	}
	data, _ := os.ReadFile(plugtest.BinaryPath(pd, in.Repo, in.Name, after[0]))
	if string(data) != string(fakeContent(in.Name, after[0])) {
		c.Violation("install-wrong-download", fmt.Sprintf("version directory %s holds %q", after[0], oneLine(data)), replay)
		return
	}
	c.Count("cli/install/selected_ok", 1)
}

func oneLine(b []byte) string {
	s := strings.ReplaceAll(strings.TrimSpace(string(b)), "\n", " | ")
	if len(s) > 300 {
		s = s[:300] + "..."
	}
	return s
}

func withKV(base map[string]interface{}, kv ...interface{}) map[string]interface{} {
	out := map[string]interface{}{}
	for k, v := range base {
		out[k] = v
	}
	for i := 0; i+1 < len(kv); i += 2 {
		out[fmt.Sprint(kv[i])] = kv[i+1]
	}
	return out
}

package c28

import (
	"fmt"
	"os"
	"path/filepath"
	"strings"

	"github.com/cube2222/octosql/plugins/verifharness/cli"
	"github.com/cube2222/octosql/plugins/verifharness/core"
	"github.com/cube2222/octosql/plugins/verifharness/plugtest"
)

// Several databases of one octosql.yml backed by the SAME plugin: each must resolve on its own
// to the highest installed version satisfying ITS constraint, whatever the databases configured
// before or after it resolved to. Every database is queried through <db>.version.

type multiDB struct {
	Plugin     int    `json:"plugin"`
	Constraint string `json:"constraint"`
}

type multiDBCase struct {
	ID      string     `json:"id"`
	Plugins []plugSpec `json:"plugins"`
	DBs     []multiDB  `json:"dbs"`
}

// fixedMultiDBCases: deterministic part (also in the quick tier): tight-then-loose, the opposite
// order as control, three databases, exact / caret / tilde / range / absent constraints mixed,
// prereleases, a second plugin in between.
func fixedMultiDBCases(seed int64) []multiDBCase {
	tp := func(versions ...string) []plugSpec {
		return []plugSpec{{Repo: "core", Name: "testplugin", Versions: versions}}
	}
	db := func(constraints ...string) []multiDB {
		out := make([]multiDB, len(constraints))
		for i, c := range constraints {
			out[i] = multiDB{Constraint: c}
		}
		return out
	}
	cases := []multiDBCase{
		{Plugins: tp("1.0.0", "1.5.0", "2.0.0"), DBs: db("<2.0.0", "")},
		{Plugins: tp("1.0.0", "1.5.0", "2.0.0"), DBs: db("", "<2.0.0")},
		{Plugins: tp("1.0.0", "1.5.0", "2.0.0"), DBs: db("^1", "*", ">=1.5.0")},
		{Plugins: tp("1.0.0", "1.5.0", "2.0.0"), DBs: db("~1.0", "<2", "")},
		{Plugins: tp("1.0.0", "1.5.0", "2.0.0"), DBs: db("1.5.0", ">=1")},
		{Plugins: tp("1.0.0", "1.5.0", "2.0.0"), DBs: db("=1.0.0", "^1", ">=1, <3")},
		{Plugins: tp("0.2.1", "0.3.0", "1.0.0"), DBs: db("^0.2", ">0.0.0", "~0")},
		{Plugins: tp("2.0.0", "1.5.0", "3.1.0", "3.0.0"), DBs: db("<3.1.0", "<3", "")},
		{Plugins: tp("1.0.0", "2.0.0-beta.1", "1.2.0"), DBs: db("<1.2.0", ">=1.0.0-0", "*")},
		{Plugins: tp("1.0.0", "1.0.1+build.5", "1.1.0"), DBs: db("~1.0.0", "^1")},
		{Plugins: tp("1.0.0", "2.0.0"), DBs: db("^1", "^1 || ^2", "!=2.0.0")},
		{Plugins: []plugSpec{{Repo: "core", Name: "testplugin", Versions: []string{"1.0.0", "2.0.0"}}, {Repo: "other", Name: "x", Versions: []string{"0.9.0", "1.1.0"}}},
			DBs: []multiDB{{0, "<2"}, {1, "<1"}, {0, ""}}},
		{Plugins: []plugSpec{{Repo: "core", Name: "my-db", Versions: []string{"1.0.0", "1.5.0", "2.0.0"}}}, DBs: db("~1.0", "")},
	}
	for i := range cases {
		cases[i].ID = fmt.Sprintf("multidb-fixed-%d-%d", seed, i)
	}
	return cases
}

func genMultiDBCase(c *core.Ctx, i int) multiDBCase {
	rng := c.Rng(fmt.Sprintf("multidb-%d", i))
	cs := multiDBCase{ID: fmt.Sprintf("multidb-%d-%d", c.Seed, i)}
	for iter := 0; iter < 20; iter++ {
		cs.Plugins = genPlugins(rng, 2, 5)
		if len(cs.Plugins[0].Versions) >= 2 {
			break
		}
	}
	n := 2 + rng.Intn(2)
	for k := 0; k < n; k++ {
		d := multiDB{}
		// at least the first two databases share plugin 0
		if k >= 2 && len(cs.Plugins) > 1 && rng.Intn(2) == 0 {
			d.Plugin = 1
		}
		if rng.Intn(4) > 0 {
			d.Constraint = genConstraint(rng, cs.Plugins[d.Plugin].Versions)
		}
		cs.DBs = append(cs.DBs, d)
	}
	return cs
}

func multiDBLeg(c *core.Ctx, r *cli.Runner, srv *plugtest.Server, sockDir, testplugin string) {
	cases := fixedMultiDBCases(c.Seed)
	for i, n := 0, c.Pick(16, 200); i < n; i++ {
		cases = append(cases, genMultiDBCase(c, i))
	}
	var sel []multiDBCase
	for _, cs := range cases {
		if c.Only == "" || c.Only == cs.ID {
			sel = append(sel, cs)
		}
	}
	selfDone := false
	core.Parallel(len(sel), 16, func(i int) {
		self := false
		if selftest && i == 0 && !selfDone {
			self, selfDone = true, true
		}
		runMultiDBCase(c, r, srv, sockDir, testplugin, sel[i], self)
	})
}

func runMultiDBCase(c *core.Ctx, r *cli.Runner, srv *plugtest.Server, sockDir, testplugin string, cs multiDBCase, selfWrong bool) {
	pd := r.NewDir()
	defer os.RemoveAll(pd)
	for _, p := range cs.Plugins {
		for _, v := range p.Versions {
			if err := plugtest.InstallBinary(pd, p.Repo, p.Name, v, testplugin); err != nil {
				c.Inconclusive("scratch-write")
				return
			}
		}
	}
	// expectation per database; semver itself decides
	type exp struct {
		acceptable []string
		effective  string
	}
	exps := make([]exp, len(cs.DBs))
	anyUnresolvable := false
	var yml strings.Builder
	yml.WriteString("databases:\n")
	for k, d := range cs.DBs {
		p := cs.Plugins[d.Plugin]
		eff := d.Constraint
		if eff == "" {
			eff = "*"
		}
		acc, err := best(p.Versions, eff, false)
		if err != nil {
			return // semver rejects the constraint: not a configuration octosql can read
		}
		if len(acc) == 0 {
			anyUnresolvable = true
		}
		exps[k] = exp{acc, eff}
		fmt.Fprintf(&yml, "  - name: db%d\n    type: \"%s/%s\"\n", k, p.Repo, p.Name)
		if d.Constraint != "" {
			fmt.Fprintf(&yml, "    version: \"%s\"\n", d.Constraint)
		}
	}
	if selfWrong && !anyUnresolvable {
		// deliberately wrong expectation: the LOWEST matching version for the last database
		k := len(cs.DBs) - 1
		if low := lowestMatching(cs.Plugins[cs.DBs[k].Plugin].Versions, exps[k].effective, false); low != "" && !contains(exps[k].acceptable, low) {
			exps[k].acceptable = []string{low}
		}
	}
	home := r.NewHome()
	defer os.RemoveAll(home)
	_ = os.MkdirAll(filepath.Join(home, ".octosql"), 0o755)
	_ = os.WriteFile(filepath.Join(home, ".octosql", "octosql.yml"), []byte(yml.String()), 0o644)
	env := []string{"OCTOSQL_PLUGIN_DIR=" + pd, "OCTOSQL_PLUGIN_TMP_DIR=" + sockDir, "OCTOSQL_PLUGIN_REPOSITORY_OFFICIAL_URL=" + srv.RepoURL("official")}
	samePlugin := map[int]int{}
	for _, d := range cs.DBs {
		samePlugin[d.Plugin]++
	}
	for k, d := range cs.DBs {
		p := cs.Plugins[d.Plugin]
		c.Eval(1)
		q := fmt.Sprintf("SELECT version, name, repo FROM db%d.version", k)
		res := r.Exec(cli.Run{Args: []string{q, "-o", "json"}, Env: env, Home: home})
		replay := map[string]interface{}{"id": cs.ID, "leg": "cli-multidb", "case": cs, "octosql.yml": yml.String(), "query": q, "database": k,
			"expected_one_of": exps[k].acceptable, "exit": res.Exit, "stdout": string(res.Stdout), "stderr": tail(string(res.Stderr), 600)}
		c.Count("cli/multidb/queries", 1)
		c.Count(fmt.Sprintf("cli/multidb/databases_in_config/%d", len(cs.DBs)), 1)
		c.Count("cli/multidb/constraint/"+constraintKind(d.Constraint), 1)
		switch {
		case res.TimedOut:
			c.Inconclusive("watchdog")
			continue
		case res.Panicked():
			site, msg := res.PanicSite()
			c.Violation("panic:"+site, msg, replay)
			continue
		}
		if anyUnresolvable {
			// one unresolvable database makes every start fail (dbLoop runs before the query)
			c.Count("cli/multidb/expected_unresolvable_config", 1)
			if res.Exit == 0 {
				c.Violation("resolved-without-match", fmt.Sprintf("a database of this configuration has no installed version satisfying its constraint, yet %s answered %s", q, oneLine(res.Stdout)), replay)
			} else if !strings.Contains(string(res.Stderr), "is not installed with the required version") {
				c.Violation("db-error", "unexpected failure: "+tail(string(res.Stderr), 300), replay)
			}
			continue
		}
		if samePlugin[d.Plugin] >= 2 && len(p.Versions) >= 2 {
			c.Nontrivial(fmt.Sprintf("cli-multidb:%s db%d", yml.String(), k))
		}
		if res.Exit != 0 {
			c.Violation("db-not-resolved", fmt.Sprintf("database db%d (%s/%s, constraint %q, installed %v) of a %d-database configuration failed: %s", k, p.Repo, p.Name, exps[k].effective, p.Versions, len(cs.DBs), tail(string(res.Stderr), 300)), replay)
			continue
		}
		rows, err := cli.DecodeJSONLines(res.Stdout)
		if err != nil || len(rows) != 1 {
			c.Violation("db-output", fmt.Sprintf("expected one row from db%d.version, got %s", k, oneLine(res.Stdout)), replay)
			continue
		}
		gotV, gotN, gotR := fmt.Sprint(rows[0].Values["version"]), fmt.Sprint(rows[0].Values["name"]), fmt.Sprint(rows[0].Values["repo"])
		if gotN != p.Name || gotR != p.Repo {
			c.Violation("db-wrong-plugin", fmt.Sprintf("database db%d of type %s/%s was served by plugin %s/%s", k, p.Repo, p.Name, gotR, gotN), replay)
			continue
		}
		if !contains(exps[k].acceptable, gotV) {
			others := []string{}
			for j, o := range cs.DBs {
				if j != k && o.Plugin == d.Plugin {
					others = append(others, fmt.Sprintf("db%d %q", j, o.Constraint))
				}
			}
			c.Violation("db-wrong-version-multi-database", fmt.Sprintf("database db%d (%s/%s installed %v, constraint %q) resolved to %s, the highest satisfying its own constraint is %v; other databases on the same plugin: %v",
				k, p.Repo, p.Name, p.Versions, exps[k].effective, gotV, exps[k].acceptable, others), replay)
			continue
		}
		c.Count("cli/multidb/resolved_ok", 1)
		if samePlugin[d.Plugin] >= 2 {
			c.Count("cli/multidb/resolved_ok_sharing_plugin", 1)
		}
	}
	c.Sample(map[string]interface{}{"id": cs.ID, "leg": "cli-multidb", "octosql.yml": yml.String()})
}

// Package c24: file datasources produce values that match their inferred schema; rows that
// cannot be represented in it are reported as errors.
//
// R: a produced value that does not match the column type the datasource reported, or a row that
// cannot be represented in the inferred schema being converted instead of reported.
// O: own matches(value, type) (fileh.Matches); "cannot be represented" = no alternative of the
// column type admits the cell (own admits over the JSON model / strconv readings of a CSV cell).
// W: in-process Creator (schema) then Run over files whose first rows establish a type and whose
// later rows deviate; CLI leg: `--describe -o json` vs `-o json`.
package c24

import (
	"fmt"
	"math"
	"math/rand"
	"os"
	"path/filepath"
	"runtime/debug"
	"strconv"
	"strings"
	"time"

	"github.com/cube2222/octosql/datasources/csv"
	"github.com/cube2222/octosql/datasources/json"
	"github.com/cube2222/octosql/octosql"
	"github.com/cube2222/octosql/physical"

	"github.com/cube2222/octosql/plugins/verifharness/core"
	"github.com/cube2222/octosql/plugins/verifharness/nodeh"
	"github.com/cube2222/octosql/plugins/verifharness/props/fileh"
)

func init() { core.Register("C24", Run) }

var selftest = os.Getenv("VERIF_SELFTEST") == "1"

const preview = 100 // rows the inference looks at

// ---------------------------------------------------------------------------------------------
// own "admits": can the cell be represented in the type?

// admitsJSON reports whether model value m (present=false: key absent) is representable in t.
// why names the first obstacle.
func admitsJSON(t octosql.Type, m interface{}, present bool) (ok bool, why string) {
	if !present {
		if fileh.Nullable(t) {
			return true, ""
		}
		return false, "missing-key"
	}
	switch x := m.(type) {
	case nil:
		if fileh.Nullable(t) {
			return true, ""
		}
		return false, "null"
	case fileh.Num:
		if fileh.AdmitsID(t, octosql.TypeIDFloat) {
			return true, ""
		}
		return false, "other-kind"
	case bool:
		if fileh.AdmitsID(t, octosql.TypeIDBoolean) {
			return true, ""
		}
		return false, "other-kind"
	case string:
		if fileh.AdmitsID(t, octosql.TypeIDString) {
			return true, ""
		}
		if fileh.AdmitsID(t, octosql.TypeIDTime) && fileh.IsTimeLike(x) {
			return true, ""
		}
		if fileh.AdmitsID(t, octosql.TypeIDDuration) {
			if _, err := time.ParseDuration(x); err == nil {
				return true, ""
			}
		}
		if fileh.AdmitsID(t, octosql.TypeIDTime) {
			return false, "not-a-time"
		}
		return false, "other-kind"
	case []interface{}:
		lt := alt(t, octosql.TypeIDList)
		if lt == nil {
			return false, "other-kind"
		}
		if lt.List.Element == nil {
			if len(x) == 0 {
				return true, ""
			}
			return false, "elements-after-empty-list"
		}
		for _, e := range x {
			if ok, why := admitsJSON(*lt.List.Element, e, true); !ok {
				return false, "list-element-" + why
			}
		}
		return true, ""
	case *fileh.Obj:
		st := alt(t, octosql.TypeIDStruct)
		if st == nil {
			return false, "other-kind"
		}
		names := map[string]bool{}
		for _, f := range st.Struct.Fields {
			names[f.Name] = true
			v, present := x.Get(f.Name)
			if ok, why := admitsJSON(f.Type, v, present); !ok {
				return false, "object-field-" + why
			}
		}
		for _, k := range x.Keys {
			if !names[k] {
				return false, "object-new-field"
			}
		}
		return true, ""
	}
	return false, "model"
}

func alt(t octosql.Type, id octosql.TypeID) *octosql.Type {
	if t.TypeID == id {
		return &t
	}
	if t.TypeID == octosql.TypeIDUnion {
		for i := range t.Union.Alternatives {
			if t.Union.Alternatives[i].TypeID == id {
				return &t.Union.Alternatives[i]
			}
		}
	}
	return nil
}

// admitsCSV: some reading of the cell text (strconv, as the inference reads it) is admitted.
func admitsCSV(t octosql.Type, cell string) (ok bool, why string) {
	if cell == "" {
		if fileh.Nullable(t) {
			return true, ""
		}
		return false, "empty"
	}
	if fileh.AdmitsID(t, octosql.TypeIDString) {
		return true, ""
	}
	if _, err := strconv.ParseInt(cell, 10, 64); err == nil && fileh.AdmitsID(t, octosql.TypeIDInt) {
		return true, ""
	}
	// an out-of-range literal (1e400) reads as +-Inf with a range error: accepted as a Float reading
	if f, err := strconv.ParseFloat(cell, 64); (err == nil || math.IsInf(f, 0)) && fileh.AdmitsID(t, octosql.TypeIDFloat) {
		return true, ""
	}
	if _, err := strconv.ParseBool(cell); err == nil && fileh.AdmitsID(t, octosql.TypeIDBoolean) {
		return true, ""
	}
	if _, err := time.Parse(time.RFC3339Nano, cell); err == nil && fileh.AdmitsID(t, octosql.TypeIDTime) {
		return true, ""
	}
	return false, "other-kind"
}

// ---------------------------------------------------------------------------------------------
// running a datasource

type execOut struct {
	schema   physical.Schema
	recs     [][]octosql.Value
	stage    string
	err      error
	panicked bool
	msg      string
	stack    string
	timedOut bool
}

func execute(kind, path string, options map[string]string) execOut {
	var ex execOut
	ctx := nodeh.Ctx()
	var impl physical.DatasourceImplementation
	func() {
		defer func() {
			if r := recover(); r != nil {
				ex.stage, ex.panicked, ex.msg, ex.stack = "creator", true, fmt.Sprint(r), string(debug.Stack())
			}
		}()
		switch kind {
		case "json":
			impl, ex.schema, ex.err = json.Creator(ctx, path, options)
		case "csv":
			impl, ex.schema, ex.err = csv.Creator(',')(ctx, path, options)
		case "tsv":
			impl, ex.schema, ex.err = csv.Creator('\t')(ctx, path, options)
		}
	}()
	if ex.panicked {
		return ex
	}
	if ex.err != nil {
		ex.stage = "creator"
		return ex
	}
	node, err := impl.Materialize(ctx, nodeh.Env(nil), ex.schema, nil)
	if err != nil {
		ex.stage, ex.err = "materialize", err
		return ex
	}
	col := &nodeh.Collector{}
	// hostile consumer: appends to / overwrites every record it was handed (after the collector copied it)
	res := nodeh.RunNodeCtx(ctx, fileh.Hostile(node), col, nil, 60*time.Second)
	for _, o := range col.Snapshot() {
		if !o.IsWatermark {
			ex.recs = append(ex.recs, o.Record.Values)
		}
	}
	switch {
	case res.TimedOut:
		ex.stage, ex.timedOut = "run", true
	case res.Panicked:
		ex.stage, ex.panicked, ex.msg, ex.stack = "run", true, res.PanicMsg, res.Stack
	case res.Err != nil:
		ex.stage, ex.err = "run", res.Err
	}
	return ex
}

func schemaString(fs []physical.SchemaField) string {
	parts := make([]string, len(fs))
	for i, f := range fs {
		parts[i] = f.Name + ": " + fileh.TypeText(f.Type)
	}
	return strings.Join(parts, ", ")
}

func trunc(s string, n int) string {
	if len(s) > n {
		return s[:n] + "..."
	}
	return s
}

// ---------------------------------------------------------------------------------------------
// JSON cases

var jsonCols = []string{"a", "b", "c", "d", "e"}

// colKinds the preview can establish
var jsonKinds = []string{"float", "string", "bool", "time", "nfloat", "nstring", "list", "obj", "mixed", "null", "nlist"}

func genJSONCell(rng *rand.Rand, kind string) interface{} {
	switch kind {
	case "float":
		return fileh.NumOf(strconv.Itoa(rng.Intn(1000)))
	case "string":
		return fileh.RandStr(rng, fileh.StrOpts{Plain: true})
	case "bool":
		return rng.Intn(2) == 0
	case "time":
		s, _ := fileh.RandTimeStr(rng, true)
		return s
	case "nfloat":
		if rng.Intn(3) == 0 {
			return nil
		}
		return fileh.NumOf(strconv.Itoa(rng.Intn(1000)))
	case "nstring":
		if rng.Intn(3) == 0 {
			return nil
		}
		return fileh.RandStr(rng, fileh.StrOpts{Plain: true})
	case "list":
		n := 1 + rng.Intn(3)
		l := make([]interface{}, n)
		for i := range l {
			l[i] = fileh.NumOf(strconv.Itoa(rng.Intn(100)))
		}
		return l
	case "nlist": // list whose elements may be null
		n := 1 + rng.Intn(3)
		l := make([]interface{}, n)
		for i := range l {
			if rng.Intn(3) == 0 {
				l[i] = nil
			} else {
				l[i] = fileh.RandStr(rng, fileh.StrOpts{Plain: true})
			}
		}
		return l
	case "obj":
		o := &fileh.Obj{}
		o.Set("p", fileh.NumOf(strconv.Itoa(rng.Intn(100))))
		o.Set("q", fileh.RandStr(rng, fileh.StrOpts{Plain: true}))
		return o
	case "mixed":
		if rng.Intn(2) == 0 {
			return fileh.NumOf(strconv.Itoa(rng.Intn(100)))
		}
		return fileh.RandStr(rng, fileh.StrOpts{Plain: true})
	case "null":
		return nil
	}
	panic("kind")
}

// deviations a later row can carry in one column
var jsonDeviations = []string{"other-kind", "null", "missing", "obj-new-field", "obj-missing-field", "not-a-time", "time-in-string", "list-elem-kind", "new-top-level-key", "none"}

func deviate(rng *rand.Rand, kind, dev string, row *fileh.Obj, col string) (applied bool) {
	switch dev {
	case "other-kind":
		others := map[string][]interface{}{
			"float": {"x", true, []interface{}{fileh.NumOf("1")}}, "string": {fileh.NumOf("5"), false}, "bool": {fileh.NumOf("0"), "true"},
			"time": {fileh.NumOf("1600000000")}, "nfloat": {"7"}, "nstring": {fileh.NumOf("7")}, "list": {fileh.NumOf("1"), "[1]"},
			"obj": {fileh.NumOf("1"), "{}"}, "mixed": {true}, "null": {fileh.NumOf("1"), "x"}, "nlist": {"x"},
		}[kind]
		row.Set(col, others[rng.Intn(len(others))])
		return true
	case "null":
		row.Set(col, nil)
		return true
	case "missing":
		for i := range row.Keys {
			if row.Keys[i] == col {
				row.Keys = append(row.Keys[:i], row.Keys[i+1:]...)
				row.Vals = append(row.Vals[:i], row.Vals[i+1:]...)
				return true
			}
		}
	case "obj-new-field":
		if kind == "obj" {
			o := genJSONCell(rng, "obj").(*fileh.Obj)
			o.Set("zz", fileh.NumOf("1"))
			row.Set(col, o)
			return true
		}
	case "obj-missing-field":
		if kind == "obj" {
			o := &fileh.Obj{}
			o.Set("p", fileh.NumOf("3"))
			row.Set(col, o)
			return true
		}
	case "not-a-time":
		if kind == "time" {
			row.Set(col, "yesterday")
			return true
		}
	case "time-in-string":
		if kind == "string" || kind == "nstring" {
			s, _ := fileh.RandTimeStr(rng, true)
			row.Set(col, s)
			return true
		}
	case "list-elem-kind":
		if kind == "list" {
			row.Set(col, []interface{}{fileh.NumOf("1"), "x"})
			return true
		}
		if kind == "nlist" {
			row.Set(col, []interface{}{"x", fileh.NumOf("2")})
			return true
		}
	case "new-top-level-key":
		row.Set("zz_new", fileh.NumOf("1"))
		return true
	}
	return false
}

type jsonCase struct {
	id      string
	rows    []*fileh.Obj
	content []byte
	devs    []string // deviations applied (class names)
}

func genJSONCase(rng *rand.Rand, id string) jsonCase {
	nCols := 1 + rng.Intn(4)
	kinds := make([]string, nCols)
	for i := range kinds {
		kinds[i] = jsonKinds[rng.Intn(len(jsonKinds))]
	}
	nPrev := []int{1, 5, 40, 99, 100, 100, 100, 120}[rng.Intn(8)]
	nLater := []int{0, 1, 3, 30, 70}[rng.Intn(5)]
	cs := jsonCase{id: id}
	mk := func() *fileh.Obj {
		o := &fileh.Obj{}
		for i := 0; i < nCols; i++ {
			o.Set(jsonCols[i], genJSONCell(rng, kinds[i]))
		}
		return o
	}
	// preview: conforming rows; optionally a key missing in some preview rows
	previewMissing := rng.Intn(6) == 0
	for i := 0; i < nPrev; i++ {
		row := mk()
		if previewMissing && i > 0 && rng.Intn(4) == 0 {
			deviate(rng, kinds[0], "missing", row, jsonCols[0])
			cs.devs = append(cs.devs, "preview-missing")
		}
		cs.rows = append(cs.rows, row)
	}
	for i := 0; i < nLater; i++ {
		row := mk()
		if len(cs.rows) >= preview && rng.Intn(3) != 0 {
			c := rng.Intn(nCols)
			dev := jsonDeviations[rng.Intn(len(jsonDeviations))]
			if deviate(rng, kinds[c], dev, row, jsonCols[c]) {
				cs.devs = append(cs.devs, dev)
			}
		}
		cs.rows = append(cs.rows, row)
	}
	cs.content = fileh.SerialiseJSONRows(rng, cs.rows, 0, false, rng.Intn(3) == 0)
	return cs
}

func runJSONCase(c *core.Ctx, rng *rand.Rand, id string) {
	cs := genJSONCase(rng, id)
	c.Eval(1)
	c.Count("inproc/json/files", 1)
	path := filepath.Join(c.Scratch, id+".json")
	if err := os.WriteFile(path, cs.content, 0o644); err != nil {
		c.Inconclusive("scratch-write")
		return
	}
	defer os.Remove(path)
	c.LogCase(id)
	ex := execute("json", path, map[string]string{})
	replay := map[string]interface{}{"id": id, "kind": "json", "rows": len(cs.rows), "deviations": cs.devs, "schema": schemaString(ex.schema.Fields),
		"file": trunc(string(cs.content), 30000), "rerun": "./check C24 <tier> --only " + id}
	if ex.timedOut {
		c.Inconclusive("watchdog")
		return
	}
	if ex.panicked {
		c.Violation("panic:"+core.PanicSite(ex.stack), "json "+ex.stage+" panicked: "+ex.msg, replay)
		return
	}
	if ex.stage == "creator" {
		c.Violation("json:creator-error", "schema inference failed on well-formed JSON lines: "+ex.err.Error(), replay)
		return
	}
	// which cells are unrepresentable in the reported schema?
	type bad struct {
		row  int
		col  string
		why  string
		cell string
	}
	var unrep []bad
	cols := map[string]bool{}
	for _, f := range ex.schema.Fields {
		cols[f.Name] = true
	}
	newTop := 0
	for i, row := range cs.rows {
		for _, f := range ex.schema.Fields {
			t := f.Type
			if selftest && i%7 == 3 {
				t = octosql.Boolean // deliberately wrong expectation
			}
			v, present := row.Get(f.Name)
			if ok, why := admitsJSON(t, v, present); !ok {
				unrep = append(unrep, bad{i, f.Name, why, fileh.Show(v)})
			}
		}
		for _, k := range row.Keys {
			if !cols[k] {
				newTop++
			}
		}
	}
	if newTop > 0 {
		// a key that appears only after the preview is dropped; DESIGN lists only nested "object with
		// new fields" for C24, so this is counted, not judged
		c.Count("inproc/json/new_top_level_key_rows_not_judged", newTop)
	}
	if ex.err != nil {
		if len(unrep) > 0 {
			c.Count("inproc/json/unrepresentable_reported_as_error", 1)
			c.Nontrivial("json|" + string(cs.content))
			return
		}
		c.Violation("json:spurious-error", "every row is representable in the reported schema, yet the source failed: "+ex.err.Error(), replay)
		return
	}
	if len(ex.recs) != len(cs.rows) {
		c.Violation("json:row-count", fmt.Sprintf("%d rows in the file, %d records", len(cs.rows), len(ex.recs)), replay)
		return
	}
	// (1) every produced value matches the reported type
	classes := map[string][]string{}
	addClass := func(k, what string) {
		if len(classes[k]) < 4 {
			classes[k] = append(classes[k], what)
		}
	}
	unrepAt := map[string]string{}
	for _, b := range unrep {
		unrepAt[fmt.Sprintf("%d/%s", b.row, b.col)] = b.why
	}
	cells := 0
	for i, rec := range ex.recs {
		if len(rec) != len(ex.schema.Fields) {
			c.Violation("json:record-width", fmt.Sprintf("record %d has %d values for %d columns", i, len(rec), len(ex.schema.Fields)), replay)
			return
		}
		for j, f := range ex.schema.Fields {
			cells++
			why, isUnrep := unrepAt[fmt.Sprintf("%d/%s", i, f.Name)]
			m := fileh.Matches(rec[j], f.Type)
			mv, present := cs.rows[i].Get(f.Name)
			desc := fmt.Sprintf("row %d column %s (%s): cell %s -> %s", i, f.Name, fileh.TypeText(f.Type), trunc(showCell(mv, present), 80), trunc(fileh.ShowVal(rec[j]), 80))
			switch {
			case isUnrep:
				// (2) an unrepresentable cell must be an error; it was converted. Key by the input class
				// and the symptom (NULL / value with the offending part dropped).
				key := "json-nonconforming-cell-converted"
				switch {
				case why == "missing-key" && i < preview:
					key = "json-preview-missing-key-not-nullable"
				case i < preview:
					// a previewed row that does not fit the type inferred from the preview: the inference is wrong
					key = "json:preview-row-not-covered-by-inferred-type"
				case strings.HasSuffix(why, "object-new-field"):
					key = "json-object-new-field-dropped"
				}
				sym := "converted"
				if rec[j].TypeID == octosql.TypeIDNull {
					sym = "NULL"
				}
				if selftest {
					key = "json:unrepresentable-converted"
				}
				addClass(key, desc+" ["+why+", "+sym+"]")
			case !m:
				addClass("json:type-mismatch", desc)
			}
		}
	}
	c.Count("inproc/json/cells_checked", cells)
	if len(unrep) > 0 {
		c.Count("inproc/json/files_with_unrepresentable_rows", 1)
	}
	for k, whats := range classes {
		what := "a value does not match the reported column type: "
		if k != "json:type-mismatch" {
			what = "a row that cannot be represented in the inferred schema was converted instead of reported as an error: "
		}
		c.Violation(k, what+strings.Join(whats, "; "), replay)
	}
	if len(cs.rows) > preview || len(cs.devs) > 0 {
		c.Nontrivial("json|" + string(cs.content))
	}
	if len(classes) == 0 {
		c.Sample(map[string]interface{}{"id": id, "kind": "json", "rows": len(cs.rows), "deviations": cs.devs, "schema": schemaString(ex.schema.Fields), "cells_checked": cells})
	}
}

func showCell(v interface{}, present bool) string {
	if !present {
		return "(key absent)"
	}
	return fileh.Show(v)
}

// ---------------------------------------------------------------------------------------------
// CSV cases

// cells on which the inference parser (strconv) and the execution parser (fastfloat) may differ
var trickyCells = []string{"+5", "1_0", "0x1p-2", "Infinity", "-Infinity", "+Inf", "inf", "NaN", "nan", "12345678901234567890", "-12345678901234567890", " 1", "1 ", "1.", ".5", "-.5",
	"1e5", "1E5", "0x10", "1_000", "-0", "00", "007", "1e400", "-1e400", "1e-400", "0b11", "0o17", "1__0", "+0", "+1.5", "1.5e", "1.5e+", "9223372036854775808", "-9223372036854775808",
	"t", "T", "TRUE", "1", "0", "True", "2020-01-01T00:00:00Z", "2020-01-01", "2020-01-01T00:00:00+25:00", "1h", "١٢٣", "1,5", "0x1P+2", "1p3", "infinity", "INF"}

var csvKinds = []string{"int", "float", "bool", "time", "str", "nint", "nstr", "intfloat", "tricky", "mixed"}

func genCSVCell(rng *rand.Rand, kind string) string {
	switch kind {
	case "int":
		return fileh.RandIntCell(rng)
	case "float":
		return strconv.FormatFloat(float64(rng.Intn(200001)-100000)/100+0.005, 'f', -1, 64)
	case "bool":
		return fileh.RandBoolCell(rng)
	case "time":
		s, _ := fileh.RandTimeStr(rng, true)
		return s
	case "str":
		return fileh.RandStrCell(rng, true)
	case "nint":
		if rng.Intn(3) == 0 {
			return ""
		}
		return fileh.RandIntCell(rng)
	case "nstr":
		if rng.Intn(3) == 0 {
			return ""
		}
		return fileh.RandStrCell(rng, true)
	case "intfloat":
		if rng.Intn(2) == 0 {
			return fileh.RandIntCell(rng)
		}
		return strconv.FormatFloat(rng.Float64()*100, 'f', 3, 64)
	case "tricky":
		return trickyCells[rng.Intn(len(trickyCells))]
	default:
		return fileh.RandCell(rng, []string{"int", "float", "bool", "time", "str"}[rng.Intn(5)], true)
	}
}

type csvCase struct {
	id      string
	f       *fileh.CSVFile
	devs    []string
	trickyN int
	shared  bool // shared-text file (shared.go)
	big     bool // big-integer file (big.go)
	tsv     bool
}

func genCSVCase(rng *rand.Rand, id string) csvCase {
	nCols := 1 + rng.Intn(4)
	kinds := make([]string, nCols)
	for i := range kinds {
		kinds[i] = csvKinds[rng.Intn(len(csvKinds))]
	}
	nPrev := []int{1, 5, 40, 99, 100, 100, 100, 120}[rng.Intn(8)]
	nLater := []int{0, 1, 3, 30, 70}[rng.Intn(5)]
	cs := csvCase{id: id, f: &fileh.CSVFile{Sep: ','}}
	for i := 0; i < nCols; i++ {
		cs.f.Header = append(cs.f.Header, []string{"a", "b", "c", "d"}[i])
	}
	mk := func() []string {
		row := make([]string, nCols)
		for i := range row {
			row[i] = genCSVCell(rng, kinds[i])
			if kinds[i] == "tricky" {
				cs.trickyN++
			}
		}
		return row
	}
	for i := 0; i < nPrev; i++ {
		cs.f.Rows = append(cs.f.Rows, mk())
	}
	for i := 0; i < nLater; i++ {
		row := mk()
		if len(cs.f.Rows) >= preview && rng.Intn(3) != 0 {
			col := rng.Intn(nCols)
			switch d := rng.Intn(4); d {
			case 0:
				row[col] = ""
				cs.devs = append(cs.devs, "empty")
			case 1:
				row[col] = genCSVCell(rng, []string{"int", "float", "bool", "time", "str"}[rng.Intn(5)])
				cs.devs = append(cs.devs, "other-kind")
			case 2:
				row[col] = trickyCells[rng.Intn(len(trickyCells))]
				cs.devs = append(cs.devs, "tricky")
				cs.trickyN++
			}
		}
		cs.f.Rows = append(cs.f.Rows, row)
	}
	cs.f.Content = fileh.SerialiseCSV(rng, cs.f)
	return cs
}

func runCSVCase(c *core.Ctx, rng *rand.Rand, id string) {
	var cs csvCase
	kind := "csv"
	switch {
	case strings.HasPrefix(id, "csvshared-"):
		k, _ := strconv.Atoi(strings.TrimPrefix(id, "csvshared-"))
		cs = genSharedCSVCase(rng, id, k, false)
		c.Count("inproc/csv/shared_text_files", 1)
	case strings.HasPrefix(id, "tsvshared-"):
		k, _ := strconv.Atoi(strings.TrimPrefix(id, "tsvshared-"))
		cs = genSharedCSVCase(rng, id, k, true)
		kind = "tsv"
		c.Count("inproc/tsv/shared_text_files", 1)
	case strings.HasPrefix(id, "csvbig-"):
		k, _ := strconv.Atoi(strings.TrimPrefix(id, "csvbig-"))
		cs = genBigCSVCase(rng, id, k, false)
		c.Count("inproc/csv/big_integer_files", 1)
	case strings.HasPrefix(id, "tsvbig-"):
		k, _ := strconv.Atoi(strings.TrimPrefix(id, "tsvbig-"))
		cs = genBigCSVCase(rng, id, k, true)
		kind = "tsv"
		c.Count("inproc/tsv/big_integer_files", 1)
	default:
		cs = genCSVCase(rng, id)
	}
	c.Eval(1)
	c.Count("inproc/csv/files", 1)
	path := filepath.Join(c.Scratch, id+"."+kind)
	if err := os.WriteFile(path, cs.f.Content, 0o644); err != nil {
		c.Inconclusive("scratch-write")
		return
	}
	defer os.Remove(path)
	ex := execute(kind, path, map[string]string{})
	replay := map[string]interface{}{"id": id, "kind": "csv", "rows": len(cs.f.Rows), "deviations": cs.devs, "schema": schemaString(ex.schema.Fields),
		"file": trunc(string(cs.f.Content), 30000), "rerun": "./check C24 <tier> --only " + id}
	if ex.timedOut {
		c.Inconclusive("watchdog")
		return
	}
	if ex.panicked {
		c.Violation("panic:"+core.PanicSite(ex.stack), "csv "+ex.stage+" panicked: "+ex.msg, replay)
		return
	}
	if ex.stage == "creator" {
		c.Violation("csv:creator-error", "schema inference failed on well-formed CSV: "+ex.err.Error(), replay)
		return
	}
	if len(ex.schema.Fields) != len(cs.f.Header) {
		c.Violation("csv:columns", fmt.Sprintf("%d columns in the header, %d in the schema", len(cs.f.Header), len(ex.schema.Fields)), replay)
		return
	}
	unrepN := 0
	for _, row := range cs.f.Rows {
		for j, f := range ex.schema.Fields {
			if ok, _ := admitsCSV(f.Type, row[j]); !ok {
				unrepN++
			}
		}
	}
	if ex.err != nil {
		if unrepN > 0 {
			c.Count("inproc/csv/unrepresentable_reported_as_error", 1)
			c.Nontrivial("csv|" + string(cs.f.Content))
			return
		}
		c.Violation("csv:spurious-error", "every row is representable in the reported schema, yet the source failed: "+ex.err.Error(), replay)
		return
	}
	if len(ex.recs) != len(cs.f.Rows) {
		c.Violation("csv:row-count", fmt.Sprintf("%d rows in the file, %d records", len(cs.f.Rows), len(ex.recs)), replay)
		return
	}
	classes := map[string][]string{}
	addClass := func(k, what string) {
		if len(classes[k]) < 4 {
			classes[k] = append(classes[k], what)
		}
	}
	cells := 0
	for i, rec := range ex.recs {
		if len(rec) != len(ex.schema.Fields) {
			c.Violation("csv:record-width", fmt.Sprintf("record %d has %d values for %d columns", i, len(rec), len(ex.schema.Fields)), replay)
			return
		}
		for j, f := range ex.schema.Fields {
			cells++
			cell := cs.f.Rows[i][j]
			t := f.Type
			if selftest && i%7 == 3 {
				t = octosql.Boolean
			}
			rep, why := admitsCSV(t, cell)
			m := fileh.Matches(rec[j], t)
			desc := fmt.Sprintf("row %d column %s (%s): cell %q -> %s", i, f.Name, fileh.TypeText(t), cell, trunc(fileh.ShowVal(rec[j]), 80))
			switch {
			case !rep && i < preview && !selftest:
				// a previewed row that does not fit the type inferred from the preview: the inference is wrong
				addClass("csv:preview-row-not-covered-by-inferred-type", desc)
			case !rep && why == "empty":
				// predicate: empty cell BEYOND the preview in a column whose type does not admit NULL; symptom: NULL, no error
				if rec[j].TypeID == octosql.TypeIDNull && !selftest {
					addClass("csv-empty-cell-nonnullable-null", desc)
				} else {
					addClass("csv:unrepresentable-converted", desc)
				}
			case !rep:
				// predicate: no reading of the cell is admitted by the column type; symptom: the
				// text is handed out as a String, no error
				if rec[j].TypeID == octosql.TypeIDString && rec[j].Str == cell && !selftest {
					addClass("csv-unrepresentable-cell-string", desc)
				} else {
					addClass("csv:unrepresentable-converted", desc)
				}
			case !m:
				// representable, but the produced value does not match the type. predicate of the
				// anticipated defect: strconv (inference) reads the cell as a number the column admits,
				// fastfloat (execution) rejects it; symptom: String(cell)
				_, ierr := strconv.ParseInt(cell, 10, 64)
				_, ferr := strconv.ParseFloat(cell, 64)
				numeric := (ierr == nil && fileh.AdmitsID(t, octosql.TypeIDInt)) || (ferr == nil && fileh.AdmitsID(t, octosql.TypeIDFloat))
				if !cs.shared && numeric && rec[j].TypeID == octosql.TypeIDString && rec[j].Str == cell && !selftest {
					addClass("csv-inference-execution-parser-mismatch", desc)
				} else {
					addClass("csv:type-mismatch", desc)
				}
			default:
				// the value matches the type; it must also be a reading of the cell text the type admits
				// (the Int only if the text fits int64, else the Float where admitted, else the String ...)
				ds := &fileh.DiffSet{}
				fileh.CompareCSV(fileh.Row(i).Col(f.Name), t, rec[j], cell, ds)
				if !ds.Empty() {
					addClass("csv:value-not-what-the-cell-denotes", desc)
				}
			}
		}
	}
	c.Count("inproc/csv/cells_checked", cells)
	c.Count("inproc/csv/tricky_cells", cs.trickyN)
	if unrepN > 0 {
		c.Count("inproc/csv/files_with_unrepresentable_rows", 1)
	}
	for k, whats := range classes {
		what := "a value does not match the reported column type: "
		if strings.Contains(k, "denotes") {
			what = "a value matches the column type but is not a reading of the cell text that the type admits: "
		} else if strings.Contains(k, "unrepresentable") || strings.Contains(k, "empty-cell") {
			what = "a row that cannot be represented in the inferred schema was converted instead of reported as an error: "
		}
		c.Violation(k, what+strings.Join(whats, "; "), replay)
	}
	if len(cs.f.Rows) > preview || len(cs.devs) > 0 || cs.trickyN > 0 {
		c.Nontrivial(kind + "|" + string(cs.f.Content))
	}
	if len(classes) == 0 {
		c.Sample(map[string]interface{}{"id": id, "kind": kind, "rows": len(cs.f.Rows), "deviations": cs.devs, "schema": schemaString(ex.schema.Fields), "cells_checked": cells})
	}
}

// ---------------------------------------------------------------------------------------------

func Run(c *core.Ctx) core.FinishOpts {
	fileh.ApplyReplay(c)
	n := c.Pick(150, 5000)
	ids := []string{}
	for i := 0; i < n; i++ {
		ids = append(ids, fmt.Sprintf("json-%d", i), fmt.Sprintf("csv-%d", i))
	}
	// shared-text files: every ordered pair of union-typed column kinds, CSV and TSV (both tiers)
	for k := range sharedVariants() {
		ids = append(ids, fmt.Sprintf("csvshared-%d", k), fmt.Sprintf("tsvshared-%d", k))
	}
	// big-integer files (big.go)
	for k := 0; k < bigVariants(); k++ {
		ids = append(ids, fmt.Sprintf("csvbig-%d", k), fmt.Sprintf("tsvbig-%d", k))
	}
	core.Parallel(len(ids), 8, func(k int) {
		id := ids[k]
		if c.Only != "" && c.Only != id {
			return
		}
		rng := c.Rng("case/" + id)
		if strings.HasPrefix(id, "json-") {
			runJSONCase(c, rng, id)
		} else {
			runCSVCase(c, rng, id)
		}
	})
	runCLI(c)
	return core.FinishOpts{
		Level: "exploration",
		Rule: "files = 1-4 columns of a kind (scalar, nullable, list, object, mixed, tricky numeric spellings); 1..120 conforming rows (some files lack a key in some preview rows), then 0..70 later rows of which " +
			"2/3 deviate when they lie beyond the 100-row preview (other kind, null, missing key, object with new/missing field, non-time in a Time column, list element of another kind, empty CSV cell, " +
			"cells on which strconv and fastfloat disagree); plus, in both tiers, CSV and TSV files with two union-typed columns (every ordered pair of Int|String, Float|String, Boolean|Int|String, Time|String, Boolean|String) that share cell texts beyond the preview in both row orders, and files with 19-25 digit integer literals around +-2^63 in Int-only columns (beyond the preview) and in Int|Float / Int|String union columns; every in-process run has a hostile consumer that appends to and overwrites the records it was handed; CLI leg (also tumble / max_diff_watermark directly over json/csv files): --describe -o json vs -o json; non-trivial = more than 100 rows, or a deviation, or a tricky cell; distinct by file content",
		Floor: c.Pick(100, 3000),
		Assumptions: []string{"representable = some alternative of the reported column type admits the cell (numbers/bools/times as strconv / time.Parse read them, as the inference does)",
			"own matches(value, type); own parser of the type strings --describe prints", "a JSON column that is [] in the whole preview and non-empty later is exercised only through the CLI (it kills a worker goroutine)"},
	}
}

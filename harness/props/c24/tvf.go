package c24

import (
	"bytes"
	"encoding/json"
	"fmt"
	"math/rand"
	"strconv"
	"strings"
	"time"

	"github.com/cube2222/octosql/plugins/verifharness/cli"
	"github.com/cube2222/octosql/plugins/verifharness/core"
	"github.com/cube2222/octosql/plugins/verifharness/props/fileh"
)

// cliTVF: tumble / max_diff_watermark directly over a json or csv file with a time column
// (130..200 rows, i.e. several 64-line JSON batches). tumble appends window_start/window_end to the
// record it was handed, which is how a datasource whose records share a backing array shows:
// the values of the NEXT record are overwritten while --describe still reports the file's types.
// Every printed value must match the described type and equal the file's value.
func cliTVF(c *core.Ctx, runner *cli.Runner, id string, rng *rand.Rand, kind, fn string) {
	n := 130 + rng.Intn(71)
	base := time.Date(2021, 3, 4, 5, 6, 0, 0, time.UTC).Add(time.Duration(rng.Intn(1000)) * time.Second)
	type row struct {
		a float64
		s string
		t time.Time
	}
	rows := make([]row, n)
	var b bytes.Buffer
	if kind == "csv" {
		b.WriteString("a,s,t\n")
	}
	for i := range rows {
		r := row{a: float64(rng.Intn(200001)-100000)/8 + 0.0625, s: fileh.RandStrCell(rng, true), t: base.Add(time.Duration(i) * time.Second)}
		rows[i] = r
		lit := strconv.FormatFloat(r.a, 'f', -1, 64)
		if kind == "csv" {
			cell := r.s
			if strings.ContainsAny(cell, ",\"\r\n") {
				cell = `"` + strings.ReplaceAll(cell, `"`, `""`) + `"`
			}
			fmt.Fprintf(&b, "%s,%s,%s\n", lit, cell, r.t.Format(time.RFC3339))
		} else {
			sj, _ := json.Marshal(r.s)
			fmt.Fprintf(&b, "{\"a\":%s,\"s\":%s,\"t\":%q}\n", lit, sj, r.t.Format(time.RFC3339))
		}
	}
	name := "f." + kind
	var sql string
	const window = 5
	if fn == "tumble" {
		sql = fmt.Sprintf("SELECT * FROM tumble(source=>TABLE(%s), time_field=>DESCRIPTOR(t), window_length=>INTERVAL %d SECONDS) x", name, window)
	} else {
		sql = fmt.Sprintf("SELECT * FROM max_diff_watermark(source=>TABLE(%s), max_diff=>INTERVAL 3 SECONDS, time_field=>DESCRIPTOR(t)) x", name)
	}
	files := map[string][]byte{name: b.Bytes()}
	c.Eval(1)
	c.Count("cli/tvf/"+fn+"/"+kind, 1)
	replay := map[string]interface{}{"id": id, "kind": kind, "sql": sql, "rows": n, "file": trunc(b.String(), 30000), "rerun": "./check C24 <tier> --only " + id}
	d, dres, ok := describe(c, runner, sql, files, replay)
	if !ok {
		if dres.Panicked() {
			site, msg := dres.PanicSite()
			c.Violation("panic:"+site, "--describe crashed: "+msg, replay)
		} else if dres.Exit != 0 {
			c.Violation("tvf:describe-error", "--describe failed: "+trunc(string(dres.Stderr), 300), replay)
		}
		return
	}
	replay["described"] = describedString(d)
	res := runner.Exec(cli.Run{Args: []string{sql, "-o", "json"}, Files: files})
	switch {
	case res.TimedOut:
		c.Inconclusive("watchdog")
		return
	case res.Panicked():
		site, msg := res.PanicSite()
		replay["stderr"] = trunc(string(res.Stderr), 3000)
		c.Violation("panic:"+site, "octosql crashed: "+msg, replay)
		return
	case res.Exit != 0:
		c.Violation("tvf:error", "octosql failed on a well-formed file: "+trunc(string(res.Stderr), 300), replay)
		return
	}
	lines := splitLines(res.Stdout)
	if len(lines) != n {
		c.Violation("tvf:row-count", fmt.Sprintf("%d rows in the file, %d lines printed", n, len(lines)), replay)
		return
	}
	classes := map[string][]string{}
	add := func(k, what string) {
		if len(classes[k]) < 4 {
			classes[k] = append(classes[k], what)
		}
	}
	for i, line := range lines {
		dec, err := cli.DecodeJSONLines(line)
		if err != nil || len(dec) != 1 {
			add("tvf:undecodable-line", fmt.Sprintf("row %d: %s", i, trunc(string(line), 200)))
			continue
		}
		for _, col := range d.names {
			dv, has := dec[0].Values[col]
			if !has {
				add("tvf:column-not-printed", col)
				continue
			}
			if !matchesDecoded(dv, d.types[col]) {
				add("tvf:type-mismatch", fmt.Sprintf("row %d column %s (%s) printed as %v", i, col, fileh.TypeText(d.types[col]), dv))
			}
		}
		// ground truth
		r := rows[i]
		if selftest && i%9 == 4 {
			r.a++
		}
		if x, ok := dec[0].Values["a"].(json.Number); !ok {
			add("tvf:value", fmt.Sprintf("row %d: a=%v, file has %v", i, dec[0].Values["a"], r.a))
		} else if got, err := strconv.ParseFloat(string(x), 64); err != nil || got != r.a {
			add("tvf:value", fmt.Sprintf("row %d: a=%v, file has %v", i, x, r.a))
		}
		if s, ok := dec[0].Values["s"].(string); !ok || s != r.s {
			add("tvf:value", fmt.Sprintf("row %d: s=%v, file has %q", i, dec[0].Values["s"], r.s))
		}
		ts, _ := dec[0].Values["t"].(string)
		if got, err := time.Parse(time.RFC3339Nano, ts); err != nil || !got.Equal(r.t) {
			add("tvf:value", fmt.Sprintf("row %d: t=%v, file has %s", i, dec[0].Values["t"], r.t.Format(time.RFC3339)))
		}
		if fn == "tumble" {
			wss, _ := dec[0].Values["window_start"].(string)
			wes, _ := dec[0].Values["window_end"].(string)
			ws, err1 := time.Parse(time.RFC3339Nano, wss)
			we, err2 := time.Parse(time.RFC3339Nano, wes)
			if err1 != nil || err2 != nil || ws.After(r.t) || !we.After(r.t) || we.Sub(ws) != window*time.Second || ws.Unix()%window != 0 {
				add("tvf:value", fmt.Sprintf("row %d: t=%s window [%v, %v)", i, r.t.Format(time.RFC3339), dec[0].Values["window_start"], dec[0].Values["window_end"]))
			}
		}
	}
	for k, whats := range classes {
		c.Violation(k, fn+" over "+name+": "+strings.Join(whats, "; "), replay)
	}
	c.Nontrivial("cli|tvf|" + fn + "|" + b.String())
	if len(classes) == 0 {
		c.Sample(map[string]interface{}{"id": id, "kind": kind, "leg": "cli", "sql": sql, "rows": n, "described": replay["described"]})
	}
}

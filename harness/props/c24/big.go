package c24

import (
	"math/rand"
	"strconv"

	"github.com/cube2222/octosql/plugins/verifharness/props/fileh"
)

// Big-integer files: base-10 integer literals of 19-25 digits around and beyond +-2^63.
// Variant k < len(bigLits): one Int-only column `i` whose preview holds small ints and which gets
// bigLits[k] beyond the preview - in range it must come out as that Int, out of range the row is
// unrepresentable and must be an error. Variant len(bigLits): union columns that admit another
// reading: `u` (NULL | Int | Float, big literals inside AND beyond the preview), `w` (Int | String,
// big literals only beyond the preview), `x` (Int | Float | String, inside and beyond); every cell
// is representable and must come out as what its text denotes: the Int if it fits int64, else the
// Float where Float is admitted, else the String.

var bigLits = []string{"9223372036854775807", "9223372036854775808", "-9223372036854775808", "-9223372036854775809", "123000000000000000000000000000",
	"-99999999999999999999", "18446744073709551616", "1234567890123456789012345", "-9223372036854775807", "9223372036854775806", "09223372036854775808"}

func bigVariants() int { return len(bigLits) + 1 }

func genBigCSVCase(rng *rand.Rand, id string, variant int, tsv bool) csvCase {
	variant = ((variant % bigVariants()) + bigVariants()) % bigVariants()
	cs := csvCase{id: id, big: true, f: &fileh.CSVFile{Sep: ','}}
	if tsv {
		cs.f.Sep = '\t'
		cs.tsv = true
	}
	if variant < len(bigLits) {
		cs.f.Header = []string{"i", "k"}
		for r := 0; r < preview+3; r++ {
			cs.f.Rows = append(cs.f.Rows, []string{strconv.Itoa(r * 7), "k" + strconv.Itoa(r)})
		}
		cs.f.Rows = append(cs.f.Rows, []string{bigLits[variant], "big"}, []string{"5", "after"})
		cs.devs = []string{"big-int-in-int-column " + bigLits[variant]}
	} else {
		cs.f.Header = []string{"u", "w", "x"}
		for r := 0; r < preview+3; r++ {
			u := []string{"", strconv.Itoa(r), strconv.Itoa(r) + ".5", bigLits[r%len(bigLits)]}[r%4]
			w := []string{strconv.Itoa(1000 + r), "w" + strconv.Itoa(r)}[r%2]
			x := []string{"x" + strconv.Itoa(r), strconv.Itoa(r), strconv.Itoa(r) + ".25", bigLits[(r+3)%len(bigLits)]}[r%4]
			cs.f.Rows = append(cs.f.Rows, []string{u, w, x})
		}
		for i, b := range bigLits {
			cs.f.Rows = append(cs.f.Rows, []string{b, bigLits[(i+1)%len(bigLits)], bigLits[(i+2)%len(bigLits)]})
		}
		cs.devs = []string{"big-ints-in-union-columns"}
	}
	cs.f.Content = fileh.SerialiseCSV(rng, cs.f)
	return cs
}

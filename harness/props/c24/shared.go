package c24

import (
	"fmt"
	"math/rand"
	"strconv"

	"github.com/cube2222/octosql/plugins/verifharness/props/fileh"
)

// Shared-text files: two columns whose non-null types are different unions (fixed by a preview that
// never uses the shared texts), and, beyond the 100-row preview, the SAME cell texts in both
// columns, in both row orders and both column orders. Every cell is representable (both columns
// admit String), so the only expectation is the usual one: every produced value matches the type
// reported for ITS column. A parse result cached under the cell text alone and handed to another
// column (seeded change C24-1) produces e.g. Float(7) in an Int | String column.

var sharedKinds = []string{"int|str", "float|str", "bool|int|str", "time|str", "bool|str"}

var sharedTexts = []string{"1", "7", "7.5", "true", "2020-01-01T00:00:00Z", "abc", "0", "t", "-3", "1e3", "false"}

func sharedPreviewCell(kind string, r int) string {
	str := "s" + strconv.Itoa(r)
	switch kind {
	case "int|str":
		return []string{strconv.Itoa(100 + r), str}[r%2]
	case "float|str":
		return []string{strconv.Itoa(100+r) + ".25", str}[r%2]
	case "bool|int|str":
		return []string{"FALSE", strconv.Itoa(200 + r), str}[r%3]
	case "time|str":
		return []string{fmt.Sprintf("2001-02-03T04:05:%02dZ", r%60), str}[r%2]
	default: // bool|str
		return []string{"FALSE", str}[r%2]
	}
}

// sharedVariants: ordered pairs of distinct kinds (both column orders).
func sharedVariants() [][2]string {
	var out [][2]string
	for i := range sharedKinds {
		for j := range sharedKinds {
			if i != j {
				out = append(out, [2]string{sharedKinds[i], sharedKinds[j]})
			}
		}
	}
	return out
}

func genSharedCSVCase(rng *rand.Rand, id string, variant int, tsv bool) csvCase {
	vs := sharedVariants()
	v := vs[((variant%len(vs))+len(vs))%len(vs)]
	cs := csvCase{id: id, shared: true, f: &fileh.CSVFile{Sep: ',', Header: []string{"amount", "count"}}}
	if tsv {
		cs.f.Sep = '\t'
		cs.tsv = true
	}
	for r := 0; r < preview+4; r++ {
		cs.f.Rows = append(cs.f.Rows, []string{sharedPreviewCell(v[0], r), sharedPreviewCell(v[1], r+1)})
	}
	fill := 0
	filler := func() string { fill++; return "f" + strconv.Itoa(fill) }
	for t, s := range sharedTexts {
		if t%2 == 0 {
			cs.f.Rows = append(cs.f.Rows, []string{s, filler()}, []string{filler(), s})
		} else {
			cs.f.Rows = append(cs.f.Rows, []string{filler(), s}, []string{s, filler()})
		}
		cs.f.Rows = append(cs.f.Rows, []string{s, s})
	}
	cs.devs = []string{"shared-texts " + v[0] + " / " + v[1]}
	cs.f.Content = fileh.SerialiseCSV(rng, cs.f)
	return cs
}

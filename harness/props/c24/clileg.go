package c24

import (
	"bytes"
	"encoding/json"
	"fmt"
	"math"
	"math/rand"
	"strconv"
	"strings"
	"time"

	"github.com/cube2222/octosql/octosql"

	"github.com/cube2222/octosql/plugins/verifharness/cli"
	"github.com/cube2222/octosql/plugins/verifharness/core"
	"github.com/cube2222/octosql/plugins/verifharness/props/fileh"
)

// CLI leg: `--describe -o json` gives the column types (parsed by fileh.ParseTypeString), `-o json`
// the values; every decoded value must match its described type and a file with an
// unrepresentable row must make octosql fail.

func matchesDecoded(d interface{}, t octosql.Type) bool {
	if t.TypeID == octosql.TypeIDAny {
		return true
	}
	switch x := d.(type) {
	case nil:
		return fileh.Nullable(t)
	case json.Number:
		if fileh.AdmitsID(t, octosql.TypeIDFloat) {
			return true
		}
		_, err := strconv.ParseInt(string(x), 10, 64)
		return err == nil && fileh.AdmitsID(t, octosql.TypeIDInt)
	case bool:
		return fileh.AdmitsID(t, octosql.TypeIDBoolean)
	case string:
		if fileh.AdmitsID(t, octosql.TypeIDString) {
			return true
		}
		if fileh.AdmitsID(t, octosql.TypeIDTime) {
			if _, err := time.Parse(time.RFC3339Nano, x); err == nil {
				return true
			}
		}
		if fileh.AdmitsID(t, octosql.TypeIDDuration) {
			if _, err := time.ParseDuration(x); err == nil {
				return true
			}
		}
		if fileh.AdmitsID(t, octosql.TypeIDFloat) {
			// JSON has no literal for NaN / +-Inf; a string strconv reads as such stands for the float
			if f, err := strconv.ParseFloat(x, 64); err == nil && (math.IsNaN(f) || math.IsInf(f, 0)) {
				return true
			}
		}
		return false
	case []interface{}:
		lt := alt(t, octosql.TypeIDList)
		if lt == nil {
			return false
		}
		if lt.List.Element == nil {
			return len(x) == 0
		}
		for _, e := range x {
			if !matchesDecoded(e, *lt.List.Element) {
				return false
			}
		}
		return true
	case map[string]interface{}:
		st := alt(t, octosql.TypeIDStruct)
		if st == nil || len(st.Struct.Fields) != len(x) {
			return false
		}
		for _, f := range st.Struct.Fields {
			v, ok := x[f.Name]
			if !ok || !matchesDecoded(v, f.Type) {
				return false
			}
		}
		return true
	}
	return false
}

// denotesDecoded: the printed value is a reading of the cell text that the column type admits (the
// Int only if the text fits int64, the Float where Float is admitted, the text itself as a String ...).
func denotesDecoded(d interface{}, t octosql.Type, cell string) bool {
	switch x := d.(type) {
	case nil:
		return cell == ""
	case json.Number:
		if want, err := strconv.ParseInt(cell, 10, 64); err == nil && fileh.AdmitsID(t, octosql.TypeIDInt) {
			if got, err := strconv.ParseInt(string(x), 10, 64); err == nil && got == want {
				return true
			}
		}
		if want, err := strconv.ParseFloat(cell, 64); (err == nil || math.IsInf(want, 0)) && fileh.AdmitsID(t, octosql.TypeIDFloat) {
			if got, err := strconv.ParseFloat(string(x), 64); err == nil && fileh.FloatEq(got, want) {
				return true
			}
		}
		return false
	case bool:
		want, err := strconv.ParseBool(cell)
		return err == nil && want == x && fileh.AdmitsID(t, octosql.TypeIDBoolean)
	case string:
		if fileh.AdmitsID(t, octosql.TypeIDString) && x == cell {
			return true
		}
		if fileh.AdmitsID(t, octosql.TypeIDTime) {
			a, err1 := time.Parse(time.RFC3339Nano, cell)
			b, err2 := time.Parse(time.RFC3339Nano, x)
			if err1 == nil && err2 == nil && a.Equal(b) {
				return true
			}
		}
		if fileh.AdmitsID(t, octosql.TypeIDFloat) {
			want, err1 := strconv.ParseFloat(cell, 64)
			got, err2 := strconv.ParseFloat(x, 64)
			if (err1 == nil || math.IsInf(want, 0)) && err2 == nil && (math.IsNaN(want) || math.IsInf(want, 0)) && fileh.FloatEq(got, want) {
				return true
			}
		}
		return false
	}
	return false
}

type described struct {
	names []string
	types map[string]octosql.Type
}

func describe(c *core.Ctx, runner *cli.Runner, sql string, files map[string][]byte, replay map[string]interface{}) (described, cli.Result, bool) {
	d := described{types: map[string]octosql.Type{}}
	res := runner.Exec(cli.Run{Args: []string{sql, "--describe", "-o", "json"}, Files: files})
	if res.TimedOut {
		c.Inconclusive("watchdog")
		return d, res, false
	}
	if res.Panicked() || res.Exit != 0 {
		return d, res, false
	}
	rows, err := cli.DecodeJSONLines(res.Stdout)
	if err != nil {
		c.Violation("cli:describe-undecodable", "--describe -o json does not decode: "+err.Error(), replay)
		return d, res, false
	}
	for _, r := range rows {
		n, _ := r.Values["name"].(string)
		ts, _ := r.Values["type"].(string)
		t, err := fileh.ParseTypeString(ts)
		if err != nil {
			c.Violation("cli:describe-type-unparsed", "cannot parse described type: "+err.Error(), replay)
			return d, res, false
		}
		d.names = append(d.names, n)
		d.types[n] = t
	}
	return d, res, true
}

func splitLines(out []byte) [][]byte {
	if len(out) == 0 {
		return nil
	}
	lines := bytes.Split(out, []byte("\n"))
	if len(lines[len(lines)-1]) == 0 {
		lines = lines[:len(lines)-1]
	}
	return lines
}

func runCLI(c *core.Ctx) {
	runner := cli.NewRunner(c.BinDir, c.Scratch)
	n := c.Pick(45, 1200)
	core.Parallel(n, 12, func(i int) {
		id := fmt.Sprintf("cli-%d", i)
		if c.Only != "" && c.Only != id {
			return
		}
		rng := c.Rng("cli/" + id)
		switch {
		case i%15 == 14:
			cliEmptyListPreview(c, runner, id, rng)
		case i%15 == 6:
			cliCSV(c, runner, id, rng, "shared", i*7, false)
		case i%15 == 13:
			cliCSV(c, runner, id, rng, "shared", i*7, true)
		case i%15 == 3:
			cliCSV(c, runner, id, rng, "big", len(bigLits), i%2 == 1) // union columns
		case i%15 == 10:
			cliCSV(c, runner, id, rng, "big", 1+i/15, i%2 == 1) // Int-only column, out-of-range literal
		case i%15 == 2:
			cliTVF(c, runner, id, rng, "json", "tumble")
		case i%15 == 5:
			cliTVF(c, runner, id, rng, "csv", "tumble")
		case i%15 == 8:
			cliTVF(c, runner, id, rng, "json", "max_diff_watermark")
		case i%15 == 11:
			cliTVF(c, runner, id, rng, "csv", "max_diff_watermark")
		case i%2 == 0:
			cliJSON(c, runner, id, rng)
		default:
			cliCSV(c, runner, id, rng, "", 0, false)
		}
	})
}

func cliJSON(c *core.Ctx, runner *cli.Runner, id string, rng *rand.Rand) {
	cs := genJSONCase(rng, id)
	c.Eval(1)
	c.Count("cli/json/files", 1)
	files := map[string][]byte{"t.json": cs.content}
	sql := "SELECT * FROM t.json"
	replay := map[string]interface{}{"id": id, "kind": "json", "sql": sql, "rows": len(cs.rows), "deviations": cs.devs, "file": trunc(string(cs.content), 30000), "rerun": "./check C24 <tier> --only " + id}
	d, dres, ok := describe(c, runner, sql, files, replay)
	if !ok {
		if dres.Panicked() {
			site, msg := dres.PanicSite()
			c.Violation("panic:"+site, "--describe crashed: "+msg, replay)
		} else if dres.Exit != 0 {
			c.Violation("json:describe-error", "--describe failed on well-formed JSON lines: "+trunc(string(dres.Stderr), 300), replay)
		}
		return
	}
	replay["described"] = describedString(d)
	unrep := 0
	var firstWhy string
	for i, row := range cs.rows {
		for _, n := range d.names {
			v, present := row.Get(n)
			if ok, why := admitsJSON(d.types[n], v, present); !ok {
				unrep++
				if firstWhy == "" {
					firstWhy = fmt.Sprintf("row %d column %s (%s): %s [%s]", i, n, fileh.TypeText(d.types[n]), trunc(showCell(v, present), 80), why)
				}
			}
		}
	}
	res := runner.Exec(cli.Run{Args: []string{sql, "-o", "json"}, Files: files})
	switch {
	case res.TimedOut:
		c.Inconclusive("watchdog")
		return
	case res.Panicked():
		site, msg := res.PanicSite()
		replay["stderr"] = trunc(string(res.Stderr), 3000)
		c.Violation("panic:"+site, "octosql crashed: "+msg, replay)
		return
	case res.Exit != 0:
		if unrep > 0 {
			c.Count("cli/json/unrepresentable_reported_as_error", 1)
			c.Nontrivial("cli|json|" + string(cs.content))
			return
		}
		c.Violation("json:spurious-error", "every row is representable in the described schema, yet octosql failed: "+trunc(string(res.Stderr), 300), replay)
		return
	}
	lines := splitLines(res.Stdout)
	if len(lines) != len(cs.rows) {
		c.Violation("json:row-count", fmt.Sprintf("%d rows in the file, %d lines printed", len(cs.rows), len(lines)), replay)
		return
	}
	classes := map[string][]string{}
	cells := 0
	for i, line := range lines {
		dec, err := cli.DecodeJSONLines(line)
		if err != nil || len(dec) != 1 {
			c.Count("cli/json/undecodable_line_skipped", 1)
			continue
		}
		for _, n := range d.names {
			cells++
			dv, has := dec[0].Values[n]
			if !has {
				classes["json:column-not-printed"] = append(classes["json:column-not-printed"], n)
				continue
			}
			v, present := cs.rows[i].Get(n)
			rep, why := admitsJSON(d.types[n], v, present)
			desc := fmt.Sprintf("row %d column %s (%s): cell %s printed as %v", i, n, fileh.TypeText(d.types[n]), trunc(showCell(v, present), 80), dv)
			switch {
			case !rep:
				key := "json-nonconforming-cell-converted"
				switch {
				case why == "missing-key" && i < preview:
					key = "json-preview-missing-key-not-nullable"
				case i < preview:
					key = "json:preview-row-not-covered-by-inferred-type"
				case strings.HasSuffix(why, "object-new-field"):
					key = "json-object-new-field-dropped"
				}
				if len(classes[key]) < 4 {
					classes[key] = append(classes[key], desc+" ["+why+"]")
				}
			case !matchesDecoded(dv, d.types[n]):
				if len(classes["json:type-mismatch"]) < 4 {
					classes["json:type-mismatch"] = append(classes["json:type-mismatch"], desc)
				}
			}
		}
	}
	c.Count("cli/json/cells_checked", cells)
	for k, whats := range classes {
		what := "a printed value does not match the described column type: "
		if k != "json:type-mismatch" {
			what = "a row that cannot be represented in the described schema was converted instead of reported as an error: "
		}
		c.Violation(k, what+strings.Join(whats, "; "), replay)
	}
	if len(cs.rows) > preview || len(cs.devs) > 0 {
		c.Nontrivial("cli|json|" + string(cs.content))
	}
	if len(classes) == 0 {
		c.Sample(map[string]interface{}{"id": id, "kind": "json", "leg": "cli", "rows": len(cs.rows), "described": replay["described"], "cells_checked": cells})
	}
}

func describedString(d described) string {
	parts := make([]string, len(d.names))
	for i, n := range d.names {
		parts[i] = n + ": " + fileh.TypeText(d.types[n])
	}
	return strings.Join(parts, ", ")
}

// cliCSV: special "shared" / "big" selects a shared-text (shared.go) / big-integer (big.go) file of
// that variant, as CSV or TSV.
func cliCSV(c *core.Ctx, runner *cli.Runner, id string, rng *rand.Rand, special string, variant int, tsv bool) {
	var cs csvCase
	name := "t.csv"
	if tsv && special != "" {
		name = "t.tsv"
	}
	switch special {
	case "shared":
		cs = genSharedCSVCase(rng, id, variant, tsv)
		c.Count("cli/csv/shared_text_files", 1)
	case "big":
		cs = genBigCSVCase(rng, id, variant, tsv)
		c.Count("cli/csv/big_integer_files", 1)
	default:
		cs = genCSVCase(rng, id)
	}
	c.Eval(1)
	c.Count("cli/csv/files", 1)
	files := map[string][]byte{name: cs.f.Content}
	sql := "SELECT * FROM " + name
	replay := map[string]interface{}{"id": id, "kind": "csv", "sql": sql, "rows": len(cs.f.Rows), "deviations": cs.devs, "file": trunc(string(cs.f.Content), 30000), "rerun": "./check C24 <tier> --only " + id}
	d, dres, ok := describe(c, runner, sql, files, replay)
	if !ok {
		if dres.Panicked() {
			site, msg := dres.PanicSite()
			c.Violation("panic:"+site, "--describe crashed: "+msg, replay)
		} else if dres.Exit != 0 {
			c.Violation("csv:describe-error", "--describe failed on well-formed CSV: "+trunc(string(dres.Stderr), 300), replay)
		}
		return
	}
	replay["described"] = describedString(d)
	if len(d.names) != len(cs.f.Header) {
		c.Violation("csv:columns", fmt.Sprintf("%d columns in the header, %d described", len(cs.f.Header), len(d.names)), replay)
		return
	}
	unrep := 0
	for _, row := range cs.f.Rows {
		for j, n := range d.names {
			if ok, _ := admitsCSV(d.types[n], row[j]); !ok {
				unrep++
			}
		}
	}
	res := runner.Exec(cli.Run{Args: []string{sql, "-o", "json"}, Files: files})
	switch {
	case res.TimedOut:
		c.Inconclusive("watchdog")
		return
	case res.Panicked():
		site, msg := res.PanicSite()
		replay["stderr"] = trunc(string(res.Stderr), 3000)
		c.Violation("panic:"+site, "octosql crashed: "+msg, replay)
		return
	case res.Exit != 0:
		if unrep > 0 {
			c.Count("cli/csv/unrepresentable_reported_as_error", 1)
			c.Nontrivial("cli|csv|" + string(cs.f.Content))
			return
		}
		c.Violation("csv:spurious-error", "every row is representable in the described schema, yet octosql failed: "+trunc(string(res.Stderr), 300), replay)
		return
	}
	lines := splitLines(res.Stdout)
	if len(lines) != len(cs.f.Rows) {
		c.Violation("csv:row-count", fmt.Sprintf("%d rows in the file, %d lines printed", len(cs.f.Rows), len(lines)), replay)
		return
	}
	classes := map[string][]string{}
	add := func(k, what string) {
		if len(classes[k]) < 4 {
			classes[k] = append(classes[k], what)
		}
	}
	cells := 0
	for i, line := range lines {
		dec, err := cli.DecodeJSONLines(line)
		if err != nil || len(dec) != 1 {
			// NaN/Inf cells make the -o json line undecodable: C25's finding, not judged here
			c.Count("cli/csv/undecodable_line_skipped", 1)
			continue
		}
		for j, n := range d.names {
			cells++
			cell := cs.f.Rows[i][j]
			dv := dec[0].Values[n]
			t := d.types[n]
			rep, why := admitsCSV(t, cell)
			desc := fmt.Sprintf("row %d column %s (%s): cell %q printed as %v", i, n, fileh.TypeText(t), cell, dv)
			s, isStr := dv.(string)
			switch {
			case !rep && i < preview:
				add("csv:preview-row-not-covered-by-inferred-type", desc)
			case !rep && why == "empty":
				if dv == nil {
					add("csv-empty-cell-nonnullable-null", desc)
				} else {
					add("csv:unrepresentable-converted", desc)
				}
			case !rep:
				// the datasource hands the text out as a String; under a union-typed column the JSON
				// formatter finds no String alternative and prints null (it logs "Invalid value of type")
				if (isStr && s == cell) || (dv == nil && t.TypeID == octosql.TypeIDUnion) {
					add("csv-unrepresentable-cell-string", desc)
				} else {
					add("csv:unrepresentable-converted", desc)
				}
			case !matchesDecoded(dv, t):
				_, ierr := strconv.ParseInt(cell, 10, 64)
				_, ferr := strconv.ParseFloat(cell, 64)
				numeric := (ierr == nil && fileh.AdmitsID(t, octosql.TypeIDInt)) || (ferr == nil && fileh.AdmitsID(t, octosql.TypeIDFloat))
				if !cs.shared && numeric && ((isStr && s == cell) || (dv == nil && t.TypeID == octosql.TypeIDUnion)) {
					add("csv-inference-execution-parser-mismatch", desc)
				} else {
					add("csv:type-mismatch", desc)
				}
			default:
				if !denotesDecoded(dv, t, cell) {
					add("csv:value-not-what-the-cell-denotes", desc)
				}
			}
		}
	}
	c.Count("cli/csv/cells_checked", cells)
	for k, whats := range classes {
		what := "a printed value does not match the described column type: "
		if strings.Contains(k, "denotes") {
			what = "a value matches the column type but is not a reading of the cell text that the type admits: "
		} else if strings.Contains(k, "unrepresentable") || strings.Contains(k, "empty-cell") {
			what = "a row that cannot be represented in the described schema was converted instead of reported as an error: "
		}
		c.Violation(k, what+strings.Join(whats, "; "), replay)
	}
	if len(cs.f.Rows) > preview || len(cs.devs) > 0 || cs.trickyN > 0 {
		c.Nontrivial("cli|csv|" + string(cs.f.Content))
	}
	if len(classes) == 0 {
		c.Sample(map[string]interface{}{"id": id, "kind": "csv", "leg": "cli", "rows": len(cs.f.Rows), "described": replay["described"], "cells_checked": cells})
	}
}

// cliEmptyListPreview: a column that is [] in the whole preview and non-empty later. In-process
// this kills a JSON worker goroutine (nil element type dereferenced), so it is only run here.
func cliEmptyListPreview(c *core.Ctx, runner *cli.Runner, id string, rng *rand.Rand) {
	var b bytes.Buffer
	nPrev := preview + rng.Intn(30)
	for i := 0; i < nPrev; i++ {
		fmt.Fprintf(&b, "{\"a\":%d,\"l\":[]}\n", i)
	}
	later := []string{"[1]", "[\"x\"]", "[[]]", "[null]", "[{}]"}[rng.Intn(5)]
	fmt.Fprintf(&b, "{\"a\":%d,\"l\":%s}\n", nPrev, later)
	c.Eval(1)
	c.Count("cli/json/empty_list_preview_files", 1)
	files := map[string][]byte{"t.json": b.Bytes()}
	sql := "SELECT * FROM t.json"
	replay := map[string]interface{}{"id": id, "kind": "json", "sql": sql, "file": fmt.Sprintf("%d rows {\"a\":i,\"l\":[]} then {\"a\":%d,\"l\":%s}", nPrev, nPrev, later), "rerun": "./check C24 <tier> --only " + id}
	res := runner.Exec(cli.Run{Args: []string{sql, "-o", "json"}, Files: files})
	switch {
	case res.TimedOut:
		c.Inconclusive("watchdog")
	case res.Panicked():
		site, msg := res.PanicSite()
		replay["stderr"] = trunc(string(res.Stderr), 2500)
		// predicate: list column empty in the whole preview, non-empty later; symptom: crash in the JSON value conversion
		if strings.Contains(site, "datasources/json") {
			c.Violation("json-empty-list-preview-crash", "a non-empty array in a column whose preview held only [] crashes octosql instead of being reported ("+site+"): "+msg, replay)
		} else {
			c.Violation("panic:"+site, "octosql crashed: "+msg, replay)
		}
	case res.Exit != 0:
		c.Count("cli/json/unrepresentable_reported_as_error", 1)
		c.Nontrivial("cli|json|emptylist|" + later)
	default:
		lines := splitLines(res.Stdout)
		last := ""
		if len(lines) > 0 {
			last = string(lines[len(lines)-1])
		}
		replay["last_line"] = last
		if later == "[null]" || later == "[[]]" || later == "[{}]" {
			// these could be argued to fit an element-less list in some reading; only count
			c.Count("cli/json/empty_list_preview_exotic_element_not_judged", 1)
			return
		}
		c.Violation("json-nonconforming-cell-converted", "a non-empty array in a column described as [] was converted instead of reported: "+last, replay)
	}
}

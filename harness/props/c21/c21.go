// Package c21: tumble, range and poll produce their documented streams.
//
// R: tumble: not (window_start <= t < window_end), window_end - window_start != L,
// (window_start - offset) not a multiple of L, another field / the sign / a watermark changed, a
// record or watermark lost, duplicated or reordered. range: not exactly start..end-1 ascending
// (empty when end <= start). poll: a round that does not first retract exactly the previous
// snapshot, then emit exactly the current one, then one watermark >= all times emitted so far.
// O: direct, in own arithmetic (math/big nanoseconds for tumble, so that neither time.Truncate
// nor Duration overflow is trusted).
// W: real SQL over memdb tables through parse -> typecheck -> (optimize) -> materialize.
package c21

import (
	"fmt"
	"math"
	"math/big"
	"math/rand"
	"os"
	"strings"
	"sync"
	"time"

	"github.com/cube2222/octosql/execution"
	"github.com/cube2222/octosql/octosql"
	"github.com/cube2222/octosql/physical"

	"github.com/cube2222/octosql/plugins/verifharness/core"
	"github.com/cube2222/octosql/plugins/verifharness/nodeh"
)

func init() { core.Register("C21", Run) }

var selftest = os.Getenv("VERIF_SELFTEST") == "1"

const (
	ns  = int64(1)
	sec = int64(time.Second)
	min = int64(time.Minute)
	day = 24 * int64(time.Hour)
)

func utc(n int64) time.Time { return time.Unix(0, n).UTC() }
func fmtNs(n int64) string  { return utc(n).Format("2006-01-02T15:04:05.999999999Z") }

// ---------------------------------------------------------------------------------------------
// tumble

type tumbleCase struct {
	id        string
	L, offset int64
	times     []int64
	retr      []bool
	srcET     []int64
	wmAfter   map[int]int64 // watermark after record i
	implicit  bool          // time_field omitted: the table declares its time field
	omitOff   bool          // offset omitted (only when offset == 0)
	optimize  bool
	variant   int
}

func durSQL(d int64, variant int) string {
	type unit struct {
		name string
		n    int64
	}
	units := []unit{{"DAY", day}, {"HOUR", int64(time.Hour)}, {"MINUTE", min}, {"SECOND", sec}, {"MILLISECOND", int64(time.Millisecond)}, {"MICROSECOND", int64(time.Microsecond)}, {"NANOSECOND", ns}}
	var fits []unit
	for _, u := range units {
		if d%u.n == 0 {
			fits = append(fits, u)
		}
	}
	u := fits[variant%len(fits)]
	name := u.name
	if d/u.n != 1 && d/u.n != -1 || variant%2 == 1 {
		name += "S"
	}
	if (variant/3)%2 == 1 {
		name = strings.ToLower(name)
	}
	return fmt.Sprintf("INTERVAL %d %s", d/u.n, name)
}

func (tc *tumbleCase) sql() string {
	q := "SELECT * FROM tumble(source=>TABLE(m.t), window_length=>" + durSQL(tc.L, tc.variant)
	if !tc.implicit {
		q += ", time_field=>DESCRIPTOR(time)"
	}
	if !tc.omitOff {
		q += ", offset=>" + durSQL(tc.offset, tc.variant/5)
	}
	return q + ") x"
}

func (tc *tumbleCase) row(i int) []octosql.Value {
	var s octosql.Value
	if i%4 == 2 {
		s = octosql.NewNull()
	} else {
		s = octosql.NewString(fmt.Sprintf("v%d", i%3))
	}
	return []octosql.Value{octosql.NewInt(int64(i)), octosql.NewTime(utc(tc.times[i])), s}
}

var tumbleFields = []physical.SchemaField{
	{Name: "id", Type: octosql.Int},
	{Name: "time", Type: octosql.Time},
	{Name: "s", Type: octosql.TypeSum(octosql.String, octosql.Null)},
}

// absNs: nanoseconds since Go's zero time (year 1), the origin time.Truncate is documented to use.
var zeroToUnix = new(big.Int).Mul(big.NewInt(62135596800), big.NewInt(1e9))

func absNs(t time.Time) *big.Int {
	b := new(big.Int).Mul(big.NewInt(t.Unix()), big.NewInt(1e9))
	b.Add(b, big.NewInt(int64(t.Nanosecond())))
	return b.Add(b, zeroToUnix)
}

func isMultiple(x *big.Int, L int64) bool {
	m := new(big.Int).Mod(x, big.NewInt(L)) // Euclidean: always >= 0
	return m.Sign() == 0
}

func (tc *tumbleCase) replay(outs []nodeh.Out) map[string]interface{} {
	ts := make([]string, len(tc.times))
	for i, t := range tc.times {
		ts[i] = fmtNs(t)
	}
	m := map[string]interface{}{"id": tc.id, "sql": tc.sql(), "optimize": tc.optimize, "window_length": time.Duration(tc.L).String(),
		"offset": time.Duration(tc.offset).String(), "times": strings.Join(ts, " ")}
	if outs != nil {
		m["output"] = nodeh.OutsString(outs)
	}
	return m
}

func runTumble(c *core.Ctx, tc *tumbleCase, idx int) {
	c.Eval(1)
	var evs []nodeh.Event
	for i := range tc.times {
		et := time.Time{}
		if tc.srcET[i] != 0 {
			et = utc(tc.srcET[i])
		}
		evs = append(evs, nodeh.Rec(tc.row(i), tc.retr[i], et))
		if w, ok := tc.wmAfter[i]; ok {
			evs = append(evs, nodeh.WM(utc(w)))
		}
	}
	tf := -1
	if tc.implicit {
		tf = 1
	}
	db := &nodeh.DB{Tables: map[string]*nodeh.Table{"t": {Fields: tumbleFields, TimeField: tf, Events: evs}}}
	p, outs, res, perr := nodeh.RunSQL(nodeh.Ctx(), tc.sql(), db, nodeh.PlanOpts{Optimize: tc.optimize, Output: "none"}, 30*time.Second)
	if perr != nil {
		key := "tumble/plan-error:" + perr.Stage
		if perr.Stage == "panic" {
			key = "panic:" + core.PanicSite(perr.Stack)
		}
		c.Violation(key, "a documented tumble call was rejected: "+perr.Error(), tc.replay(nil))
		return
	}
	replay := tc.replay(outs)
	if res.TimedOut {
		c.Inconclusive("watchdog")
		return
	}
	if res.Panicked {
		c.Violation("panic:"+core.PanicSite(res.Stack), "tumble panicked: "+res.PanicMsg, replay)
		return
	}
	if res.Err != nil {
		c.Violation("tumble/error", "tumble returned error: "+res.Err.Error(), replay)
		return
	}
	// schema: the source's fields followed by window_start, window_end
	names := []string{"id", "time", "s", "window_start", "window_end"}
	if len(p.OutFields) != 5 {
		c.Violation("tumble/schema", fmt.Sprintf("%d output fields, want 5", len(p.OutFields)), replay)
		return
	}
	for j, n := range names {
		if got := p.OutFields[j].Name; got != n && got != "x."+n {
			c.Violation("tumble/schema", fmt.Sprintf("output field %d is %q, want %q", j, got, n), replay)
			return
		}
	}
	if selftest && idx%3 == 1 && len(outs) > 0 {
		k := idx % len(outs)
		if !outs[k].IsWatermark && len(outs[k].Record.Values) == 5 {
			// shift the window by one length: still aligned, but no longer contains the time
			outs[k].Record.Values[3] = octosql.NewTime(outs[k].Record.Values[3].Time.Add(time.Duration(tc.L)))
			outs[k].Record.Values[4] = octosql.NewTime(outs[k].Record.Values[4].Time.Add(time.Duration(tc.L)))
		}
	}
	if len(outs) != len(evs) {
		c.Violation("tumble/stream-shape", fmt.Sprintf("%d outputs for %d inputs", len(outs), len(evs)), replay)
		return
	}
	bigL := big.NewInt(tc.L)
	for k, e := range evs {
		o := outs[k]
		if e.IsWatermark {
			if !o.IsWatermark || !o.Watermark.Equal(e.Watermark) {
				c.Violation("tumble/watermark-changed", fmt.Sprintf("output #%d is %s, want the source's watermark %s", k, o.String(), nodeh.FmtTime(e.Watermark)), replay)
				return
			}
			continue
		}
		if o.IsWatermark {
			c.Violation("tumble/stream-shape", fmt.Sprintf("output #%d is a watermark, want record %s", k, e.String()), replay)
			return
		}
		r := o.Record
		if len(r.Values) != 5 {
			c.Violation("tumble/stream-shape", fmt.Sprintf("output #%d has %d values, want 5", k, len(r.Values)), replay)
			return
		}
		if nodeh.RowKey(r.Values[:3]) != nodeh.RowKey(e.Record.Values) || r.Retraction != e.Record.Retraction {
			c.Violation("tumble/fields-changed", fmt.Sprintf("output #%d: %s, want the source's fields %s unchanged", k, o.String(), e.String()), replay)
			return
		}
		ws, we := r.Values[3], r.Values[4]
		if ws.TypeID != octosql.TypeIDTime || we.TypeID != octosql.TypeIDTime {
			c.Violation("tumble/window-type", fmt.Sprintf("output #%d: window fields are not Time values", k), replay)
			return
		}
		t := absNs(e.Record.Values[1].Time)
		s, en := absNs(ws.Time), absNs(we.Time)
		desc := fmt.Sprintf("t=%s window=[%s, %s) L=%s offset=%s", fmtNs(e.Record.Values[1].Time.UnixNano()), ws.Time.UTC().Format(time.RFC3339Nano), we.Time.UTC().Format(time.RFC3339Nano), time.Duration(tc.L), time.Duration(tc.offset))
		if !(s.Cmp(t) <= 0 && t.Cmp(en) < 0) {
			c.Violation("tumble/time-outside-window", "not window_start <= t < window_end: "+desc, replay)
			return
		}
		if new(big.Int).Sub(en, s).Cmp(bigL) != 0 {
			c.Violation("tumble/window-length", "window_end - window_start != L: "+desc, replay)
			return
		}
		if !isMultiple(new(big.Int).Sub(s, big.NewInt(tc.offset)), tc.L) {
			c.Violation("tumble/window-misaligned", "(window_start - offset) is not a multiple of L: "+desc, replay)
			return
		}
		// the event time of the record: the statement is silent; the README says window_end
		// becomes the event time, the code keeps the source's. Both accepted, counted.
		switch {
		case r.EventTime.Equal(e.Record.EventTime):
			c.Count("tumble/event_time_kept_from_source(not judged)", 1)
		case r.EventTime.Equal(we.Time):
			c.Count("tumble/event_time_set_to_window_end(not judged)", 1)
		default:
			c.Violation("tumble/event-time", fmt.Sprintf("output #%d: event time %s is neither the source's nor window_end", k, nodeh.FmtTime(r.EventTime)), replay)
			return
		}
		// alignment relative to the Unix epoch differs from alignment relative to year 1 only when
		// L does not divide 62135596800 s (7 s here); counted, not judged.
		if !isMultiple(new(big.Int).Sub(new(big.Int).Sub(s, zeroToUnix), big.NewInt(tc.offset)), tc.L) {
			c.Count("tumble/windows_not_aligned_to_unix_epoch(not judged)", 1)
		}
	}
	if p.Schema.TimeField != 4 {
		c.Count("tumble/schema_time_field_not_window_end(not judged)", 1)
	}
	c.Count("tumble/L="+time.Duration(tc.L).String(), 1)
	c.Count("tumble/offset_class="+offsetClass(tc.offset, tc.L), 1)
	if tc.implicit {
		c.Count("tumble/implicit_time_field", 1)
	}
	if tc.omitOff {
		c.Count("tumble/offset_omitted", 1)
	}
	if len(tc.wmAfter) > 0 {
		c.Count("tumble/with_source_watermarks", 1)
	}
	pre := false
	for _, t := range tc.times {
		if t < 0 {
			pre = true
		}
	}
	if pre {
		c.Count("tumble/with_pre_epoch_times", 1)
	}
	if len(tc.times) >= 2 {
		c.Nontrivial(fmt.Sprintf("tumble|%d|%d|%v|%v", tc.L, tc.offset, tc.times, tc.wmAfter))
	}
	c.Sample(replay)
}

func offsetClass(off, L int64) string {
	switch {
	case off < 0 && -off > L:
		return "negative,|o|>L"
	case off < 0:
		return "negative,|o|<=L"
	case off == 0:
		return "zero"
	case off < L:
		return "0<o<L"
	case off == L:
		return "o=L"
	default:
		return "o>L"
	}
}

func genTumble(rng *rand.Rand, i int) *tumbleCase {
	Ls := []int64{ns, sec, 7 * sec, min, day}
	L := Ls[i%len(Ls)]
	unit := L / 7
	if unit == 0 {
		unit = 1
	}
	offs := []int64{-(L + 3*unit), -L, -unit, -1, 0, 0, 1, unit, L / 3, L - 1, L, L + 5*unit, 2*L + 1}
	off := offs[(i/len(Ls))%len(offs)]
	if L == ns && off == 0 && rng.Intn(2) == 0 {
		off = []int64{-3, 5}[rng.Intn(2)]
	}
	tc := &tumbleCase{id: fmt.Sprintf("tumble-%d", i), L: L, offset: off, wmAfter: map[int]int64{}}
	tc.variant = rng.Intn(1000)
	tc.optimize = rng.Intn(2) == 0
	tc.implicit = rng.Intn(4) == 0
	tc.omitOff = off == 0 && rng.Intn(2) == 0
	n := 1 + rng.Intn(12)
	var base int64
	switch rng.Intn(4) {
	case 0, 1:
		base = time.Date(2021, 6, 15, 13, 0, 0, 0, time.UTC).UnixNano()
	case 2:
		base = time.Date(1931, 2, 3, 4, 5, 6, 0, time.UTC).UnixNano()
	case 3:
		base = -rng.Int63n(3*L + 1)
	}
	base += rng.Int63n(3*L + 1)
	withWM := rng.Intn(3) == 0
	withRetr := rng.Intn(4) == 0
	cur := base
	var lastWM int64 = math.MinInt64
	for k := 0; k < n; k++ {
		var t int64
		switch rng.Intn(6) {
		case 0: // exactly on a window boundary (in own arithmetic: offset + m*L, relative to year 1 for 7 s)
			t = boundaryNear(cur, L, off)
		case 1:
			t = boundaryNear(cur, L, off) - 1
		case 2:
			t = boundaryNear(cur, L, off) + 1
		default:
			t = cur + rng.Int63n(2*L+1) - L/2
		}
		cur = t
		tc.times = append(tc.times, t)
		tc.retr = append(tc.retr, withRetr && rng.Intn(3) == 0)
		et := int64(0)
		if rng.Intn(2) == 0 {
			et = t
		}
		tc.srcET = append(tc.srcET, et)
		if withWM && rng.Intn(3) == 0 {
			w := t - rng.Int63n(L+1)
			if w > lastWM {
				tc.wmAfter[k] = w
				lastWM = w
			}
		}
	}
	return tc
}

// boundaryNear returns an instant of the form offset + m*L (m integer, origin = year 1, as
// time.Truncate documents) close to t.
func boundaryNear(t, L, off int64) int64 {
	x := new(big.Int).Add(big.NewInt(t), zeroToUnix)
	x.Sub(x, big.NewInt(off))
	m := new(big.Int).Mod(x, big.NewInt(L))
	return t - m.Int64()
}

// ---------------------------------------------------------------------------------------------
// range

type rangeCase struct {
	id         string
	start, end int64
	startSQL   string
	endSQL     string
	optimize   bool
}

func (rc *rangeCase) sql() string {
	return fmt.Sprintf("SELECT * FROM range(start=>%s, end=>%s) r", rc.startSQL, rc.endSQL)
}

func runRange(c *core.Ctx, rc *rangeCase, idx int) {
	c.Eval(1)
	replay := map[string]interface{}{"id": rc.id, "sql": rc.sql(), "optimize": rc.optimize, "start": rc.start, "end": rc.end}
	p, outs, res, perr := nodeh.RunSQL(nodeh.Ctx(), rc.sql(), &nodeh.DB{Tables: map[string]*nodeh.Table{}}, nodeh.PlanOpts{Optimize: rc.optimize, Output: "none"}, 30*time.Second)
	if perr != nil {
		key := "range/plan-error:" + perr.Stage
		if perr.Stage == "panic" {
			key = "panic:" + core.PanicSite(perr.Stack)
		}
		c.Violation(key, "range call rejected: "+perr.Error(), replay)
		return
	}
	if len(outs) <= 40 {
		replay["output"] = nodeh.OutsString(outs)
	}
	if res.TimedOut {
		c.Inconclusive("watchdog")
		return
	}
	if res.Panicked {
		c.Violation("panic:"+core.PanicSite(res.Stack), "range panicked: "+res.PanicMsg, replay)
		return
	}
	if res.Err != nil {
		c.Violation("range/error", "range returned error: "+res.Err.Error(), replay)
		return
	}
	if len(p.OutFields) != 1 || (p.OutFields[0].Name != "i" && p.OutFields[0].Name != "r.i") {
		c.Violation("range/schema", fmt.Sprintf("output schema %v, want one field i", p.OutFields), replay)
		return
	}
	if selftest && idx%3 == 1 && len(outs) > 0 {
		outs = outs[:len(outs)-1] // as if the loop used `< end-1`
	}
	// expected count without overflow
	var want uint64
	if rc.end > rc.start {
		want = uint64(rc.end) - uint64(rc.start)
	}
	if uint64(len(outs)) != want {
		c.Violation("range/count", fmt.Sprintf("%d records, want %d (start=%d end=%d)", len(outs), want, rc.start, rc.end), replay)
		return
	}
	for k, o := range outs {
		if o.IsWatermark {
			c.Violation("range/watermark", "range emitted a watermark", replay)
			return
		}
		r := o.Record
		wantV := rc.start + int64(k)
		if r.Retraction || len(r.Values) != 1 || r.Values[0].TypeID != octosql.TypeIDInt || r.Values[0].Int != wantV {
			c.Violation("range/value", fmt.Sprintf("record #%d is %s, want +%d", k, o.String(), wantV), replay)
			return
		}
	}
	if want == 0 {
		c.Count("range/empty", 1)
	} else {
		c.Count("range/non_empty", 1)
		c.Nontrivial(fmt.Sprintf("range|%d|%d|%s|%s", rc.start, rc.end, rc.startSQL, rc.endSQL))
	}
	if idx%17 == 0 {
		c.Sample(replay)
	}
}

func lit(v int64) string {
	if v == math.MinInt64 {
		return "-9223372036854775808"
	}
	return fmt.Sprint(v)
}

func genRanges() []*rangeCase {
	var out []*rangeCase
	add := func(s, e int64, ssql, esql string) {
		for _, opt := range []bool{false, true} {
			out = append(out, &rangeCase{id: fmt.Sprintf("range-%d", len(out)), start: s, end: e, startSQL: ssql, endSQL: esql, optimize: opt})
		}
	}
	for s := int64(-6); s <= 6; s++ {
		for e := int64(-6); e <= 6; e++ {
			add(s, e, lit(s), lit(e))
		}
	}
	mx, mn := int64(math.MaxInt64), int64(math.MinInt64)
	ext := [][2]int64{
		{mx - 3, mx}, {mx - 1, mx}, {mx, mx}, {mx, mx - 1}, {mx, mn}, {mx - 2, mx - 1},
		{mn, mn + 3}, {mn, mn + 1}, {mn, mn}, {mn + 1, mn}, {mn + 2, mn + 5},
		{mx, 0}, {0, mn}, {1, mn}, {mx, -1}, {5, mn + 5},
		{1 << 31, 1<<31 + 3}, {1<<32 - 2, 1<<32 + 2}, {-(1 << 31) - 2, -(1 << 31) + 1}, {1<<53 - 1, 1<<53 + 2},
	}
	for _, p := range ext {
		add(p[0], p[1], lit(p[0]), lit(p[1]))
	}
	// arguments that are expressions, not literals
	add(3, 7, "1 + 2", "10 - 3")
	add(-4, 1, "-2 * 2", "3 - 2")
	add(2, 2, "1 + 1", "4 - 2")
	add(0, 5, "len('')", "len('abcde')")
	return out
}

// ---------------------------------------------------------------------------------------------
// poll

// snapshotSource is the scripted datasource poll re-runs: its j-th Run emits snapshot j (the last
// one again if poll asks for more).
type snapshotSource struct {
	mu        sync.Mutex
	runs      int
	snapshots [][][]octosql.Value
}

func (s *snapshotSource) Run(ctx execution.ExecutionContext, produce execution.ProduceFn, metaSend execution.MetaSendFn) error {
	s.mu.Lock()
	j := s.runs
	s.runs++
	s.mu.Unlock()
	if j >= len(s.snapshots) {
		j = len(s.snapshots) - 1
	}
	for _, row := range s.snapshots[j] {
		vals := make([]octosql.Value, len(row))
		copy(vals, row)
		if err := produce(execution.ProduceFromExecutionContext(ctx), execution.NewRecord(vals, false, time.Time{})); err != nil {
			return err
		}
	}
	return nil
}

var errEnough = fmt.Errorf("harness: enough rounds")

// stopAfter wraps a node: the k-th watermark is recorded and then answered with a sentinel error,
// which is how a consumer stops the otherwise endless poll.
type stopAfter struct {
	inner execution.Node
	k     int
}

func (s *stopAfter) Run(ctx execution.ExecutionContext, produce execution.ProduceFn, metaSend execution.MetaSendFn) error {
	seen := 0
	return s.inner.Run(ctx, produce, func(pctx execution.ProduceContext, msg execution.MetadataMessage) error {
		if err := metaSend(pctx, msg); err != nil {
			return err
		}
		if msg.Type == execution.MetadataMessageTypeWatermark {
			seen++
			if seen >= s.k {
				return errEnough
			}
		}
		return nil
	})
}

type pollCase struct {
	id        string
	k         int
	snapshots [][][]octosql.Value
	optimize  bool
	interval  string // "" = argument omitted
}

func (pc *pollCase) sql() string {
	q := "SELECT * FROM poll(source=>TABLE(m.t)"
	if pc.interval != "" {
		q += ", poll_interval=>" + pc.interval
	}
	return q + ") x"
}

func snapString(s [][]octosql.Value) string {
	parts := make([]string, len(s))
	for i, r := range s {
		parts[i] = nodeh.RowKey(r)
	}
	return "{" + strings.Join(parts, "; ") + "}"
}

func outsNs(outs []nodeh.Out) string {
	parts := make([]string, len(outs))
	for i, o := range outs {
		if o.IsWatermark {
			parts[i] = "~" + o.Watermark.UTC().Format("15:04:05.000000000")
		} else {
			sign := "+"
			if o.Record.Retraction {
				sign = "-"
			}
			parts[i] = sign + nodeh.RowKey(o.Record.Values) + "@" + o.Record.EventTime.UTC().Format("15:04:05.000000000")
		}
	}
	return strings.Join(parts, " ")
}

var pollFields = []physical.SchemaField{
	{Name: "id", Type: octosql.Int},
	{Name: "s", Type: octosql.TypeSum(octosql.String, octosql.Null)},
}

func runPoll(c *core.Ctx, pc *pollCase, idx int) {
	c.Eval(1)
	src := &snapshotSource{snapshots: pc.snapshots}
	db := &nodeh.DB{Tables: map[string]*nodeh.Table{"t": {Fields: pollFields, TimeField: -1, Source: func() execution.Node { return src }}}}
	snaps := make([]string, len(pc.snapshots))
	for i, s := range pc.snapshots {
		snaps[i] = snapString(s)
	}
	replay := map[string]interface{}{"id": pc.id, "sql": pc.sql(), "optimize": pc.optimize, "rounds": pc.k, "snapshots": snaps}
	p, perr := nodeh.Plan(nodeh.Ctx(), pc.sql(), db, nodeh.PlanOpts{Optimize: pc.optimize, Output: "none"})
	if perr != nil {
		key := "poll/plan-error:" + perr.Stage
		if perr.Stage == "panic" {
			key = "panic:" + core.PanicSite(perr.Stack)
		}
		c.Violation(key, "poll call rejected: "+perr.Error(), replay)
		return
	}
	col := &nodeh.Collector{}
	res := nodeh.RunNodeCtx(nodeh.Ctx(), &stopAfter{inner: p.Exec, k: pc.k}, col, nil, 60*time.Second)
	outs := col.Snapshot()
	replay["output"] = outsNs(outs)
	if res.TimedOut {
		c.Inconclusive("watchdog")
		return
	}
	if res.Panicked {
		c.Violation("panic:"+core.PanicSite(res.Stack), "poll panicked: "+res.PanicMsg, replay)
		return
	}
	if res.Err == nil || !strings.Contains(res.Err.Error(), errEnough.Error()) {
		c.Violation("poll/stop", fmt.Sprintf("poll did not stop with the consumer's error but with: %v", res.Err), replay)
		return
	}
	if len(p.OutFields) != 3 || !(p.OutFields[0].Name == "time" || p.OutFields[0].Name == "x.time") {
		c.Violation("poll/schema", fmt.Sprintf("output schema %v, want time + the source's fields", p.OutFields), replay)
		return
	}
	if selftest && idx%3 == 1 {
		// drop the first retraction (or, failing that, the first record)
		for k, o := range outs {
			if !o.IsWatermark && (o.Record.Retraction || pc.k == 1) {
				outs = append(outs[:k:k], outs[k+1:]...)
				break
			}
		}
	}
	// split into rounds at the watermarks
	var rounds [][]nodeh.Out
	var wms []time.Time
	cur := []nodeh.Out{}
	for _, o := range outs {
		if o.IsWatermark {
			rounds = append(rounds, cur)
			wms = append(wms, o.Watermark)
			cur = []nodeh.Out{}
			continue
		}
		cur = append(cur, o)
	}
	if len(cur) > 0 {
		c.Violation("poll/after-last-watermark", fmt.Sprintf("%d records after the last watermark", len(cur)), replay)
		return
	}
	if len(rounds) != pc.k {
		c.Violation("poll/rounds", fmt.Sprintf("%d watermarks, want %d rounds", len(rounds), pc.k), replay)
		return
	}
	if src.runs != pc.k {
		c.Violation("poll/source-runs", fmt.Sprintf("the source was run %d times in %d rounds", src.runs, pc.k), replay)
		return
	}
	prevEmitted := nodeh.Multiset{} // full rows (time column included) emitted in the previous round
	var maxTime time.Time
	for r, recs := range rounds {
		retracted := nodeh.Multiset{}
		emitted := nodeh.Multiset{}
		emittedSansTime := nodeh.Multiset{}
		seenInsert := false
		var roundTime time.Time
		for _, o := range recs {
			rec := o.Record
			if len(rec.Values) != 3 || rec.Values[0].TypeID != octosql.TypeIDTime {
				c.Violation("poll/row-shape", fmt.Sprintf("round %d: record %s does not have the shape (time, id, s)", r+1, o.String()), replay)
				return
			}
			if rec.EventTime.After(maxTime) {
				maxTime = rec.EventTime
			}
			if rec.Values[0].Time.After(maxTime) {
				maxTime = rec.Values[0].Time
			}
			if rec.Retraction {
				if seenInsert {
					c.Violation("poll/order", fmt.Sprintf("round %d: a retraction of the previous snapshot after an insertion of the current one", r+1), replay)
					return
				}
				retracted.Add(nodeh.RowKey(rec.Values), 1)
				continue
			}
			seenInsert = true
			if roundTime.IsZero() {
				roundTime = rec.Values[0].Time
			} else if !roundTime.Equal(rec.Values[0].Time) {
				c.Violation("poll/time-column", fmt.Sprintf("round %d: rows of one snapshot carry different poll times", r+1), replay)
				return
			}
			if !rec.EventTime.Equal(rec.Values[0].Time) {
				c.Count("poll/event_time_differs_from_time_column(not judged)", 1)
			}
			emitted.Add(nodeh.RowKey(rec.Values), 1)
			emittedSansTime.Add(nodeh.RowKey(rec.Values[1:]), 1)
		}
		if !retracted.Equal(prevEmitted) {
			c.Violation("poll/retraction-mismatch", fmt.Sprintf("round %d retracts %s, the previous round emitted %s", r+1, retracted, prevEmitted), replay)
			return
		}
		want := nodeh.Multiset{}
		for _, row := range pc.snapshots[r] {
			want.Add(nodeh.RowKey(row), 1)
		}
		if !emittedSansTime.Equal(want) {
			c.Violation("poll/snapshot-mismatch", fmt.Sprintf("round %d emits %s, the source's snapshot is %s", r+1, emittedSansTime, want), replay)
			return
		}
		if wms[r].Before(maxTime) {
			c.Violation("poll/watermark-low", fmt.Sprintf("round %d: watermark %s is below an emitted time %s", r+1, wms[r].Format(time.RFC3339Nano), maxTime.Format(time.RFC3339Nano)), replay)
			return
		}
		if r > 0 && wms[r].Before(wms[r-1]) {
			c.Violation("poll/watermark-regressed", fmt.Sprintf("round %d: watermark below the previous one", r+1), replay)
			return
		}
		prevEmitted = emitted
	}
	c.Count(fmt.Sprintf("poll/rounds=%d", pc.k), 1)
	if pc.interval != "" {
		c.Count("poll/with_poll_interval", 1)
	}
	nonEmptyRetr := false
	for r := 0; r+1 < pc.k; r++ {
		if len(pc.snapshots[r]) > 0 {
			nonEmptyRetr = true
		}
	}
	if nonEmptyRetr {
		c.Count("poll/with_non_empty_retraction", 1)
		c.Nontrivial("poll|" + strings.Join(snaps[:pc.k], "|"))
	}
	if idx%5 == 0 {
		c.Sample(replay)
	}
}

func genPoll(rng *rand.Rand, i int, interval string) *pollCase {
	pc := &pollCase{id: fmt.Sprintf("poll-%d", i), k: 1 + i%5, optimize: rng.Intn(2) == 0, interval: interval}
	var prev [][]octosql.Value
	for r := 0; r < pc.k; r++ {
		var snap [][]octosql.Value
		switch rng.Intn(6) {
		case 0: // unchanged
			snap = prev
		case 1: // empty
			snap = nil
		case 2: // grow
			snap = append(append(snap, prev...), genRows(rng, 1+rng.Intn(3))...)
		case 3: // shrink
			if len(prev) > 0 {
				snap = append(snap, prev[:len(prev)/2]...)
			} else {
				snap = genRows(rng, 2)
			}
		default:
			snap = genRows(rng, rng.Intn(6))
		}
		pc.snapshots = append(pc.snapshots, snap)
		prev = snap
	}
	return pc
}

func genRows(rng *rand.Rand, n int) [][]octosql.Value {
	var rows [][]octosql.Value
	for i := 0; i < n; i++ {
		var s octosql.Value
		if rng.Intn(4) == 0 {
			s = octosql.NewNull()
		} else {
			s = octosql.NewString(string(rune('a' + rng.Intn(3))))
		}
		rows = append(rows, []octosql.Value{octosql.NewInt(int64(rng.Intn(3))), s})
	}
	return rows
}

// pollIntervalUsable probes whether the documented optional argument `poll_interval` (an
// expression, per the README) can be passed at all; if it can, poll cases use 1 ns so that rounds
// do not sleep.
func pollIntervalUsable(c *core.Ctx) string {
	src := &snapshotSource{snapshots: [][][]octosql.Value{nil}}
	db := &nodeh.DB{Tables: map[string]*nodeh.Table{"t": {Fields: pollFields, TimeField: -1, Source: func() execution.Node { return src }}}}
	const arg = "INTERVAL 1 NANOSECOND"
	_, perr := nodeh.Plan(nodeh.Ctx(), "SELECT * FROM poll(source=>TABLE(m.t), poll_interval=>"+arg+") x", db, nodeh.PlanOpts{Output: "none"})
	if perr == nil {
		c.Note("poll_interval_argument", "accepted: rounds use "+arg)
		return arg
	}
	c.Note("poll_interval_argument", "NOT usable on this tree ("+perr.Error()+"): rounds use the default interval of 1 s; outside C21's statement, reported to the lead")
	return ""
}

// ---------------------------------------------------------------------------------------------

func Run(c *core.Ctx) core.FinishOpts {
	// tumble
	nT := c.Pick(4000, 130000)
	rngT := c.Rng("tumble")
	tcs := make([]*tumbleCase, nT)
	for i := range tcs {
		tcs[i] = genTumble(rngT, i)
	}
	core.Parallel(nT, 16, func(i int) {
		if c.Only != "" && c.Only != tcs[i].id {
			return
		}
		runTumble(c, tcs[i], i)
	})
	// range: exhaustive square + extremes
	rcs := genRanges()
	core.Parallel(len(rcs), 16, func(i int) {
		if c.Only != "" && c.Only != rcs[i].id {
			return
		}
		runRange(c, rcs[i], i)
	})
	// range with bounds tied to an outer record: the same materialized node runs once per outer record
	nRO := c.Pick(240, 3000)
	rngRO := c.Rng("range-outer")
	ros := make([]*rangeOuterCase, nRO)
	for i := range ros {
		ros[i] = genRangeOuter(rngRO, i)
	}
	core.Parallel(nRO, 16, func(i int) {
		if c.Only != "" && c.Only != ros[i].id {
			return
		}
		runRangeOuter(c, ros[i], i)
	})
	// tumble over sources with an implicit time field and an explicit / matching / omitted time_field
	nTS := c.Pick(1440, 36000)
	rngTS := c.Rng("tumble-src")
	tss := make([]*tumbleSrcCase, nTS)
	for i := range tss {
		tss[i] = genTumbleSrc(rngTS, i)
	}
	core.Parallel(nTS, 16, func(i int) {
		if c.Only != "" && c.Only != tss[i].id {
			return
		}
		runTumbleSrc(c, tss[i], i)
	})
	c.Note("range_exhaustive_square", "all (start,end) in [-6,6]^2 = 169 pairs, each with and without the optimizer")
	c.Note("range_cases", len(rcs))
	// poll
	interval := pollIntervalUsable(c)
	nP := c.Pick(120, 600)
	rngP := c.Rng("poll")
	pcs := make([]*pollCase, nP)
	for i := range pcs {
		pcs[i] = genPoll(rngP, i, interval)
	}
	core.Parallel(nP, 100, func(i int) { // rounds sleep (default interval 1 s): run them all at once
		if c.Only != "" && c.Only != pcs[i].id {
			return
		}
		runPoll(c, pcs[i], i)
	})
	return core.FinishOpts{
		Level: "exploration",
		Rule: "tumble: L in {1ns,1s,7s,1min,1day} x 13 offsets (negative, 0, <L, =L, >L) x seeded time sequences (pre/post-epoch, on and 1ns around window boundaries, retractions, source watermarks, implicit or explicit time field); " +
			"tumble over sources that already have a time field (memdb table with TimeField, max_diff_watermark, nested tumble) x time_field naming the other time column / the same one / omitted: the window must contain the designated column's value; " +
			"range with bounds taken from an outer record (LOOKUP JOIN, scalar subquery) with the materialized plan run 1-3 times over different outer rows; " +
			"range: all (start,end) in [-6,6]^2 plus 20 extremes near Min/MaxInt64 and 2^31/2^32/2^53 plus expression arguments, with and without optimizer; " +
			"poll: scripted source whose successive runs return different snapshots (unchanged, empty, grown, shrunk, fresh), stopped by a consumer error at the k-th watermark, k in 1..5; " +
			"non-trivial = tumble case with >= 2 records, non-empty range, poll case with a non-empty retraction; distinct by the case's parameters",
		Floor:      c.Pick(3000, 80000),
		Exhaustive: true,
		Assumptions: []string{
			"tumble multiples are relative to Go's zero time (year 1), the origin time.Truncate documents; alignment to the Unix epoch is counted, not judged (differs only for L=7s)",
			"tumble's record event time is not part of the statement: source's or window_end accepted",
			"oracle arithmetic: math/big nanoseconds; multisets keyed by nodeh.RowKey",
			"poll is stopped by an error returned from metaSend; no oracle reads the clock, only relations between emitted times",
		},
	}
}

package c21

import (
	"fmt"
	"math/big"
	"math/rand"
	"strings"
	"sync"
	"time"

	"github.com/cube2222/octosql/execution"
	"github.com/cube2222/octosql/octosql"
	"github.com/cube2222/octosql/physical"

	"github.com/cube2222/octosql/plugins/verifharness/core"
	"github.com/cube2222/octosql/plugins/verifharness/nodeh"
)

// ---------------------------------------------------------------------------------------------
// tumble over sources that HAVE an implicit (watermarked) time field, with a time_field that names
// a different / the same / no column: the window must contain the value of the DESIGNATED column.

type tumbleSrcCase struct {
	id       string
	source   string // table-with-time-field | max_diff_watermark | nested-tumble
	designat string // explicit-other | explicit-same | implicit
	L, off   int64
	t1, t2   []int64 // the two time columns, different per row
	optimize bool
}

var twoTimeFields = []physical.SchemaField{
	{Name: "id", Type: octosql.Int},
	{Name: "time", Type: octosql.Time},
	{Name: "t2", Type: octosql.Time},
}

const innerL = 90 * int64(time.Second) // window length of the inner tumble of nested cases

func (tc *tumbleSrcCase) sql() string {
	var src string
	switch tc.source {
	case "table-with-time-field":
		src = "m.t"
	case "max_diff_watermark":
		// max_diff far beyond the spread of the times: nothing is dropped
		src = "max_diff_watermark(source=>TABLE(m.t), max_diff=>INTERVAL 40000 DAYS, time_field=>DESCRIPTOR(time)) w"
	case "nested-tumble":
		src = "tumble(source=>TABLE(m.t), window_length=>INTERVAL 90 SECONDS) y"
	}
	q := "SELECT * FROM tumble(source=>TABLE(" + src + "), window_length=>" + durSQL(tc.L, 3)
	switch tc.designat {
	case "explicit-other":
		q += ", time_field=>DESCRIPTOR(t2)"
	case "explicit-same":
		q += ", time_field=>DESCRIPTOR(time)"
	}
	if tc.off != 0 {
		q += ", offset=>" + durSQL(tc.off, 1)
	}
	return q + ") x"
}

// windowProblem judges one window against the designated instant (big-int nanoseconds since year 1).
func windowProblem(t time.Time, ws, we octosql.Value, L, off int64) string {
	if ws.TypeID != octosql.TypeIDTime || we.TypeID != octosql.TypeIDTime {
		return "window fields are not Time values"
	}
	tt, s, e := absNs(t), absNs(ws.Time), absNs(we.Time)
	desc := fmt.Sprintf("designated time %s window=[%s, %s) L=%s offset=%s", t.UTC().Format(time.RFC3339Nano), ws.Time.UTC().Format(time.RFC3339Nano), we.Time.UTC().Format(time.RFC3339Nano), time.Duration(L), time.Duration(off))
	if !(s.Cmp(tt) <= 0 && tt.Cmp(e) < 0) {
		return "not window_start <= t < window_end: " + desc
	}
	if new(big.Int).Sub(e, s).Cmp(big.NewInt(L)) != 0 {
		return "window_end - window_start != L: " + desc
	}
	if !isMultiple(new(big.Int).Sub(s, big.NewInt(off)), L) {
		return "(window_start - offset) is not a multiple of L: " + desc
	}
	return ""
}

func runTumbleSrc(c *core.Ctx, tc *tumbleSrcCase, idx int) {
	c.Eval(1)
	var evs []nodeh.Event
	for i := range tc.t1 {
		evs = append(evs, nodeh.Rec([]octosql.Value{octosql.NewInt(int64(i)), octosql.NewTime(utc(tc.t1[i])), octosql.NewTime(utc(tc.t2[i]))}, false, time.Time{}))
	}
	tf := 1
	if tc.source == "max_diff_watermark" {
		tf = -1 // the watermark generator is what gives the stream its time field
	}
	db := &nodeh.DB{Tables: map[string]*nodeh.Table{"t": {Fields: twoTimeFields, TimeField: tf, NoRetractions: true, Events: evs}}}
	ts1, ts2 := make([]string, len(tc.t1)), make([]string, len(tc.t1))
	for i := range tc.t1 {
		ts1[i], ts2[i] = fmtNs(tc.t1[i]), fmtNs(tc.t2[i])
	}
	replay := map[string]interface{}{"id": tc.id, "sql": tc.sql(), "optimize": tc.optimize, "source": tc.source, "time_field": tc.designat,
		"time": strings.Join(ts1, " "), "t2": strings.Join(ts2, " ")}
	_, outs, res, perr := nodeh.RunSQL(nodeh.Ctx(), tc.sql(), db, nodeh.PlanOpts{Optimize: tc.optimize, Output: "none"}, 30*time.Second)
	if perr != nil {
		key := "tumble/plan-error:" + perr.Stage
		if perr.Stage == "panic" {
			key = "panic:" + core.PanicSite(perr.Stack)
		}
		c.Violation(key, "a documented tumble call was rejected: "+perr.Error(), replay)
		return
	}
	replay["output"] = nodeh.OutsString(outs)
	if res.TimedOut {
		c.Inconclusive("watchdog")
		return
	}
	if res.Panicked {
		c.Violation("panic:"+core.PanicSite(res.Stack), "tumble panicked: "+res.PanicMsg, replay)
		return
	}
	if res.Err != nil {
		c.Violation("tumble/error", "tumble returned error: "+res.Err.Error(), replay)
		return
	}
	var recs []nodeh.Out
	for _, o := range outs {
		if !o.IsWatermark {
			recs = append(recs, o)
		}
	}
	if selftest && idx%3 == 1 && len(recs) > 0 {
		// as if the window had been computed from the other time column
		v := recs[0].Record.Values
		n := len(v)
		other := v[1].Time
		if tc.designat != "explicit-other" {
			other = v[2].Time
		}
		ws := other.Add(-time.Duration(tc.off)).Truncate(time.Duration(tc.L)).Add(time.Duration(tc.off))
		v[n-2], v[n-1] = octosql.NewTime(ws), octosql.NewTime(ws.Add(time.Duration(tc.L)))
	}
	if len(recs) != len(tc.t1) {
		c.Violation("tumble/stream-shape", fmt.Sprintf("%d records for %d inputs", len(recs), len(tc.t1)), replay)
		return
	}
	wantVals := 5
	if tc.source == "nested-tumble" {
		wantVals = 7
	}
	for i, o := range recs {
		v := o.Record.Values
		if len(v) != wantVals {
			c.Violation("tumble/stream-shape", fmt.Sprintf("record #%d has %d values, want %d", i, len(v), wantVals), replay)
			return
		}
		if nodeh.RowKey(v[:3]) != nodeh.RowKey(evs[i].Record.Values) || o.Record.Retraction {
			c.Violation("tumble/fields-changed", fmt.Sprintf("record #%d: %s, want the source's fields %s unchanged", i, o.String(), evs[i].String()), replay)
			return
		}
		if tc.source == "nested-tumble" {
			// the inner tumble's own window (over `time`, its source's implicit time field)
			if msg := windowProblem(utc(tc.t1[i]), v[3], v[4], innerL, 0); msg != "" {
				c.Violation("tumble/inner-window", fmt.Sprintf("record #%d, inner tumble: %s", i, msg), replay)
				return
			}
		}
		var designated time.Time
		switch {
		case tc.designat == "explicit-other":
			designated = utc(tc.t2[i])
		case tc.designat == "explicit-same":
			designated = utc(tc.t1[i])
		case tc.source == "nested-tumble": // implicit: the inner tumble's time field is its window_end
			designated = v[4].Time
		default:
			designated = utc(tc.t1[i])
		}
		if msg := windowProblem(designated, v[wantVals-2], v[wantVals-1], tc.L, tc.off); msg != "" {
			key := "tumble/time-outside-window"
			if !strings.HasPrefix(msg, "not window_start") {
				key = "tumble/window-misaligned"
			}
			c.Violation(key, fmt.Sprintf("record #%d (time_field: %s over %s): %s", i, tc.designat, tc.source, msg), replay)
			return
		}
	}
	c.Count("tumble_over_timed_source/"+tc.source+"/"+tc.designat, 1)
	c.Nontrivial(fmt.Sprintf("tumblesrc|%s|%s|%d|%d|%v|%v", tc.source, tc.designat, tc.L, tc.off, tc.t1, tc.t2))
	if idx%9 == 0 {
		c.Sample(replay)
	}
}

func genTumbleSrc(rng *rand.Rand, i int) *tumbleSrcCase {
	sources := []string{"table-with-time-field", "max_diff_watermark", "nested-tumble"}
	designs := []string{"explicit-other", "explicit-other", "explicit-same", "implicit"}
	Ls := []int64{sec, 7 * sec, min}
	tc := &tumbleSrcCase{id: fmt.Sprintf("tumblesrc-%d", i), source: sources[i%3], designat: designs[(i/3)%4], L: Ls[(i/12)%3], optimize: rng.Intn(2) == 0}
	tc.off = []int64{0, 0, tc.L / 3, -sec, tc.L + sec}[rng.Intn(5)]
	base := time.Date(2021, 6, 15, 13, 0, 0, 0, time.UTC).UnixNano()
	if rng.Intn(3) == 0 {
		base = time.Date(1931, 2, 3, 4, 5, 6, 0, time.UTC).UnixNano()
	}
	n := 1 + rng.Intn(8)
	cur := base
	for k := 0; k < n; k++ {
		cur += rng.Int63n(3*tc.L + 1)
		tc.t1 = append(tc.t1, cur)
		// the other column lies several windows away, in either direction, never in the same window
		d := (2+rng.Int63n(50))*tc.L + rng.Int63n(tc.L)
		if rng.Intn(2) == 0 {
			d = -d
		}
		tc.t2 = append(tc.t2, cur+d+100*innerL*int64(1-2*rng.Intn(2)))
	}
	return tc
}

// ---------------------------------------------------------------------------------------------
// range whose bounds reference the outer record, so that the same materialized node is run once
// per outer record: every run must emit exactly start..end-1 of ITS outer record.

// multiScript replays script k on its k-th Run.
type multiScript struct {
	mu      sync.Mutex
	runs    int
	scripts [][]nodeh.Event
}

func (m *multiScript) Run(ctx execution.ExecutionContext, produce execution.ProduceFn, metaSend execution.MetaSendFn) error {
	m.mu.Lock()
	k := m.runs
	m.runs++
	m.mu.Unlock()
	if k >= len(m.scripts) {
		k = len(m.scripts) - 1
	}
	return (&nodeh.ScriptSource{Events: m.scripts[k]}).Run(ctx, produce, metaSend)
}

type rangeOuterCase struct {
	id       string
	runs     [][][2]int64 // per run of the materialized plan: the outer rows (i, j)
	optimize bool
}

var outerFields = []physical.SchemaField{{Name: "i", Type: octosql.Int}, {Name: "j", Type: octosql.Int}}

func outerScript(rows [][2]int64) []nodeh.Event {
	var evs []nodeh.Event
	for _, r := range rows {
		evs = append(evs, nodeh.Rec([]octosql.Value{octosql.NewInt(r[0]), octosql.NewInt(r[1])}, false, time.Time{}))
	}
	return evs
}

func listKey(from, to int64) string {
	var sb strings.Builder
	sb.WriteString("[")
	for v := from; v < to; v++ {
		if v > from {
			sb.WriteString(",")
		}
		fmt.Fprintf(&sb, "i%d", v)
	}
	sb.WriteString("]")
	return sb.String()
}

func runRangeOuter(c *core.Ctx, rc *rangeOuterCase, idx int) {
	type shape struct {
		name, sql string
		// judge the records of one run against that run's outer rows
		judge func(rows [][2]int64, recs []nodeh.Out) string
	}
	// ordered per-outer-row comparison for the join shapes: the rows of outer record (i,j) must be
	// exactly from..to-1 ascending; outer rows are distinct, so grouping by (i,j) is unambiguous
	joinJudge := func(bounds func(r [2]int64) (int64, int64)) func(rows [][2]int64, recs []nodeh.Out) string {
		return func(rows [][2]int64, recs []nodeh.Out) string {
			got := map[[2]int64][]int64{}
			for _, o := range recs {
				v := o.Record.Values
				if len(v) != 3 || o.Record.Retraction {
					return "unexpected row " + o.String()
				}
				k := [2]int64{v[0].Int, v[1].Int}
				got[k] = append(got[k], v[2].Int)
			}
			for _, r := range rows {
				from, to := bounds(r)
				var want []int64
				for v := from; v < to; v++ {
					want = append(want, v)
				}
				if fmt.Sprint(got[r]) != fmt.Sprint(want) {
					return fmt.Sprintf("outer row (i=%d, j=%d): range emitted %v, want %v", r[0], r[1], got[r], want)
				}
				delete(got, r)
			}
			if len(got) > 0 {
				return fmt.Sprintf("rows for outer records that do not exist: %v", got)
			}
			return ""
		}
	}
	subqJudge := func(want func(r [2]int64) []string) func(rows [][2]int64, recs []nodeh.Out) string {
		return func(rows [][2]int64, recs []nodeh.Out) string {
			seen := map[[2]int64]int{}
			byRow := map[[2]int64][]string{}
			for _, r := range rows {
				byRow[r] = want(r)
			}
			for _, o := range recs {
				v := o.Record.Values
				if len(v) != 3 {
					return "unexpected row " + o.String()
				}
				k := [2]int64{v[0].Int, v[1].Int}
				w, ok := byRow[k]
				if !ok {
					return "row for an outer record that does not exist: " + o.String()
				}
				seen[k]++
				g := nodeh.ValKey(v[2])
				match := false
				for _, x := range w {
					if g == x {
						match = true
					}
				}
				if !match {
					return fmt.Sprintf("outer row (i=%d, j=%d): subquery over range gives %s, want %s", k[0], k[1], g, strings.Join(w, " or "))
				}
			}
			for _, r := range rows {
				if seen[r] != 1 {
					return fmt.Sprintf("outer row (i=%d, j=%d) appears %d times", r[0], r[1], seen[r])
				}
			}
			return ""
		}
	}
	shapes := []shape{
		{"lookup-join(start=>a.i,end=>a.j)", "SELECT a.i, a.j, b.i FROM m.a a LOOKUP JOIN range(start=>a.i, end=>a.j) b",
			joinJudge(func(r [2]int64) (int64, int64) { return r[0], r[1] })},
		{"lookup-join(start=>0,end=>a.j)", "SELECT a.i, a.j, b.i FROM m.a a LOOKUP JOIN range(start=>0, end=>a.j) b",
			joinJudge(func(r [2]int64) (int64, int64) { return 0, r[1] })},
		{"scalar-subquery-values", "SELECT a.i, a.j, (SELECT r.i FROM range(start=>a.i, end=>a.j) r) AS c FROM m.a a",
			subqJudge(func(r [2]int64) []string { return []string{listKey(r[0], r[1])} })},
		{"scalar-subquery-count", "SELECT a.i, a.j, (SELECT count(*) FROM range(start=>a.i, end=>a.j) r) AS c FROM m.a a",
			subqJudge(func(r [2]int64) []string {
				if r[1] <= r[0] { // count over an empty input: no row or 0, both accepted (DESIGN 3.4)
					return []string{"[]", "[i0]"}
				}
				return []string{fmt.Sprintf("[i%d]", r[1]-r[0])}
			})},
	}
	for si, sh := range shapes {
		c.Eval(1)
		ms := &multiScript{}
		for _, rows := range rc.runs {
			ms.scripts = append(ms.scripts, outerScript(rows))
		}
		db := &nodeh.DB{Tables: map[string]*nodeh.Table{"a": {Fields: outerFields, TimeField: -1, NoRetractions: true, Source: func() execution.Node { return ms }}}}
		replay := map[string]interface{}{"id": rc.id, "sql": sh.sql, "optimize": rc.optimize, "outer_rows_per_run": fmt.Sprint(rc.runs)}
		p, perr := nodeh.Plan(nodeh.Ctx(), sh.sql, db, nodeh.PlanOpts{Optimize: rc.optimize, Output: "none"})
		if perr != nil {
			key := "range/plan-error:" + perr.Stage
			if perr.Stage == "panic" {
				key = "panic:" + core.PanicSite(perr.Stack)
			}
			c.Violation(key, sh.name+": "+perr.Error(), replay)
			continue
		}
		ok := true
		for k, rows := range rc.runs { // the SAME materialized plan, run once per script
			col := &nodeh.Collector{}
			res := nodeh.RunNodeCtx(nodeh.Ctx(), p.Exec, col, nil, 30*time.Second)
			outs := col.Snapshot()
			replay["run"] = k + 1
			replay["output"] = nodeh.OutsString(outs)
			if res.TimedOut {
				c.Inconclusive("watchdog")
				ok = false
				break
			}
			if res.Panicked {
				c.Violation("panic:"+core.PanicSite(res.Stack), sh.name+" panicked: "+res.PanicMsg, replay)
				ok = false
				break
			}
			if res.Err != nil {
				c.Violation("range/error", sh.name+" returned error: "+res.Err.Error(), replay)
				ok = false
				break
			}
			var recs []nodeh.Out
			for _, o := range outs {
				if !o.IsWatermark {
					recs = append(recs, o)
				}
			}
			if selftest && idx%3 == 1 && len(recs) > 0 {
				recs = recs[:len(recs)-1]
			}
			if msg := sh.judge(rows, recs); msg != "" {
				c.Violation("range/bounds-of-another-outer-record", fmt.Sprintf("%s, run %d of the materialized plan: %s", sh.name, k+1, msg), replay)
				ok = false
				break
			}
		}
		if ok {
			c.Count("range_per_outer_record/"+sh.name, 1)
			c.Nontrivial(fmt.Sprintf("rangeouter|%d|%v", si, rc.runs))
			if idx%13 == 0 && si == 0 {
				c.Sample(replay)
			}
		}
	}
}

func genRangeOuter(rng *rand.Rand, i int) *rangeOuterCase {
	rc := &rangeOuterCase{id: fmt.Sprintf("rangeouter-%d", i), optimize: rng.Intn(2) == 0}
	nRuns := 1 + i%3
	for r := 0; r < nRuns; r++ {
		seen := map[[2]int64]bool{}
		var rows [][2]int64
		n := 2 + rng.Intn(4)
		for tries := 0; len(rows) < n && tries < 100; tries++ {
			row := [2]int64{int64(rng.Intn(9) - 3), int64(rng.Intn(9) - 3)}
			if !seen[row] {
				seen[row] = true
				rows = append(rows, row)
			}
		}
		rc.runs = append(rc.runs, rows)
	}
	return rc
}

package c20

import (
	"fmt"
	"testing"
	"time"

	"github.com/cube2222/octosql/octosql"
	"github.com/cube2222/octosql/physical"
	"github.com/cube2222/octosql/plugins/verifharness/nodeh"
)

func TestProbe(t *testing.T) {
	base := time.Date(2020, 1, 1, 0, 0, 0, 0, time.UTC)
	evs := []nodeh.Event{}
	for i := 0; i < 5; i++ {
		tt := base.Add(time.Duration(i*3) * time.Second)
		evs = append(evs, nodeh.Rec([]octosql.Value{octosql.NewInt(int64(i)), octosql.NewTime(tt)}, false, time.Time{}))
	}
	db := &nodeh.DB{Tables: map[string]*nodeh.Table{"t": {
		Fields:    []physical.SchemaField{{Name: "id", Type: octosql.Int}, {Name: "time", Type: octosql.Time}},
		TimeField: -1, NoRetractions: true, Events: evs,
	}}}
	qs := []string{
		"SELECT * FROM max_diff_watermark(source=>TABLE(m.t), max_diff=>INTERVAL 5 SECONDS, time_field=>DESCRIPTOR(time), resolution=>INTERVAL 1 SECOND) x",
		"SELECT * FROM max_diff_watermark(source=>TABLE(m.t), max_diff=>INTERVAL 0 SECONDS, time_field=>DESCRIPTOR(time)) x",
		"SELECT * FROM max_diff_watermark(source=>TABLE(m.t), max_diff=>INTERVAL 1 NANOSECOND, time_field=>DESCRIPTOR(time), resolution=>INTERVAL 1 NANOSECOND) x",
		"SELECT * FROM max_diff_watermark(source=>TABLE(m.t), max_diff=>INTERVAL 1 HOUR, time_field=>DESCRIPTOR(time), resolution=>INTERVAL 7 SECONDS) x",
		"SELECT * FROM max_diff_watermark(source=>TABLE(m.t), max_diff=>INTERVAL 1 HOUR, time_field=>DESCRIPTOR(time), resolution=>INTERVAL 1 MINUTE) x",
		"SELECT * FROM tumble(source=>TABLE(m.t), window_length=>INTERVAL 1 MINUTE, time_field=>DESCRIPTOR(time), offset=>INTERVAL 0 SECONDS) x",
		"SELECT * FROM tumble(source=>TABLE(m.t), window_length=>INTERVAL 7 SECONDS, time_field=>DESCRIPTOR(time), offset=>INTERVAL -5 SECONDS) x",
		"SELECT * FROM tumble(source=>TABLE(m.t), window_length=>INTERVAL 7 SECONDS, time_field=>DESCRIPTOR(time), offset=>INTERVAL 0 SECONDS - INTERVAL 5 SECONDS) x",
		"SELECT * FROM tumble(source=>TABLE(m.t), window_length=>INTERVAL 7 SECONDS, time_field=>DESCRIPTOR(time), offset=>-INTERVAL 5 SECONDS) x",
		"SELECT * FROM tumble(source=>TABLE(m.t), window_length=>INTERVAL 1 DAY, time_field=>DESCRIPTOR(time)) x",
		"SELECT * FROM tumble(source=>TABLE(m.t), window_length=>INTERVAL 1 DAY) x",
		"SELECT * FROM range(start=>1, end=>5) x",
		"SELECT * FROM range(start=>-1, end=>2) x",
		"SELECT * FROM range(start=>9223372036854775805, end=>9223372036854775807) x",
		"SELECT * FROM range(start=>-9223372036854775808, end=>-9223372036854775806) x",
		"SELECT * FROM range(start=>-9223372036854775807 - 1, end=>-9223372036854775806) x",
	}
	for _, q := range qs {
		for _, opt := range []bool{false} {
			_, outs, res, perr := nodeh.RunSQL(nodeh.Ctx(), q, db, nodeh.PlanOpts{Optimize: opt, Output: "none"}, 10*time.Second)
			fmt.Println(q)
			if perr != nil {
				fmt.Println("   PLANERR", perr)
				continue
			}
			fmt.Println("   ", res.Err, res.Panicked, res.PanicMsg, nodeh.OutsString(outs))
		}
	}
}

// Package c20: max_diff_watermark generates correct watermarks.
//
// R (refutation): a watermark != floor(max time seen, resolution) - max_diff, or not strictly
// greater than the previous one; a record with time <= current watermark passed, or one above it
// dropped or altered, or its event time != its time field; a watermark of the source forwarded.
// O: step-by-step reference of the generator in own int64 arithmetic on Unix nanoseconds (floor
// division), judged per input step (the collector's step counter is advanced by the scripted
// source after every event it pushed, so each output is attributed to the input that caused it).
// W: real SQL (`SELECT * FROM max_diff_watermark(source=>TABLE(m.t), ...) x`) through
// parse -> typecheck -> optimize -> materialize over a memdb table; 16 configurations
// (max_diff {0,1ns,5s,1h} x resolution {1ns, omitted(=1s), 7s, 1min}) x seeded time sequences
// (ordered / shuffled / bursty with duplicates, ns or s granularity, post-epoch / pre-epoch /
// straddling the epoch); a CLI leg over JSON files judged on -o stream_native.
package c20

import (
	"encoding/json"
	"fmt"
	"math/rand"
	"os"
	"sort"
	"strings"
	"sync"
	"time"

	"github.com/cube2222/octosql/execution"
	"github.com/cube2222/octosql/octosql"
	"github.com/cube2222/octosql/physical"

	"github.com/cube2222/octosql/plugins/verifharness/cli"
	"github.com/cube2222/octosql/plugins/verifharness/core"
	"github.com/cube2222/octosql/plugins/verifharness/nodeh"
)

func init() { core.Register("C20", Run) }

const (
	ns   = int64(1)
	sec  = int64(time.Second)
	min  = int64(time.Minute)
	hour = int64(time.Hour)
)

type config struct {
	maxDiff    int64
	resolution int64 // 0 = argument omitted (documented default 1s)
}

func (c config) res() int64 {
	if c.resolution == 0 {
		return sec
	}
	return c.resolution
}

func (c config) String() string {
	r := "omitted"
	if c.resolution != 0 {
		r = time.Duration(c.resolution).String()
	}
	return fmt.Sprintf("max_diff=%s,resolution=%s", time.Duration(c.maxDiff), r)
}

var configs = func() []config {
	var out []config
	for _, md := range []int64{0, ns, 5 * sec, hour} {
		for _, r := range []int64{ns, 0, 7 * sec, min} {
			out = append(out, config{md, r})
		}
	}
	return out
}()

// intervalSQL spells a duration as an INTERVAL literal; variant picks among the equivalent
// spellings the parser documents (unit in singular/plural, lower/upper case, coarser units).
func intervalSQL(d int64, variant int) string {
	type unit struct {
		name string
		n    int64
	}
	units := []unit{{"HOUR", hour}, {"MINUTE", min}, {"SECOND", sec}, {"MILLISECOND", int64(time.Millisecond)}, {"MICROSECOND", int64(time.Microsecond)}, {"NANOSECOND", ns}}
	var fits []unit
	for _, u := range units {
		if d%u.n == 0 {
			fits = append(fits, u)
		}
	}
	u := fits[variant%len(fits)]
	if d == 0 {
		u = units[2+variant%4]
	}
	name := u.name
	if (variant/7)%2 == 1 || d/u.n != 1 {
		name += "S"
	}
	if (variant/3)%2 == 1 {
		name = strings.ToLower(name)
	}
	return fmt.Sprintf("INTERVAL %d %s", d/u.n, name)
}

func floorDiv(a, b int64) int64 {
	q := a / b
	if a%b != 0 && (a < 0) != (b < 0) {
		q--
	}
	return q
}

// step is what the reference expects input record i to cause.
type step struct {
	pass      bool
	watermark bool
	wm        int64
}

// reference runs the documented generator over the times (Unix ns). truncTowardZero selects the
// rounding the unchanged tree uses (Go integer division), only used to classify the known finding.
func reference(times []int64, cfg config, truncTowardZero bool) []step {
	out := make([]step, len(times))
	haveMax, haveWM := false, false
	var max, wm int64
	res := cfg.res()
	for i, t := range times {
		if !haveWM || t > wm {
			out[i].pass = true
		}
		var r int64
		if truncTowardZero {
			r = t / res * res
		} else {
			r = floorDiv(t, res) * res
		}
		if !haveMax || r > max {
			max, haveMax = r, true
			wm, haveWM = r-cfg.maxDiff, true
			out[i].watermark, out[i].wm = true, wm
		}
	}
	return out
}

type tcase struct {
	id       string
	cfg      config
	times    []int64
	retr     []bool
	srcET    []int64 // event time the source attaches (0 = none); must be overwritten
	srcWMAt  map[int]int64
	layout   int // column order variant
	optimize bool
	variant  int
	shape    string
}

var layouts = [][]string{
	{"id", "time", "s"},
	{"time", "id", "s"},
	{"id", "s", "time"},
}

func utc(n int64) time.Time { return time.Unix(0, n).UTC() }

func (tc *tcase) sql() string {
	q := fmt.Sprintf("SELECT * FROM max_diff_watermark(source=>TABLE(m.t), max_diff=>%s, time_field=>DESCRIPTOR(time)", intervalSQL(tc.cfg.maxDiff, tc.variant))
	if tc.cfg.resolution != 0 {
		q += ", resolution=>" + intervalSQL(tc.cfg.resolution, tc.variant/2)
	}
	return q + ") x"
}

func (tc *tcase) row(i int) []octosql.Value {
	vals := make([]octosql.Value, 3)
	for j, name := range layouts[tc.layout] {
		switch name {
		case "id":
			vals[j] = octosql.NewInt(int64(i))
		case "time":
			vals[j] = octosql.NewTime(utc(tc.times[i]))
		case "s":
			if i%5 == 3 {
				vals[j] = octosql.NewNull()
			} else {
				vals[j] = octosql.NewString(fmt.Sprintf("p%d", i%4))
			}
		}
	}
	return vals
}

func (tc *tcase) fields() []physical.SchemaField {
	f := make([]physical.SchemaField, 3)
	for j, name := range layouts[tc.layout] {
		switch name {
		case "id":
			f[j] = physical.SchemaField{Name: "id", Type: octosql.Int}
		case "time":
			f[j] = physical.SchemaField{Name: "time", Type: octosql.Time}
		case "s":
			f[j] = physical.SchemaField{Name: "s", Type: octosql.TypeSum(octosql.String, octosql.Null)}
		}
	}
	return f
}

func (tc *tcase) replay(outs []nodeh.Out) map[string]interface{} {
	ts := make([]string, len(tc.times))
	for i, t := range tc.times {
		ts[i] = fmtNs(t)
		if tc.retr[i] {
			ts[i] = "-" + ts[i]
		}
	}
	m := map[string]interface{}{"id": tc.id, "sql": tc.sql(), "optimize": tc.optimize, "config": tc.cfg.String(), "shape": tc.shape,
		"times": strings.Join(ts, " "), "columns": strings.Join(layouts[tc.layout], ",")}
	if outs != nil {
		m["output"] = outsString(outs)
	}
	return m
}

func fmtNs(n int64) string { return utc(n).Format("2006-01-02T15:04:05.999999999Z") }

func outsString(outs []nodeh.Out) string {
	parts := make([]string, len(outs))
	for i, o := range outs {
		if o.IsWatermark {
			parts[i] = fmt.Sprintf("[%d]~%s", o.Step, fmtNs(o.Watermark.UnixNano()))
		} else {
			sign := "+"
			if o.Record.Retraction {
				sign = "-"
			}
			parts[i] = fmt.Sprintf("[%d]%s%s@%s", o.Step, sign, nodeh.RowKey(o.Record.Values), fmtNs(o.Record.EventTime.UnixNano()))
		}
	}
	return strings.Join(parts, " ")
}

// judge compares the recorded outputs with what `want` expects, step by step. It returns "" or
// a description of the first discrepancy.
func judge(tc *tcase, outs []nodeh.Out, want []step) string {
	byStep := map[int][]nodeh.Out{}
	for _, o := range outs {
		byStep[o.Step] = append(byStep[o.Step], o)
	}
	if extra := byStep[len(tc.times)]; len(extra) > 0 {
		return fmt.Sprintf("output after the last input: %s", outsString(extra))
	}
	var lastWM int64
	haveWM := false
	for i := range tc.times {
		got := byStep[i]
		var recs, wms []nodeh.Out
		recAfterWM := false
		for _, o := range got {
			if o.IsWatermark {
				wms = append(wms, o)
			} else {
				recs = append(recs, o)
				if len(wms) > 0 {
					recAfterWM = true
				}
			}
		}
		// records
		if want[i].pass {
			if len(recs) == 0 {
				return fmt.Sprintf("input #%d (time %s) is above the current watermark %s but was dropped", i, fmtNs(tc.times[i]), wmStr(haveWM, lastWM))
			}
			if len(recs) > 1 {
				return fmt.Sprintf("input #%d emitted %d times", i, len(recs))
			}
			r := recs[0].Record
			if nodeh.RowKey(r.Values) != nodeh.RowKey(tc.row(i)) {
				return fmt.Sprintf("input #%d altered: %s, want %s", i, nodeh.RowKey(r.Values), nodeh.RowKey(tc.row(i)))
			}
			if r.Retraction != tc.retr[i] {
				return fmt.Sprintf("input #%d: retraction flag changed to %v", i, r.Retraction)
			}
			if r.EventTime.IsZero() || r.EventTime.UnixNano() != tc.times[i] {
				return fmt.Sprintf("input #%d: event time %s != time field %s", i, nodeh.FmtTime(r.EventTime), fmtNs(tc.times[i]))
			}
		} else if len(recs) > 0 {
			return fmt.Sprintf("input #%d (time %s) is at or below the current watermark %s but was passed on", i, fmtNs(tc.times[i]), wmStr(haveWM, lastWM))
		}
		// watermarks
		if want[i].watermark {
			if len(wms) == 0 {
				return fmt.Sprintf("input #%d (time %s) raises floor(max time, %s) but no watermark was emitted (want %s)", i, fmtNs(tc.times[i]), time.Duration(tc.cfg.res()), fmtNs(want[i].wm))
			}
			if len(wms) > 1 {
				return fmt.Sprintf("input #%d caused %d watermarks", i, len(wms))
			}
			g := wms[0].Watermark.UnixNano()
			if g != want[i].wm {
				return fmt.Sprintf("after input #%d (time %s) watermark %s, want floor(max,%s)-%s = %s", i, fmtNs(tc.times[i]), fmtNs(g), time.Duration(tc.cfg.res()), time.Duration(tc.cfg.maxDiff), fmtNs(want[i].wm))
			}
			if haveWM && g <= lastWM {
				return fmt.Sprintf("watermark %s after input #%d is not strictly greater than the previous %s", fmtNs(g), i, fmtNs(lastWM))
			}
			// a passed record must not follow, within its own step, a watermark that makes it late
			if recAfterWM && tc.times[i] <= g {
				return fmt.Sprintf("input #%d was emitted after the watermark %s it caused, which makes it late", i, fmtNs(g))
			}
			lastWM, haveWM = g, true
		} else if len(wms) > 0 {
			return fmt.Sprintf("input #%d (time %s) does not raise floor(max time, %s) but watermark %s was emitted", i, fmtNs(tc.times[i]), time.Duration(tc.cfg.res()), fmtNs(wms[0].Watermark.UnixNano()))
		}
	}
	return ""
}

func wmStr(have bool, wm int64) string {
	if !have {
		return "(none)"
	}
	return fmtNs(wm)
}

// preEpochPredicate: the input predicate of the open finding `pre-epoch-rounding`.
func preEpochPredicate(tc *tcase) bool {
	for _, t := range tc.times {
		if t < 0 && t%tc.cfg.res() != 0 {
			return true
		}
	}
	return false
}

var selftest = os.Getenv("VERIF_SELFTEST") == "1"

func runCase(c *core.Ctx, tc *tcase, idx int) {
	c.Eval(1)
	col := &nodeh.Collector{}
	evs := make([]nodeh.Event, 0, len(tc.times)+len(tc.srcWMAt))
	stepOf := []int{} // script index -> input record index (or -1 for a source watermark)
	for i := range tc.times {
		if w, ok := tc.srcWMAt[i]; ok {
			evs = append(evs, nodeh.WM(utc(w)))
			stepOf = append(stepOf, -1)
		}
		et := time.Time{}
		if tc.srcET[i] != 0 {
			et = utc(tc.srcET[i])
		}
		evs = append(evs, nodeh.Rec(tc.row(i), tc.retr[i], et))
		stepOf = append(stepOf, i)
	}
	db := &nodeh.DB{Tables: map[string]*nodeh.Table{"t": {
		Fields: tc.fields(), TimeField: -1,
		Source: func() execution.Node {
			return &nodeh.ScriptSource{Events: evs, AfterEach: func(k int) {
				if stepOf[k] >= 0 {
					col.SetStep(stepOf[k] + 1)
				}
			}}
		},
	}}}
	p, perr := nodeh.Plan(nodeh.Ctx(), tc.sql(), db, nodeh.PlanOpts{Optimize: tc.optimize, Output: "none"})
	if perr != nil {
		key := "plan-error:" + perr.Stage
		if perr.Stage == "panic" {
			key = "panic:" + core.PanicSite(perr.Stack)
		}
		c.Violation(key, "a documented max_diff_watermark call was rejected: "+perr.Error(), tc.replay(nil))
		return
	}
	res := nodeh.RunNodeCtx(nodeh.Ctx(), p.Exec, col, nil, 30*time.Second)
	outs := col.Snapshot()
	replay := tc.replay(outs)
	if res.TimedOut {
		c.Inconclusive("watchdog")
		return
	}
	if res.Panicked {
		c.Violation("panic:"+core.PanicSite(res.Stack), "max_diff_watermark panicked: "+res.PanicMsg, replay)
		return
	}
	if res.Err != nil {
		c.Violation("error", "max_diff_watermark returned error: "+res.Err.Error(), replay)
		return
	}
	if len(p.OutFields) != 3 {
		c.Violation("schema", fmt.Sprintf("output schema has %d fields, want the source's 3", len(p.OutFields)), replay)
		return
	}
	for j, name := range layouts[tc.layout] {
		if p.OutFields[j].Name != name && p.OutFields[j].Name != "x."+name {
			c.Violation("schema", fmt.Sprintf("output field %d is %q, want %q", j, p.OutFields[j].Name, name), replay)
			return
		}
	}
	if p.Schema.TimeField < 0 || layouts[tc.layout][p.Schema.TimeField] != "time" {
		c.Violation("schema", fmt.Sprintf("output schema's time field index is %d, want the index of `time`", p.Schema.TimeField), replay)
		return
	}
	if selftest && idx%4 == 1 && len(outs) > 1 {
		// deliberately corrupt the recording: drop one output, or shift one watermark by 1ns
		k := idx % len(outs)
		if outs[k].IsWatermark {
			outs[k].Watermark = outs[k].Watermark.Add(time.Nanosecond)
		} else {
			outs = append(outs[:k:k], outs[k+1:]...)
		}
	}
	want := reference(tc.times, tc.cfg, false)
	if msg := judge(tc, outs, want); msg != "" {
		key := "generator-mismatch"
		if preEpochPredicate(tc) && judge(tc, outs, reference(tc.times, tc.cfg, true)) == "" {
			// input predicate holds and the run is exactly the documented generator with the
			// rounding replaced by Go's truncation toward zero: the known finding, nothing else.
			key = "pre-epoch-rounding"
		}
		c.Violation(key, msg, replay)
		// the case still counts as explored
	}
	account(c, tc, want, replay)
}

// ---------------------------------------------------------------------------------------------
// the same materialized node run more than once: every run must be judged by the same reference,
// i.e. the generator must not carry its maximum / watermark from one Run call to the next

func buildScript(tc *tcase) (evs []nodeh.Event, stepOf []int) {
	for i := range tc.times {
		if w, ok := tc.srcWMAt[i]; ok {
			evs = append(evs, nodeh.WM(utc(w)))
			stepOf = append(stepOf, -1)
		}
		et := time.Time{}
		if tc.srcET[i] != 0 {
			et = utc(tc.srcET[i])
		}
		evs = append(evs, nodeh.Rec(tc.row(i), tc.retr[i], et))
		stepOf = append(stepOf, i)
	}
	return
}

// multiSource replays script k on its k-th Run and advances the k-th collector's step counter.
type multiSource struct {
	mu      sync.Mutex
	runs    int
	scripts [][]nodeh.Event
	stepOfs [][]int
	cols    []*nodeh.Collector
}

func (m *multiSource) Run(ctx execution.ExecutionContext, produce execution.ProduceFn, metaSend execution.MetaSendFn) error {
	m.mu.Lock()
	k := m.runs
	m.runs++
	m.mu.Unlock()
	if k >= len(m.scripts) {
		k = len(m.scripts) - 1
	}
	src := &nodeh.ScriptSource{Events: m.scripts[k], AfterEach: func(j int) {
		if m.stepOfs[k][j] >= 0 {
			m.cols[k].SetStep(m.stepOfs[k][j] + 1)
		}
	}}
	return src.Run(ctx, produce, metaSend)
}

func runRerun(c *core.Ctx, tcs []*tcase, idx int) {
	c.Eval(1)
	first := tcs[0]
	ms := &multiSource{}
	for _, tc := range tcs {
		evs, so := buildScript(tc)
		ms.scripts = append(ms.scripts, evs)
		ms.stepOfs = append(ms.stepOfs, so)
		ms.cols = append(ms.cols, &nodeh.Collector{})
	}
	db := &nodeh.DB{Tables: map[string]*nodeh.Table{"t": {Fields: first.fields(), TimeField: -1, Source: func() execution.Node { return ms }}}}
	p, perr := nodeh.Plan(nodeh.Ctx(), first.sql(), db, nodeh.PlanOpts{Optimize: first.optimize, Output: "none"})
	if perr != nil {
		c.Violation("plan-error:"+perr.Stage, "a documented max_diff_watermark call was rejected: "+perr.Error(), first.replay(nil))
		return
	}
	for k, tc := range tcs {
		res := nodeh.RunNodeCtx(nodeh.Ctx(), p.Exec, ms.cols[k], nil, 30*time.Second)
		outs := ms.cols[k].Snapshot()
		replay := tc.replay(outs)
		replay["id"] = first.id
		replay["run_of_the_same_materialized_node"] = k + 1
		if k > 0 {
			replay["previous_run_times"] = tcs[k-1].replay(nil)["times"]
		}
		if res.TimedOut {
			c.Inconclusive("watchdog")
			return
		}
		if res.Panicked {
			c.Violation("panic:"+core.PanicSite(res.Stack), "max_diff_watermark panicked: "+res.PanicMsg, replay)
			return
		}
		if res.Err != nil {
			c.Violation("error", "max_diff_watermark returned error: "+res.Err.Error(), replay)
			return
		}
		if selftest && idx%4 == 1 && k == 1 && len(outs) > 0 {
			outs = outs[:len(outs)-1]
		}
		if msg := judge(tc, outs, reference(tc.times, tc.cfg, false)); msg != "" {
			key := "generator-mismatch"
			if k > 0 {
				key = "state-carried-over-between-runs"
				if judge(tc, outs, reference(tc.times, tc.cfg, true)) == "" && preEpochPredicate(tc) {
					key = "pre-epoch-rounding"
				}
			} else if preEpochPredicate(tc) && judge(tc, outs, reference(tc.times, tc.cfg, true)) == "" {
				key = "pre-epoch-rounding"
			}
			c.Violation(key, fmt.Sprintf("run %d of the same materialized node: %s", k+1, msg), replay)
			return
		}
		c.Count(fmt.Sprintf("rerun/run_%d_judged", k+1), 1)
	}
	c.Count("rerun/cases", 1)
	c.Nontrivial(fmt.Sprintf("rerun|%s|%d|%v", first.cfg, len(tcs), first.times))
	if idx%7 == 0 {
		r := first.replay(nil)
		r["runs"] = len(tcs)
		c.Sample(r)
	}
}

// SQL shapes that re-run a subplan: a scalar subquery evaluated per outer row and the right side of
// a LOOKUP JOIN evaluated per source row. Every evaluation must see the full stream.
func runShapes(c *core.Ctx, tc *tcase, idx int) {
	evs, _ := buildScript(tc)
	nOuter := 2 + idx%3
	var outer []nodeh.Event
	for k := 0; k < nOuter; k++ {
		outer = append(outer, nodeh.Rec([]octosql.Value{octosql.NewInt(int64(k))}, false, time.Time{}))
	}
	mk := func() *nodeh.DB {
		return &nodeh.DB{Tables: map[string]*nodeh.Table{
			"t": {Fields: tc.fields(), TimeField: -1, Events: evs},
			"o": {Fields: []physical.SchemaField{{Name: "k", Type: octosql.Int}}, TimeField: -1, NoRetractions: true, Events: outer},
		}}
	}
	tvf := strings.TrimPrefix(tc.sql(), "SELECT * FROM ")
	judgeShape := func(si int, outs []nodeh.Out, trunc bool) string {
		return shapesFor(tc, tvf, nOuter, trunc)[si].judge(outs)
	}
	shapes := shapesFor(tc, tvf, nOuter, false)
	runShapeList(c, tc, idx, nOuter, mk, shapes, judgeShape)
}

type sqlShape struct {
	name, sql string
	judge     func(outs []nodeh.Out) string
}

// shapesFor builds the three queries and their expectations from the reference (floor rounding, or
// the truncating variant used only to recognise the fixed finding pre-epoch-rounding).
func shapesFor(tc *tcase, tvf string, nOuter int, trunc bool) []sqlShape {
	want := reference(tc.times, tc.cfg, trunc)
	var passed []int64
	for i, s := range want {
		if s.pass {
			passed = append(passed, int64(i))
		}
	}
	type shape = sqlShape
	perOuter := func(outs []nodeh.Out, wantVal func(k int64) string) string {
		seen := map[int64]int{}
		for _, o := range outs {
			if o.IsWatermark {
				continue
			}
			r := o.Record
			if len(r.Values) != 2 || r.Values[0].TypeID != octosql.TypeIDInt {
				return "unexpected row " + o.String()
			}
			k := r.Values[0].Int
			seen[k]++
			if got := nodeh.ValKey(r.Values[1]); got != wantVal(k) {
				return fmt.Sprintf("outer row k=%d sees %s, the full stream gives %s", k, got, wantVal(k))
			}
		}
		for k := 0; k < nOuter; k++ {
			if seen[int64(k)] != 1 {
				return fmt.Sprintf("outer row k=%d appears %d times", k, seen[int64(k)])
			}
		}
		return ""
	}
	idList := "["
	for i, id := range passed {
		if i > 0 {
			idList += ","
		}
		idList += fmt.Sprintf("i%d", id)
	}
	idList += "]"
	shapes := []shape{
		{"scalar-subquery-count", "SELECT o.k, (SELECT count(*) FROM " + tvf + ") AS c FROM m.o o", func(outs []nodeh.Out) string {
			return perOuter(outs, func(int64) string { return fmt.Sprintf("[i%d]", len(passed)) })
		}},
		{"scalar-subquery-ids", "SELECT o.k, (SELECT x.id FROM " + tvf + ") AS c FROM m.o o", func(outs []nodeh.Out) string {
			return perOuter(outs, func(int64) string { return idList })
		}},
		{"lookup-join-right-side", "SELECT o.k, x.id FROM m.o o LOOKUP JOIN " + tvf + " ON x.id >= o.k", func(outs []nodeh.Out) string {
			got := nodeh.Multiset{}
			for _, o := range outs {
				if !o.IsWatermark {
					n := 1
					if o.Record.Retraction {
						n = -1
					}
					got.Add(nodeh.RowKey(o.Record.Values), n)
				}
			}
			wantM := nodeh.Multiset{}
			for k := 0; k < nOuter; k++ {
				for _, id := range passed {
					if id >= int64(k) {
						wantM.Add(fmt.Sprintf("i%d|i%d", k, id), 1)
					}
				}
			}
			if !got.Equal(wantM) {
				return fmt.Sprintf("join rows %s, want %s (got-want = %s)", got, wantM, got.Diff(wantM))
			}
			return ""
		}},
	}
	return shapes
}

func runShapeList(c *core.Ctx, tc *tcase, idx, nOuter int, mk func() *nodeh.DB, shapes []sqlShape, judgeShape func(si int, outs []nodeh.Out, trunc bool) string) {
	for si, sh := range shapes {
		c.Eval(1)
		replay := tc.replay(nil)
		replay["id"] = tc.id
		replay["sql"] = sh.sql
		replay["outer_rows"] = nOuter
		_, outs, res, perr := nodeh.RunSQL(nodeh.Ctx(), sh.sql, mk(), nodeh.PlanOpts{Optimize: tc.optimize, Output: "none"}, 30*time.Second)
		if perr != nil {
			key := "plan-error:" + perr.Stage
			if perr.Stage == "panic" {
				key = "panic:" + core.PanicSite(perr.Stack)
			}
			c.Violation(key, sh.name+": "+perr.Error(), replay)
			continue
		}
		replay["output"] = nodeh.OutsString(outs)
		if res.TimedOut {
			c.Inconclusive("watchdog")
			continue
		}
		if res.Panicked {
			c.Violation("panic:"+core.PanicSite(res.Stack), sh.name+" panicked: "+res.PanicMsg, replay)
			continue
		}
		if res.Err != nil {
			c.Violation("error", sh.name+" returned error: "+res.Err.Error(), replay)
			continue
		}
		if selftest && idx%4 == 1 && len(outs) > 0 {
			outs = outs[1:]
		}
		if msg := sh.judge(outs); msg != "" {
			key := "subplan-re-evaluation-sees-partial-stream"
			if preEpochPredicate(tc) && judgeShape(si, outs, true) == "" {
				key = "pre-epoch-rounding" // exactly the truncating generator, nothing else
			}
			c.Violation(key, sh.name+": "+msg, replay)
			continue
		}
		c.Count("shape/"+sh.name, 1)
		if len(tc.times) >= 3 {
			c.Nontrivial(fmt.Sprintf("shape|%d|%s|%v", si, tc.cfg, tc.times))
		}
		if idx%11 == 0 && si == 2 {
			c.Sample(replay)
		}
	}
}

func account(c *core.Ctx, tc *tcase, want []step, replay map[string]interface{}) {
	nPass, nDrop, nWM := 0, 0, 0
	// boundary coverage: a record exactly at the current watermark (must drop) / 1ns above it (must pass)
	{
		have := false
		var wm int64
		for i, s := range want {
			if have && tc.times[i] == wm {
				c.Count("boundary/record_time_equals_watermark(dropped)", 1)
			}
			if have && tc.times[i] == wm+1 {
				c.Count("boundary/record_time_1ns_above_watermark(passed)", 1)
			}
			if s.watermark {
				have, wm = true, s.wm
			}
		}
	}
	for _, s := range want {
		if s.pass {
			nPass++
		} else {
			nDrop++
		}
		if s.watermark {
			nWM++
		}
	}
	sorted := sort.SliceIsSorted(tc.times, func(i, j int) bool { return tc.times[i] < tc.times[j] })
	dup := false
	seen := map[int64]bool{}
	pre, post := false, false
	for _, t := range tc.times {
		if seen[t] {
			dup = true
		}
		seen[t] = true
		if t < 0 {
			pre = true
		} else {
			post = true
		}
	}
	c.Count("config/"+tc.cfg.String(), 1)
	c.Count("shape/"+tc.shape, 1)
	if nDrop > 0 {
		c.Count("with_dropped_record", 1)
	}
	c.Count("records_dropped_expected", nDrop)
	c.Count("records_passed_expected", nPass)
	c.Count("watermarks_expected", nWM)
	if !sorted {
		c.Count("out_of_order", 1)
	}
	if dup {
		c.Count("with_duplicate_time", 1)
	}
	if pre && post {
		c.Count("epoch/straddling", 1)
	} else if pre {
		c.Count("epoch/pre", 1)
	} else {
		c.Count("epoch/post", 1)
	}
	if preEpochPredicate(tc) {
		c.Count("pre_epoch_not_multiple_of_resolution", 1)
	}
	if tc.optimize {
		c.Count("optimized_plan", 1)
	}
	if len(tc.srcWMAt) > 0 {
		c.Count("with_source_watermarks", 1)
	}
	if len(tc.times) >= 3 && nWM >= 2 {
		c.Nontrivial(tc.cfg.String() + "|" + fmt.Sprint(tc.times) + fmt.Sprint(tc.retr))
	}
	c.Sample(replay)
}

// genTimes builds one time sequence. The step scale is tied to the configuration so that
// rounding boundaries are crossed and records fall both sides of the watermark.
func genCase(rng *rand.Rand, cfg config, ci, si int) *tcase {
	tc := &tcase{cfg: cfg, id: fmt.Sprintf("c%d-s%d", ci, si), srcWMAt: map[int]int64{}}
	tc.layout = rng.Intn(len(layouts))
	tc.optimize = rng.Intn(2) == 0
	tc.variant = rng.Intn(1000)
	n := 1 + rng.Intn(24)
	// base instant
	var base int64
	era := rng.Intn(5)
	switch era {
	case 0, 1:
		base = time.Date(2020, 1, 1, 0, 0, 0, 0, time.UTC).UnixNano() + rng.Int63n(3*hour)
	case 2:
		base = time.Date(1965, 3, 7, 11, 59, 0, 0, time.UTC).UnixNano() + rng.Int63n(3*hour)
	case 3: // straddling the epoch
		base = -rng.Int63n(2 * maxI(cfg.res(), sec) * 3)
	case 4: // pre-epoch close to the epoch
		base = -2*hour - rng.Int63n(hour)
	}
	gran := []int64{ns, sec}[rng.Intn(2)]
	if gran == sec {
		base = floorDiv(base, sec) * sec
	}
	// step scale: around the resolution or around max_diff
	scales := []int64{cfg.res(), maxI(cfg.maxDiff, 1), sec, 3 * cfg.res()}
	scale := scales[rng.Intn(len(scales))]
	if gran == sec && scale < sec {
		scale = sec
	}
	shape := rng.Intn(4)
	tc.shape = []string{"ascending", "shuffled", "bursty-with-duplicates", "random-walk"}[shape] + "/" + map[int64]string{ns: "ns", sec: "s"}[gran]
	times := make([]int64, n)
	cur := base
	for i := 0; i < n; i++ {
		switch shape {
		case 0, 1: // ascending steps (shuffled later for shape 1), occasional duplicate
			if i > 0 && rng.Intn(6) != 0 {
				cur += stepIn(rng, scale, gran)
			}
		case 2: // bursts of equal times, then a jump forward or a fall-back
			if i > 0 && rng.Intn(3) == 0 {
				if rng.Intn(4) == 0 {
					cur -= stepIn(rng, 2*scale, gran)
				} else {
					cur += stepIn(rng, 2*scale, gran)
				}
			}
		case 3: // random walk with drift
			if i > 0 {
				d := stepIn(rng, 2*scale, gran)
				if rng.Intn(3) == 0 {
					cur -= d
				} else {
					cur += d
				}
			}
		}
		times[i] = cur
	}
	if shape == 1 {
		// local shuffles: swap a few neighbours at distance <= 3
		for k := 0; k < n; k++ {
			i := rng.Intn(n)
			j := i + rng.Intn(4)
			if j < n {
				times[i], times[j] = times[j], times[i]
			}
		}
	}
	// exact multiples of the resolution and the instants 1ns around them
	for k := 0; k < n/4; k++ {
		i := rng.Intn(n)
		m := floorDiv(times[i], cfg.res()) * cfg.res()
		switch rng.Intn(3) {
		case 0:
			times[i] = m
		case 1:
			if gran == ns {
				times[i] = m - 1
			}
		case 2:
			if gran == ns {
				times[i] = m + cfg.res() - 1
			}
		}
	}
	tc.times = times
	tc.retr = make([]bool, n)
	tc.srcET = make([]int64, n)
	withRetr := rng.Intn(4) == 0
	withET := rng.Intn(3) == 0
	withWM := rng.Intn(4) == 0
	for i := range times {
		if withRetr && rng.Intn(4) == 0 {
			tc.retr[i] = true
		}
		if withET && rng.Intn(2) == 0 {
			tc.srcET[i] = times[i] - 17*sec // deliberately different from the time field
		}
		if withWM && rng.Intn(5) == 0 {
			tc.srcWMAt[i] = base - hour // a watermark of the source: must be replaced, not forwarded
		}
	}
	return tc
}

func stepIn(rng *rand.Rand, scale, gran int64) int64 {
	if scale < 1 {
		scale = 1
	}
	d := rng.Int63n(scale + 1)
	if rng.Intn(5) == 0 {
		d = scale
	}
	if gran == sec {
		d = (d + sec - 1) / sec * sec
	}
	return d
}

func maxI(a, b int64) int64 {
	if a > b {
		return a
	}
	return b
}

// ---------------------------------------------------------------------------------------------
// argument typechecking is real: calls that must be rejected before execution

func rejectionProbes(c *core.Ctx) {
	tc := &tcase{cfg: config{5 * sec, 0}, times: []int64{0}, retr: []bool{false}, srcET: []int64{0}}
	db := &nodeh.DB{Tables: map[string]*nodeh.Table{"t": {Fields: tc.fields(), TimeField: -1, Events: []nodeh.Event{nodeh.Rec(tc.row(0), false, time.Time{})}}}}
	bad := []struct{ name, sql string }{
		{"time_field-not-Time", "SELECT * FROM max_diff_watermark(source=>TABLE(m.t), max_diff=>INTERVAL 5 SECONDS, time_field=>DESCRIPTOR(id)) x"},
		{"time_field-unknown", "SELECT * FROM max_diff_watermark(source=>TABLE(m.t), max_diff=>INTERVAL 5 SECONDS, time_field=>DESCRIPTOR(nope)) x"},
		{"max_diff-not-Duration", "SELECT * FROM max_diff_watermark(source=>TABLE(m.t), max_diff=>5, time_field=>DESCRIPTOR(time)) x"},
		{"resolution-not-Duration", "SELECT * FROM max_diff_watermark(source=>TABLE(m.t), max_diff=>INTERVAL 5 SECONDS, time_field=>DESCRIPTOR(time), resolution=>'1s') x"},
		{"max_diff-missing", "SELECT * FROM max_diff_watermark(source=>TABLE(m.t), time_field=>DESCRIPTOR(time)) x"},
	}
	for _, b := range bad {
		c.Eval(1)
		_, perr := nodeh.Plan(nodeh.Ctx(), b.sql, db, nodeh.PlanOpts{Optimize: true, Output: "none"})
		switch {
		case perr == nil:
			c.Violation("ill-typed-call-accepted", "ill-typed call was planned: "+b.name, map[string]interface{}{"sql": b.sql})
		case perr.Stage == "panic":
			c.Violation("panic:"+core.PanicSite(perr.Stack), "ill-typed call panics outside typecheck: "+perr.Error(), map[string]interface{}{"sql": b.sql})
		default:
			c.Count("ill_typed_call_rejected/"+b.name, 1)
		}
	}
}

// ---------------------------------------------------------------------------------------------
// CLI leg: the same generator behind the real binary, JSON file in, stream_native out.
// stream_native prints record times with second precision, so this leg uses whole seconds.

func cliLeg(c *core.Ctx) {
	r := cli.NewRunner(c.BinDir, c.Scratch)
	rng := c.Rng("cli")
	n := c.Pick(24, 400)
	type job struct {
		tc *tcase
	}
	var jobs []job
	cliCfgs := []config{{0, 0}, {5 * sec, 0}, {hour, 7 * sec}, {5 * sec, min}, {0, 7 * sec}, {hour, 0}}
	for i := 0; i < n; i++ {
		cfg := cliCfgs[i%len(cliCfgs)]
		var tc *tcase
		for tries := 0; tries < 50; tries++ {
			tc = genCase(rng, cfg, 100+i%len(cliCfgs), i)
			if strings.HasSuffix(tc.shape, "/s") {
				break
			}
		}
		if !strings.HasSuffix(tc.shape, "/s") {
			continue
		}
		tc.id = fmt.Sprintf("cli-%d", i)
		tc.layout = 0
		for k := range tc.retr {
			tc.retr[k] = false
			tc.srcET[k] = 0
		}
		tc.srcWMAt = map[int]int64{}
		jobs = append(jobs, job{tc})
	}
	core.Parallel(len(jobs), 16, func(i int) {
		tc := jobs[i].tc
		if c.Only != "" && c.Only != tc.id {
			return
		}
		c.Eval(1)
		var sb strings.Builder
		for k, t := range tc.times {
			line, _ := json.Marshal(map[string]interface{}{"id": k, "time": utc(t).Format(time.RFC3339Nano)})
			sb.Write(line)
			sb.WriteByte('\n')
		}
		sql := strings.Replace(tc.sql(), "TABLE(m.t)", "TABLE(t.json)", 1)
		args := []string{sql, "-o", "stream_native"}
		if !tc.optimize {
			args = append(args, "--optimize=false")
		}
		res := r.Exec(cli.Run{Args: args, Files: map[string][]byte{"t.json": []byte(sb.String())}})
		replay := tc.replay(nil)
		replay["sql"] = sql
		replay["t.json"] = sb.String()
		replay["stdout"] = string(res.Stdout)
		replay["stderr"] = string(res.Stderr)
		if res.TimedOut {
			c.Inconclusive("watchdog")
			return
		}
		if res.Panicked() {
			site, msg := res.PanicSite()
			c.Violation("panic:"+site, "octosql crashed: "+msg, replay)
			return
		}
		if res.Exit != 0 {
			c.Violation("cli-error", fmt.Sprintf("octosql exit %d: %s", res.Exit, firstLine(res.Stderr)), replay)
			return
		}
		recs, err := cli.DecodeStreamNative(res.Stdout)
		if err != nil {
			c.Violation("cli-undecodable", err.Error(), replay)
			return
		}
		type obs struct {
			wm       bool
			t        int64
			id       int
			et       int64
			retr     bool
			rawStart string
		}
		var seq []obs
		for _, nr := range recs {
			if nr.IsWatermark {
				w, err := time.Parse("2006-01-02 15:04:05.999999999 -0700 MST", nr.Watermark)
				if err != nil {
					c.Violation("cli-undecodable", "watermark "+nr.Watermark+": "+err.Error(), replay)
					return
				}
				seq = append(seq, obs{wm: true, t: w.UnixNano()})
				continue
			}
			if len(nr.Cells) != 2 {
				c.Violation("cli-undecodable", "record with "+fmt.Sprint(len(nr.Cells))+" cells: "+nr.Raw, replay)
				return
			}
			var id int
			if _, err := fmt.Sscanf(nr.Cells[0], "%d", &id); err != nil || id < 0 || id >= len(tc.times) {
				c.Violation("cli-undecodable", "bad id cell: "+nr.Raw, replay)
				return
			}
			et, err1 := time.Parse(time.RFC3339, nr.EventTime)
			tf, err2 := time.Parse(time.RFC3339, nr.Cells[1])
			if err1 != nil || err2 != nil {
				c.Violation("cli-undecodable", "bad time in "+nr.Raw, replay)
				return
			}
			seq = append(seq, obs{id: id, t: tf.UnixNano(), et: et.UnixNano(), retr: nr.Retraction})
		}
		if selftest && i%4 == 1 && len(seq) > 1 {
			seq = seq[:len(seq)-1]
		}
		// flat judgement (the CLI output has no step markers): the records printed are exactly the
		// expected ones in input order, unchanged and with event time == time field; the
		// watermarks printed are exactly the expected ones in order; and each record is printed
		// after the watermarks of all earlier inputs (and possibly after its own, if that does
		// not make it late).
		judgeFlat := func(want []step) string {
			var wantRecs []int
			var wantWMs []int64
			for k, s := range want {
				if s.pass {
					wantRecs = append(wantRecs, k)
				}
				if s.watermark {
					wantWMs = append(wantWMs, s.wm)
				}
			}
			ri, wi := 0, 0
			for _, o := range seq {
				if o.wm {
					if wi >= len(wantWMs) {
						return fmt.Sprintf("surplus watermark %s", fmtNs(o.t))
					}
					if o.t != wantWMs[wi] {
						return fmt.Sprintf("watermark #%d is %s, want %s", wi, fmtNs(o.t), fmtNs(wantWMs[wi]))
					}
					wi++
					continue
				}
				if ri >= len(wantRecs) {
					return fmt.Sprintf("surplus record id=%d (should have been dropped)", o.id)
				}
				if o.id != wantRecs[ri] {
					return fmt.Sprintf("record #%d printed is id=%d, want id=%d (passed/dropped set differs)", ri, o.id, wantRecs[ri])
				}
				if o.retr || o.t != tc.times[o.id] || o.et != tc.times[o.id] {
					return fmt.Sprintf("record id=%d altered: time %s event time %s, want both %s", o.id, fmtNs(o.t), fmtNs(o.et), fmtNs(tc.times[o.id]))
				}
				before := 0
				for k := 0; k < o.id; k++ {
					if want[k].watermark {
						before++
					}
				}
				if !(wi == before || (wi == before+1 && want[o.id].watermark && tc.times[o.id] > want[o.id].wm)) {
					return fmt.Sprintf("record id=%d printed after %d watermarks, want %d", o.id, wi, before)
				}
				ri++
			}
			if ri != len(wantRecs) {
				return fmt.Sprintf("%d records printed, want %d (id=%d missing)", ri, len(wantRecs), wantRecs[ri])
			}
			if wi != len(wantWMs) {
				return fmt.Sprintf("%d watermarks printed, want %d", wi, len(wantWMs))
			}
			return ""
		}
		want := reference(tc.times, tc.cfg, false)
		if msg := judgeFlat(want); msg != "" {
			key := "generator-mismatch"
			if preEpochPredicate(tc) && judgeFlat(reference(tc.times, tc.cfg, true)) == "" {
				key = "pre-epoch-rounding"
			}
			c.Violation(key, "CLI: "+msg, replay)
		}
		c.Count("cli_runs", 1)
		if len(tc.times) >= 3 {
			c.Nontrivial("cli|" + tc.cfg.String() + fmt.Sprint(tc.times))
		}
	})
}

func firstLine(b []byte) string {
	s := string(b)
	if i := strings.IndexByte(s, '\n'); i >= 0 {
		s = s[:i]
	}
	return s
}

// ---------------------------------------------------------------------------------------------

func Run(c *core.Ctx) core.FinishOpts {
	perCfg := c.Pick(50, 4000)
	var jobs []*tcase
	for ci, cfg := range configs {
		rng := c.Rng(fmt.Sprintf("cfg-%d", ci))
		for si := 0; si < perCfg; si++ {
			jobs = append(jobs, genCase(rng, cfg, ci, si))
		}
	}
	core.Parallel(len(jobs), 16, func(i int) {
		if c.Only != "" && c.Only != jobs[i].id {
			return
		}
		runCase(c, jobs[i], i)
	})
	// the same materialized node run 2-3 times, and SQL shapes that re-evaluate the TVF as a subplan
	nRe := c.Pick(10, 200)
	type rerunJob struct{ tcs []*tcase }
	var reruns []rerunJob
	var shapeJobs []*tcase
	for ci, cfg := range configs {
		rng := c.Rng(fmt.Sprintf("rerun-%d", ci))
		for si := 0; si < nRe; si++ {
			first := genCase(rng, cfg, ci, si)
			first.id = fmt.Sprintf("rerun-c%d-s%d", ci, si)
			tcs := []*tcase{first}
			for r := 1; r < 2+si%2; r++ {
				var next *tcase
				if rng.Intn(2) == 0 {
					cp := *first // the very same script again
					next = &cp
				} else {
					next = genCase(rng, cfg, ci, si)
					next.layout, next.variant, next.optimize = first.layout, first.variant, first.optimize
				}
				tcs = append(tcs, next)
			}
			reruns = append(reruns, rerunJob{tcs})
			sh := genCase(rng, cfg, ci, si)
			sh.id = fmt.Sprintf("shape-c%d-s%d", ci, si)
			for k := range sh.retr {
				sh.retr[k] = false
			}
			sh.srcWMAt = map[int]int64{}
			if si < (nRe*6+9)/10 {
				shapeJobs = append(shapeJobs, sh)
			}
		}
	}
	core.Parallel(len(reruns), 16, func(i int) {
		if c.Only != "" && c.Only != reruns[i].tcs[0].id {
			return
		}
		runRerun(c, reruns[i].tcs, i)
	})
	core.Parallel(len(shapeJobs), 16, func(i int) {
		if c.Only != "" && c.Only != shapeJobs[i].id {
			return
		}
		runShapes(c, shapeJobs[i], i)
	})
	if c.Only == "" {
		rejectionProbes(c)
	}
	if c.Only == "" || strings.HasPrefix(c.Only, "cli-") {
		cliLeg(c)
	}
	c.Note("configurations", len(configs))
	c.Note("sequences_per_configuration", perCfg)
	return core.FinishOpts{
		Level: "exploration",
		Rule: "16 configurations (max_diff {0,1ns,5s,1h} x resolution {1ns, omitted, 7s, 1min}) x seeded time sequences (ascending, locally shuffled, bursts of duplicates, random walk; " +
			"ns or s granularity; post-epoch, pre-epoch, straddling the epoch; instants on and 1ns around multiples of the resolution; optional retractions, source event times and source watermarks), " +
			"run as real SQL over a memdb table with and without the optimizer, plus a CLI leg over JSON files; plus the same materialized node run 2-3 times (same or different script) and the TVF re-evaluated as a subplan (scalar subquery per outer row, right side of a LOOKUP JOIN); non-trivial = at least 3 records and 2 expected watermarks; distinct by configuration and time sequence",
		Floor: c.Pick(400, 30000),
		Assumptions: []string{
			"oracle: own step-by-step reference in int64 Unix-nanosecond arithmetic with floor division",
			"outputs are attributed to input steps by a counter the scripted source advances after each pushed event (the TVF is synchronous)",
			"CLI leg: stream_native prints record times with second precision, so it uses whole-second times",
		},
	}
}

package c27

import (
	"fmt"
	"strings"
)

// P5 "the interrupted command can be re-run". The property says that after a crash at any point
// later octosql invocations still start and every configured database still resolves to a fully
// installed, runnable version. A retry of the interrupted `plugin install ...` / `plugin
// repository add ...` is such a later invocation, and it is the only way the states the known
// findings describe (a half-installed version directory) get repaired. So after every fault the
// SAME command is re-run without fault injection in the crashed HOME: it must exit 0, and
// afterwards P1-P4 must hold, every configured database resolving to a fully installed, runnable
// version — the new one where the action installs one for the configured plugin.

// countOnlyRetry: (scenario, point) pairs at which the UNCHANGED tree fails P5; reported to the
// lead, counted, not judged (empty: the unchanged tree passes P5 everywhere).
var countOnlyRetry = map[string]bool{}

// stateAfterCompletion is what the probes must see once the command has completed.
func stateAfterCompletion(sc scenario) state {
	st := stateInfo(sc.start)
	if sc.target == "" {
		return st // repository add installs nothing
	}
	// any install registers the extension
	st.handler = true
	if sc.target == pluginName {
		// start-up resolves the unconstrained database to the highest installed version
		top := sc.newVersion
		for _, v := range st.installed {
			if v > top { // versions here are 1.0.0 / 2.0.0
				top = v
			}
		}
		st.installed = []string{top}
	} else if len(st.installed) > 0 {
		top := st.installed[0]
		for _, v := range st.installed {
			if v > top {
				top = v
			}
		}
		st.installed = []string{top}
	}
	return st
}

func (h *harness) retryProbe(sc scenario, f fault, id, home string) {
	c := h.c
	c.Eval(1)
	c.Count("retry/runs", 1)
	res := h.run(home, sc.args, nil, nil)
	replay := map[string]interface{}{"id": id + "/retry", "scenario": sc.name, "start_state": sc.start, "command": sc.args, "crashed_at": f.Spec,
		"retry_exit": res.Exit, "retry_stdout": tail(string(res.Stdout), 300), "retry_stderr": lastLines(string(res.Stderr), 3)}
	countOnly := countOnlyRetry[sc.name+"|"+f.Point]
	if res.TimedOut {
		c.Inconclusive("watchdog")
		return
	}
	if res.Exit != 0 {
		c.Count("retry/failed/"+f.Point, 1)
		if !countOnly {
			c.Violation("retry-fails:"+f.Point, fmt.Sprintf("scenario %s: after the crash at %s the same command (%s) cannot be re-run: exit %d: %s", sc.name, f.Spec, strings.Join(sc.args, " "), res.Exit, lastLines(string(res.Stderr), 2)), replay)
		}
		return
	}
	st := stateAfterCompletion(sc)
	fails := h.probe(home, st, "", "")
	if sc.target == pluginName && len(fails) == 0 {
		// the database must now run the version the action installs if that is the highest one
		// (probe accepts st.installed or the new version; st.installed already is the expectation)
		c.Count("retry/database_on_expected_version", 1)
	}
	if damage := previousVersionsDamage(h.tmpl[sc.start], home, sc); len(damage) > 0 {
		c.Violation("previous-version-damaged:retry:"+f.Point, fmt.Sprintf("scenario %s: the retry after the crash at %s changed versions that are not being (re)installed: %v", sc.name, f.Spec, damage), replay)
		return
	}
	if len(fails) > 0 {
		c.Count("retry/leaves_broken/"+f.Point, 1)
		if !countOnly {
			probes := []string{}
			what := ""
			for _, pf := range fails {
				probes = append(probes, pf.Probe)
				what += fmt.Sprintf("[%s: %s — %s] ", pf.Probe, pf.Why, pf.Stderr)
			}
			replay["failed_probes"] = fails
			replay["home_listing"] = listing(home)
			c.Violation("retry-leaves-broken:"+f.Point+":"+strings.Join(probes, "+"), fmt.Sprintf("scenario %s: the command was re-run successfully after the crash at %s, yet: %s", sc.name, f.Spec, what), replay)
		}
		return
	}
	c.Count("retry/repaired/"+f.Point, 1)
}

package c27

import (
	"bytes"
	"crypto/sha256"
	"fmt"
	"io"
	"io/fs"
	"os"
	"path/filepath"
	"sort"
	"strings"
)

// What the command (re)installs: (plugin name, version) pairs. Everything else that was installed
// before the action must be byte-identical afterwards, crash or no crash.
func installing(sc scenario) [][2]string {
	var out [][2]string
	if sc.target != "" {
		out = append(out, [2]string{sc.target, sc.newVersion})
	}
	if sc.name == "S1-install-two-plugins" {
		out = append(out, [2]string{otherName, "1.0.0"})
	}
	return out
}

func pluginsDir(home string) string { return filepath.Join(home, "plugins-dir") }

func fileHash(p string) (string, error) {
	f, err := os.Open(p)
	if err != nil {
		return "", err
	}
	defer f.Close()
	h := sha256.New()
	if _, err := io.Copy(h, f); err != nil {
		return "", err
	}
	return fmt.Sprintf("%x", h.Sum(nil)), nil
}

// sameBytes: cheap for the hard-linked 16 MB binaries (same inode, so the bytes are those of the
// template unless somebody wrote in place, which size/mtime would show), hash otherwise.
func sameBytes(a, b string) bool {
	ia, err1 := os.Stat(a)
	ib, err2 := os.Stat(b)
	if err1 != nil || err2 != nil || ia.Size() != ib.Size() || !ia.Mode().IsRegular() || !ib.Mode().IsRegular() {
		return false
	}
	if os.SameFile(ia, ib) {
		return true
	}
	ha, err1 := fileHash(a)
	hb, err2 := fileHash(b)
	return err1 == nil && err2 == nil && ha == hb
}

// previousVersionsDamage is the post-action invariant: every version directory that exists in the
// start state (tmplHome) and is not one being (re)installed must have the same file set and the
// same bytes in home. It returns one line per difference.
func previousVersionsDamage(tmplHome, home string, sc scenario) []string {
	skip := map[string]bool{}
	for _, in := range installing(sc) {
		skip["octosql-plugin-"+in[0]+"/"+in[1]] = true
	}
	var damage []string
	root := pluginsDir(tmplHome)
	repos, _ := os.ReadDir(root)
	for _, repo := range repos {
		plugs, _ := os.ReadDir(filepath.Join(root, repo.Name()))
		for _, plug := range plugs {
			versions, _ := os.ReadDir(filepath.Join(root, repo.Name(), plug.Name()))
			for _, v := range versions {
				if skip[plug.Name()+"/"+v.Name()] {
					continue
				}
				rel := filepath.Join(repo.Name(), plug.Name(), v.Name())
				before, after := filepath.Join(root, rel), filepath.Join(pluginsDir(home), rel)
				if _, err := os.Stat(after); err != nil {
					damage = append(damage, rel+": version directory is gone")
					continue
				}
				seen := map[string]bool{}
				_ = filepath.WalkDir(before, func(p string, d fs.DirEntry, err error) error {
					if err != nil || d.IsDir() {
						return nil
					}
					r, _ := filepath.Rel(before, p)
					seen[r] = true
					if !sameBytes(p, filepath.Join(after, r)) {
						damage = append(damage, filepath.Join(rel, r)+": missing or content changed")
					}
					return nil
				})
				_ = filepath.WalkDir(after, func(p string, d fs.DirEntry, err error) error {
					if err != nil || d.IsDir() {
						return nil
					}
					if r, _ := filepath.Rel(after, p); !seen[r] {
						damage = append(damage, filepath.Join(rel, r)+": file appeared")
					}
					return nil
				})
			}
		}
	}
	sort.Strings(damage)
	return damage
}

// newDirState describes the version directory being (re)installed for the configured plugin after
// the crash: "absent", "complete" (binary there with the bytes of the served one) or "incomplete".
func newDirState(home string, sc scenario, servedBinary []byte) (state string, binaryPresent bool) {
	dir := filepath.Join(pluginsDir(home), "core", "octosql-plugin-"+sc.target, sc.newVersion)
	if _, err := os.Stat(dir); err != nil {
		return "absent", false
	}
	bin := filepath.Join(dir, "octosql-plugin-"+sc.target)
	info, err := os.Stat(bin)
	if err != nil {
		return "incomplete", false
	}
	if info.Size() != int64(len(servedBinary)) {
		return "incomplete", true
	}
	data, err := os.ReadFile(bin)
	if err != nil || !bytes.Equal(data, servedBinary) {
		return "incomplete", true
	}
	return "complete", true
}

var inPlacePoints = map[string]bool{
	"install.after_removeall": true, "install.after_mkdirall": true, "install.archive_created": true,
	"install.archive_written": true, "install.archive_closed": true, "install.after_unarchive": true,
}

// classify: finding key from the scenario and crash point (input), the state left on disk and the
// failing probes (symptom). The install-inplace-version-dir:<point> keys mean exactly: the version
// directory BEING (re)installed is emptied / created / filled in place, it is absent or incomplete
// after the crash, everything installed before and not being reinstalled is untouched, and every
// failing probe fails because start-up picked (or lost) exactly that directory.
func classify(sc scenario, f fault, fails []probeFail, st state, damage []string, dirState string, binaryPresent bool) string {
	all := ""
	for _, pf := range fails {
		all += pf.Stderr + "\n"
	}
	probes := []string{}
	for _, pf := range fails {
		probes = append(probes, pf.Probe)
	}
	generic := "crash-breaks:" + f.Point + ":" + strings.Join(probes, "+")
	if len(damage) > 0 {
		return "previous-version-damaged:" + f.Point
	}
	switch {
	case f.Point == "extensions.before_write" && f.Torn >= 0 && strings.Contains(all, "couldn't json-decode file extension handlers file"):
		return "torn-registry:file_extension_handlers.json"
	case f.Point == "repo.before_write" && f.Torn >= 0 && strings.Contains(all, "couldn't decode plugin repository file"):
		return "torn-registry:repositories"
	}
	if !inPlacePoints[f.Point] || sc.target != pluginName || dirState == "complete" {
		return generic
	}
	reinstall := false
	highest := true
	for _, v := range st.installed {
		if v == sc.newVersion {
			reinstall = true
		}
		if v > sc.newVersion { // versions here are 1.0.0 / 2.0.0
			highest = false
		}
	}
	// after_removeall harms only when an installed version is being reinstalled (its working copy
	// has just been deleted); when a new version is installed nothing existed to remove
	if f.Point == "install.after_removeall" && !reinstall {
		return generic
	}
	// start-up picks the directory being installed only if it is the highest one
	if !highest {
		return generic
	}
	for _, pf := range fails {
		e := pf.Stderr
		switch {
		case strings.Contains(e, fmt.Sprintf("version '%s' is not installed", sc.newVersion)):
			// resolved to the directory being installed, which has no binary
			if binaryPresent {
				return generic
			}
		case strings.Contains(e, "is not installed with the required version"):
			// no version directory left at all: only when the sole installed version is being reinstalled
			if !(reinstall && dirState == "absent" && len(st.installed) == 1) {
				return generic
			}
		case strings.Contains(e, "plugin exited prematurely") || strings.Contains(e, "exec format error") || strings.Contains(e, "couldn't start plugin"):
			// resolved to the directory being installed, whose binary is truncated
			if !(dirState == "incomplete" && binaryPresent) {
				return generic
			}
		default:
			return generic
		}
	}
	return "install-inplace-version-dir:" + f.Point
}

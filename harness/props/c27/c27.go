// Package c27: plugin installation survives a crash at any point (fault enumeration).
//
// Restated: for every instrumented file-system step of `octosql plugin install` and
// `octosql plugin repository add`, and every (tier-dependent) prefix length of every file they
// write, killing the process there leaves a state in which later octosql invocations still start
// and every configured database still resolves to a fully installed, runnable plugin version.
// R: after the crash, a probe fails.
// O: probes with the real binary in the crashed HOME: (1) `octosql "SELECT 1"` exits 0; (2) for
// every database in octosql.yml `SELECT * FROM <db>.version` succeeds and reports a version that
// was fully installed before, or the new one; (3) a file with a plugin-registered extension is
// still readable through the registered handler; (4) `plugins.repositories` still answers; (5) the
// interrupted command can be re-run without fault: it exits 0 and afterwards (1)-(4) hold with
// every database on a fully installed version (a retry is a "later octosql invocation", and the
// only way a half-installed state gets repaired).
// W: the octosql binary built with -tags verif (crash hooks), a loopback HTTP server playing
// repository + manifest + download host for the real test plugin binary; start states x actions;
// a traced run lists the hook points, then EVERY (point, hit) is crashed once and every torn
// prefix in {0, 1, half, len-1} (thorough: every prefix of the registry files, a dense sample of
// the multi-megabyte archive and binary).
package c27

import (
	"bufio"
	"compress/gzip"
	"fmt"
	"io/fs"
	"os"
	"os/exec"
	"path/filepath"
	"sort"
	"strconv"
	"strings"
	"sync"
	"time"

	"github.com/cube2222/octosql/plugins/verifharness/cli"
	"github.com/cube2222/octosql/plugins/verifharness/core"
	"github.com/cube2222/octosql/plugins/verifharness/plugtest"
)

func init() { core.Register("C27", Run) }

var selftest = os.Getenv("VERIF_SELFTEST") == "1"

const pluginName = "testplugin"
const otherName = "other"
const ext = "tpx"

type scenario struct {
	name  string
	start string   // S0 | S1 | S2
	args  []string // the command that gets crashed
	// newVersion is the version the command installs for plugin `target` ("" for repository add)
	target     string
	newVersion string
}

type harness struct {
	c        *core.Ctx
	r        *cli.Runner
	srv      *plugtest.Server
	sockDir  string
	archives map[string][]byte // plugin name -> tar.gz
	binary   []byte            // the served plugin binary
	tmpl     map[string]string // start state -> template HOME
}

func (h *harness) env(home string) []string {
	return []string{
		"OCTOSQL_PLUGIN_DIR=" + filepath.Join(home, "plugins-dir"),
		"OCTOSQL_PLUGIN_TMP_DIR=" + h.sockDir,
		"OCTOSQL_PLUGIN_REPOSITORY_OFFICIAL_URL=" + h.srv.RepoURL("official"),
	}
}

// cloneHome copies a template HOME: big files (plugin binaries) are hard-linked — nothing octosql
// does writes into an existing binary in place — small files (registries, config) are copied,
// because os.WriteFile truncates the existing inode.
func cloneHome(src, dst string) error {
	return filepath.WalkDir(src, func(p string, d fs.DirEntry, err error) error {
		if err != nil {
			return err
		}
		rel, _ := filepath.Rel(src, p)
		target := filepath.Join(dst, rel)
		if d.IsDir() {
			return os.MkdirAll(target, 0o755)
		}
		info, err := d.Info()
		if err != nil {
			return err
		}
		if !info.Mode().IsRegular() {
			return nil
		}
		if info.Size() > 1<<20 {
			if err := os.Link(p, target); err == nil {
				return nil
			}
		}
		return plugtest.CopyFile(p, target, info.Mode().Perm())
	})
}

func (h *harness) run(home string, args []string, extraEnv []string, files map[string][]byte) cli.Result {
	return h.r.Exec(cli.Run{Args: args, Home: home, Env: append(h.env(home), extraEnv...), Files: files, Timeout: 90 * time.Second})
}

const configYML = "databases:\n  - name: db\n    type: testplugin\n"

func (h *harness) buildTemplates() error {
	h.tmpl = map[string]string{}
	// S0: nothing installed, nothing configured
	s0 := h.r.NewHome()
	if err := os.MkdirAll(filepath.Join(s0, ".octosql"), 0o755); err != nil {
		return err
	}
	h.tmpl["S0"] = s0
	// S1: 1.0.0 installed by the real installer, database configured
	s1 := h.r.NewHome()
	if res := h.run(s1, []string{"plugin", "install", pluginName + "@1.0.0"}, nil, nil); res.Exit != 0 {
		return fmt.Errorf("template S1: install failed: %s", tail(string(res.Stderr), 400))
	}
	if err := os.WriteFile(filepath.Join(s1, ".octosql", "octosql.yml"), []byte(configYML), 0o644); err != nil {
		return err
	}
	h.tmpl["S1"] = s1
	// S2: 1.0.0 and 2.0.0 installed
	s2 := h.r.NewHome()
	if err := cloneHome(s1, s2); err != nil {
		return err
	}
	if res := h.run(s2, []string{"plugin", "install", pluginName + "@2.0.0"}, nil, nil); res.Exit != 0 {
		return fmt.Errorf("template S2: install failed: %s", tail(string(res.Stderr), 400))
	}
	h.tmpl["S2"] = s2
	// sanity: the templates themselves pass the probes
	for _, s := range []string{"S0", "S1", "S2"} {
		home := h.r.NewHome()
		if err := cloneHome(h.tmpl[s], home); err != nil {
			return err
		}
		if fails := h.probe(home, stateInfo(s), "", ""); len(fails) > 0 {
			return fmt.Errorf("template %s does not pass the probes: %v", s, fails)
		}
		_ = os.RemoveAll(home)
	}
	return nil
}

type state struct {
	configured bool     // octosql.yml has database db of type testplugin
	installed  []string // fully installed versions of testplugin before the action
	handler    bool     // extension tpx registered before the action
}

func stateInfo(s string) state {
	switch s {
	case "S1":
		return state{configured: true, installed: []string{"1.0.0"}, handler: true}
	case "S2":
		return state{configured: true, installed: []string{"1.0.0", "2.0.0"}, handler: true}
	}
	return state{}
}

type probeFail struct {
	Probe  string `json:"probe"`
	Query  string `json:"query"`
	Exit   int    `json:"exit"`
	Stdout string `json:"stdout"`
	Stderr string `json:"stderr"`
	Why    string `json:"why"`
}

// probe runs the oracle's probes in home. target/newVersion: what the interrupted command was
// installing (a database may legitimately answer with the new version if it runs).
func (h *harness) probe(home string, st state, target, newVersion string) []probeFail {
	var fails []probeFail
	add := func(probe, query string, res cli.Result, why string) {
		fails = append(fails, probeFail{Probe: probe, Query: query, Exit: res.Exit, Stdout: tail(string(res.Stdout), 300), Stderr: lastLines(string(res.Stderr), 2), Why: why})
	}
	// (1) octosql still starts
	q := "SELECT 1"
	res := h.run(home, []string{q, "-o", "json"}, nil, nil)
	if res.TimedOut {
		add("P1-start", q, res, "timed out")
	} else if res.Exit != 0 {
		add("P1-start", q, res, "octosql does not start any more")
	}
	// (2) every configured database resolves to a fully installed, runnable version
	if st.configured {
		q := "SELECT version, name FROM db.version"
		res := h.run(home, []string{q, "-o", "json"}, nil, nil)
		switch {
		case res.Exit != 0:
			add("P2-database", q, res, "the configured database does not answer")
		default:
			rows, err := cli.DecodeJSONLines(res.Stdout)
			if err != nil || len(rows) != 1 {
				add("P2-database", q, res, "unexpected output")
				break
			}
			v := fmt.Sprint(rows[0].Values["version"])
			ok := false
			for _, iv := range st.installed {
				if iv == v {
					ok = true
				}
			}
			if target == pluginName && v == newVersion {
				ok = true
			}
			if !ok {
				add("P2-database", q, res, fmt.Sprintf("resolved to version %s, which was neither installed before (%v) nor is the new one (%s)", v, st.installed, newVersion))
			}
		}
	}
	// (3) a file with the registered extension is readable through the handler
	if st.handler {
		q := "SELECT a FROM f." + ext
		res := h.run(home, []string{q, "-o", "json"}, nil, map[string][]byte{"f." + ext: []byte("{\"a\":1}\n{\"a\":2}\n")})
		if res.Exit != 0 {
			add("P3-extension", q, res, "a file with the plugin-registered extension cannot be read any more")
		} else if rows, err := cli.DecodeJSONLines(res.Stdout); err != nil || len(rows) != 2 {
			add("P3-extension", q, res, "unexpected output")
		}
	}
	// (4) the repository list still answers
	{
		q := "SELECT slug FROM plugins.repositories"
		res := h.run(home, []string{q, "-o", "json"}, nil, nil)
		if res.Exit != 0 {
			add("P4-repositories", q, res, "plugins.repositories does not answer")
		}
	}
	return fails
}

// ---------------------------------------------------------------------------------------------

type tracePoint struct {
	Name string
	Hit  int
	Kind string // point | before_write | after_write
	Size int
	Path string
}

func readTrace(path string) ([]tracePoint, error) {
	f, err := os.Open(path)
	if err != nil {
		return nil, err
	}
	defer f.Close()
	hits := map[string]int{}
	var out []tracePoint
	sc := bufio.NewScanner(f)
	for sc.Scan() {
		parts := strings.Split(sc.Text(), "\t")
		if parts[0] == "" {
			continue
		}
		hits[parts[0]]++
		tp := tracePoint{Name: parts[0], Hit: hits[parts[0]], Kind: "point"}
		if len(parts) >= 4 {
			tp.Kind = parts[1]
			tp.Size, _ = strconv.Atoi(parts[2])
			tp.Path = parts[3]
		}
		out = append(out, tp)
	}
	return out, sc.Err()
}

type fault struct {
	Spec  string // VERIF_CRASH_AT value
	Point string
	Torn  int // -1 = plain crash
	Size  int
	File  string // base name of the written file for torn faults
}

func prefixes(size int, thorough bool, small bool) []int {
	set := map[int]bool{}
	for _, p := range []int{0, 1, size / 2, size - 1} {
		if p >= 0 && p < size {
			set[p] = true
		}
	}
	if thorough {
		if small {
			for p := 0; p < size; p++ {
				set[p] = true
			}
		} else {
			for p := 0; p < 16 && p < size; p++ {
				set[p] = true
				set[size-1-p] = true
			}
			for k := 1; k < 64; k++ {
				set[int(int64(size)*int64(k)/64)] = true
			}
			for _, p := range []int{511, 512, 513, 4095, 4096, 4097, 65535, 65536, 1 << 20} {
				if p < size {
					set[p] = true
				}
			}
		}
	}
	out := make([]int, 0, len(set))
	for p := range set {
		out = append(out, p)
	}
	sort.Ints(out)
	return out
}

func faultsFor(trace []tracePoint, thorough bool) []fault {
	var out []fault
	for _, tp := range trace {
		out = append(out, fault{Spec: fmt.Sprintf("%s#%d", tp.Name, tp.Hit), Point: tp.Name, Torn: -1})
		if tp.Kind == "point" || tp.Size <= 0 {
			continue
		}
		for _, p := range prefixes(tp.Size, thorough, tp.Size < 4096) {
			out = append(out, fault{Spec: fmt.Sprintf("%s#%d@%d", tp.Name, tp.Hit, p), Point: tp.Name, Torn: p, Size: tp.Size, File: filepath.Base(tp.Path)})
		}
	}
	return out
}

// classify: finding key from the crash point (input) and the failing probes (symptom).
func Run(c *core.Ctx) core.FinishOpts {
	opts := core.FinishOpts{
		Level: "fault_enumeration",
		Rule: "faults = every (hook point, hit index) reached by a traced run of each scenario, crashed once, plus torn writes of every file written at a BeforeWrite/AfterWrite point at prefix lengths {0,1,half,len-1} " +
			"(thorough: every prefix of the small registry files, 16 bytes at each end + 64 evenly spaced + block boundaries of the archive and the extracted binary); scenarios = start state (nothing / v1 installed+configured / v1+v2) x action " +
			"(install new version, reinstall same version, install a second plugin claiming a registered extension, repository add); after every fault the probes P1-P4 run in the crashed HOME, then P5: the same command is re-run without fault, must exit 0 and leave P1-P4 holding (a retry is a later invocation in the sense of the property and the only repair of a half-installed state); after every fault (and every completed run) additionally: all version directories installed before and not being (re)installed are byte-identical; non-trivial = the fault was injected (exit 137) and the probes ran; distinct by scenario+fault",
		Floor:      c.Pick(80, 600),
		Exhaustive: true,
		Assumptions: []string{
			"crash model: process killed at the hook points of -tags verif builds (plugins/manager, plugins/repository); a torn write is emulated by writing / truncating to a prefix at the write's hook point; no power-loss reordering (fsync) is modelled",
			"file-system steps between two hook points are atomic system calls (RemoveAll of a one-file directory, MkdirAll, Create, Remove), except the archive download and the unarchive, whose intermediate states are the torn prefixes",
			"probes use the same octosql binary without crash environment",
		},
	}
	h := &harness{c: c, r: cli.NewRunner(c.BinDir, c.Scratch)}
	var err error
	if h.sockDir, err = plugtest.ShortDir(c.Root); err != nil {
		c.Inconclusive("socket-dir")
		return opts
	}
	defer os.RemoveAll(h.sockDir)
	if h.srv, err = plugtest.NewServer(); err != nil {
		c.Inconclusive("loopback-server")
		return opts
	}
	defer h.srv.Close()
	bin, err := os.ReadFile(filepath.Join(c.BinDir, "testplugin"))
	if err != nil {
		c.Inconclusive("no-testplugin")
		return opts
	}
	h.binary = bin
	h.archives = map[string][]byte{
		pluginName: plugtest.TarGz(pluginName, bin, gzip.BestSpeed),
		otherName:  plugtest.TarGz(otherName, bin, gzip.BestSpeed),
	}
	h.srv.Set("official", &plugtest.Repo{Slug: "core", Plugins: []plugtest.Plugin{
		{Name: pluginName, FileExtensions: []string{ext}, Versions: []string{"1.0.0", "2.0.0"}, Archive: func(string) []byte { return h.archives[pluginName] }},
		{Name: otherName, FileExtensions: []string{ext}, Versions: []string{"1.0.0"}, Archive: func(string) []byte { return h.archives[otherName] }},
	}})
	h.srv.Set("extra", &plugtest.Repo{Slug: "extra", Plugins: []plugtest.Plugin{
		{Name: "extraplugin", Versions: []string{"0.1.0"}, Archive: func(string) []byte { return h.archives[pluginName] }},
	}})
	if err := h.buildTemplates(); err != nil {
		c.Inconclusive("templates")
		c.Note("template_error", err.Error())
		return opts
	}
	scenarios := []scenario{
		{name: "S0-install-new", start: "S0", args: []string{"plugin", "install", pluginName}, target: pluginName, newVersion: "2.0.0"},
		{name: "S1-install-new-version", start: "S1", args: []string{"plugin", "install", pluginName + "@2.0.0"}, target: pluginName, newVersion: "2.0.0"},
		{name: "S1-reinstall-same-version", start: "S1", args: []string{"plugin", "install", pluginName + "@1.0.0"}, target: pluginName, newVersion: "1.0.0"},
		{name: "S2-reinstall-highest-version", start: "S2", args: []string{"plugin", "install", pluginName}, target: pluginName, newVersion: "2.0.0"},
		{name: "S1-install-second-plugin-same-extension", start: "S1", args: []string{"plugin", "install", otherName}, target: otherName, newVersion: "1.0.0"},
		// two installs in one command: every install hook point is hit twice (hit indexes 1 and 2),
		// and the second registry write tears a file that already holds the first registration
		{name: "S1-install-two-plugins", start: "S1", args: []string{"plugin", "install", pluginName + "@2.0.0", otherName}, target: pluginName, newVersion: "2.0.0"},
		{name: "S0-repository-add", start: "S0", args: []string{"plugin", "repository", "add", h.srv.RepoURL("extra")}},
		{name: "S1-repository-add", start: "S1", args: []string{"plugin", "repository", "add", h.srv.RepoURL("extra")}},
	}
	type job struct {
		sc scenario
		f  fault
	}
	var jobs []job
	pointsReached := map[string]int{}
	faultList := []string{}
	for _, sc := range scenarios {
		// traced, uncrashed run: lists the hook points and must leave a state that passes the probes
		home := h.r.NewHome()
		if err := cloneHome(h.tmpl[sc.start], home); err != nil {
			c.Inconclusive("scratch-write")
			return opts
		}
		tracePath := filepath.Join(c.Scratch, "trace-"+sc.name)
		res := h.run(home, sc.args, []string{"VERIF_TRACE=" + tracePath}, nil)
		c.Eval(1)
		if res.Exit != 0 {
			c.Violation("uncrashed-run-failed:"+sc.name, "the command fails without any fault: "+tail(string(res.Stderr), 300), map[string]interface{}{"id": sc.name + "/trace", "args": sc.args})
			continue
		}
		st := stateInfo(sc.start)
		if fails := h.probe(home, st, sc.target, sc.newVersion); len(fails) > 0 {
			c.Violation("uncrashed-run-breaks-probes:"+sc.name, fmt.Sprintf("after the completed command the probes fail: %+v", fails), map[string]interface{}{"id": sc.name + "/trace", "args": sc.args})
		}
		if damage := previousVersionsDamage(h.tmpl[sc.start], home, sc); len(damage) > 0 {
			c.Violation("previous-version-damaged:completed-run", fmt.Sprintf("scenario %s (%s) completed without any fault, yet versions installed before and not being (re)installed were changed: %v", sc.name, strings.Join(sc.args, " "), damage),
				map[string]interface{}{"id": sc.name + "/trace", "args": sc.args, "damage": damage})
		}
		trace, err := readTrace(tracePath)
		if err != nil || len(trace) == 0 {
			c.Inconclusive("no-trace")
			continue
		}
		for _, tp := range trace {
			pointsReached[tp.Name]++
		}
		_ = os.RemoveAll(home)
		for _, f := range faultsFor(trace, c.Tier == "thorough") {
			id := sc.name + "/" + f.Spec
			if c.Only != "" && c.Only != id {
				continue
			}
			jobs = append(jobs, job{sc, f})
			faultList = append(faultList, id)
		}
	}
	c.Note("hook_points_reached", pointsReached)
	c.Note("faults_enumerated", len(jobs))
	if len(faultList) <= 400 {
		c.Note("fault_list", faultList)
	} else {
		c.Note("fault_list_first_400", faultList[:400])
	}
	var mu sync.Mutex
	injected := map[string]int{}
	selfLeft := 2
	core.Parallel(len(jobs), 16, func(i int) {
		sc, f := jobs[i].sc, jobs[i].f
		id := sc.name + "/" + f.Spec
		c.Eval(1)
		home := h.r.NewHome()
		defer os.RemoveAll(home)
		if err := cloneHome(h.tmpl[sc.start], home); err != nil {
			c.Inconclusive("scratch-write")
			return
		}
		res := h.run(home, sc.args, []string{"VERIF_CRASH_AT=" + f.Spec}, nil)
		if res.TimedOut {
			c.Inconclusive("watchdog")
			return
		}
		if res.Exit != 137 {
			// the fault was not reached in this run: nothing was injected, nothing to judge
			c.Inconclusive("fault-not-injected")
			return
		}
		mu.Lock()
		injected[f.Point]++
		self := false
		if selftest && selfLeft > 0 && f.Point == "install.done" {
			self = true
			selfLeft--
		}
		mu.Unlock()
		st := stateInfo(sc.start)
		if self {
			// deliberately wrong expectation: pretend nothing but a version that never existed was installed
			st.installed = []string{"9.9.9"}
			sc.newVersion = "9.9.8"
		}
		// invariant: whatever was installed before and is not being (re)installed is byte-identical
		damage := previousVersionsDamage(h.tmpl[sc.start], home, sc)
		dirState, binaryPresent := newDirState(home, sc, h.binary)
		fails := h.probe(home, st, sc.target, sc.newVersion)
		c.Nontrivial(id)
		c.Count("faults/"+f.Point, 1)
		if f.Torn >= 0 {
			c.Count("torn_faults/"+f.Point, 1)
		}
		c.Count("scenario/"+sc.name, 1)
		c.Count("invariant/previous_versions_compared", 1)
		// P5 runs last (after P1-P4 have judged the crashed state itself), before home is removed
		defer h.retryProbe(jobs[i].sc, f, id, home)
		if len(damage) > 0 {
			c.Violation("previous-version-damaged:"+f.Point, fmt.Sprintf("scenario %s (%s), crash at %s: versions installed before the action and not being (re)installed were changed: %v", sc.name, strings.Join(sc.args, " "), f.Spec, damage),
				map[string]interface{}{"id": id, "scenario": sc.name, "start_state": sc.start, "command": sc.args, "crash_at": f.Spec, "damage": damage, "failed_probes": fails, "home_listing": listing(home)})
			return
		}
		if len(fails) == 0 {
			c.Count("survived/"+f.Point, 1)
			c.Sample(map[string]interface{}{"id": id, "scenario": sc.name, "fault": f.Spec, "probes": "all passed"})
			return
		}
		key := classify(sc, f, fails, st, damage, dirState, binaryPresent)
		what := fmt.Sprintf("scenario %s (%s), crash at %s: ", sc.name, strings.Join(sc.args, " "), f.Spec)
		for _, pf := range fails {
			what += fmt.Sprintf("[%s: %s — %s] ", pf.Probe, pf.Why, pf.Stderr)
		}
		c.Violation(key, what, map[string]interface{}{"id": id, "scenario": sc.name, "start_state": sc.start, "command": sc.args, "crash_at": f.Spec, "failed_probes": fails, "home_listing": listing(home)})
	})
	c.Note("faults_injected_by_point", injected)
	if c.Tier == "thorough" && c.Only == "" {
		straceCheck(c, h, scenarios)
	}
	return opts
}

func listing(home string) []string {
	var out []string
	_ = filepath.WalkDir(home, func(p string, d fs.DirEntry, err error) error {
		if err != nil {
			return nil
		}
		rel, _ := filepath.Rel(home, p)
		if d.IsDir() {
			return nil
		}
		size := int64(-1)
		if info, err := d.Info(); err == nil {
			size = info.Size()
		}
		out = append(out, fmt.Sprintf("%s (%d bytes)", rel, size))
		return nil
	})
	return out
}

func tail(s string, n int) string {
	if len(s) > n {
		return "..." + s[len(s)-n:]
	}
	return s
}

func lastLines(s string, n int) string {
	lines := strings.Split(strings.TrimSpace(s), "\n")
	if len(lines) > n {
		lines = lines[len(lines)-n:]
	}
	return strings.Join(lines, " | ")
}

// straceCheck (thorough, optional): every path the command touches under HOME lies between two
// hook points, i.e. no file-system step on the installation state is uninstrumented. It runs the
// command under `strace -f -e trace=%file,write` with VERIF_TRACE set, so that the hook trace file's own appends
// (write calls whose payload is a hook point name) show up in the strace log as markers between the steps.
func straceCheck(c *core.Ctx, h *harness, scenarios []scenario) {
	if _, err := exec.LookPath("strace"); err != nil {
		c.Note("strace_cross_check", "strace not available")
		return
	}
	checked, unbracketed := 0, []string{}
	for _, sc := range scenarios {
		home := h.r.NewHome()
		if err := cloneHome(h.tmpl[sc.start], home); err != nil {
			continue
		}
		logPath := filepath.Join(c.Scratch, "strace-"+sc.name+".log")
		tracePath := filepath.Join(home, "VERIF_TRACE_MARKER")
		args := append([]string{"-f", "-e", "trace=%file,write", "-o", logPath, filepath.Join(c.BinDir, "octosql")}, sc.args...)
		res := h.r.ExecBin("/usr/bin/strace", cli.Run{Args: args, Home: home, Env: append(h.env(home), "VERIF_TRACE="+tracePath), Timeout: 120 * time.Second})
		data, err := os.ReadFile(logPath)
		isMarker := func(l string) bool {
			i := strings.Index(l, "write(")
			if i < 0 {
				return false
			}
			j := strings.Index(l[i:], ", \"")
			if j < 0 {
				return false
			}
			payload := l[i+j+3:]
			return strings.HasPrefix(payload, "install.") || strings.HasPrefix(payload, "extensions.") || strings.HasPrefix(payload, "repo.")
		}
		if err != nil || res.Exit != 0 || !strings.Contains(string(data), "VERIF_TRACE_MARKER") {
			c.Note("strace_cross_check", fmt.Sprintf("strace did not work here (exit %d): %s", res.Exit, lastLines(string(res.Stderr), 1)))
			_ = os.RemoveAll(home)
			return
		}
		// walk the log: mutating calls on paths under home must occur after the first marker and
		// before the last one
		lines := strings.Split(string(data), "\n")
		first, last := -1, -1
		for i, l := range lines {
			if isMarker(l) {
				if first < 0 {
					first = i
				}
				last = i
			}
		}
		for i, l := range lines {
			if !strings.Contains(l, home) || strings.Contains(l, "VERIF_TRACE_MARKER") || strings.Contains(l, "write(") {
				continue
			}
			mutating := strings.Contains(l, "O_WRONLY") || strings.Contains(l, "O_RDWR") || strings.Contains(l, "O_CREAT") ||
				strings.Contains(l, "unlink") || strings.Contains(l, "rename") || strings.Contains(l, "mkdir") || strings.Contains(l, "rmdir") || strings.Contains(l, "chmod") || strings.Contains(l, "truncate")
			if !mutating || strings.Contains(l, "ENOENT") && !strings.Contains(l, "O_CREAT") || strings.Contains(l, "EEXIST") {
				continue
			}
			// start-up artefacts that are not installation state
			if strings.Contains(l, "logs.txt") || strings.Contains(l, "/.octosql\"") || strings.Contains(l, "telemetry") {
				continue
			}
			checked++
			if i < first || i > last {
				unbracketed = append(unbracketed, sc.name+": "+strings.TrimSpace(l))
			}
		}
		c.Count("strace/scenarios_traced", 1)
		_ = os.RemoveAll(home)
	}
	c.Note("strace_cross_check", map[string]interface{}{"mutating_calls_under_home_checked": checked, "outside_hook_brackets": unbracketed})
	if len(unbracketed) > 0 {
		c.Violation("uninstrumented-filesystem-step", fmt.Sprintf("file-system steps on the installation state happen outside the hook points: %v", unbracketed), map[string]interface{}{"id": "strace"})
	}
}

// Package c12: string and pattern functions meet their specification.
//
// R: a function result differing from its reference on some string.
// O: own references (ref.go): rune-wise reverse; substr/len/position in byte OR rune reading (both
// accepted); replace; upper/lower by Unicode simple case mapping; LIKE by a direct wildcard matcher
// over runes; ~ = Go regexp; ~* = Go regexp with (?i).
// W: direct calls of FunctionMap()[name].Descriptors[i].Function over a metacharacter-rich
// alphabet (lengths 0..6), an exhaustive LIKE space over a 12-symbol alphabet, and a CLI leg that
// pushes a sample of the same cases through SQL literals and the real binary.
package c12

import (
	"encoding/json"
	"fmt"
	"math"
	"math/rand"
	"os"
	"runtime/debug"
	"strconv"
	"strings"
	"unicode/utf8"

	"github.com/cube2222/octosql/octosql"

	"github.com/cube2222/octosql/plugins/verifharness/core"
	"github.com/cube2222/octosql/plugins/verifharness/nodeh"
)

func init() { core.Register("C12", Run) }

// ---------------------------------------------------------------------------------------------
// results and verdicts (shared by the in-process leg and the CLI leg)

type result struct {
	kind string // "string" | "int" | "bool" | "null" | "error" | "panic" | "other"
	s    string
	i    int64
	b    bool
	msg  string // error / panic text
	site string // panic site
}

func (r result) String() string {
	switch r.kind {
	case "string":
		return "string " + strconv.Quote(r.s)
	case "int":
		return fmt.Sprintf("int %d", r.i)
	case "bool":
		return fmt.Sprintf("bool %v", r.b)
	case "null":
		return "NULL"
	case "error":
		return "error: " + r.msg
	case "panic":
		return "panic at " + r.site + ": " + r.msg
	}
	return "other " + r.msg
}

func fromValue(v octosql.Value, err error) result {
	if err != nil {
		return result{kind: "error", msg: err.Error()}
	}
	switch v.TypeID {
	case octosql.TypeIDString:
		return result{kind: "string", s: v.Str}
	case octosql.TypeIDInt:
		return result{kind: "int", i: v.Int}
	case octosql.TypeIDBoolean:
		return result{kind: "bool", b: v.Boolean}
	case octosql.TypeIDNull:
		return result{kind: "null"}
	}
	return result{kind: "other", msg: nodeh.ValKey(v)}
}

type verdict struct {
	status string // "ok" | "skip" (not judged, reason in key) | "bad"
	key    string
	what   string
}

var ok = verdict{status: "ok"}

func skip(reason string) verdict { return verdict{status: "skip", key: reason} }
func bad(key, what string) verdict {
	return verdict{status: "bad", key: key, what: what}
}

// ---------------------------------------------------------------------------------------------
// one case = function name + arguments

type kase struct {
	id   string
	fn   string // upper lower reverse substr replace position len like ~ ~*
	strs []string
	ints []int64
	neg  bool // CLI leg only: the negated operator (NOT LIKE, !~, !~*) was run; its boolean is flipped back before judging
}

func (k kase) args() []octosql.Value {
	var out []octosql.Value
	switch k.fn {
	case "substr":
		out = append(out, octosql.NewString(k.strs[0]))
		for _, i := range k.ints {
			out = append(out, octosql.NewInt(i))
		}
	default:
		for _, s := range k.strs {
			out = append(out, octosql.NewString(s))
		}
	}
	return out
}

func (k kase) describe() string {
	parts := []string{}
	for _, s := range k.strs {
		parts = append(parts, strconv.Quote(s))
	}
	for _, i := range k.ints {
		parts = append(parts, strconv.FormatInt(i, 10))
	}
	return k.fn + "(" + strings.Join(parts, ", ") + ")"
}

// sqlLiteral: single-quoted; the tokenizer decodes \\ \' \n and doubles of the delimiter.
func sqlLiteral(s string) string {
	s = strings.ReplaceAll(s, `\`, `\\`)
	s = strings.ReplaceAll(s, `'`, `''`)
	return "'" + s + "'"
}

func (k kase) sql() string {
	switch k.fn {
	case "like":
		if k.neg {
			return sqlLiteral(k.strs[0]) + " NOT LIKE " + sqlLiteral(k.strs[1])
		}
		return sqlLiteral(k.strs[0]) + " LIKE " + sqlLiteral(k.strs[1])
	case "~", "~*":
		if k.neg {
			return sqlLiteral(k.strs[0]) + " !" + k.fn + " " + sqlLiteral(k.strs[1])
		}
		return sqlLiteral(k.strs[0]) + " " + k.fn + " " + sqlLiteral(k.strs[1])
	case "substr":
		parts := []string{sqlLiteral(k.strs[0])}
		for _, i := range k.ints {
			parts = append(parts, strconv.FormatInt(i, 10))
		}
		return "substr(" + strings.Join(parts, ", ") + ")"
	}
	parts := []string{}
	for _, s := range k.strs {
		parts = append(parts, sqlLiteral(s))
	}
	return k.fn + "(" + strings.Join(parts, ", ") + ")"
}

// judge compares a result with the reference for the case.
func judge(k kase, r result) verdict {
	if k.neg && r.kind == "bool" {
		r.b = !r.b
	}
	if r.kind == "panic" {
		if k.fn == "substr" {
			start := k.ints[0]
			if start < 0 || (len(k.ints) == 2 && k.ints[1] < 0) {
				return skip("out-of-domain-panic(C07)")
			}
			if len(k.ints) == 2 && start > 0 && k.ints[1] > math.MaxInt64-start {
				return bad("substr-length-overflow", fmt.Sprintf("%s panics (start+length overflows int64): %s", k.describe(), r.msg))
			}
		}
		return bad("panic:"+r.site, k.describe()+" panicked: "+r.msg)
	}
	wantStr := func(want string, key string) verdict {
		if r.kind == "string" && r.s == want {
			return ok
		}
		return bad(key, fmt.Sprintf("%s = %s, want string %q", k.describe(), r, want))
	}
	switch k.fn {
	case "upper":
		return wantStr(refUpper(k.strs[0]), "upper-mismatch")
	case "lower":
		return wantStr(refLower(k.strs[0]), "lower-mismatch")
	case "reverse":
		key := "reverse-mismatch"
		if hasMultibyte(k.strs[0]) {
			key = "reverse-multibyte"
		}
		return wantStr(refReverse(k.strs[0]), key)
	case "substr":
		start := k.ints[0]
		hasLen := len(k.ints) == 2
		var n int64
		if hasLen {
			n = k.ints[1]
		}
		if start < 0 || (hasLen && n < 0) {
			return skip("out-of-domain")
		}
		b, ru := refSubstr(k.strs[0], start, hasLen, n)
		if r.kind == "string" && (r.s == b || r.s == ru) {
			return ok
		}
		return bad("substr-mismatch", fmt.Sprintf("%s = %s, want %q (bytes) or %q (runes)", k.describe(), r, b, ru))
	case "replace":
		if k.strs[1] == "" {
			return skip("replace-empty-needle")
		}
		return wantStr(refReplace(k.strs[0], k.strs[1], k.strs[2]), "replace-mismatch")
	case "position":
		found, bi, ri := refPosition(k.strs[0], k.strs[1])
		if !found {
			if r.kind == "null" {
				return ok
			}
			return bad("position-mismatch", fmt.Sprintf("%s = %s, want NULL", k.describe(), r))
		}
		if r.kind == "int" && (r.i == bi || r.i == ri) {
			return ok
		}
		return bad("position-mismatch", fmt.Sprintf("%s = %s, want %d (bytes) or %d (runes)", k.describe(), r, bi, ri))
	case "len":
		b, ru := refLen(k.strs[0])
		if r.kind == "int" && (r.i == b || r.i == ru) {
			return ok
		}
		return bad("len-mismatch", fmt.Sprintf("%s = %s, want %d (bytes) or %d (runes)", k.describe(), r, b, ru))
	case "like":
		s, p := k.strs[0], k.strs[1]
		toks, defined := parseLike(p)
		if !defined {
			if r.kind == "error" || r.kind == "bool" {
				return skip("like-undefined-pattern")
			}
			return bad("like-undefined-pattern-result", fmt.Sprintf("%s = %s, want an error or a boolean", k.describe(), r))
		}
		want := likeMatch(toks, s)
		if r.kind == "bool" && r.b == want {
			return ok
		}
		// attribution by what the INPUT looks like (and, for the newline class, the direction)
		key := "like-mismatch"
		switch {
		case likeHasLiteral(toks, '*'):
			key = "like-unescaped-meta:*"
		case likeHasLiteral(toks, '|'):
			key = "like-unescaped-meta:|"
		case strings.Contains(s, "\n") && likeHasWildcard(toks) && want && r.kind == "bool" && !r.b:
			key = "like-newline"
		}
		return bad(key, fmt.Sprintf("%s = %s, want %v", k.describe(), r, want))
	case "~", "~*":
		s, p := k.strs[0], k.strs[1]
		ci := k.fn == "~*"
		want, cerr := refRegex(s, p, ci)
		good := false
		if cerr != nil {
			good = r.kind == "error"
		} else {
			good = r.kind == "bool" && r.b == want
		}
		if good {
			return ok
		}
		key := "regex-mismatch"
		if ci {
			key = "regex-ci-mismatch"
			switch {
			case lowercasingChangesPattern(p):
				key = "regex-ci-lowercased-class"
			case hasFoldNotLower(s) || hasFoldNotLower(p):
				key = "regex-ci-unicode-fold"
			}
		}
		wantS := fmt.Sprint(want)
		if cerr != nil {
			wantS = "a compile error (" + cerr.Error() + ")"
		}
		return bad(key, fmt.Sprintf("%s = %s, want %s", k.describe(), r, wantS))
	}
	return bad("unknown-function", k.fn)
}

// ---------------------------------------------------------------------------------------------
// in-process execution

type runner struct {
	c        *core.Ctx
	only     string
	fns      map[string]func([]octosql.Value) (octosql.Value, error)
	selftest bool
}

func pickDescriptor(name string, ids ...octosql.TypeID) func([]octosql.Value) (octosql.Value, error) {
	det, found := nodeh.FunctionMap()[name]
	if !found {
		return nil
	}
outer:
	for _, d := range det.Descriptors {
		if d.TypeFn != nil || len(d.ArgumentTypes) != len(ids) {
			continue
		}
		for i := range ids {
			if d.ArgumentTypes[i].TypeID != ids[i] {
				continue outer
			}
		}
		return d.Function
	}
	return nil
}

func (r *runner) lookup(k kase) func([]octosql.Value) (octosql.Value, error) {
	name := k.fn
	if k.fn == "substr" {
		name = fmt.Sprintf("substr/%d", len(k.ints))
	}
	return r.fns[name]
}

func exec(f func([]octosql.Value) (octosql.Value, error), args []octosql.Value) (res result) {
	defer func() {
		if p := recover(); p != nil {
			res = result{kind: "panic", msg: fmt.Sprint(p), site: core.PanicSite(string(debug.Stack()))}
		}
	}()
	v, err := f(args)
	return fromValue(v, err)
}

func (r *runner) run(k kase) (result, verdict) {
	f := r.lookup(k)
	res := exec(f, k.args())
	return res, r.account(k, res, "inproc")
}

func nontrivial(k kase) bool {
	if len(k.strs) == 0 || k.strs[0] == "" {
		return false
	}
	switch k.fn {
	case "like", "~", "~*", "position", "replace":
		return k.strs[1] != ""
	}
	return true
}

// account judges, counts and reports one observed result.
func (r *runner) account(k kase, res result, leg string) verdict {
	c := r.c
	c.Eval(1)
	v := judge(k, res)
	c.Count(leg+"/"+k.fn, 1)
	switch v.status {
	case "skip":
		c.Count("not_judged/"+k.fn+"/"+v.key, 1)
	case "bad":
		c.Violation(v.key, "["+leg+"] "+v.what, map[string]interface{}{
			"id": k.id, "leg": leg, "fn": k.fn, "strings": k.strs, "ints": k.ints, "sql": k.sql(), "got": res.String(),
		})
	case "ok":
		if nontrivial(k) {
			c.Nontrivial(k.describe())
		}
		switch k.fn {
		case "like", "~", "~*":
			c.Count(fmt.Sprintf("%s/%s/result=%s", leg, k.fn, res.kind+boolStr(res)), 1)
		}
		if hasMultibyte(k.strs[0]) {
			c.Count(leg+"/"+k.fn+"/multibyte_input", 1)
		}
	}
	return v
}

func boolStr(r result) string {
	if r.kind == "bool" {
		return fmt.Sprintf(":%v", r.b)
	}
	return ""
}

// ---------------------------------------------------------------------------------------------

func onlyID(c *core.Ctx) string {
	if c.Only != "" {
		return c.Only
	}
	if c.Replay == "" {
		return ""
	}
	data, err := os.ReadFile(c.Replay)
	if err != nil {
		return "unreadable-replay"
	}
	var body struct {
		Case struct {
			ID string `json:"id"`
		} `json:"case"`
	}
	if json.Unmarshal(data, &body) != nil || body.Case.ID == "" {
		return "unreadable-replay"
	}
	return body.Case.ID
}

var exhaustiveAlphabet = []rune{'a', 'B', '%', '_', '\\', '.', '*', '|', '(', '+', '\n', 'é'}

var intPool = []int64{0, 1, 2, 3, 4, 5, 6, 7, 8, 12, 24, 25, 1 << 31, math.MaxInt64 - 1, math.MaxInt64, -1, -2, math.MinInt64}

func genCases(rng *rand.Rand, fn string, n int) []kase {
	out := make([]kase, 0, n)
	add := func(k kase) {
		k.fn = fn
		k.id = fmt.Sprintf("%s-%d", fn, len(out))
		out = append(out, k)
	}
	smallInt := func() int64 {
		if rng.Intn(10) == 0 {
			return intPool[rng.Intn(len(intPool))]
		}
		return int64(rng.Intn(9))
	}
	switch fn {
	case "upper", "lower", "reverse", "len":
		for i := 0; i < n; i++ {
			add(kase{strs: []string{randString(rng, 6, foldExtras)}})
		}
	case "substr":
		for i := 0; i < n; i++ {
			k := kase{strs: []string{randString(rng, 6, nil)}, ints: []int64{smallInt()}}
			if rng.Intn(2) == 0 {
				k.ints = append(k.ints, smallInt())
			}
			add(k)
		}
	case "position":
		for i := 0; i < n; i++ {
			s := randString(rng, 6, nil)
			sub := randString(rng, 2, nil)
			if rs := []rune(s); len(rs) > 0 && rng.Intn(2) == 0 {
				lo := rng.Intn(len(rs))
				hi := lo + rng.Intn(len(rs)-lo+1)
				sub = string(rs[lo:hi])
			}
			add(kase{strs: []string{s, sub}})
		}
	case "replace":
		for i := 0; i < n; i++ {
			s := randString(rng, 6, nil)
			old := randString(rng, 2, nil)
			if rs := []rune(s); len(rs) > 0 && rng.Intn(3) != 0 {
				lo := rng.Intn(len(rs))
				hi := lo + rng.Intn(min(3, len(rs)-lo)+1)
				old = string(rs[lo:hi])
			}
			add(kase{strs: []string{s, old, randString(rng, 3, nil)}})
		}
	case "like":
		for _, p := range genPairs(rng, "like", n) {
			add(kase{strs: []string{p.s, p.p}})
		}
	case "~":
		for _, p := range genPairs(rng, "regex", n) {
			add(kase{strs: []string{p.s, p.p}})
		}
	case "~*":
		for _, p := range genPairs(rng, "regexci", n) {
			add(kase{strs: []string{p.s, p.p}})
		}
	}
	return out
}

func min(a, b int) int {
	if a < b {
		return a
	}
	return b
}

// probes: the witnesses recorded in findings.d/C12.json.
var probes = []struct {
	key string
	k   kase
}{
	{"reverse-multibyte", kase{fn: "reverse", strs: []string{"a日"}}},
	{"like-unescaped-meta:*", kase{fn: "like", strs: []string{"", "a*"}}},
	{"like-unescaped-meta:*", kase{fn: "like", strs: []string{"x", "*"}}},
	{"like-unescaped-meta:|", kase{fn: "like", strs: []string{"ab", "a|zzz"}}},
	{"like-newline", kase{fn: "like", strs: []string{"a\nb", "a_b"}}},
	{"like-newline", kase{fn: "like", strs: []string{"a\nb", "a%"}}},
	{"regex-ci-lowercased-class", kase{fn: "~*", strs: []string{"a", `\S`}}},
	{"regex-ci-lowercased-class", kase{fn: "~*", strs: []string{"a", `\pL`}}},
	{"regex-ci-lowercased-class", kase{fn: "~*", strs: []string{"A", `[[:upper:]]`}}},
	{"regex-ci-unicode-fold", kase{fn: "~*", strs: []string{"S", "ſ"}}},
	{"substr-length-overflow", kase{fn: "substr", strs: []string{"abc"}, ints: []int64{1, math.MaxInt64}}},
}

var allFns = []string{"upper", "lower", "reverse", "len", "substr", "position", "replace", "like", "~", "~*"}

func Run(c *core.Ctx) core.FinishOpts {
	r := &runner{c: c, only: onlyID(c), selftest: os.Getenv("VERIF_SELFTEST") == "1"}
	S, I := octosql.TypeIDString, octosql.TypeIDInt
	r.fns = map[string]func([]octosql.Value) (octosql.Value, error){
		"upper": pickDescriptor("upper", S), "lower": pickDescriptor("lower", S), "reverse": pickDescriptor("reverse", S),
		"len": pickDescriptor("len", S), "substr/1": pickDescriptor("substr", S, I), "substr/2": pickDescriptor("substr", S, I, I),
		"position": pickDescriptor("position", S, S), "replace": pickDescriptor("replace", S, S, S),
		"like": pickDescriptor("like", S, S), "~": pickDescriptor("~", S, S), "~*": pickDescriptor("~*", S, S),
	}
	for name, f := range r.fns {
		if f == nil {
			c.Violation("descriptor-missing", "no descriptor found for "+name, map[string]interface{}{"id": "descriptor-" + name})
			delete(r.fns, name)
		}
	}
	descs := map[string]string{}
	for _, fn := range allFns {
		descs[fn] = nodeh.FunctionMap()[fn].Description
	}
	c.Note("descriptions_the_references_were_written_from", descs)

	if r.selftest {
		selftest(r)
	}

	// ---- fixed probes: one deterministic witness per open finding (in-process here, through the
	// binary in the CLI leg); a probe that no longer fails means the finding is stale ----
	var cliSample []kase
	if r.only == "" {
		for i, p := range probes {
			k := p.k
			k.id = fmt.Sprintf("probe-%d", i)
			if r.lookup(k) == nil {
				continue
			}
			_, v := r.run(k)
			if c.IsKnown(p.key) && !(v.status == "bad" && v.key == p.key) {
				fmt.Printf("KNOWN-FINDING-STALE property=C12 key=%s probe %s no longer fails (verdict %s %s)\n", p.key, k.describe(), v.status, v.key)
			}
			cliSample = append(cliSample, k)
		}
	}

	// ---- random leg ----
	N := c.Pick(20000, 1000000)
	for _, fn := range allFns {
		if fn == "substr" && r.fns["substr/1"] == nil || fn != "substr" && r.fns[fn] == nil {
			continue
		}
		rng := c.Rng("cases/" + fn)
		cases := genCases(rng, fn, N)
		if r.only == "" {
			// a deterministic sample for the CLI leg: the first 12 judged-ok-or-known cases per
			// function plus 8 with a multibyte / newline / metacharacter-heavy argument
			cliSample = append(cliSample, pickCLISample(cases, 20)...)
		}
		core.Parallel(len(cases), 16, func(i int) {
			k := cases[i]
			if r.only != "" && k.id != r.only {
				return
			}
			res, v := r.run(k)
			if (i < 3 || i%997 == 0) && v.status == "ok" {
				c.Sample(map[string]interface{}{"id": k.id, "call": k.describe(), "result": res.String()})
			}
		})
	}

	// ---- exhaustive LIKE leg ----
	if r.fns["like"] != nil {
		L := c.Pick(2, 3)
		all := allStrings(exhaustiveAlphabet, L)
		total := len(all) * len(all)
		core.Parallel(len(all), 16, func(pi int) {
			p := all[pi]
			for si, s := range all {
				k := kase{id: fmt.Sprintf("likex-%d-%d", pi, si), fn: "like", strs: []string{s, p}}
				if r.only != "" && k.id != r.only {
					continue
				}
				r.run(k)
			}
		})
		c.Note("exhaustive_like_pairs", total)
		c.Note("exhaustive_like_bound", fmt.Sprintf("all (string, pattern) pairs of length <= %d over the %d-symbol alphabet %q", L, len(exhaustiveAlphabet), string(exhaustiveAlphabet)))
	}

	// ---- CLI leg ----
	if r.only == "" || strings.HasPrefix(r.only, "cli-") {
		cliLeg(r, cliSample)
	}

	return core.FinishOpts{
		Level: "exploration",
		Rule: "strings and patterns of 0..6 runes over ASCII letters/digits, space, % _ \\ . * + ? ( ) [ ] { } ^ $ |, quotes, comma, tab, newline, é É ß 日 😀 " +
			"(patterns: half derived from the string, half independent; regexes also from a small grammar with \\d \\S \\B \\pL classes); " +
			"every (string, pattern) pair of bounded length over a 12-symbol alphabet for LIKE; a sample pushed through SQL literals and the real binary; " +
			"non-trivial = non-empty first argument (and non-empty pattern/needle) whose result was judged and agreed; distinct by function and arguments",
		Floor: c.Pick(60000, 1500000),
		Assumptions: []string{
			"references are own code over Go's unicode and regexp packages (regexp is the stated specification of ~ and ~*)",
			"byte and rune readings of substr/position/len both accepted; LIKE patterns with a dangling or misplaced backslash, replace() with an empty needle, negative substr arguments are not judged",
		},
		Exhaustive: true,
	}
}

// pickCLISample takes n cases: the first n/2 as generated plus the first n/2 whose arguments
// contain a multibyte rune, a quote, a backslash or a newline (the characters the SQL literal
// path could mangle).
func pickCLISample(cases []kase, n int) []kase {
	var out []kase
	taken := map[int]bool{}
	// -o json cannot carry a string that is not valid UTF-8 (how the formatter mangles it is C25's
	// subject), and a byte-reading substr may cut a rune in half; negative arguments are out of domain
	usable := func(k kase) bool {
		if k.fn != "substr" {
			return true
		}
		if k.ints[0] < 0 || (len(k.ints) == 2 && k.ints[1] < 0) {
			return false
		}
		b, _ := refSubstr(k.strs[0], k.ints[0], len(k.ints) == 2, k.ints[len(k.ints)-1])
		return utf8.ValidString(b)
	}
	for i := 0; i < len(cases) && len(out) < n/2; i++ {
		if !usable(cases[i]) {
			continue
		}
		out = append(out, cases[i])
		taken[i] = true
	}
	for i := 0; i < len(cases) && len(out) < n; i++ {
		if taken[i] || !usable(cases[i]) {
			continue
		}
		joined := strings.Join(cases[i].strs, "")
		if hasMultibyte(joined) && strings.ContainsAny(joined, "'\\\n\"") {
			out = append(out, cases[i])
		}
	}
	return out
}

// selftest feeds the oracle deliberately wrong recordings; each must come out as a VIOLATION.
func selftest(r *runner) {
	wrong := []struct {
		k   kase
		res result
	}{
		{kase{id: "selftest-like", fn: "like", strs: []string{"abc", "a_c"}}, result{kind: "bool", b: false}},
		{kase{id: "selftest-like-anchor", fn: "like", strs: []string{"xabc", "abc"}}, result{kind: "bool", b: true}},
		{kase{id: "selftest-reverse", fn: "reverse", strs: []string{"abc"}}, result{kind: "string", s: "abc"}},
		{kase{id: "selftest-substr", fn: "substr", strs: []string{"abcdef"}, ints: []int64{1, 2}}, result{kind: "string", s: "bcd"}},
		{kase{id: "selftest-position", fn: "position", strs: []string{"abcabc", "c"}}, result{kind: "int", i: 5}},
		{kase{id: "selftest-regex", fn: "~", strs: []string{"abc", "^b"}}, result{kind: "bool", b: true}},
		{kase{id: "selftest-regexci", fn: "~*", strs: []string{"ABC", "abc"}}, result{kind: "bool", b: false}},
		{kase{id: "selftest-upper", fn: "upper", strs: []string{"aé"}}, result{kind: "string", s: "Aé"}},
		{kase{id: "selftest-replace", fn: "replace", strs: []string{"aaa", "a", "b"}}, result{kind: "string", s: "baa"}},
		{kase{id: "selftest-len", fn: "len", strs: []string{"日"}}, result{kind: "int", i: 2}},
	}
	fired := 0
	for _, w := range wrong {
		if v := r.account(w.k, w.res, "selftest"); v.status == "bad" {
			fired++
		}
	}
	r.c.Note("selftest_wrong_recordings", len(wrong))
	r.c.Note("selftest_fired", fired)
}

package c12

// Reference implementations, written from the function descriptions
// (functions.FunctionMap()[name].Description) and the README; nothing here calls octosql.

import (
	"math"
	"regexp"
	"strconv"
	"strings"
	"unicode"
	"unicode/utf8"
)

// ---- upper / lower: Unicode simple case mapping, rune by rune ----

func refUpper(s string) string {
	var sb strings.Builder
	for _, r := range s {
		sb.WriteRune(unicode.ToUpper(r))
	}
	return sb.String()
}

func refLower(s string) string {
	var sb strings.Builder
	for _, r := range s {
		sb.WriteRune(unicode.ToLower(r))
	}
	return sb.String()
}

// ---- reverse: the runes of s in opposite order ----

func refReverse(s string) string {
	rs := []rune(s)
	out := make([]rune, 0, len(rs))
	for i := len(rs) - 1; i >= 0; i-- {
		out = append(out, rs[i])
	}
	return string(out)
}

// ---- substr: "a substring of the first argument beginning at the index provided in the second
// argument and optionally limiting the length using the third argument". The description does not
// say whether the index counts bytes or runes: both readings are computed and either is accepted.
// Indices are 0-based (tests/scenarios/functions/strings: substr('test', 1) = 'est').
// start < 0 or length < 0 is out of domain (not judged).

// refSubstr returns the byte-reading and the rune-reading. hasLen=false: to the end.
func refSubstr(s string, start int64, hasLen bool, length int64) (byBytes, byRunes string) {
	cut := func(n int64) (lo, hi int64) {
		if start >= n {
			return n, n
		}
		lo = start
		hi = n
		if hasLen {
			// saturating start+length
			if length < n-start {
				hi = start + length
			}
		}
		return lo, hi
	}
	lo, hi := cut(int64(len(s)))
	byBytes = s[lo:hi]
	rs := []rune(s)
	lo, hi = cut(int64(len(rs)))
	byRunes = string(rs[lo:hi])
	return
}

// ---- replace: all (non-overlapping, leftmost first) occurrences of old replaced by new.
// old == "" is not judged (what "all occurrences of the empty string" are is not stated).

func refReplace(s, old, new string) string {
	if old == "" {
		return s
	}
	var sb strings.Builder
	i := 0
	for i < len(s) {
		if i+len(old) <= len(s) && s[i:i+len(old)] == old {
			sb.WriteString(new)
			i += len(old)
			continue
		}
		sb.WriteByte(s[i])
		i++
	}
	return sb.String()
}

// ---- position: index of the first occurrence (0-based, scenario: position('test','es') = 1,
// position('test','') = 0), NULL when there is none. Byte index or rune index both accepted.

func refPosition(s, sub string) (found bool, byteIdx, runeIdx int64) {
	for i := 0; i+len(sub) <= len(s); i++ {
		if s[i:i+len(sub)] == sub {
			return true, int64(i), int64(utf8.RuneCountInString(s[:i]))
		}
	}
	return false, 0, 0
}

// ---- len ----

func refLen(s string) (bytes, runes int64) {
	return int64(len(s)), int64(utf8.RuneCountInString(s))
}

// ---- LIKE: direct wildcard matcher over runes ----

type likeTok struct {
	kind int // 0 literal, 1 '_' (exactly one rune, any rune including newline), 2 '%' (any run, possibly empty)
	r    rune
	esc  bool // literal written with a backslash escape
}

// parseLike splits a pattern into tokens. defined=false when the pattern ends in a dangling
// backslash or has a backslash before a character other than _ % \ (no meaning is documented
// for those: DESIGN §3.4).
func parseLike(p string) (toks []likeTok, defined bool) {
	rs := []rune(p)
	for i := 0; i < len(rs); i++ {
		r := rs[i]
		switch r {
		case '\\':
			if i+1 >= len(rs) {
				return nil, false
			}
			n := rs[i+1]
			if n != '_' && n != '%' && n != '\\' {
				return nil, false
			}
			toks = append(toks, likeTok{kind: 0, r: n, esc: true})
			i++
		case '_':
			toks = append(toks, likeTok{kind: 1})
		case '%':
			toks = append(toks, likeTok{kind: 2})
		default:
			toks = append(toks, likeTok{kind: 0, r: r})
		}
	}
	return toks, true
}

func likeMatch(toks []likeTok, s string) bool {
	rs := []rune(s)
	// reach[j] = the tokens consumed so far can match rs[:j]
	reach := make([]bool, len(rs)+1)
	reach[0] = true
	for _, t := range toks {
		next := make([]bool, len(rs)+1)
		switch t.kind {
		case 0:
			for j := 0; j < len(rs); j++ {
				if reach[j] && rs[j] == t.r {
					next[j+1] = true
				}
			}
		case 1:
			for j := 0; j < len(rs); j++ {
				if reach[j] {
					next[j+1] = true
				}
			}
		case 2:
			seen := false
			for j := 0; j <= len(rs); j++ {
				if reach[j] {
					seen = true
				}
				next[j] = seen
			}
		}
		reach = next
	}
	return reach[len(rs)]
}

func likeHasWildcard(toks []likeTok) bool {
	for _, t := range toks {
		if t.kind != 0 {
			return true
		}
	}
	return false
}

func likeHasLiteral(toks []likeTok, r rune) bool {
	for _, t := range toks {
		if t.kind == 0 && t.r == r {
			return true
		}
	}
	return false
}

// ---- ~ and ~* : Go regexp, the latter with (?i) ----

func refRegex(s, p string, ci bool) (match bool, compileErr error) {
	if ci {
		p = "(?i)" + p
	}
	re, err := regexp.Compile(p)
	if err != nil {
		return false, err
	}
	return re.MatchString(s), nil
}

// lowercasingChangesPattern: the pattern contains something whose meaning is lost when pattern
// and input are both lower-cased (what "~*" does instead of compiling with (?i)):
//   - a backslash escape followed by an upper-case letter: \S \D \W \B \A \P \Q \E ... become \s \d ...
//   - a \p / \P class with an upper-case name (\pL, \p{Lu}) becomes an unknown class
//   - a class or escape that denotes upper-case letters without spelling them: [[:upper:]], \x41
//     (the lower-cased input can no longer contain what it denotes).
func lowercasingChangesPattern(p string) bool {
	if strings.Contains(p, "[:upper:]") || strings.Contains(p, "[:^lower:]") {
		return true
	}
	rs := []rune(p)
	for i := 0; i+1 < len(rs); i++ {
		if rs[i] != '\\' {
			continue
		}
		n := rs[i+1]
		if n >= 'A' && n <= 'Z' {
			return true
		}
		if n == 'p' {
			for j := i + 2; j < len(rs); j++ {
				if rs[j] >= 'A' && rs[j] <= 'Z' {
					return true
				}
				if rs[j] == '}' || (j == i+2 && rs[j] != '{') {
					break
				}
			}
		}
		if n == 'x' {
			// \xHH or \x{H...}
			hex := ""
			j := i + 2
			if j < len(rs) && rs[j] == '{' {
				for j++; j < len(rs) && rs[j] != '}'; j++ {
					hex += string(rs[j])
				}
			} else {
				for ; j < len(rs) && j < i+4; j++ {
					hex += string(rs[j])
				}
			}
			if v, err := strconv.ParseInt(hex, 16, 32); err == nil && unicode.IsUpper(rune(v)) {
				return true
			}
		}
		i++ // the escaped character is consumed
	}
	return false
}

// foldNotLower: runes that Go's (?i) folds together with another rune but whose strings.ToLower is
// not the other rune's: ſ (U+017F, folds with s/S) and ς (U+03C2, folds with σ/Σ).
func hasFoldNotLower(s string) bool {
	return strings.ContainsRune(s, 'ſ') || strings.ContainsRune(s, 'ς')
}

func hasMultibyte(s string) bool {
	for i := 0; i < len(s); i++ {
		if s[i] >= utf8.RuneSelf {
			return true
		}
	}
	return false
}

func satAdd(a, b int64) int64 {
	if b > 0 && a > math.MaxInt64-b {
		return math.MaxInt64
	}
	return a + b
}

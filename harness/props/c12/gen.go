package c12

import (
	"math/rand"
	"regexp"
	"strings"
	"unicode"
)

// The DESIGN §3.1 string alphabet: ASCII letters in both cases, digits, space, the regex/LIKE
// metacharacters, quote characters, comma, tab, newline and a few multibyte runes (2, 3 and 4
// bytes). Few distinct letters so that random strings and patterns meet often.
var letters = []rune("abAB" + "sS" + "01")
var metas = []rune(" %_\\.*+?()[]{}^$|'\",\t\n")
var multibyte = []rune("éÉß日😀")

// extra runes for the ~* leg only: Go's (?i) folds them with other runes, strings.ToLower does not
var foldExtras = []rune("ſςσΣ")

func randRune(rng *rand.Rand, extras []rune) rune {
	switch x := rng.Intn(100); {
	case x < 40:
		return letters[rng.Intn(len(letters))]
	case x < 80:
		return metas[rng.Intn(len(metas))]
	case x < 95 || len(extras) == 0:
		return multibyte[rng.Intn(len(multibyte))]
	default:
		return extras[rng.Intn(len(extras))]
	}
}

func randString(rng *rand.Rand, maxLen int, extras []rune) string {
	n := rng.Intn(maxLen + 1)
	rs := make([]rune, n)
	for i := range rs {
		rs[i] = randRune(rng, extras)
	}
	return string(rs)
}

// likePatternFor derives a pattern from s that has a fair chance of matching it.
func likePatternFor(rng *rand.Rand, s string) string {
	rs := []rune(s)
	var sb strings.Builder
	if rng.Intn(6) == 0 {
		sb.WriteRune('%')
	}
	for i := 0; i < len(rs); i++ {
		r := rs[i]
		switch x := rng.Intn(100); {
		case x < 18:
			sb.WriteRune('_')
		case x < 30:
			sb.WriteRune('%')
			i += rng.Intn(3) // swallow 0..2 more runes
		case x < 34:
			// a different literal: most likely a mismatch
			sb.WriteRune(randRune(rng, nil))
		default:
			if r == '_' || r == '%' || r == '\\' {
				if rng.Intn(10) < 8 {
					sb.WriteRune('\\')
				}
			}
			sb.WriteRune(r)
		}
	}
	if rng.Intn(6) == 0 {
		sb.WriteRune('%')
	}
	if rng.Intn(12) == 0 {
		sb.WriteRune('_')
	}
	return sb.String()
}

var regexAtoms = []string{
	"a", "b", "A", "B", "s", "S", "0", "1", "é", "É", "ß", "日", ".", `\.`, `\d`, `\D`, `\s`, `\S`, `\w`, `\W`,
	`\b`, `\B`, "[ab]", "[AB]", "[^a]", "[^A]", "[a-s]", "[A-S]", "(a|B)", "(A|b)", "^", "$", `\pL`, `\PL`, `\p{Lu}`,
	`\p{Ll}`, `\A`, `\z`, `\x41`, `\x61`, `\n`, `\t`, "(?s).", "[[:upper:]]", "[[:alpha:]]", `\Qa.b\E`, `\*`, `\|`, `\\`,
}
var regexQuants = []string{"", "", "", "*", "+", "?", "{2}", "{1,2}", "*?"}

func grammarRegex(rng *rand.Rand, extras []rune) string {
	n := 1 + rng.Intn(3)
	var sb strings.Builder
	for i := 0; i < n; i++ {
		if len(extras) > 0 && rng.Intn(12) == 0 {
			sb.WriteRune(extras[rng.Intn(len(extras))])
		} else {
			sb.WriteString(regexAtoms[rng.Intn(len(regexAtoms))])
		}
		sb.WriteString(regexQuants[rng.Intn(len(regexQuants))])
		if i+1 < n && rng.Intn(8) == 0 {
			sb.WriteRune('|')
		}
	}
	return sb.String()
}

// regexFor derives a pattern from s: a quoted substring with the case of some letters flipped.
func regexFor(rng *rand.Rand, s string) string {
	rs := []rune(s)
	if len(rs) == 0 {
		return ""
	}
	lo := rng.Intn(len(rs))
	hi := lo + 1 + rng.Intn(len(rs)-lo)
	sub := rs[lo:hi]
	out := make([]rune, len(sub))
	for i, r := range sub {
		if rng.Intn(3) == 0 {
			if unicode.IsUpper(r) {
				r = unicode.ToLower(r)
			} else if unicode.IsLower(r) {
				r = unicode.ToUpper(r)
			}
		}
		out[i] = r
	}
	p := regexp.QuoteMeta(string(out))
	switch rng.Intn(6) {
	case 0:
		p = "^" + p
	case 1:
		p = p + "$"
	case 2:
		p = "^" + p + "$"
	}
	return p
}

// pair is one (string, pattern) case.
type pair struct {
	s, p string
}

// genPairs builds n pairs from a pool of nPatterns patterns and a pool of strings; each pattern
// is used with several strings and the order is shuffled, so that the pattern caches inside
// LIKE / ~ / ~* are hit with interleaved patterns (a cache keyed by the wrong string would show).
// kind: "like" | "regex" | "regexci".
func genPairs(rng *rand.Rand, kind string, n int) []pair {
	per := 5
	nPat := n / per
	if nPat < 1 {
		nPat = 1
	}
	var extras []rune
	if kind == "regexci" {
		extras = foldExtras
	}
	out := make([]pair, 0, n)
	for i := 0; i < nPat; i++ {
		base := randString(rng, 6, extras)
		var p string
		switch kind {
		case "like":
			if rng.Intn(2) == 0 {
				p = likePatternFor(rng, base)
			} else {
				p = randString(rng, 6, nil)
			}
		default:
			switch rng.Intn(3) {
			case 0:
				p = randString(rng, 6, extras)
			case 1:
				p = grammarRegex(rng, extras)
			default:
				p = regexFor(rng, base)
			}
		}
		for k := 0; k < per && len(out) < n; k++ {
			s := base
			switch {
			case k == 0:
			case k == 1:
				s = mutate(rng, base, extras)
			case k == 2 && kind != "like":
				s = swapCase(base)
			default:
				s = randString(rng, 6, extras)
			}
			out = append(out, pair{s: s, p: p})
		}
	}
	rng.Shuffle(len(out), func(i, j int) { out[i], out[j] = out[j], out[i] })
	return out
}

func mutate(rng *rand.Rand, s string, extras []rune) string {
	rs := []rune(s)
	switch rng.Intn(3) {
	case 0: // insert
		i := rng.Intn(len(rs) + 1)
		rs = append(rs[:i], append([]rune{randRune(rng, extras)}, rs[i:]...)...)
	case 1: // delete
		if len(rs) > 0 {
			i := rng.Intn(len(rs))
			rs = append(rs[:i], rs[i+1:]...)
		}
	default: // replace
		if len(rs) > 0 {
			rs[rng.Intn(len(rs))] = randRune(rng, extras)
		}
	}
	if len(rs) > 6 {
		rs = rs[:6]
	}
	return string(rs)
}

func swapCase(s string) string {
	rs := []rune(s)
	for i, r := range rs {
		if unicode.IsUpper(r) {
			rs[i] = unicode.ToLower(r)
		} else if unicode.IsLower(r) {
			rs[i] = unicode.ToUpper(r)
		}
	}
	return string(rs)
}

// allStrings enumerates every string of length <= maxLen over the alphabet, in a fixed order.
func allStrings(alphabet []rune, maxLen int) []string {
	out := []string{""}
	prev := []string{""}
	for l := 1; l <= maxLen; l++ {
		var cur []string
		for _, p := range prev {
			for _, r := range alphabet {
				cur = append(cur, p+string(r))
			}
		}
		out = append(out, cur...)
		prev = cur
	}
	return out
}

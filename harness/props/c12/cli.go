package c12

import (
	"encoding/json"
	"fmt"
	"strings"
	"time"

	"github.com/cube2222/octosql/plugins/verifharness/cli"
	"github.com/cube2222/octosql/plugins/verifharness/core"
)

// cliLeg pushes the sampled cases through SQL literals and the real binary (-o json) and judges
// the decoded cells with the same oracle as the in-process leg. Cases are batched 20 to a query;
// when a batch fails as a whole (one erroring expression fails the query) its cases are re-run one
// per query so that each gets its own result.
func cliLeg(r *runner, sample []kase) {
	c := r.c
	run := cli.NewRunner(c.BinDir, c.Scratch)
	for i := range sample {
		sample[i].id = "cli-" + sample[i].id
	}
	// every third pattern case also through the negated operator
	n := len(sample)
	for i := 0; i < n; i++ {
		if k := sample[i]; i%3 == 0 && (k.fn == "like" || k.fn == "~" || k.fn == "~*") && !strings.HasPrefix(k.id, "cli-probe") {
			k.neg = true
			k.id += "-neg"
			sample = append(sample, k)
		}
	}
	if r.only != "" {
		var one []kase
		for _, k := range sample {
			if k.id == r.only {
				one = append(one, k)
			}
		}
		sample = one
	}
	const batch = 20
	nb := (len(sample) + batch - 1) / batch
	core.Parallel(nb, 8, func(b int) {
		lo, hi := b*batch, (b+1)*batch
		if hi > len(sample) {
			hi = len(sample)
		}
		ks := sample[lo:hi]
		results, good := runBatch(c, run, ks)
		if !good {
			c.Count("cli/batches_rerun_one_by_one", 1)
			for _, k := range ks {
				rs, _ := runBatch(c, run, []kase{k})
				if rs == nil {
					continue
				}
				r.account(k, rs[0], "cli")
			}
			return
		}
		for i, k := range ks {
			r.account(k, results[i], "cli")
		}
		if b < 2 {
			c.Sample(map[string]interface{}{"id": ks[0].id, "leg": "cli", "sql": "SELECT " + ks[0].sql() + " AS c0", "result": results[0].String()})
		}
	})
	c.Note("cli_cases", len(sample))
}

// runBatch runs one query. good=false means the query failed as a whole; for a single-case batch
// the failure is that case's result (error or panic). nil results = watchdog / undecodable.
func runBatch(c *core.Ctx, run *cli.Runner, ks []kase) (results []result, good bool) {
	parts := make([]string, len(ks))
	for i, k := range ks {
		parts[i] = fmt.Sprintf("%s AS c%d", k.sql(), i)
	}
	sql := "SELECT " + strings.Join(parts, ", ")
	res := run.Exec(cli.Run{Args: []string{sql, "-o", "json"}, Timeout: 60 * time.Second})
	if res.TimedOut {
		c.Inconclusive("watchdog")
		return nil, false
	}
	if res.Panicked() {
		if len(ks) > 1 {
			return nil, false
		}
		site, msg := res.PanicSite()
		return []result{{kind: "panic", site: site, msg: msg}}, false
	}
	if res.Exit != 0 {
		if len(ks) > 1 {
			return nil, false
		}
		return []result{{kind: "error", msg: lastLine(string(res.Stderr))}}, false
	}
	rows, err := cli.DecodeJSONLines(res.Stdout)
	if err != nil || len(rows) != 1 {
		// e.g. the JSON formatter prints a NUL rune as \x00 (C25's subject): the cell cannot be read
		if len(ks) > 1 {
			return nil, false
		}
		return []result{{kind: "other", msg: fmt.Sprintf("undecodable -o json output %q (%v)", trunc(string(res.Stdout)), err)}}, false
	}
	results = make([]result, len(ks))
	for i := range ks {
		v, present := rows[0].Values[fmt.Sprintf("c%d", i)]
		if !present {
			results[i] = result{kind: "other", msg: "column missing"}
			continue
		}
		switch x := v.(type) {
		case nil:
			results[i] = result{kind: "null"}
		case bool:
			results[i] = result{kind: "bool", b: x}
		case string:
			results[i] = result{kind: "string", s: x}
		case json.Number:
			n, err := x.Int64()
			if err != nil {
				results[i] = result{kind: "other", msg: x.String()}
			} else {
				results[i] = result{kind: "int", i: n}
			}
		default:
			results[i] = result{kind: "other", msg: fmt.Sprint(x)}
		}
	}
	return results, true
}

func lastLine(s string) string {
	s = strings.TrimRight(s, "\n")
	if i := strings.LastIndex(s, "\n"); i >= 0 {
		s = s[i+1:]
	}
	if len(s) > 300 {
		s = s[:300]
	}
	return s
}

func trunc(s string) string {
	if len(s) > 200 {
		return s[:200] + "..."
	}
	return s
}

package chlog

import (
	"fmt"
	"math/rand"
	"strconv"
	"strings"
	"time"

	"github.com/cube2222/octosql/aggregates"
	"github.com/cube2222/octosql/execution"
	"github.com/cube2222/octosql/execution/nodes"
	"github.com/cube2222/octosql/octosql"
	"github.com/cube2222/octosql/physical"

	"github.com/cube2222/octosql/plugins/verifharness/nodeh"
)

// Kind is one node kind / pipeline of the catalogue.
type Kind struct {
	Name string
	// C15: the kind has a batch reference (judged by C15 and C18); otherwise C18 only.
	C15 bool
	Gen func(rng *rand.Rand, id string) *Case
}

// ---- value pools ------------------------------------------------------------------------------

func str(s string) octosql.Value { return octosql.NewString(s) }
func num(i int) octosql.Value    { return octosql.NewInt(int64(i)) }

var null = octosql.NewNull()

func intOrNull(rng *rand.Rand, nullPct int, max int) octosql.Value {
	if rng.Intn(100) < nullPct {
		return null
	}
	return num(1 + rng.Intn(max))
}

// distinctPool draws 1..4 distinct rows with mk (bounded retries).
func distinctPool(rng *rand.Rand, mk func() []octosql.Value) [][]octosql.Value {
	want := 1 + rng.Intn(4)
	seen := map[string]bool{}
	var pool [][]octosql.Value
	for try := 0; try < 40 && len(pool) < want; try++ {
		r := mk()
		k := nodeh.RowKey(r)
		if seen[k] {
			continue
		}
		seen[k] = true
		pool = append(pool, r)
	}
	return pool
}

var keys = []string{"a", "b", "c"}

// poolKV: rows [k String, v Int|NULL].
func poolKV(rng *rand.Rand) [][]octosql.Value {
	nk := 1 + rng.Intn(3)
	return distinctPool(rng, func() []octosql.Value {
		return []octosql.Value{str(keys[rng.Intn(nk)]), intOrNull(rng, 20, 3)}
	})
}

// poolTKV: rows [t Time (filled in by the generator), k String, v Int|NULL].
func poolTKV(rng *rand.Rand) [][]octosql.Value {
	nk := 1 + rng.Intn(3)
	return distinctPool(rng, func() []octosql.Value {
		return []octosql.Value{octosql.NewTime(time.Time{}), str(keys[rng.Intn(nk)]), intOrNull(rng, 20, 3)}
	})
}

// Group-by value domain: small ints around zero (so that sums cross and hit zero while the group is
// non-empty) and NULL (so that "every input is NULL" and "the inputs sum to 0" both occur).
func gbValue(rng *rand.Rand) octosql.Value {
	if rng.Intn(100) < 25 {
		return null
	}
	return num(rng.Intn(5) - 2)
}

// poolGB: rows [k String, v in {-2..2}|NULL] over few keys.
func poolGB(rng *rand.Rand) [][]octosql.Value {
	nk := 1 + rng.Intn(2)
	return distinctPool(rng, func() []octosql.Value { return []octosql.Value{str(keys[rng.Intn(nk)]), gbValue(rng)} })
}

// poolTGB: rows [t Time (filled in by the generator), k String, v in {-2..2}|NULL].
func poolTGB(rng *rand.Rand) [][]octosql.Value {
	nk := 1 + rng.Intn(2)
	return distinctPool(rng, func() []octosql.Value {
		return []octosql.Value{octosql.NewTime(time.Time{}), str(keys[rng.Intn(nk)]), gbValue(rng)}
	})
}

// indexOfID parses the case index out of "<kind>#<index>" (-1 if absent).
func indexOfID(id string) int {
	i := strings.LastIndexByte(id, '#')
	if i < 0 {
		return -1
	}
	n, err := strconv.Atoi(id[i+1:])
	if err != nil {
		return -1
	}
	return n
}

// fixedGroupBy: the first cases of every group-by kind are fixed scripts (in every tier and seed):
// a non-empty group whose inputs total exactly 0 ({5,-2,-3}; {0}; {5,7,-5} after 7 is retracted;
// {1,-1} next to an all-NULL group), a group of NULLs only, a group emptied and refilled.
// step: +k,v  |  -k,v  |  nil v = NULL. Returns nil beyond the last fixed script.
func fixedGroupBy(idx int, timed bool) []nodeh.Event {
	type st struct {
		retr bool
		k    string
		v    interface{}
	}
	scripts := [][]st{
		{{false, "a", 5}, {false, "a", -2}, {false, "a", -3}},
		{{false, "a", 0}},
		{{false, "a", 5}, {false, "a", 7}, {false, "a", -5}, {true, "a", 7}},
		{{false, "a", 1}, {false, "a", -1}, {false, "b", nil}},
		{{false, "a", nil}, {false, "a", nil}, {false, "b", 0}, {false, "b", 0}},
		{{false, "a", 2}, {true, "a", 2}, {false, "a", -1}, {false, "a", 1}, {false, "b", 3}, {false, "b", nil}, {true, "b", 3}},
		{{false, "a", 2}, {false, "a", -2}, {false, "a", nil}, {true, "a", nil}, {false, "b", -1}, {false, "b", -1}, {false, "b", 2}},
		{{false, "a", 1}, {false, "a", 1}, {false, "a", -2}, {false, "a", 3}, {true, "a", 3}, {false, "a", nil}},
	}
	if idx < 0 || idx >= 2*len(scripts) {
		return nil
	}
	withWM := idx >= len(scripts) // second round: the same scripts followed by a watermark
	sc := scripts[idx%len(scripts)]
	var evs []nodeh.Event
	for _, s := range sc {
		v := null
		if n, ok := s.v.(int); ok {
			v = num(n)
		}
		row := []octosql.Value{str(s.k), v}
		if timed {
			row = append([]octosql.Value{octosql.NewTime(TS(1))}, row...)
		}
		evs = append(evs, nodeh.Rec(row, s.retr, TS(1)))
	}
	if withWM {
		evs = append(evs, nodeh.WM(TS(1)))
	}
	return evs
}

// gbInput: the input of a group-by case: a fixed script for the first indices, generated otherwise.
func gbInput(rng *rand.Rand, id string, timed bool) []nodeh.Event {
	if evs := fixedGroupBy(indexOfID(id), timed); evs != nil {
		return evs
	}
	if timed {
		return Gen(rng, timedOpts(rng, poolTGB(rng)))
	}
	return Gen(rng, baseOpts(rng, poolGB(rng)))
}

// poolList: rows [k String, l List<Int>].
func poolList(rng *rand.Rand) [][]octosql.Value {
	lists := [][]octosql.Value{{}, {num(1)}, {num(1), num(2)}, {num(2), num(2)}, {num(3), num(1), num(3)}}
	return distinctPool(rng, func() []octosql.Value {
		return []octosql.Value{str(keys[rng.Intn(2)]), octosql.NewList(lists[rng.Intn(len(lists))])}
	})
}

func baseOpts(rng *rand.Rand, pool [][]octosql.Value) GenOpts {
	return GenOpts{Pool: pool, TimeCol: -1, AllowZero: true, Watermarks: true, MinLen: 5, MaxLen: 60, FinalWM: 30, TimeSpread: 1 + rng.Intn(4)}
}

func timedOpts(rng *rand.Rand, pool [][]octosql.Value) GenOpts {
	o := baseOpts(rng, pool)
	o.TimeCol = 0
	o.AllowZero = false
	return o
}

// ---- expression helpers (the expressions are not under test: plain Go closures wrapped in the
// real FunctionCall / Variable / Constant expression nodes) ------------------------------------------

func variable(i int) execution.Expression { return execution.NewVariable(0, i) }

func call(f func([]octosql.Value) octosql.Value, nullCheck []int, args ...execution.Expression) execution.Expression {
	return execution.NewFunctionCall(func(a []octosql.Value) (octosql.Value, error) { return f(a), nil }, args, nullCheck)
}

type predicate struct {
	name string
	expr func() execution.Expression
	ref  func(row []octosql.Value, col int) bool
}

// predicates over column col (Int|NULL) and column 0 (String).
func predicates(col int) []predicate {
	return []predicate{
		{"v>=2", func() execution.Expression {
			return call(func(a []octosql.Value) octosql.Value { return octosql.NewBoolean(a[0].Int >= 2) }, []int{0}, variable(col))
		}, func(r []octosql.Value, c int) bool { return r[c].TypeID == octosql.TypeIDInt && r[c].Int >= 2 }},
		{"k='a'", func() execution.Expression {
			return call(func(a []octosql.Value) octosql.Value { return octosql.NewBoolean(a[0].Str == "a") }, []int{0}, variable(col-1))
		}, func(r []octosql.Value, c int) bool { return r[c-1].Str == "a" }},
		{"v IS NULL", func() execution.Expression {
			return call(func(a []octosql.Value) octosql.Value { return octosql.NewBoolean(a[0].TypeID == octosql.TypeIDNull) }, nil, variable(col))
		}, func(r []octosql.Value, c int) bool { return r[c].TypeID == octosql.TypeIDNull }},
		{"TRUE", func() execution.Expression { return execution.NewConstant(octosql.NewBoolean(true)) },
			func(r []octosql.Value, c int) bool { return true }},
		{"FALSE", func() execution.Expression { return execution.NewConstant(octosql.NewBoolean(false)) },
			func(r []octosql.Value, c int) bool { return false }},
		{"NULL", func() execution.Expression { return execution.NewConstant(octosql.NewNull()) },
			func(r []octosql.Value, c int) bool { return false }},
	}
}

// ---- single-input kinds over [k, v] -------------------------------------------------------------

func genFilter(rng *rand.Rand, id string) *Case {
	pool := poolKV(rng)
	p := predicates(1)[rng.Intn(6)]
	return &Case{
		ID: id, Kind: "filter", Variant: p.name,
		Inputs: [][]nodeh.Event{Gen(rng, baseOpts(rng, pool))},
		Build:  func(s []execution.Node) execution.Node { return nodes.NewFilter(s[0], p.expr()) },
		Ref: func(in []Rel) nodeh.Multiset {
			return RefFilter(in[0], func(r []octosql.Value) bool { return p.ref(r, 1) })
		},
		Meta: Meta{RecordWise: true, KeyTimeIdx: -1},
	}
}

type mapping struct {
	name  string
	exprs func() []execution.Expression
	ref   func(r []octosql.Value) []octosql.Value
}

var mappings = []mapping{
	{"k,v", func() []execution.Expression { return []execution.Expression{variable(0), variable(1)} },
		func(r []octosql.Value) []octosql.Value { return []octosql.Value{r[0], r[1]} }},
	{"k", func() []execution.Expression { return []execution.Expression{variable(0)} },
		func(r []octosql.Value) []octosql.Value { return []octosql.Value{r[0]} }},
	{"v+1,k,7", func() []execution.Expression {
		return []execution.Expression{
			call(func(a []octosql.Value) octosql.Value { return octosql.NewInt(a[0].Int + 1) }, []int{0}, variable(1)),
			variable(0), execution.NewConstant(octosql.NewInt(7))}
	}, func(r []octosql.Value) []octosql.Value {
		v := octosql.NewNull()
		if r[1].TypeID == octosql.TypeIDInt {
			v = octosql.NewInt(r[1].Int + 1)
		}
		return []octosql.Value{v, r[0], octosql.NewInt(7)}
	}},
	{"v/2", func() []execution.Expression {
		return []execution.Expression{call(func(a []octosql.Value) octosql.Value { return octosql.NewInt(a[0].Int / 2) }, []int{0}, variable(1))}
	}, func(r []octosql.Value) []octosql.Value {
		if r[1].TypeID != octosql.TypeIDInt {
			return []octosql.Value{octosql.NewNull()}
		}
		return []octosql.Value{octosql.NewInt(r[1].Int / 2)}
	}},
	{"()", func() []execution.Expression { return []execution.Expression{} },
		func(r []octosql.Value) []octosql.Value { return []octosql.Value{} }},
}

func genMap(rng *rand.Rand, id string) *Case {
	pool := poolKV(rng)
	m := mappings[rng.Intn(len(mappings))]
	return &Case{
		ID: id, Kind: "map", Variant: m.name,
		Inputs: [][]nodeh.Event{Gen(rng, baseOpts(rng, pool))},
		Build:  func(s []execution.Node) execution.Node { return nodes.NewMap(s[0], m.exprs()) },
		Ref:    func(in []Rel) nodeh.Multiset { return RefMap(in[0], m.ref) },
		Meta:   Meta{RecordWise: true, KeyTimeIdx: -1},
	}
}

func genDistinct(rng *rand.Rand, id string) *Case {
	pool := poolKV(rng)
	return &Case{
		ID: id, Kind: "distinct", Variant: "-",
		Inputs: [][]nodeh.Event{Gen(rng, baseOpts(rng, pool))},
		Build:  func(s []execution.Node) execution.Node { return nodes.NewDistinct(s[0]) },
		Ref:    func(in []Rel) nodeh.Multiset { return RefDistinct(in[0]) },
		Meta:   Meta{KeyTimeIdx: -1},
	}
}

func genUnnest(rng *rand.Rand, id string) *Case {
	pool := poolList(rng)
	return &Case{
		ID: id, Kind: "unnest", Variant: "col1",
		Inputs: [][]nodeh.Event{Gen(rng, baseOpts(rng, pool))},
		Build:  func(s []execution.Node) execution.Node { return nodes.NewUnnest(s[0], 1) },
		Ref: func(in []Rel) nodeh.Multiset {
			return RefFlatMap(in[0], func(r []octosql.Value) [][]octosql.Value {
				var out [][]octosql.Value
				for _, e := range r[1].List {
					out = append(out, []octosql.Value{r[0], e})
				}
				return out
			})
		},
		Meta: Meta{RecordWise: true, KeyTimeIdx: -1},
	}
}

// ---- group by -------------------------------------------------------------------------------------

func aggProtos() []func() nodes.Aggregate {
	return []func() nodes.Aggregate{aggregates.NewCountPrototype(), aggregates.NewSumIntPrototype(), aggregates.NewMinPrototype(),
		aggregates.NewMaxPrototype(), aggregates.NewAverageIntPrototype()}
}

// aggExprs: every aggregate of aggProtos reads column col.
func aggExprs(col int) []execution.Expression {
	return []execution.Expression{variable(col), variable(col), variable(col), variable(col), variable(col)}
}

func aggSpecs(col int) []AggSpec {
	return []AggSpec{{"count", col}, {"sum", col}, {"min", col}, {"max", col}, {"avg", col}}
}

const sqlAggs = "COUNT(*) AS c, SUM(v) AS s, MIN(v) AS mn, MAX(v) AS mx, AVG(v) AS av, COUNT(v) AS cv"

func sqlAggSpecs(col int) []AggSpec {
	return []AggSpec{{"count_star", 0}, {"sum", col}, {"min", col}, {"max", col}, {"avg", col}, {"count", col}}
}

func genSimpleGroupBy(rng *rand.Rand, id string) *Case {
	global := rng.Intn(4) == 0
	variant := "key=k count,sum,min,max,avg(v)"
	keyCols := []int{0}
	if global {
		variant = "key=() count,sum,min,max,avg(v)"
		keyCols = []int{}
	}
	return &Case{
		ID: id, Kind: "simple_group_by", Variant: variant,
		Inputs: [][]nodeh.Event{gbInput(rng, id, false)},
		Build: func(s []execution.Node) execution.Node {
			ke := []execution.Expression{}
			for _, kc := range keyCols {
				ke = append(ke, variable(kc))
			}
			return nodes.NewSimpleGroupBy(aggProtos(), aggExprs(1), ke, s[0])
		},
		Ref: func(in []Rel) nodeh.Multiset {
			return RefGroupBy(in[0], keyCols, aggSpecs(1))
		},
		Meta: Meta{EmitsAtEnd: true, KeyTimeIdx: -1},
	}
}

// TriggerSpec describes a trigger configuration: a list of parts "counting:n" | "watermark" | "eos".
type TriggerSpec []string

func (t TriggerSpec) String() string {
	s := ""
	for i, p := range t {
		if i > 0 {
			s += "+"
		}
		s += p
	}
	return s
}

func (t TriggerSpec) Has(prefix string) bool {
	for _, p := range t {
		if len(p) >= len(prefix) && p[:len(prefix)] == prefix {
			return true
		}
	}
	return false
}

func (t TriggerSpec) prototype(timeKeyIdx int) func() execution.Trigger {
	protos := make([]func() execution.Trigger, len(t))
	for i, p := range t {
		switch {
		case p == "watermark":
			protos[i] = execution.NewWatermarkTriggerPrototype(timeKeyIdx)
		case p == "eos":
			protos[i] = execution.NewEndOfStreamTriggerPrototype()
		default:
			var n uint
			fmt.Sscanf(p, "counting:%d", &n)
			protos[i] = execution.NewCountingTriggerPrototype(n)
		}
	}
	if len(protos) == 1 {
		return protos[0]
	}
	return execution.NewMultiTriggerPrototype(protos)
}

func (t TriggerSpec) sql() string {
	s := ""
	for i, p := range t {
		if i > 0 {
			s += ", "
		}
		switch {
		case p == "watermark":
			s += "ON WATERMARK"
		case p == "eos":
			s += "ON END OF STREAM"
		default:
			var n uint
			fmt.Sscanf(p, "counting:%d", &n)
			s += fmt.Sprintf("COUNTING %d", n)
		}
	}
	return s
}

func countingPart(rng *rand.Rand) string { return fmt.Sprintf("counting:%d", 1+rng.Intn(3)) }

// randomTrigger draws a configuration; withWatermark says whether ON WATERMARK may be part of it
// (it needs the time field among the keys).
func randomTrigger(rng *rand.Rand, which string, withWatermark bool) TriggerSpec {
	switch which {
	case "counting":
		return TriggerSpec{countingPart(rng)}
	case "eos":
		return TriggerSpec{"eos"}
	case "watermark":
		return TriggerSpec{"watermark"}
	}
	// multi: 2..3 distinct parts in a random order
	parts := []string{countingPart(rng), "eos"}
	if withWatermark {
		parts = append(parts, "watermark")
	}
	rng.Shuffle(len(parts), func(i, j int) { parts[i], parts[j] = parts[j], parts[i] })
	n := 2
	if len(parts) == 3 && rng.Intn(2) == 0 {
		n = 3
	}
	return TriggerSpec(parts[:n])
}

// genCTGB: CustomTriggerGroupBy built by hand. Untimed rows [k,v] group by k (no key event time);
// timed rows [t,k,v] group by (t,k) with keyEventTimeIndex 0, as `GROUP BY t, k` over a table whose
// time field is t.
func genCTGB(which string) func(rng *rand.Rand, id string) *Case {
	return func(rng *rand.Rand, id string) *Case {
		timed := which == "watermark" || rng.Intn(2) == 0
		trig := randomTrigger(rng, which, timed)
		var in []nodeh.Event
		keyCols := []int{0}
		vcol := 1
		kti := -1
		if timed {
			in = gbInput(rng, id, true)
			keyCols = []int{0, 1}
			vcol = 2
			kti = 0
		} else {
			in = gbInput(rng, id, false)
		}
		variant := trig.String()
		if timed {
			variant += " key=(t,k)"
		} else {
			variant += " key=(k)"
		}
		return &Case{
			ID: id, Kind: "ctgb/" + which, Variant: variant,
			Inputs: [][]nodeh.Event{in},
			Build: func(s []execution.Node) execution.Node {
				ke := []execution.Expression{}
				for _, kc := range keyCols {
					ke = append(ke, variable(kc))
				}
				return nodes.NewCustomTriggerGroupBy(aggProtos(), aggExprs(vcol), ke, kti, s[0], trig.prototype(0))
			},
			Ref: func(in []Rel) nodeh.Multiset {
				return RefGroupBy(in[0], keyCols, aggSpecs(vcol))
			},
			Meta: Meta{CTGB: true, KeyTimeIdx: kti, Trigger: trig.String()},
		}
	}
}

// ---- joins -----------------------------------------------------------------------------------------

// joinPools: left rows [k, v], right rows [k, w]; keys never NULL (NULL join keys are C02's subject).
func joinPools(rng *rand.Rand) (l, r [][]octosql.Value) {
	nk := 1 + rng.Intn(3)
	l = distinctPool(rng, func() []octosql.Value { return []octosql.Value{str(keys[rng.Intn(nk)]), intOrNull(rng, 15, 2)} })
	r = distinctPool(rng, func() []octosql.Value {
		return []octosql.Value{str(keys[rng.Intn(nk)]), octosql.NewInt(int64(10 + rng.Intn(2)))}
	})
	return
}

func joinInputs(rng *rand.Rand, timed bool) [][]nodeh.Event {
	l, r := joinPools(rng)
	lo, ro := baseOpts(rng, l), baseOpts(rng, r)
	if timed {
		for i := range l {
			l[i] = append([]octosql.Value{octosql.NewTime(time.Time{})}, l[i]...)
		}
		for i := range r {
			r[i] = append([]octosql.Value{octosql.NewTime(time.Time{})}, r[i]...)
		}
		lo, ro = timedOpts(rng, l), timedOpts(rng, r)
	}
	lo.MaxLen, ro.MaxLen = 30, 30
	lo.MinLen, ro.MinLen = 2+rng.Intn(4), 2+rng.Intn(4)
	// one side may carry no watermarks at all / only zero event times (README: then the other
	// side's watermarks are used and the unwatermarked side is read fully)
	switch rng.Intn(8) {
	case 0:
		lo.Watermarks = false
	case 1:
		ro.Watermarks = false
	case 2:
		lo.Watermarks, ro.Watermarks = false, false
	}
	return [][]nodeh.Event{Gen(rng, lo), Gen(rng, ro)}
}

func genStreamJoin(rng *rand.Rand, id string) *Case {
	return &Case{
		ID: id, Kind: "stream_join", Variant: "on k",
		Inputs: joinInputs(rng, false),
		Build: func(s []execution.Node) execution.Node {
			return nodes.NewStreamJoin(s[0], s[1], []execution.Expression{variable(0)}, []execution.Expression{variable(0)})
		},
		Ref:  func(in []Rel) nodeh.Multiset { return RefJoin(in[0], in[1], 0, 0, 2, 2, false, false) },
		Meta: Meta{TwoInput: true, LCols: 2, RCols: 2, KeyTimeIdx: -1},
	}
}

func genOuterJoin(side string) func(rng *rand.Rand, id string) *Case {
	return func(rng *rand.Rand, id string) *Case {
		ol := side == "left" || side == "full"
		or := side == "right" || side == "full"
		return &Case{
			ID: id, Kind: "outer_join/" + side, Variant: "on k",
			Inputs: joinInputs(rng, false),
			Build: func(s []execution.Node) execution.Node {
				return nodes.NewOuterJoin(s[0], s[1], 2, 2, []execution.Expression{variable(0)}, []execution.Expression{variable(0)}, ol, or)
			},
			Ref:  func(in []Rel) nodeh.Multiset { return RefJoin(in[0], in[1], 0, 0, 2, 2, ol, or) },
			Meta: Meta{TwoInput: true, Outer: side, LCols: 2, RCols: 2, KeyTimeIdx: -1},
		}
	}
}

// genLookupJoin: the right side is a static table (insert-only, no watermarks), filtered by
// "right.k = left.k" where left.k is the source record's variable (level 1), as the planner
// builds it; it is evaluated once per source record.
func genLookupJoin(rng *rand.Rand, id string) *Case {
	l, r := joinPools(rng)
	var static [][]octosql.Value
	n := rng.Intn(6)
	for i := 0; i < n; i++ {
		static = append(static, r[rng.Intn(len(r))])
	}
	staticEvs := make([]nodeh.Event, len(static))
	for i, row := range static {
		staticEvs[i] = nodeh.Rec(row, false, time.Time{})
	}
	return &Case{
		ID: id, Kind: "lookup_join", Variant: "static right side",
		Inputs: [][]nodeh.Event{Gen(rng, baseOpts(rng, l))},
		Static: static,
		Build: func(s []execution.Node) execution.Node {
			eq := execution.NewFunctionCall(func(a []octosql.Value) (octosql.Value, error) {
				return octosql.NewBoolean(a[0].Str == a[1].Str), nil
			}, []execution.Expression{execution.NewVariable(0, 0), execution.NewVariable(1, 0)}, []int{0, 1})
			right := nodes.NewFilter(&nodeh.ScriptSource{Events: staticEvs}, eq)
			return nodes.NewLookupJoin(s[0], right)
		},
		Ref: func(in []Rel) nodeh.Multiset {
			return RefJoin(in[0], RelOfRows(static), 0, 0, 2, 2, false, false)
		},
		Meta: Meta{RecordWise: true, LCols: 2, RCols: 2, KeyTimeIdx: -1},
	}
}

// ---- order by / limit -------------------------------------------------------------------------------

func genOrderBy(mode string) func(rng *rand.Rand, id string) *Case {
	return func(rng *rand.Rand, id string) *Case {
		pool := poolKV(rng)
		o := baseOpts(rng, pool)
		noRetr := mode == "limit_noretractions"
		if noRetr {
			o.InsertOnly = true
			o.MaxLen = 25
		}
		specs := []OrderSpec{
			{KeyCols: []int{1}, Dirs: []int{1}},
			{KeyCols: []int{1}, Dirs: []int{-1}},
			{KeyCols: []int{0, 1}, Dirs: []int{-1, 1}},
			{KeyCols: []int{0}, Dirs: []int{1}},
			{KeyCols: []int{}, Dirs: []int{}},
		}
		spec := specs[rng.Intn(len(specs))]
		spec.Limit = -1
		if mode != "plain" {
			spec.Limit = 1 + rng.Intn(5)
		}
		in := Gen(rng, o)
		return &Case{
			ID: id, Kind: "order_by/" + mode, Variant: fmt.Sprintf("keys=%v dirs=%v limit=%d", spec.KeyCols, spec.Dirs, spec.Limit),
			Inputs: [][]nodeh.Event{in},
			Build: func(s []execution.Node) execution.Node {
				ke := []execution.Expression{}
				for _, kc := range spec.KeyCols {
					ke = append(ke, variable(kc))
				}
				var lim *execution.Expression
				if spec.Limit >= 0 {
					var e execution.Expression = execution.NewConstant(octosql.NewInt(int64(spec.Limit)))
					lim = &e
				}
				return nodes.NewOrderSensitiveTransform(s[0], ke, spec.Dirs, lim, noRetr)
			},
			Order: &spec,
			Meta:  Meta{EmitsAtEnd: true, KeyTimeIdx: -1},
		}
	}
}

// ---- C18-only node kinds ----------------------------------------------------------------------------

func genEventTimeBuffer(rng *rand.Rand, id string) *Case {
	pool := poolKV(rng)
	o := baseOpts(rng, pool)
	o.MixedZones = true
	o.FinalWM = 40
	return &Case{
		ID: id, Kind: "event_time_buffer", Variant: "-",
		Inputs: [][]nodeh.Event{Gen(rng, o)},
		Build:  func(s []execution.Node) execution.Node { return nodes.NewEventTimeBuffer(s[0]) },
		Ref:    func(in []Rel) nodeh.Multiset { return in[0].Multiset() },
		Meta:   Meta{Buffer: true, KeyTimeIdx: -1},
	}
}

func genLimit(rng *rand.Rand, id string) *Case {
	pool := poolKV(rng)
	n := 1 + rng.Intn(12)
	return &Case{
		ID: id, Kind: "limit", Variant: fmt.Sprintf("n=%d", n),
		Inputs: [][]nodeh.Event{Gen(rng, baseOpts(rng, pool))},
		Build: func(s []execution.Node) execution.Node {
			return nodes.NewLimit(s[0], execution.NewConstant(octosql.NewInt(int64(n))))
		},
		Meta: Meta{RecordWise: true, LimitN: n, KeyTimeIdx: -1},
	}
}

// ---- SQL kinds (the same node code, wired by octosql's own planner) ------------------------------------

var intOrNullType = octosql.TypeSum(octosql.Int, octosql.Null)

func kvFields(v string) []physical.SchemaField {
	return []physical.SchemaField{{Name: "k", Type: octosql.String}, {Name: v, Type: intOrNullType}}
}

func tkvFields(v string) []physical.SchemaField {
	return []physical.SchemaField{{Name: "t", Type: octosql.Time}, {Name: "k", Type: octosql.String}, {Name: v, Type: intOrNullType}}
}

func genSQLGroupByCounting(rng *rand.Rand, id string) *Case {
	trig := randomTrigger(rng, []string{"counting", "multi"}[rng.Intn(2)], false)
	return &Case{
		ID: id, Kind: "sql/group_by", Variant: trig.String(),
		Inputs: [][]nodeh.Event{gbInput(rng, id, false)},
		SQL:    "SELECT k, " + sqlAggs + " FROM m.t GROUP BY k TRIGGER " + trig.sql(),
		Tables: []TableSpec{{Name: "t", Fields: kvFields("v"), TimeField: -1, Input: 0}},
		Ref: func(in []Rel) nodeh.Multiset {
			return RefGroupBy(in[0], []int{0}, sqlAggSpecs(1))
		},
		Meta: Meta{CTGB: true, KeyTimeIdx: -1, Trigger: trig.String()},
	}
}

func genSQLGroupByTime(rng *rand.Rand, id string) *Case {
	trig := randomTrigger(rng, []string{"watermark", "multi", "counting"}[rng.Intn(3)], true)
	return &Case{
		ID: id, Kind: "sql/group_by_time", Variant: trig.String(),
		Inputs: [][]nodeh.Event{gbInput(rng, id, true)},
		SQL:    "SELECT t, k, " + sqlAggs + " FROM m.t GROUP BY t, k TRIGGER " + trig.sql(),
		Tables: []TableSpec{{Name: "t", Fields: tkvFields("v"), TimeField: 0, Input: 0}},
		Ref: func(in []Rel) nodeh.Multiset {
			return RefGroupBy(in[0], []int{0, 1}, sqlAggSpecs(2))
		},
		Meta: Meta{CTGB: true, KeyTimeIdx: 0, Trigger: trig.String()},
	}
}

func genSQLDistinctFilter(rng *rand.Rand, id string) *Case {
	return &Case{
		ID: id, Kind: "sql/distinct_filter_map", Variant: "-",
		Inputs: [][]nodeh.Event{Gen(rng, baseOpts(rng, poolKV(rng)))},
		SQL:    "SELECT DISTINCT k, v + 1 AS w FROM m.t WHERE v >= 2",
		Tables: []TableSpec{{Name: "t", Fields: kvFields("v"), TimeField: -1, Input: 0}},
		Ref: func(in []Rel) nodeh.Multiset {
			m := nodeh.Multiset{}
			for _, c := range in[0] {
				if c.N > 0 && c.Values[1].TypeID == octosql.TypeIDInt && c.Values[1].Int >= 2 {
					k := nodeh.RowKey([]octosql.Value{c.Values[0], octosql.NewInt(c.Values[1].Int + 1)})
					if m[k] == 0 {
						m.Add(k, 1)
					}
				}
			}
			return m
		},
		Meta: Meta{KeyTimeIdx: -1, Pipeline: "filter>map>distinct"},
	}
}

func genSQLJoin(rng *rand.Rand, id string) *Case {
	kind := []string{"JOIN", "LEFT JOIN", "RIGHT JOIN", "OUTER JOIN"}[rng.Intn(4)]
	ol := kind == "LEFT JOIN" || kind == "OUTER JOIN"
	or := kind == "RIGHT JOIN" || kind == "OUTER JOIN"
	outer := ""
	switch kind {
	case "LEFT JOIN":
		outer = "left"
	case "RIGHT JOIN":
		outer = "right"
	case "OUTER JOIN":
		outer = "full"
	}
	return &Case{
		ID: id, Kind: "sql/join", Variant: kind,
		Inputs: joinInputs(rng, false),
		SQL:    "SELECT a.k AS ak, a.v AS av, b.k AS bk, b.w AS bw FROM m.a a " + kind + " m.b b ON a.k = b.k",
		Tables: []TableSpec{{Name: "a", Fields: kvFields("v"), TimeField: -1, Input: 0}, {Name: "b", Fields: kvFields("w"), TimeField: -1, Input: 1}},
		Ref:    func(in []Rel) nodeh.Multiset { return RefJoin(in[0], in[1], 0, 0, 2, 2, ol, or) },
		Meta:   Meta{TwoInput: true, Outer: outer, LCols: 2, RCols: 2, KeyTimeIdx: -1, Foreign: false, Pipeline: "join>map"},
	}
}

func genSQLOrderLimit(rng *rand.Rand, id string) *Case {
	lim := 1 + rng.Intn(5)
	spec := OrderSpec{KeyCols: []int{1, 0}, Dirs: []int{-1, 1}, Limit: lim}
	return &Case{
		ID: id, Kind: "sql/order_by_limit", Variant: fmt.Sprintf("limit=%d", lim),
		Inputs: [][]nodeh.Event{Gen(rng, baseOpts(rng, poolKV(rng)))},
		SQL:    fmt.Sprintf("SELECT k, v FROM m.t ORDER BY v DESC, k LIMIT %d", lim),
		Output: "stream_native",
		Tables: []TableSpec{{Name: "t", Fields: kvFields("v"), TimeField: -1, Input: 0}},
		Order:  &spec,
		Meta:   Meta{EmitsAtEnd: true, KeyTimeIdx: -1},
	}
}

// ---- C18-only SQL kinds: TVFs and pipelines -------------------------------------------------------------

func genSQLTumble(rng *rand.Rand, id string) *Case {
	w := 2 + rng.Intn(3)
	return &Case{
		ID: id, Kind: "sql/tumble", Variant: fmt.Sprintf("window=%ds", w),
		Inputs: [][]nodeh.Event{Gen(rng, timedOpts(rng, poolTKV(rng)))},
		SQL:    fmt.Sprintf("SELECT * FROM tumble(source=>TABLE(m.t), window_length=>INTERVAL %d SECONDS) x", w),
		Tables: []TableSpec{{Name: "t", Fields: tkvFields("v"), TimeField: 0, Input: 0}},
		Ref: func(in []Rel) nodeh.Multiset {
			return RefMap(in[0], func(r []octosql.Value) []octosql.Value { return tumbleRow(r, w) })
		},
		Meta: Meta{RecordWise: true, KeyTimeIdx: -1, Pipeline: "tumble"},
	}
}

// tumbleRow appends window_start/window_end (windows aligned to the zero time, no offset), using
// only the Go standard library.
func tumbleRow(r []octosql.Value, w int) []octosql.Value {
	d := time.Duration(w) * time.Second
	start := r[0].Time.Truncate(d)
	out := append([]octosql.Value{}, r...)
	return append(out, octosql.NewTime(start), octosql.NewTime(start.Add(d)))
}

// genSQLMaxDiff: an unwatermarked table whose time column is in random order; max_diff_watermark
// stamps event times and generates the watermarks (dropping what is late by its own watermark).
func genSQLMaxDiff(rng *rand.Rand, id string) *Case {
	n := 5 + rng.Intn(40)
	evs := make([]nodeh.Event, n)
	cur := 5
	for i := range evs {
		cur += rng.Intn(5) - 1
		if cur < 1 {
			cur = 1
		}
		t := cur
		if rng.Intn(5) == 0 {
			t = 1 + rng.Intn(cur)
		}
		evs[i] = nodeh.Rec([]octosql.Value{octosql.NewTime(TS(t)), str(keys[rng.Intn(3)]), intOrNull(rng, 10, 3)}, false, time.Time{})
	}
	d := rng.Intn(4)
	return &Case{
		ID: id, Kind: "sql/max_diff_watermark", Variant: fmt.Sprintf("max_diff=%ds", d),
		Inputs: [][]nodeh.Event{evs},
		SQL:    fmt.Sprintf("SELECT * FROM max_diff_watermark(source=>TABLE(m.t), max_diff=>INTERVAL %d SECONDS, time_field=>DESCRIPTOR(t)) x", d),
		Tables: []TableSpec{{Name: "t", Fields: tkvFields("v"), TimeField: -1, Input: 0}},
		Meta:   Meta{KeyTimeIdx: -1, Pipeline: "max_diff_watermark"},
	}
}

func genSQLTumbleGroupBy(rng *rand.Rand, id string) *Case {
	w := 2 + rng.Intn(3)
	trig := randomTrigger(rng, []string{"watermark", "multi", "counting"}[rng.Intn(3)], true)
	return &Case{
		ID: id, Kind: "sql/tumble>group_by", Variant: fmt.Sprintf("window=%ds %s", w, trig),
		Inputs: [][]nodeh.Event{Gen(rng, timedOpts(rng, poolTGB(rng)))},
		SQL: fmt.Sprintf("SELECT window_end, k, COUNT(*) AS c, SUM(v) AS s FROM tumble(source=>TABLE(m.t), window_length=>INTERVAL %d SECONDS) x GROUP BY window_end, k TRIGGER %s",
			w, trig.sql()),
		Tables: []TableSpec{{Name: "t", Fields: tkvFields("v"), TimeField: 0, Input: 0}},
		Ref: func(in []Rel) nodeh.Multiset {
			// tumble, then group by (window_end, k)
			var tumbled Rel
			for _, c := range in[0] {
				tumbled = append(tumbled, Counted{Values: tumbleRow(c.Values, w), N: c.N})
			}
			return RefGroupBy(tumbled, []int{4, 1}, []AggSpec{{"count_star", 0}, {"sum", 2}})
		},
		Meta: Meta{CTGB: true, KeyTimeIdx: 0, Trigger: trig.String(), Pipeline: "tumble>group_by"},
	}
}

func timedJoinTables() []TableSpec {
	return []TableSpec{{Name: "a", Fields: tkvFields("v"), TimeField: 0, Input: 0}, {Name: "b", Fields: tkvFields("w"), TimeField: 0, Input: 1}}
}

// genSQLJoinGroupBy: join -> group-by. Variant "k": GROUP BY a.k TRIGGER COUNTING n (no key event
// time); variant "t": GROUP BY a.t, a.k TRIGGER ON WATERMARK (the join's time field is the left
// one's).
func genSQLJoinGroupBy(rng *rand.Rand, id string) *Case {
	byTime := rng.Intn(2) == 0
	var sql string
	var trig TriggerSpec
	var keyCols []int
	kti := -1
	if byTime {
		trig = randomTrigger(rng, []string{"watermark", "multi"}[rng.Intn(2)], true)
		sql = "SELECT a.t AS t, a.k AS k, COUNT(*) AS c FROM m.a a JOIN m.b b ON a.k = b.k GROUP BY a.t, a.k TRIGGER " + trig.sql()
		keyCols = []int{0, 1}
		kti = 0
	} else {
		trig = randomTrigger(rng, []string{"counting", "multi"}[rng.Intn(2)], false)
		sql = "SELECT a.k AS k, COUNT(*) AS c FROM m.a a JOIN m.b b ON a.k = b.k GROUP BY a.k TRIGGER " + trig.sql()
		keyCols = []int{1}
	}
	return &Case{
		ID: id, Kind: "sql/join>group_by", Variant: trig.String(),
		Inputs: joinInputs(rng, true),
		SQL:    sql,
		Tables: timedJoinTables(),
		Ref: func(in []Rel) nodeh.Multiset {
			// join on k (column 1 of both [t,k,v] / [t,k,w]) then group
			var joined Rel
			for _, l := range in[0] {
				for _, r := range in[1] {
					if nodeh.ValKey(l.Values[1]) == nodeh.ValKey(r.Values[1]) {
						joined = append(joined, Counted{Values: append(append([]octosql.Value{}, l.Values...), r.Values...), N: l.N * r.N})
					}
				}
			}
			return RefGroupBy(joined, keyCols, []AggSpec{{"count_star", 0}})
		},
		Meta: Meta{CTGB: true, KeyTimeIdx: kti, Trigger: trig.String(), Foreign: true, Pipeline: "join>group_by"},
	}
}

// genSQLGroupByJoin: group-by -> join (the group-by runs inside the join's producer goroutine).
func genSQLGroupByJoin(rng *rand.Rand, id string) *Case {
	trig := randomTrigger(rng, []string{"watermark", "multi", "counting"}[rng.Intn(3)], true)
	inputs := joinInputs(rng, true)
	return &Case{
		ID: id, Kind: "sql/group_by>join", Variant: trig.String(),
		Inputs: inputs,
		SQL: "SELECT x.t AS t, x.k AS k, x.c AS c, b.w AS w FROM (SELECT a.t AS t, a.k AS k, COUNT(*) AS c FROM m.a a GROUP BY a.t, a.k TRIGGER " +
			trig.sql() + ") x JOIN m.b b ON x.k = b.k",
		Tables: timedJoinTables(),
		Ref: func(in []Rel) nodeh.Multiset {
			m := nodeh.Multiset{}
			// group a by (t,k)
			type g struct {
				t, k octosql.Value
				n    int
			}
			groups := map[string]*g{}
			var order []string
			for _, c := range in[0] {
				if c.N <= 0 {
					continue
				}
				gk := nodeh.RowKey(c.Values[:2])
				if groups[gk] == nil {
					groups[gk] = &g{t: c.Values[0], k: c.Values[1]}
					order = append(order, gk)
				}
				groups[gk].n += c.N
			}
			for _, gk := range order {
				gr := groups[gk]
				for _, r := range in[1] {
					if nodeh.ValKey(gr.k) == nodeh.ValKey(r.Values[1]) {
						m.Add(nodeh.RowKey([]octosql.Value{gr.t, gr.k, octosql.NewInt(int64(gr.n)), r.Values[2]}), r.N)
					}
				}
			}
			return m
		},
		Meta: Meta{TwoInput: true, KeyTimeIdx: -1, Trigger: trig.String(), Foreign: true, Pipeline: "group_by>join"},
		Inner: &Case{
			ID: id + "/inner", Kind: "sql/group_by_time", Variant: trig.String(),
			Inputs: inputs[:1],
			SQL:    "SELECT a.t AS t, a.k AS k, COUNT(*) AS c FROM m.a a GROUP BY a.t, a.k TRIGGER " + trig.sql(),
			Tables: timedJoinTables()[:1],
			Meta:   Meta{CTGB: true, KeyTimeIdx: 0, Trigger: trig.String()},
		},
	}
}

// ---- C18-only: TVFs and nodes on sources that ALREADY carry watermarks -----------------------------------

func mdwSQL(src string, d int, alias string) string {
	return fmt.Sprintf("SELECT * FROM max_diff_watermark(source=>TABLE(%s), max_diff=>INTERVAL %d SECONDS, time_field=>DESCRIPTOR(t)) %s", src, d, alias)
}

// fixedWatermarkedSource: scripts in which the source's own watermark runs ahead of, level with and
// behind the one max_diff_watermark derives (max_diff 3 s): own watermark, then an upstream
// watermark above it, then a new maximum record whose derived watermark lies below the upstream one.
func fixedWatermarkedSource(idx int) []nodeh.Event {
	type st struct {
		wm bool
		t  int
	}
	scripts := [][]st{
		{{false, 8}, {true, 9}, {false, 10}, {true, 11}, {false, 12}, {false, 14}},          // ahead: own 5, src 9, own 7, src 11, own 9, own 11
		{{false, 8}, {true, 5}, {false, 9}, {true, 6}, {false, 10}, {true, 7}},              // level with the derived ones
		{{false, 8}, {true, 2}, {false, 9}, {true, 3}, {false, 12}, {true, 4}, {false, 13}}, // behind
		{{false, 4}, {false, 6}, {true, 5}, {false, 6}, {false, 7}, {true, 6}, {false, 9}},  // mixed, equal times
	}
	if idx < 0 || idx >= len(scripts) {
		return nil
	}
	var evs []nodeh.Event
	for i, s := range scripts[idx] {
		if s.wm {
			evs = append(evs, nodeh.WM(TS(s.t)))
		} else {
			evs = append(evs, nodeh.Rec([]octosql.Value{octosql.NewTime(TS(s.t)), str(keys[i%2]), num(i)}, false, TS(s.t)))
		}
	}
	return evs
}

// watermarkedInput: a timed, watermarked changelog without late records whose watermarks follow the
// record times closely (so that they run ahead of max_diff_watermark's for max_diff >= 1).
func watermarkedInput(rng *rand.Rand) []nodeh.Event {
	o := timedOpts(rng, poolTKV(rng))
	o.TimeSpread = 1 + rng.Intn(3)
	o.FinalWM = 50
	return Gen(rng, o)
}

// genSQLMaxDiffOverWatermarked: max_diff_watermark over a table that is itself watermarked.
func genSQLMaxDiffOverWatermarked(rng *rand.Rand, id string) *Case {
	d := rng.Intn(5)
	in := fixedWatermarkedSource(indexOfID(id))
	if in != nil {
		d = 3
	} else {
		in = watermarkedInput(rng)
	}
	return &Case{
		ID: id, Kind: "sql/mdw_over_watermarked", Variant: fmt.Sprintf("max_diff=%ds", d),
		Inputs: [][]nodeh.Event{in},
		SQL:    mdwSQL("m.t", d, "x"),
		Tables: []TableSpec{{Name: "t", Fields: tkvFields("v"), TimeField: 0, Input: 0}},
		Meta:   Meta{KeyTimeIdx: -1, Pipeline: "watermarked>max_diff_watermark"},
	}
}

// unorderedTimes: an unwatermarked table whose time column is in random order (zero event times).
func unorderedTimes(rng *rand.Rand) []nodeh.Event {
	n := 5 + rng.Intn(40)
	evs := make([]nodeh.Event, n)
	cur := 5
	for i := range evs {
		cur += rng.Intn(5) - 1
		if cur < 1 {
			cur = 1
		}
		t := cur
		if rng.Intn(5) == 0 {
			t = 1 + rng.Intn(cur)
		}
		evs[i] = nodeh.Rec([]octosql.Value{octosql.NewTime(TS(t)), str(keys[rng.Intn(3)]), intOrNull(rng, 10, 3)}, false, time.Time{})
	}
	return evs
}

// genSQLMaxDiffNested: max_diff_watermark over max_diff_watermark; the inner one is tighter (its
// watermarks run ahead of the outer one's) or looser.
func genSQLMaxDiffNested(rng *rand.Rand, id string) *Case {
	inner, outer := rng.Intn(4), rng.Intn(4)
	if indexOfID(id)%2 == 0 {
		inner, outer = rng.Intn(2), 2+rng.Intn(3) // tighter inside
	}
	return &Case{
		ID: id, Kind: "sql/mdw_nested", Variant: fmt.Sprintf("inner=%ds outer=%ds", inner, outer),
		Inputs: [][]nodeh.Event{unorderedTimes(rng)},
		SQL:    "WITH w AS (" + mdwSQL("m.t", inner, "x") + ") " + mdwSQL("w", outer, "y"),
		Tables: []TableSpec{{Name: "t", Fields: tkvFields("v"), TimeField: -1, Input: 0}},
		Meta:   Meta{KeyTimeIdx: -1, Pipeline: "max_diff_watermark>max_diff_watermark"},
	}
}

// genSQLStackGroupBy: watermarked table -> max_diff_watermark -> tumble -> group-by.
func genSQLStackGroupBy(rng *rand.Rand, id string) *Case {
	d := 1 + rng.Intn(4)
	w := 2 + rng.Intn(3)
	trig := randomTrigger(rng, []string{"watermark", "watermark", "multi", "counting"}[rng.Intn(4)], true)
	return &Case{
		ID: id, Kind: "sql/watermarked>mdw>tumble>group_by", Variant: fmt.Sprintf("max_diff=%ds window=%ds %s", d, w, trig),
		Inputs: [][]nodeh.Event{watermarkedInput(rng)},
		SQL: "WITH w AS (" + mdwSQL("m.t", d, "x") + "), tb AS (SELECT * FROM tumble(source=>TABLE(w), window_length=>INTERVAL " + fmt.Sprint(w) +
			" SECONDS) y) SELECT window_end, k, COUNT(*) AS c FROM tb GROUP BY window_end, k TRIGGER " + trig.sql(),
		Tables: []TableSpec{{Name: "t", Fields: tkvFields("v"), TimeField: 0, Input: 0}},
		Meta:   Meta{CTGB: true, KeyTimeIdx: 0, Trigger: trig.String(), Pipeline: "watermarked>max_diff_watermark>tumble>group_by"},
	}
}

// genSQLStackJoin: two watermarked tables, each under its own max_diff_watermark, joined.
func genSQLStackJoin(rng *rand.Rand, id string) *Case {
	da, db := rng.Intn(4), rng.Intn(4)
	return &Case{
		ID: id, Kind: "sql/watermarked>mdw>join", Variant: fmt.Sprintf("max_diff a=%ds b=%ds", da, db),
		Inputs: joinInputs(rng, true),
		SQL: fmt.Sprintf("SELECT a.t AS t, a.k AS k, a.v AS v, b.w AS w FROM "+
			"(SELECT x.t AS t, x.k AS k, x.v AS v FROM max_diff_watermark(source=>TABLE(m.a), max_diff=>INTERVAL %d SECONDS, time_field=>DESCRIPTOR(t)) x) a JOIN "+
			"(SELECT y.t AS t, y.k AS k, y.w AS w FROM max_diff_watermark(source=>TABLE(m.b), max_diff=>INTERVAL %d SECONDS, time_field=>DESCRIPTOR(t)) y) b ON a.k = b.k", da, db),
		Tables: timedJoinTables(),
		Meta:   Meta{TwoInput: true, KeyTimeIdx: -1, Foreign: true, Pipeline: "watermarked>max_diff_watermark>join"},
	}
}

// Kinds returns the catalogue. C15 uses the kinds with C15 == true; C18 uses all of them.
func Kinds() []Kind {
	return []Kind{
		{"filter", true, genFilter},
		{"map", true, genMap},
		{"distinct", true, genDistinct},
		{"unnest", true, genUnnest},
		{"simple_group_by", true, genSimpleGroupBy},
		{"ctgb/counting", true, genCTGB("counting")},
		{"ctgb/eos", true, genCTGB("eos")},
		{"ctgb/watermark", true, genCTGB("watermark")},
		{"ctgb/multi", true, genCTGB("multi")},
		{"stream_join", true, genStreamJoin},
		{"outer_join/left", true, genOuterJoin("left")},
		{"outer_join/right", true, genOuterJoin("right")},
		{"outer_join/full", true, genOuterJoin("full")},
		{"lookup_join", true, genLookupJoin},
		{"order_by/plain", true, genOrderBy("plain")},
		{"order_by/limit", true, genOrderBy("limit")},
		{"order_by/limit_noretractions", true, genOrderBy("limit_noretractions")},
		{"sql/group_by", true, genSQLGroupByCounting},
		{"sql/group_by_time", true, genSQLGroupByTime},
		{"sql/distinct_filter_map", true, genSQLDistinctFilter},
		{"sql/join", true, genSQLJoin},
		{"sql/order_by_limit", true, genSQLOrderLimit},
		{"event_time_buffer", true, genEventTimeBuffer},
		{"limit", false, genLimit},
		{"sql/tumble", true, genSQLTumble},
		{"sql/max_diff_watermark", false, genSQLMaxDiff},
		{"sql/tumble>group_by", true, genSQLTumbleGroupBy},
		{"sql/join>group_by", true, genSQLJoinGroupBy},
		{"sql/group_by>join", true, genSQLGroupByJoin},
		{"sql/mdw_over_watermarked", false, genSQLMaxDiffOverWatermarked},
		{"sql/mdw_nested", false, genSQLMaxDiffNested},
		{"sql/watermarked>mdw>tumble>group_by", false, genSQLStackGroupBy},
		{"sql/watermarked>mdw>join", false, genSQLStackJoin},
	}
}

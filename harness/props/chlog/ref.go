package chlog

import (
	"sort"

	"github.com/cube2222/octosql/octosql"

	"github.com/cube2222/octosql/plugins/verifharness/nodeh"
)

// Counted is one distinct row of a consolidated changelog with its (signed) multiplicity.
type Counted struct {
	Values []octosql.Value
	N      int
}

// Rel is a consolidated changelog that keeps the row values (nodeh.Multiset only keeps keys).
type Rel []Counted

// Consolidate sums the signed records of a script, keyed by the canonical row encoding; rows
// are returned in order of first appearance (deterministic).
func Consolidate(evs []nodeh.Event) Rel {
	idx := map[string]int{}
	var out Rel
	for _, e := range evs {
		if e.IsWatermark {
			continue
		}
		k := nodeh.RowKey(e.Record.Values)
		i, ok := idx[k]
		if !ok {
			i = len(out)
			idx[k] = i
			out = append(out, Counted{Values: e.Record.Values})
		}
		if e.Record.Retraction {
			out[i].N--
		} else {
			out[i].N++
		}
	}
	res := out[:0]
	for _, c := range out {
		if c.N != 0 {
			res = append(res, c)
		}
	}
	return res
}

func RelOfRows(rows [][]octosql.Value) Rel {
	evs := make([]nodeh.Event, len(rows))
	for i, r := range rows {
		evs[i] = nodeh.Event{}
		evs[i].Record.Values = r
	}
	return Consolidate(evs)
}

func (r Rel) Multiset() nodeh.Multiset {
	m := nodeh.Multiset{}
	for _, c := range r {
		m.Add(nodeh.RowKey(c.Values), c.N)
	}
	return m
}

func (r Rel) Total() int {
	n := 0
	for _, c := range r {
		n += c.N
	}
	return n
}

func isNull(v octosql.Value) bool { return v.TypeID == octosql.TypeIDNull }

// ---- batch reference semantics of the operators ------------------------------------------------

// RefFilter keeps the rows for which pred is TRUE (not FALSE, not NULL).
func RefFilter(in Rel, pred func([]octosql.Value) bool) nodeh.Multiset {
	m := nodeh.Multiset{}
	for _, c := range in {
		if pred(c.Values) {
			m.Add(nodeh.RowKey(c.Values), c.N)
		}
	}
	return m
}

// RefMap applies f to every row (multiplicities of rows that map to the same image add up).
func RefMap(in Rel, f func([]octosql.Value) []octosql.Value) nodeh.Multiset {
	m := nodeh.Multiset{}
	for _, c := range in {
		m.Add(nodeh.RowKey(f(c.Values)), c.N)
	}
	return m
}

// RefFlatMap: every row yields a list of rows (unnest).
func RefFlatMap(in Rel, f func([]octosql.Value) [][]octosql.Value) nodeh.Multiset {
	m := nodeh.Multiset{}
	for _, c := range in {
		for _, r := range f(c.Values) {
			m.Add(nodeh.RowKey(r), c.N)
		}
	}
	return m
}

// RefDistinct: every row present at least once, once.
func RefDistinct(in Rel) nodeh.Multiset {
	m := nodeh.Multiset{}
	for _, c := range in {
		if c.N > 0 {
			m.Add(nodeh.RowKey(c.Values), 1)
		}
	}
	return m
}

// AggSpec is one aggregate of the reference group-by: Kind "count" | "sum" | "min" | "max" | "avg" (Int,
// truncating toward zero) | "count_star"; Col is
// the input column (ignored for count_star). NULL inputs are ignored; an aggregate over no
// non-NULL input is NULL (the C03 convention; count_star never is).
type AggSpec struct {
	Kind string
	Col  int
}

// RefGroupBy groups by the key columns and computes the aggregates from scratch.
func RefGroupBy(in Rel, keyCols []int, aggs []AggSpec) nodeh.Multiset {
	type group struct {
		key   []octosql.Value
		rows  int
		nn    []int
		accum []int64
		sums  []int64 // avg: sum of the non-NULL inputs
	}
	groups := map[string]*group{}
	var order []string
	for _, c := range in {
		if c.N <= 0 {
			continue
		}
		key := make([]octosql.Value, len(keyCols))
		for i, kc := range keyCols {
			key[i] = c.Values[kc]
		}
		gk := nodeh.RowKey(key)
		g, ok := groups[gk]
		if !ok {
			g = &group{key: key, nn: make([]int, len(aggs)), accum: make([]int64, len(aggs)), sums: make([]int64, len(aggs))}
			groups[gk] = g
			order = append(order, gk)
		}
		g.rows += c.N
		for i, a := range aggs {
			switch a.Kind {
			case "count_star":
				g.nn[i] += c.N
				g.accum[i] += int64(c.N)
			case "count":
				if !isNull(c.Values[a.Col]) {
					g.nn[i] += c.N
					g.accum[i] += int64(c.N)
				}
			case "sum":
				if !isNull(c.Values[a.Col]) {
					g.nn[i] += c.N
					g.accum[i] += int64(c.N) * c.Values[a.Col].Int
				}
			case "min", "max":
				if v := c.Values[a.Col]; !isNull(v) {
					if g.nn[i] == 0 || (a.Kind == "min" && v.Int < g.accum[i]) || (a.Kind == "max" && v.Int > g.accum[i]) {
						g.accum[i] = v.Int
					}
					g.nn[i] += c.N
				}
			case "avg":
				if !isNull(c.Values[a.Col]) {
					g.nn[i] += c.N
					g.sums[i] += int64(c.N) * c.Values[a.Col].Int
					g.accum[i] = g.sums[i] / int64(g.nn[i])
				}
			}
		}
	}
	m := nodeh.Multiset{}
	for _, gk := range order {
		g := groups[gk]
		row := make([]octosql.Value, 0, len(keyCols)+len(aggs))
		row = append(row, g.key...)
		for i := range aggs {
			if g.nn[i] > 0 {
				row = append(row, octosql.NewInt(g.accum[i]))
			} else {
				row = append(row, octosql.NewNull())
			}
		}
		m.Add(nodeh.RowKey(row), 1)
	}
	return m
}

// RefJoin: nested-loop equi-join on one key column per side; a NULL key matches nothing (SQL);
// outerLeft/outerRight pad the rows of that side that have no partner with NULLs.
func RefJoin(left, right Rel, lk, rk int, lcols, rcols int, outerLeft, outerRight bool) nodeh.Multiset {
	m := nodeh.Multiset{}
	rightMatched := make([]bool, len(right))
	for _, l := range left {
		matched := false
		for j, r := range right {
			if isNull(l.Values[lk]) || isNull(r.Values[rk]) {
				continue
			}
			if nodeh.ValKey(l.Values[lk]) != nodeh.ValKey(r.Values[rk]) {
				continue
			}
			matched = true
			rightMatched[j] = true
			row := append(append([]octosql.Value{}, l.Values...), r.Values...)
			m.Add(nodeh.RowKey(row), l.N*r.N)
		}
		if !matched && outerLeft {
			row := append([]octosql.Value{}, l.Values...)
			for i := 0; i < rcols; i++ {
				row = append(row, octosql.NewNull())
			}
			m.Add(nodeh.RowKey(row), l.N)
		}
	}
	if outerRight {
		for j, r := range right {
			if rightMatched[j] {
				continue
			}
			row := make([]octosql.Value, 0, lcols+rcols)
			for i := 0; i < lcols; i++ {
				row = append(row, octosql.NewNull())
			}
			row = append(row, r.Values...)
			m.Add(nodeh.RowKey(row), r.N)
		}
	}
	return m
}

// ---- ordering (own comparison: NULL < Int < String by type, then by value; strings bytewise) ----

func typeRank(v octosql.Value) int {
	switch v.TypeID {
	case octosql.TypeIDNull:
		return 0
	case octosql.TypeIDInt:
		return 1
	case octosql.TypeIDString:
		return 4
	case octosql.TypeIDTime:
		return 5
	}
	return 9
}

// CmpVal compares two values of the small domain the generators use.
func CmpVal(a, b octosql.Value) int {
	ra, rb := typeRank(a), typeRank(b)
	if ra != rb {
		if ra < rb {
			return -1
		}
		return 1
	}
	switch a.TypeID {
	case octosql.TypeIDInt:
		switch {
		case a.Int < b.Int:
			return -1
		case a.Int > b.Int:
			return 1
		}
	case octosql.TypeIDString:
		switch {
		case a.Str < b.Str:
			return -1
		case a.Str > b.Str:
			return 1
		}
	case octosql.TypeIDTime:
		switch {
		case a.Time.Before(b.Time):
			return -1
		case a.Time.After(b.Time):
			return 1
		}
	}
	return 0
}

// CmpKeys compares rows by the key columns with direction multipliers (1 asc, -1 desc).
func CmpKeys(a, b []octosql.Value, keyCols []int, dirs []int) int {
	for i, kc := range keyCols {
		if c := CmpVal(a[kc], b[kc]); c != 0 {
			return c * dirs[i]
		}
	}
	return 0
}

// CheckOrdered judges the rows an ORDER BY (+ LIMIT) emitted against the consolidated input,
// tie-tolerantly (DESIGN §3.2): the rows must be sorted by the keys; without a limit they must be
// the input as a multiset; with LIMIT n there must be min(n, total) rows, every input row whose
// key is strictly before the boundary key must be present with its full multiplicity and the
// remainder must come from the boundary group (never more copies than the input has).
// It returns "" or a description, plus a symptom tag.
func CheckOrdered(rows [][]octosql.Value, in Rel, keyCols []int, dirs []int, limit int) (what, symptom string) {
	for i := 1; i < len(rows); i++ {
		if CmpKeys(rows[i-1], rows[i], keyCols, dirs) > 0 {
			return "rows are not sorted by the ORDER BY keys at position " + itoa(i), "unsorted"
		}
	}
	got := nodeh.Multiset{}
	for _, r := range rows {
		got.Add(nodeh.RowKey(r), 1)
	}
	want := in.Multiset()
	total := in.Total()
	if limit < 0 || limit >= total {
		if !got.Equal(want) {
			return "ordered output " + got.String() + " is not the input " + want.String(), "multiset"
		}
		return "", ""
	}
	for k, n := range got {
		if n > want[k] {
			return "row " + k + " emitted " + itoa(n) + " times, the input has it " + itoa(want[k]) + " times", "multiset"
		}
	}
	if len(rows) != limit {
		sym := "limit-count"
		if len(rows) > limit {
			sym = "limit-surplus"
		}
		return "LIMIT " + itoa(limit) + " over " + itoa(total) + " rows emitted " + itoa(len(rows)) + " rows", sym
	}
	if limit == 0 {
		return "", ""
	}
	// boundary = key of the limit-th row of the sorted input
	sorted := make([]Counted, len(in))
	copy(sorted, in)
	sort.SliceStable(sorted, func(i, j int) bool { return CmpKeys(sorted[i].Values, sorted[j].Values, keyCols, dirs) < 0 })
	seen := 0
	var boundary []octosql.Value
	for _, c := range sorted {
		seen += c.N
		if seen >= limit {
			boundary = c.Values
			break
		}
	}
	for _, c := range sorted {
		if CmpKeys(c.Values, boundary, keyCols, dirs) < 0 {
			if got[nodeh.RowKey(c.Values)] != c.N {
				return "row " + nodeh.RowKey(c.Values) + " sorts strictly before the LIMIT boundary but is emitted " + itoa(got[nodeh.RowKey(c.Values)]) + " of " + itoa(c.N) + " times", "limit-wrong-rows"
			}
		}
	}
	for _, r := range rows {
		if CmpKeys(r, boundary, keyCols, dirs) > 0 {
			return "row " + nodeh.RowKey(r) + " sorts after the LIMIT boundary", "limit-wrong-rows"
		}
	}
	return "", ""
}

func itoa(i int) string {
	if i < 0 {
		return "-" + itoa(-i)
	}
	if i < 10 {
		return string(rune('0' + i))
	}
	return itoa(i/10) + string(rune('0'+i%10))
}

// IsFirstNDistinct reports whether rows are exactly all copies of the first n DISTINCT rows of the
// input sorted by the keys and then by all values ascending — the symptom of a LIMIT that counts
// distinct rows instead of rows (used only to attribute that finding precisely).
func IsFirstNDistinct(rows [][]octosql.Value, in Rel, keyCols []int, dirs []int, n int) bool {
	sorted := make([]Counted, 0, len(in))
	for _, c := range in {
		if c.N > 0 {
			sorted = append(sorted, c)
		}
	}
	sort.SliceStable(sorted, func(i, j int) bool {
		if c := CmpKeys(sorted[i].Values, sorted[j].Values, keyCols, dirs); c != 0 {
			return c < 0
		}
		for k := range sorted[i].Values {
			if c := CmpVal(sorted[i].Values[k], sorted[j].Values[k]); c != 0 {
				return c < 0
			}
		}
		return false
	})
	want := nodeh.Multiset{}
	for i, c := range sorted {
		if i >= n {
			break
		}
		want.Add(nodeh.RowKey(c.Values), c.N)
	}
	got := nodeh.Multiset{}
	for _, r := range rows {
		got.Add(nodeh.RowKey(r), 1)
	}
	return got.Equal(want)
}

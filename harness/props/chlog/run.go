package chlog

import (
	"encoding/json"
	"fmt"
	"math/rand"
	"os"
	"runtime"
	"sort"
	"strings"
	"sync"
	"time"

	"github.com/cube2222/octosql/execution"
	"github.com/cube2222/octosql/octosql"
	"github.com/cube2222/octosql/physical"

	"github.com/cube2222/octosql/plugins/verifharness/core"
	"github.com/cube2222/octosql/plugins/verifharness/nodeh"
)

// OrderSpec describes what an ORDER BY (+ LIMIT) case must emit.
type OrderSpec struct {
	KeyCols []int
	Dirs    []int
	Limit   int // -1: none
}

// Meta is what the judges need to know about the node under test (all derived from how the case
// was built, i.e. from the INPUT side; used for finding attribution).
type Meta struct {
	TwoInput   bool   // StreamJoin / OuterJoin at the top: producer goroutines, schedule-dependent
	Outer      string // "", "left", "right", "full"
	LCols      int
	RCols      int
	CTGB       bool // CustomTriggerGroupBy
	KeyTimeIdx int  // its keyEventTimeIndex (-1 none)
	Trigger    string
	RecordWise bool // stateless, record by record: event times and watermarks must pass through
	Buffer     bool // EventTimeBuffer: exact reference
	LimitN     int  // Limit node: n (0 = not a limit node)
	EmitsAtEnd bool // emits only at end of stream with zero event times (SimpleGroupBy, OrderSensitiveTransform)
	Foreign    bool // some node under test runs in a goroutine started by a join (panic = process death)
	Pipeline   string
}

// TableSpec is one memdb table of a SQL case.
type TableSpec struct {
	Name      string
	Fields    []physical.SchemaField
	TimeField int
	Input     int // index into Case.Inputs
}

// Case is one generated execution.
type Case struct {
	ID      string
	Kind    string
	Variant string
	Inputs  [][]nodeh.Event
	Static  [][]octosql.Value // lookup join: the static right side
	SQL     string
	Tables  []TableSpec
	Output  string // nodeh.PlanOpts.Output for SQL cases
	// Build wires the real node(s) over the given sources (one per input).
	Build func(srcs []execution.Node) execution.Node
	// Ref computes the expected consolidated output from the consolidated inputs (nil: none).
	Ref   func(in []Rel) nodeh.Multiset
	Order *OrderSpec
	Meta  Meta
	// Inner, if set, is the upstream single-input stage of a pipeline as a case of its own (same
	// input script), so that a judge can tell whether that stage already hands late records on.
	Inner *Case
}

// Exec is the recording of one run.
type Exec struct {
	Outs    []nodeh.Out
	Res     nodeh.RunResult
	PlanErr *nodeh.PlanError
}

func (cs *Case) Describe() map[string]interface{} {
	m := map[string]interface{}{"id": cs.ID, "kind": cs.Kind, "variant": cs.Variant}
	for i, in := range cs.Inputs {
		m[fmt.Sprintf("input%d", i)] = nodeh.EventsString(in)
	}
	if cs.Static != nil {
		rows := make([]string, len(cs.Static))
		for i, r := range cs.Static {
			rows[i] = nodeh.RowKey(r)
		}
		m["static_right"] = rows
	}
	if cs.SQL != "" {
		m["sql"] = cs.SQL
	}
	return m
}

// Run executes the case once. Single-input nodes run with a step counter (outputs carry the index
// of the input event being processed; index len(events) = end of stream). Two-input nodes run
// free: both producers yield at seeded random points so that the join's select sees different
// interleavings; nothing in the verdicts depends on the interleaving.
func (cs *Case) Run(jitterSeed int64) Exec {
	col := &nodeh.Collector{}
	srcs := make([]execution.Node, len(cs.Inputs))
	scripted := make([]*nodeh.ScriptSource, len(cs.Inputs))
	for i := range cs.Inputs {
		s := &nodeh.ScriptSource{Events: cs.Inputs[i]}
		if len(cs.Inputs) == 1 {
			s.AfterEach = func(j int) { col.SetStep(j + 1) }
		} else {
			rng := rand.New(rand.NewSource(jitterSeed*31 + int64(i)))
			mode := rng.Intn(4)
			s.AfterEach = func(j int) {
				switch mode {
				case 0:
				case 1:
					runtime.Gosched()
				case 2:
					if rng.Intn(3) == 0 {
						runtime.Gosched()
					}
				case 3:
					if rng.Intn(6) == 0 {
						time.Sleep(time.Duration(rng.Intn(30)) * time.Microsecond)
					}
				}
			}
		}
		scripted[i] = s
		srcs[i] = s
	}
	var node execution.Node
	ctx := nodeh.Ctx()
	if cs.SQL != "" {
		db := &nodeh.DB{Tables: map[string]*nodeh.Table{}}
		for _, t := range cs.Tables {
			src := scripted[t.Input]
			db.Tables[t.Name] = &nodeh.Table{
				Fields: t.Fields, TimeField: t.TimeField,
				Source: func() execution.Node { return src },
			}
		}
		out := cs.Output
		if out == "" {
			out = "none"
		}
		p, perr := nodeh.Plan(ctx, cs.SQL, db, nodeh.PlanOpts{Optimize: true, Output: out})
		if perr != nil {
			return Exec{PlanErr: perr}
		}
		node = p.Exec
	} else {
		node = cs.Build(srcs)
	}
	res := nodeh.RunNodeCtx(ctx, node, col, nil, 30*time.Second)
	return Exec{Outs: col.Snapshot(), Res: res}
}

// OutRows returns the values of the output records, in order.
func OutRows(outs []nodeh.Out) [][]octosql.Value {
	var rows [][]octosql.Value
	for _, o := range outs {
		if !o.IsWatermark {
			rows = append(rows, o.Record.Values)
		}
	}
	return rows
}

// OutsAsEvents turns a recorded output changelog into a script (to replay it into the printer).
func OutsAsEvents(outs []nodeh.Out) []nodeh.Event {
	evs := make([]nodeh.Event, len(outs))
	for i, o := range outs {
		if o.IsWatermark {
			evs[i] = nodeh.WM(o.Watermark)
		} else {
			evs[i] = nodeh.Event{Record: o.Record}
		}
	}
	return evs
}

// OnlyID returns the case id a run is restricted to: --only, or the "id" stored in the --replay
// file ("" = run everything).
func OnlyID(only, replay string) string {
	if only != "" {
		return only
	}
	if replay == "" {
		return ""
	}
	data, err := os.ReadFile(replay)
	if err != nil {
		return "unreadable-replay"
	}
	var body struct {
		Case map[string]interface{} `json:"case"`
	}
	if err := json.Unmarshal(data, &body); err != nil {
		return "unreadable-replay"
	}
	if id, ok := body.Case["id"].(string); ok {
		return id
	}
	return "unreadable-replay"
}

// KindOfID extracts the kind name from a case id "<kind>#<index>".
func KindOfID(id string) string {
	for i := len(id) - 1; i >= 0; i-- {
		if id[i] == '#' {
			return id[:i]
		}
	}
	return id
}

// ---- in-flight log ---------------------------------------------------------------------------------
// A panic in a goroutine started by a join (its producers, and every node of a pipeline that runs
// inside them) cannot be recovered and kills the process. Cases run on 16 workers, so the last-case
// log must name every case that is in flight: Enter records the set through core's LogCase.

var inflight = struct {
	mu  sync.Mutex
	ids map[string]struct{}
}{ids: map[string]struct{}{}}

func Enter(c *core.Ctx, id string) {
	inflight.mu.Lock()
	defer inflight.mu.Unlock()
	inflight.ids[id] = struct{}{}
	ids := make([]string, 0, len(inflight.ids))
	for k := range inflight.ids {
		ids = append(ids, k)
	}
	sort.Strings(ids)
	c.LogCase("in-flight (re-run each with --only <id>): " + strings.Join(ids, " "))
}

func Leave(id string) {
	inflight.mu.Lock()
	delete(inflight.ids, id)
	inflight.mu.Unlock()
}

// SampledKinds: the kinds whose first case is written into the evidence samples.
var SampledKinds = map[string]bool{"ctgb/multi": true, "stream_join": true, "outer_join/full": true, "order_by/limit": true,
	"sql/group_by_time": true, "event_time_buffer": true, "sql/join>group_by": true, "sql/tumble>group_by": true}

// Truncated copies a replay object with long strings cut to max bytes (for evidence samples).
func Truncated(m map[string]interface{}, max int) map[string]interface{} {
	out := map[string]interface{}{}
	for k, v := range m {
		if s, ok := v.(string); ok && len(s) > max {
			v = s[:max] + "..."
		}
		out[k] = v
	}
	return out
}

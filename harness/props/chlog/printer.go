package chlog

import (
	"fmt"
	"io"
	"runtime/debug"

	"github.com/gosuri/uilive"

	"github.com/cube2222/octosql/execution"
	"github.com/cube2222/octosql/octosql"
	"github.com/cube2222/octosql/outputs/batch"
	"github.com/cube2222/octosql/physical"

	"github.com/cube2222/octosql/plugins/verifharness/nodeh"
)

// SilenceLiveWriter makes the batch printer's terminal writer write nowhere (the recording format
// below never hands it anything, this is a second line of defence for the check's stdout).
func SilenceLiveWriter() { uilive.Out = io.Discard }

// recFormat is a batch.Format that records the rows of the final table instead of rendering them.
type recFormat struct{ rows *[][]octosql.Value }

func (f recFormat) SetSchema(physical.Schema) {}
func (f recFormat) Write(vals []octosql.Value) error {
	cp := make([]octosql.Value, len(vals))
	copy(cp, vals)
	*f.rows = append(*f.rows, cp)
	return nil
}
func (f recFormat) Close() error { return nil }

type PrinterResult struct {
	Panicked bool
	PanicMsg string
	Stack    string
	Err      error
	Rows     [][]octosql.Value
}

// RunPrinter feeds a changelog to the real batch OutputPrinter (outputs/batch) and returns the
// rows of the table it prints at end of stream. order may be nil (the printer then orders by the
// row values) and carries the ORDER BY key columns / LIMIT otherwise.
func RunPrinter(evs []nodeh.Event, ncols int, order *OrderSpec) (res PrinterResult) {
	fields := make([]physical.SchemaField, ncols)
	for i := range fields {
		fields[i] = physical.SchemaField{Name: fmt.Sprintf("c%d", i), Type: octosql.Any}
	}
	var keyExprs []execution.Expression
	var dirs []int
	var limit *int64
	if order != nil {
		for _, kc := range order.KeyCols {
			keyExprs = append(keyExprs, execution.NewVariable(0, kc))
		}
		dirs = order.Dirs
		if order.Limit >= 0 {
			l := int64(order.Limit)
			limit = &l
		}
	}
	var rows [][]octosql.Value
	p := batch.NewOutputPrinter(&nodeh.ScriptSource{Events: evs}, keyExprs, dirs, limit, false,
		physical.NewSchema(fields, -1), func(io.Writer) batch.Format { return recFormat{rows: &rows} }, false)
	func() {
		defer func() {
			if r := recover(); r != nil {
				res.Panicked = true
				res.PanicMsg = fmt.Sprint(r)
				res.Stack = string(debug.Stack())
			}
		}()
		res.Err = p.Run(execution.ExecutionContext{Context: nodeh.Ctx()})
	}()
	res.Rows = rows
	return res
}

// Package chlog is shared by the C15 and C18 drivers: the changelog generator of DESIGN §3.1, the
// catalogue of node kinds (real octosql execution nodes built with their constructors, or planned
// from SQL over a memdb), batch reference semantics of every operator (own code over
// nodeh.RowKey-style encodings; octosql's Compare/Hash are never used on the oracle side), the
// case runner and the batch OutputPrinter probe.
package chlog

import (
	"math/rand"
	"time"

	"github.com/cube2222/octosql/octosql"

	"github.com/cube2222/octosql/plugins/verifharness/nodeh"
)

var Base = time.Date(2020, 1, 1, 0, 0, 0, 0, time.UTC)

var zoneEast = time.FixedZone("east", 2*3600)

// TS maps a time index to an instant; 0 is "no event time".
func TS(i int) time.Time {
	if i == 0 {
		return time.Time{}
	}
	return Base.Add(time.Duration(i) * time.Second)
}

// TIndex is the inverse of TS (0 for the zero time).
func TIndex(t time.Time) int {
	if t.IsZero() {
		return 0
	}
	return int(t.Sub(Base) / time.Second)
}

// GenOpts parameterises one generated changelog.
type GenOpts struct {
	// Pool is the set of distinct rows (<= 4) the changelog is made of. With TimeCol >= 0 the value
	// in that column is replaced by the record's event time, so that a row is (event time, rest)
	// as in a table with a time field; a retraction then carries its insertion's event time.
	Pool    [][]octosql.Value
	TimeCol int
	// AllowZero: records may have the zero event time, but only before the first watermark.
	AllowZero bool
	// Watermarks: insert monotone watermarks such that no record is late.
	Watermarks bool
	// MinLen..MaxLen events (records and watermarks).
	MinLen, MaxLen int
	// InsertOnly: no retractions.
	InsertOnly bool
	// MixedZones: event times of one instant are sometimes expressed in another time.Location.
	MixedZones bool
	// TimeSpread: event times are drawn from (watermark, watermark+TimeSpread].
	TimeSpread int
	// FinalWM: probability (percent) that the script ends with a watermark above every record.
	FinalWM int
}

type pendingRetraction struct {
	row  int
	insT int
}

// Gen generates a multiset (a list of insertions of pool rows, a subset of which is designated to
// be retracted again) and then a random VALID interleaving: a retraction is only placed after its
// insertion, with an event time >= the insertion's (so the history is a valid changelog in arrival
// order and in event-time order), watermarks are monotone, every record's event time is above the
// last watermark, and zero event times occur only before the first watermark. All loops bounded.
func Gen(rng *rand.Rand, o GenOpts) []nodeh.Event {
	if o.TimeSpread <= 0 {
		o.TimeSpread = 3
	}
	n := o.MinLen
	if o.MaxLen > o.MinLen {
		n += rng.Intn(o.MaxLen - o.MinLen + 1)
	}
	// the multiset: insertions with a skewed row choice so that multiplicities collide
	nIns := n
	if !o.InsertOnly {
		nIns = n/2 + rng.Intn(n/2+1)
	}
	if nIns < 1 {
		nIns = 1
	}
	skew := rng.Intn(3)
	inserts := make([]int, nIns)
	for i := range inserts {
		r := rng.Intn(len(o.Pool))
		if skew > 0 && rng.Intn(skew+1) > 0 {
			r = 0
		}
		inserts[i] = r
	}
	retractProb := 0
	if !o.InsertOnly {
		retractProb = 20 + rng.Intn(70)
	}
	wmProb := 0
	if o.Watermarks {
		wmProb = []int{0, 5, 12, 25}[rng.Intn(4)]
		if wmProb == 0 && rng.Intn(3) > 0 {
			wmProb = 12
		}
	}
	zeroProb := 0
	if o.AllowZero {
		zeroProb = []int{0, 20, 50, 100}[rng.Intn(4)]
	}

	var evs []nodeh.Event
	var pending []pendingRetraction
	wm := 0
	next := 0
	maxT := 0
	mk := func(row int, retr bool, t int) nodeh.Event {
		vals := make([]octosql.Value, len(o.Pool[row]))
		copy(vals, o.Pool[row])
		et := TS(t)
		if o.MixedZones && t != 0 && rng.Intn(3) == 0 {
			et = et.In(zoneEast)
		}
		if o.TimeCol >= 0 {
			// the column holds the instant in UTC for insertion and retraction alike
			vals[o.TimeCol] = octosql.NewTime(TS(t))
		}
		if t > maxT {
			maxT = t
		}
		return nodeh.Rec(vals, retr, et)
	}
loop:
	for step := 0; step < 6*n+20 && len(evs) < n; step++ {
		r := rng.Intn(100)
		switch {
		case r < wmProb:
			wm += 1 + rng.Intn(2)
			if rng.Intn(8) == 0 {
				wm += o.TimeSpread
			}
			evs = append(evs, nodeh.WM(TS(wm)))
			if o.TimeCol >= 0 {
				// a row whose time is at or below the watermark can no longer be retracted
				kept := pending[:0]
				for _, p := range pending {
					if p.insT > wm {
						kept = append(kept, p)
					}
				}
				pending = kept
			}
		case len(pending) > 0 && (r < wmProb+retractProb*(100-wmProb)/100/2 || next >= len(inserts)):
			k := rng.Intn(len(pending))
			p := pending[k]
			pending = append(pending[:k], pending[k+1:]...)
			var t int
			switch {
			case o.TimeCol >= 0:
				t = p.insT
			case p.insT == 0 && wm == 0 && rng.Intn(2) == 0:
				t = 0
			default:
				lo := p.insT
				if wm+1 > lo {
					lo = wm + 1
				}
				t = lo + rng.Intn(o.TimeSpread)
			}
			evs = append(evs, mk(p.row, true, t))
		case next < len(inserts):
			row := inserts[next]
			next++
			t := wm + 1 + rng.Intn(o.TimeSpread)
			if wm == 0 && o.TimeCol < 0 && rng.Intn(100) < zeroProb {
				t = 0
			}
			evs = append(evs, mk(row, false, t))
			if !o.InsertOnly && rng.Intn(100) < retractProb {
				pending = append(pending, pendingRetraction{row: row, insT: t})
			}
		default:
			// nothing left to place
			break loop
		}
	}
	if o.Watermarks && rng.Intn(100) < o.FinalWM {
		w := maxT + rng.Intn(2)
		if w <= wm {
			w = wm + 1
		}
		evs = append(evs, nodeh.WM(TS(w)))
	}
	return evs
}

// ValidHistory re-checks a generated script from scratch (used by the drivers as a guard on the
// generator itself): arrival-order validity, event-time-order validity (stable sort by event time),
// monotone watermarks, no late record, zero times only before the first watermark.
func ValidHistory(evs []nodeh.Event) string {
	cnt := map[string]int{}
	seenWM := false
	var wm time.Time
	type rec struct {
		key  string
		retr bool
		t    time.Time
	}
	var recs []rec
	for _, e := range evs {
		if e.IsWatermark {
			if seenWM && e.Watermark.Before(wm) {
				return "watermark goes backwards"
			}
			wm = e.Watermark
			seenWM = true
			continue
		}
		k := nodeh.RowKey(e.Record.Values)
		if e.Record.EventTime.IsZero() {
			if seenWM {
				return "zero event time after a watermark"
			}
		} else if seenWM && !e.Record.EventTime.After(wm) {
			return "late record"
		}
		if e.Record.Retraction {
			cnt[k]--
			if cnt[k] < 0 {
				return "retraction of an absent row in arrival order"
			}
		} else {
			cnt[k]++
		}
		recs = append(recs, rec{k, e.Record.Retraction, e.Record.EventTime})
	}
	// stable insertion sort by event time (scripts are short)
	sorted := make([]rec, 0, len(recs))
	for _, r := range recs {
		i := len(sorted)
		for i > 0 && sorted[i-1].t.After(r.t) {
			i--
		}
		sorted = append(sorted, rec{})
		copy(sorted[i+1:], sorted[i:])
		sorted[i] = r
	}
	c2 := map[string]int{}
	for _, r := range sorted {
		if r.retr {
			c2[r.key]--
			if c2[r.key] < 0 {
				return "retraction of an absent row in event-time order"
			}
		} else {
			c2[r.key]++
		}
	}
	return ""
}

// Shape summarises a script for coverage counters.
type Shape struct {
	Records, Retractions, Watermarks, ZeroTimes, DistinctRows, MaxMultiplicity int
}

func ShapeOf(evs []nodeh.Event) Shape {
	var s Shape
	cur := map[string]int{}
	for _, e := range evs {
		if e.IsWatermark {
			s.Watermarks++
			continue
		}
		s.Records++
		if e.Record.EventTime.IsZero() {
			s.ZeroTimes++
		}
		k := nodeh.RowKey(e.Record.Values)
		if e.Record.Retraction {
			s.Retractions++
			cur[k]--
		} else {
			cur[k]++
			if cur[k] > s.MaxMultiplicity {
				s.MaxMultiplicity = cur[k]
			}
		}
	}
	s.DistinctRows = len(cur)
	return s
}

// Package c01: single-source SELECT results match relational semantics.
//
// R: a generated well-typed single-source query whose printed rows differ from the reference
// rows (as a multiset; unsorted or a wrong prefix under ORDER BY / LIMIT), or that fails at run
// time although every sub-expression is defined.
// O: sqlref (standard library only) evaluates the same AST over the same table; decoded values
// are compared (numbers numerically, strings bytewise, NULL as null), tie-tolerant for ORDER BY;
// LIMIT without a total ORDER BY is judged by count and membership.
// W: CLI. Generated tables (CSV for Int columns, JSON lines for Float/String/Boolean; 0..100 rows,
// NULL-heavy, duplicates) x generated queries (projection+expressions, WHERE, DISTINCT, ORDER BY,
// LIMIT, subquery in FROM with its own ORDER BY/LIMIT, WITH), output modes json, csv, batch_table,
// stream_native in rotation (restricted string alphabet for the two unescaped modes).
package c01

import (
	"fmt"
	"os"
	"strings"

	"github.com/cube2222/octosql/plugins/verifharness/cli"
	"github.com/cube2222/octosql/plugins/verifharness/core"
	"github.com/cube2222/octosql/plugins/verifharness/sqlref"
	"github.com/cube2222/octosql/plugins/verifharness/sqlrun"
)

func init() { core.Register("C01", Run) }

var modes = []string{sqlrun.JSON, sqlrun.CSV, sqlrun.Batch, sqlrun.Native}

type tcase struct {
	id     string
	mode   string
	tables []*sqlref.Table
	q      *sqlref.Query
}

func genCase(c *core.Ctx, i int) tcase {
	rng := c.Rng(fmt.Sprintf("case-%d", i))
	mode := modes[i%len(modes)]
	g := sqlref.NewGen(rng, sqlref.GenOpts{MaxRows: 100, Rich: sqlrun.Rich(mode), MaxDepth: 3})
	kind := "json"
	if rng.Intn(100) < 45 {
		kind = "csv"
	}
	t := g.Table(kind)
	q := g.SelectQuery([]*sqlref.Table{t})
	return tcase{id: sqlrun.CaseID(c, "q", i), mode: mode, tables: []*sqlref.Table{t}, q: q}
}

func Run(c *core.Ctx) core.FinishOpts {
	runner := cli.NewRunner(c.BinDir, c.Scratch)
	N := c.Pick(600, 20000)
	only := sqlrun.Only(c)
	selftest := os.Getenv("VERIF_SELFTEST") == "1"

	core.Parallel(N, 16, func(i int) {
		tc := genCase(c, i)
		if only != "" && tc.id != only {
			return
		}
		if selftest && i%40 != 3 {
			return // self-test: only the cases whose recording is corrupted are run
		}
		var wrong func([]sqlref.Row) []sqlref.Row
		if selftest && i%40 == 3 {
			switch (i / 40) % 3 {
			case 0: // drop a printed row
				wrong = func(r []sqlref.Row) []sqlref.Row {
					if len(r) == 0 {
						return append(r, sqlref.Row{})
					}
					return r[1:]
				}
			case 1: // duplicate a printed row
				wrong = func(r []sqlref.Row) []sqlref.Row {
					if len(r) == 0 {
						return append(r, sqlref.Row{})
					}
					return append(append([]sqlref.Row{}, r...), r[0])
				}
			default: // change one value
				wrong = func(r []sqlref.Row) []sqlref.Row {
					if len(r) == 0 || len(r[0]) == 0 {
						return append(r, sqlref.Row{})
					}
					cp := append([]sqlref.Row{}, r...)
					row := append(sqlref.Row{}, cp[0]...)
					row[0] = sqlref.Str("\x00selftest")
					cp[0] = row
					return cp
				}
			}
		}
		rep := sqlrun.Check(runner, tc.q, tc.tables, tc.mode, sqlrun.Opts{Wrong: wrong})
		c.Eval(1)
		c.Count("status/"+rep.Status, 1)
		replay := func() map[string]interface{} {
			return sqlrun.Replay(tc.id, tc.q, tc.tables, tc.mode, sqlrun.Opts{}, rep)
		}
		switch rep.Status {
		case "undefined", "ambiguous":
			return
		case "timeout":
			c.Inconclusive("watchdog")
			return
		case "rejected":
			c.Count("rejected/"+sqlrun.RejectClass(rep.What), 1)
			if only != "" {
				fmt.Printf("rejected: %s\n  %s\n", tc.q.SQL(), rep.What)
			}
			return
		case "violation":
			c.Violation(rep.Key, rep.What, replay())
			return
		}
		// judged
		c.Count("mode/"+tc.mode, 1)
		if rep.LenAlt {
			c.Count("len_counted_in_runes_accepted", 1)
		}
		sqlrun.CountQuery(c, tc.q)
		if len(tc.tables[0].Rows) == 0 {
			c.Count("table/empty", 1)
		}
		res := rep.Res
		rowsOut := len(res.Full)
		if res.Limit >= 0 && res.Limit < rowsOut {
			rowsOut = res.Limit
		}
		filteredAway := false
		if len(res.Full) == 0 && len(tc.tables[0].Rows) > 0 {
			tc.q.Visit(func(x *sqlref.Query, _ int) {
				if x.Where != nil {
					filteredAway = true
				}
			}, 0)
		}
		if rowsOut >= 2 || filteredAway {
			c.Nontrivial(tc.q.SQL() + "\x00" + string(tc.tables[0].FileBytes()) + "\x00" + tc.mode)
			c.Count("nontrivial/"+tc.mode, 1)
		}
		if only != "" {
			fmt.Printf("judged OK: %s\n", tc.q.SQL())
		}
		c.Sample(map[string]interface{}{"id": tc.id, "sql": tc.q.SQL(), "mode": tc.mode, "table_rows": len(tc.tables[0].Rows), "result_rows": rowsOut})
	})

	if !selftest {
		nestedDistinctCases(c, runner, only)
	}
	if only == "" && !selftest {
		percentProbes(c, runner)
		likeNewlineProbes(c, runner)
	}

	return core.FinishOpts{
		Level: "exploration",
		Rule: "case i = one generated table (CSV of Int columns or JSON lines of Float/String/Boolean columns; 0..100 rows, NULL-heavy, duplicated rows, few distinct values) and one generated well-typed single-source query " +
			"(expressions of depth <= 3 over + - * /, comparisons, AND/OR/NOT, IS [NOT] NULL, string +, upper/lower/len, abs, int()/float(), COALESCE, IN, LIKE; WHERE, DISTINCT, ORDER BY on output aliases, LIMIT, subquery in FROM, WITH), printed in mode i mod 4 of json/csv/batch_table/stream_native; " +
			"judged = octosql accepted the query and the reference is defined and unambiguous; non-trivial = at least 2 result rows, or 0 rows from a non-empty table with a WHERE; distinct by (SQL text, table file, mode)",
		Floor: c.Pick(150, 5000),
		Assumptions: []string{
			"oracle: harness/sqlref reference evaluator (standard library only) with the documented conventions: NULL first, bytewise strings, wrapping Int, Kleene logic",
			"csv cannot distinguish NULL from the empty string: both sides are folded in csv mode",
			"len(String) is accepted as bytes or as code points (DESIGN §3.4)",
			"results the conventions do not define (NaN, Inf, -0.0, int() of an out-of-range float) and nested LIMITs that cut through unordered rows are not judged",
			"a query octosql rejects at parse/typecheck time is counted, not judged",
			"cli decoders, Go toolchain",
		},
	}
}

// percentProbes: stream_native prints records through Fprintf with the record as the FORMAT, so
// a '%' in a string value is mangled (DESIGN C01 F). Fixed probes; a control without '%' must pass.
func percentProbes(c *core.Ctx, runner *cli.Runner) {
	probes := []struct {
		s       string
		percent bool
	}{
		{"plain", false}, {"100%", true}, {"%d", true}, {"a%sb", true}, {"50%% off", true}, {"%", true}, {"x_y", false},
	}
	for i, p := range probes {
		t := sqlref.FixedTable("p", "json", []sqlref.Column{{Name: "s0", T: sqlref.TString}}, []sqlref.Row{{sqlref.Str(p.s)}, {sqlref.Str("k")}})
		sql := "SELECT s0 AS c1 FROM p.json"
		res := runner.Exec(cli.Run{Args: []string{sql, "-o", "stream_native"}, Files: sqlrun.Files([]*sqlref.Table{t})})
		c.Eval(1)
		c.Count("percent_probe", 1)
		want := fmt.Sprintf("{+0001-01-01T00:00:00Z| '%s' |}\n{+0001-01-01T00:00:00Z| 'k' |}\n", p.s)
		replay := map[string]interface{}{"id": fmt.Sprintf("c01-percent-%d", i), "sql": sql, "mode": "stream_native", "files": sqlrun.FilesInline([]*sqlref.Table{t}), "stdout": string(res.Stdout), "expected_stdout": want}
		if res.TimedOut {
			c.Inconclusive("watchdog")
			continue
		}
		if res.Exit != 0 {
			c.Violation("percent-probe-failed", "stream_native probe exited "+fmt.Sprint(res.Exit)+": "+string(res.Stderr), replay)
			continue
		}
		if string(res.Stdout) == want {
			if p.percent {
				c.Nontrivial("percent-probe-" + p.s)
			}
			continue
		}
		key := "stream-native-mismatch"
		if p.percent && (strings.Contains(string(res.Stdout), "%!") || !strings.Contains(string(res.Stdout), p.s)) {
			key = "stream-native-percent"
		}
		c.Violation(key, fmt.Sprintf("stream_native printed %q for the value %q", string(res.Stdout), p.s), replay)
	}
}

// likeNewlineProbes: fixed cases for LIKE over a subject that contains a newline (the random
// generator reaches them only rarely): '%' and '_' must match a newline like any other character.
func likeNewlineProbes(c *core.Ctx, runner *cli.Runner) {
	t := sqlref.FixedTable("p", "json", []sqlref.Column{{Name: "s0", T: sqlref.TString}},
		[]sqlref.Row{{sqlref.Str("line1\nline2")}, {sqlref.Str("x")}, {sqlref.Null()}, {sqlref.Str("line1 line2")}})
	for i, pat := range []string{"%", "line1_line2", "%2", "l%", "x", "_%_"} {
		for _, op := range []string{sqlref.OpLike, sqlref.OpNotLike} {
			col := sqlref.Col(0, "s0", sqlref.TString)
			w := sqlref.Un(op, sqlref.TBool, col)
			w.Pattern = pat
			q := &sqlref.Query{
				From:  sqlref.Source{Kind: sqlref.SrcTable, Table: t},
				Items: []sqlref.SelItem{{Expr: col, Alias: "c1"}, {Expr: w, Alias: "c2"}},
				Where: sqlref.Bin(sqlref.OpOr, sqlref.TBool, w, sqlref.Un(sqlref.OpIsNull, sqlref.TBool, col)),
				Limit: -1,
			}
			id := fmt.Sprintf("c01-like-newline-%d-%s", i, op)
			rep := sqlrun.Check(runner, q, []*sqlref.Table{t}, sqlrun.JSON, sqlrun.Opts{})
			c.Eval(1)
			c.Count("like_newline_probe/"+rep.Status, 1)
			switch rep.Status {
			case "judged":
				c.Nontrivial(id)
			case "timeout":
				c.Inconclusive("watchdog")
			case "rejected":
				c.Violation("probe-rejected", rep.What, sqlrun.Replay(id, q, []*sqlref.Table{t}, sqlrun.JSON, sqlrun.Opts{}, rep))
			case "violation":
				c.Violation(rep.Key, rep.What, sqlrun.Replay(id, q, []*sqlref.Table{t}, sqlrun.JSON, sqlrun.Opts{}, rep))
			}
		}
	}
}

var allModes = []string{sqlrun.JSON, sqlrun.CSV, sqlrun.Batch, sqlrun.Native, sqlrun.Live}

// nestedDistinctCases: a directed shape family the random generator reaches too rarely. A
// DISTINCT inside a FROM subquery / WITH (also one level deeper) over a table whose rows agree
// on some columns and differ only in the others, while the query above references only the
// former: an optimizer that prunes the unreferenced columns from under the DISTINCT merges rows.
// Enumerated: placement x outer form x (column list | *) x repetitions, modes in rotation.
func nestedDistinctCases(c *core.Ctx, runner *cli.Runner, only string) {
	type dcase struct {
		id, mode, placement, outer string
		t                          *sqlref.Table
		q                          *sqlref.Query
	}
	var cases []dcase
	reps := c.Pick(3, 24)
	n := 0
	for rep := 0; rep < reps; rep++ {
		for _, pl := range sqlref.NestedDistinctPlacements {
			for _, ou := range sqlref.NestedDistinctOuters {
				for _, star := range []bool{false, true} {
					mode := allModes[(n+rep)%len(allModes)]
					rng := c.Rng(fmt.Sprintf("nested-distinct-%d", n))
					g := sqlref.NewGen(rng, sqlref.GenOpts{MaxRows: 100, Rich: sqlrun.Rich(mode), MaxDepth: 3})
					kind := "csv"
					if n%2 == 1 {
						kind = "json"
					}
					t, kept := g.DupHeavyTable(kind)
					q := g.NestedDistinctQuery(t, kept, pl, ou, star)
					cases = append(cases, dcase{id: sqlrun.CaseID(c, "nd", n), mode: mode, placement: pl, outer: ou, t: t, q: q})
					n++
				}
			}
		}
	}
	c.Note("nested_distinct_cases", len(cases))
	core.Parallel(len(cases), 16, func(i int) {
		tc := cases[i]
		if only != "" && tc.id != only {
			return
		}
		tables := []*sqlref.Table{tc.t}
		rep := sqlrun.Check(runner, tc.q, tables, tc.mode, sqlrun.Opts{})
		c.Eval(1)
		c.Count("nested_distinct/"+rep.Status, 1)
		switch rep.Status {
		case "timeout":
			c.Inconclusive("watchdog")
		case "rejected":
			c.Count("rejected/"+sqlrun.RejectClass(rep.What), 1)
			if only != "" {
				fmt.Printf("rejected: %s\n  %s\n", tc.q.SQL(), rep.What)
			}
		case "violation":
			c.Violation(rep.Key, fmt.Sprintf("[nested DISTINCT, %s, outer %s, %s] %s", tc.placement, tc.outer, tc.mode, rep.What), sqlrun.Replay(tc.id, tc.q, tables, tc.mode, sqlrun.Opts{}, rep))
		case "judged":
			c.Count("nested_distinct/placement/"+tc.placement, 1)
			c.Count("nested_distinct/outer/"+tc.outer, 1)
			c.Count("nested_distinct/mode/"+tc.mode, 1)
			// non-trivial: the DISTINCT level keeps rows that agree on the referenced columns
			if inner := innermost(tc.q); inner != nil {
				if r, err := inner.Eval(sqlref.EvalOpts{}); err == nil && len(r.Full) >= 2 {
					c.Nontrivial(tc.q.SQL() + "\x00" + string(tc.t.FileBytes()) + "\x00" + tc.mode)
					c.Count("nested_distinct/nontrivial", 1)
				}
			}
			if only != "" {
				fmt.Printf("judged OK: %s\n", tc.q.SQL())
			}
			c.Sample(map[string]interface{}{"id": tc.id, "sql": tc.q.SQL(), "mode": tc.mode, "table_rows": len(tc.t.Rows)})
		}
	})
}

func innermost(q *sqlref.Query) *sqlref.Query {
	var in *sqlref.Query
	q.Visit(func(x *sqlref.Query, _ int) {
		if x.From.Kind == sqlref.SrcTable {
			in = x
		}
	}, 0)
	return in
}

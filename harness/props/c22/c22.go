// Package c22: the internally-consistent output wrapper forwards exactly the settled changes.
//
// R (refutation): at a forwarded watermark W, Consolidate(emitted so far) != Consolidate(input
// records with event time <= W); an emitted record that is not an input record (values, sign and
// event time, with multiplicity); consolidated output != consolidated input at end of stream;
// watermarks not forwarded as received.
// O: direct (nodeh multisets). W: every valid script of <= L records over 2 rows x 2 event times
// with the two watermarks placed at every legal position (exhaustive), plus seeded random longer
// scripts (3 rows, 4 times, zero event times before the first watermark).
package c22

import (
	"fmt"
	"math/rand"
	"time"

	"github.com/cube2222/octosql/octosql"
	"github.com/cube2222/octosql/outputs/stream"

	"github.com/cube2222/octosql/plugins/verifharness/core"
	"github.com/cube2222/octosql/plugins/verifharness/nodeh"
)

func init() { core.Register("C22", Run) }

var base = time.Date(2020, 1, 1, 0, 0, 0, 0, time.UTC)

func ts(i int) time.Time {
	if i == 0 {
		return time.Time{}
	}
	return base.Add(time.Duration(i) * time.Second)
}

type sym struct {
	row  int
	retr bool
	t    int // index into times; 0 = zero event time
}

// rows: the second column is drawn from a family of values that are different but collide under
// weak hashing / sloppy equality (NULL, 0, false, 1, true, 1ns, +0.0, "", one-element tuples and
// structs), so that a wrapper pairing retractions by anything weaker than value equality is caught.
var rowValues = []octosql.Value{
	octosql.NewNull(),
	octosql.NewInt(0),
	octosql.NewBoolean(false),
	octosql.NewInt(1),
	octosql.NewBoolean(true),
	octosql.NewDuration(1),
	octosql.NewFloat(0),
	octosql.NewString(""),
	octosql.NewTuple([]octosql.Value{octosql.NewInt(1)}),
	octosql.NewTuple([]octosql.Value{octosql.NewInt(2)}),
	octosql.NewStruct([]octosql.Value{octosql.NewInt(1)}),
	octosql.NewStruct([]octosql.Value{octosql.NewInt(2)}),
	octosql.NewList([]octosql.Value{}),
	octosql.NewList([]octosql.Value{octosql.NewNull()}),
}

func (s sym) event() nodeh.Event {
	return nodeh.Rec([]octosql.Value{octosql.NewString("s"), rowValues[s.row%len(rowValues)]}, s.retr, ts(s.t))
}

// validHistory: retractions only of rows currently present, both in the whole history and in
// every sub-history "records with event time <= T" (so the settled prefix is itself a changelog).
func validHistory(seq []sym, nTimes int) bool {
	cnt := map[int]int{}
	for _, s := range seq {
		if s.retr {
			cnt[s.row]--
			if cnt[s.row] < 0 {
				return false
			}
		} else {
			cnt[s.row]++
		}
	}
	for T := 0; T <= nTimes; T++ {
		// the sub-history of records with event time <= T must itself be valid in arrival order
		c := map[int]int{}
		for _, s := range seq {
			if s.t <= T {
				if s.retr {
					c[s.row]--
					if c[s.row] < 0 {
						return false
					}
				} else {
					c[s.row]++
				}
			}
		}
	}
	return true
}

type script struct {
	evs []nodeh.Event
	id  string
}

func check(c *core.Ctx, sc script) {
	c.Eval(1)
	col := &nodeh.Collector{}
	node := &stream.InternallyConsistentOutputStreamWrapper{Source: &nodeh.ScriptSource{Events: sc.evs}}
	res := nodeh.RunNode(node, col, 30*time.Second)
	outs := col.Snapshot()
	replay := map[string]interface{}{"id": sc.id, "input": nodeh.EventsString(sc.evs), "output": nodeh.OutsString(outs)}
	if res.TimedOut {
		c.Inconclusive("watchdog")
		return
	}
	if res.Panicked {
		c.Violation("panic:"+core.PanicSite(res.Stack), "wrapper panicked: "+res.PanicMsg, replay)
		return
	}
	if res.Err != nil {
		c.Violation("error", "wrapper returned error: "+res.Err.Error(), replay)
		return
	}
	// (1) at each forwarded watermark: emitted == input <= W
	var inWMs []time.Time
	for _, e := range sc.evs {
		if e.IsWatermark {
			inWMs = append(inWMs, e.Watermark)
		}
	}
	wmi := 0
	for n, o := range outs {
		if !o.IsWatermark {
			continue
		}
		if wmi >= len(inWMs) || !inWMs[wmi].Equal(o.Watermark) {
			c.Violation("watermark-changed", fmt.Sprintf("forwarded watermark #%d = %s is not the received one", wmi, nodeh.FmtTime(o.Watermark)), replay)
			return
		}
		wmi++
		w := o.Watermark
		got := nodeh.ConsolidateOuts(outs, n)
		want := nodeh.ConsolidateEvents(sc.evs, &w)
		if !got.Equal(want) {
			c.Violation(classify(sc, outs), fmt.Sprintf("at watermark %s emitted %s, settled input is %s (emitted-settled = %s)", nodeh.FmtTime(w), got, want, got.Diff(want)), replay)
			return
		}
	}
	if wmi != len(inWMs) {
		c.Violation("watermark-lost", fmt.Sprintf("%d watermarks received, %d forwarded", len(inWMs), wmi), replay)
		return
	}
	// (2) every emitted record is an input record (sign, values, event time), with multiplicity
	in := map[string]int{}
	for _, e := range sc.evs {
		if !e.IsWatermark {
			in[e.String()]++
		}
	}
	for _, o := range outs {
		if o.IsWatermark {
			continue
		}
		k := nodeh.Event{Record: o.Record}.String()
		in[k]--
		if in[k] < 0 {
			c.Violation(classify(sc, outs), "emitted a record that is not in the input (or more often than it is): "+k, replay)
			return
		}
	}
	// (3) end of stream: everything emitted
	got := nodeh.ConsolidateOuts(outs, -1)
	want := nodeh.ConsolidateEvents(sc.evs, nil)
	if !got.Equal(want) {
		c.Violation(classify(sc, outs), fmt.Sprintf("at end of stream emitted %s, input is %s", got, want), replay)
		return
	}
	// Not part of the statement (so only counted, never judged): the order in which the wrapper
	// emits settled records may transiently retract a row before re-inserting it when the
	// retraction it would pair with lies beyond the watermark.
	if bad, _ := nodeh.ChangelogValid(outs); bad >= 0 {
		c.Count("outputs_transiently_negative_not_judged", 1)
	}
	// non-trivial: at least one retraction, one watermark and two records
	nr, nw, nret := 0, 0, 0
	for _, e := range sc.evs {
		if e.IsWatermark {
			nw++
		} else {
			nr++
			if e.Record.Retraction {
				nret++
			}
		}
	}
	if nr >= 2 && nw >= 1 && nret >= 1 {
		c.Nontrivial(nodeh.EventsString(sc.evs))
		c.Count("with_retraction_and_watermark", 1)
	}
	c.Sample(replay)
}

// classify attributes a discrepancy to a known finding only by what the INPUT looks like;
// the finding keys are documented in known_findings.json.
func classify(sc script, outs []nodeh.Out) string {
	for _, o := range outs {
		if !o.IsWatermark && len(o.Record.Values) == 0 {
			return "zero-record-emitted"
		}
	}
	return "wrapper-mismatch"
}

func Run(c *core.Ctx) core.FinishOpts {
	// exhaustive part
	L := c.Pick(5, 6)
	alphabet := []sym{}
	for row := 0; row < 2; row++ {
		for t := 1; t <= 2; t++ {
			alphabet = append(alphabet, sym{row, false, t}, sym{row, true, t})
		}
	}
	var seq []sym
	var rec func()
	enumerated := 0
	rec = func() {
		if len(seq) > 0 && validHistory(seq, 2) {
			// watermark placements: wm(t1) at position p1 in 0..len, wm(t2) at p2 >= p1 (or absent = len+1);
			// legality: no record with time <= W after W.
			n := len(seq)
			for p1 := 0; p1 <= n+1; p1++ {
				for p2 := p1; p2 <= n+1; p2++ {
					legal := true
					for i, s := range seq {
						if p1 <= n && i >= p1 && s.t <= 1 {
							legal = false
						}
						if p2 <= n && i >= p2 && s.t <= 2 {
							legal = false
						}
					}
					if !legal {
						continue
					}
					var evs []nodeh.Event
					for i := 0; i <= n; i++ {
						if p1 == i {
							evs = append(evs, nodeh.WM(ts(1)))
						}
						if p2 == i {
							evs = append(evs, nodeh.WM(ts(2)))
						}
						if i < n {
							evs = append(evs, seq[i].event())
						}
					}
					enumerated++
					check(c, script{evs: evs, id: fmt.Sprintf("ex-%d", enumerated)})
				}
			}
		}
		if len(seq) == L {
			return
		}
		for _, s := range alphabet {
			seq = append(seq, s)
			// prune: arrival-order validity must hold for every prefix
			cnt := 0
			ok := true
			for _, x := range seq {
				if x.row == s.row {
					if x.retr {
						cnt--
					} else {
						cnt++
					}
					if cnt < 0 {
						ok = false
					}
				}
			}
			if ok {
				rec()
			}
			seq = seq[:len(seq)-1]
		}
	}
	rec()
	c.Note("exhaustive_scripts", enumerated)
	c.Note("exhaustive_bound", fmt.Sprintf("all valid scripts of <= %d records over 2 rows x 2 event times, both watermarks at every legal position", L))

	// random part: 3 rows, 4 times, zero times before the first watermark, duplicates
	rng := c.Rng("random")
	N := c.Pick(3000, 200000)
	for i := 0; i < N; i++ {
		check(c, randomScript(rng, i))
	}
	return core.FinishOpts{
		Level: "exploration",
		Rule: "scripts = valid changelogs (retraction only of a present row, in arrival and in event-time order) with monotone watermarks and no late record; " +
			"exhaustive for short scripts, seeded random for longer ones; non-trivial = at least 2 records, 1 watermark and 1 retraction; distinct by the event sequence",
		Floor:       c.Pick(2000, 50000),
		Assumptions: []string{"oracle: own signed-multiset consolidation keyed by a canonical value encoding (nodeh.RowKey)", "Go toolchain"},
		Exhaustive:  true,
	}
}

func randomScript(rng *rand.Rand, i int) script {
	nTimes := 4 + rng.Intn(4)
	n := 3 + rng.Intn(12)
	nRows := 2 + rng.Intn(len(rowValues)-1)
	wmEvery := 10 // one event in wmEvery is a watermark
	if i%8 == 0 {
		// burst: many records buffered between few watermarks
		n = 66 + rng.Intn(120)
		wmEvery = 60
		nRows = 2 + rng.Intn(3)
	}
	var evs []nodeh.Event
	present := map[int][]int{} // row -> list of insert times currently present
	wm := 0                    // index of last emitted watermark time (0 = none)
	for iter := 0; len(evs) < n && iter < 3000; iter++ {
		r := rng.Intn(wmEvery)
		r2 := rng.Intn(10)
		switch {
		case r == 0 && wm < nTimes:
			if wmEvery > 10 {
				wm++
			} else {
				wm += 1 + rng.Intn(nTimes-wm)
			}
			evs = append(evs, nodeh.WM(ts(wm)))
		case r == 0:
			continue
		case r2 <= 3:
			// retraction of a present row with event time >= its insert's and > wm
			rows := []int{}
			for k, v := range present {
				if len(v) > 0 {
					rows = append(rows, k)
				}
			}
			if len(rows) == 0 {
				continue
			}
			// deterministic order
			min := rows[0]
			for _, x := range rows {
				if x < min {
					min = x
				}
			}
			row := min
			if len(rows) > 1 {
				// pick by rng among sorted rows
				sorted := []int{}
				for x := 0; x < nRows; x++ {
					if len(present[x]) > 0 {
						sorted = append(sorted, x)
					}
				}
				row = sorted[rng.Intn(len(sorted))]
			}
			k := rng.Intn(len(present[row]))
			it := present[row][k]
			lo := it
			if wm+1 > lo {
				lo = wm + 1
			}
			if it == 0 && wm == 0 && rng.Intn(2) == 0 {
				lo = 0
			}
			if lo > nTimes {
				continue
			}
			t := lo
			if lo > 0 {
				t = lo + rng.Intn(nTimes-lo+1)
			}
			present[row] = append(present[row][:k], present[row][k+1:]...)
			evs = append(evs, sym{row, true, t}.event())
		default:
			row := rng.Intn(nRows)
			var t int
			if wm == 0 && rng.Intn(4) == 0 {
				t = 0
			} else {
				if wm+1 > nTimes {
					continue
				}
				t = wm + 1 + rng.Intn(nTimes-wm)
			}
			present[row] = append(present[row], t)
			evs = append(evs, sym{row, false, t}.event())
		}
	}
	return script{evs: evs, id: fmt.Sprintf("rnd-%d", i)}
}

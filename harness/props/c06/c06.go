// Package c06: runtime errors are never swallowed (fault enumeration at CLI level).
//
// R: an injected failure that the query necessarily consumes, yet exit status 0.
// O: exit status != 0 and a non-empty error on stderr. Nothing else is judged.
// W: the complete product  fault x operator-above x output mode x row position (x optimizer
// on/off in the thorough tier). Two kinds of fault placement: (a) the fault is BELOW the operator
// (a failing input row / expression in the operator's source, including joins whose other side is
// empty), (b) the fault is ABOVE the operator: a failing expression in an enclosing query that
// consumes the operator's output (consumer-* faults), so the operator must hand its consumer's
// error up. Every faulted run has a *control* twin: the same query text over
// the same table without the fault (or with the panic guard pointing at a row that does not
// exist); the control must exit 0 with output, which proves that a non-zero exit of the faulted
// run is caused by the fault and not by a query the engine rejects anyway.
// No generated query has a LIMIT that could legitimately stop before the fault row (the only
// LIMIT used is 100000, far above the table size).
package c06

import (
	"bytes"
	"encoding/json"
	"fmt"
	"os"
	"path/filepath"
	"sort"
	"strings"

	"github.com/cube2222/octosql/plugins/verifharness/cli"
	"github.com/cube2222/octosql/plugins/verifharness/core"
)

func init() { core.Register("C06", Run) }

const nRows = 120

// ---------------------------------------------------------------------------------------------
// faults

// src describes the relation a query template reads: the (possibly faulty) table, its column
// names, and the boolean predicate that carries an expression fault (or a harmless predicate).
type src struct {
	table    string // file name in FROM
	id, g, s string // column names: unique id, small group key, string
	hasTS    bool   // has a Time column "ts"
	ok       string // clean 6-row table with columns id, g, s of matching types (the other join side)
	pred     func(alias string) string
	// consumer faults: the failing expression is evaluated over the OUTPUT of an operator. fire tells
	// whether the guard value exists (faulted run) or not (control); lit renders a value of the id type.
	consumer bool
	fire     bool
	lit      func(v int) string
	// list renders a list-valued select expression; -o csv cannot print a list column (it panics,
	// which is C07's finding), so in csv mode the list is reduced to its length.
	list func(expr string) string
}

func (x src) lst(expr string) string {
	if x.list == nil {
		return expr
	}
	return x.list(expr)
}

type fault struct {
	name      string
	class     string   // "expression" | "input-row" | "input-read"
	what      string   // human description (evidence)
	markers   []string // one of these is expected in stderr when the fault is reported (not judged)
	positions bool     // does the row position apply?
	// build returns the files of the fixture directory and the src for the faulted and the control run
	files func(k int) map[string][]byte
	dirs  []string // directories to create in the fixture (unreadable inputs)
	bad   func(k int) src
	good  func(k int) src
}

func jsonRow(i int, s string) string {
	return fmt.Sprintf(`{"id":%d,"g":%d,"s":%q,"u":%d,"ts":"2020-01-01T00:%02d:%02dZ"}`, i, i%3, s, i, i/60, i%60)
}

func jsonRows() []string {
	rows := make([]string, nRows)
	for i := range rows {
		rows[i] = jsonRow(i, fmt.Sprintf("s%d", i%5))
	}
	return rows
}

func csvRows() []string {
	rows := make([]string, nRows+1)
	rows[0] = "id,g,s,ts"
	for i := 0; i < nRows; i++ {
		rows[i+1] = fmt.Sprintf("%d,%d,s%d,2020-01-01T00:%02d:%02dZ", i, i%3, i%5, i/60, i%60)
	}
	return rows
}

func linesRows() []string {
	rows := make([]string, nRows)
	for i := range rows {
		rows[i] = fmt.Sprintf("line%d", i)
	}
	return rows
}

func join(rows []string) []byte { return []byte(strings.Join(rows, "\n") + "\n") }

func okJSON() []byte {
	var rows []string
	for i := 0; i < 6; i++ {
		rows = append(rows, fmt.Sprintf(`{"id":%d,"g":%d,"s":"s%d"}`, i, i%3, i%5))
	}
	return join(rows)
}

func okCSV() []byte {
	rows := []string{"id,g,s"}
	for i := 0; i < 6; i++ {
		rows = append(rows, fmt.Sprintf("%d,%d,s%d", i, i%3, i%5))
	}
	return join(rows)
}

func harmless(col string) func(string) string {
	return func(a string) string { return "(" + a + "." + col + " IS NOT NULL)" }
}

func jsonSrc(table string, pred func(string) string) src {
	return src{table: table, id: "id", g: "g", s: "s", hasTS: true, ok: "ok.json", pred: pred}
}
func csvSrc(table string, pred func(string) string) src {
	return src{table: table, id: "id", g: "g", s: "s", hasTS: true, ok: "ok.csv", pred: pred}
}
func linesSrc(table string) src {
	return src{table: table, id: "number", g: "number", s: "text", ok: "ok.csv", pred: harmless("number")}
}

// jsonFileFault: good.json is clean, bad.json has row k replaced.
func jsonFileFault(name, what string, markers []string, badRow func(k int) string) fault {
	return fault{
		name: name, class: "input-row", what: what, markers: markers, positions: true,
		files: func(k int) map[string][]byte {
			bad := jsonRows()
			bad[k] = badRow(k)
			return map[string][]byte{"good.json": join(jsonRows()), "bad.json": join(bad), "ok.json": okJSON()}
		},
		bad:  func(k int) src { return jsonSrc("bad.json", harmless("id")) },
		good: func(k int) src { return jsonSrc("good.json", harmless("id")) },
	}
}

func csvFileFault(name, what string, markers []string, badRow func(k int) string) fault {
	return fault{
		name: name, class: "input-row", what: what, markers: markers, positions: true,
		files: func(k int) map[string][]byte {
			bad := csvRows()
			bad[k+1] = badRow(k)
			return map[string][]byte{"good.csv": join(csvRows()), "bad.csv": join(bad), "ok.csv": okCSV()}
		},
		bad:  func(k int) src { return csvSrc("bad.csv", harmless("id")) },
		good: func(k int) src { return csvSrc("good.csv", harmless("id")) },
	}
}

func dirFault(name, ext string, mk func(string) src) fault {
	return fault{
		name: name, class: "input-read", what: "a directory named like a " + ext + " file in place of the input (open succeeds, read fails with EISDIR)",
		markers: []string{"is a directory"},
		files: func(k int) map[string][]byte {
			m := map[string][]byte{"ok.json": okJSON(), "ok.csv": okCSV()}
			switch ext {
			case "json":
				m["good.json"] = join(jsonRows())
			case "csv":
				m["good.csv"] = join(csvRows())
			case "lines":
				m["good.lines"] = join(linesRows())
			}
			return m
		},
		dirs: []string{"bad." + ext},
		bad:  func(k int) src { return mk("bad." + ext) },
		good: func(k int) src { return mk("good." + ext) },
	}
}

func faults() []fault {
	panicPred := func(col string, lit func(int) string, k int) func(string) string {
		return func(a string) string {
			return fmt.Sprintf("(%s.%s != %s OR panic('x') IS NULL)", a, col, lit(k))
		}
	}
	flt := func(k int) string { return fmt.Sprintf("%d.0", k) }
	itg := func(k int) string { return fmt.Sprintf("%d", k) }
	const guard = 2 // row whose union column is a string in every fixture, guarded by short-circuit
	taPred := func(a string) string {
		return fmt.Sprintf("(%s.id = %d.0 OR abs(%s.u) >= 0.0)", a, guard, a)
	}
	fs := []fault{
		{
			name: "expr-panic-json", class: "expression", positions: true,
			what:    "panic('x') evaluated only at row k through short-circuit: (id != k.0 OR panic('x') IS NULL), id non-nullable Float (JSON table)",
			markers: []string{"panic: 'x'"},
			files: func(k int) map[string][]byte {
				return map[string][]byte{"t.json": join(jsonRows()), "ok.json": okJSON()}
			},
			bad:  func(k int) src { return jsonSrc("t.json", panicPred("id", flt, k)) },
			good: func(k int) src { return jsonSrc("t.json", panicPred("id", flt, -1)) },
		},
		{
			name: "expr-panic-csv", class: "expression", positions: true,
			what:    "panic('x') evaluated only at row k through short-circuit: (id != k OR panic('x') IS NULL), id non-nullable Int (CSV table)",
			markers: []string{"panic: 'x'"},
			files: func(k int) map[string][]byte {
				return map[string][]byte{"t.csv": join(csvRows()), "ok.csv": okCSV()}
			},
			bad:  func(k int) src { return csvSrc("t.csv", panicPred("id", itg, k)) },
			good: func(k int) src { return csvSrc("t.csv", panicPred("id", itg, -1)) },
		},
		{
			name: "type-assertion", class: "expression", positions: true,
			what: "implicit run-time type assertion abs(u) on a Float|String union column: row k holds a string " +
				"(row 2 holds one too so that the preview infers the union; it is guarded by short-circuit)",
			markers: []string{"invalid type"},
			files: func(k int) map[string][]byte {
				good := jsonRows()
				good[guard] = strings.Replace(good[guard], fmt.Sprintf(`"u":%d`, guard), `"u":"str"`, 1)
				bad := append([]string{}, good...)
				bad[k] = strings.Replace(bad[k], fmt.Sprintf(`"u":%d`, k), `"u":"str"`, 1)
				return map[string][]byte{"ugood.json": join(good), "ubad.json": join(bad), "ok.json": okJSON()}
			},
			bad:  func(k int) src { return jsonSrc("ubad.json", taPred) },
			good: func(k int) src { return jsonSrc("ugood.json", taPred) },
		},
		jsonFileFault("json-malformed", "JSON line k is truncated in the middle of the object",
			[]string{"parse"}, func(k int) string { return fmt.Sprintf(`{"id":%d,"g":%d,`, k, k%3) }),
		jsonFileFault("json-not-object", "JSON line k is a valid JSON array instead of an object",
			[]string{"expected JSON object", "parse"}, func(k int) string { return `[1,2]` }),
		jsonFileFault("json-long-line", "JSON line k is longer than the 1 MiB scanner limit",
			[]string{"token too long"}, func(k int) string { return jsonRow(k, strings.Repeat("x", 1<<20)) }),
		{
			name: "lines-long-line", class: "input-row", positions: true,
			what:    "line k of a .lines file is longer than bufio.Scanner's 64 KiB default limit",
			markers: []string{"token too long"},
			files: func(k int) map[string][]byte {
				bad := linesRows()
				bad[k] = strings.Repeat("x", 70000)
				return map[string][]byte{"good.lines": join(linesRows()), "bad.lines": join(bad), "ok.csv": okCSV()}
			},
			bad:  func(k int) src { return linesSrc("bad.lines") },
			good: func(k int) src { return linesSrc("good.lines") },
		},
		csvFileFault("csv-short-row", "CSV row k has fewer fields than the header", []string{"wrong number of fields"},
			func(k int) string { return fmt.Sprintf("%d,%d", k, k%3) }),
		csvFileFault("csv-long-row", "CSV row k has more fields than the header", []string{"wrong number of fields"},
			func(k int) string { return fmt.Sprintf("%d,%d,s,2020-01-01T00:00:00Z,extra", k, k%3) }),
		csvFileFault("csv-bare-quote", "CSV row k has a bare quote inside an unquoted field", []string{`bare "`},
			func(k int) string { return fmt.Sprintf(`%d,%d,s"x,2020-01-01T00:00:00Z`, k, k%3) }),
		csvFileFault("csv-open-quote", "CSV row k opens a quoted field that is never closed", []string{`quoted-field`, "wrong number of fields"},
			func(k int) string { return fmt.Sprintf(`%d,%d,"sx,2020-01-01T00:00:00Z`, k, k%3) }),
		{
			name: "consumer-panic-json", class: "expression-over-operator-output",
			what:    "panic('x') in an expression that consumes the OUTPUT of an operator (select list / WHERE / GROUP BY key / aggregate argument / join ON of an enclosing query), reached for one output row through short-circuit; the inputs (JSON tables) are fault-free",
			markers: []string{"panic: 'x'"},
			files: func(k int) map[string][]byte {
				return map[string][]byte{"t.json": join(jsonRows()), "ok.json": okJSON()}
			},
			bad: func(k int) src {
				x := jsonSrc("t.json", harmless("id"))
				x.consumer, x.fire, x.lit = true, true, flt
				return x
			},
			good: func(k int) src {
				x := jsonSrc("t.json", harmless("id"))
				x.consumer, x.fire, x.lit = true, false, flt
				return x
			},
		},
		{
			name: "consumer-panic-csv", class: "expression-over-operator-output",
			what:    "the same over CSV tables (Int columns)",
			markers: []string{"panic: 'x'"},
			files: func(k int) map[string][]byte {
				return map[string][]byte{"t.csv": join(csvRows()), "ok.csv": okCSV()}
			},
			bad: func(k int) src {
				x := csvSrc("t.csv", harmless("id"))
				x.consumer, x.fire, x.lit = true, true, itg
				return x
			},
			good: func(k int) src {
				x := csvSrc("t.csv", harmless("id"))
				x.consumer, x.fire, x.lit = true, false, itg
				return x
			},
		},
		dirFault("json-unreadable", "json", func(t string) src { return jsonSrc(t, harmless("id")) }),
		dirFault("csv-unreadable", "csv", func(t string) src { return csvSrc(t, harmless("id")) }),
		dirFault("lines-unreadable", "lines", linesSrc),
	}
	return fs
}

// ---------------------------------------------------------------------------------------------
// operators above the fault

type op struct {
	name  string
	needs string // "" | "ts"
	// swallower names the component whose known defect class a zero exit is attributed to
	// (a function of the query shape and the output mode only); "" = none known.
	swallower func(mode string) string
	sql       func(x src) string
	// consumer ops place a failing expression ABOVE the operator (over its output); they pair with
	// the consumer-* faults only.
	consumer bool
	// emptyOK: the fault-free control legitimately prints nothing (inner join with an empty side)
	emptyOK bool
	// needsOptimizer: the fault sits in a WHERE above a join whose other side is empty; it is consumed
	// only when the optimizer pushes the filter into the faulty branch (unoptimized, the join yields no
	// row and the filter is never evaluated, so exit 0 is correct there): not generated with --optimize=false.
	needsOptimizer bool
}

// cpred: a predicate over an operator's output column that evaluates panic('x') only for the row
// whose column equals val (never, in the control). intCol: the column is an Int whatever the table
// type (count(*), len()).
func cpred(x src, col string, val int, intCol bool) string {
	if !x.fire {
		val = -1
	}
	lit := fmt.Sprintf("%d", val)
	if !intCol {
		lit = x.lit(val)
	}
	return fmt.Sprintf("(%s != %s OR panic('x') IS NULL)", col, lit)
}

// emptySide: the clean other table filtered down to nothing.
func emptySide(x src, alias string) string {
	return fmt.Sprintf("(SELECT * FROM %s o WHERE o.id < %s) %s", x.ok, x.lit0(), alias)
}

func (x src) lit0() string {
	if x.ok == "ok.json" {
		return "0.0"
	}
	return "0"
}

func never(string) string { return "" }
func always(s string) func(string) string {
	return func(string) string { return s }
}

const bigLimit = "100000"

func sub(x src, inner, outer string) string {
	return fmt.Sprintf("(SELECT * FROM %s %s WHERE %s) %s", x.table, inner, x.pred(inner), outer)
}

func ops() []op {
	topOrderBy := func(mode string) string {
		// batch_table/live_table sort inside the output printer; json, csv and stream_native put an
		// OrderSensitiveTransform node on top of the plan.
		if mode == "batch_table" || mode == "live_table" {
			return ""
		}
		return "order-by"
	}
	list := []op{
		{name: "none-select-list", swallower: never, sql: func(x src) string {
			return fmt.Sprintf("SELECT b.%s AS id, %s AS p FROM %s b", x.id, x.pred("b"), x.table)
		}},
		{name: "where", swallower: never, sql: func(x src) string {
			return fmt.Sprintf("SELECT b.%s AS id FROM %s b WHERE %s", x.id, x.table, x.pred("b"))
		}},
		{name: "distinct-select-list", swallower: always("distinct"), sql: func(x src) string {
			return fmt.Sprintf("SELECT DISTINCT b.%s AS g, %s AS p FROM %s b", x.g, x.pred("b"), x.table)
		}},
		{name: "distinct-over-where", swallower: always("distinct"), sql: func(x src) string {
			return fmt.Sprintf("SELECT DISTINCT b.%s AS g FROM %s b WHERE %s", x.g, x.table, x.pred("b"))
		}},
		{name: "order-by", swallower: topOrderBy, sql: func(x src) string {
			return fmt.Sprintf("SELECT b.%s AS id, %s AS p FROM %s b ORDER BY id", x.id, x.pred("b"), x.table)
		}},
		{name: "order-by-desc-limit-big", swallower: topOrderBy, sql: func(x src) string {
			return fmt.Sprintf("SELECT b.%s AS id FROM %s b WHERE %s ORDER BY id DESC LIMIT %s", x.id, x.table, x.pred("b"), bigLimit)
		}},
		{name: "limit-big", swallower: never, sql: func(x src) string {
			return fmt.Sprintf("SELECT b.%s AS id FROM %s b WHERE %s LIMIT %s", x.id, x.table, x.pred("b"), bigLimit)
		}},
		{name: "group-by", swallower: never, sql: func(x src) string {
			return fmt.Sprintf("SELECT b.%s AS g, count(*) AS c FROM %s b WHERE %s GROUP BY b.%s", x.g, x.table, x.pred("b"), x.g)
		}},
		{name: "group-by-aggregate-argument", swallower: never, sql: func(x src) string {
			return fmt.Sprintf("SELECT b.%s AS g, count(%s) AS c FROM %s b GROUP BY b.%s", x.g, x.pred("b"), x.table, x.g)
		}},
		{name: "group-by-key-expression", swallower: never, sql: func(x src) string {
			return fmt.Sprintf("SELECT %s AS p, count(*) AS c FROM %s b GROUP BY %s", x.pred("b"), x.table, x.pred("b"))
		}},
		{name: "global-aggregate", swallower: never, sql: func(x src) string {
			return fmt.Sprintf("SELECT count(*) AS c FROM %s b WHERE %s", x.table, x.pred("b"))
		}},
		{name: "group-by-trigger-counting", swallower: never, sql: func(x src) string {
			return fmt.Sprintf("SELECT b.%s AS g, count(*) AS c FROM %s b WHERE %s GROUP BY b.%s TRIGGER COUNTING 7", x.g, x.table, x.pred("b"), x.g)
		}},
		{name: "group-by-trigger-multi", swallower: never, sql: func(x src) string {
			return fmt.Sprintf("SELECT b.%s AS g, count(*) AS c FROM %s b WHERE %s GROUP BY b.%s TRIGGER ON END OF STREAM, COUNTING 5", x.g, x.table, x.pred("b"), x.g)
		}},
	}
	// joins, fault on either side
	for _, kind := range []struct{ name, kw string }{
		{"inner-join", "JOIN"}, {"left-join", "LEFT JOIN"}, {"right-join", "RIGHT JOIN"}, {"outer-join", "OUTER JOIN"}, {"lookup-join", "LOOKUP JOIN"},
	} {
		kw := kind.kw
		side := "fault-right"
		if kw == "LOOKUP JOIN" {
			side = "fault-joined-side"
		}
		list = append(list, op{name: kind.name + "/" + side, swallower: never, sql: func(x src) string {
			return fmt.Sprintf("SELECT a.id AS aid, b.%s AS bid FROM %s a %s %s ON a.g = b.%s", x.id, x.ok, kw, sub(x, "f", "b"), x.g)
		}})
		side = "fault-left"
		if kw == "LOOKUP JOIN" {
			side = "fault-source-side"
		}
		list = append(list, op{name: kind.name + "/" + side, swallower: never, sql: func(x src) string {
			return fmt.Sprintf("SELECT a.id AS aid, b.%s AS bid FROM %s %s %s a ON b.%s = a.g", x.id, sub(x, "f", "b"), kw, x.ok, x.g)
		}})
	}
	list = append(list,
		op{name: "inner-join-where/fault-right", swallower: never, sql: func(x src) string {
			return fmt.Sprintf("SELECT a.id AS aid, b.%s AS bid FROM %s a JOIN %s b ON a.g = b.%s WHERE %s", x.id, x.ok, x.table, x.g, x.pred("b"))
		}},
		op{name: "inner-join-where/fault-left", swallower: never, sql: func(x src) string {
			return fmt.Sprintf("SELECT a.id AS aid, b.%s AS bid FROM %s b JOIN %s a ON a.g = b.%s WHERE %s", x.id, x.table, x.ok, x.g, x.pred("b"))
		}},
		op{name: "inner-join-on-predicate", swallower: never, sql: func(x src) string {
			return fmt.Sprintf("SELECT a.id AS aid, b.%s AS bid FROM %s a JOIN %s b ON a.g = b.%s AND %s", x.id, x.ok, x.table, x.g, x.pred("b"))
		}},
		op{name: "cross-join/fault-second", swallower: never, sql: func(x src) string {
			return fmt.Sprintf("SELECT a.id AS aid, b.%s AS bid FROM %s a, %s", x.id, x.ok, sub(x, "f", "b"))
		}},
		op{name: "cross-join/fault-first", swallower: never, sql: func(x src) string {
			return fmt.Sprintf("SELECT a.id AS aid, b.%s AS bid FROM %s, %s a", x.id, sub(x, "f", "b"), x.ok)
		}},
		op{name: "from-subquery", swallower: never, sql: func(x src) string {
			return fmt.Sprintf("SELECT x.id AS id FROM (SELECT b.%s AS id FROM %s b WHERE %s) x", x.id, x.table, x.pred("b"))
		}},
		op{name: "from-subquery-order-by", swallower: always("order-by"), sql: func(x src) string {
			return fmt.Sprintf("SELECT x.id AS id FROM (SELECT b.%s AS id FROM %s b WHERE %s ORDER BY id) x", x.id, x.table, x.pred("b"))
		}},
		op{name: "from-subquery-order-by-limit-big", swallower: always("order-by"), sql: func(x src) string {
			return fmt.Sprintf("SELECT x.id AS id FROM (SELECT b.%s AS id FROM %s b WHERE %s ORDER BY id DESC LIMIT %s) x", x.id, x.table, x.pred("b"), bigLimit)
		}},
		op{name: "from-subquery-limit-big", swallower: never, sql: func(x src) string {
			return fmt.Sprintf("SELECT x.id AS id FROM (SELECT b.%s AS id FROM %s b WHERE %s LIMIT %s) x", x.id, x.table, x.pred("b"), bigLimit)
		}},
		op{name: "from-subquery-distinct", swallower: always("distinct"), sql: func(x src) string {
			return fmt.Sprintf("SELECT x.g AS g FROM (SELECT DISTINCT b.%s AS g FROM %s b WHERE %s) x", x.g, x.table, x.pred("b"))
		}},
		op{name: "cte", swallower: never, sql: func(x src) string {
			return fmt.Sprintf("WITH x AS (SELECT b.%s AS id FROM %s b WHERE %s) SELECT id FROM x", x.id, x.table, x.pred("b"))
		}},
		op{name: "scalar-subquery", swallower: always("subquery-expr"), sql: func(x src) string {
			return fmt.Sprintf("SELECT a.id AS id, %s AS l FROM %s a", x.lst(fmt.Sprintf("(SELECT b.%s FROM %s b WHERE %s)", x.id, x.table, x.pred("b"))), x.ok)
		}},
		op{name: "scalar-subquery-no-from", swallower: always("subquery-expr"), sql: func(x src) string {
			return fmt.Sprintf("SELECT %s AS l", x.lst(fmt.Sprintf("(SELECT b.%s FROM %s b WHERE %s)", x.id, x.table, x.pred("b"))))
		}},
		op{name: "scalar-subquery-in-where", swallower: always("subquery-expr"), sql: func(x src) string {
			return fmt.Sprintf("SELECT a.id AS id FROM %s a WHERE len((SELECT b.%s FROM %s b WHERE %s)) > 0", x.ok, x.id, x.table, x.pred("b"))
		}},
		op{name: "scalar-subquery-multi-column", swallower: always("subquery-expr-multi"), sql: func(x src) string {
			return fmt.Sprintf("SELECT a.id AS id, %s AS l FROM %s a", x.lst(fmt.Sprintf("(SELECT b.%s, b.%s FROM %s b WHERE %s)", x.id, x.s, x.table, x.pred("b"))), x.ok)
		}},
		op{name: "in-subquery", swallower: always("in-subquery"), sql: func(x src) string {
			return fmt.Sprintf("SELECT a.id AS id FROM %s a WHERE a.id IN (SELECT b.%s FROM %s b WHERE %s)", x.ok, x.id, x.table, x.pred("b"))
		}},
		op{name: "unnest", swallower: never, sql: func(x src) string {
			return fmt.Sprintf("SELECT unnest((SELECT r.i FROM range(start=>0, end=>2) r)) AS u, b.%s AS id FROM %s b WHERE %s", x.id, x.table, x.pred("b"))
		}},
		op{name: "tvf-max-diff-watermark", needs: "ts", swallower: never, sql: func(x src) string {
			return fmt.Sprintf("WITH x AS (SELECT * FROM %s f WHERE %s) SELECT m.%s AS id FROM max_diff_watermark(source=>TABLE(x), max_diff=>INTERVAL 1 SECONDS, time_field=>DESCRIPTOR(ts)) m", x.table, x.pred("f"), x.id)
		}},
		op{name: "tvf-tumble-group-by-on-watermark", needs: "ts", swallower: never, sql: func(x src) string {
			return fmt.Sprintf("WITH x AS (SELECT * FROM %s f WHERE %s), "+
				"y AS (SELECT * FROM max_diff_watermark(source=>TABLE(x), max_diff=>INTERVAL 1 SECONDS, time_field=>DESCRIPTOR(ts)) m), "+
				"z AS (SELECT * FROM tumble(source=>TABLE(y), window_length=>INTERVAL 10 SECONDS, time_field=>DESCRIPTOR(ts)) t) "+
				"SELECT window_end, count(*) AS c FROM z GROUP BY window_end TRIGGER ON WATERMARK", x.table, x.pred("f"))
		}},
	)
	// joins whose other side is empty (filtered down to nothing): the join then only drains the
	// faulty side, a path of its own in StreamJoin/OuterJoin
	for _, kind := range []struct{ name, kw string }{
		{"inner-join", "JOIN"}, {"left-join", "LEFT JOIN"}, {"right-join", "RIGHT JOIN"}, {"outer-join", "OUTER JOIN"}, {"lookup-join", "LOOKUP JOIN"},
	} {
		kw := kind.kw
		if kw != "LOOKUP JOIN" { // a lookup join with an empty source side never runs its joined side: the fault would not be consumed
			list = append(list, op{name: kind.name + "/other-side-empty/fault-right", swallower: never, emptyOK: true, sql: func(x src) string {
				return fmt.Sprintf("SELECT a.id AS aid, b.%s AS bid FROM %s %s %s ON a.g = b.%s", x.id, emptySide(x, "a"), kw, sub(x, "f", "b"), x.g)
			}})
		}
		list = append(list, op{name: kind.name + "/other-side-empty/fault-left", swallower: never, emptyOK: true, sql: func(x src) string {
			return fmt.Sprintf("SELECT a.id AS aid, b.%s AS bid FROM %s %s %s ON b.%s = a.g", x.id, sub(x, "f", "b"), kw, emptySide(x, "a"), x.g)
		}})
	}
	list = append(list,
		op{name: "inner-join-direct/other-side-empty/fault-right", swallower: never, emptyOK: true, needsOptimizer: true, sql: func(x src) string {
			return fmt.Sprintf("SELECT a.id AS aid, b.%s AS bid FROM %s JOIN %s b ON a.g = b.%s WHERE %s", x.id, emptySide(x, "a"), x.table, x.g, x.pred("b"))
		}},
		op{name: "inner-join-direct/other-side-empty/fault-left", swallower: never, emptyOK: true, needsOptimizer: true, sql: func(x src) string {
			return fmt.Sprintf("SELECT a.id AS aid, b.%s AS bid FROM %s b JOIN %s ON a.g = b.%s WHERE %s", x.id, x.table, emptySide(x, "a"), x.g, x.pred("b"))
		}},
	)
	list = append(list, consumerOps()...)
	return list
}

// consumerOps: a failing expression evaluated over the OUTPUT of operator X, in the select list or
// the WHERE clause of an enclosing query (a Map / Filter that consumes X). X's own Run must hand the
// consumer's error up. The inner tables are fault-free.
func consumerOps() []op {
	type inner struct {
		name   string
		needs  string
		sql    func(x src) string // the inner query; its output has the column k
		val    int                // a value k takes in exactly the rows where the consumer must fail
		intCol bool
		col    string // how the consumer addresses the column (default "x.k")
		coal   bool   // k may transiently be NULL (outer joins): guard with COALESCE
	}
	join := func(kw string) func(x src) string {
		return func(x src) string {
			return fmt.Sprintf("SELECT b.id AS k FROM %s a %s %s b ON a.g = b.g", x.ok, kw, x.table)
		}
	}
	inners := []inner{
		{name: "group-by", sql: func(x src) string {
			return fmt.Sprintf("SELECT b.g AS k, count(*) AS c FROM %s b GROUP BY b.g", x.table)
		}, val: 1},
		{name: "group-by-aggregate-column", sql: func(x src) string {
			return fmt.Sprintf("SELECT b.g AS g, count(*) AS k FROM %s b GROUP BY b.g", x.table)
		}, val: nRows / 3, intCol: true},
		{name: "global-aggregate", sql: func(x src) string { return fmt.Sprintf("SELECT count(*) AS k FROM %s b", x.table) }, val: nRows, intCol: true},
		{name: "group-by-trigger-counting", sql: func(x src) string {
			return fmt.Sprintf("SELECT b.g AS k, count(*) AS c FROM %s b GROUP BY b.g TRIGGER COUNTING 7", x.table)
		}, val: 1},
		{name: "group-by-trigger-end-of-stream", sql: func(x src) string {
			return fmt.Sprintf("SELECT b.g AS k, count(*) AS c FROM %s b GROUP BY b.g TRIGGER ON END OF STREAM", x.table)
		}, val: 1},
		{name: "distinct", sql: func(x src) string { return fmt.Sprintf("SELECT DISTINCT b.g AS k FROM %s b", x.table) }, val: 1},
		{name: "order-by", sql: func(x src) string { return fmt.Sprintf("SELECT b.id AS k FROM %s b ORDER BY k", x.table) }, val: 110},
		{name: "order-by-limit-big", sql: func(x src) string {
			return fmt.Sprintf("SELECT b.id AS k FROM %s b ORDER BY k DESC LIMIT %s", x.table, bigLimit)
		}, val: 110},
		{name: "limit-big", sql: func(x src) string { return fmt.Sprintf("SELECT b.id AS k FROM %s b LIMIT %s", x.table, bigLimit) }, val: 110},
		{name: "where", sql: func(x src) string { return fmt.Sprintf("SELECT b.id AS k FROM %s b WHERE b.id IS NOT NULL", x.table) }, val: 110},
		{name: "inner-join", sql: join("JOIN"), val: 110},
		{name: "lookup-join", sql: join("LOOKUP JOIN"), val: 110},
		{name: "left-join", sql: join("LEFT JOIN"), val: 110, coal: true},
		{name: "right-join", sql: join("RIGHT JOIN"), val: 110, coal: true},
		{name: "outer-join", sql: join("OUTER JOIN"), val: 110, coal: true},
		{name: "cross-join", sql: func(x src) string { return fmt.Sprintf("SELECT b.id AS k FROM %s a, %s b", x.ok, x.table) }, val: 110},
		{name: "tvf-max-diff-watermark", needs: "ts", sql: func(x src) string {
			return fmt.Sprintf("SELECT m.id AS k FROM max_diff_watermark(source=>TABLE(%s), max_diff=>INTERVAL 1 SECONDS, time_field=>DESCRIPTOR(ts)) m", x.table)
		}, val: 110},
		{name: "tvf-tumble", needs: "ts", sql: func(x src) string {
			return fmt.Sprintf("SELECT w.id AS k FROM tumble(source=>TABLE(%s), window_length=>INTERVAL 10 SECONDS, time_field=>DESCRIPTOR(ts)) w", x.table)
		}, val: 110},
	}
	// LIMIT n subqueries whose n-th (last admitted) row, or the row before it, makes the consumer
	// fail: the Limit node stops its source with a sentinel error right after handing the n-th row
	// up, so a consumer error on exactly that row must not be mistaken for the sentinel. Rows come
	// out in file order, so the n-th row has id n-1.
	for _, n := range []int{1, 3, 64, 100, nRows} {
		n := n
		inners = append(inners, inner{name: fmt.Sprintf("limit-%d/fail-at-row-%d(the-limit-th)", n, n), sql: func(x src) string {
			return fmt.Sprintf("SELECT b.id AS k FROM %s b LIMIT %d", x.table, n)
		}, val: n - 1})
		if n > 1 {
			inners = append(inners, inner{name: fmt.Sprintf("limit-%d/fail-at-row-%d(one-before)", n, n-1), sql: func(x src) string {
				return fmt.Sprintf("SELECT b.id AS k FROM %s b LIMIT %d", x.table, n)
			}, val: n - 2})
		}
	}
	var out []op
	for _, n := range []int{1, 3, 64, 100, nRows} {
		n := n
		for _, d := range []int{0, 1} {
			d := d
			if n-1-d < 0 {
				continue
			}
			out = append(out,
				op{name: fmt.Sprintf("consumer-where/over-cte-limit-%d/fail-at-row-%d", n, n-d), consumer: true, swallower: never, sql: func(x src) string {
					return fmt.Sprintf("WITH x AS (SELECT b.id AS k FROM %s b LIMIT %d) SELECT k FROM x WHERE %s", x.table, n, cpred(x, "k", n-1-d, false))
				}},
				op{name: fmt.Sprintf("consumer-select-list/over-cte-limit-%d/fail-at-row-%d", n, n-d), consumer: true, swallower: never, sql: func(x src) string {
					return fmt.Sprintf("WITH x AS (SELECT b.id AS k FROM %s b LIMIT %d) SELECT k, %s AS p FROM x", x.table, n, cpred(x, "k", n-1-d, false))
				}},
			)
		}
	}
	for _, in := range inners {
		in := in
		col := func(x src) string {
			c := "x.k"
			if in.coal {
				c = "COALESCE(x.k, " + x.lit(-7) + ")"
			}
			return c
		}
		out = append(out,
			op{name: "consumer-select-list/over-" + in.name, needs: in.needs, consumer: true, swallower: never, sql: func(x src) string {
				return fmt.Sprintf("SELECT x.k AS k, %s AS p FROM (%s) x", cpred(x, col(x), in.val, in.intCol), in.sql(x))
			}},
			op{name: "consumer-where/over-" + in.name, needs: in.needs, consumer: true, swallower: never, sql: func(x src) string {
				return fmt.Sprintf("SELECT x.k AS k FROM (%s) x WHERE %s", in.sql(x), cpred(x, col(x), in.val, in.intCol))
			}},
		)
	}
	// consumers of other kinds
	out = append(out,
		op{name: "consumer-where/over-cte", consumer: true, swallower: never, sql: func(x src) string {
			return fmt.Sprintf("WITH x AS (SELECT b.id AS k FROM %s b) SELECT k FROM x WHERE %s", x.table, cpred(x, "k", 110, false))
		}},
		op{name: "consumer-where/over-scalar-subquery", consumer: true, swallower: never, sql: func(x src) string {
			return fmt.Sprintf("SELECT a.id AS id FROM %s a WHERE %s", x.ok, cpred(x, fmt.Sprintf("len((SELECT b.id FROM %s b))", x.table), nRows, true))
		}},
		op{name: "consumer-group-by-key/over-group-by", consumer: true, swallower: never, sql: func(x src) string {
			return fmt.Sprintf("SELECT %s AS p, count(*) AS n FROM (SELECT b.g AS k, count(*) AS c FROM %s b GROUP BY b.g) x GROUP BY %s", cpred(x, "x.k", 1, false), x.table, cpred(x, "x.k", 1, false))
		}},
		op{name: "consumer-aggregate-argument/over-distinct", consumer: true, swallower: never, sql: func(x src) string {
			return fmt.Sprintf("SELECT count(%s) AS n FROM (SELECT DISTINCT b.g AS k FROM %s b) x", cpred(x, "x.k", 1, false), x.table)
		}},
		op{name: "consumer-join-on/over-group-by", consumer: true, swallower: never, sql: func(x src) string {
			return fmt.Sprintf("SELECT a.id AS id, x.k AS k FROM %s a JOIN (SELECT b.g AS k, count(*) AS c FROM %s b GROUP BY b.g) x ON a.g = x.k AND %s", x.ok, x.table, cpred(x, "x.k", 1, false))
		}},
		op{name: "consumer-distinct-select-list/over-group-by", consumer: true, swallower: never, sql: func(x src) string {
			return fmt.Sprintf("SELECT DISTINCT %s AS p FROM (SELECT b.g AS k, count(*) AS c FROM %s b GROUP BY b.g) x", cpred(x, "x.k", 1, false), x.table)
		}},
	)
	return out
}

// ---------------------------------------------------------------------------------------------

type pos struct {
	name string
	k    int
}

type acase struct {
	id      string
	f       *fault
	o       *op
	mode    string
	p       pos
	opt     bool
	control bool
	ctl     string // key of the control twin
	self    bool   // self-test: reads the fault-free input although judged as faulted
	dir     string
	sql     string
	env     []string // extra environment of the child (GOMAXPROCS for the large-failing-side family)
	res     cli.Result
	ran     bool
}

func (a *acase) args() []string {
	args := []string{a.sql, "-o", a.mode}
	if !a.opt {
		args = append(args, "--optimize=false")
	}
	return args
}

// ctlKey: the control of an expression fault does not depend on k (the guard row -1 never
// exists); the control of a file fault reads the clean file, which has the same name and the same
// content in every fixture that contains it. So controls are shared by (query text, mode, opt).
func ctlKey(sql string, mode string, opt bool) string {
	return fmt.Sprintf("%s|%s|%v", sql, mode, opt)
}

func forMode(x src, mode string) src {
	if mode == "csv" {
		x.list = func(e string) string { return "len(" + e + ")" }
	}
	return x
}

func stderrError(stderr []byte) string {
	for _, l := range strings.Split(string(stderr), "\n") {
		if strings.HasPrefix(l, "Error:") {
			return l
		}
	}
	return ""
}

func Run(c *core.Ctx) core.FinishOpts {
	selftest := os.Getenv("VERIF_SELFTEST") == "1"
	binDir := c.BinDir
	if d := os.Getenv("VERIF_OCTOSQL_BINDIR"); d != "" { // validation aid: judge another build of octosql (e.g. a patched scratch copy)
		binDir = d
	}
	runner := cli.NewRunner(binDir, c.Scratch)
	fs := faults()
	if only := os.Getenv("VERIF_C06_FAULTS"); only != "" { // development aid: restrict the fault list
		var keep []fault
		for _, f := range fs {
			if strings.Contains(","+only+",", ","+f.name+",") {
				keep = append(keep, f)
			}
		}
		fs = keep
	}
	if c.Tier != "thorough" && os.Getenv("VERIF_C06_FAULTS") == "" {
		// quick: one representative per failing code path (the thorough tier has the whole list):
		// json-not-object fails in the same worker branch as json-malformed, csv-long-row/csv-open-quote
		// in the same csv.Reader error return as csv-short-row/csv-bare-quote, csv-unreadable like json-unreadable.
		drop := map[string]bool{"json-not-object": true, "csv-long-row": true, "csv-open-quote": true, "csv-unreadable": true}
		var keep []fault
		for _, f := range fs {
			if !drop[f.name] {
				keep = append(keep, f)
			}
		}
		fs = keep
	}
	os_ := ops()

	allPos := []pos{{"beyond-preview(>100)", 110}, {"first", 0}, {"middle", 60}, {"beyond-batch(>64)", 70}, {"last", nRows - 1}}
	positions := allPos[:1]
	modes := []string{"json", "csv", "batch_table", "stream_native"}
	opts := []bool{true}
	if c.Tier == "thorough" {
		positions = allPos
		modes = append(modes, "live_table")
		opts = []bool{true, false}
	}

	// fixtures: one directory per (fault, position)
	fixture := map[string]string{}
	for i := range fs {
		f := &fs[i]
		ps := positions
		if !f.positions {
			ps = []pos{{"n/a", 0}}
		}
		for _, p := range ps {
			dir := runner.NewDir()
			for name, data := range f.files(p.k) {
				if err := os.WriteFile(filepath.Join(dir, name), data, 0o644); err != nil {
					c.Inconclusive("fixture-write")
				}
			}
			for _, d := range f.dirs {
				_ = os.MkdirAll(filepath.Join(dir, d), 0o755)
			}
			fixture[f.name+"|"+p.name] = dir
		}
	}

	var cases []*acase
	controls := map[string]*acase{}
	for i := range fs {
		f := &fs[i]
		ps := positions
		if !f.positions {
			ps = []pos{{"n/a", 0}}
		}
		for j := range os_ {
			o := &os_[j]
			if o.needs == "ts" && !f.bad(0).hasTS {
				continue
			}
			if o.consumer != f.bad(0).consumer {
				continue
			}
			for mi, mode := range modes {
				if c.Tier != "thorough" && (mi+i+j)%2 != 0 {
					// quick: two of the four output modes per (fault, operator), rotating, so that
					// every (fault, operator) pair and every (operator, mode) pair is still enumerated;
					// the thorough tier runs the full product.
					continue
				}
				for _, opt := range opts {
					if o.needsOptimizer && !opt {
						continue
					}
					for _, p := range ps {
						dir := fixture[f.name+"|"+p.name]
						id := fmt.Sprintf("%s|%s|%s|%s|opt=%v", f.name, o.name, mode, p.name, opt)
						csql := o.sql(forMode(f.good(p.k), mode))
						ck := ctlKey(csql, mode, opt)
						cases = append(cases, &acase{id: id, f: f, o: o, mode: mode, p: p, opt: opt, dir: dir, sql: o.sql(forMode(f.bad(p.k), mode)), ctl: ck})
						if _, ok := controls[ck]; !ok {
							ctl := &acase{id: "control|" + ck, f: f, o: o, mode: mode, p: p, opt: opt, control: true, dir: dir, sql: csql, ctl: ck}
							controls[ck] = ctl
							cases = append(cases, ctl)
						}
					}
				}
			}
		}
	}

	cases = append(cases, largeSideCases(c, runner)...)

	if only := onlyID(c); only != "" {
		var keep []*acase
		for _, a := range cases {
			if a.id == only {
				keep = append(keep, a)
			}
		}
		// keep the controls and the op-none twin needed to judge the selected case
		for _, a := range cases {
			for _, k := range keep {
				if a != k && a.mode == k.mode && a.opt == k.opt &&
					((a.control && a.ctl == k.ctl) || (!a.control && a.f == k.f && a.o.name == "none-select-list" && a.p == k.p)) {
					keep = append(keep, a)
				}
			}
		}
		cases = keep
	}

	// self-test: a handful of faulted cases silently read the fault-free input; the oracle must
	// then report them (exit 0 although a fault was "injected").
	selfN := 0
	if selftest {
		for _, a := range cases {
			if !a.control && a.o.name == "where" && selfN < 3 {
				a.sql = a.o.sql(forMode(a.f.good(a.p.k), a.mode))
				a.self = true
				selfN++
			}
		}
	}

	// execute
	core.Parallel(len(cases), 16, func(i int) {
		a := cases[i]
		a.res = runner.Exec(cli.Run{Args: a.args(), Dir: a.dir, Env: a.env})
		a.ran = true
	})

	// a run that hit the 60 s watchdog is retried once with little parallelism (a loaded machine
	// must not turn into inconclusive cases); what still times out is listed in the evidence.
	var slow []*acase
	for _, a := range cases {
		if a.res.TimedOut {
			slow = append(slow, a)
		}
	}
	c.Count("watchdog_retries", len(slow))
	core.Parallel(len(slow), 3, func(i int) {
		a := slow[i]
		a.res = runner.Exec(cli.Run{Args: a.args(), Dir: a.dir, Env: a.env})
	})
	var stillSlow []string
	for _, a := range slow {
		if a.res.TimedOut && len(stillSlow) < 30 {
			stillSlow = append(stillSlow, a.id+" :: "+a.sql)
		}
	}
	if len(stillSlow) > 0 {
		c.Note("watchdog_cases", stillSlow)
	}

	// judge, in deterministic order
	type cell struct{ injected, detected int }
	matrix := map[string]map[string]*cell{}
	noneResult := map[string]*acase{} // fault|mode|opt|pos -> the run with no operator above
	for _, a := range cases {
		if !a.control && a.o.name == "none-select-list" {
			noneResult[fmt.Sprintf("%s|%s|%v|%s", a.f.name, a.mode, a.opt, a.p.name)] = a
		}
	}
	ctlOK := map[string]bool{}
	for _, a := range cases {
		if !a.control {
			continue
		}
		c.Count("control_runs", 1)
		ck := a.ctl
		switch {
		case a.res.TimedOut:
			c.Inconclusive("watchdog")
		case a.res.Exit != 0 || (len(bytes.TrimSpace(a.res.Stdout)) == 0 && !a.o.emptyOK):
			// the query shape is not runnable even without the fault: the faulted twin proves nothing
			c.Inconclusive("control-not-runnable")
			c.Count("control_failed/"+a.o.name, 1)
			if os.Getenv("VERIF_DEBUG") != "" {
				fmt.Printf("DEBUG control failed %s exit=%d\n  sql=%s\n  %s\n", a.id, a.res.Exit, a.sql, stderrError(a.res.Stderr))
			}
		default:
			ctlOK[ck] = true
		}
	}

	for _, a := range cases {
		if a.control {
			continue
		}
		replay := map[string]interface{}{
			"id": a.id, "fault": a.f.name, "fault_description": a.f.what, "operator": a.o.name, "mode": a.mode,
			"position": a.p.name, "row": a.p.k, "rows_in_table": nRows, "args": a.args(), "env": a.env, "fixture": a.f.name + " at row " + fmt.Sprint(a.p.k),
			"exit": a.res.Exit, "stderr": tail(a.res.Stderr, 600), "stdout_bytes": len(a.res.Stdout),
		}
		if a.res.TimedOut {
			c.Inconclusive("watchdog")
			continue
		}
		if !ctlOK[a.ctl] {
			continue // counted above
		}
		c.Eval(1)
		c.Nontrivial(a.id)
		c.Count("fault/"+a.f.name, 1)
		c.Count("operator/"+a.o.name, 1)
		c.Count("mode/"+a.mode, 1)
		c.Count("position/"+a.p.name, 1)
		c.Count(fmt.Sprintf("optimize/%v", a.opt), 1)
		c.Count("class/"+a.f.class, 1)
		if matrix[a.f.name] == nil {
			matrix[a.f.name] = map[string]*cell{}
		}
		if matrix[a.f.name][a.o.name] == nil {
			matrix[a.f.name][a.o.name] = &cell{}
		}
		m := matrix[a.f.name][a.o.name]
		m.injected++
		errLine := stderrError(a.res.Stderr)
		if a.res.Panicked() {
			// died with a Go panic: not swallowed (non-zero exit, trace on stderr); C07 judges crashes
			c.Count("died_with_go_panic_not_judged_here", 1)
			m.detected++
			continue
		}
		if a.res.Exit != 0 && len(bytes.TrimSpace(a.res.Stderr)) > 0 {
			m.detected++
			c.Count("reported", 1)
			hit := false
			for _, mk := range a.f.markers {
				if strings.Contains(string(a.res.Stderr), mk) {
					hit = true
				}
			}
			if hit {
				c.Count("reported_with_expected_message", 1)
			} else {
				c.Count("reported_with_other_message", 1)
				if os.Getenv("VERIF_DEBUG") != "" {
					fmt.Printf("DEBUG other message %s\n  sql=%s\n  %s\n", a.id, a.sql, errLine)
				}
			}
			if strings.Contains(errLine, "typecheck error") || strings.Contains(errLine, "couldn't create datasource") {
				c.Count("reported_at_schema_inference", 1)
			} else {
				c.Count("reported_at_run_time", 1)
			}
			c.Sample(replay)
			continue
		}
		// refuted: exit 0 (or a non-zero exit without any message)
		symptom := "exit status 0"
		if a.res.Exit != 0 {
			symptom = fmt.Sprintf("exit status %d with empty stderr", a.res.Exit)
		}
		key := ""
		none := noneResult[fmt.Sprintf("%s|%s|%v|%s", a.f.name, a.mode, a.opt, a.p.name)]
		switch {
		case a.res.Exit != 0:
			key = "silent-failure:" + a.o.name
		case none != nil && none.ran && !none.res.TimedOut && none.res.Exit == 0 && !a.self:
			// the datasource itself swallows this fault: even with no operator above the exit is 0
			key = "swallowed:" + a.f.name
		case a.o.swallower(a.mode) != "":
			key = "swallowed:" + a.o.swallower(a.mode)
		default:
			key = "swallowed:" + a.o.name + ":" + a.mode
		}
		c.Violation(key, fmt.Sprintf("fault %q at row %d (%s) under operator %q, -o %s, optimize=%v: %s; query: %s",
			a.f.name, a.p.k, a.p.name, a.o.name, a.mode, a.opt, symptom, a.sql), replay)
	}

	// evidence
	var faultList []map[string]string
	for _, f := range fs {
		faultList = append(faultList, map[string]string{"name": f.name, "class": f.class, "what": f.what})
	}
	c.Note("fault_list", faultList)
	var opNames []string
	for _, o := range os_ {
		opNames = append(opNames, o.name)
	}
	c.Note("operators_above", opNames)
	var posNames []string
	for _, p := range positions {
		posNames = append(posNames, fmt.Sprintf("%s=row %d of %d", p.name, p.k, nRows))
	}
	c.Note("positions", posNames)
	c.Note("modes", modes)
	mat := map[string]map[string]string{}
	fnames := []string{}
	for fn := range matrix {
		fnames = append(fnames, fn)
	}
	sort.Strings(fnames)
	for _, fn := range fnames {
		mat[fn] = map[string]string{}
		for on, cl := range matrix[fn] {
			mat[fn][on] = fmt.Sprintf("%d/%d", cl.detected, cl.injected)
		}
	}
	c.Note("reported_over_injected_per_fault_and_operator", mat)
	nSrcF, nConF, nSrcO, nConO := 0, 0, 0, 0
	for _, f := range fs {
		if f.bad(0).consumer {
			nConF++
		} else {
			nSrcF++
		}
	}
	for _, o := range os_ {
		if o.consumer {
			nConO++
		} else {
			nSrcO++
		}
	}
	c.Note("product", fmt.Sprintf("(%d faults below the operator x %d operator shapes + %d faults above the operator x %d consumer shapes) x %d modes x %d positions (where a position applies) x %d optimizer settings, each with a fault-free control twin; shapes that need a Time column are skipped for .lines inputs",
		nSrcF, nSrcO, nConF, nConO, len(modes), len(positions), len(opts)))

	return core.FinishOpts{
		Level: "fault_enumeration",
		Rule: "complete product fault x operator x output mode x row position (x optimizer setting in the thorough tier); the fault sits below the operator " +
			"(input row / source expression; joins also with an empty other side) or above it (consumer-* faults: failing expression over the operator's output); " +
			"a case counts (non-trivial) only if its control twin - same query text, fault-free input - exits 0 with output; distinct by case id",
		Floor:       c.Pick(800, 15000),
		Assumptions: []string{"a zero exit of the control twin shows the query shape is accepted, so the faulted run's non-zero exit is caused by the fault", "exit status and stderr as seen by os/exec"},
		Exhaustive:  true,
	}
}

func tail(b []byte, n int) string {
	s := string(b)
	if i := strings.Index(s, "Error:"); i >= 0 {
		s = s[i:]
	}
	if len(s) > n {
		s = s[:n] + "..."
	}
	return s
}

// onlyID returns the id of the single case to run: --only <id>, or the id stored in a --replay file.
func onlyID(c *core.Ctx) string {
	if c.Only != "" || c.Replay == "" {
		return c.Only
	}
	data, err := os.ReadFile(c.Replay)
	if err != nil {
		return ""
	}
	var r struct {
		Case struct {
			ID string `json:"id"`
		} `json:"case"`
	}
	if json.Unmarshal(data, &r) != nil {
		return ""
	}
	return r.Case.ID
}

// largeSideCases: the "large failing side" family. StreamJoin's sources run in goroutines that
// hand records to the join through 10000-slot channels; a source that fails while it sits a full
// buffer ahead of the join must still get its error through. So: an inner join whose failing
// input has 20000 rows with the fault at the very end. The join is made slow exactly when it
// matters: the ~55 rows the join is working on while the source reaches its end (10000 rows
// behind it) carry a hot key that matches 15000 rows of the other side, every other row matches
// one row, and a global count(*) keeps the output small. Fault on the left and on the right,
// GOMAXPROCS 1 and 16. (Against a join that drops the error when its buffer is full, about 45 %
// of these runs exit 0, measured; with 12 runs per check a miss is practically excluded.)
func largeSideCases(c *core.Ctx, runner *cli.Runner) []*acase {
	if os.Getenv("VERIF_C06_FAULTS") != "" && !strings.Contains(os.Getenv("VERIF_C06_FAULTS"), "large-side") {
		return nil
	}
	const n, hotFan = 20000, 15000
	const hotLo, hotHi = n - 10040, n - 9985
	dir := runner.NewDir()
	var big strings.Builder
	for i := 0; i < n; i++ {
		k := 2 + i%5
		if i >= hotLo && i < hotHi {
			k = 1
		}
		fmt.Fprintf(&big, "{\"id\":%d,\"k\":%d}\n", i, k)
	}
	var small strings.Builder
	for i := 0; i < hotFan; i++ {
		fmt.Fprintf(&small, "{\"k\":1,\"v\":%d}\n", i)
	}
	for k := 2; k < 7; k++ {
		fmt.Fprintf(&small, "{\"k\":%d,\"v\":0}\n", k)
	}
	files := map[string]string{
		"big.json":           big.String(),
		"small.json":         small.String(),
		"big_malformed.json": big.String() + fmt.Sprintf("{\"id\":%d,\"k\":\n", n),
		"big_longline.json":  big.String() + fmt.Sprintf("{\"id\":%d,\"k\":1,\"pad\":\"%s\"}\n", n, strings.Repeat("x", 1<<20)),
	}
	for name, data := range files {
		if err := os.WriteFile(filepath.Join(dir, name), []byte(data), 0o644); err != nil {
			c.Inconclusive("fixture-write")
			return nil
		}
	}
	type variant struct {
		f         *fault
		bad, good string // the failing side as a table expression with alias b
	}
	guard := func(k int) string {
		return fmt.Sprintf("(SELECT * FROM big.json f WHERE (f.id != %d.0 OR panic('x') IS NULL)) b", k)
	}
	variants := []variant{
		{&fault{name: "large-side/expr-panic-late-row", class: "expression", what: fmt.Sprintf("panic('x') at row %d of a %d-row join input", n-10, n), markers: []string{"panic: 'x'"}}, guard(n - 10), guard(-1)},
		{&fault{name: "large-side/json-malformed-last-line", class: "input-row", what: fmt.Sprintf("truncated JSON object after %d good rows of a join input", n), markers: []string{"parse"}}, "big_malformed.json b", "big.json b"},
		{&fault{name: "large-side/json-long-last-line", class: "input-row", what: fmt.Sprintf("over-long JSON line after %d good rows of a join input", n), markers: []string{"token too long"}}, "big_longline.json b", "big.json b"},
	}
	sides := []struct {
		o   *op
		sql func(b string) string
	}{
		{&op{name: "inner-join-slow-fanout/fault-left", swallower: never}, func(b string) string {
			return "SELECT count(*) AS c FROM " + b + " JOIN small.json s ON b.k = s.k"
		}},
		{&op{name: "inner-join-slow-fanout/fault-right", swallower: never}, func(b string) string {
			return "SELECT count(*) AS c FROM small.json s JOIN " + b + " ON s.k = b.k"
		}},
	}
	var out []*acase
	seenCtl := map[string]bool{}
	for vi, v := range variants {
		for si, sd := range sides {
			mode := []string{"json", "batch_table"}[(vi+si)%2]
			csql := sd.sql(v.good)
			ck := ctlKey(csql, mode, true)
			if !seenCtl[ck] {
				seenCtl[ck] = true
				out = append(out, &acase{id: "control|" + ck, f: v.f, o: sd.o, mode: mode, p: pos{"end-of-large-input", n}, opt: true, control: true, dir: dir, sql: csql, ctl: ck})
			}
			for _, procs := range []int{1, 16} {
				for rep := 0; rep < 1; rep++ {
					out = append(out, &acase{
						id: fmt.Sprintf("%s|%s|%s|GOMAXPROCS=%d|rep=%d", v.f.name, sd.o.name, mode, procs, rep),
						f:  v.f, o: sd.o, mode: mode, p: pos{"end-of-large-input", n}, opt: true, dir: dir, sql: sd.sql(v.bad), ctl: ck,
						env: []string{fmt.Sprintf("GOMAXPROCS=%d", procs)},
					})
				}
			}
		}
	}
	c.Note("large_failing_side_family", fmt.Sprintf("%d-row failing join input, fault at the end, rows %d..%d match %d rows of the other side (all others one), 3 faults x 2 sides x GOMAXPROCS{1,16}", n, hotLo, hotHi-1, hotFan))
	return out
}

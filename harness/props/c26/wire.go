package c26

import (
	"context"
	"encoding/json"
	"fmt"
	"os"
	"path/filepath"
	"runtime/debug"
	"sort"
	"strings"
	"sync"
	"time"

	"github.com/Masterminds/semver"
	"gopkg.in/yaml.v3"

	"github.com/cube2222/octosql/config"
	"github.com/cube2222/octosql/execution"
	"github.com/cube2222/octosql/logs"
	"github.com/cube2222/octosql/octosql"
	"github.com/cube2222/octosql/physical"
	"github.com/cube2222/octosql/plugins/executor"
	"github.com/cube2222/octosql/plugins/manager"

	"github.com/cube2222/octosql/plugins/verifharness/core"
	"github.com/cube2222/octosql/plugins/verifharness/nodeh"
	"github.com/cube2222/octosql/plugins/verifharness/plugtest"
	"github.com/cube2222/octosql/plugins/verifharness/tpscript"
)

// The wire leg: octosql's own plugin client (plugins/executor) running in this process talks to
// the real test plugin process over real gRPC/unix sockets.

type wireOut struct {
	isMeta bool
	rec    execution.Record
	meta   execution.MetadataMessage
}

type wireRun struct {
	outs     []wireOut
	err      error
	panicMsg string
	stack    string
	timedOut bool
}

func runWireNode(node execution.Node, ec *execution.VariableContext, timeout time.Duration) wireRun {
	ctx, cancel := context.WithCancel(context.Background())
	defer cancel()
	done := make(chan wireRun, 1)
	go func() {
		var res wireRun
		var mu sync.Mutex
		defer func() {
			if r := recover(); r != nil {
				res.panicMsg = fmt.Sprint(r)
				res.stack = string(debug.Stack())
			}
			done <- res
		}()
		res.err = node.Run(execution.ExecutionContext{Context: ctx, VariableContext: ec},
			func(pctx execution.ProduceContext, r execution.Record) error {
				mu.Lock()
				defer mu.Unlock()
				vals := append([]octosql.Value{}, r.Values...)
				res.outs = append(res.outs, wireOut{rec: execution.NewRecord(vals, r.Retraction, r.EventTime)})
				return nil
			},
			func(pctx execution.ProduceContext, m execution.MetadataMessage) error {
				mu.Lock()
				defer mu.Unlock()
				res.outs = append(res.outs, wireOut{isMeta: true, meta: m})
				return nil
			})
	}()
	select {
	case res := <-done:
		return res
	case <-time.After(timeout):
		return wireRun{timedOut: true}
	}
}

type wireEnv struct {
	db   *executor.Database
	pe   *executor.PluginExecutor
	dir  string
	logf string
}

func startPlugin(c *core.Ctx, scripts map[string]string) (*wireEnv, error) {
	pd := filepath.Join(c.Scratch, "wire-pd")
	if err := plugtest.InstallBinary(pd, "core", "testplugin", "1.0.0", filepath.Join(c.BinDir, "testplugin")); err != nil {
		return nil, err
	}
	_ = os.Setenv("OCTOSQL_PLUGIN_DIR", pd)
	logf := filepath.Join(c.Scratch, "wire-plugin-calls.jsonl")
	_ = os.Setenv("TESTPLUGIN_LOG", logf)
	if logs.Output == nil {
		f, err := os.Create(filepath.Join(c.Scratch, "wire-plugin-output.txt"))
		if err != nil {
			return nil, err
		}
		logs.Output = f
	}
	names := make([]string, 0, len(scripts))
	for k := range scripts {
		names = append(names, k)
	}
	sort.Strings(names)
	var sb strings.Builder
	sb.WriteString("scripts:\n")
	for _, k := range names {
		fmt.Fprintf(&sb, "  %s: \"%s\"\n", k, scripts[k])
	}
	var node yaml.Node
	if err := yaml.Unmarshal([]byte(sb.String()), &node); err != nil {
		return nil, err
	}
	cfg := node
	if node.Kind == yaml.DocumentNode && len(node.Content) == 1 {
		cfg = *node.Content[0]
	}
	pe := &executor.PluginExecutor{Manager: &manager.PluginManager{}}
	ctx := context.Background()
	type started struct {
		db  *executor.Database
		err error
	}
	ch := make(chan started, 1)
	go func() {
		db, err := pe.RunPlugin(ctx, config.PluginReference{Name: "testplugin", Repository: "core"}, "tp", semver.MustParse("1.0.0"), cfg)
		ch <- started{db, err}
	}()
	select {
	case s := <-ch:
		if s.err != nil {
			return nil, s.err
		}
		return &wireEnv{db: s.db, pe: pe, dir: pd, logf: logf}, nil
	case <-time.After(60 * time.Second):
		return nil, fmt.Errorf("plugin did not start within 60 s")
	}
}

func uniqueFieldNames(s physical.Schema) physical.Schema {
	fields := make([]physical.SchemaField, len(s.Fields))
	for i, f := range s.Fields {
		fields[i] = physical.SchemaField{Name: fmt.Sprintf("c%d_%s", i, f.Name), Type: f.Type}
	}
	return physical.Schema{Fields: fields, TimeField: s.TimeField, NoRetractions: s.NoRetractions}
}

// affectedByTypeFnOverload: names of the functions called in pred through a TypeFn overload that
// declares no argument types and is not the first such overload of its function (input predicate
// of the repopulate-typefn-overload findings).
func affectedByTypeFnOverload(pred physical.Expression, idx *overloadIndex) []string {
	seen := map[string]bool{}
	var walk func(e physical.Expression)
	walk = func(e physical.Expression) {
		if e.ExpressionType == physical.ExpressionTypeFunctionCall {
			d := e.FunctionCall.FunctionDescriptor
			if d.TypeFn != nil && len(d.ArgumentTypes) == 0 && idx.typeFnNoArgs[e.FunctionCall.Name] >= 2 {
				if k := idx.byPtr[funcPtr(d.Function)]; k != "" && k != idx.firstTypeFnNoArgs(e.FunctionCall.Name) {
					seen[e.FunctionCall.Name] = true
				}
			}
		}
		for _, ch := range children(e) {
			walk(ch)
		}
	}
	walk(pred)
	out := []string{}
	for k := range seen {
		out = append(out, k)
	}
	sort.Strings(out)
	return out
}

func (idx *overloadIndex) firstTypeFnNoArgs(name string) string {
	return idx.firstTypeFn[name]
}

func wireLeg(c *core.Ctx, preds []predCase, predSrcRows [][]octosql.Value) {
	if c.Only != "" && !strings.HasPrefix(c.Only, "wire-") {
		return
	}
	// octosql puts the plugin sockets under its cache directory (fixed at package initialisation
	// from HOME / OCTOSQL_PLUGIN_TMP_DIR): <dir>/tmp/plugins/core$testplugin<10 digits>/<ULID>.sock
	// must fit into sun_path (107 bytes), otherwise the plugin cannot listen — an environment
	// matter, not a verdict
	sockBase := filepath.Join(config.OctosqlCacheDir, "tmp", "plugins")
	if v, ok := os.LookupEnv("OCTOSQL_PLUGIN_TMP_DIR"); ok {
		sockBase = v
	}
	if len(sockBase)+1+len("core$testplugin")+10+1+26+len(".sock") > 107 {
		c.Inconclusive("socket-path-too-long")
		return
	}
	idx := newOverloadIndex()
	nScripts := c.Pick(40, 600)
	scripts := map[string]string{}
	type scriptCase struct {
		name   string
		script tpscript.Script
	}
	var cases []scriptCase
	for i := 0; i < nScripts; i++ {
		rng := c.Rng(fmt.Sprintf("wire-script-%d", i))
		g := &valueGen{rng: rng}
		s := uniqueFieldNames(g.genSchema())
		sc := tpscript.Script{Schema: s}
		n := rng.Intn(12)
		for k := 0; k < n; k++ {
			if rng.Intn(5) == 0 {
				sc.Events = append(sc.Events, tpscript.Event{IsMeta: true, Meta: execution.MetadataMessage{Type: execution.MetadataMessageTypeWatermark, Watermark: g.genTime()}})
			} else {
				sc.Events = append(sc.Events, tpscript.Event{Record: g.genRecordFor(s)})
			}
		}
		name := fmt.Sprintf("s%d", i)
		path := filepath.Join(c.Scratch, name+".tps")
		if err := tpscript.Write(path, sc); err != nil {
			c.Inconclusive("script-write")
			return
		}
		scripts[name] = path
		cases = append(cases, scriptCase{name, sc})
	}
	// the predicate table, as a script with the memdb table's original column names
	predSchema := physical.NewSchema(predFields(), -1, physical.WithNoRetractions(true))
	{
		sc := tpscript.Script{Schema: predSchema}
		for _, r := range predSrcRows {
			sc.Events = append(sc.Events, tpscript.Event{Record: execution.NewRecord(r, false, time.Time{})})
		}
		path := filepath.Join(c.Scratch, "preds.tps")
		if err := tpscript.Write(path, sc); err != nil {
			c.Inconclusive("script-write")
			return
		}
		scripts["preds"] = path
	}
	env, err := startPlugin(c, scripts)
	if err != nil {
		c.Inconclusive("plugin-start")
		c.Note("plugin_start_error", err.Error())
		return
	}
	defer func() { _ = env.pe.Close() }()
	ctx := nodeh.Ctx()

	// (1) scripts: schema, records, watermarks, with a variable context riding along
	selfLeft := 1
	for i, sc := range cases {
		id := fmt.Sprintf("wire-script-%d-%d", c.Seed, i)
		if c.Only != "" && c.Only != id {
			continue
		}
		c.Eval(1)
		rng := c.Rng(fmt.Sprintf("wire-script-run-%d", i))
		g := &valueGen{rng: rng}
		replay := map[string]interface{}{"id": id, "leg": "wire-script", "schema": fmt.Sprintf("%+v", sc.script.Schema), "events": len(sc.script.Events)}
		impl, schema, err := env.db.GetTable(ctx, sc.name, nil)
		if err != nil {
			c.Violation("wire-get-table", err.Error(), replay)
			continue
		}
		if d := schemaDiff(sc.script.Schema, schema); d != "" {
			c.Violation("roundtrip-diff:schema", "schema arriving from the plugin: "+d, replay)
			continue
		}
		pc := g.genPhysCtx(rng.Intn(5))
		ec := g.genExecCtxFor(pc)
		node, err := materializeImpl(impl, ctx, physical.Environment{VariableContext: pc}, schema, nil)
		if err != nil {
			c.Violation("wire-materialize", err.Error(), replay)
			continue
		}
		res := runWireNode(node, ec, 60*time.Second)
		switch {
		case res.timedOut:
			c.Inconclusive("watchdog")
			continue
		case res.panicMsg != "":
			c.Violation("panic:"+core.PanicSite(res.stack), res.panicMsg, replay)
			continue
		case res.err != nil:
			c.Violation("wire-run", res.err.Error(), replay)
			continue
		}
		if selftest && selfLeft > 0 && len(res.outs) > 1 {
			res.outs = res.outs[:len(res.outs)-1] // deliberately wrong recording: last message dropped
			selfLeft--
		}
		bad := ""
		if len(res.outs) != len(sc.script.Events) {
			bad = fmt.Sprintf("%d messages sent, %d arrived", len(sc.script.Events), len(res.outs))
		}
		for k := 0; bad == "" && k < len(res.outs); k++ {
			e, o := sc.script.Events[k], res.outs[k]
			switch {
			case e.IsMeta != o.isMeta:
				bad = fmt.Sprintf("message %d: record/metadata kind changed", k)
			case e.IsMeta:
				if d := metaDiff(e.Meta, o.meta); d != "" {
					bad = fmt.Sprintf("message %d: %s", k, d)
				}
			default:
				if d := recordDiff(e.Record, o.rec); d != "" {
					bad = fmt.Sprintf("message %d: %s", k, d)
				}
			}
		}
		if bad != "" {
			c.Violation("wire-stream-diff", "stream served by the plugin differs from what it was given: "+bad, replay)
			continue
		}
		c.Count("wire/scripts_ok", 1)
		c.Count("wire/messages", len(res.outs))
		if len(sc.script.Events) > 0 {
			c.Nontrivial("wire-script:" + fmt.Sprintf("%#v", sc.script))
		}
	}

	// (2) variable contexts: echoed back by the plugin
	nCtx := c.Pick(40, 600)
	implEcho, echoSchema, err := env.db.GetTable(ctx, "ctxecho", nil)
	if err != nil {
		c.Violation("wire-get-table", err.Error(), map[string]interface{}{"id": "wire-ctxecho", "leg": "wire-context"})
		nCtx = 0
	}
	for i := 0; i < nCtx; i++ {
		id := fmt.Sprintf("wire-ctx-%d-%d", c.Seed, i)
		if c.Only != "" && c.Only != id {
			continue
		}
		c.Eval(1)
		rng := c.Rng(fmt.Sprintf("wire-ctx-%d", i))
		g := &valueGen{rng: rng}
		frames := 1 + rng.Intn(4)
		pc := g.genPhysCtx(frames)
		ec := g.genExecCtxFor(pc)
		replay := map[string]interface{}{"id": id, "leg": "wire-context", "frames": frames}
		node, err := materializeImpl(implEcho, ctx, physical.Environment{VariableContext: pc}, echoSchema, nil)
		if err != nil {
			c.Violation("wire-materialize", err.Error(), replay)
			continue
		}
		res := runWireNode(node, ec, 60*time.Second)
		switch {
		case res.timedOut:
			c.Inconclusive("watchdog")
			continue
		case res.panicMsg != "":
			c.Violation("panic:"+core.PanicSite(res.stack), res.panicMsg, replay)
			continue
		case res.err != nil:
			c.Violation("wire-run", res.err.Error(), replay)
			continue
		}
		// expected rows
		bad := ""
		k := 0
		frame := 0
		p, e := pc, ec
		for ; p != nil && bad == ""; p, e, frame = p.Parent, e.Parent, frame+1 {
			if len(p.Fields) == 0 {
				if k >= len(res.outs) || res.outs[k].rec.Values[1].Int != -1 || res.outs[k].rec.Values[0].Int != int64(frame) {
					bad = fmt.Sprintf("frame %d (no variables) not echoed", frame)
				}
				k++
				continue
			}
			for j := range p.Fields {
				if k >= len(res.outs) {
					bad = fmt.Sprintf("frame %d variable %d not echoed", frame, j)
					break
				}
				row := res.outs[k].rec.Values
				k++
				if row[0].Int != int64(frame) || row[1].Int != int64(j) {
					bad = fmt.Sprintf("expected frame %d variable %d, plugin saw frame %d variable %d", frame, j, row[0].Int, row[1].Int)
					break
				}
				if row[2].Str != p.Fields[j].Name {
					bad = fmt.Sprintf("frame %d variable %d: name %q arrived as %q", frame, j, p.Fields[j].Name, row[2].Str)
					break
				}
				var t octosql.Type
				if err := json.Unmarshal([]byte(row[3].Str), &t); err != nil {
					bad = "echoed type not decodable: " + err.Error()
					break
				}
				if d := typeDiff(p.Fields[j].Type, t, fmt.Sprintf("frame %d variable %d type", frame, j)); d != "" {
					bad = d
					break
				}
				if d := valueDiff(e.Values[j], row[4], fmt.Sprintf("frame %d variable %d value", frame, j)); d != "" {
					bad = d
					break
				}
			}
		}
		if bad == "" && k != len(res.outs) {
			bad = fmt.Sprintf("plugin saw %d context entries, %d were sent", len(res.outs), k)
		}
		if bad != "" {
			c.Violation("wire-context-diff", "variable context seen by the plugin differs: "+bad, replay)
			continue
		}
		c.Count(fmt.Sprintf("wire/context/frames/%d", frames), 1)
		c.Nontrivial(fmt.Sprintf("wire-ctx:%d:%s", frames, physCtxString(pc)))
	}

	// (3) predicates pushed down through the real client and evaluated inside the plugin
	implPreds, gotPredSchema, err := env.db.GetTable(ctx, "preds", nil)
	if err != nil {
		c.Violation("wire-get-table", err.Error(), map[string]interface{}{"id": "wire-preds", "leg": "wire-predicate"})
		return
	}
	if d := schemaDiff(predSchema, gotPredSchema); d != "" {
		c.Violation("roundtrip-diff:schema", "predicate table schema: "+d, map[string]interface{}{"id": "wire-preds", "leg": "wire-predicate"})
		return
	}
	nPred := c.Pick(150, 1500)
	if nPred > len(preds) {
		nPred = len(preds)
	}
	for i := 0; i < nPred; i++ {
		pcse := preds[i]
		id := "wire-" + pcse.id
		if c.Only != "" && c.Only != id {
			continue
		}
		if containsFunction(pcse.pred, "now") {
			continue
		}
		c.Eval(1)
		replay := map[string]interface{}{"id": id, "leg": "wire-predicate", "sql": pcse.sql, "predicate": exprString(pcse.pred)}
		// expected: rows on which the original predicate is true (evaluated here, natively)
		eo, err := materialize(pcse.pred, physical.Environment{}.WithRecordSchema(pcse.src.Schema))
		if err != nil {
			continue
		}
		var expected [][]octosql.Value
		nativeErr := ""
		for _, row := range predSrcRows {
			o := evalOn(eo, row, nil)
			if o.err != "" {
				nativeErr = o.err
				break
			}
			if o.val.TypeID == octosql.TypeIDBoolean && o.val.Boolean {
				expected = append(expected, row)
			}
		}
		if strings.HasPrefix(nativeErr, "panic:") {
			// a function that panics natively would take the plugin process down as well; that is
			// another property's subject (no panics), and there is nothing to compare here
			c.Count("wire/predicate_panics_natively_skipped: "+trunc(nativeErr, 80), 1)
			continue
		}
		// the datasource node octosql would build for the plugin table
		dsNode := physical.Node{
			Schema:   pcse.src.Schema,
			NodeType: physical.NodeTypeDatasource,
			Datasource: &physical.Datasource{
				Name: "tp.preds", Alias: pcse.src.Datasource.Alias,
				DatasourceImplementation: implPreds,
				VariableMapping:          pcse.src.Datasource.VariableMapping,
			},
		}
		var rejected, pushed []physical.Expression
		panicked, msg := core.Try(func() {
			rejected, pushed, _ = dsNode.Datasource.PushDownPredicates(pcse.pred.SplitByAnd(), nil)
		})
		if panicked {
			if strings.Contains(msg, "Unavailable") || strings.Contains(msg, "connection refused") {
				// the plugin process is gone (killed by an earlier case): report once, restart
				replay["plugin_output_tail"] = pluginOutputTail(c)
				c.Violation("wire-plugin-died", "the plugin process died: "+msg, replay)
				_ = env.pe.Close()
				env, err = startPlugin(c, scripts)
				if err != nil {
					c.Inconclusive("plugin-start")
					return
				}
				implPreds, _, err = env.db.GetTable(ctx, "preds", nil)
				if err != nil {
					c.Inconclusive("plugin-start")
					return
				}
				continue
			}
			c.Violation("wire-pushdown-panic", "PushDownPredicates through the plugin client panicked: "+msg, replay)
			continue
		}
		if len(rejected) != 0 {
			c.Violation("wire-pushdown-rejected", fmt.Sprintf("the test plugin accepts every predicate, yet %d came back rejected", len(rejected)), replay)
			continue
		}
		dsNode.Datasource.Predicates = pushed
		var node execution.Node
		panicked, msg = core.Try(func() {
			node, err = dsNode.Materialize(ctx, physical.Environment{})
		})
		if panicked {
			c.Violation("wire-materialize-panic", msg, replay)
			continue
		}
		if err != nil {
			c.Violation("wire-materialize", err.Error(), replay)
			continue
		}
		res := runWireNode(node, nil, 60*time.Second)
		if res.timedOut {
			c.Inconclusive("watchdog")
			continue
		}
		c.Count("wire/predicates_pushed", len(pushed))
		c.Nontrivial("wire-pred:" + exprString(pcse.pred))
		affected := affectedByTypeFnOverload(pcse.pred, idx)
		key := func(def string) string {
			if len(affected) > 0 {
				return "repopulate-typefn-overload:" + affected[0]
			}
			return def
		}
		if nativeErr != "" {
			c.Count("wire/predicate_errors_natively", 1)
			if res.err == nil && res.panicMsg == "" {
				c.Violation(key("wire-predicate-error-lost"), fmt.Sprintf("natively the predicate fails (%s); pushed into the plugin the query succeeds with %d rows", nativeErr, len(res.outs)), replay)
			}
			continue
		}
		if res.panicMsg != "" {
			c.Violation("panic:"+core.PanicSite(res.stack), res.panicMsg, replay)
			continue
		}
		if res.err != nil {
			c.Violation(key("wire-predicate-run-error"), "natively the predicate evaluates on all rows; through the plugin: "+res.err.Error(), replay)
			continue
		}
		bad := ""
		if len(res.outs) != len(expected) {
			bad = fmt.Sprintf("%d rows satisfy the predicate natively, the plugin returned %d", len(expected), len(res.outs))
		}
		for k := 0; bad == "" && k < len(expected); k++ {
			if res.outs[k].isMeta {
				bad = "unexpected metadata message"
			} else if d := valuesDiff(expected[k], res.outs[k].rec.Values, fmt.Sprintf("row %d", k)); d != "" {
				bad = d
			}
		}
		if bad != "" {
			c.Violation(key("wire-predicate-rows-differ"), "predicate evaluated inside the plugin selects other rows than natively: "+bad, replay)
			continue
		}
		c.Count("wire/predicates_ok", 1)
	}
	negotiationCheck(c, env)
	// evidence from the plugin's own call log
	if data, err := os.ReadFile(env.logf); err == nil {
		mat, withPred := 0, 0
		for _, l := range strings.Split(string(data), "\n") {
			if strings.Contains(l, "\"event\":\"materialize\"") {
				mat++
				if !strings.Contains(l, "\"predicates\":0,") {
					withPred++
				}
			}
		}
		c.Note("wire_plugin_materialize_calls", mat)
		c.Note("wire_plugin_materialize_calls_with_predicates", withPred)
	}
}

func pluginOutputTail(c *core.Ctx) string {
	data, err := os.ReadFile(filepath.Join(c.Scratch, "wire-plugin-output.txt"))
	if err != nil {
		return ""
	}
	if len(data) > 3000 {
		data = data[len(data)-3000:]
	}
	return string(data)
}

func physCtxString(pc *physical.VariableContext) string {
	var sb strings.Builder
	for ; pc != nil; pc = pc.Parent {
		fmt.Fprintf(&sb, "%#v|", pc.Fields)
	}
	return sb.String()
}

func materializeImpl(impl physical.DatasourceImplementation, ctx context.Context, env physical.Environment, schema physical.Schema, preds []physical.Expression) (node execution.Node, err error) {
	defer func() {
		if r := recover(); r != nil {
			err = fmt.Errorf("panic: %v", r)
		}
	}()
	return impl.Materialize(ctx, env, schema, preds)
}

// Package c26: the plugin protocol carries data and predicates without change.
//
// R: a value/type/schema/record/watermark/context that differs after encode -> wire -> decode; a
// pushed-down predicate that evaluates differently after the JSON transport and
// RepopulatePhysicalExpressionFunctions; a plugin-served table answering a query differently from
// the same data read natively.
// O: structural equality (own comparer: nil == empty slice, floats bitwise, times by instant);
// differential evaluation of every sub-expression; differential query results.
// W: four legs — (1) in-process round trips through real protobuf wire bytes of the protocol's own
// messages; (2) generated WHERE predicates typechecked by the real planner, sent through
// json.Marshal/Unmarshal + RepopulatePhysicalExpressionFunctions and evaluated node by node over
// 50 rows; (3) octosql's own plugin client (plugins/executor) in this process against the real
// test plugin process over gRPC: scripted streams, echoed variable contexts, predicates pushed
// down through the client and evaluated inside the plugin; (4) the CLI: FROM testplugin.t vs FROM
// t.json with pushed-down WHERE clauses, LIMIT, joins, lookup joins, GROUP BY.
package c26

import (
	"os"
	"time"

	"github.com/cube2222/octosql/plugins/verifharness/core"
)

func init() { core.Register("C26", Run) }

var selftest = os.Getenv("VERIF_SELFTEST") == "1"

func Run(c *core.Ctx) core.FinishOpts {
	t0 := time.Now()
	roundTripLeg(c)
	t1 := time.Now()
	preds, rows := predicateLeg(c)
	t2 := time.Now()
	wireLeg(c, preds, rows)
	t3 := time.Now()
	cliLeg(c)
	c.Note("leg_seconds", map[string]float64{"roundtrip": t1.Sub(t0).Seconds(), "predicates": t2.Sub(t1).Seconds(), "wire": t3.Sub(t2).Seconds(), "cli": time.Since(t3).Seconds()})
	return core.FinishOpts{
		Level: "exploration",
		Rule: "round trips: seeded random values (all type ids, nesting <= 3, int/float/time/duration extremes, NaN payloads, invalid UTF-8), types (empty list type, Any, unions), schemas, records, metadata, 0-4 frame contexts; " +
			"predicates: seeded random WHERE expressions over every function of the function map, kept if the real typechecker accepts them; wire: seeded scripts/contexts/predicates against the real plugin process; " +
			"CLI: seeded query pairs; non-trivial = non-null value / compound type / non-empty schema, record, context / accepted predicate / non-empty query result; distinct by the printed case",
		Floor: c.Pick(2500, 60000),
		Assumptions: []string{
			"oracle: own structural comparer; differential evaluation uses octosql's own execution of the ORIGINAL expression as the reference (the property is about the boundary, not about the functions)",
			"google.golang.org/protobuf, encoding/json and gRPC are trusted",
			"now() is excluded from value comparison (only the enclosing comparison is judged)",
			"the test plugin applies pushed-down predicates with octosql's own Filter node",
		},
	}
}

package c26

import (
	"fmt"
	"sort"
	"strings"

	"github.com/cube2222/octosql/physical"

	"github.com/cube2222/octosql/plugins/verifharness/core"
	"github.com/cube2222/octosql/plugins/verifharness/nodeh"
)

// negotiationCheck: the pushdown negotiation through octosql's plugin client must conserve the
// offered predicates — rejected ∪ pushed-down == offered, nothing vanishes, nothing appears. The
// interesting offers mix serialisable predicates with ones holding a subquery (which the client
// cannot send and has to hand back as rejected), against an accepting and a rejecting table.
func negotiationCheck(c *core.Ctx, env *wireEnv) {
	if c.Only != "" && !strings.HasPrefix(c.Only, "wire-negotiation-") {
		return
	}
	ctx := nodeh.Ctx()
	db := &nodeh.DB{Tables: map[string]*nodeh.Table{"t": predTable(predRows(c.Rng("pred-rows"), 50))}}
	wheres := []string{
		"t.i > 1 AND t.j IN (SELECT t2.j FROM m.t t2 WHERE t2.i > 3)",
		"t.j IN (SELECT t2.j FROM m.t t2 WHERE t2.i > 3) AND t.i > 1",
		"t.i IN (SELECT t2.j FROM m.t t2)",
		"t.i > 0 AND t.s != 'a' AND t.f < (SELECT AVG(t2.f) FROM m.t t2 WHERE t2.f < 50.0)[0]",
		"t.i > 1 AND t.j >= (SELECT MAX(t2.j) FROM m.t t2 WHERE t2.i = t.i)[0]",
		"t.i > 1 AND (t.b OR t.j IN (SELECT t2.j FROM m.t t2)) AND t.s LIKE 'a%'",
		"t.i NOT IN (SELECT t2.j FROM m.t t2) AND t.j IN (SELECT t2.i FROM m.t t2) AND t.b",
		"t.i > 1 AND t.s != 'a'",
		"t.b",
	}
	for wi, where := range wheres {
		sql := "SELECT * FROM m.t t WHERE " + where
		p, perr := nodeh.Plan(ctx, sql, db, nodeh.PlanOpts{Optimize: false, Output: "none"})
		if perr != nil {
			c.Count("wire/negotiation/plan_rejected", 1)
			continue
		}
		filter := findFilter(p.Physical)
		if filter == nil || filter.Source.NodeType != physical.NodeTypeDatasource {
			c.Count("wire/negotiation/no_filter_over_datasource", 1)
			continue
		}
		offered := filter.Predicate.SplitByAnd()
		for _, accept := range []bool{true, false} {
			id := fmt.Sprintf("wire-negotiation-%d-%d-%v", c.Seed, wi, accept)
			if c.Only != "" && c.Only != id {
				continue
			}
			c.Eval(1)
			var opts map[string]string
			if !accept {
				opts = map[string]string{"pushdown": "false"}
			}
			impl, _, err := env.db.GetTable(ctx, "preds", opts)
			replay := map[string]interface{}{"id": id, "leg": "wire-negotiation", "sql": sql, "plugin_accepts": accept}
			if err != nil {
				c.Violation("wire-get-table", err.Error(), replay)
				continue
			}
			dsNode := physical.Node{Schema: filter.Source.Schema, NodeType: physical.NodeTypeDatasource, Datasource: &physical.Datasource{
				Name: "tp.preds", Alias: filter.Source.Datasource.Alias, DatasourceImplementation: impl, VariableMapping: filter.Source.Datasource.VariableMapping}}
			var rejected, pushed []physical.Expression
			var changed bool
			panicked, msg := core.Try(func() {
				rejected, pushed, changed = dsNode.Datasource.PushDownPredicates(offered, nil)
			})
			if panicked {
				c.Violation("wire-pushdown-panic", "PushDownPredicates through the plugin client panicked: "+msg, replay)
				continue
			}
			names := func(es []physical.Expression) []string {
				out := make([]string, len(es))
				for i, e := range es {
					out[i] = exprString(e)
					if containsExprType(e, physical.ExpressionTypeQueryExpression) {
						out[i] = "[subquery] " + out[i]
					}
				}
				sort.Strings(out)
				return out
			}
			off, got := names(offered), names(append(append([]physical.Expression{}, rejected...), pushed...))
			replay["offered"], replay["rejected"], replay["pushed_down"], replay["changed"] = off, names(rejected), names(pushed), changed
			withSub := 0
			for _, e := range offered {
				if containsExprType(e, physical.ExpressionTypeQueryExpression) {
					withSub++
				}
			}
			c.Count(fmt.Sprintf("wire/negotiation/offers/subquery_predicates=%d,others=%d,accept=%v", withSub, len(offered)-withSub, accept), 1)
			c.Nontrivial(id + sql)
			if strings.Join(off, "\n") != strings.Join(got, "\n") {
				c.Violation("pushdown-predicate-not-conserved", fmt.Sprintf("offered %v; came back rejected %v + pushed down %v: a predicate vanished or appeared in the negotiation through the plugin client", off, names(rejected), names(pushed)), replay)
				continue
			}
			bad := ""
			for _, e := range pushed {
				if containsExprType(e, physical.ExpressionTypeQueryExpression) {
					bad = "a predicate holding a subquery is reported as pushed down: " + exprString(e)
				}
			}
			if accept && len(rejected) != withSub {
				bad = fmt.Sprintf("the accepting table takes every serialisable predicate, yet %d are rejected (%d hold a subquery)", len(rejected), withSub)
			}
			if !accept && (len(pushed) != 0 || changed) {
				bad = fmt.Sprintf("the rejecting table takes nothing, yet pushed down = %d, changed = %v", len(pushed), changed)
			}
			if accept && changed != (len(pushed) > 0) {
				bad = fmt.Sprintf("changed = %v with %d predicates pushed down", changed, len(pushed))
			}
			if bad != "" {
				c.Violation("pushdown-negotiation-wrong", bad, replay)
				continue
			}
			c.Count("wire/negotiation/conserved", 1)
		}
	}
}

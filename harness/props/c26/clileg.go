package c26

import (
	"encoding/json"
	"fmt"
	"math/rand"
	"os"
	"path/filepath"
	"sort"
	"strings"
	"time"

	"github.com/cube2222/octosql/plugins/verifharness/cli"
	"github.com/cube2222/octosql/plugins/verifharness/core"
	"github.com/cube2222/octosql/plugins/verifharness/plugtest"
)

// End to end: the same JSON file queried natively (FROM t.json t) and through the test plugin
// (FROM testplugin.t t), which serves it with octosql's own JSON datasource but accepts every
// pushed-down predicate and evaluates it on its side of the boundary.

func cliData(rng *rand.Rand) (t, u []byte) {
	strs := []string{"a", "ab", "abc", "b", "Abc", "xyz", "", "a b", "żółw"}
	var tb, ub strings.Builder
	base := time.Date(2021, 3, 4, 5, 6, 7, 0, time.UTC)
	for i := 0; i < 40; i++ {
		row := map[string]interface{}{
			"a":  float64(rng.Intn(40)) / 4,
			"k":  rng.Intn(5),
			"s":  strs[rng.Intn(len(strs))],
			"b":  rng.Intn(2) == 0,
			"ts": base.Add(time.Duration(rng.Intn(10)) * time.Hour).Format(time.RFC3339),
			"o":  map[string]interface{}{"x": float64(rng.Intn(10)) / 2, "y": strs[rng.Intn(len(strs))]},
		}
		if rng.Intn(3) == 0 {
			row["n"] = nil
		} else {
			row["n"] = float64(rng.Intn(8))
		}
		l := make([]float64, rng.Intn(4))
		for j := range l {
			l[j] = float64(rng.Intn(6))
		}
		row["l"] = l
		data, _ := json.Marshal(row)
		tb.Write(data)
		tb.WriteByte('\n')
	}
	for i := 0; i < 7; i++ {
		data, _ := json.Marshal(map[string]interface{}{"k": i, "name": fmt.Sprintf("n%d", i), "lim": float64(i) * 1.5})
		ub.Write(data)
		ub.WriteByte('\n')
	}
	return []byte(tb.String()), []byte(ub.String())
}

type cliPred struct {
	sql string
	key string // finding class this predicate is subject to when pushed down ("" = none)
}

func genCLIPred(rng *rand.Rand, depth int) cliPred {
	f := func() string { return fmt.Sprintf("%.2f", float64(rng.Intn(40))/4) }
	s := func() string { return []string{"'a'", "'ab'", "'abc'", "'b'", "'xyz'", "''", "'Abc'"}[rng.Intn(7)] }
	if depth > 0 && rng.Intn(3) == 0 {
		l, r := genCLIPred(rng, depth-1), genCLIPred(rng, depth-1)
		op := []string{"AND", "OR"}[rng.Intn(2)]
		key := l.key
		if key == "" {
			key = r.key
		}
		return cliPred{"(" + l.sql + " " + op + " " + r.sql + ")", key}
	}
	switch rng.Intn(22) {
	case 0:
		return cliPred{"t.a > " + f(), ""}
	case 1:
		return cliPred{"t.a <= " + f(), ""}
	case 2:
		return cliPred{"t.s LIKE " + []string{"'a%'", "'%b%'", "'a_c'", "'%'"}[rng.Intn(4)], ""}
	case 3:
		return cliPred{"t.s IN (" + s() + ", " + s() + ", " + s() + ")", "repopulate-typefn-overload:in"}
	case 4:
		return cliPred{"t.a IN (" + f() + ", " + f() + ")", "repopulate-typefn-overload:in"}
	case 5:
		return cliPred{"t.s NOT IN (" + s() + ", " + s() + ")", "repopulate-typefn-overload:not in"}
	case 6:
		return cliPred{fmt.Sprintf("len(t.s) > %d", rng.Intn(3)), ""}
	case 7:
		return cliPred{fmt.Sprintf("len(t.l) >= %d", rng.Intn(3)), ""}
	case 8:
		return cliPred{fmt.Sprintf("len(t.o) = %d", 1+rng.Intn(2)), "repopulate-typefn-overload:len"}
	case 9:
		return cliPred{[]string{"t.b", "NOT t.b", "t.b = true"}[rng.Intn(3)], ""}
	case 10:
		return cliPred{[]string{"t.n IS NULL", "t.n IS NOT NULL"}[rng.Intn(2)], ""}
	case 11:
		return cliPred{"t.ts > parse_time('2006-01-02T15:04:05Z07:00', '2021-03-04T09:00:00Z')", ""}
	case 12:
		return cliPred{fmt.Sprintf("t.k = %d.0", rng.Intn(5)), ""}
	case 13:
		return cliPred{"t.s ~ " + []string{"'^a'", "'b$'", "'[a-c]+'"}[rng.Intn(3)], ""}
	case 14:
		return cliPred{"upper(t.s) = " + []string{"'A'", "'AB'", "'ABC'"}[rng.Intn(3)], ""}
	case 15:
		return cliPred{"t.l[0] > " + fmt.Sprint(rng.Intn(5)) + ".0", ""}
	case 16:
		return cliPred{"t.o->x > " + f(), ""}
	case 17:
		return cliPred{"t.a + t.o->x > " + f(), ""}
	case 18:
		return cliPred{"COALESCE(t.n, 0.0) > " + fmt.Sprint(rng.Intn(6)) + ".0", ""}
	case 19:
		return cliPred{"t.k IN (t.l)", ""}
	case 20:
		return cliPred{"t.ts + INTERVAL 2 HOURS > parse_time('2006-01-02T15:04:05Z07:00', '2021-03-04T09:00:00Z')", ""}
	default:
		return cliPred{"t.s != " + s(), ""}
	}
}

type cliQuery struct {
	id      string
	tmpl    string // %s = the table expression for t
	shape   string
	ordered bool
	key     string
	table   string // plugin table expression ("" = testplugin.t)
}

func genCLIQuery(c *core.Ctx, i int) cliQuery {
	rng := c.Rng(fmt.Sprintf("cli-%d", i))
	p := genCLIPred(rng, 2)
	q := cliQuery{id: fmt.Sprintf("cli-%d-%d", c.Seed, i), key: p.key}
	switch i % 8 {
	case 0, 1:
		q.shape = "where"
		q.tmpl = "SELECT * FROM %s t WHERE " + p.sql
	case 2:
		q.shape = "where-limit"
		q.ordered = true
		q.tmpl = fmt.Sprintf("SELECT t.a, t.s, t.k FROM %%s t WHERE %s LIMIT %d", p.sql, 1+rng.Intn(6))
	case 3:
		q.shape = "stream-join"
		q.tmpl = "SELECT u.name, t.a, t.s FROM %s t JOIN u.json u ON t.k = u.k WHERE " + p.sql
	case 4:
		q.shape = "lookup-join"
		q.tmpl = "SELECT u.name, t.a, t.s FROM u.json u LOOKUP JOIN %s t ON t.k = u.k"
		q.key = ""
	case 5:
		q.shape = "lookup-join-where"
		q.tmpl = "SELECT u.name, t.a, t.s FROM u.json u LOOKUP JOIN %s t ON t.k = u.k AND t.a > u.lim WHERE " + p.sql
	case 6:
		q.shape = "group-by"
		q.tmpl = "SELECT t.k, COUNT(*) AS c, SUM(t.a) AS sa FROM %s t WHERE " + p.sql + " GROUP BY t.k"
	default:
		q.shape = "projection"
		q.tmpl = "SELECT t.s, t.o->y AS y, len(t.l) AS n FROM %s t WHERE " + p.sql
	}
	return q
}

func canonRows(rows []cli.JSONRow) []string {
	out := make([]string, len(rows))
	for i, r := range rows {
		keys := append([]string{}, r.Keys...)
		sort.Strings(keys)
		var sb strings.Builder
		for _, k := range keys {
			data, _ := json.Marshal(r.Values[k])
			fmt.Fprintf(&sb, "%s=%s;", k, data)
		}
		out[i] = sb.String()
	}
	return out
}

func cliLeg(c *core.Ctx) {
	if c.Only != "" && !strings.HasPrefix(c.Only, "cli-") {
		return
	}
	r := cli.NewRunner(c.BinDir, c.Scratch)
	sockDir, err := plugtest.ShortDir(c.Root)
	if err != nil {
		c.Inconclusive("socket-dir")
		return
	}
	defer os.RemoveAll(sockDir)
	pd := r.NewDir()
	if err := plugtest.InstallBinary(pd, "core", "testplugin", "0.3.0", filepath.Join(c.BinDir, "testplugin")); err != nil {
		c.Inconclusive("scratch-write")
		return
	}
	tdata, udata := cliData(c.Rng("cli-data"))
	files := map[string][]byte{"t.json": tdata, "u.json": udata}
	n := c.Pick(60, 800)
	selfLeft := 1
	type job struct {
		q    cliQuery
		self bool
	}
	var jobs []job
	for i := 0; i < n; i++ {
		q := genCLIQuery(c, i)
		if c.Only != "" && c.Only != q.id {
			continue
		}
		j := job{q: q}
		if selftest && selfLeft > 0 && q.shape == "where" && q.key == "" {
			j.self = true
			selfLeft--
		}
		jobs = append(jobs, j)
	}
	for _, q := range subqueryCLIQueries(c) {
		if c.Only == "" || c.Only == q.id {
			jobs = append(jobs, job{q: q})
		}
	}
	core.Parallel(len(jobs), 16, func(i int) {
		q := jobs[i].q
		c.Eval(1)
		logf := filepath.Join(c.Scratch, fmt.Sprintf("cli-plugin-%s.jsonl", q.id))
		defer os.Remove(logf)
		env := []string{"OCTOSQL_PLUGIN_DIR=" + pd, "OCTOSQL_PLUGIN_TMP_DIR=" + sockDir, "TESTPLUGIN_LOG=" + logf}
		// (not Sprintf: predicates contain LIKE patterns with '%')
		nativeSQL := strings.Replace(q.tmpl, "%s", "t.json", 1)
		table := q.table
		if table == "" {
			table = "testplugin.t"
		}
		pluginSQL := strings.Replace(q.tmpl, "%s", table, 1)
		if jobs[i].self {
			pluginSQL = strings.Replace(pluginSQL, " WHERE ", " WHERE NOT ", 1) // deliberately different query
		}
		nat := r.Exec(cli.Run{Args: []string{nativeSQL, "-o", "json"}, Files: files, Env: env})
		plg := r.Exec(cli.Run{Args: []string{pluginSQL, "-o", "json"}, Files: files, Env: env})
		replay := map[string]interface{}{"id": q.id, "leg": "cli", "native": nativeSQL, "plugin": pluginSQL,
			"native_exit": nat.Exit, "plugin_exit": plg.Exit, "native_stdout": trunc(string(nat.Stdout), 1500), "plugin_stdout": trunc(string(plg.Stdout), 1500),
			"native_stderr": lastLines(string(nat.Stderr), 3), "plugin_stderr": lastLines(string(plg.Stderr), 3)}
		c.Count("cli/shape/"+q.shape, 1)
		if nat.TimedOut || plg.TimedOut {
			c.Count(fmt.Sprintf("cli/watchdog/%s/native=%v,plugin=%v", q.shape, nat.TimedOut, plg.TimedOut), 1)
			c.Note("cli_watchdog_last_query", pluginSQL)
			c.Inconclusive("watchdog")
			return
		}
		if nat.Panicked() {
			// the query crashes octosql without any plugin involved: not a matter of the plugin
			// boundary (C07's subject); only recorded
			site, _ := nat.PanicSite()
			c.Count("cli/native_panics_not_judged_here/"+site, 1)
			return
		}
		if plg.Panicked() {
			site, msg := plg.PanicSite()
			c.Violation("panic:"+site, msg, replay)
			return
		}
		pushed := 0
		if data, err := os.ReadFile(logf); err == nil {
			for _, l := range strings.Split(string(data), "\n") {
				if strings.Contains(l, "\"event\":\"materialize\"") && !strings.Contains(l, "\"predicates\":0,") {
					pushed++
				}
			}
		}
		if pushed > 0 {
			c.Count("cli/plugin_runs_with_pushed_predicates", 1)
		}
		key := func(def string) string {
			if q.key != "" && pushed > 0 {
				return q.key
			}
			return def
		}
		if nat.Exit != 0 {
			c.Count("cli/native_rejected", 1)
			if plg.Exit == 0 {
				c.Violation(key("cli-error-lost"), "the native query fails ("+lastLines(string(nat.Stderr), 1)+") but the plugin-served one succeeds", replay)
			}
			return
		}
		if plg.Exit != 0 {
			c.Violation(key("cli-plugin-query-failed"), "the native query succeeds, the plugin-served one fails: "+lastLines(string(plg.Stderr), 1), replay)
			return
		}
		nrows, err1 := cli.DecodeJSONLines(nat.Stdout)
		prows, err2 := cli.DecodeJSONLines(plg.Stdout)
		if err1 != nil || err2 != nil {
			c.Inconclusive("undecodable-output")
			return
		}
		a, b := canonRows(nrows), canonRows(prows)
		if !q.ordered {
			sort.Strings(a)
			sort.Strings(b)
		}
		if len(a) > 0 {
			c.Nontrivial("cli:" + nativeSQL)
		}
		if strings.Join(a, "\n") != strings.Join(b, "\n") {
			c.Violation(key("cli-rows-differ"), fmt.Sprintf("native query returns %d rows, the same data served by the plugin %d rows (or other rows)", len(a), len(b)), replay)
			return
		}
		c.Count("cli/pairs_equal", 1)
		c.Sample(map[string]interface{}{"id": q.id, "leg": "cli", "query": pluginSQL, "rows": len(a), "pushed_down": pushed > 0})
	})
}

func lastLines(s string, n int) string {
	lines := strings.Split(strings.TrimSpace(s), "\n")
	if len(lines) > n {
		lines = lines[len(lines)-n:]
	}
	return strings.Join(lines, " | ")
}

package c26

import (
	"context"
	"encoding/json"
	"fmt"
	"math"
	"math/rand"
	"reflect"
	"sort"
	"strings"
	"sync"
	"time"

	"google.golang.org/protobuf/proto"

	"github.com/cube2222/octosql/execution"
	"github.com/cube2222/octosql/functions"
	"github.com/cube2222/octosql/octosql"
	"github.com/cube2222/octosql/physical"
	"github.com/cube2222/octosql/plugins/internal/plugins"

	"github.com/cube2222/octosql/plugins/verifharness/core"
	"github.com/cube2222/octosql/plugins/verifharness/nodeh"
)

// ---------------------------------------------------------------------------------------------
// the data the predicates run over

func nullable(t octosql.Type) octosql.Type { return octosql.TypeSum(t, octosql.Null) }

func listOf(t octosql.Type) octosql.Type {
	return octosql.Type{TypeID: octosql.TypeIDList, List: struct{ Element *octosql.Type }{Element: &t}}
}

var objType = octosql.Type{TypeID: octosql.TypeIDStruct, Struct: struct{ Fields []octosql.StructField }{Fields: []octosql.StructField{{Name: "a", Type: octosql.Int}, {Name: "b", Type: octosql.String}}}}
var tupType = octosql.Type{TypeID: octosql.TypeIDTuple, Tuple: struct{ Elements []octosql.Type }{Elements: []octosql.Type{octosql.Int, octosql.Int, octosql.Int}}}

func predFields() []physical.SchemaField {
	return []physical.SchemaField{
		{Name: "i", Type: octosql.Int}, {Name: "j", Type: octosql.Int},
		{Name: "f", Type: octosql.Float}, {Name: "g", Type: octosql.Float},
		{Name: "b", Type: octosql.Boolean},
		{Name: "s", Type: octosql.String}, {Name: "r", Type: octosql.String},
		{Name: "t", Type: octosql.Time}, {Name: "d", Type: octosql.Duration},
		{Name: "li", Type: listOf(octosql.Int)}, {Name: "ls", Type: listOf(octosql.String)},
		{Name: "o", Type: objType}, {Name: "tu", Type: tupType},
		{Name: "ni", Type: nullable(octosql.Int)}, {Name: "ns", Type: nullable(octosql.String)},
		{Name: "nf", Type: nullable(octosql.Float)}, {Name: "nb", Type: nullable(octosql.Boolean)},
		{Name: "nt", Type: nullable(octosql.Time)},
		{Name: "u", Type: octosql.TypeSum(octosql.Int, octosql.String)},
	}
}

var predBase = time.Date(2021, 3, 4, 5, 6, 7, 0, time.UTC)

func predRows(rng *rand.Rand, n int) [][]octosql.Value {
	floats := []float64{-1.5, 0, 0.5, 1, 2, 2.5, 4, 9, 100, math.NaN(), math.Inf(1), -0.0}
	strs := []string{"", "a", "ab", "abc", "Abc", "b", "xyz", "a%c", "10", "2.5", "2021-03-04", "żółw", "a b"}
	pats := []string{"a", "b", "%b%", "a_c", "^a", "[a-c]+", "", "c", "A.*", "(", "%"}
	durs := []time.Duration{0, time.Second, -time.Second, time.Minute, 90 * time.Minute, 36 * time.Hour, time.Millisecond}
	maybeNull := func(v octosql.Value) octosql.Value {
		if rng.Intn(3) == 0 {
			return octosql.NewNull()
		}
		return v
	}
	rows := make([][]octosql.Value, n)
	for k := range rows {
		smallInts := func() []octosql.Value {
			l := make([]octosql.Value, rng.Intn(4))
			for x := range l {
				l[x] = octosql.NewInt(int64(rng.Intn(6)))
			}
			return l
		}
		ls := make([]octosql.Value, rng.Intn(3))
		for x := range ls {
			ls[x] = octosql.NewString(strs[rng.Intn(len(strs))])
		}
		var u octosql.Value
		if rng.Intn(2) == 0 {
			u = octosql.NewInt(int64(rng.Intn(5)))
		} else {
			u = octosql.NewString(strs[rng.Intn(len(strs))])
		}
		rows[k] = []octosql.Value{
			octosql.NewInt(int64(rng.Intn(10) - 3)), octosql.NewInt(int64(rng.Intn(5))),
			octosql.NewFloat(floats[rng.Intn(len(floats))]), octosql.NewFloat(floats[rng.Intn(len(floats))]),
			octosql.NewBoolean(rng.Intn(2) == 0),
			octosql.NewString(strs[rng.Intn(len(strs))]), octosql.NewString(pats[rng.Intn(len(pats))]),
			octosql.NewTime(predBase.Add(time.Duration(rng.Intn(7)-3) * time.Hour)), octosql.NewDuration(durs[rng.Intn(len(durs))]),
			octosql.NewList(smallInts()), octosql.NewList(ls),
			octosql.NewStruct([]octosql.Value{octosql.NewInt(int64(rng.Intn(5))), octosql.NewString(strs[rng.Intn(len(strs))])}),
			octosql.NewTuple([]octosql.Value{octosql.NewInt(int64(rng.Intn(6))), octosql.NewInt(int64(rng.Intn(6))), octosql.NewInt(int64(rng.Intn(6)))}),
			maybeNull(octosql.NewInt(int64(rng.Intn(6)))), maybeNull(octosql.NewString(strs[rng.Intn(len(strs))])),
			maybeNull(octosql.NewFloat(floats[rng.Intn(len(floats))])), maybeNull(octosql.NewBoolean(rng.Intn(2) == 0)),
			maybeNull(octosql.NewTime(predBase.Add(time.Duration(rng.Intn(5)) * time.Minute))),
			u,
		}
	}
	return rows
}

func predTable(rows [][]octosql.Value) *nodeh.Table {
	evs := make([]nodeh.Event, len(rows))
	for i, r := range rows {
		evs[i] = nodeh.Rec(r, false, time.Time{})
	}
	return &nodeh.Table{Fields: predFields(), TimeField: -1, NoRetractions: true, Events: evs}
}

// ---------------------------------------------------------------------------------------------
// SQL expression generator (typed by construction; the real typechecker has the last word)

type exprGen struct{ rng *rand.Rand }

func (g *exprGen) pick(opts ...string) string { return opts[g.rng.Intn(len(opts))] }

func (g *exprGen) intLit() string { return fmt.Sprint(g.rng.Intn(7) - 1) }

func (g *exprGen) Int(d int) string {
	if d <= 0 {
		return g.pick("t.i", "t.j", g.intLit(), "t.ni")
	}
	switch g.rng.Intn(24) {
	case 0:
		return "(" + g.Int(d-1) + " + " + g.Int(d-1) + ")"
	case 1:
		return "(" + g.Int(d-1) + " - " + g.Int(d-1) + ")"
	case 2:
		return "(" + g.Int(d-1) + " * " + g.Int(d-1) + ")"
	case 3:
		return "(" + g.Int(d-1) + " / " + g.Int(d-1) + ")"
	case 4:
		return "(-" + g.pick("t.i", "t.j", "t.ni") + ")"
	case 5:
		return "abs(" + g.Int(d-1) + ")"
	case 6:
		return "len(" + g.Str(d-1) + ")"
	case 7:
		return "len(" + g.pick("t.li", "t.ls") + ")"
	case 8:
		return "len(t.o)"
	case 9:
		return "len(" + g.pick("t.tu", "(1, 2, 3)", "(t.i, t.s)") + ")"
	case 10:
		return "int(" + g.Bool(d-1) + ")"
	case 11:
		return "int(" + g.Float(d-1) + ")"
	case 12:
		return "int(" + g.pick("t.s", "'12'", "t.ns") + ")"
	case 13:
		return "int(" + g.Dur(d-1) + ")"
	case 14:
		return "int(" + g.Int(d-1) + ")"
	case 15:
		return "time_to_unix(" + g.Time(d-1) + ")"
	case 16:
		return "position(" + g.Str(d-1) + ", " + g.Str(d-1) + ")"
	case 17:
		return "t.li[" + g.pick("0", "1", "2", "t.j") + "]"
	case 18:
		return "COALESCE(t.ni, " + g.Int(d-1) + ")"
	case 19:
		return "t.o->a"
	case 20:
		return "t.u::int"
	default:
		return g.Int(0)
	}
}

func (g *exprGen) Float(d int) string {
	if d <= 0 {
		return g.pick("t.f", "t.g", "1.5", "0.0", "2.0", "t.nf")
	}
	switch g.rng.Intn(20) {
	case 0:
		return "(" + g.Float(d-1) + " + " + g.Float(d-1) + ")"
	case 1:
		return "(" + g.Float(d-1) + " - " + g.Float(d-1) + ")"
	case 2:
		return "(" + g.Float(d-1) + " * " + g.Float(d-1) + ")"
	case 3:
		return "(" + g.Float(d-1) + " / " + g.Float(d-1) + ")"
	case 4:
		return "(-" + g.pick("t.f", "t.g", "t.nf") + ")"
	case 5:
		return g.pick("abs", "sqrt", "ceil", "floor", "log2", "log", "log10") + "(" + g.Float(d-1) + ")"
	case 6:
		return g.pick("abs", "sqrt", "ceil", "floor", "log2", "log", "log10") + "(" + g.Float(d-1) + ")"
	case 7:
		return "pow(" + g.Float(d-1) + ", " + g.Float(d-1) + ")"
	case 8:
		return "float(" + g.Int(d-1) + ")"
	case 9:
		return "float(" + g.pick("t.s", "'2.5'", "t.ns") + ")"
	case 10:
		return "float(" + g.Dur(d-1) + ")"
	case 11:
		return "float(" + g.Float(d-1) + ")"
	case 12:
		return "(" + g.Dur(d-1) + " / " + g.Dur(d-1) + ")"
	case 13:
		return "COALESCE(t.nf, " + g.Float(d-1) + ")"
	default:
		return g.Float(0)
	}
}

func (g *exprGen) Str(d int) string {
	if d <= 0 {
		return g.pick("t.s", "t.r", "'a'", "'ab'", "''", "'b'", "'%b%'", "t.ns", "'żółw'")
	}
	switch g.rng.Intn(20) {
	case 0:
		return "(" + g.Str(d-1) + " + " + g.Str(d-1) + ")"
	case 1:
		return "(" + g.Str(d-1) + " * " + g.pick("0", "1", "2", "3", "t.j") + ")"
	case 2:
		return "(" + g.pick("0", "1", "2", "t.j") + " * " + g.Str(d-1) + ")"
	case 3:
		return g.pick("upper", "lower", "reverse") + "(" + g.Str(d-1) + ")"
	case 4:
		return "substr(" + g.Str(d-1) + ", " + g.pick("0", "1", "2", "t.j") + ")"
	case 5:
		return "substr(" + g.Str(d-1) + ", " + g.pick("0", "1", "t.j") + ", " + g.pick("0", "1", "2", "t.j") + ")"
	case 6:
		return "replace(" + g.Str(d-1) + ", " + g.Str(d-1) + ", " + g.Str(d-1) + ")"
	case 7:
		return "string(" + g.pick(g.Int(d-1), g.Float(d-1), g.Bool(d-1), g.Time(d-1), g.Dur(d-1), "t.li", "t.o", "t.u", "t.ni", "t.tu") + ")"
	case 8:
		return "t.ls[" + g.pick("0", "1", "t.j") + "]"
	case 9:
		return "COALESCE(t.ns, " + g.Str(d-1) + ")"
	case 10:
		return "t.o->b"
	case 11:
		return "t.u::string"
	default:
		return g.Str(0)
	}
}

func (g *exprGen) Time(d int) string {
	if d <= 0 {
		return g.pick("t.t", "t.t", "t.nt", "now()")
	}
	switch g.rng.Intn(10) {
	case 0:
		return "parse_time('2006-01-02', " + g.pick("t.s", "'2021-03-04'", "'x'") + ")"
	case 1:
		return "time_from_unix(" + g.pick("1614834367", "t.i", "0", "(1614834367 + t.j)") + ")"
	case 2:
		return "time_from_unix(" + g.pick("1614834367.5", "t.f", "0.25") + ")"
	case 3:
		return "(" + g.Time(d-1) + " + " + g.Dur(d-1) + ")"
	case 4:
		return "(" + g.Dur(d-1) + " + " + g.Time(d-1) + ")"
	case 5:
		return "(" + g.Time(d-1) + " - " + g.Dur(d-1) + ")"
	case 6:
		return "COALESCE(t.nt, " + g.Time(d-1) + ")"
	default:
		return g.Time(0)
	}
}

func (g *exprGen) Dur(d int) string {
	if d <= 0 {
		return g.pick("t.d", "INTERVAL 1 SECOND", "INTERVAL 2 HOURS", "INTERVAL 90 MINUTES", "INTERVAL 0 DAYS", "INTERVAL 5 MILLISECONDS")
	}
	switch g.rng.Intn(10) {
	case 0:
		return "(" + g.Dur(d-1) + " + " + g.Dur(d-1) + ")"
	case 1:
		return "(" + g.Dur(d-1) + " - " + g.Dur(d-1) + ")"
	case 2:
		return "(-t.d)"
	case 3:
		return "(" + g.Dur(d-1) + " * " + g.Int(d-1) + ")"
	case 4:
		return "(" + g.Int(d-1) + " * " + g.Dur(d-1) + ")"
	case 5:
		return "(" + g.Dur(d-1) + " / " + g.Int(d-1) + ")"
	default:
		return g.Dur(0)
	}
}

func (g *exprGen) cmpOp() string { return g.pick("<", "<=", ">", ">=", "=", "!=") }

func (g *exprGen) inList(el func(int) string, d int) string {
	n := 2 + g.rng.Intn(3)
	parts := make([]string, n)
	for i := range parts {
		parts[i] = el(d)
	}
	return "(" + strings.Join(parts, ", ") + ")"
}

func (g *exprGen) Bool(d int) string {
	if d <= 0 {
		return g.pick("t.b", "t.nb", "true", "false", "t.i < t.j", "t.s = t.r", "t.f >= 1.0")
	}
	switch g.rng.Intn(30) {
	case 0, 1:
		return "(" + g.Int(d-1) + " " + g.cmpOp() + " " + g.Int(d-1) + ")"
	case 2:
		return "(" + g.Float(d-1) + " " + g.cmpOp() + " " + g.Float(d-1) + ")"
	case 3:
		return "(" + g.Str(d-1) + " " + g.cmpOp() + " " + g.Str(d-1) + ")"
	case 4:
		return "(" + g.Time(d-1) + " " + g.cmpOp() + " " + g.Time(d-1) + ")"
	case 5:
		return "(" + g.Dur(d-1) + " " + g.cmpOp() + " " + g.Dur(d-1) + ")"
	case 6:
		return "(" + g.Bool(d-1) + " " + g.pick("=", "!=", "<", ">=") + " " + g.Bool(d-1) + ")"
	case 7:
		return "(" + g.pick("t.ni", "t.ns", "t.nf", "t.nb", "t.nt", "t.i", g.Int(d-1), g.Str(d-1), "t.li[2]", "t.u") + " IS NULL)"
	case 8:
		return "(" + g.pick("t.ni", "t.ns", "t.nf", "t.nb", "t.nt", "t.s", g.Int(d-1), g.Str(d-1), "t.ls[1]") + " IS NOT NULL)"
	case 9:
		return "(NOT " + g.Bool(d-1) + ")"
	case 10:
		return "(" + g.Str(d-1) + " " + g.pick("LIKE", "NOT LIKE") + " " + g.pick("t.r", "'a%'", "'%b%'", "'a_c'", "'%'", g.Str(d-1)) + ")"
	case 11:
		return "(" + g.Str(d-1) + " " + g.pick("~", "!~") + " " + g.pick("t.r", "'^a'", "'[a-c]+'", "'b$'", g.Str(d-1)) + ")"
	case 12:
		return "(" + g.Str(d-1) + " " + g.pick("~*", "!~*") + " " + g.pick("t.r", "'^A'", "'[A-C]+'", g.Str(d-1)) + ")"
	case 13, 14:
		return "(" + g.Int(d-1) + " " + g.pick("IN", "NOT IN") + " " + g.inList(g.Int, d-1) + ")"
	case 15:
		return "(" + g.Str(d-1) + " " + g.pick("IN", "NOT IN") + " " + g.inList(g.Str, d-1) + ")"
	case 16:
		return "(" + g.Int(d-1) + " " + g.pick("IN", "NOT IN") + " " + g.pick("(t.li)", "(t.li)", "(t.tu)") + ")"
	case 17:
		return "(" + g.Str(d-1) + " " + g.pick("IN", "NOT IN") + " (t.ls))"
	case 18:
		return "(" + g.Float(d-1) + " " + g.pick("IN", "NOT IN") + " " + g.inList(g.Float, d-1) + ")"
	case 19, 20:
		return "(" + g.Bool(d-1) + " AND " + g.Bool(d-1) + ")"
	case 21, 22:
		return "(" + g.Bool(d-1) + " OR " + g.Bool(d-1) + ")"
	case 23:
		return "COALESCE(t.nb, " + g.Bool(d-1) + ")"
	case 24:
		return "(" + g.pick("t.u", "t.ni", "t.li", "t.o", "t.tu") + " " + g.pick("=", "!=") + " " + g.pick("t.u", "t.i", "t.s", "t.li", "t.o", "t.tu", "1", "'a'") + ")"
	case 25:
		return "(panic(" + g.pick("t.s", "t.i", "'boom'") + ") = " + g.pick("t.s", "1") + ")"
	default:
		return g.Bool(0)
	}
}

// ---------------------------------------------------------------------------------------------
// expression tree helpers

func children(e physical.Expression) []physical.Expression {
	switch e.ExpressionType {
	case physical.ExpressionTypeFunctionCall:
		return e.FunctionCall.Arguments
	case physical.ExpressionTypeAnd:
		return e.And.Arguments
	case physical.ExpressionTypeOr:
		return e.Or.Arguments
	case physical.ExpressionTypeCoalesce:
		return e.Coalesce.Arguments
	case physical.ExpressionTypeTuple:
		return e.Tuple.Arguments
	case physical.ExpressionTypeTypeAssertion:
		return []physical.Expression{e.TypeAssertion.Expression}
	case physical.ExpressionTypeTypeCast:
		return []physical.Expression{e.TypeCast.Expression}
	case physical.ExpressionTypeObjectFieldAccess:
		return []physical.Expression{e.ObjectFieldAccess.Object}
	}
	return nil
}

func containsExprType(e physical.Expression, t physical.ExpressionType) bool {
	if e.ExpressionType == t {
		return true
	}
	for _, ch := range children(e) {
		if containsExprType(ch, t) {
			return true
		}
	}
	return false
}

func containsFunction(e physical.Expression, name string) bool {
	if e.ExpressionType == physical.ExpressionTypeFunctionCall && e.FunctionCall.Name == name {
		return true
	}
	for _, ch := range children(e) {
		if containsFunction(ch, name) {
			return true
		}
	}
	return false
}

func funcPtr(fn func([]octosql.Value) (octosql.Value, error)) uintptr {
	if fn == nil {
		return 0
	}
	return reflect.ValueOf(fn).Pointer()
}

// overloadIndex maps a function implementation to "name#index" of its descriptor in FunctionMap.
type overloadIndex struct {
	byPtr        map[uintptr]string
	all          []string
	typeFnNoArgs map[string]int    // function name -> number of TypeFn descriptors without ArgumentTypes
	firstTypeFn  map[string]string // function name -> key of the first of those
}

func newOverloadIndex() *overloadIndex {
	idx := &overloadIndex{byPtr: map[uintptr]string{}, typeFnNoArgs: map[string]int{}, firstTypeFn: map[string]string{}}
	fm := functions.FunctionMap()
	names := make([]string, 0, len(fm))
	for n := range fm {
		names = append(names, n)
	}
	sort.Strings(names)
	for _, n := range names {
		for i, d := range fm[n].Descriptors {
			key := fmt.Sprintf("%s#%d", n, i)
			idx.all = append(idx.all, key)
			idx.byPtr[funcPtr(d.Function)] = key
			if d.TypeFn != nil && len(d.ArgumentTypes) == 0 {
				idx.typeFnNoArgs[n]++
				if _, ok := idx.firstTypeFn[n]; !ok {
					idx.firstTypeFn[n] = key
				}
			}
		}
	}
	return idx
}

// ---------------------------------------------------------------------------------------------
// evaluation

type evalOutcome struct {
	val octosql.Value
	err string
}

func evalOn(e execution.Expression, row []octosql.Value, outer *execution.VariableContext) (out evalOutcome) {
	defer func() {
		if r := recover(); r != nil {
			out = evalOutcome{err: "panic: " + fmt.Sprint(r)}
		}
	}()
	ctx := execution.ExecutionContext{Context: context.Background(), VariableContext: outer}.WithRecord(execution.NewRecord(row, false, time.Time{}))
	v, err := e.Evaluate(ctx)
	if err != nil {
		return evalOutcome{err: err.Error()}
	}
	return evalOutcome{val: v}
}

func outcomeDiff(a, b evalOutcome) string {
	if a.err != "" || b.err != "" {
		if a.err != b.err {
			return fmt.Sprintf("error %q != %q", a.err, b.err)
		}
		return ""
	}
	return valueDiff(a.val, b.val, "result")
}

func materialize(e physical.Expression, env physical.Environment) (out execution.Expression, err error) {
	defer func() {
		if r := recover(); r != nil {
			err = fmt.Errorf("panic: %v", r)
		}
	}()
	return e.Materialize(context.Background(), env)
}

// transport is what the plugin boundary does to a predicate: JSON there, repopulation of the
// function implementations on the other side.
func transport(e physical.Expression) (out physical.Expression, ok bool, err error) {
	defer func() {
		if r := recover(); r != nil {
			err = fmt.Errorf("panic: %v", r)
		}
	}()
	data, err := json.Marshal([]physical.Expression{e})
	if err != nil {
		return physical.Expression{}, false, fmt.Errorf("json.Marshal: %w", err)
	}
	var back []physical.Expression
	if err := json.Unmarshal(data, &back); err != nil {
		return physical.Expression{}, false, fmt.Errorf("json.Unmarshal: %w", err)
	}
	out, ok = plugins.RepopulatePhysicalExpressionFunctions(back[0])
	return out, ok, nil
}

// transportSchema is what the plugin boundary does to the record schema the predicate refers to.
func transportSchema(s physical.Schema) (physical.Schema, error) {
	var out plugins.Schema
	if err := wire(plugins.NativeSchemaToProto(s), &out); err != nil {
		return physical.Schema{}, err
	}
	return out.ToNativeSchema(), nil
}

var _ = proto.Marshal

// mismatch describes the deepest sub-expression whose value differs.
type mismatch struct {
	origExpr, gotExpr physical.Expression
	row               int
	diff              string
}

// comparePredicates evaluates every sub-expression of orig and got (same shape) over the rows,
// children first, and returns the first (deepest) mismatch.
func comparePredicates(orig, got physical.Expression, envOrig, envGot physical.Environment, rows [][]octosql.Value, outer *execution.VariableContext, evals *int) *mismatch {
	oc, gc := children(orig), children(got)
	if orig.ExpressionType != got.ExpressionType || len(oc) != len(gc) {
		return &mismatch{origExpr: orig, gotExpr: got, row: -1, diff: fmt.Sprintf("expression shape changed: %s/%d children -> %s/%d children", orig.ExpressionType, len(oc), got.ExpressionType, len(gc))}
	}
	for i := range oc {
		if m := comparePredicates(oc[i], gc[i], envOrig, envGot, rows, outer, evals); m != nil {
			return m
		}
	}
	if containsFunction(orig, "now") {
		return nil // not a function of the row; the enclosing comparison is judged instead
	}
	if d := typeDiff(orig.Type, got.Type, "expression type"); d != "" {
		return &mismatch{origExpr: orig, gotExpr: got, row: -1, diff: d}
	}
	eo, err1 := materialize(orig, envOrig)
	eg, err2 := materialize(got, envGot)
	if err1 != nil || err2 != nil {
		if fmt.Sprint(err1) != fmt.Sprint(err2) {
			return &mismatch{origExpr: orig, gotExpr: got, row: -1, diff: fmt.Sprintf("materialize: %v != %v", err1, err2)}
		}
		return nil
	}
	for ri, row := range rows {
		*evals++
		if d := outcomeDiff(evalOn(eo, row, outer), evalOn(eg, row, outer)); d != "" {
			return &mismatch{origExpr: orig, gotExpr: got, row: ri, diff: d}
		}
	}
	return nil
}

func exprString(e physical.Expression) string {
	switch e.ExpressionType {
	case physical.ExpressionTypeVariable:
		return e.Variable.Name
	case physical.ExpressionTypeConstant:
		return e.Constant.Value.String()
	case physical.ExpressionTypeFunctionCall:
		args := make([]string, len(e.FunctionCall.Arguments))
		for i, a := range e.FunctionCall.Arguments {
			args[i] = exprString(a)
		}
		return e.FunctionCall.Name + "(" + strings.Join(args, ", ") + ")"
	}
	args := []string{}
	for _, a := range children(e) {
		args = append(args, exprString(a))
	}
	return e.ExpressionType.String() + "(" + strings.Join(args, ", ") + ")"
}

// classifyMismatch: predicate (input) + symptom -> finding key.
func classifyMismatch(m *mismatch, idx *overloadIndex) string {
	if m.origExpr.ExpressionType == physical.ExpressionTypeFunctionCall && m.gotExpr.ExpressionType == physical.ExpressionTypeFunctionCall {
		od, gd := m.origExpr.FunctionCall.FunctionDescriptor, m.gotExpr.FunctionCall.FunctionDescriptor
		name := m.origExpr.FunctionCall.Name
		if gd.Function == nil {
			return "repopulate-nil-function:" + name
		}
		if od.TypeFn != nil && len(od.ArgumentTypes) == 0 && idx.typeFnNoArgs[name] >= 2 && funcPtr(od.Function) != funcPtr(gd.Function) {
			// the original overload is a TypeFn overload without declared argument types, the
			// function has several of those, and repopulation picked another one
			return "repopulate-typefn-overload:" + name
		}
		if funcPtr(od.Function) != funcPtr(gd.Function) {
			return "repopulate-wrong-overload:" + name
		}
		return "predicate-differs:" + name
	}
	return "predicate-differs:" + m.origExpr.ExpressionType.String()
}

type predCase struct {
	id    string
	sql   string
	where string
	pred  physical.Expression
	src   physical.Node
}

func findFilter(n physical.Node) *physical.Filter {
	var out *physical.Filter
	(&physical.Transformers{NodeTransformer: func(n physical.Node) physical.Node {
		if n.NodeType == physical.NodeTypeFilter && out == nil {
			out = n.Filter
		}
		return n
	}}).TransformNode(n)
	return out
}

func predicateLeg(c *core.Ctx) (kept []predCase, rows [][]octosql.Value) {
	idx := newOverloadIndex()
	rows = predRows(c.Rng("pred-rows"), 50)
	db := &nodeh.DB{Tables: map[string]*nodeh.Table{"t": predTable(rows)}}
	ctx := nodeh.Ctx()
	n := c.Pick(1000, 30000)
	reached := map[string]int{}
	selfLeft := 3
	// the rows in the layout of the filter's source schema, obtained by running the real source
	var srcRows [][]octosql.Value
	{
		p, perr := nodeh.Plan(ctx, "SELECT * FROM m.t t WHERE t.b", db, nodeh.PlanOpts{Optimize: false, Output: "none"})
		if perr != nil || findFilter(p.Physical) == nil {
			c.Inconclusive("source-plan")
			return
		}
		srcNode, err := findFilter(p.Physical).Source.Materialize(ctx, nodeh.Env(db))
		if err != nil {
			c.Inconclusive("source-materialize")
			return
		}
		col := &nodeh.Collector{}
		if res := nodeh.RunNode(srcNode, col, 30*time.Second); res.Err != nil || res.Panicked || res.TimedOut {
			c.Inconclusive("source-run")
			return
		}
		for _, o := range col.Snapshot() {
			if !o.IsWatermark {
				srcRows = append(srcRows, o.Record.Values)
			}
		}
	}
	var mu sync.Mutex
	keptByIdx := map[int]predCase{}
	core.Parallel(n, 16, func(i int) {
		id := fmt.Sprintf("pred-%d-%d", c.Seed, i)
		if c.Only != "" && c.Only != id {
			return
		}
		g := &exprGen{rng: c.Rng(fmt.Sprintf("pred-%d", i))}
		where := g.Bool(1 + g.rng.Intn(3))
		sql := "SELECT * FROM m.t t WHERE " + where
		p, perr := nodeh.Plan(ctx, sql, db, nodeh.PlanOpts{Optimize: false, Output: "none"})
		if perr != nil {
			if perr.Stage == "panic" {
				c.Count("pred/plan_panic_not_judged_here", 1)
			}
			c.Count("pred/typecheck_rejected", 1)
			return
		}
		filter := findFilter(p.Physical)
		if filter == nil {
			c.Count("pred/typecheck_rejected", 1)
			return
		}
		pred := filter.Predicate
		if containsExprType(pred, physical.ExpressionTypeQueryExpression) {
			return
		}
		c.Eval(1)
		replay := map[string]interface{}{"id": id, "leg": "predicate", "sql": sql, "predicate": exprString(pred)}
		got, ok, err := transport(pred)
		if err != nil {
			c.Violation("predicate-transport-error", err.Error(), replay)
			return
		}
		if !ok {
			c.Violation("predicate-rejected-by-repopulate", "RepopulatePhysicalExpressionFunctions does not know a function of this octosql's own predicate", replay)
			return
		}
		schema2, err := transportSchema(filter.Source.Schema)
		if err != nil {
			c.Violation("roundtrip-wire-error:schema", err.Error(), replay)
			return
		}
		envOrig := physical.Environment{}.WithRecordSchema(filter.Source.Schema)
		envGot := physical.Environment{}.WithRecordSchema(schema2)
		mu.Lock()
		if selftest && selfLeft > 0 && got.ExpressionType == physical.ExpressionTypeFunctionCall && got.FunctionCall.Name == "<" {
			// deliberately wrong "other side": the comparison is replaced by its negation
			fm := functions.FunctionMap()
			got.FunctionCall.FunctionDescriptor.Function = fm[">="].Descriptors[0].Function
			selfLeft--
		}
		mu.Unlock()
		// coverage: which overloads does this predicate exercise
		var walk func(e physical.Expression)
		walk = func(e physical.Expression) {
			if e.ExpressionType == physical.ExpressionTypeFunctionCall {
				if k, ok := idx.byPtr[funcPtr(e.FunctionCall.FunctionDescriptor.Function)]; ok {
					reached[k]++
				} else {
					reached["?"+e.FunctionCall.Name]++
				}
			}
			c.Count("pred/expression/"+e.ExpressionType.String(), 1)
			for _, ch := range children(e) {
				walk(ch)
			}
		}
		mu.Lock()
		walk(pred)
		if i < 4000 {
			keptByIdx[i] = predCase{id: id, sql: sql, where: where, pred: pred, src: filter.Source}
		}
		mu.Unlock()
		c.Nontrivial(exprString(pred))
		evals := 0
		defer func() { c.Count("pred/row_evaluations", evals) }()
		if m := comparePredicates(pred, got, envOrig, envGot, srcRows, nil, &evals); m != nil {
			what := fmt.Sprintf("sub-expression %s evaluates differently after JSON transport + RepopulatePhysicalExpressionFunctions: %s", exprString(m.origExpr), m.diff)
			if m.row >= 0 {
				what += fmt.Sprintf(" (row %d: %s)", m.row, nodeh.RowKey(srcRows[m.row]))
			}
			replay["mismatch"] = what
			c.Violation(classifyMismatch(m, idx), what, replay)
			return
		}
		c.Sample(map[string]interface{}{"id": id, "leg": "predicate", "where": where})
	})
	for i := 0; i < n && len(kept) < 2000; i++ {
		if pc, ok := keptByIdx[i]; ok {
			kept = append(kept, pc)
		}
	}
	var unreached []string
	for _, k := range idx.all {
		if reached[k] == 0 {
			unreached = append(unreached, k)
		}
	}
	c.Note("function_overloads_total", len(idx.all))
	c.Note("function_overloads_reached", len(idx.all)-len(unreached))
	c.Note("function_overloads_unreached", unreached)
	c.Note("function_overload_hits", reached)

	unknownSignatureCheck(c, idx)
	return kept, srcRows
}

// unknownSignatureCheck: a predicate whose function exists but whose signature the receiving side
// does not know (plugin built against another octosql) must be reported as not repopulated
// (ok == false, so that the plugin rejects the predicate) — or carry a usable implementation.
func unknownSignatureCheck(c *core.Ctx, idx *overloadIndex) {
	fm := functions.FunctionMap()
	for _, name := range []string{"abs", "upper", "+", "len"} {
		c.Eval(1)
		d := fm[name].Descriptors[0]
		tampered := d
		tampered.ArgumentTypes = append(append([]octosql.Type{}, d.ArgumentTypes...), octosql.Duration, octosql.Duration, octosql.Duration)
		e := physical.Expression{Type: d.OutputType, ExpressionType: physical.ExpressionTypeFunctionCall, FunctionCall: &physical.FunctionCall{
			Name: name, Arguments: []physical.Expression{{Type: octosql.Int, ExpressionType: physical.ExpressionTypeConstant, Constant: &physical.Constant{Value: octosql.NewInt(1)}}}, FunctionDescriptor: tampered}}
		got, ok, err := transport(e)
		replay := map[string]interface{}{"id": "unknown-signature-" + name, "leg": "predicate", "function": name}
		c.Count("pred/unknown_signature_probes", 1)
		if err != nil {
			c.Violation("predicate-transport-error", err.Error(), replay)
			continue
		}
		if ok && got.FunctionCall.FunctionDescriptor.Function == nil {
			c.Violation("repopulate-unknown-signature-accepted", fmt.Sprintf("function %s with a signature that is not in the function map is reported as repopulated (ok=true) but has no implementation", name), replay)
		}
	}
}

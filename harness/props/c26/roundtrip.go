package c26

import (
	"fmt"
	"strings"
	"time"

	"google.golang.org/protobuf/proto"

	"github.com/cube2222/octosql/execution"
	"github.com/cube2222/octosql/octosql"
	"github.com/cube2222/octosql/physical"
	"github.com/cube2222/octosql/plugins/internal/plugins"

	"github.com/cube2222/octosql/plugins/verifharness/core"
)

// wire pushes a protobuf message through real wire bytes into a fresh message.
func wire(in proto.Message, out proto.Message) error {
	data, err := proto.Marshal(in)
	if err != nil {
		return fmt.Errorf("marshal: %w", err)
	}
	if err := proto.Unmarshal(data, out); err != nil {
		return fmt.Errorf("unmarshal: %w", err)
	}
	return nil
}

type rtOutcome struct {
	diff     string // first difference after the round trip
	wireErr  error
	panicMsg string
}

func (o rtOutcome) bad() bool { return o.diff != "" || o.wireErr != nil || o.panicMsg != "" }

func (o rtOutcome) String() string {
	switch {
	case o.panicMsg != "":
		return "panic: " + o.panicMsg
	case o.wireErr != nil:
		return "wire error: " + o.wireErr.Error()
	}
	return o.diff
}

func try(fn func() rtOutcome) (out rtOutcome) {
	panicked, msg := core.Try(func() { out = fn() })
	if panicked {
		return rtOutcome{panicMsg: msg}
	}
	return out
}

func rtValue(v octosql.Value) (octosql.Value, rtOutcome) {
	var got octosql.Value
	o := try(func() rtOutcome {
		var out plugins.Value
		if err := wire(plugins.NativeValueToProto(v), &out); err != nil {
			return rtOutcome{wireErr: err}
		}
		got = out.ToNativeValue()
		return rtOutcome{diff: valueDiff(v, got, "value")}
	})
	return got, o
}

func rtType(t octosql.Type) rtOutcome {
	return try(func() rtOutcome {
		var out plugins.Type
		if err := wire(plugins.NativeTypeToProto(t), &out); err != nil {
			return rtOutcome{wireErr: err}
		}
		return rtOutcome{diff: typeDiff(t, out.ToNativeType(), "type")}
	})
}

// rtSchema goes through the two messages a schema travels in: GetTableResponse (plugin -> octosql)
// and MaterializeRequest (octosql -> plugin).
func rtSchema(s physical.Schema, pc *physical.VariableContext) rtOutcome {
	return try(func() rtOutcome {
		var out plugins.GetTableResponse
		if err := wire(&plugins.GetTableResponse{Schema: plugins.NativeSchemaToProto(s)}, &out); err != nil {
			return rtOutcome{wireErr: err}
		}
		if d := schemaDiff(s, out.Schema.ToNativeSchema()); d != "" {
			return rtOutcome{diff: "GetTableResponse: " + d}
		}
		var out2 plugins.MaterializeRequest
		req := &plugins.MaterializeRequest{
			TableContext:         &plugins.TableContext{TableName: "t", Options: map[string]string{"k": "v"}},
			Schema:               plugins.NativeSchemaToProto(s),
			PushedDownPredicates: []byte("[]"),
			VariableContext:      plugins.NativePhysicalVariableContextToProto(pc),
		}
		if err := wire(req, &out2); err != nil {
			return rtOutcome{wireErr: err}
		}
		if d := schemaDiff(s, out2.Schema.ToNativeSchema()); d != "" {
			return rtOutcome{diff: "MaterializeRequest: " + d}
		}
		if d := physCtxDiff(pc, out2.VariableContext.ToNativePhysicalVariableContext()); d != "" {
			return rtOutcome{diff: "MaterializeRequest: " + d}
		}
		if out2.TableContext.TableName != "t" || out2.TableContext.Options["k"] != "v" || string(out2.PushedDownPredicates) != "[]" {
			return rtOutcome{diff: "MaterializeRequest: table context / predicates changed"}
		}
		return rtOutcome{}
	})
}

func rtRecord(r execution.Record) rtOutcome {
	return try(func() rtOutcome {
		var out plugins.RunResponseMessage
		if err := wire(&plugins.RunResponseMessage{Record: plugins.NativeRecordToProto(r)}, &out); err != nil {
			return rtOutcome{wireErr: err}
		}
		if out.Record == nil || out.Metadata != nil {
			return rtOutcome{diff: "RunResponseMessage: a record message did not arrive as a record"}
		}
		return rtOutcome{diff: recordDiff(r, out.Record.ToNativeRecord())}
	})
}

func rtMeta(m execution.MetadataMessage) rtOutcome {
	return try(func() rtOutcome {
		var out plugins.RunResponseMessage
		if err := wire(&plugins.RunResponseMessage{Metadata: plugins.NativeMetadataMessageToProto(m)}, &out); err != nil {
			return rtOutcome{wireErr: err}
		}
		// executor.go treats a message as metadata iff Record == nil
		if out.Record != nil || out.Metadata == nil {
			return rtOutcome{diff: "RunResponseMessage: a metadata message did not arrive as metadata"}
		}
		return rtOutcome{diff: metaDiff(m, out.Metadata.ToNativeMetadataMessage())}
	})
}

func rtExecCtx(ec *execution.VariableContext) rtOutcome {
	return try(func() rtOutcome {
		var out plugins.RunRequest
		if err := wire(&plugins.RunRequest{VariableContext: plugins.NativeExecutionVariableContextToProto(ec)}, &out); err != nil {
			return rtOutcome{wireErr: err}
		}
		return rtOutcome{diff: execCtxDiff(ec, out.VariableContext.ToNativeExecutionVariableContext())}
	})
}

func framesOf(ec *execution.VariableContext) (n int, vals []octosql.Value) {
	for ; ec != nil; ec = ec.Parent {
		n++
		vals = append(vals, ec.Values...)
	}
	return
}

// classifyRT names the finding class of a failed round trip from the INPUT (hasInvalid: some
// string in it is not valid UTF-8) and the symptom.
func classifyRT(kind string, o rtOutcome, hasInvalid bool) string {
	if hasInvalid && o.wireErr != nil && strings.Contains(o.wireErr.Error(), "invalid UTF-8") {
		return "invalid-utf8-string"
	}
	switch {
	case o.panicMsg != "":
		return "roundtrip-panic:" + kind
	case o.wireErr != nil:
		return "roundtrip-wire-error:" + kind
	}
	return "roundtrip-diff:" + kind
}

func roundTripLeg(c *core.Ctx) {
	n := c.Pick(5000, 250000)
	selfLeft := 3
	for i := 0; i < n; i++ {
		id := fmt.Sprintf("rt-%d-%d", c.Seed, i)
		if c.Only != "" && c.Only != id {
			continue
		}
		rng := c.Rng(fmt.Sprintf("rt-%d", i))
		g := &valueGen{rng: rng, invalidUTF8: true}
		kind := []string{"value", "value", "type", "schema", "record", "record", "metadata", "exec-context", "phys-context"}[i%9]
		c.Eval(1)
		var o rtOutcome
		var input interface{}
		hasInvalid := false
		nontrivial := ""
		switch kind {
		case "value":
			v := g.genValue(3)
			hasInvalid = valueHasInvalidUTF8(v)
			got, out := rtValue(v)
			o = out
			if selftest && selfLeft > 0 && !o.bad() && v.TypeID == octosql.TypeIDInt {
				// deliberately wrong recording: the decoded value is off by one
				got.Int++
				o.diff = valueDiff(v, got, "value")
				selfLeft--
			}
			input = fmt.Sprintf("%#v", v)
			c.Count(fmt.Sprintf("rt/value/type/%s", v.TypeID), 1)
			c.Count(fmt.Sprintf("rt/value/depth/%d", valueDepth(v)), 1)
			if v.TypeID != octosql.TypeIDNull {
				nontrivial = "v:" + fmt.Sprintf("%#v", v)
			}
		case "type":
			t := g.genType(3)
			o = rtType(t)
			input = t.String()
			c.Count(fmt.Sprintf("rt/type/%s", t.TypeID), 1)
			if t.TypeID == octosql.TypeIDList && t.List.Element == nil {
				c.Count("rt/type/empty_list_type", 1)
			}
			if typeHasKind(t, octosql.TypeIDUnion) {
				c.Count("rt/type/with_union", 1)
			}
			if typeHasKind(t, octosql.TypeIDAny) {
				c.Count("rt/type/with_any", 1)
			}
			if t.TypeID >= octosql.TypeIDList {
				nontrivial = "t:" + fmt.Sprintf("%#v", t)
			}
		case "schema":
			s := g.genSchema()
			pc := g.genPhysCtx(rng.Intn(5))
			o = rtSchema(s, pc)
			input = fmt.Sprintf("%+v", s)
			c.Count(fmt.Sprintf("rt/schema/fields/%d", len(s.Fields)), 1)
			if s.TimeField >= 0 {
				c.Count("rt/schema/with_time_field", 1)
			}
			if len(s.Fields) > 0 {
				nontrivial = "s:" + fmt.Sprintf("%#v", s)
			}
		case "record":
			s := g.genSchema()
			r := g.genRecordFor(s)
			hasInvalid = valuesHaveInvalidUTF8(r.Values)
			o = rtRecord(r)
			input = fmt.Sprintf("%#v", r)
			if r.Retraction {
				c.Count("rt/record/retraction", 1)
			}
			if r.EventTime.IsZero() {
				c.Count("rt/record/zero_event_time", 1)
			}
			c.Count(fmt.Sprintf("rt/record/values/%d", len(r.Values)), 1)
			if len(r.Values) > 0 {
				nontrivial = "r:" + fmt.Sprintf("%#v", r)
			}
		case "metadata":
			m := execution.MetadataMessage{Type: execution.MetadataMessageTypeWatermark, Watermark: g.genTime()}
			if rng.Intn(4) == 0 {
				m.Type = execution.MetadataMessageType(rng.Intn(5))
			}
			o = rtMeta(m)
			input = fmt.Sprintf("%#v", m)
			if m.Watermark.IsZero() {
				c.Count("rt/metadata/zero_watermark", 1)
			}
			if m.Watermark.Equal(execution.WatermarkMaxValue) {
				c.Count("rt/metadata/max_watermark", 1)
			}
			nontrivial = "m:" + fmt.Sprint(m.Type, m.Watermark.UnixNano(), m.Watermark.Unix())
		case "exec-context":
			pc := g.genPhysCtx(rng.Intn(5))
			ec := g.genExecCtxFor(pc)
			frames, vals := framesOf(ec)
			hasInvalid = valuesHaveInvalidUTF8(vals)
			o = rtExecCtx(ec)
			input = fmt.Sprintf("%d frames: %#v", frames, vals)
			c.Count(fmt.Sprintf("rt/exec_context/frames/%d", frames), 1)
			if frames > 0 {
				nontrivial = "e:" + fmt.Sprintf("%d %#v", frames, vals)
			}
		case "phys-context":
			pc := g.genPhysCtx(rng.Intn(5))
			frames := 0
			desc := ""
			for p := pc; p != nil; p = p.Parent {
				frames++
				desc += fmt.Sprintf("%#v;", p.Fields)
			}
			o = try(func() rtOutcome {
				var out plugins.PhysicalVariableContext
				if err := wire(plugins.NativePhysicalVariableContextToProto(pc), &out); err != nil {
					return rtOutcome{wireErr: err}
				}
				return rtOutcome{diff: physCtxDiff(pc, out.ToNativePhysicalVariableContext())}
			})
			input = desc
			c.Count(fmt.Sprintf("rt/phys_context/frames/%d", frames), 1)
			if frames > 0 {
				nontrivial = "p:" + desc
			}
		}
		if hasInvalid {
			c.Count("rt/with_invalid_utf8_string", 1)
		}
		if nontrivial != "" {
			c.Nontrivial(nontrivial)
		}
		if o.bad() {
			c.Violation(classifyRT(kind, o, hasInvalid), kind+" changed by encode -> wire bytes -> decode: "+o.String(), map[string]interface{}{"id": id, "leg": "roundtrip", "kind": kind, "input": input})
			continue
		}
		c.Sample(map[string]interface{}{"id": id, "leg": "roundtrip", "kind": kind, "input": trunc(fmt.Sprint(input), 300)})
	}
	_ = time.Now
}

func trunc(s string, n int) string {
	if len(s) > n {
		return s[:n] + "..."
	}
	return s
}

package c26

import (
	"fmt"
	"math"

	"github.com/cube2222/octosql/execution"
	"github.com/cube2222/octosql/octosql"
	"github.com/cube2222/octosql/physical"
)

// Own structural comparer (must not depend on Value.Equal/Compare or Type.Equals, which belong to
// the code under test): nil == empty slice, floats bitwise, times by instant. It returns the path
// of the first difference ("" = equal).

func valueDiff(a, b octosql.Value, path string) string {
	if a.TypeID != b.TypeID {
		return fmt.Sprintf("%s: type id %d != %d", path, a.TypeID, b.TypeID)
	}
	if a.Int != b.Int {
		return fmt.Sprintf("%s: Int %d != %d", path, a.Int, b.Int)
	}
	if math.Float64bits(a.Float) != math.Float64bits(b.Float) {
		return fmt.Sprintf("%s: Float bits %x != %x", path, math.Float64bits(a.Float), math.Float64bits(b.Float))
	}
	if a.Boolean != b.Boolean {
		return fmt.Sprintf("%s: Boolean %v != %v", path, a.Boolean, b.Boolean)
	}
	if a.Str != b.Str {
		return fmt.Sprintf("%s: Str %q != %q", path, a.Str, b.Str)
	}
	if !a.Time.Equal(b.Time) {
		return fmt.Sprintf("%s: Time %s != %s", path, a.Time, b.Time)
	}
	if a.Duration != b.Duration {
		return fmt.Sprintf("%s: Duration %d != %d", path, a.Duration, b.Duration)
	}
	if d := valuesDiff(a.List, b.List, path+".List"); d != "" {
		return d
	}
	if d := valuesDiff(a.Struct, b.Struct, path+".Struct"); d != "" {
		return d
	}
	return valuesDiff(a.Tuple, b.Tuple, path+".Tuple")
}

func valuesDiff(a, b []octosql.Value, path string) string {
	if len(a) != len(b) {
		return fmt.Sprintf("%s: length %d != %d", path, len(a), len(b))
	}
	for i := range a {
		if d := valueDiff(a[i], b[i], fmt.Sprintf("%s[%d]", path, i)); d != "" {
			return d
		}
	}
	return ""
}

func typeDiff(a, b octosql.Type, path string) string {
	if a.TypeID != b.TypeID {
		return fmt.Sprintf("%s: type id %s != %s", path, a.TypeID, b.TypeID)
	}
	if (a.List.Element == nil) != (b.List.Element == nil) {
		return fmt.Sprintf("%s: list element type present %v != %v", path, a.List.Element != nil, b.List.Element != nil)
	}
	if a.List.Element != nil {
		if d := typeDiff(*a.List.Element, *b.List.Element, path+".List"); d != "" {
			return d
		}
	}
	if len(a.Struct.Fields) != len(b.Struct.Fields) {
		return fmt.Sprintf("%s: %d != %d struct fields", path, len(a.Struct.Fields), len(b.Struct.Fields))
	}
	for i := range a.Struct.Fields {
		if a.Struct.Fields[i].Name != b.Struct.Fields[i].Name {
			return fmt.Sprintf("%s.Struct[%d]: name %q != %q", path, i, a.Struct.Fields[i].Name, b.Struct.Fields[i].Name)
		}
		if d := typeDiff(a.Struct.Fields[i].Type, b.Struct.Fields[i].Type, fmt.Sprintf("%s.Struct[%d]", path, i)); d != "" {
			return d
		}
	}
	if len(a.Tuple.Elements) != len(b.Tuple.Elements) {
		return fmt.Sprintf("%s: %d != %d tuple elements", path, len(a.Tuple.Elements), len(b.Tuple.Elements))
	}
	for i := range a.Tuple.Elements {
		if d := typeDiff(a.Tuple.Elements[i], b.Tuple.Elements[i], fmt.Sprintf("%s.Tuple[%d]", path, i)); d != "" {
			return d
		}
	}
	if len(a.Union.Alternatives) != len(b.Union.Alternatives) {
		return fmt.Sprintf("%s: %d != %d union alternatives", path, len(a.Union.Alternatives), len(b.Union.Alternatives))
	}
	for i := range a.Union.Alternatives {
		if d := typeDiff(a.Union.Alternatives[i], b.Union.Alternatives[i], fmt.Sprintf("%s.Union[%d]", path, i)); d != "" {
			return d
		}
	}
	return ""
}

func fieldsDiff(a, b []physical.SchemaField, path string) string {
	if len(a) != len(b) {
		return fmt.Sprintf("%s: %d != %d fields", path, len(a), len(b))
	}
	for i := range a {
		if a[i].Name != b[i].Name {
			return fmt.Sprintf("%s[%d]: name %q != %q", path, i, a[i].Name, b[i].Name)
		}
		if d := typeDiff(a[i].Type, b[i].Type, fmt.Sprintf("%s[%d](%s)", path, i, a[i].Name)); d != "" {
			return d
		}
	}
	return ""
}

func schemaDiff(a, b physical.Schema) string {
	if a.TimeField != b.TimeField {
		return fmt.Sprintf("schema: time field %d != %d", a.TimeField, b.TimeField)
	}
	if a.NoRetractions != b.NoRetractions {
		return fmt.Sprintf("schema: no-retractions %v != %v", a.NoRetractions, b.NoRetractions)
	}
	return fieldsDiff(a.Fields, b.Fields, "schema.Fields")
}

func recordDiff(a, b execution.Record) string {
	if a.Retraction != b.Retraction {
		return fmt.Sprintf("record: retraction %v != %v", a.Retraction, b.Retraction)
	}
	if !a.EventTime.Equal(b.EventTime) {
		return fmt.Sprintf("record: event time %s != %s", a.EventTime, b.EventTime)
	}
	return valuesDiff(a.Values, b.Values, "record.Values")
}

func metaDiff(a, b execution.MetadataMessage) string {
	if a.Type != b.Type {
		return fmt.Sprintf("metadata: type %d != %d", a.Type, b.Type)
	}
	if !a.Watermark.Equal(b.Watermark) {
		return fmt.Sprintf("metadata: watermark %s != %s", a.Watermark, b.Watermark)
	}
	return ""
}

func physCtxDiff(a, b *physical.VariableContext) string {
	frame := 0
	for a != nil || b != nil {
		if a == nil || b == nil {
			return fmt.Sprintf("physical context: frame %d present %v != %v", frame, a != nil, b != nil)
		}
		if d := fieldsDiff(a.Fields, b.Fields, fmt.Sprintf("physical context frame %d", frame)); d != "" {
			return d
		}
		a, b = a.Parent, b.Parent
		frame++
	}
	return ""
}

func execCtxDiff(a, b *execution.VariableContext) string {
	frame := 0
	for a != nil || b != nil {
		if a == nil || b == nil {
			return fmt.Sprintf("execution context: frame %d present %v != %v", frame, a != nil, b != nil)
		}
		if d := valuesDiff(a.Values, b.Values, fmt.Sprintf("execution context frame %d", frame)); d != "" {
			return d
		}
		a, b = a.Parent, b.Parent
		frame++
	}
	return ""
}

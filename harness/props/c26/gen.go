package c26

import (
	"fmt"
	"math"
	"math/rand"
	"strings"
	"time"
	"unicode/utf8"

	"github.com/cube2222/octosql/execution"
	"github.com/cube2222/octosql/octosql"
	"github.com/cube2222/octosql/physical"
)

// ---------------------------------------------------------------------------------------------
// generators for the wire round trips

var intPool = []int64{0, 1, -1, 2, 7, 42, -42, 255, 256, 65535, 1 << 31, -(1 << 31), 1<<53 - 1, 1 << 53, 1<<53 + 1, math.MaxInt64, math.MinInt64, math.MaxInt64 - 1, math.MinInt64 + 1}

var floatBitsPool = []uint64{
	0, 1 << 63, // +0, -0
	math.Float64bits(1), math.Float64bits(-1), math.Float64bits(0.1), math.Float64bits(1.5), math.Float64bits(math.Pi),
	math.Float64bits(math.MaxFloat64), math.Float64bits(-math.MaxFloat64), math.Float64bits(math.SmallestNonzeroFloat64),
	math.Float64bits(math.Inf(1)), math.Float64bits(math.Inf(-1)), math.Float64bits(math.NaN()),
	0x7ff0000000000001, 0xfff8000000000001, // NaNs with other payloads / sign
	0x000fffffffffffff, // largest subnormal
	math.Float64bits(9007199254740993),
}

var stringPool = []string{"", "a", "abc", " ", "a b", "żółć", "日本語", "😀", "a\x00b", "\n\t\r", "'quoted'", "\"dq\"", "\\", "NULL", "null", "0", "-1", "1e9", "{}", "[]",
	strings.Repeat("x", 1000), strings.Repeat("é", 300)}

var invalidUTF8Pool = []string{"\xff", "a\xffb", "\xc3\x28", "\xed\xa0\x80", "ok\xf0\x28\x8c\x28"}

var localZone = time.FixedZone("X", 5*3600+1800)

var timePool = []time.Time{
	{},
	time.Unix(0, 0),
	time.Unix(0, 1),
	time.Unix(-1, 999999999),
	time.Date(2020, 2, 29, 12, 34, 56, 789, time.UTC),
	time.Date(2020, 2, 29, 12, 34, 56, 123456789, localZone),
	time.Date(9999, 12, 31, 23, 59, 59, 999999999, time.UTC),
	time.Date(10000, 1, 1, 0, 0, 0, 0, time.UTC),
	time.Date(1, 1, 1, 0, 0, 0, 1, time.UTC),
	time.Date(-5000, 6, 1, 0, 0, 0, 0, time.UTC),
	time.Date(1969, 12, 31, 23, 59, 59, 500000000, time.UTC),
	execution.WatermarkMaxValue,
	time.Unix(math.MaxInt64-62135596800-1, 999999999),
	time.Unix(math.MinInt64+1, 0),
	time.Unix(1<<40, 999999999),
}

var durationPool = []time.Duration{0, 1, -1, time.Second, -time.Second, time.Hour*24*365*100 + 1, math.MaxInt64, math.MinInt64, math.MaxInt64 - 1, 999999999, -999999999, 1000000000, 1500 * time.Millisecond}

type valueGen struct {
	rng         *rand.Rand
	invalidUTF8 bool // allow strings that are not valid UTF-8
}

func (g *valueGen) genInt() int64 {
	if g.rng.Intn(3) == 0 {
		return g.rng.Int63n(2001) - 1000
	}
	return intPool[g.rng.Intn(len(intPool))]
}

func (g *valueGen) genFloat() float64 {
	switch g.rng.Intn(4) {
	case 0:
		return math.Float64frombits(g.rng.Uint64())
	case 1:
		return float64(g.rng.Int63n(2001)-1000) / 8
	}
	return math.Float64frombits(floatBitsPool[g.rng.Intn(len(floatBitsPool))])
}

func (g *valueGen) genString() string {
	if g.invalidUTF8 && g.rng.Intn(12) == 0 {
		return invalidUTF8Pool[g.rng.Intn(len(invalidUTF8Pool))]
	}
	if g.rng.Intn(4) == 0 {
		n := g.rng.Intn(12)
		var sb strings.Builder
		for i := 0; i < n; i++ {
			sb.WriteRune(rune(g.rng.Intn(0x250)))
		}
		return sb.String()
	}
	return stringPool[g.rng.Intn(len(stringPool))]
}

func (g *valueGen) genTime() time.Time {
	if g.rng.Intn(4) == 0 {
		return time.Unix(g.rng.Int63n(4e9)-2e9, g.rng.Int63n(1e9))
	}
	return timePool[g.rng.Intn(len(timePool))]
}

func (g *valueGen) genDuration() time.Duration {
	if g.rng.Intn(3) == 0 {
		return time.Duration(g.rng.Int63n(1e13) - 5e12)
	}
	return durationPool[g.rng.Intn(len(durationPool))]
}

// genValue: an arbitrary value (any type id, nesting up to depth).
func (g *valueGen) genValue(depth int) octosql.Value {
	max := 10
	if depth <= 0 {
		max = 7
	}
	switch g.rng.Intn(max) {
	case 0:
		return octosql.NewNull()
	case 1:
		return octosql.NewInt(g.genInt())
	case 2:
		return octosql.NewFloat(g.genFloat())
	case 3:
		return octosql.NewBoolean(g.rng.Intn(2) == 0)
	case 4:
		return octosql.NewString(g.genString())
	case 5:
		return octosql.NewTime(g.genTime())
	case 6:
		return octosql.NewDuration(g.genDuration())
	case 7:
		return octosql.NewList(g.genValues(depth - 1))
	case 8:
		return octosql.NewStruct(g.genValues(depth - 1))
	default:
		return octosql.NewTuple(g.genValues(depth - 1))
	}
}

func (g *valueGen) genValues(depth int) []octosql.Value {
	n := g.rng.Intn(5)
	switch g.rng.Intn(8) {
	case 0:
		return nil // nil and empty are the same thing on the wire
	case 1:
		return []octosql.Value{}
	}
	out := make([]octosql.Value, n)
	for i := range out {
		out[i] = g.genValue(depth)
	}
	return out
}

// genType: an arbitrary type.
func (g *valueGen) genType(depth int) octosql.Type {
	max := 12
	if depth <= 0 {
		max = 8
	}
	switch g.rng.Intn(max) {
	case 0:
		return octosql.Null
	case 1:
		return octosql.Int
	case 2:
		return octosql.Float
	case 3:
		return octosql.Boolean
	case 4:
		return octosql.String
	case 5:
		return octosql.Time
	case 6:
		return octosql.Duration
	case 7:
		return octosql.Any
	case 8:
		t := octosql.Type{TypeID: octosql.TypeIDList}
		if g.rng.Intn(4) > 0 {
			el := g.genType(depth - 1)
			t.List.Element = &el
		}
		return t
	case 9:
		t := octosql.Type{TypeID: octosql.TypeIDStruct}
		n := g.rng.Intn(5)
		for i := 0; i < n; i++ {
			t.Struct.Fields = append(t.Struct.Fields, octosql.StructField{Name: g.genFieldName(i), Type: g.genType(depth - 1)})
		}
		return t
	case 10:
		t := octosql.Type{TypeID: octosql.TypeIDTuple}
		n := g.rng.Intn(4)
		for i := 0; i < n; i++ {
			t.Tuple.Elements = append(t.Tuple.Elements, g.genType(depth-1))
		}
		return t
	default:
		t := octosql.Type{TypeID: octosql.TypeIDUnion}
		n := 2 + g.rng.Intn(3)
		for i := 0; i < n; i++ {
			t.Union.Alternatives = append(t.Union.Alternatives, g.genType(depth-1))
		}
		return t
	}
}

var fieldNames = []string{"a", "b", "id", "name", "t.x", "t.time", "żółw", "with space", "", "A", "a_b", "x1", "col", "value"}

func (g *valueGen) genFieldName(i int) string {
	if g.rng.Intn(3) == 0 {
		return fmt.Sprintf("f%d", i)
	}
	return fieldNames[g.rng.Intn(len(fieldNames))]
}

// genValueOf: a value that inhabits t.
func (g *valueGen) genValueOf(t octosql.Type, depth int) octosql.Value {
	switch t.TypeID {
	case octosql.TypeIDNull:
		return octosql.NewNull()
	case octosql.TypeIDInt:
		return octosql.NewInt(g.genInt())
	case octosql.TypeIDFloat:
		return octosql.NewFloat(g.genFloat())
	case octosql.TypeIDBoolean:
		return octosql.NewBoolean(g.rng.Intn(2) == 0)
	case octosql.TypeIDString:
		return octosql.NewString(g.genString())
	case octosql.TypeIDTime:
		return octosql.NewTime(g.genTime())
	case octosql.TypeIDDuration:
		return octosql.NewDuration(g.genDuration())
	case octosql.TypeIDAny:
		return g.genValue(depth)
	case octosql.TypeIDList:
		if t.List.Element == nil {
			return octosql.NewList(nil)
		}
		n := g.rng.Intn(4)
		vals := make([]octosql.Value, n)
		for i := range vals {
			vals[i] = g.genValueOf(*t.List.Element, depth-1)
		}
		return octosql.NewList(vals)
	case octosql.TypeIDStruct:
		vals := make([]octosql.Value, len(t.Struct.Fields))
		for i := range vals {
			vals[i] = g.genValueOf(t.Struct.Fields[i].Type, depth-1)
		}
		return octosql.NewStruct(vals)
	case octosql.TypeIDTuple:
		vals := make([]octosql.Value, len(t.Tuple.Elements))
		for i := range vals {
			vals[i] = g.genValueOf(t.Tuple.Elements[i], depth-1)
		}
		return octosql.NewTuple(vals)
	case octosql.TypeIDUnion:
		if len(t.Union.Alternatives) == 0 {
			return octosql.NewNull()
		}
		return g.genValueOf(t.Union.Alternatives[g.rng.Intn(len(t.Union.Alternatives))], depth)
	}
	return octosql.NewNull()
}

func (g *valueGen) genSchema() physical.Schema {
	n := g.rng.Intn(7)
	fields := make([]physical.SchemaField, n)
	timeField := -1
	for i := range fields {
		fields[i] = physical.SchemaField{Name: g.genFieldName(i), Type: g.genType(2)}
	}
	if n > 0 && g.rng.Intn(3) == 0 {
		timeField = g.rng.Intn(n)
		fields[timeField].Type = octosql.Time
	}
	return physical.Schema{Fields: fields, TimeField: timeField, NoRetractions: g.rng.Intn(2) == 0}
}

func (g *valueGen) genRecordFor(s physical.Schema) execution.Record {
	vals := make([]octosql.Value, len(s.Fields))
	for i := range vals {
		vals[i] = g.genValueOf(s.Fields[i].Type, 2)
	}
	var et time.Time
	if g.rng.Intn(3) > 0 {
		et = g.genTime()
	}
	return execution.NewRecord(vals, !s.NoRetractions && g.rng.Intn(3) == 0, et)
}

func (g *valueGen) genPhysCtx(frames int) *physical.VariableContext {
	var out *physical.VariableContext
	for i := 0; i < frames; i++ {
		n := g.rng.Intn(5)
		fields := make([]physical.SchemaField, n)
		for j := range fields {
			fields[j] = physical.SchemaField{Name: g.genFieldName(j), Type: g.genType(2)}
		}
		out = &physical.VariableContext{Parent: out, Fields: fields}
	}
	return out
}

// genExecCtxFor: values inhabiting the physical context's types, frame by frame.
func (g *valueGen) genExecCtxFor(p *physical.VariableContext) *execution.VariableContext {
	if p == nil {
		return nil
	}
	vals := make([]octosql.Value, len(p.Fields))
	for i := range vals {
		vals[i] = g.genValueOf(p.Fields[i].Type, 2)
	}
	return &execution.VariableContext{Parent: g.genExecCtxFor(p.Parent), Values: vals}
}

// ---------------------------------------------------------------------------------------------
// properties of generated data used for classification

func valueHasInvalidUTF8(v octosql.Value) bool {
	if !utf8.ValidString(v.Str) {
		return true
	}
	for _, l := range [][]octosql.Value{v.List, v.Struct, v.Tuple} {
		for i := range l {
			if valueHasInvalidUTF8(l[i]) {
				return true
			}
		}
	}
	return false
}

func valuesHaveInvalidUTF8(vs []octosql.Value) bool {
	for i := range vs {
		if valueHasInvalidUTF8(vs[i]) {
			return true
		}
	}
	return false
}

func valueDepth(v octosql.Value) int {
	d := 0
	for _, l := range [][]octosql.Value{v.List, v.Struct, v.Tuple} {
		for i := range l {
			if x := valueDepth(l[i]) + 1; x > d {
				d = x
			}
		}
	}
	return d
}

func typeHasKind(t octosql.Type, id octosql.TypeID) bool {
	if t.TypeID == id {
		return true
	}
	if t.List.Element != nil && typeHasKind(*t.List.Element, id) {
		return true
	}
	for _, f := range t.Struct.Fields {
		if typeHasKind(f.Type, id) {
			return true
		}
	}
	for _, e := range t.Tuple.Elements {
		if typeHasKind(e, id) {
			return true
		}
	}
	for _, a := range t.Union.Alternatives {
		if typeHasKind(a, id) {
			return true
		}
	}
	return false
}

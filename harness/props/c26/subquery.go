package c26

import (
	"fmt"
	"strings"

	"github.com/cube2222/octosql/plugins/verifharness/core"
)

// WHERE clauses that mix pushable conjuncts with conjuncts holding a subquery expression. The
// plugin client cannot serialise a subquery, so it holds such predicates back during the pushdown
// negotiation and must hand them back as rejected: if they vanish (neither rejected nor pushed
// down) the optimizer drops them and the plugin-served query silently returns extra rows. Every
// shape runs against the accepting plugin table and against `testplugin.t?pushdown=false`.

var subqueryConjuncts = []string{
	"t.a < (SELECT AVG(v.lim) FROM u.json v)[0] + 3.0",             // scalar subquery
	"t.k IN (SELECT v.k FROM u.json v WHERE v.lim > 2.0)",          // IN (SELECT ...)
	"t.k NOT IN (SELECT v.k FROM u.json v WHERE v.lim < 4.0)",      // NOT IN (SELECT ...)
	"t.a > (SELECT MAX(v.lim) FROM u.json v WHERE v.k = t.k)[0]",   // correlated
	"(t.b OR t.k IN (SELECT v.k FROM u.json v WHERE v.lim > 4.0))", // subquery inside an OR
	"len((SELECT v.k FROM u.json v WHERE v.k = t.k)) = 1",          // correlated, list-valued
}

var subqueryShapes = []struct {
	name    string
	tmpl    string // %[1]s = table expression, %[2]s = WHERE clause
	ordered bool
}{
	{"where", "SELECT * FROM %[1]s t WHERE %[2]s", false},
	{"projection", "SELECT t.s, t.a FROM %[1]s t WHERE %[2]s", false},
	{"where-limit", "SELECT t.a, t.s, t.k FROM %[1]s t WHERE %[2]s LIMIT 5", true},
	{"group-by", "SELECT t.k, COUNT(*) AS c FROM %[1]s t WHERE %[2]s GROUP BY t.k", false},
	{"stream-join", "SELECT u.name, t.a, t.s FROM %[1]s t JOIN u.json u ON t.k = u.k WHERE %[2]s", false},
	{"lookup-join", "SELECT u.name, t.a, t.s FROM u.json u LOOKUP JOIN %[1]s t ON t.k = u.k WHERE %[2]s", false},
	{"subquery-source", "SELECT x.a, x.s FROM (SELECT * FROM %[1]s t WHERE %[2]s) x WHERE x.a > 1.0", false},
}

func subqueryCLIQueries(c *core.Ctx) []cliQuery {
	var out []cliQuery
	add := func(shape int, where, key string, k int) {
		sh := subqueryShapes[shape]
		for _, table := range []string{"testplugin.t", "`testplugin.t?pushdown=false`"} {
			variant := "accept"
			if strings.Contains(table, "pushdown=false") {
				variant = "reject"
			}
			out = append(out, cliQuery{
				id:      fmt.Sprintf("cli-subq-%d-%d-%s", c.Seed, k, variant),
				tmpl:    strings.Replace(strings.Replace(sh.tmpl, "%[1]s", "%s", 1), "%[2]s", where, 1),
				shape:   "subquery/" + sh.name + "/" + variant,
				ordered: sh.ordered,
				key:     key,
				table:   table,
			})
		}
	}
	k := 0
	// fixed part: every subquery conjunct with a plain pushable conjunct in front / behind / on
	// both sides, and alone (control), in the single-table shape; then every shape once
	for _, sq := range subqueryConjuncts {
		add(0, "t.a > 2.0 AND "+sq, "", k)
		k++
		add(0, sq+" AND t.s != 'a'", "", k)
		k++
		add(0, "t.a > 1.0 AND "+sq+" AND t.k < 4.0", "", k)
		k++
		add(0, sq, "", k)
		k++
	}
	for si := range subqueryShapes {
		for qi, sq := range subqueryConjuncts {
			// a lookup join re-runs its right side, subquery included, for every left row: natively
			// already seconds per query, so only the two uncorrelated conjuncts go under it
			if (si+qi)%2 == 0 && (subqueryShapes[si].name != "lookup-join" || qi < 2) || subqueryShapes[si].name == "lookup-join" && qi < 2 {
				add(si, "t.a > 2.0 AND "+sq, "", k)
			}
			k++
		}
	}
	// seeded part: generated pushable conjuncts (subject to their own known findings)
	n := c.Pick(12, 160)
	for i := 0; i < n; i++ {
		rng := c.Rng(fmt.Sprintf("cli-subq-%d", i))
		p := genCLIPred(rng, 1)
		sq := subqueryConjuncts[rng.Intn(len(subqueryConjuncts))]
		where := p.sql + " AND " + sq
		if rng.Intn(2) == 0 {
			where = sq + " AND " + p.sql
		}
		shape := rng.Intn(len(subqueryShapes))
		if subqueryShapes[shape].name == "lookup-join" {
			shape = 0
		}
		add(shape, where, p.key, k)
		k++
	}
	return out
}

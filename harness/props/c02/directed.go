package c02

import (
	"github.com/cube2222/octosql/plugins/verifharness/joinref"
)

// Directed cases: one fixed witness per open finding (DESIGN 2.6: every listed finding keeps a
// deterministic probe that must still reproduce it), plus the same shapes where the code is
// right. They run through exactly the same oracle and attribution as the generated cases.

func tbl(file string, cols []string, rows [][]interface{}) *joinref.Table {
	t := &joinref.Table{File: file, Format: "json"}
	for _, c := range cols {
		ct := joinref.TFloat
		if c == "s" {
			ct = joinref.TStr
		}
		t.Cols = append(t.Cols, joinref.Col{Name: c, T: ct})
	}
	for _, r := range rows {
		var row joinref.Row
		for _, v := range r {
			switch x := v.(type) {
			case nil:
				row = append(row, joinref.Null)
			case int:
				row = append(row, joinref.Num(float64(x)))
			case float64:
				row = append(row, joinref.Num(x))
			case string:
				row = append(row, joinref.Str(x))
			}
		}
		t.Rows = append(t.Rows, row)
	}
	return t
}

func leafOf(slot int, alias string, t *joinref.Table) *joinref.Leaf {
	return &joinref.Leaf{Slot: slot, Alias: alias, T: t, Cols: t.StarOrder()}
}

func cref(l *joinref.Leaf, name string) *joinref.ColRef {
	ci := l.T.ColIdx(name)
	return &joinref.ColRef{Alias: l.Alias, Name: name, Slot: l.Slot, Idx: ci, T: l.T.Cols[ci].T}
}

type directedCase struct {
	name string
	cs   *joinref.Case
	cfg  runCfg
}

func twoTable(kind joinref.JoinKind, l, r *joinref.Table, class string) (*joinref.Case, *joinref.Leaf, *joinref.Leaf) {
	a, b := leafOf(0, "a", l), leafOf(1, "b", r)
	q := &joinref.Query{NSlots: 2, Limit: -1,
		From: &joinref.Join{Kind: kind, L: a, R: b, On: []joinref.Expr{&joinref.Cmp{Op: "=", L: cref(a, "k1"), R: cref(b, "k1")}}},
		Sel:  []joinref.SelItem{{E: cref(a, "id"), As: "a_id"}, {E: cref(b, "id"), As: "b_id"}},
	}
	cs := &joinref.Case{Tables: []*joinref.Table{l, r}, Q: q, Class: class, Feat: []string{"directed"}, UniqueRows: true}
	if r.Stdin {
		cs.Stdin = r
	}
	if l.Stdin {
		cs.Stdin = l
	}
	return cs, a, b
}

func directed() []directedCase {
	var out []directedCase
	cols := []string{"id", "k1", "s"}
	L := func() *joinref.Table {
		return tbl("t0.json", cols, [][]interface{}{{1, 1, "x"}, {2, nil, "y"}, {3, 2, nil}, {4, 1, "x"}})
	}
	R := func() *joinref.Table {
		return tbl("t1.json", cols, [][]interface{}{{20, 1, "x"}, {21, nil, "y"}, {22, 2, nil}})
	}
	// (a)/(b): NULL keys on both sides
	for _, k := range []joinref.JoinKind{joinref.Inner, joinref.Left, joinref.Right, joinref.Full, joinref.Lookup} {
		for _, opt := range []bool{true, false} {
			cs, _, _ := twoTable(k, L(), R(), "directed")
			out = append(out, directedCase{"nullkeys-" + k.String(), cs, runCfg{mode: "stream_native", opt: opt, procs: 2}})
		}
	}
	// NULL keys on one side only: nothing may match them, the code is right here
	for _, k := range []joinref.JoinKind{joinref.Inner, joinref.Left, joinref.Right, joinref.Full} {
		r := tbl("t1.json", cols, [][]interface{}{{20, 1, "x"}, {22, 2, nil}, {23, 3, "z"}})
		cs, _, _ := twoTable(k, L(), r, "directed")
		out = append(out, directedCase{"nullkeys-one-side-" + k.String(), cs, runCfg{mode: "batch_table", opt: true, procs: 2}})
	}
	// (c) paced stdin: 140 right rows with k1=2 arrive with the two left rows, the only k1=1 right
	// row arrives 300 ms later. LEFT JOIN: (1,NULL) is emitted, then retracted for (1,500).
	mk := func() (*joinref.Case, *joinref.Leaf, *joinref.Leaf) {
		l := tbl("t0.json", []string{"id", "k1"}, [][]interface{}{{1, 1}, {2, 2}})
		var rows [][]interface{}
		for i := 0; i < 140; i++ {
			rows = append(rows, []interface{}{20 + i, 2})
		}
		rows = append(rows, []interface{}{500, 1})
		r := tbl("stdin.json", []string{"id", "k1"}, rows)
		r.Stdin = true
		cs, a, b := twoTable(joinref.Left, l, r, "stdin-slow")
		cs.FirstChunk = 140
		return cs, a, b
	}
	for _, mode := range []string{"json", "csv", "stream_native", "batch_table"} {
		cs, _, _ := mk()
		out = append(out, directedCase{"paced-left-join", cs, runCfg{mode: mode, opt: true, procs: 2}})
	}
	for _, mode := range []string{"json", "batch_table", "stream_native"} {
		cs, _, _ := mk()
		cs.Q.Limit = 1
		out = append(out, directedCase{"paced-left-join-limit", cs, runCfg{mode: mode, opt: true, procs: 2}})
		cs2, _, _ := mk()
		cs2.Q.Limit = 1
		cs2.Q.OrderBy = []joinref.OrderItem{{Sel: 1}}
		out = append(out, directedCase{"paced-left-join-orderby-limit", cs2, runCfg{mode: mode, opt: true, procs: 2}})
		cs3, _, _ := mk()
		cs3.Q.OrderBy = []joinref.OrderItem{{Sel: 1, Desc: true}}
		out = append(out, directedCase{"paced-left-join-orderby", cs3, runCfg{mode: mode, opt: true, procs: 2}})
	}
	return out
}

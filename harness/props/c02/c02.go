// Package c02: join results match relational join semantics, whichever input finishes first.
//
// R: inner / LOOKUP / LEFT / RIGHT / OUTER join output != nested-loop reference join with Kleene
// 3VL (an equality never matches NULL keys; an unmatched outer row appears exactly once, padded
// with NULLs).
// O: joinref (own evaluator, imports nothing from octosql); outer joins are judged on the
// consolidated output (signed sum of -o stream_native, or -o batch_table), inner joins in every
// output mode (DESIGN §3.4).
// W: CLI; 2-3 generated JSON-lines/CSV files with few distinct keys, NULL and duplicate keys;
// 1-3 equality conjuncts, theta conjuncts (inner/lookup), WHERE, nested joins, subquery sides,
// comma joins. "Whichever input finishes first": size asymmetry (1-3 rows vs thousands, both
// ways round), one side on stdin in paced chunks (the file side ends first) or a tiny stdin
// against a big file (stdin ends first), GOMAXPROCS in {1,2,16}, optimizer on/off.
package c02

import (
	"encoding/json"
	"fmt"
	"os"
	"sort"
	"strconv"
	"strings"
	"sync/atomic"
	"time"

	"github.com/cube2222/octosql/plugins/verifharness/cli"
	"github.com/cube2222/octosql/plugins/verifharness/core"
	"github.com/cube2222/octosql/plugins/verifharness/joinref"
)

func init() { core.Register("C02", Run) }

// finding keys (documented in findings.d/C02.json)
const (
	kNullStream = "nullkey-stream-join-match"
	kNullOuter  = "nullkey-outer-join-match"
	kRawJSONCSV = "outer-join-json-csv-raw-changelog"
	kLimitRaw   = "outer-join-limit-on-raw-changelog"
	kOrderLimit = "outer-join-orderby-limit-wrong-first-n"
)

type runCfg struct {
	mode  string
	opt   bool
	procs int
}

func (r runCfg) String() string {
	return fmt.Sprintf("%s/opt=%v/procs=%d", r.mode, r.opt, r.procs)
}

func hasOuter(q *joinref.Query) bool {
	for _, k := range joinref.JoinKinds(q.From) {
		if k.IsOuter() {
			return true
		}
	}
	return false
}

// paddedLike: the row has all its output columns of the NULL-supplying side of some outer join
// of the query NULL (the shape of a row the outer join emits and may retract later).
func paddedLike(q *joinref.Query, row []joinref.Val) bool {
	outCols := q.OutCols()
	var rec func(f joinref.From) bool
	allNull := func(side joinref.From) bool {
		s := map[int]bool{}
		side.SlotSet(s)
		for i, sl := range outCols {
			if sl >= 0 && s[sl] && i < len(row) && !row[i].IsNull() {
				return false
			}
		}
		return true
	}
	rec = func(f joinref.From) bool {
		j, ok := f.(*joinref.Join)
		if !ok {
			return false
		}
		if (j.Kind == joinref.Left || j.Kind == joinref.Full) && allNull(j.R) {
			return true
		}
		if (j.Kind == joinref.Right || j.Kind == joinref.Full) && allNull(j.L) {
			return true
		}
		return rec(j.L) || rec(j.R)
	}
	return rec(q.From)
}

func minInt(a, b int) int {
	if a < b {
		return a
	}
	return b
}

// orderKeyCmp compares two output rows by the ORDER BY keys.
func orderKeyCmp(q *joinref.Query, a, b []joinref.Val) int {
	for _, o := range q.OrderBy {
		c := joinref.Compare(a[o.Sel], b[o.Sel])
		if o.Desc {
			c = -c
		}
		if c != 0 {
			return c
		}
	}
	return 0
}

// matches is the oracle proper: does the decoded output satisfy the statement for expectation exp.
func matches(q *joinref.Query, mode string, out joinref.Output, exp [][]joinref.Val) (bool, string) {
	expBag := joinref.BagOf(exp)
	got := out.Consolidated()
	if got.HasNegative() {
		return false, "a row is retracted more often than inserted"
	}
	switch {
	case len(q.OrderBy) == 0 && q.Limit < 0:
		if got.Equal(expBag) {
			return true, ""
		}
		return false, fmt.Sprintf("surplus %s; missing %s", got.Minus(expBag), expBag.Minus(got))
	case len(q.OrderBy) == 0:
		want := minInt(q.Limit, expBag.Size())
		if got.Size() != want {
			return false, fmt.Sprintf("LIMIT %d over %d rows printed %d rows", q.Limit, expBag.Size(), got.Size())
		}
		if extra := got.Minus(expBag); len(extra) > 0 {
			return false, "rows not in the join: " + extra.String()
		}
		return true, ""
	}
	// ORDER BY [LIMIT]: the printed sequence must be sorted; retraction records cannot appear
	if out.Retractions() > 0 {
		return false, "retraction records under ORDER BY"
	}
	for i := 1; i < len(out.Rows); i++ {
		if orderKeyCmp(q, out.Rows[i-1], out.Rows[i]) > 0 {
			return false, fmt.Sprintf("not sorted at printed row %d", i+1)
		}
	}
	if extra := got.Minus(expBag); len(extra) > 0 {
		return false, "rows not in the join: " + extra.String()
	}
	if q.Limit < 0 {
		if !got.Equal(expBag) {
			return false, "missing " + expBag.Minus(got).String()
		}
		return true, ""
	}
	want := minInt(q.Limit, expBag.Size())
	if got.Size() != want {
		return false, fmt.Sprintf("ORDER BY LIMIT %d over %d rows printed %d rows", q.Limit, expBag.Size(), got.Size())
	}
	if want == 0 {
		return true, ""
	}
	// tie-tolerant: every expected row strictly before the boundary key must be printed
	last := out.Rows[len(out.Rows)-1]
	for _, r := range exp {
		if orderKeyCmp(q, r, last) < 0 {
			k := joinref.RowKey(r)
			if got[k] < expBag[k] {
				return false, "a row sorting before the last printed row is missing: " + strings.ReplaceAll(k, "\x1f", ",")
			}
		}
	}
	return true, ""
}

// relaxed rules: each describes exactly what one known finding rooted in OuterJoin's wrong
// NoRetractions flag (or the json/csv design limit) makes of expectation exp.
func relaxed(q *joinref.Query, mode string, out joinref.Output, exp [][]joinref.Val) (string, bool) {
	if !hasOuter(q) {
		return "", false
	}
	expBag := joinref.BagOf(exp)
	rowOf := map[string][]joinref.Val{}
	for _, r := range out.Rows {
		rowOf[joinref.RowKey(r)] = r
	}
	switch {
	case len(q.OrderBy) == 0 && q.Limit < 0 && (mode == "json" || mode == "csv"):
		// the raw changelog printed as rows: every retracted record shows up twice
		raw := joinref.BagOf(out.Rows)
		if len(expBag.Minus(raw)) > 0 {
			return "", false
		}
		for k, n := range raw.Minus(expBag) {
			if n%2 != 0 || !paddedLike(q, rowOf[k]) {
				return "", false
			}
		}
		return kRawJSONCSV, true
	case len(q.OrderBy) == 0 && q.Limit >= 0:
		// Limit node counting changelog records: at most n records, each a join row or a padded row
		if len(out.Rows) > q.Limit {
			return "", false
		}
		for _, r := range out.Rows {
			if expBag[joinref.RowKey(r)] == 0 && !paddedLike(q, r) {
				return "", false
			}
		}
		return kLimitRaw, true
	case len(q.OrderBy) > 0 && q.Limit >= 0:
		// pruning with DeleteMax although padded rows are retracted later: a sorted sub-multiset of
		// the join, at most n rows, but not the first n
		if out.Retractions() > 0 || len(out.Rows) > q.Limit {
			return "", false
		}
		for i := 1; i < len(out.Rows); i++ {
			if orderKeyCmp(q, out.Rows[i-1], out.Rows[i]) > 0 {
				return "", false
			}
		}
		if len(joinref.BagOf(out.Rows).Minus(expBag)) > 0 {
			return "", false
		}
		return kOrderLimit, true
	}
	return "", false
}

func classFor(i int) string {
	switch i % 10 {
	case 0, 1, 2, 3, 4:
		return "small"
	case 5:
		return "asym-left"
	case 6:
		return "asym-right"
	case 7, 8:
		return "stdin-slow"
	default:
		return "stdin-fast"
	}
}

func Run(c *core.Ctx) core.FinishOpts {
	applyReplay(c)
	nCases := c.Pick(300, 6000)
	if v, err := strconv.Atoi(os.Getenv("VERIF_MAXCASES")); err == nil && v > 0 && v < nCases {
		// development aid on an overloaded machine: run only a prefix of the tier's case list
		nCases = v
		c.Note("case_list_truncated_to", v)
	}
	big := c.Pick(1500, 3000)
	selftest := os.Getenv("VERIF_SELFTEST") == "1"
	runner := cli.NewRunner(c.BinDir, c.Scratch)

	rejected := int64(0)
	dir := directed()
	core.Parallel(len(dir), 8, func(i int) {
		id := fmt.Sprintf("d%d-%s", i, dir[i].name)
		if c.Only != "" && c.Only != id {
			return
		}
		d := dir[i]
		one(c, runner, id, d.cs, d.cfg, d.cs.Q.Eval(joinref.Defect{}), 1<<30, false, &rejected)
		c.Count("directed_cases", 1)
	})
	core.Parallel(nCases, 16, func(i int) {
		if c.Only != "" && !strings.HasPrefix(c.Only, fmt.Sprintf("c%d/", i)) && c.Only != fmt.Sprintf("c%d", i) {
			return
		}
		rng := c.Rng(fmt.Sprintf("case-%d", i))
		cs := joinref.Gen(rng, joinref.GenOpts{Class: classFor(i), Big: big})
		q := cs.Q
		outer := hasOuter(q)
		var runs []runCfg
		for r := 0; r < 2; r++ {
			var mode string
			if outer {
				mode = []string{"stream_native", "batch_table", "json", "csv"}[pickW(rng.Float64(), 0.45, 0.35, 0.1, 0.1)]
			} else {
				mode = []string{"json", "csv", "stream_native", "batch_table"}[rng.Intn(4)]
			}
			runs = append(runs, runCfg{mode: mode, opt: rng.Intn(4) != 0, procs: []int{1, 2, 16}[rng.Intn(3)]})
		}
		if runs[1] == runs[0] {
			runs[1].procs = map[int]int{1: 16, 2: 1, 16: 2}[runs[1].procs]
		}
		exp0 := q.Eval(joinref.Defect{})
		// reference self-check: the conjunct threading used by the defect model must not change
		// the reference semantics
		prod := 1
		for _, t := range cs.Tables {
			prod *= len(t.Rows)
		}
		if prod <= 200000 {
			if !joinref.BagOf(exp0).Equal(joinref.BagOf(q.EvalPlain())) {
				c.Violation("harness-reference-selfcheck", "Eval(Defect{}) != EvalPlain()", cs.Describe())
				return
			}
		}
		// coverage of the NULL-key input predicate (stays meaningful after the findings are fixed)
		if !joinref.BagOf(q.Eval(joinref.Defect{InnerKeys: true, OuterKeys: true})).Equal(joinref.BagOf(exp0)) {
			c.Count("inputs_with_null_on_both_sides_of_a_key_conjunct", 1)
		}
		for r, cfg := range runs {
			if cfg.mode == "batch_table" && len(exp0) > 2500 {
				cfg.mode = "stream_native" // the table printer needs tens of seconds for large outputs
			}
			id := fmt.Sprintf("c%d/%d", i, r)
			if c.Only != "" && c.Only != id && c.Only != fmt.Sprintf("c%d", i) {
				continue
			}
			one(c, runner, id, cs, cfg, exp0, prod, selftest && i%25 == 3, &rejected)
		}
	})
	if ev := c.Evaluations(); ev > 0 {
		rj := atomic.LoadInt64(&rejected)
		c.Note("rejected_fraction", float64(rj)/float64(ev+rj))
		if float64(rj) > 0.15*float64(ev+rj) {
			c.Inconclusive("too-many-rejected")
		}
	}
	return core.FinishOpts{
		Level: "exploration",
		Rule: "cases = seeded random (2-3 JSON-lines/CSV tables with few distinct keys, NULL keys, duplicate keys and rows; inner/LOOKUP/LEFT/RIGHT/OUTER joins with 1-3 equality conjuncts, " +
			"theta conjuncts, WHERE, nested joins, subquery sides) x 2 runs (output mode, optimizer flag, GOMAXPROCS) under schedule classes small / asymmetric sizes / paced stdin / tiny stdin; " +
			"non-trivial = every input non-empty, reference output non-empty and smaller than the cross product (some pair matches, some does not); distinct by (SQL, input files, run configuration)",
		Floor: c.Pick(150, 3000),
		Assumptions: []string{
			"oracle: joinref nested-loop evaluator with Kleene 3VL (own code, no octosql imports), cross-checked against a second straight-line implementation on every case",
			"decoders of package cli; outer joins judged on consolidated stream_native / batch_table output (DESIGN 3.4)",
			"which input finishes first is driven (sizes, paced stdin, GOMAXPROCS) but not observed at CLI level; exact close orders are C19's",
		},
	}
}

var dbgRejected int64

func pickW(x float64, w ...float64) int {
	t := 0.0
	for _, v := range w {
		t += v
	}
	x *= t
	for i, v := range w {
		if x < v {
			return i
		}
		x -= v
	}
	return len(w) - 1
}

func one(c *core.Ctx, runner *cli.Runner, id string, cs *joinref.Case, cfg runCfg, exp0 [][]joinref.Val, prod int, corrupt bool, rejected *int64) {
	q := cs.Q
	sql := q.SQL()
	args := []string{sql, "-o", cfg.mode}
	if !cfg.opt {
		args = append(args, "--optimize=false")
	}
	run := cli.Run{Args: args, Files: cs.Files(), Env: []string{fmt.Sprintf("GOMAXPROCS=%d", cfg.procs)}}
	if cs.Stdin != nil {
		if cs.Class == "stdin-slow" {
			run.StdinChunks = cs.StdinChunks(3)
			run.ChunkPause = 40 * time.Millisecond
			if cs.Feat[0] == "directed" {
				run.StdinChunks = cs.StdinChunks(1)
				run.ChunkPause = 300 * time.Millisecond
			}
		} else {
			run.StdinChunks = [][]byte{cs.Stdin.Bytes()}
		}
	}
	res := runner.Exec(run)
	if res.Dur > 4*time.Second {
		fmt.Fprintf(os.Stderr, "SLOW %s %.1fs %v class=%s :: %s\n", id, res.Dur.Seconds(), args[1:], cs.Class, sql)
	}
	replay := cs.Describe()
	replay["id"] = id
	replay["args"] = args
	replay["env"] = run.Env
	replay["exit"] = res.Exit
	replay["stderr"] = trunc(string(res.Stderr), 1500)
	replay["stdout"] = trunc(string(res.Stdout), 3000)
	if res.TimedOut {
		fmt.Fprintf(os.Stderr, "WATCHDOG %s %v :: %s\n%s\n", id, args[1:], sql, trunc(string(res.Stderr), 6000))
		c.Inconclusive("watchdog")
		return
	}
	if res.Panicked() {
		site, msg := res.PanicSite()
		c.Eval(1)
		key := "panic:" + site
		if strings.HasPrefix(site, "outputs/batch/live_output.go") && !(hasOuter(q) && q.Limit >= 0 && len(q.OrderBy) > 0 && cfg.mode == "batch_table") {
			// the listed finding is: ORDER BY + LIMIT above an outer join printed by the table printer
			key += "/without-outer-join-orderby-limit"
		}
		c.Violation(key, "octosql crashed: "+msg, replay)
		return
	}
	if res.Exit != 0 {
		se := string(res.Stderr)
		if strings.Contains(se, "typecheck error") || strings.Contains(se, "couldn't parse query") || strings.Contains(se, "couldn't parse") {
			if atomic.AddInt64(&dbgRejected, 1) <= 40 {
				fmt.Fprintf(os.Stderr, "REJECTED %s %s :: %s\n", id, firstLine(se), sql)
			}
			c.Count("rejected_not_judged", 1)
			c.Count("rejected/"+firstLine(se), 1)
			atomic.AddInt64(rejected, 1)
			return
		}
		c.Eval(1)
		c.Violation("join-query-failed", "well-defined join query failed: "+firstLine(se), replay)
		return
	}
	c.Eval(1)
	out, err := joinref.Decode(cfg.mode, res.Stdout)
	if err != nil {
		c.Violation("undecodable-output", err.Error(), replay)
		return
	}
	if corrupt && len(out.Rows) > 0 {
		// self-test: drop one printed row; the oracle must notice
		out.Rows, out.Sign = out.Rows[1:], out.Sign[1:]
	}
	replay["expected"] = joinref.BagOf(exp0).String()
	outer := hasOuter(q)
	for _, k := range joinref.JoinKinds(q.From) {
		c.Count("join/"+k.String(), 1)
	}
	c.Count("mode/"+cfg.mode, 1)
	c.Count("class/"+cs.Class, 1)
	c.Count(fmt.Sprintf("gomaxprocs/%d", cfg.procs), 1)
	c.Count(fmt.Sprintf("optimize/%v", cfg.opt), 1)
	c.Count(fmt.Sprintf("tables/%d", len(cs.Tables)), 1)
	for _, f := range cs.Feat {
		c.Count("feature/"+f, 1)
	}
	if out.Retractions() > 0 {
		c.Count("runs_with_retraction_records", 1)
	}
	nonEmpty := true
	for _, t := range cs.Tables {
		if len(t.Rows) == 0 {
			nonEmpty = false
		}
	}
	if nonEmpty && len(exp0) > 0 && len(exp0) != prod {
		c.Nontrivial(core.Hash(sql, fileHash(cs), cfg.String()))
		c.Count("nontrivial", 1)
	}
	hasPadded := false
	if outer {
		for _, r := range exp0 {
			if paddedLike(q, r) {
				hasPadded = true
				break
			}
		}
		if hasPadded {
			c.Count("outer_with_padded_rows_expected", 1)
		}
	}
	c.Sample(map[string]interface{}{"id": id, "sql": sql, "run": cfg.String(), "class": cs.Class, "rows_expected": len(exp0), "rows_printed": len(out.Rows)})

	ok, why := matches(q, cfg.mode, out, exp0)
	if ok {
		c.Count("held", 1)
		return
	}
	// ---- attribution: only to findings whose input predicate holds and whose symptom is exact
	type cand struct {
		keys []string
		exp  [][]joinref.Val
	}
	cands := []cand{{nil, exp0}}
	bag0 := joinref.BagOf(exp0)
	dOut := joinref.Defect{OuterKeys: true}
	dIn := joinref.Defect{InnerKeys: cfg.opt}
	dBoth := joinref.Defect{OuterKeys: true, InnerKeys: cfg.opt}
	var eOut, eIn [][]joinref.Val
	if outer {
		eOut = q.Eval(dOut)
		if !joinref.BagOf(eOut).Equal(bag0) { // predicate: NULL on both sides of an outer-join key
			cands = append(cands, cand{[]string{kNullOuter}, eOut})
		}
	}
	if cfg.opt {
		eIn = q.Eval(dIn)
		if !joinref.BagOf(eIn).Equal(bag0) { // predicate: NULL on both sides of an extracted stream-join key
			cands = append(cands, cand{[]string{kNullStream}, eIn})
		}
	}
	if outer && cfg.opt {
		eBoth := q.Eval(dBoth)
		bb := joinref.BagOf(eBoth)
		if !bb.Equal(bag0) && !bb.Equal(joinref.BagOf(eOut)) && !bb.Equal(joinref.BagOf(eIn)) {
			cands = append(cands, cand{[]string{kNullOuter, kNullStream}, eBoth})
		}
	}
	for ci, cd := range cands {
		if ci > 0 {
			if m, _ := matches(q, cfg.mode, out, cd.exp); m {
				for _, k := range cd.keys {
					c.Violation(k, fmt.Sprintf("join output equals the join with NULL = NULL on the key conjuncts, not the SQL join (%s)", why), replay)
				}
				return
			}
		}
		if k, m := relaxed(q, cfg.mode, out, cd.exp); m {
			for _, kk := range append([]string{k}, cd.keys...) {
				c.Violation(kk, "outer join above a consumer that trusts NoRetractions: "+why, replay)
			}
			return
		}
	}
	key := "join-mismatch/" + kindsKey(q)
	c.Violation(key, fmt.Sprintf("%s output of %s differs from the reference join: %s", cfg.mode, kindsKey(q), why), replay)
}

func kindsKey(q *joinref.Query) string {
	seen := map[string]bool{}
	var ks []string
	for _, k := range joinref.JoinKinds(q.From) {
		if !seen[k.String()] {
			seen[k.String()] = true
			ks = append(ks, k.String())
		}
	}
	sort.Strings(ks)
	return strings.Join(ks, "+")
}

func fileHash(cs *joinref.Case) string {
	parts := []interface{}{}
	for _, t := range cs.Tables {
		parts = append(parts, t.File, len(t.Rows), string(t.Encode(0, minInt(len(t.Rows), 60))))
	}
	return core.Hash(parts...)
}

func trunc(s string, n int) string {
	if len(s) > n {
		return s[:n] + fmt.Sprintf("... (%d bytes)", len(s))
	}
	return s
}

func firstLine(s string) string {
	for _, l := range strings.Split(s, "\n") {
		if strings.HasPrefix(l, "Error:") {
			return trunc(l, 160)
		}
	}
	return trunc(strings.SplitN(s, "\n", 2)[0], 160)
}

// applyReplay makes `--replay <file>` re-execute exactly the recorded case: seed, tier and case id
// are taken from the replay file (case ids are a function of (seed, tier, index)).
func applyReplay(c *core.Ctx) {
	if c.Replay == "" {
		return
	}
	data, err := os.ReadFile(c.Replay)
	if err != nil {
		fmt.Fprintln(os.Stderr, "cannot read replay file:", err)
		return
	}
	var r struct {
		Seed int64  `json:"seed"`
		Tier string `json:"tier"`
		Case struct {
			ID string `json:"id"`
		} `json:"case"`
	}
	if err := json.Unmarshal(data, &r); err != nil || r.Case.ID == "" {
		fmt.Fprintln(os.Stderr, "replay file has no case id")
		return
	}
	c.Seed, c.Tier, c.Only = r.Seed, r.Tier, r.Case.ID
}

// Package c05: LIMIT and ORDER BY behave identically in every output mode and nesting.
//
// R: row count != min(n, rows), or with ORDER BY the printed rows are not a valid "first n" of the
// sort order (duplicates counted individually), in any output mode or placement.
// O: sqlref.Judge: count, sortedness (top level only) and the tie-tolerant prefix rule of DESIGN
// §3.2 (every row strictly before the boundary key present, the rest from the boundary tie group);
// without ORDER BY count and sub-multiset membership.
// W: CLI. Exhaustive product n in 0..12 and 1000 x 5 output modes x 6 placements (top level, FROM
// subquery, WITH, under a join, top level over a retracting TRIGGER COUNTING group-by, nested over
// it) x ORDER BY variants x 7 fixed row multisets with heavy duplication; thorough adds a third
// ORDER BY variant and seeded random multisets.
package c05

import (
	"fmt"
	"os"
	"strings"

	"github.com/cube2222/octosql/plugins/verifharness/cli"
	"github.com/cube2222/octosql/plugins/verifharness/core"
	"github.com/cube2222/octosql/plugins/verifharness/sqlref"
	"github.com/cube2222/octosql/plugins/verifharness/sqlrun"
)

func init() { core.Register("C05", Run) }

var modes = []string{sqlrun.Live, sqlrun.Batch, sqlrun.CSV, sqlrun.JSON, sqlrun.Native}

var placements = []string{"top", "from-subquery", "with", "under-join", "top-over-retracting", "nested-over-retracting"}

// order variants: "" none, "partial" ORDER BY x (ties differ in y), "total" ORDER BY x DESC, y
var ordersQuick = []string{"none", "total"}
var ordersThorough = []string{"none", "total", "partial"}

func iv(i int64) sqlref.Value { return sqlref.Int(i) }

var null = sqlref.Null()

func rep(r sqlref.Row, n int) []sqlref.Row {
	var out []sqlref.Row
	for i := 0; i < n; i++ {
		out = append(out, r)
	}
	return out
}

func cat(parts ...[]sqlref.Row) []sqlref.Row {
	var out []sqlref.Row
	for _, p := range parts {
		out = append(out, p...)
	}
	return out
}

func row(a, b sqlref.Value) sqlref.Row { return sqlref.Row{a, b} }

var twoInt = []sqlref.Column{{Name: "a", T: sqlref.TInt}, {Name: "b", T: sqlref.TInt}}
var twoNull = []sqlref.Column{{Name: "a", T: sqlref.TNull}, {Name: "b", T: sqlref.TNull}}

// fixedMultisets: empty; one row; one row five times; two values with heavy duplication; NULLs
// and duplicates; 14 rows with key ties whose other column differs and duplicates at every rank;
// 10 rows whose Int sort keys lie more than 2^63 apart.
func fixedMultisets() []*sqlref.Table {
	return []*sqlref.Table{
		sqlref.FixedTable("m0", "csv", twoNull, nil),
		sqlref.FixedTable("m1", "csv", twoInt, []sqlref.Row{row(iv(1), iv(1))}),
		sqlref.FixedTable("m2", "csv", twoInt, rep(row(iv(2), iv(7)), 5)),
		sqlref.FixedTable("m3", "csv", twoInt, cat(rep(row(iv(1), iv(1)), 3), rep(row(iv(2), iv(2)), 4))),
		sqlref.FixedTable("m4", "csv", twoInt, cat(rep(row(null, null), 2), []sqlref.Row{row(null, iv(1))}, rep(row(iv(1), null), 2), []sqlref.Row{row(iv(3), iv(3))})),
		sqlref.FixedTable("m5", "csv", twoInt, []sqlref.Row{
			row(iv(4), iv(4)), row(iv(1), iv(2)), row(iv(6), iv(7)), row(iv(2), iv(1)), row(iv(1), iv(1)), row(iv(2), iv(1)), row(iv(5), iv(0)),
			row(iv(1), iv(2)), row(iv(3), iv(9)), row(iv(6), iv(6)), row(iv(2), iv(1)), row(iv(4), iv(4)), row(iv(5), iv(1)), row(iv(6), iv(6)),
		}),
		// sort keys whose differences do not fit in int64 (a comparator written as a subtraction
		// wraps on them); every value is exactly representable as a float64 too
		sqlref.FixedTable("m6", "csv", twoInt, []sqlref.Row{
			row(iv(-5), iv(1)), row(iv(9000000000000000000), iv(2)), row(iv(3), iv(3)), row(iv(-9000000000000000000), iv(4)), row(iv(1<<62), iv(5)),
			row(iv(-9000000000000000000), iv(4)), row(iv(0), iv(6)), row(iv(9000000000000000000), iv(7)), row(iv(-(1 << 62)), iv(8)), row(iv(3), iv(3)),
		}),
	}
}

var oneFile = map[string][]byte{"one.csv": []byte("u\n1\n")}

type tcase struct {
	id        string
	t         *sqlref.Table
	n         int
	mode      string
	placement string
	order     string
	q         *sqlref.Query
	opts      sqlrun.Opts
}

// build constructs the limited level (always with output columns x, y) and its wrapper.
func build(t *sqlref.Table, n int, placement, order string) (*sqlref.Query, sqlrun.Opts) {
	colT := t.Cols[0].T
	var q *sqlref.Query
	retracting := placement == "top-over-retracting" || placement == "nested-over-retracting"
	if !retracting {
		q = &sqlref.Query{
			From: sqlref.Source{Kind: sqlref.SrcTable, Table: t},
			Items: []sqlref.SelItem{
				{Expr: sqlref.Col(0, "a", colT), Alias: "x"},
				{Expr: sqlref.Col(1, "b", t.Cols[1].T), Alias: "y"},
			},
			Limit: n,
		}
	} else {
		key := sqlref.Col(0, "a", colT)
		g := &sqlref.Query{
			From:     sqlref.Source{Kind: sqlref.SrcTable, Table: t},
			Grouping: true,
			GroupBy:  []*sqlref.Expr{key},
			Items: []sqlref.SelItem{
				{Expr: key, Alias: "k"},
				{Agg: &sqlref.Agg{Fn: "count", Star: true}, Alias: "n"},
				{Agg: &sqlref.Agg{Fn: "count", Arg: sqlref.Col(1, "b", t.Cols[1].T)}, Alias: "m"},
			},
			Trigger: "COUNTING 1",
			Limit:   -1,
		}
		q = &sqlref.Query{
			From: sqlref.Source{Kind: sqlref.SrcSub, Sub: g, Alias: "g"},
			Items: []sqlref.SelItem{
				{Expr: sqlref.Col(1, "g.n", sqlref.TInt), Alias: "x"},
				{Expr: sqlref.Col(2, "g.m", sqlref.TInt), Alias: "y"},
			},
			Limit: n,
		}
	}
	switch order {
	case "partial":
		q.OrderBy = []sqlref.OrderKey{{Col: 0}}
	case "total":
		q.OrderBy = []sqlref.OrderKey{{Col: 0, Desc: true}, {Col: 1}}
	}
	var o sqlrun.Opts
	switch placement {
	case "from-subquery", "nested-over-retracting":
		o.Wrap = "SELECT q.x AS x, q.y AS y FROM (%s) q"
	case "with":
		o.Wrap = "WITH c AS (%s) SELECT x AS x, y AS y FROM c"
	case "under-join":
		o.Wrap = "SELECT q.x AS x, q.y AS y FROM (%s) q JOIN one.csv o ON o.u = 1"
		o.ExtraFiles = oneFile
	}
	return q, o
}

func randomTable(c *core.Ctx, i int) *sqlref.Table {
	rng := c.Rng(fmt.Sprintf("rnd-%d", i))
	nrows := rng.Intn(31)
	if rng.Intn(10) == 0 {
		nrows = 30 + rng.Intn(70)
	}
	distinct := 1 + rng.Intn(4)
	var rows []sqlref.Row
	val := func() sqlref.Value {
		if rng.Intn(5) == 0 {
			return null
		}
		return iv(int64(rng.Intn(distinct)))
	}
	for r := 0; r < nrows; r++ {
		if r > 0 && rng.Intn(100) < 45 {
			rows = append(rows, rows[rng.Intn(r)])
			continue
		}
		rows = append(rows, row(val(), val()))
	}
	cols := twoInt
	if nrows == 0 {
		cols = twoNull
	} else {
		// schema inference needs one non-NULL cell per column
		for col := 0; col < 2; col++ {
			has := false
			for _, r := range rows {
				if !r[col].IsNull() {
					has = true
				}
			}
			if !has {
				nr := append(sqlref.Row{}, rows[0]...)
				nr[col] = iv(0)
				rows[0] = nr
			}
		}
	}
	return sqlref.FixedTable(fmt.Sprintf("r%d", i), "csv", cols, rows)
}

func Run(c *core.Ctx) core.FinishOpts {
	runner := cli.NewRunner(c.BinDir, c.Scratch)
	only := sqlrun.Only(c)
	selftest := os.Getenv("VERIF_SELFTEST") == "1"

	var cases []tcase
	orders := ordersQuick
	if c.Tier == "thorough" {
		orders = ordersThorough
	}
	ns := []int{0, 1, 2, 3, 4, 5, 6, 7, 8, 9, 10, 11, 12, 1000}
	for _, t := range fixedMultisets() {
		for _, pl := range placements {
			for _, ord := range orders {
				for _, n := range ns {
					// quick: all n beyond rows+1 are the same cell ("beyond the row count"); keep
					// rows+1 and 1000 of them (the 14-row multiset still covers every n in 0..12)
					if c.Tier != "thorough" && n > len(t.Rows)+1 && n != 1000 {
						continue
					}
					for _, m := range modes {
						q, o := build(t, n, pl, ord)
						cases = append(cases, tcase{id: fmt.Sprintf("c05-fixed-%s-%s-%s-n%d-%s", t.Name, pl, ord, n, m), t: t, n: n, mode: m, placement: pl, order: ord, q: q, opts: o})
					}
				}
			}
		}
	}
	exhaustive := len(cases)
	R := c.Pick(300, 4000)
	for i := 0; i < R; i++ {
		rng := c.Rng(fmt.Sprintf("rndcase-%d", i))
		t := randomTable(c, i)
		n := rng.Intn(13)
		switch rng.Intn(8) {
		case 0:
			n = len(t.Rows) + rng.Intn(3)
		case 1:
			n = 13 + rng.Intn(40)
		}
		pl := placements[rng.Intn(len(placements))]
		ord := ordersThorough[rng.Intn(3)]
		m := modes[rng.Intn(len(modes))]
		q, o := build(t, n, pl, ord)
		cases = append(cases, tcase{id: sqlrun.CaseID(c, "rnd", i), t: t, n: n, mode: m, placement: pl, order: ord, q: q, opts: o})
	}
	c.Note("exhaustive_cells", exhaustive)
	bound := fmt.Sprintf("n in %v x modes %v x placements %v x ORDER BY variants %v x 6 fixed multisets (0, 1, 5, 7, 6, 14 rows)", ns, modes, placements, orders)
	if c.Tier != "thorough" {
		bound += "; quick tier: per multiset n is 0..min(12, rows+1) and 1000"
	}
	c.Note("exhaustive_bound", bound)

	core.Parallel(len(cases), 16, func(i int) {
		tc := cases[i]
		if only != "" && tc.id != only {
			return
		}
		if selftest && i%97 != 5 {
			return // self-test: only the cases whose recording is corrupted are run
		}
		o := tc.opts
		if selftest && i%97 == 5 {
			// a wrong recording: one printed row too many / too few
			if i%2 == 0 {
				o.Wrong = func(r []sqlref.Row) []sqlref.Row {
					return append(append([]sqlref.Row{}, r...), sqlref.Row{iv(1), iv(1)})
				}
			} else {
				o.Wrong = func(r []sqlref.Row) []sqlref.Row {
					if len(r) == 0 {
						return append(r, sqlref.Row{iv(1), iv(1)})
					}
					return r[1:]
				}
			}
		}
		tables := []*sqlref.Table{tc.t}
		rp := sqlrun.Check(runner, tc.q, tables, tc.mode, o)
		c.Eval(1)
		c.Count("status/"+rp.Status, 1)
		switch rp.Status {
		case "undefined", "ambiguous":
			return
		case "timeout":
			c.Inconclusive("watchdog")
			return
		case "rejected":
			// the fixed templates are known to be accepted: a rejection is a harness/grammar change
			c.Violation("template-rejected", rp.What, sqlrun.Replay(tc.id, tc.q, tables, tc.mode, tc.opts, rp))
			return
		case "violation":
			if rp.Key == sqlrun.KeyLimit0 || rp.Key == sqlrun.KeyDup {
				c.Count(fmt.Sprintf("finding/%s/%s/%s", rp.Key, tc.placement, tc.mode), 1)
			}
			c.Violation(rp.Key, fmt.Sprintf("[%s, %s, ORDER BY %s, LIMIT %d, %d input rows] %s", tc.placement, tc.mode, tc.order, tc.n, len(tc.t.Rows), rp.What), sqlrun.Replay(tc.id, tc.q, tables, tc.mode, tc.opts, rp))
			return
		}
		c.Count("judged/placement/"+tc.placement, 1)
		c.Count("judged/mode/"+tc.mode, 1)
		c.Count("judged/order/"+tc.order, 1)
		full := len(rp.Res.Full)
		switch {
		case tc.n == 0:
			c.Count("judged/n=0", 1)
		case tc.n < full:
			c.Count("judged/n<rows", 1)
		case tc.n == full:
			c.Count("judged/n=rows", 1)
		default:
			c.Count("judged/n>rows", 1)
		}
		if (tc.n < full && full >= 2) || (tc.n == 0 && full >= 1) {
			c.Nontrivial(strings.Join([]string{string(tc.t.FileBytes()), fmt.Sprint(tc.n), tc.mode, tc.placement, tc.order}, "\x00"))
			if sqlref.HasDuplicateRows(rp.Res.Full) {
				c.Count("nontrivial_with_duplicate_rows", 1)
			}
		}
		if only != "" {
			fmt.Printf("judged OK: %s\n", tc.opts.SQL(tc.q))
		}
		c.Sample(map[string]interface{}{"id": tc.id, "sql": tc.opts.SQL(tc.q), "mode": tc.mode, "rows_before_limit": full, "n": tc.n})
	})

	multiEvalCases(c, runner, only, selftest)
	fanoutCases(c, runner, only, selftest)

	return core.FinishOpts{
		Level: "exploration",
		Rule: "cells = LIMIT n over a row multiset, in one output mode, at one placement (top level; inside a FROM subquery; inside a WITH; inside a subquery under a join; top level over a TRIGGER COUNTING group-by; nested over it), with one ORDER BY variant (none / total: x DESC, y / partial: x); " +
			"the product over n in 0..12 and 1000 (quick: per multiset 0..min(12, rows+1) and 1000), the 5 modes, the 6 placements and the 6 fixed multisets is enumerated completely, plus seeded random multisets (300 quick / 4000 thorough; thorough also adds the partial-order variant to the product) (0..100 rows, <= 4 distinct values per column, 45% duplicated rows, NULLs); " +
			"two further placement families in which the limited level is run several times within one query (see multi.go): the joined side of a LOOKUP JOIN under an outer LIMIT, and a subquery expression evaluated per outer row; " +
			"non-trivial = the limit cuts (n < rows >= 2) or n = 0 over a non-empty input; distinct by (table, n, mode, placement, order)",
		Floor:      c.Pick(600, 1500),
		Exhaustive: true,
		Assumptions: []string{
			"oracle: harness/sqlref (standard library only): count = min(n, rows); sortedness at top level; tie-tolerant prefix rule; membership without ORDER BY",
			"nested placements print through an outer SELECT, so only the multiset of the limited level is judged there",
			"attribution to the two known LIMIT defects only when the printed rows are exactly what sqlref's emulation of those defects predicts",
			"cli decoders, Go toolchain",
		},
	}
}

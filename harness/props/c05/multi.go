package c05

import (
	"fmt"
	"strings"

	"github.com/cube2222/octosql/plugins/verifharness/cli"
	"github.com/cube2222/octosql/plugins/verifharness/core"
	"github.com/cube2222/octosql/plugins/verifharness/sqlref"
	"github.com/cube2222/octosql/plugins/verifharness/sqlrun"
)

// Two placement families in which the limited level is RUN SEVERAL TIMES within one query, or
// sits next to another LIMIT whose stop signal it could swallow:
//
//   - "lookup-join": the limited level is the joined side of a LOOKUP JOIN (re-run for every left
//     record) and the join is itself under an outer LIMIT, with and without ORDER BY on either
//     level, printed directly or used as a subquery. Expected: for every left record the rows of
//     a valid "first n" of the inner level; the outer level is then LIMIT N over that product.
//   - "subquery-expression": the limited / ordered level is a subquery expression evaluated once
//     per outer row (2-4 outer rows). Expected: every outer row carries the same list, the first n
//     of the inner order (in that order; without ORDER BY any n rows of the input).
//
// Both are judged by sqlref (inner level evaluated by the reference evaluator; the product and
// the outer LIMIT by sqlref.Judge).

type xcase struct {
	id, family, mode, sql string
	files                 map[string][]byte
	cols                  []sqlref.Column
	judge                 func(got []sqlref.Row) (bool, string)
	nontrivial            bool
	key                   string
}

func idsFile(k int) []byte {
	var sb strings.Builder
	sb.WriteString("id\n")
	for i := 1; i <= k; i++ {
		fmt.Fprintf(&sb, "%d\n", i)
	}
	return []byte(sb.String())
}

var outerKeys = []sqlref.OrderKey{{Col: 0}, {Col: 1, Desc: true}, {Col: 2}}

// lookupCase: SELECT o.id AS i, q.x AS x, q.y AS y FROM o.csv o LOOKUP JOIN (<inner>) q ON 1 = 1
// [ORDER BY i, x DESC, y] LIMIT N, optionally wrapped in an outer SELECT.
func lookupCase(id string, t *sqlref.Table, k int, innerOrder string, nIn int, outerOrdered bool, N int, nested bool, mode string) xcase {
	inner, _ := build(t, nIn, "top", innerOrder)
	sql := fmt.Sprintf("SELECT o.id AS i, q.x AS x, q.y AS y FROM o.csv o LOOKUP JOIN (%s) q ON 1 = 1", inner.SQL())
	if outerOrdered {
		sql += " ORDER BY i, x DESC, y"
	}
	sql += fmt.Sprintf(" LIMIT %d", N)
	if nested {
		sql = "SELECT w.i AS i, w.x AS x, w.y AS y FROM (" + sql + ") w"
	}
	cols := []sqlref.Column{{Name: "i", T: sqlref.TInt}, {Name: "x", T: t.Cols[0].T}, {Name: "y", T: t.Cols[1].T}}
	files := map[string][]byte{t.File: t.FileBytes(), "o.csv": idsFile(k)}
	xc := xcase{id: id, family: "lookup-join", mode: mode, sql: sql, files: files, cols: cols}
	resIn, err := inner.Eval(sqlref.EvalOpts{})
	if err != nil {
		xc.judge = func([]sqlref.Row) (bool, string) { return false, "harness: reference error " + err.Error() }
		return xc
	}
	m := len(resIn.Rows)
	total := k * m
	xc.nontrivial = m >= 1 && (N < total || (nIn < len(resIn.Full) && nIn > 0))
	xc.key = fmt.Sprintf("lookup|%s|%s|%d|%v|%d|%v|%s", t.FileBytes(), innerOrder, nIn, outerOrdered, N, nested, mode)
	ordered := outerOrdered && !nested
	var okeys []sqlref.OrderKey
	if outerOrdered {
		okeys = outerKeys
	}
	if !resIn.CutAmbiguous() {
		var full []sqlref.Row
		for i := 1; i <= k; i++ {
			for _, r := range resIn.Rows {
				full = append(full, sqlref.Row{sqlref.Int(int64(i)), r[0], r[1]})
			}
		}
		if outerOrdered {
			full = sqlref.SortRows(full, okeys)
		}
		res := &sqlref.Result{Cols: cols, Full: full, OrderBy: okeys, Limit: N}
		xc.judge = func(got []sqlref.Row) (bool, string) {
			v := sqlref.Judge(res, got, ordered)
			return v.OK, v.What
		}
		return xc
	}
	// the inner cut is open (ties / no ORDER BY): each left record may legitimately get other rows
	xc.judge = func(got []sqlref.Row) (bool, string) {
		want := total
		if N < want {
			want = N
		}
		if len(got) != want {
			return false, fmt.Sprintf("printed %d rows, expected %d (%d left records x %d inner rows, LIMIT %d); got %s", len(got), want, k, m, N, sqlref.RowsString(got, 12))
		}
		if ordered {
			if i := sqlref.SortedBy(got, okeys); i >= 0 {
				return false, fmt.Sprintf("row %d %s is printed after %s but sorts before it", i, got[i], got[i-1])
			}
		}
		per := map[int64][]sqlref.Row{}
		for _, r := range got {
			if r[0].K != sqlref.KInt || r[0].I < 1 || r[0].I > int64(k) {
				return false, fmt.Sprintf("row %s has no left record", r)
			}
			per[r[0].I] = append(per[r[0].I], sqlref.Row{r[1], r[2]})
		}
		for i, rows := range per {
			if len(rows) > m {
				return false, fmt.Sprintf("left record %d is joined with %d rows, the inner LIMIT allows %d", i, len(rows), m)
			}
			resI := *resIn
			if len(rows) == m {
				if v := sqlref.Judge(&resI, rows, false); !v.OK {
					return false, fmt.Sprintf("rows joined to left record %d are not a valid first %d of the inner level: %s", i, nIn, v.What)
				}
			} else if sub, r := sqlref.SubMultiset(rows, resIn.Full); !sub {
				return false, fmt.Sprintf("row %s joined to left record %d is not a row of the inner level", r, i)
			}
		}
		return true, ""
	}
	return xc
}

// subexprCase: SELECT o.id AS i, (SELECT a AS x FROM t [ORDER BY x [DESC]] [LIMIT n]) AS l FROM o.csv o
func subexprCase(id string, t *sqlref.Table, k int, order string, n int, mode string) xcase {
	inner := &sqlref.Query{
		From:  sqlref.Source{Kind: sqlref.SrcTable, Table: t},
		Items: []sqlref.SelItem{{Expr: sqlref.Col(0, "a", t.Cols[0].T), Alias: "x"}},
		Limit: n,
	}
	switch order {
	case "asc":
		inner.OrderBy = []sqlref.OrderKey{{Col: 0}}
	case "desc":
		inner.OrderBy = []sqlref.OrderKey{{Col: 0, Desc: true}}
	}
	sql := fmt.Sprintf("SELECT o.id AS i, (%s) AS l FROM o.csv o", inner.SQL())
	cols := []sqlref.Column{{Name: "i", T: sqlref.TInt}, {Name: "l", T: sqlref.TList(t.Cols[0].T.K)}}
	files := map[string][]byte{t.File: t.FileBytes(), "o.csv": idsFile(k)}
	xc := xcase{id: id, family: "subquery-expression", mode: mode, sql: sql, files: files, cols: cols}
	resIn, err := inner.Eval(sqlref.EvalOpts{})
	if err != nil {
		xc.judge = func([]sqlref.Row) (bool, string) { return false, "harness: reference error " + err.Error() }
		return xc
	}
	xc.nontrivial = k >= 2 && len(resIn.Full) >= 2 && len(resIn.Rows) >= 1
	// the table formats wrap cells with spaces at 24 columns: a list that may render wider than
	// that is printed through stream_native instead
	if sqlrun.IsTable(mode) {
		widest := 1
		for _, r := range resIn.Full {
			w := len(r[0].String())
			if r[0].IsNull() {
				w = len("<null>")
			}
			if w > widest {
				widest = w
			}
		}
		if 2+len(resIn.Rows)*(widest+2) > 22 {
			xc.mode = sqlrun.Native
		}
	}
	xc.key = fmt.Sprintf("subexpr|%s|%s|%d|%d|%s", t.FileBytes(), order, n, k, xc.mode)
	xc.judge = func(got []sqlref.Row) (bool, string) {
		if len(got) != k {
			return false, fmt.Sprintf("printed %d rows for %d outer rows", len(got), k)
		}
		seen := map[int64]bool{}
		for _, r := range got {
			if r[0].K != sqlref.KInt || r[0].I < 1 || r[0].I > int64(k) || seen[r[0].I] {
				return false, fmt.Sprintf("unexpected or repeated outer row %s", r)
			}
			seen[r[0].I] = true
			if r[1].K != sqlref.KList {
				return false, fmt.Sprintf("outer row %d: the subquery value is %s, not a list", r[0].I, r[1])
			}
			var rows []sqlref.Row
			for _, e := range r[1].L {
				rows = append(rows, sqlref.Row{e})
			}
			resI := *resIn
			if v := sqlref.Judge(&resI, rows, true); !v.OK {
				return false, fmt.Sprintf("outer row %d: list %s is not the first %d of the inner order (inner rows %s): %s", r[0].I, r[1], n, sqlref.RowsString(resIn.Full, 14), v.What)
			}
		}
		return true, ""
	}
	return xc
}

func multiEvalCases(c *core.Ctx, runner *cli.Runner, only string, selftest bool) {
	var cases []xcase
	ms := fixedMultisets()
	m2, m3, m4, m5 := ms[2], ms[3], ms[4], ms[5]
	lookupModes := func(nested bool) []string {
		if nested {
			return []string{sqlrun.JSON, sqlrun.Batch} // a nested outer LIMIT is the same plan node in every mode
		}
		return modes
	}
	// lookup join: inner (order, n) x outer (ordered, N) x direct/nested x modes; 3 left records
	for _, t := range []*sqlref.Table{m2, m3, m5} {
		rows := len(t.Rows)
		inners := []struct {
			order string
			n     int
		}{{"none", 2}, {"none", rows}, {"total", 2}, {"partial", 3}}
		outers := []struct {
			ordered bool
			N       int
		}{{false, 3}, {true, 4}}
		for _, in := range inners {
			for _, ou := range outers {
				for _, nested := range []bool{false, true} {
					for _, m := range lookupModes(nested) {
						id := fmt.Sprintf("c05-lookup-%s-%s-n%d-ord%v-N%d-nested%v-%s", t.Name, in.order, in.n, ou.ordered, ou.N, nested, m)
						cases = append(cases, lookupCase(id, t, 3, in.order, in.n, ou.ordered, ou.N, nested, m))
					}
				}
			}
		}
	}
	// subquery expression: lists cannot be printed by csv; table cells wrap at 24 columns
	listModes := []string{sqlrun.JSON, sqlrun.Native, sqlrun.Batch, sqlrun.Live}
	for _, t := range []*sqlref.Table{m2, m3, m4, m5} {
		variants := []struct {
			order string
			n     int
		}{{"none", 2}, {"asc", 2}, {"desc", 3}, {"asc", 0}}
		if len(t.Rows) <= 7 {
			variants = append(variants, struct {
				order string
				n     int
			}{"desc", -1})
		}
		for _, v := range variants {
			for _, m := range listModes {
				id := fmt.Sprintf("c05-subexpr-%s-%s-n%d-%s", t.Name, v.order, v.n, m)
				cases = append(cases, subexprCase(id, t, 3, v.order, v.n, m))
			}
		}
	}
	fixed := len(cases)
	R := c.Pick(60, 1500)
	for i := 0; i < R; i++ {
		rng := c.Rng(fmt.Sprintf("multi-%d", i))
		t := randomTable(c, 100000+i)
		if len(t.Rows) == 0 {
			continue
		}
		k := 2 + rng.Intn(3)
		if rng.Intn(2) == 0 {
			nIn := 1 + rng.Intn(5)
			if rng.Intn(4) == 0 {
				nIn = len(t.Rows)
			}
			N := 1 + rng.Intn(8)
			nested := rng.Intn(3) == 0
			m := modes[rng.Intn(len(modes))]
			cases = append(cases, lookupCase(sqlrun.CaseID(c, "multi", i), t, k, ordersThorough[rng.Intn(3)], nIn, rng.Intn(2) == 0, N, nested, m))
		} else {
			n := rng.Intn(6)
			order := []string{"none", "asc", "desc"}[rng.Intn(3)]
			if order != "none" && len(t.Rows) <= 6 && rng.Intn(3) == 0 {
				n = -1
			}
			m := listModes[rng.Intn(len(listModes))]
			cases = append(cases, subexprCase(sqlrun.CaseID(c, "multi", i), t, k, order, n, m))
		}
	}
	c.Note("multi_evaluation_cells", fixed)
	c.Note("multi_evaluation_bound", "lookup-join: {m2,m3,m5} x inner (none,2)(none,rows)(total,2)(partial,3) x outer (LIMIT 3)(ORDER BY..LIMIT 4) x direct (5 modes) / nested (json, batch_table), 3 left records; subquery-expression: {m2,m3,m4,m5} x (none,2)(asc,2)(desc,3)(asc,0)(desc,no limit) x json/stream_native/batch_table/live_table, 3 outer rows; plus seeded random cases")

	core.Parallel(len(cases), 16, func(i int) {
		xc := cases[i]
		if only != "" && xc.id != only {
			return
		}
		if selftest && i%29 != 5 {
			return
		}
		out := sqlrun.Exec(runner, xc.sql, xc.files, xc.cols, xc.mode)
		c.Eval(1)
		files := map[string]string{}
		for k, v := range xc.files {
			files[k] = string(v)
		}
		replay := map[string]interface{}{"id": xc.id, "sql": xc.sql, "mode": xc.mode, "files": files, "argv": []string{"octosql", xc.sql, "-o", xc.mode},
			"exit": out.Exit, "stdout": out.Stdout, "stderr": out.Stderr, "decoded": sqlref.RowsString(out.Rows, 40)}
		tag := fmt.Sprintf("[%s, %s] ", xc.family, xc.mode)
		switch out.Status {
		case "timeout":
			c.Inconclusive("watchdog")
			return
		case "rejected":
			c.Violation("template-rejected", tag+out.Reason, replay)
			return
		case "panic":
			c.Violation("panic:"+out.PanicSite, tag+out.Reason, replay)
			return
		case "runtime-error":
			c.Violation("runtime-error", tag+out.Reason, replay)
			return
		case "undecodable":
			c.Violation("undecodable-output:"+xc.mode, tag+out.Reason, replay)
			return
		}
		got := out.Rows
		if selftest {
			// a wrong recording: one more printed row
			if len(got) > 0 {
				got = append(append([]sqlref.Row{}, got...), got[len(got)-1])
			} else {
				got = append(got, sqlref.Row{sqlref.Int(1), sqlref.Null(), sqlref.Null()}[:len(xc.cols)])
			}
		}
		if ok, what := xc.judge(got); !ok {
			c.Violation("result-mismatch:"+xc.family, tag+what, replay)
			return
		}
		c.Count("judged/placement/"+xc.family, 1)
		c.Count("judged/"+xc.family+"/"+xc.mode, 1)
		if xc.nontrivial {
			c.Nontrivial(xc.key)
			c.Count("nontrivial/"+xc.family, 1)
		}
		if only != "" {
			fmt.Printf("judged OK: %s\n", xc.sql)
		}
		c.Sample(map[string]interface{}{"id": xc.id, "sql": xc.sql, "mode": xc.mode})
	})
}

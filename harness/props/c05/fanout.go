package c05

import (
	"fmt"
	"strings"

	"github.com/cube2222/octosql/plugins/verifharness/cli"
	"github.com/cube2222/octosql/plugins/verifharness/core"
	"github.com/cube2222/octosql/plugins/verifharness/sqlref"
	"github.com/cube2222/octosql/plugins/verifharness/sqlrun"
)

// Family "LIMIT n over a fan-out join": a small right table with f distinct rows (plus one
// duplicate) per key, and a left side that arrives late — a file of several thousand
// non-matching rows followed by the two matching ones, read through an ORDER BY subquery (which
// buffers its whole input) — so that the many-match side is completely stored when a matching left
// record arrives and that record fans out into f rows at once. LIMIT n without ORDER BY for every
// n in 1..total+1, so that most n end in the middle of a fan-out; top level in json / csv /
// stream_native and nested (FROM subquery, WITH). Oracle as everywhere in C05: exactly
// min(n, total) rows, each a row of the reference join (sqlref.Judge); the arrival order has no
// influence on what is demanded.
func fanoutCases(c *core.Ctx, runner *cli.Runner, only string, selftest bool) {
	if selftest {
		return
	}
	type fcase struct {
		id, mode, placement string
		n                   int
		q                   *sqlref.Query
		virt                *sqlref.Table
		opts                sqlrun.Opts
	}
	var cases []fcase
	fs := []int{3, 5}
	if c.Tier == "thorough" {
		fs = []int{3, 4, 5, 6}
	}
	rng := c.Rng("fanout")
	for _, f := range fs {
		filler := 5000 + rng.Intn(2000)
		var big strings.Builder
		big.WriteString("k,v\n")
		for i := 1; i <= filler; i++ {
			fmt.Fprintf(&big, "%d,%d\n", -i, i)
		}
		v7, v9 := int64(filler+100), int64(filler+200)
		fmt.Fprintf(&big, "7,%d\n9,%d\n", v7, v9)
		var small strings.Builder
		small.WriteString("k,w\n")
		var joined []sqlref.Row
		for j := 1; j <= f; j++ {
			fmt.Fprintf(&small, "7,%d\n9,%d\n", j, 10*j)
			joined = append(joined, sqlref.Row{iv(7), iv(v7), iv(int64(j))}, sqlref.Row{iv(9), iv(v9), iv(int64(10 * j))})
		}
		dup := 1 + rng.Intn(f)
		fmt.Fprintf(&small, "7,%d\n", dup) // a duplicate of an identical row
		joined = append(joined, sqlref.Row{iv(7), iv(v7), iv(int64(dup))})
		files := map[string][]byte{"big.csv": []byte(big.String()), "small.csv": []byte(small.String())}
		virt := &sqlref.Table{
			Name: "fan", File: "virtual-fanout-join",
			FromSQL: "(SELECT k AS k, v AS v FROM big.csv ORDER BY v) l JOIN small.csv r ON l.k = r.k",
			Cols:    []sqlref.Column{{Name: "l.k", T: sqlref.TInt}, {Name: "l.v", T: sqlref.TInt}, {Name: "r.w", T: sqlref.TInt}},
			Rows:    joined,
		}
		total := len(joined)
		for n := 1; n <= total+1; n++ {
			for _, pl := range []struct{ name, mode, wrap string }{
				{"top", sqlrun.JSON, ""}, {"top", sqlrun.CSV, ""}, {"top", sqlrun.Native, ""},
				{"from-subquery", sqlrun.JSON, "SELECT q.k AS k, q.v AS v, q.w AS w FROM (%s) q"},
				{"with", sqlrun.Batch, "WITH c AS (%s) SELECT k AS k, v AS v, w AS w FROM c"},
			} {
				q := &sqlref.Query{
					From: sqlref.Source{Kind: sqlref.SrcTable, Table: virt},
					Items: []sqlref.SelItem{{Expr: sqlref.Col(0, "l.k", sqlref.TInt), Alias: "k"}, {Expr: sqlref.Col(1, "l.v", sqlref.TInt), Alias: "v"},
						{Expr: sqlref.Col(2, "r.w", sqlref.TInt), Alias: "w"}},
					Limit: n,
				}
				cases = append(cases, fcase{id: fmt.Sprintf("c05-fanout-s%d-f%d-n%d-%s-%s", c.Seed, f, n, pl.name, pl.mode), mode: pl.mode, placement: pl.name, n: n, q: q, virt: virt,
					opts: sqlrun.Opts{Wrap: pl.wrap, ExtraFiles: files}})
			}
		}
	}
	c.Note("fanout_join_cells", len(cases))
	core.Parallel(len(cases), 16, func(i int) {
		tc := cases[i]
		if only != "" && tc.id != only {
			return
		}
		tables := []*sqlref.Table{tc.virt}
		rp := sqlrun.Check(runner, tc.q, tables, tc.mode, tc.opts)
		c.Eval(1)
		tag := fmt.Sprintf("[LIMIT %d over a fan-out join of %d rows, %s, %s] ", tc.n, len(tc.virt.Rows), tc.placement, tc.mode)
		replay := func() map[string]interface{} {
			m := sqlrun.Replay(tc.id, tc.q, tables, tc.mode, tc.opts, rp)
			if f, ok := m["files"].(map[string]string); ok {
				f["big.csv"] = fmt.Sprintf("(k,v header; rows -i,i for i in 1..%d; then the two matching rows) ...%s", strings.Count(f["big.csv"], "\n")-3, f["big.csv"][len(f["big.csv"])-40:])
			}
			return m
		}
		switch rp.Status {
		case "timeout":
			c.Inconclusive("watchdog")
		case "rejected":
			c.Violation("template-rejected", tag+rp.What, replay())
		case "violation":
			c.Violation("fanout-join-"+rp.Key, tag+rp.What, replay())
		case "judged":
			c.Count("judged/placement/fanout-join-"+tc.placement, 1)
			c.Count("judged/fanout-join/"+tc.mode, 1)
			if tc.n < len(tc.virt.Rows) {
				c.Nontrivial("fanout|" + tc.id)
				c.Count("nontrivial/fanout-join", 1)
			}
			if only != "" {
				fmt.Printf("judged OK: %s\n", tc.opts.SQL(tc.q))
			}
		}
	})
}

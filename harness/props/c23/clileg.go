package c23

import (
	"encoding/json"
	"fmt"
	"math/rand"
	"sort"
	"strconv"
	"strings"
	"sync"
	"time"

	"github.com/cube2222/octosql/octosql"

	"github.com/cube2222/octosql/plugins/verifharness/cli"
	"github.com/cube2222/octosql/plugins/verifharness/core"
	"github.com/cube2222/octosql/plugins/verifharness/props/fileh"
)

// CLI legs: the real binary, `-o json`, strict decode. Generators are "plain" (no value the C25
// findings are about), so the formatter is transparent and the comparison stays exact.

type cliCase struct {
	ID    string
	Kind  string // json | csv | tsv | lines | parquet
	N     int
	Stdin bool
	Var   string
}

func cliCases(c *core.Ctx) []cliCase {
	var cs []cliCase
	rng := c.Rng("cli-sizes")
	randN := func() int {
		switch rng.Intn(8) {
		case 0:
			return rng.Intn(3)
		case 1:
			return 95 + rng.Intn(12)
		case 2:
			return 300 + rng.Intn(2000)
		default:
			return 2 + rng.Intn(70)
		}
	}
	add := func(kind string, n int, stdin bool) {
		p := "clif"
		if stdin {
			p = "clis"
		}
		cs = append(cs, cliCase{ID: fmt.Sprintf("%s-%s-%d", p, kind, len(cs)), Kind: kind, N: n, Stdin: stdin})
	}
	for _, k := range []string{"json", "csv", "tsv", "lines", "parquet"} {
		for _, n := range []int{0, 1, 64, 65, 100, 101} {
			add(k, n, false)
		}
		for i := 0; i < c.Pick(6, 350); i++ {
			add(k, randN(), false)
		}
	}
	// stdin: sizes from a few bytes to several MB
	for _, k := range []string{"json", "csv", "lines"} {
		for _, n := range []int{0, 1, 3, 40, 99, 100, 101, 150, 1000, 5000} {
			add(k, n, true)
		}
		add(k, 40000, true)
		for i := 0; i < c.Pick(10, 350); i++ {
			n := randN()
			if rng.Intn(12) == 0 {
				n = 10000 + rng.Intn(40000)
			}
			add(k, n, true)
		}
	}
	// first-field files (firstfield.go), as files and on stdin; appended last: earlier ids unchanged
	for v := 0; v < 4; v++ {
		for _, k := range []string{"csv", "tsv"} {
			cs = append(cs, cliCase{ID: fmt.Sprintf("clif-%s-%d", k, len(cs)), Kind: k, N: v, Var: "firstfield"})
		}
		cs = append(cs, cliCase{ID: fmt.Sprintf("clis-csv-%d", len(cs)), Kind: "csv", N: v + 4, Stdin: true, Var: "firstfield"})
	}
	return cs
}

type chunkPlan struct {
	Name   string
	Chunks [][]byte
	Pause  time.Duration
}

func planChunks(rng *rand.Rand, content []byte) chunkPlan {
	n := len(content)
	split := func(size func() int) [][]byte {
		var out [][]byte
		for i := 0; i < n; {
			k := size()
			if k < 1 {
				k = 1
			}
			if i+k > n {
				k = n - i
			}
			out = append(out, content[i:i+k])
			i += k
		}
		return out
	}
	var p chunkPlan
	switch rng.Intn(8) {
	case 0:
		p = chunkPlan{Name: "whole", Chunks: [][]byte{content}}
	case 1, 2, 3:
		ks := []int{1, 2, 7, 100, 4095, 4096, 4097, 65536, 1 << 20}
		k := ks[rng.Intn(len(ks))]
		for n/k > 20000 {
			k *= 8
		}
		p = chunkPlan{Name: "fixed-" + strconv.Itoa(k), Chunks: split(func() int { return k })}
	case 4, 5:
		ms := []int{16, 5000, 100000, 1 << 20}
		m := ms[rng.Intn(len(ms))]
		for n/m > 10000 {
			m *= 8
		}
		p = chunkPlan{Name: "random-upto-" + strconv.Itoa(m), Chunks: split(func() int { return 1 + rng.Intn(m) })}
	default:
		hs := []int{1, 100, 4095, 4096, 4097, 8192, 65535, 65536, 65537, 1 << 20}
		h := hs[rng.Intn(len(hs))]
		first := true
		p = chunkPlan{Name: "head-" + strconv.Itoa(h) + "-then-rest", Chunks: split(func() int {
			if first {
				first = false
				return h
			}
			return n
		})}
		p.Pause = 20 * time.Millisecond
		return p
	}
	if len(content) == 0 {
		p.Chunks = nil
	}
	switch rng.Intn(3) {
	case 1:
		p.Pause = 100 * time.Microsecond
	case 2:
		p.Pause = 2 * time.Millisecond
	}
	if time.Duration(len(p.Chunks))*p.Pause > 1500*time.Millisecond {
		p.Pause = 0
	}
	return p
}

func sizeClass(n int) string {
	switch {
	case n < 4096:
		return "lt4KiB"
	case n < 65536:
		return "4KiB-64KiB"
	case n < 1<<20:
		return "64KiB-1MiB"
	default:
		return "ge1MiB"
	}
}

func runCLI(c *core.Ctx) {
	runner := cli.NewRunner(c.BinDir, c.Scratch)
	cases := cliCases(c)
	results := make([]*Result, len(cases))
	var mu sync.Mutex
	core.Parallel(len(cases), 16, func(i int) {
		if c.Only != "" && c.Only != cases[i].ID {
			return
		}
		r := runCLICase(c, runner, cases[i])
		mu.Lock()
		results[i] = r
		mu.Unlock()
	})
	for i, r := range results {
		if r == nil {
			continue
		}
		leg := "cli-file"
		if cases[i].Stdin {
			leg = "cli-stdin"
		}
		apply(c, r, leg)
	}
}

func runCLICase(c *core.Ctx, runner *cli.Runner, cs cliCase) *Result {
	r := &Result{ID: cs.ID, Evals: 1}
	rng := c.Rng("cli/" + cs.ID)
	leg := "cli-file"
	if cs.Stdin {
		leg = "cli-stdin"
	}
	var content []byte
	var table string
	var judge func(rows []cli.JSONRow, replay map[string]interface{})
	colTypes := map[string]octosql.Type{} // JSON legs: column types as --describe prints them
	name := "t." + cs.Kind
	if cs.Stdin {
		name = "stdin." + cs.Kind
	}
	table = name
	switch cs.Kind {
	case "json":
		f := fileh.GenJSONFile(rng, cs.N, fileh.JSONFileOpts{Gen: fileh.GenOpts{Plain: true}})
		content = f.Content
		judge = func(rows []cli.JSONRow, replay map[string]interface{}) {
			if len(rows) != len(f.Rows) {
				r.viol("json:row-count", fmt.Sprintf("file has %d rows, -o json printed %d", len(f.Rows), len(rows)), replay)
				return
			}
			ds := &fileh.DiffSet{}
			cells := 0
			for i := range rows {
				for _, k := range f.Rows[i].Keys {
					if _, ok := rows[i].Values[k]; !ok {
						ds.Add(fileh.Diff{Path: fmt.Sprintf("row %d", i), Class: "structure", What: "key " + k + " is not printed"})
					}
				}
				for _, k := range rows[i].Keys {
					mv, ok := f.Rows[i].Get(k)
					var ct *octosql.Type
					if t, has := colTypes[k]; has {
						ct = &t
					}
					fileh.CompareDecodedJSON(fileh.Row(i).Field(k), ct, rows[i].Values[k], mv, ok, ds)
					cells++
				}
				if ds.Hard() > 50 {
					break
				}
			}
			finishCLI(r, leg, cs, "json", ds, len(rows), cells, content, replay)
		}
	case "csv", "tsv":
		sep := byte(',')
		if cs.Kind == "tsv" {
			sep = '\t'
		}
		header := rng.Intn(4) != 0
		f := fileh.GenCSVFile(rng, cs.N, fileh.CSVOpts{Sep: sep, Header: header, Plain: true})
		if cs.Var == "firstfield" {
			header = cs.N%2 == 0
			f = genFirstFieldCSV(rng, sep, header, cs.N)
			r.count(leg+"/"+cs.Kind+"/first_field_files", 1)
		}
		content = f.Content
		if !header {
			table = name + "?header=false"
		}
		judge = func(rows []cli.JSONRow, replay map[string]interface{}) {
			replay["header"] = header
			if len(rows) != len(f.Rows) {
				r.viol(cs.Kind+":row-count", fmt.Sprintf("file has %d rows, -o json printed %d", len(f.Rows), len(rows)), replay)
				return
			}
			ds := &fileh.DiffSet{}
			cells := 0
			for i := range rows {
				if len(rows[i].Keys) != len(f.Rows[i]) {
					ds.Add(fileh.Diff{Path: fmt.Sprintf("row %d", i), Class: "structure", What: fmt.Sprintf("%d cells, %d printed", len(f.Rows[i]), len(rows[i].Keys))})
					continue
				}
				for j, cell := range f.Rows[i] {
					col := "column_" + strconv.Itoa(j)
					if header {
						col = f.Header[j]
					}
					if rows[i].Keys[j] != col {
						ds.Add(fileh.Diff{Path: fmt.Sprintf("row %d", i), Class: "structure", What: fmt.Sprintf("column %d printed as %q, expected %q", j, rows[i].Keys[j], col)})
						continue
					}
					fileh.CompareDecodedCell(fileh.Row(i).Col(col), rows[i].Values[col], cell, ds)
					cells++
				}
				if ds.Hard() > 50 {
					break
				}
			}
			finishCLI(r, leg, cs, "csv", ds, len(rows), cells, content, replay)
		}
	case "lines":
		names := make([]string, 0, len(lineSeps))
		for k := range lineSeps {
			names = append(names, k)
		}
		sort.Strings(names)
		sepName := names[rng.Intn(len(names))]
		if sepName == "crlf" || lineSeps[sepName][0] >= 0x80 {
			// CLI legs keep the output formatter transparent: a raw CR LF inside a backquoted SQL
			// identifier is not a fair input, and with a non-ASCII separator the anticipated
			// advance-by-1 defect hands out lone UTF-8 continuation bytes, which -o json cannot
			// carry (those separators are covered in-process)
			sepName = "semi2"
		}
		if rng.Intn(2) == 0 {
			sepName = "nl"
		}
		sep := lineSeps[sepName]
		f := genLines(rng, cs.N, sep, 0, true)
		content = f.Content
		if sep != "\n" {
			table = name + "?sep=" + sep
		}
		judge = func(rows []cli.JSONRow, replay map[string]interface{}) {
			replay["sep"] = sep
			r.count(leg+"/lines/sep="+sepName, 1)
			// rebuild records in the shape judgeLines wants
			used, recs, err := decodedLines(rows)
			if err != "" {
				r.viol("lines:output-shape", err, replay)
				return
			}
			judgeLines(r, leg, cs.ID, f, used, recs, replay)
		}
	case "parquet":
		f, err := genParquet(rng, cs.N, true)
		if err != nil {
			r.Inconclusive = append(r.Inconclusive, "parquet-fixture-writer")
			return r
		}
		content = f.Content
		judge = func(rows []cli.JSONRow, replay map[string]interface{}) {
			if len(rows) != len(f.Rows) {
				r.viol("parquet:row-count", fmt.Sprintf("file has %d rows, -o json printed %d", len(f.Rows), len(rows)), replay)
				return
			}
			ds := &fileh.DiffSet{}
			cells := 0
			for i := range rows {
				for j, col := range f.Cols {
					dv, ok := rows[i].Values[col.Name]
					if !ok {
						ds.Add(fileh.Diff{Path: fmt.Sprintf("row %d", i), Class: "structure", What: "column " + col.Name + " is not printed"})
						continue
					}
					compareDecodedPq(fileh.Row(i).Field(col.Name), dv, f.Rows[i][j], ds)
					cells++
				}
				if ds.Hard() > 50 {
					break
				}
			}
			finishCLI(r, leg, cs, "parquet", ds, len(rows), cells, content, replay)
		}
	}
	sql := "SELECT * FROM `" + table + "`"
	run := cli.Run{Args: []string{sql, "-o", "json"}, Timeout: 90 * time.Second}
	replay := map[string]interface{}{"id": cs.ID, "kind": cs.Kind, "sql": sql, "rows": cs.N, "bytes": len(content), "file": inlineContent(content), "rerun": "./check C23 <tier> --only " + cs.ID}
	if cs.Stdin {
		plan := planChunks(rng, content)
		run.StdinChunks = plan.Chunks
		run.ChunkPause = plan.Pause
		if len(plan.Chunks) == 0 {
			run.Stdin = []byte{}
		}
		replay["chunking"] = plan.Name
		replay["chunks"] = len(plan.Chunks)
		replay["pause"] = plan.Pause.String()
		r.count("cli-stdin/chunking/"+strings.SplitN(plan.Name, "-", 2)[0], 1)
		r.count("cli-stdin/size/"+sizeClass(len(content)), 1)
	} else {
		run.Files = map[string][]byte{name: content}
	}
	if cs.Kind == "json" {
		// --describe (same input; stdin in one piece): only used to attribute an anticipated defect
		d := cli.Run{Args: []string{sql, "--describe", "-o", "json"}, Timeout: 90 * time.Second, Files: run.Files}
		if cs.Stdin {
			d.Stdin = content
			if d.Stdin == nil {
				d.Stdin = []byte{}
			}
		}
		if dres := runner.Exec(d); dres.Exit == 0 && !dres.TimedOut {
			if drows, err := cli.DecodeJSONLines(dres.Stdout); err == nil {
				for _, dr := range drows {
					n, _ := dr.Values["name"].(string)
					ts, _ := dr.Values["type"].(string)
					if t, err := fileh.ParseTypeString(ts); err == nil {
						colTypes[n] = t
					} else {
						r.count(leg+"/json/describe_type_unparsed", 1)
					}
				}
			}
		}
	}
	res := runner.Exec(run)
	r.count(leg+"/"+cs.Kind+"/runs", 1)
	switch {
	case res.TimedOut:
		r.Inconclusive = append(r.Inconclusive, "watchdog")
		return r
	case res.Panicked():
		site, msg := res.PanicSite()
		replay["stderr"] = tail(res.Stderr, 3000)
		r.viol("panic:"+site, "octosql crashed: "+msg, replay)
		return r
	case res.Exit != 0 && cs.Kind == "parquet" && cs.N == 0 && strings.Contains(string(res.Stderr), "index out of range"):
		replay["stderr"] = tail(res.Stderr, 300)
		r.viol("parquet-zero-row-file", "a parquet file with zero rows cannot be opened: "+trunc(strings.TrimSpace(tail(res.Stderr, 120)), 200), replay)
		return r
	case res.Exit != 0:
		replay["stderr"] = tail(res.Stderr, 2000)
		r.viol(cs.Kind+":cli-error", fmt.Sprintf("octosql exited %d on a valid input: %s", res.Exit, trunc(strings.TrimSpace(string(res.Stderr)), 300)), replay)
		return r
	}
	rows, err := cli.DecodeJSONLines(res.Stdout)
	if err != nil {
		r.viol("cli:invalid-json-output", "output of -o json does not decode: "+err.Error(), replay)
		return r
	}
	if len(rows) >= 3 && selftestOn() {
		k := len(rows) / 2
		rows = append(rows[:k], rows[k+1:]...)
	}
	if cs.Stdin {
		replay["chunking_key"] = fmt.Sprint(replay["chunking"], "/", replay["pause"])
	}
	judge(rows, replay)
	return r
}

func selftestOn() bool { return selftestEnv == "1" }

func finishCLI(r *Result, leg string, cs cliCase, _ string, ds *fileh.DiffSet, nRows, cells int, content []byte, replay map[string]interface{}) {
	r.count(leg+"/"+cs.Kind+"/rows_compared", nRows)
	r.count(leg+"/"+cs.Kind+"/cells_compared", cells)
	if nRows >= 2 && cells > 0 && ds.Hard() <= 50 {
		r.Nontrivial = append(r.Nontrivial, cs.Kind+"|"+hashBytes(content)+"|"+fmt.Sprint(replay["chunking_key"]))
	}
	if !ds.Empty() {
		reportDiffs(r, leg, cs.Kind, ds, content, "", replay)
		return
	}
	r.Sample = map[string]interface{}{"id": cs.ID, "kind": cs.Kind, "sql": replay["sql"], "rows": nRows, "bytes": len(content), "chunking": replay["chunking"], "pause": replay["pause"], "cells_compared": cells}
}

func compareDecodedPq(path *fileh.Path, d interface{}, m interface{}, out *fileh.DiffSet) {
	add := func(class, what string) { out.Add(fileh.Diff{Path: path.String(), Class: class, What: what}) }
	if m == nil {
		if d != nil {
			add("value", fmt.Sprintf("parquet NULL printed as %v", d))
		}
		return
	}
	if d == nil {
		add("null-for-value", "parquet value "+showPq(m)+" printed as null")
		return
	}
	switch x := m.(type) {
	case int64:
		n, ok := d.(json.Number)
		if got, err := strconv.ParseInt(string(n), 10, 64); !ok || err != nil || got != x {
			add("value", fmt.Sprintf("parquet int %d printed as %v", x, d))
		}
	case float64:
		n, ok := d.(json.Number)
		if got, err := strconv.ParseFloat(string(n), 64); !ok || err != nil || !fileh.FloatEq(got, x) {
			add("value", fmt.Sprintf("parquet float %s printed as %v", strconv.FormatFloat(x, 'g', -1, 64), d))
		}
	case bool:
		if b, ok := d.(bool); !ok || b != x {
			add("value", fmt.Sprintf("parquet bool %v printed as %v", x, d))
		}
	case string:
		if s, ok := d.(string); !ok || s != x {
			add("value", fmt.Sprintf("parquet string %q printed as %v", x, d))
		}
	case []interface{}:
		if o, isObj := d.(map[string]interface{}); isObj && len(o) == 1 {
			if _, has := o["list"]; has {
				compareDecodedPq(path, d, wrapList(x), out) // LIST column shown as {list: [{element: T}]}
				return
			}
		}
		l, ok := d.([]interface{})
		if !ok || len(l) != len(x) {
			add("structure", fmt.Sprintf("parquet list %s printed as %v", showPq(m), d))
			return
		}
		for i := range x {
			compareDecodedPq(path.Index(i), l[i], x[i], out)
			path.Pop()
		}
	case *fileh.Obj:
		o, ok := d.(map[string]interface{})
		if !ok || len(o) != len(x.Keys) {
			add("structure", fmt.Sprintf("parquet group %s printed as %v", showPq(m), d))
			return
		}
		for i, k := range x.Keys {
			dv, ok := o[k]
			if !ok {
				add("structure", "group field "+k+" is not printed")
				continue
			}
			compareDecodedPq(path.Field(k), dv, x.Vals[i], out)
			path.Pop()
		}
	}
}

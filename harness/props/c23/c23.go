// Package c23: file datasources return exactly the file's rows.
//
// R: record count, order or any value differing from the generator's ground truth.
// O: the generator keeps the rows it serialised; comparison by value with own code (floats
// exactly: the correctly rounded value of the literal, by strconv).
// W: (a) in-process Creator + Materialize + Run of json / csv / tsv / lines / parquet over
// generated files; JSON additionally in child processes with GOMAXPROCS in {1,2,4,16} (the parser
// worker pool is sized at package init) x {no delay, 5 seeds of hook-H3 delays}, and once under
// the race build; (b) CLI: the same kinds through `-o json`, and stdin.json / stdin.csv /
// stdin.lines fed in chunks of 1 B .. 1 MiB with pauses.
package c23

import (
	"bufio"
	"bytes"
	"encoding/json"
	"fmt"
	"os"
	"os/exec"
	"path/filepath"
	"runtime"
	"sort"
	"strconv"
	"strings"
	"sync"
	"time"

	"github.com/cube2222/octosql/plugins/verifharness/core"
	"github.com/cube2222/octosql/plugins/verifharness/props/fileh"
)

func init() { core.Register("C23", Run) }

var jsonBoundarySizes = []int{0, 1, 63, 64, 65, 127, 128, 129, 4095, 4096, 4097, 20000}

// caseList is a pure function of (seed, tier).
func inprocCases(c *core.Ctx) []Case {
	var cs []Case
	add := func(kind string, n int, v string) {
		cs = append(cs, Case{ID: fmt.Sprintf("%s-%d", kind, len(cs)), Kind: kind, N: n, Var: v})
	}
	rng := c.Rng("sizes")
	randN := func() int {
		switch rng.Intn(10) {
		case 0:
			return rng.Intn(3)
		case 1:
			return 60 + rng.Intn(10)
		case 2:
			return 95 + rng.Intn(12) // around the 100-row inference preview
		case 3:
			return 120 + rng.Intn(20)
		case 4:
			return 300 + rng.Intn(3000)
		default:
			return 2 + rng.Intn(60)
		}
	}
	// json
	for _, n := range jsonBoundarySizes {
		add("json", n, "")
	}
	for i := 0; i < c.Pick(40, 2500); i++ {
		add("json", randN(), "")
	}
	add("json", 30, "overlimit")
	// csv / tsv
	for _, n := range []int{0, 1, 2, 99, 100, 101, 5000} {
		add("csv", n, "")
		add("csv", n, "noheader")
	}
	for i := 0; i < c.Pick(40, 2000); i++ {
		v := ""
		if rng.Intn(3) == 0 {
			v = "noheader"
		}
		add("csv", randN(), v)
	}
	for i := 0; i < c.Pick(12, 500); i++ {
		v := ""
		if rng.Intn(3) == 0 {
			v = "noheader"
		}
		add("tsv", randN(), v)
	}
	// lines: every separator at several sizes, and lines around the scanner's 64 KiB token limit
	sepNames := make([]string, 0, len(lineSeps))
	for k := range lineSeps {
		sepNames = append(sepNames, k)
	}
	sort.Strings(sepNames)
	for _, s := range sepNames {
		for _, n := range []int{0, 1, 2, 7, 300} {
			add("lines", n, s)
		}
		for i := 0; i < c.Pick(1, 60); i++ {
			add("lines", randN(), s)
		}
	}
	for _, s := range []string{"nl", "semi", "semi2", "crlf"} {
		for _, l := range []int{scannerMax - 3, scannerMax - 2, scannerMax - 1, scannerMax, scannerMax + 1, 3 * scannerMax} {
			add("lines", 9, s+":long"+strconv.Itoa(l))
		}
	}
	// parquet
	for _, n := range []int{0, 1, 2, 1000, 5000} {
		add("parquet", n, "")
	}
	for i := 0; i < c.Pick(25, 1500); i++ {
		add("parquet", randN(), "")
	}
	// first-field files (firstfield.go); appended last so that the ids above stay what they were
	for v := 0; v < 6; v++ {
		add("csv", v, "firstfield")
		add("csv", v+6, "firstfield-noheader")
		add("tsv", v+12, "firstfield")
		add("tsv", v+18, "firstfield-noheader")
	}
	return cs
}

// jsonChildCases: the JSON files every (GOMAXPROCS, delay) child runs.
func jsonChildCases(c *core.Ctx, extra int, big bool) []Case {
	var cs []Case
	for _, n := range jsonBoundarySizes {
		if n > 5000 && !big {
			continue
		}
		if core.Quick(c) && !big && !(n == 1 || n == 64 || n == 65 || n == 129 || n == 4097) {
			continue // quick tier: delay seeds 2..5 run a reduced boundary set
		}
		cs = append(cs, Case{ID: fmt.Sprintf("jsonb-%d", n), Kind: "json", N: n})
	}
	rng := c.Rng("child-sizes")
	for i := 0; i < extra; i++ {
		n := 1 + rng.Intn(400)
		if rng.Intn(10) == 0 {
			n = 1000 + rng.Intn(6000)
		}
		cs = append(cs, Case{ID: fmt.Sprintf("jsonr-%d", i), Kind: "json", N: n})
	}
	return cs
}

// ---------------------------------------------------------------------------------------------
// child mode

const childEnv = "VERIF_C23_CHILD"

func childMain(c *core.Ctx) {
	defer os.RemoveAll(c.Scratch)
	data, err := os.ReadFile(os.Getenv(childEnv))
	if err != nil {
		fmt.Println("CHILD-ERROR cannot read case list:", err)
		os.RemoveAll(c.Scratch)
		os.Exit(3)
	}
	var cases []Case
	if err := json.Unmarshal(data, &cases); err != nil {
		fmt.Println("CHILD-ERROR bad case list:", err)
		os.RemoveAll(c.Scratch)
		os.Exit(3)
	}
	par, _ := strconv.Atoi(os.Getenv("VERIF_C23_PAR"))
	if par < 1 {
		par = 1
	}
	var mu sync.Mutex
	out := bufio.NewWriter(os.Stdout)
	core.Parallel(len(cases), par, func(i int) {
		mu.Lock()
		fmt.Fprintf(out, "START %s\n", cases[i].ID)
		out.Flush()
		mu.Unlock()
		r := runCase(c, cases[i], c.Scratch)
		b, _ := json.Marshal(r)
		mu.Lock()
		fmt.Fprintf(out, "RESULT %s\n", b)
		out.Flush()
		mu.Unlock()
	})
	fmt.Fprintf(out, "DONE gomaxprocs=%d\n", runtime.GOMAXPROCS(0))
	out.Flush()
	os.RemoveAll(c.Scratch)
	os.Exit(0)
}

type childLeg struct {
	name     string
	gmp      int
	delay    string // VERIF_DELAY value or ""
	race     bool
	par      int
	cases    []Case
	traceOut string
}

type childOutcome struct {
	results  []*Result
	started  map[string]bool
	done     bool
	exitErr  error
	stderr   []byte
	timedOut bool
}

func runChild(c *core.Ctx, leg childLeg) childOutcome {
	var oc childOutcome
	oc.started = map[string]bool{}
	bin := os.Args[0]
	if leg.race {
		bin = os.Getenv("VERIF_VHARNESS_RACE")
		if bin == "" {
			bin = filepath.Join(c.BinDir, "vharness-race")
		}
	}
	listPath := filepath.Join(c.Scratch, "cases-"+leg.name+".json")
	b, _ := json.Marshal(leg.cases)
	if err := os.WriteFile(listPath, b, 0o644); err != nil {
		oc.exitErr = err
		return oc
	}
	defer os.Remove(listPath)
	cmd := exec.Command(bin, "-prop", "C23", "-tier", c.Tier, "-seed", strconv.FormatInt(c.Seed, 10), "-root", c.Root)
	env := []string{}
	for _, e := range os.Environ() {
		if strings.HasPrefix(e, "GOMAXPROCS=") || strings.HasPrefix(e, "VERIF_DELAY=") || strings.HasPrefix(e, "VERIF_TRACE=") || strings.HasPrefix(e, "GORACE=") {
			continue
		}
		env = append(env, e)
	}
	env = append(env, childEnv+"="+listPath, "GOMAXPROCS="+strconv.Itoa(leg.gmp), "VERIF_C23_PAR="+strconv.Itoa(leg.par))
	if leg.delay != "" {
		env = append(env, "VERIF_DELAY="+leg.delay)
	}
	if leg.traceOut != "" {
		env = append(env, "VERIF_TRACE="+leg.traceOut)
	}
	if leg.race {
		env = append(env, "GORACE=halt_on_error=0")
	}
	cmd.Env = env
	var stdout, stderr bytes.Buffer
	cmd.Stdout, cmd.Stderr = &stdout, &stderr
	if err := cmd.Start(); err != nil {
		oc.exitErr = err
		return oc
	}
	done := make(chan error, 1)
	go func() { done <- cmd.Wait() }()
	limit := 10 * time.Minute
	if leg.race {
		limit = 20 * time.Minute
	}
	select {
	case oc.exitErr = <-done:
	case <-time.After(limit):
		oc.timedOut = true
		_ = cmd.Process.Kill()
		<-done
	}
	oc.stderr = stderr.Bytes()
	sc := bufio.NewScanner(&stdout)
	sc.Buffer(nil, 64<<20)
	for sc.Scan() {
		l := sc.Text()
		switch {
		case strings.HasPrefix(l, "START "):
			oc.started[l[6:]] = true
		case strings.HasPrefix(l, "RESULT "):
			var r Result
			if err := json.Unmarshal([]byte(l[7:]), &r); err == nil {
				oc.results = append(oc.results, &r)
				delete(oc.started, r.ID)
			}
		case strings.HasPrefix(l, "DONE "):
			oc.done = true
		}
	}
	return oc
}

// panicSiteOf finds the innermost octosql frame in a crash trace on stderr.
func panicSiteOf(stderr []byte) (string, string) {
	s := string(stderr)
	i := strings.Index(s, "panic: ")
	if j := strings.Index(s, "fatal error: "); i < 0 || (j >= 0 && j < i) {
		i = j
	}
	if i < 0 {
		return "", ""
	}
	msg := s[i:]
	if k := strings.IndexByte(msg, '\n'); k >= 0 {
		msg = msg[:k]
	}
	return core.PanicSite(s[i:]), msg
}

func handleChild(c *core.Ctx, leg childLeg, oc childOutcome) {
	for _, r := range oc.results {
		apply(c, r, leg.name)
	}
	c.Count("child_legs/"+legClass(leg), 1)
	if leg.race {
		n := bytes.Count(oc.stderr, []byte("WARNING: DATA RACE"))
		c.Count("race_leg/data_race_reports", n)
		c.Note("race_leg_ran", true)
		if n > 0 {
			c.Note("race_leg_first_report", trunc(firstRace(oc.stderr), 3000))
		}
	}
	if oc.done {
		return
	}
	if oc.timedOut {
		c.Inconclusive("child-watchdog")
		return
	}
	var ids []string
	for id := range oc.started {
		ids = append(ids, id)
	}
	sort.Strings(ids)
	replay := map[string]interface{}{"leg": leg.name, "gomaxprocs": leg.gmp, "delay": leg.delay, "cases_in_flight": ids,
		"stderr_tail": tail(oc.stderr, 6000), "exit": fmt.Sprint(oc.exitErr)}
	if site, msg := panicSiteOf(oc.stderr); site != "" {
		c.Eval(1)
		c.Violation("panic:"+site, "["+leg.name+"] child process died: "+msg+" (cases in flight: "+strings.Join(ids, ",")+")", replay)
		return
	}
	if leg.race && oc.exitErr != nil && len(oc.results) == len(leg.cases) {
		return // race detector exit status
	}
	c.Inconclusive("child-died-without-trace")
	c.Note("child_died_"+leg.name, replay)
}

func firstRace(stderr []byte) string {
	i := bytes.Index(stderr, []byte("WARNING: DATA RACE"))
	if i < 0 {
		return ""
	}
	s := stderr[i:]
	if j := bytes.Index(s[1:], []byte("==================")); j >= 0 {
		s = s[:j+1]
	}
	return string(s)
}

func tail(b []byte, n int) string {
	if len(b) > n {
		b = b[len(b)-n:]
	}
	return string(b)
}

func legClass(l childLeg) string {
	s := "gomaxprocs=" + strconv.Itoa(l.gmp)
	if l.delay != "" {
		s += "/delayed"
	} else {
		s += "/undelayed"
	}
	if l.race {
		s += "/race"
	}
	return s
}

// ---------------------------------------------------------------------------------------------

func Run(c *core.Ctx) core.FinishOpts {
	if os.Getenv(childEnv) != "" {
		childMain(c) // never returns
	}
	fileh.ApplyReplay(c)
	opts := core.FinishOpts{
		Level: "exploration",
		Rule: "cases = generated files with kept ground truth (json: random nested specs, first <=40 rows free, later rows re-draw a preview row's shape; csv/tsv: typed and mixed columns, " +
			"quoting, header on/off; lines: 8 separators, lines around the 64 KiB token limit; parquet: required/optional/repeated/LIST/group columns), each materialised with all, " +
			"some or none of the columns and, in-process, re-run (a second node from the same implementation interleaved; runs cut short by a consumer error after 0, 1, 64, n/2 or n-1 records; every full run must equal the first) under a hostile consumer that appends to / overwrites the records it was handed; legs = in-process, child processes GOMAXPROCS {1,2,4,16} x {no delay, 5 delay seeds}, race build, CLI files, CLI stdin in chunks, CLI scalar-subquery-with-LIMIT and LOOKUP-JOIN-with-LIMIT shapes over csv/tsv/json; " +
			"non-trivial = at least 2 rows and 1 compared cell, counts equal and every cell compared to the end (discrepancies found are reported separately); distinct by (leg, file content hash, requested columns / chunking)",
		Floor: c.Pick(250, 5000),
		Assumptions: []string{"ground truth = what the generator serialised; numbers are judged against strconv.ParseFloat of the literal (correct rounding)",
			"encoding/json (strict decode of -o json), strconv, time.Parse are trusted", "parquet fixtures are written by the pinned parquet-go fork's row writer (trusted to write the levels it is given)",
			"delays widen the explored worker schedules but do not enumerate them"},
	}
	if c.Only != "" {
		for _, cs := range inprocCases(c) {
			if cs.ID == c.Only {
				apply(c, runCase(c, cs, c.Scratch), "inproc")
			}
		}
		for _, cs := range jsonChildCases(c, c.Pick(0, 100), true) {
			if cs.ID == c.Only {
				apply(c, runCase(c, cs, c.Scratch), "inproc")
			}
		}
		runCLI(c)
		runCLIRerun(c)
		return opts
	}

	// (a1) in-process, this process's worker pool
	t0 := time.Now()
	walls := map[string]string{}
	cases := inprocCases(c)
	var mu sync.Mutex
	results := make([]*Result, len(cases))
	core.Parallel(len(cases), 16, func(i int) {
		c.LogCase(cases[i].ID, cases[i].Kind, " n=", cases[i].N, " ", cases[i].Var) // JSON worker goroutines are not ours
		r := runCase(c, cases[i], c.Scratch)
		mu.Lock()
		results[i] = r
		mu.Unlock()
	})
	for _, r := range results {
		apply(c, r, "inproc")
	}

	walls["inproc"] = time.Since(t0).Round(time.Millisecond).String()
	t0 = time.Now()
	// (a2) child processes: worker counts x delays
	var legs []childLeg
	extra := c.Pick(0, 100)
	nSeeds := 5
	for _, g := range []int{1, 2, 4, 16} {
		legs = append(legs, childLeg{name: fmt.Sprintf("child-p%d-nodelay", g), gmp: g, par: 1 + g/8, cases: jsonChildCases(c, extra, true)})
		for s := 1; s <= nSeeds; s++ {
			max := []int{200, 1000, 3000, 500, 1500}[s-1]
			legs = append(legs, childLeg{name: fmt.Sprintf("child-p%d-delay%d", g, s), gmp: g, par: 1 + (s % 2),
				delay: fmt.Sprintf("json.worker.batch_parsed,json.reader.before_submit:%d:%d", max, c.Seed*100+int64(s)),
				cases: jsonChildCases(c, extra, s == 1 || !core.Quick(c))})
		}
	}
	tracePath := filepath.Join(c.Scratch, "hook-trace.txt")
	legs[1].traceOut = tracePath
	raceCases := jsonChildCases(c, c.Pick(0, 30), !core.Quick(c))
	legs = append(legs, childLeg{name: "child-race-p4-delay", gmp: 4, par: 2, race: true,
		delay: fmt.Sprintf("json.worker.batch_parsed,json.reader.before_submit:800:%d", c.Seed*100+77), cases: raceCases})
	raceBin := os.Getenv("VERIF_VHARNESS_RACE")
	if raceBin == "" {
		raceBin = filepath.Join(c.BinDir, "vharness-race")
	}
	if _, err := os.Stat(raceBin); err != nil {
		legs = legs[:len(legs)-1]
		c.Note("race_leg_ran", false)
		c.Count("race_leg/skipped_no_race_binary", 1)
	}
	outcomes := make([]childOutcome, len(legs))
	legWall := map[string]string{}
	core.Parallel(len(legs), 6, func(i int) {
		ts := time.Now()
		oc := runChild(c, legs[i])
		mu.Lock()
		outcomes[i] = oc
		legWall[legs[i].name] = time.Since(ts).Round(time.Millisecond).String()
		mu.Unlock()
	})
	c.Note("wall_per_child_leg", legWall)
	for i := range legs {
		handleChild(c, legs[i], outcomes[i])
	}
	if data, err := os.ReadFile(tracePath); err == nil {
		seen := map[string]int{}
		for _, l := range strings.Split(string(data), "\n") {
			if l != "" {
				seen[l]++
			}
		}
		c.Note("hook_points_reached_in_one_delayed_child", seen)
	}

	walls["children"] = time.Since(t0).Round(time.Millisecond).String()
	t0 = time.Now()
	// (b) CLI
	runCLI(c)
	runCLIRerun(c)
	walls["cli"] = time.Since(t0).Round(time.Millisecond).String()
	c.Note("wall_per_leg_group", walls)
	return opts
}

package main

import (
	"bufio"
	"bytes"
	"fmt"
	"strings"
)

func main() {
	for _, L := range []int{65533, 65534, 65535} {
		content := "a;;b;;" + strings.Repeat("L", L) + ";;c;;d"
		sc := bufio.NewScanner(strings.NewReader(content))
		sep := ";;"
		sc.Split(func(data []byte, atEOF bool) (advance int, token []byte, err error) {
			if atEOF && len(data) == 0 {
				return 0, nil, nil
			}
			if i := bytes.Index(data, []byte(sep)); i >= 0 {
				return i + 1, data[0:i], nil
			}
			if atEOF {
				return len(data), data, nil
			}
			return 0, nil, nil
		})
		n := 0
		for sc.Scan() {
			fmt.Print(len(sc.Text()), " ")
			n++
		}
		fmt.Println("->", n, sc.Err())
	}
}

package c23

import (
	"encoding/json"
	"fmt"
	"os"
	"strconv"

	"github.com/cube2222/octosql/octosql"
	"github.com/cube2222/octosql/physical"

	"github.com/cube2222/octosql/plugins/verifharness/cli"
)

var selftestEnv = os.Getenv("VERIF_SELFTEST")

// decodedLines turns decoded `-o json` rows of a lines table back into (number, text) records so
// that the in-process judge can be reused.
func decodedLines(rows []cli.JSONRow) (used []physical.SchemaField, recs [][]octosql.Value, bad string) {
	used = []physical.SchemaField{{Name: "number", Type: octosql.Int}, {Name: "text", Type: octosql.String}}
	for i, row := range rows {
		n, ok1 := row.Values["number"].(json.Number)
		t, ok2 := row.Values["text"].(string)
		if !ok1 || !ok2 || len(row.Keys) != 2 {
			return nil, nil, fmt.Sprintf("output row %d is not {number, text}: %v", i, row.Values)
		}
		k, err := strconv.ParseInt(string(n), 10, 64)
		if err != nil {
			return nil, nil, fmt.Sprintf("output row %d has number %s", i, n)
		}
		recs = append(recs, []octosql.Value{octosql.NewInt(k), octosql.NewString(t)})
	}
	return used, recs, ""
}
